(* Model runner: reads one case per line, runs the extracted Coq model, prints one result per line.
   Contains no bita logic: only parsing into the extracted datatypes and printing. *)
open Model

let rec pos_of_int (i : int) : positive =
  if i = 1 then XH
  else if i land 1 = 0 then XO (pos_of_int (i lsr 1))
  else XI (pos_of_int (i lsr 1))

let n_of_int (i : int) : n = if i = 0 then N0 else Npos (pos_of_int i)

let rec int_of_pos (p : positive) : int =
  match p with XH -> 1 | XO q -> 2 * int_of_pos q | XI q -> 2 * int_of_pos q + 1

let int_of_n (x : n) : int = match x with N0 -> 0 | Npos p -> int_of_pos p

(* decimal string of an N of any size *)
let string_of_n (x : n) : string =
  (* values that fit in 62 bits are printed through int; larger ones digit by digit *)
  let rec bits p = match p with XH -> 1 | XO q | XI q -> 1 + bits q in
  match x with
  | N0 -> "0"
  | Npos p when bits p <= 61 -> string_of_int (int_of_pos p)
  | Npos _ ->
      let ten = n_of_int 10 in
      let buf = Buffer.create 24 in
      let rec go v acc =
        match v with
        | N0 -> acc
        | _ ->
            let (q, r) = N.div_eucl v ten in
            go q (string_of_int (int_of_n r) :: acc) in
      List.iter (Buffer.add_string buf) (go x []);
      Buffer.contents buf

(* decimal string (any size) to N *)
let n_of_string (s : string) : n =
  if String.length s <= 17 then n_of_int (int_of_string s)
  else begin
    let ten = n_of_int 10 in
    let acc = ref N0 in
    String.iter (fun c -> acc := N.add (N.mul !acc ten) (n_of_int (Char.code c - 48))) s;
    !acc
  end

let rec nat_of_int (i : int) : nat =
  let rec go i acc = if i = 0 then acc else go (i - 1) (S acc) in
  go i O

let byte_tab : n array = Array.init 256 n_of_int

let hexval c =
  match c with
  | '0' .. '9' -> Char.code c - 48
  | 'a' .. 'f' -> Char.code c - 87
  | 'A' .. 'F' -> Char.code c - 55
  | _ -> failwith "bad hex"

(* "-" is the empty byte string *)
let bytes_of_hex (s : string) : n list =
  if s = "-" then []
  else begin
    let len = String.length s / 2 in
    let r = ref [] in
    for i = len - 1 downto 0 do
      r := byte_tab.(hexval s.[2 * i] * 16 + hexval s.[2 * i + 1]) :: !r
    done;
    !r
  end

let hex_of_bytes (l : n list) : string =
  if l = [] then "-"
  else begin
    let b = Buffer.create 64 in
    List.iter (fun x -> Buffer.add_string b (Printf.sprintf "%02x" (int_of_n x))) l;
    Buffer.contents b
  end

let split_on c s = if s = "" then [] else String.split_on_char c s

let algo_of = function
  | "B" -> ABuzHash
  | "R" -> ARollSum
  | "F" -> AFixed
  | _ -> failwith "algo"

let config_of a bits mn mx w =
  { c_algo = algo_of a; c_bits = n_of_string bits; c_min = n_of_string mn; c_max = n_of_string mx;
    c_win = n_of_string w }

let print_outcome (pr : 'a -> string) (o : 'a outcome) : string =
  match o with
  | Ok a -> "OK " ^ pr a
  | Err e -> "ERR " ^ string_of_n e
  | Panic _ -> "PANIC"
  | OutOfFuel -> "FUEL"

let pr_chunks (l : (n * n) list) : string =
  String.concat " " (List.map (fun (o, s) -> string_of_n o ^ ":" ^ string_of_n s) l)

let sched_of (s : string) : ev list =
  if s = "-" then []
  else
    List.map
      (fun t -> if t = "p" then EvPending else EvRead (nat_of_int (int_of_string (String.sub t 1 (String.length t - 1)))))
      (split_on ',' s)

(* ---- suites ---- *)
let run_hash toks =
  match toks with
  | [ a; w; data ] ->
      let w = n_of_string w in
      let data = bytes_of_hex data in
      let out = Buffer.create 1024 in
      (match a with
      | "R" ->
          let h = ref (rs_new w) in
          List.iter
            (fun b ->
              h := rs_input !h b;
              Buffer.add_string out (string_of_n (rs_sum !h));
              Buffer.add_char out ' ')
            data
      | _ ->
          let h = ref (bh_new w) in
          List.iter
            (fun b ->
              if (!h).bh_full then h := bh_input !h b else h := bh_init !h b;
              if (!h).bh_full then begin
                Buffer.add_string out (string_of_n (bh_sum !h));
                Buffer.add_char out ' '
              end)
            data);
      "OK " ^ String.trim (Buffer.contents out)
  | _ -> failwith "hash: bad case"

let run_oneshot toks =
  match toks with
  | [ a; bits; mn; mx; w; data ] ->
      print_outcome pr_chunks (chunk_oneshot (config_of a bits mn mx w) (bytes_of_hex data))
  | _ -> failwith "oneshot: bad case"

let run_stream toks =
  match toks with
  | [ a; bits; mn; mx; w; data; sched ] ->
      print_outcome pr_chunks (chunk_stream (config_of a bits mn mx w) (bytes_of_hex data) (sched_of sched))
  | _ -> failwith "stream: bad case"

let run_spec toks =
  match toks with
  | [ a; bits; mn; mx; w; data ] ->
      "OK " ^ pr_chunks (spec_chunks (config_of a bits mn mx w) false (bytes_of_hex data))
  | _ -> failwith "spec: bad case"

(* ---- chunk index / clone output ---- *)
let nlist_of (s : string) : n list = if s = "" then [] else List.map n_of_string (split_on ',' s)

let index_of (s : string) : (n * loc) list =
  if s = "-" then []
  else
    List.map
      (fun e ->
        match String.split_on_char ':' e with
        | [ k; sz; offs ] -> (n_of_string k, { l_size = n_of_string sz; l_offs = nlist_of offs })
        | _ -> failwith "index entry")
      (split_on ';' s)

let pr_nlist l = String.concat "," (List.map string_of_n l)

let pr_index (idx : (n * loc) list) : string =
  if idx = [] then "-"
  else
    let l = List.sort (fun (a, _) (b, _) -> compare (int_of_n a) (int_of_n b)) idx in
    String.concat ";" (List.map (fun (k, l) -> string_of_n k ^ ":" ^ string_of_n l.l_size ^ ":" ^ pr_nlist l.l_offs) l)

let pr_ops (ops : rop list) : string =
  if ops = [] then "-"
  else
    String.concat " "
      (List.map
         (function
           | RCopy (k, size, src, dests) -> "C" ^ string_of_n k ^ ":" ^ string_of_n size ^ ":" ^ string_of_n src ^ ":" ^ pr_nlist dests
           | RStore (k, size, src) -> "M" ^ string_of_n k ^ ":" ^ string_of_n size ^ ":" ^ string_of_n src)
         ops)

let run_planner toks =
  match toks with
  | [ cur; tgt ] ->
      let cur = index_of cur and tgt = index_of tgt in
      let ((stripped, cnt), total) = strip_in_place cur tgt in
      let ops = reorder_ops cur stripped in
      "OK " ^ string_of_n cnt ^ " " ^ string_of_n total ^ " | " ^ pr_index stripped ^ " | " ^ pr_ops ops
  | _ -> failwith "planner: bad case"

let pr_trace (t : tev list) : string =
  if t = [] then "-"
  else
    String.concat ","
      (List.map (function TSeek o -> "s" ^ string_of_n o | TWrite d -> "w" ^ hex_of_bytes d | TRead k -> "r" ^ string_of_n k) t)

let feeds_of (s : string) : (n * n list) list =
  if s = "-" then []
  else List.map (fun f -> match String.split_on_char '=' f with [ k; d ] -> (n_of_string k, bytes_of_hex d) | _ -> failwith "feed") (split_on ';' s)

let run_planneriter toks =
  match toks with
  | [ cur; tgt ] ->
      let cur = index_of cur and tgt = index_of tgt in
      let ((stripped, cnt), total) = strip_in_place cur tgt in
      let ops = reorder_ops_iter cur stripped in
      "OK " ^ string_of_n cnt ^ " " ^ string_of_n total ^ " | " ^ pr_index stripped ^ " | " ^ pr_ops ops
  | _ -> failwith "planneriter: bad case"

(* ---- ChunkIndex keyed by HashSum bytes ---- *)
let run_hashkey toks =
  match toks with
  | [ l; ops ] ->
      let l = n_of_string l in
      let idx = ref [] in
      let out = Buffer.create 256 in
      List.iter
        (fun o ->
          let kind = o.[0] and rest = String.sub o 1 (String.length o - 1) in
          match kind with
          | 'a' -> (match String.split_on_char ':' rest with
              | [ h; sz; offs ] -> idx := hci_add l !idx (hs_from (bytes_of_hex h)) (n_of_string sz) (nlist_of offs)
              | _ -> failwith "hashkey add")
          | 'c' -> Buffer.add_string out (if hci_contains l !idx (hs_from (bytes_of_hex rest)) then "1" else "0")
          | 'r' ->
              let h = hs_from (bytes_of_hex rest) in
              (match hci_get !idx (takeN l h) with
               | Some loc -> Buffer.add_string out ("[" ^ string_of_n loc.l_size ^ ":" ^ pr_nlist loc.l_offs ^ "]")
               | None -> Buffer.add_string out "[-]");
              idx := hci_remove l !idx h
          | _ -> failwith "hashkey op")
        (split_on '/' ops);
      let sorted = List.sort compare (List.map (fun (k, loc) -> hex_of_bytes k ^ ":" ^ string_of_n loc.l_size ^ ":" ^ pr_nlist loc.l_offs) !idx) in
      "OK " ^ Buffer.contents out ^ " | " ^ (if sorted = [] then "-" else String.concat ";" sorted)
  | _ -> failwith "hashkey"

let run_clone toks =
  match toks with
  | [ prior; cidx; oidx; fault; seeds; arch ] ->
      let fault =
        if fault = "-" then None
        else match String.split_on_char ',' fault with [ k; t ] -> Some (n_of_string k, n_of_string t) | _ -> failwith "fault" in
      let oi = if oidx = "N" then None else Some (index_of (String.sub oidx 1 (String.length oidx - 1))) in
      let r = clone_model (bytes_of_hex prior) fault (index_of cidx) oi (feeds_of seeds) (feeds_of arch) in
      let st = r.cr_state in
      (match st.o_err with
      | None ->
          "OK " ^ string_of_n r.cr_moved ^ " " ^ (if r.cr_fed = [] then "-" else pr_nlist r.cr_fed) ^ " "
          ^ (if r.cr_fetch = [] then "-" else pr_nlist r.cr_fetch) ^ " " ^ hex_of_bytes st.o_file ^ " "
          ^ pr_trace st.o_trace ^ " " ^ pr_index r.cr_index
      | Some _ -> "ERR " ^ hex_of_bytes st.o_file ^ " " ^ pr_trace st.o_trace)
  | _ -> failwith "clone: bad case"

(* ---- dictionary codec / archive ---- *)
let strip1 (s : string) : string = String.sub s 1 (String.length s - 1)

let dict_of_tokens (toks : string list) : dictionary =
  match toks with
  | [ v; c; t; p; z; o; d; m ] ->
      let params =
        if strip1 p = "-" then None
        else match List.map n_of_string (split_on ',' (strip1 p)) with
          | [ a; b; c'; d'; e; f ] -> Some { p_bits = a; p_min = b; p_max = c'; p_win = d'; p_hashlen = e; p_algo = f }
          | _ -> failwith "params" in
      let comp =
        if strip1 z = "-" then None
        else match List.map n_of_string (split_on ',' (strip1 z)) with
          | [ a; b ] -> Some { z_type = a; z_level = b } | _ -> failwith "comp" in
      let descs =
        if strip1 d = "-" then []
        else List.map (fun e -> match String.split_on_char ':' e with
            | [ cs; a; b; c' ] -> { d_checksum = bytes_of_hex cs; d_archive_size = n_of_string a; d_archive_offset = n_of_string b; d_source_size = n_of_string c' }
            | _ -> failwith "desc") (split_on ';' (strip1 d)) in
      let meta =
        if strip1 m = "-" then []
        else List.map (fun e -> match String.split_on_char ':' e with [ k; v' ] -> (bytes_of_hex k, bytes_of_hex v') | _ -> failwith "meta") (split_on ';' (strip1 m)) in
      { dict_version = bytes_of_hex (strip1 v); dict_checksum = bytes_of_hex (strip1 c); dict_total = n_of_string (strip1 t);
        dict_params = params; dict_comp = comp;
        dict_order = (if strip1 o = "-" then [] else nlist_of (strip1 o)); dict_descs = descs; dict_meta = meta }
  | _ -> failwith "dict tokens"

let pr_dict (d : dictionary) : string =
  let p = match d.dict_params with
    | Some p -> pr_nlist [ p.p_bits; p.p_min; p.p_max; p.p_win; p.p_hashlen; p.p_algo ] | None -> "-" in
  let z = match d.dict_comp with Some c -> pr_nlist [ c.z_type; c.z_level ] | None -> "-" in
  let o = if d.dict_order = [] then "-" else pr_nlist d.dict_order in
  let ds = if d.dict_descs = [] then "-" else
      String.concat ";" (List.map (fun x -> hex_of_bytes x.d_checksum ^ ":" ^ string_of_n x.d_archive_size ^ ":" ^ string_of_n x.d_archive_offset ^ ":" ^ string_of_n x.d_source_size) d.dict_descs) in
  let m = if d.dict_meta = [] then "-" else String.concat ";" (List.map (fun (k, v) -> hex_of_bytes k ^ ":" ^ hex_of_bytes v) d.dict_meta) in
  "V" ^ hex_of_bytes d.dict_version ^ " C" ^ hex_of_bytes d.dict_checksum ^ " T" ^ string_of_n d.dict_total ^ " P" ^ p ^ " Z" ^ z ^ " O" ^ o ^ " D" ^ ds ^ " M" ^ m

let run_protoenc toks = "OK " ^ hex_of_bytes (encode_dict (dict_of_tokens toks))

let run_protodec toks =
  match toks with
  | [ b ] -> (match decode_dict (bytes_of_hex b) with Some d -> "OK " ^ pr_dict d | None -> "ERR")
  | _ -> failwith "protodec"

(* hash oracle: a table of (input, hash) pairs supplied with the case; unknown inputs hash to zeros *)
let zeros64 : n list = List.init 64 (fun _ -> N0)
let hash_oracle (tab : (n list * n list) list) (x : n list) : n list =
  match List.find_opt (fun (k, _) -> k = x) tab with Some (_, h) -> h | None -> zeros64


(* ---- Blake2b-512 (RFC 7693, unkeyed), used as the strong hash H where candidate payloads cannot be tabulated in
   advance (misbehaving servers); checked against every (input, hash) pair the harness supplies ---- *)
let b2_iv = [| 0x6a09e667f3bcc908L; 0xbb67ae8584caa73bL; 0x3c6ef372fe94f82bL; 0xa54ff53a5f1d36f1L;
               0x510e527fade682d1L; 0x9b05688c2b3e6c1fL; 0x1f83d9abfb41bd6bL; 0x5be0cd19137e2179L |]
let b2_sigma = [|
  [| 0; 1; 2; 3; 4; 5; 6; 7; 8; 9; 10; 11; 12; 13; 14; 15 |]; [| 14; 10; 4; 8; 9; 15; 13; 6; 1; 12; 0; 2; 11; 7; 5; 3 |];
  [| 11; 8; 12; 0; 5; 2; 15; 13; 10; 14; 3; 6; 7; 1; 9; 4 |]; [| 7; 9; 3; 1; 13; 12; 11; 14; 2; 6; 5; 10; 4; 0; 15; 8 |];
  [| 9; 0; 5; 7; 2; 4; 10; 15; 14; 1; 11; 12; 6; 8; 3; 13 |]; [| 2; 12; 6; 10; 0; 11; 8; 3; 4; 13; 7; 5; 15; 14; 1; 9 |];
  [| 12; 5; 1; 15; 14; 13; 4; 10; 0; 7; 6; 3; 9; 2; 8; 11 |]; [| 13; 11; 7; 14; 12; 1; 3; 9; 5; 0; 15; 4; 8; 6; 2; 10 |];
  [| 6; 15; 14; 9; 11; 3; 0; 8; 12; 2; 13; 7; 1; 4; 10; 5 |]; [| 10; 2; 8; 4; 7; 6; 1; 5; 15; 11; 9; 14; 3; 12; 13; 0 |] |]
let b2_rotr x n = Int64.logor (Int64.shift_right_logical x n) (Int64.shift_left x (64 - n))
let blake2b_512 (input : int array) : int array =
  let h = Array.copy b2_iv in
  h.(0) <- Int64.logxor h.(0) 0x01010040L;
  let len = Array.length input in
  let compress (block_start : int) (block_len : int) (t : int) (last : bool) =
    let m = Array.make 16 0L in
    for i = 0 to block_len - 1 do
      let w = i / 8 and sh = 8 * (i mod 8) in
      m.(w) <- Int64.logor m.(w) (Int64.shift_left (Int64.of_int input.(block_start + i)) sh)
    done;
    let v = Array.make 16 0L in
    for i = 0 to 7 do v.(i) <- h.(i); v.(i + 8) <- b2_iv.(i) done;
    v.(12) <- Int64.logxor v.(12) (Int64.of_int t);
    if last then v.(14) <- Int64.lognot v.(14);
    let g a b c d x y =
      v.(a) <- Int64.add (Int64.add v.(a) v.(b)) x;
      v.(d) <- b2_rotr (Int64.logxor v.(d) v.(a)) 32;
      v.(c) <- Int64.add v.(c) v.(d);
      v.(b) <- b2_rotr (Int64.logxor v.(b) v.(c)) 24;
      v.(a) <- Int64.add (Int64.add v.(a) v.(b)) y;
      v.(d) <- b2_rotr (Int64.logxor v.(d) v.(a)) 16;
      v.(c) <- Int64.add v.(c) v.(d);
      v.(b) <- b2_rotr (Int64.logxor v.(b) v.(c)) 63 in
    for r = 0 to 11 do
      let s = b2_sigma.(r mod 10) in
      g 0 4 8 12 m.(s.(0)) m.(s.(1)); g 1 5 9 13 m.(s.(2)) m.(s.(3));
      g 2 6 10 14 m.(s.(4)) m.(s.(5)); g 3 7 11 15 m.(s.(6)) m.(s.(7));
      g 0 5 10 15 m.(s.(8)) m.(s.(9)); g 1 6 11 12 m.(s.(10)) m.(s.(11));
      g 2 7 8 13 m.(s.(12)) m.(s.(13)); g 3 4 9 14 m.(s.(14)) m.(s.(15))
    done;
    for i = 0 to 7 do h.(i) <- Int64.logxor h.(i) (Int64.logxor v.(i) v.(i + 8)) done in
  let pos = ref 0 in
  while len - !pos > 128 do
    compress !pos 128 (!pos + 128) false;
    pos := !pos + 128
  done;
  compress !pos (len - !pos) len true;
  Array.init 64 (fun i -> Int64.to_int (Int64.logand (Int64.shift_right_logical h.(i / 8) (8 * (i mod 8))) 0xffL))

let real_hash (tab : (n list * n list) list) : n list -> n list =
  let h x = List.map n_of_int (Array.to_list (blake2b_512 (Array.of_list (List.map int_of_n x)))) in
  List.iter (fun (k, v) -> if h k <> v then failwith "blake2b self-test: the runner's hash differs from a pair supplied by the harness") tab;
  h

let pr_cfg (c : config) : string =
  (match c.c_algo with ABuzHash -> "B" | ARollSum -> "R" | AFixed -> "F") ^ "," ^ pr_nlist [ c.c_bits; c.c_min; c.c_max; c.c_win ]

let pr_archive hsh (a : archive) : string =
  let comp = match a.a_comp with None -> "-" | Some (t, l) -> pr_nlist [ t; l ] in
  let descs = if a.a_descs = [] then "-" else
      String.concat ";" (List.map (fun d -> hex_of_bytes d.ad_checksum ^ ":" ^ string_of_n d.ad_size ^ ":" ^ string_of_n d.ad_offset ^ ":" ^ string_of_n d.ad_source_size) a.a_descs) in
  let order = if a.a_order = [] then "-" else
      String.concat "," (List.map (fun (off, i) -> string_of_n i ^ "@" ^ string_of_n off) (source_chunks a a.a_order N0)) in
  let meta = if a.a_meta = [] then "-" else String.concat ";" (List.map (fun (k, v) -> hex_of_bytes k ^ ":" ^ hex_of_bytes v) a.a_meta) in
  "OK hs=" ^ string_of_n a.a_header_size ^ " hc=" ^ hex_of_bytes a.a_header_checksum ^ " off=" ^ string_of_n a.a_data_offset
  ^ " total=" ^ string_of_n a.a_total ^ " sc=" ^ hex_of_bytes a.a_source_checksum ^ " hl=" ^ string_of_n a.a_hashlen
  ^ " comp=" ^ comp ^ " cfg=" ^ pr_cfg a.a_cfg ^ " ver=" ^ hex_of_bytes a.a_version ^ " order=" ^ order ^ " descs=" ^ descs
  ^ " meta=" ^ meta ^ " idx=" ^ pr_index (build_source_index a)

let e_invalid = n_of_int 10
let rec run_tryinit_gen coarse toks =
  match toks with
  | [ b; hh ] ->
      let f = bytes_of_hex b in
      let tab =
        if hh = "-" then []
        else begin
          (* the pair is (archive[..14+dsize+8], hash) *)
          let arr = Array.of_list f in
          let dsize = ref 0 in
          for i = 13 downto 6 do dsize := (!dsize * 256) + int_of_n arr.(i) done;
          let offs = 14 + !dsize + 8 in
          [ (List.filteri (fun i _ -> i < offs) f, bytes_of_hex hh) ]
        end in
      let hsh = hash_oracle tab in
      (match try_init hsh (file_read_at f) with
       | Ok a -> if coarse then "OK" else pr_archive hsh a
       | Err e -> if coarse || e = e_invalid then "INVALID" else "READER"
       | Panic _ -> "PANIC"
       | OutOfFuel -> "FUEL")
  | _ -> failwith "tryinit"
let run_tryinit toks = run_tryinit_gen false toks

let rec run_compress_v version toks =
  match toks with
  | [ a; bits; mn; mx; w; hl; comp; meta; src; srchash; hdrhash; tab ] ->
      let src = bytes_of_hex src in
      let entries =
        if tab = "-" then []
        else List.map (fun e -> match String.split_on_char '=' e with
            | [ d; h; c ] -> (bytes_of_hex d, bytes_of_hex h, c) | _ -> failwith "tab") (split_on ';' tab) in
      let comp_opt = if comp = "-" then None else (match List.map n_of_string (split_on ',' comp) with [ t; l ] -> Some (t, l) | _ -> failwith "comp") in
      let compf (d : n list) : n list =
        match List.find_opt (fun (k, _, _) -> k = d) entries with
        | Some (_, _, c) -> if c = "-" then d else bytes_of_hex c
        | None -> d in
      let meta = if meta = "-" then [] else List.map (fun e -> match String.split_on_char ':' e with [ k; v ] -> (bytes_of_hex k, bytes_of_hex v) | _ -> failwith "meta") (split_on ';' meta) in
      let opts = { o_cfg = config_of a bits mn mx w; o_hashlen = n_of_string hl; o_comp = comp_opt; o_meta = meta; o_version = version } in
      (* the header hash is keyed by the header prefix the model itself builds: two passes *)
      let htab0 = (src, bytes_of_hex srchash) :: List.map (fun (d, h, _) -> (d, h)) entries in
      let first = compress_model (hash_oracle htab0) compf src opts in
      (match first with
       | Ok bytes0 ->
           let n = List.length bytes0 in
           ignore n;
           (* prefix = everything before the 64 hash bytes of the header; header length from the dict size field *)
           let arr = Array.of_list bytes0 in
           let dsize = ref 0 in
           for i = 13 downto 6 do dsize := (!dsize * 256) + int_of_n arr.(i) done;
           let offs = 14 + !dsize + 8 in
           let prefix = List.filteri (fun i _ -> i < offs) bytes0 in
           let htab = if hdrhash = "-" then htab0 else (prefix, bytes_of_hex hdrhash) :: htab0 in
           print_outcome hex_of_bytes (compress_model (hash_oracle htab) compf src opts)
       | o -> print_outcome hex_of_bytes o)
  | _ -> failwith "compress"

(* ---- readers ---- *)
let ranges_of (s : string) : range list =
  if s = "-" then []
  else List.map (fun r -> match String.split_on_char '+' r with [ o; z ] -> { r_off = n_of_string o; r_size = n_of_string z } | _ -> failwith "range") (split_on ',' s)

let script_of (s : string) : sitem list =
  if s = "-" then []
  else
    List.map
      (fun t ->
        let pre p = String.length t >= String.length p && String.sub t 0 (String.length p) = p in
        let arg p = n_of_string (String.sub t (String.length p) (String.length t - String.length p)) in
        if t = "ok" then SOk else if t = "refuse" then SRefuse else if t = "wrong" then SWrong
        else if pre "cut" then SCut (arg "cut") else if pre "short" then SShort (arg "short")
        else if pre "extra" then SExtra (arg "extra") else failwith "script")
      (split_on ',' s)

let e_end = n_of_int 21
let pr_item = function
  | IOk d -> "ok:" ^ hex_of_bytes d
  | IErr e -> if e = e_end then "err:END" else if e = n_of_int 22 then "err:EOF" else "err:HTTP"
let pr_items l = if l = [] then "-" else String.concat "," (List.map pr_item l)
let pr_log l = if l = [] then "-" else String.concat "," (List.map (fun (o, z) -> string_of_n o ^ "+" ^ string_of_n z) l)

let run_http toks =
  match toks with
  | [ f; ranges; retries; script ] ->
      let (items, log) = read_chunks_http (bytes_of_hex f) (n_of_string retries) (script_of script) (ranges_of ranges) in
      pr_items items ^ " | " ^ pr_log log
  | _ -> failwith "http"

let run_httpat toks =
  match toks with
  | [ f; off; size; retries; script ] ->
      let r = n_of_string retries in
      let (it, log) = http_read_at (nat_of_int (int_of_n r + 2)) (bytes_of_hex f) (n_of_string off) (n_of_string size) r (script_of script) [] in
      pr_items [ it ] ^ " | " ^ pr_log log
  | _ -> failwith "httpat"

let run_ioread toks =
  match toks with
  | [ f; ranges; sched ] ->
      let sc = if sched = "-" then [] else List.map (fun t -> if t = "p" then RPending else RRead (n_of_string (String.sub t 1 (String.length t - 1)))) (split_on ',' sched) in
      pr_items (io_read_chunks (bytes_of_hex f) (ranges_of ranges) sc)
  | _ -> failwith "ioread"

let run_compress toks = run_compress_v pKG_VERSION_LIB toks
let run_compresscli toks = run_compress_v pKG_VERSION_CLI toks

(* ---- command model ---- *)
let nl (l : int list) : n list = List.map n_of_int l
let src10 = nl [ 1; 2; 3; 4; 5; 6; 7; 8; 9; 10 ]
let run_cmd toks =
  match toks with
  | [ cmd; outkind; flag; ak ] ->
      let prior = nl [ 9; 9; 9 ] in
      let out = match outkind with
        | "absent" -> Absent | "regular" -> Reg prior | "regular-empty" -> Reg [] | "regular-long" -> Reg (nl [ 3; 3; 3; 3; 3; 3; 3; 3; 3; 3; 3; 3; 3; 3; 3; 3 ])
        | "blockdev-small" -> Blk (nl [ 7; 7; 7; 7; 7 ]) | "blockdev-mid" -> Blk (nl [ 7; 7; 7; 7; 7; 7; 7; 7; 7 ]) | _ -> Blk (nl [ 7; 7; 7; 7; 7; 7; 7; 7; 7; 7; 7; 7; 7; 7; 7 ]) in
      let st =
        if cmd = "clone" then
          clone_cmd_model { e_flags = { c_force_create = (flag = "force" || flag = "verify-force"); c_seed_output = (flag = "seed-output");
                                        c_verify_output = (flag = "verify" || flag = "verify-force") };
                            e_archive = (if ak = "invalid" || ak = "hc-flip2" || ak = "hc-swap" then AInvalid else AValid);
                            e_pin = (match ak with "mismatch" | "prefix-pin" | "prefix-pin-63" | "empty-pin" -> PinMismatch | "match-pin" -> PinMatch | _ -> NoPin);
                            e_out = out; e_src = src10 }
        else compress_cmd_model { z_flags = { z_force_create = (flag = "force") }; z_out = out; z_archive = src10 } in
      let state =
        match (out, st.s_out) with
        | Absent, Absent -> "absent"
        | Absent, _ -> "created"
        | _, Absent -> "removed"
        | a, b -> if a = b then "unchanged" else "modified" in
      (if st.s_failed then "FAIL " else "OK ") ^ state
  | _ -> failwith "cmd"

let run_openopts toks =
  match toks with
  | [ cr; cn; tr; outkind ] ->
      let prior = nl [ 9; 9; 9 ] in
      let out = match outkind with "absent" -> Absent | "regular" -> Reg prior | _ -> Reg [] in
      let st = open_output (cr = "1") (cn = "1") (tr = "1") { s_failed = false; s_out = out; s_eff = [] } in
      let len c = string_of_int (List.length c) in
      let state =
        match (out, st.s_out) with
        | Absent, Absent -> "absent"
        | Absent, (Reg c | Blk c) -> "created:" ^ len c
        | _, Absent -> "removed"
        | a, b -> if a = b then "unchanged" else (match b with Reg c | Blk c -> "modified:" ^ len c | Absent -> "removed") in
      (if st.s_failed then "FAIL " else "OK ") ^ state
  | _ -> failwith "openopts"

let run_trace toks =
  match toks with
  | [ mode ] ->
      let is_compress = String.length mode >= 8 && String.sub mode 0 8 = "compress" in
      let outname = if is_compress then "new.cba" else "out.bin" in
      let st =
        if is_compress then
          compress_cmd_model { z_flags = { z_force_create = (mode = "compress-force") }; z_out = (if mode = "compress-force" then Reg (nl [ 1 ]) else Absent); z_archive = src10 }
        else
          let inplace = (mode = "inplace" || mode = "inplace-seed-verify") in
          clone_cmd_model { e_flags = { c_force_create = (mode = "verify"); c_seed_output = inplace; c_verify_output = (mode = "verify" || mode = "inplace-seed-verify") };
                            e_archive = AValid; e_pin = NoPin; e_out = (if inplace then Reg (nl [ 3; 4 ]) else Absent); e_src = src10 } in
      let effs = List.filter_map (function
          | EOpenW (t, cr, ex, tr, ok) ->
              let fl = List.filter_map (fun (b, s) -> if b then Some s else None) [ (cr, "O_CREAT"); (ex, "O_EXCL"); (tr, "O_TRUNC") ] in
              Some ("openw:" ^ (if t = N0 then outname else "new..tmp") ^ ":" ^ String.concat "|" fl ^ (if ok then "" else ":failed"))
          | EUnlink t -> Some ("unlink:" ^ (if t = N0 then outname else "new..tmp"))
          | _ -> None) st.s_eff in
      String.concat " " (List.sort compare effs)
  | _ -> failwith "trace"

(* ---- archive level clone: open + fetch + decompress + verify + write ---- *)
let aclone_tables b hh tab =
  let f = bytes_of_hex b in
  let htab0 =
    if hh = "-" then []
    else begin
      let arr = Array.of_list f in
      let dsize = ref 0 in
      for i = 13 downto 6 do dsize := (!dsize * 256) + int_of_n arr.(i) done;
      let offs = 14 + !dsize + 8 in
      [ (List.filteri (fun i _ -> i < offs) f, bytes_of_hex hh) ]
    end in
  (* table entries: payload=hash(payload)=decompressed-or-!=hash(decompressed) *)
  let entries =
    if tab = "-" then []
    else List.map (fun e -> match String.split_on_char '=' e with
        | [ p; hp; d; hd ] -> (bytes_of_hex p, bytes_of_hex hp, (if d = "!" then None else Some (bytes_of_hex d)), hd)
        | _ -> failwith "aclone tab") (split_on ';' tab) in
  let htab = htab0 @ List.concat_map (fun (p, hp, d, hd) ->
      (p, hp) :: (match d with Some x -> [ (x, bytes_of_hex hd) ] | None -> [])) entries in
  let decompf (_alg : n) (p : n list) : n list option =
    match List.find_opt (fun (k, _, _, _) -> k = p) entries with Some (_, _, d, _) -> d | None -> None in
  (f, htab, decompf)

let pr_clone_out = function
  | Ok out -> "OK " ^ hex_of_bytes out
  | Err _ -> "ERR"
  | Panic _ -> "PANIC"
  | OutOfFuel -> "FUEL"

let run_aclone toks =
  match toks with
  | [ b; hh; tab ] ->
      let (f, htab, decompf) = aclone_tables b hh tab in
      pr_clone_out (open_and_clone (hash_oracle htab) decompf f)
  | _ -> failwith "aclone"

(* ---- the whole clone over byte strings: old output scanned in place, seeds scanned, archive ---- *)
let run_cbytes with_writes toks =
  match toks with
  | [ b; hh; tab; prior; inpl; seeds; ctab ] ->
      let (f, htab, decompf) = aclone_tables b hh tab in
      let extra = if ctab = "-" then [] else List.map (fun e -> match String.split_on_char '=' e with
          | [ d; h ] -> (bytes_of_hex d, bytes_of_hex h) | _ -> failwith "cbytes tab") (split_on ';' ctab) in
      let prior = if prior = "-" then [] else bytes_of_hex prior in
      let seeds = if seeds = "-" then [] else List.map (fun s -> if s = "e" then [] else bytes_of_hex s) (split_on ',' seeds) in
      if with_writes then
        (match open_and_clone_bytes_w (hash_oracle (htab @ extra)) decompf f prior (inpl = "1") seeds with
         | Ok (ws, out) -> "OK w=" ^ String.concat "," (List.map (fun (o, l) -> string_of_int (int_of_n o) ^ ":" ^ string_of_int (int_of_n l)) ws) ^ " " ^ hex_of_bytes out
         | Err _ -> "ERR" | Panic _ -> "PANIC" | OutOfFuel -> "FUEL")
      else pr_clone_out (open_and_clone_bytes (hash_oracle (htab @ extra)) decompf f prior (inpl = "1") seeds)
  | _ -> failwith "cbytes"


(* ---- a whole clone over http against a scripted server ---- *)
let run_httpclone toks =
  match toks with
  | [ b; hh; tab; retries; script ] ->
      let (f, htab, decompf) = aclone_tables b hh tab in
      let (res, log) = http_clone (real_hash htab) decompf f (n_of_string retries) (script_of script) in
      pr_clone_out res ^ " | " ^ pr_log log
  | _ -> failwith "httpclone"

let dispatch (line : string) : string =
  match split_on ' ' line with
  | "hash" :: r -> run_hash r
  | "oneshot" :: r -> run_oneshot r
  | "stream" :: r -> run_stream r
  | "spec" :: r -> run_spec r
  | "planner" :: r -> run_planner r
  | "planneriter" :: r -> run_planneriter r
  | "hashkey" :: r -> run_hashkey r
  | "clone" :: r -> run_clone r
  | "protoenc" :: r -> run_protoenc r
  | "protodec" :: r -> run_protodec r
  | "tryinit" :: r -> run_tryinit r
  | "tryinitok" :: r -> run_tryinit_gen true r
  | "compress" :: r -> run_compress r
  | "compresscli" :: r -> run_compresscli r
  | "cmd" :: r -> run_cmd r
  | "openopts" :: r -> run_openopts r
  | "aclone" :: r -> run_aclone r
  | "cbytes" :: r -> run_cbytes false r
  | "cbytesw" :: r -> run_cbytes true r
  | "httpclone" :: r -> run_httpclone r
  | "trace" :: r -> run_trace r
  | "http" :: r -> run_http r
  | "httpat" :: r -> run_httpat r
  | "ioread" :: r -> run_ioread r
  | k :: _ -> failwith ("unknown suite " ^ k)
  | [] -> ""

let () =
  let ic = if Array.length Sys.argv > 1 then open_in Sys.argv.(1) else stdin in
  let oc = if Array.length Sys.argv > 2 then open_out Sys.argv.(2) else stdout in
  (try
     while true do
       let line = input_line ic in
       let res = try dispatch line with Stack_overflow -> "STACK" | Failure m -> "RUNNER-ERROR " ^ m in
       output_string oc res;
       output_char oc '\n'
     done
   with End_of_file -> ());
  close_out oc
