(* Model runner: reads one case per line, runs the extracted Coq model, prints one result per line.
   Contains no bita logic: only parsing into the extracted datatypes and printing. *)
open Model

let rec pos_of_int (i : int) : positive =
  if i = 1 then XH
  else if i land 1 = 0 then XO (pos_of_int (i lsr 1))
  else XI (pos_of_int (i lsr 1))

let n_of_int (i : int) : n = if i = 0 then N0 else Npos (pos_of_int i)

let rec int_of_pos (p : positive) : int =
  match p with XH -> 1 | XO q -> 2 * int_of_pos q | XI q -> 2 * int_of_pos q + 1

let int_of_n (x : n) : int = match x with N0 -> 0 | Npos p -> int_of_pos p

(* decimal string of an N of any size *)
let string_of_n (x : n) : string =
  (* values that fit in 62 bits are printed through int; larger ones digit by digit *)
  let rec bits p = match p with XH -> 1 | XO q | XI q -> 1 + bits q in
  match x with
  | N0 -> "0"
  | Npos p when bits p <= 61 -> string_of_int (int_of_pos p)
  | Npos _ ->
      let ten = n_of_int 10 in
      let buf = Buffer.create 24 in
      let rec go v acc =
        match v with
        | N0 -> acc
        | _ ->
            let (q, r) = N.div_eucl v ten in
            go q (string_of_int (int_of_n r) :: acc) in
      List.iter (Buffer.add_string buf) (go x []);
      Buffer.contents buf

(* decimal string (any size) to N *)
let n_of_string (s : string) : n =
  if String.length s <= 17 then n_of_int (int_of_string s)
  else begin
    let ten = n_of_int 10 in
    let acc = ref N0 in
    String.iter (fun c -> acc := N.add (N.mul !acc ten) (n_of_int (Char.code c - 48))) s;
    !acc
  end

let rec nat_of_int (i : int) : nat =
  let rec go i acc = if i = 0 then acc else go (i - 1) (S acc) in
  go i O

let byte_tab : n array = Array.init 256 n_of_int

let hexval c =
  match c with
  | '0' .. '9' -> Char.code c - 48
  | 'a' .. 'f' -> Char.code c - 87
  | 'A' .. 'F' -> Char.code c - 55
  | _ -> failwith "bad hex"

(* "-" is the empty byte string *)
let bytes_of_hex (s : string) : n list =
  if s = "-" then []
  else begin
    let len = String.length s / 2 in
    let r = ref [] in
    for i = len - 1 downto 0 do
      r := byte_tab.(hexval s.[2 * i] * 16 + hexval s.[2 * i + 1]) :: !r
    done;
    !r
  end

let hex_of_bytes (l : n list) : string =
  if l = [] then "-"
  else begin
    let b = Buffer.create 64 in
    List.iter (fun x -> Buffer.add_string b (Printf.sprintf "%02x" (int_of_n x))) l;
    Buffer.contents b
  end

let split_on c s = if s = "" then [] else String.split_on_char c s

let algo_of = function
  | "B" -> ABuzHash
  | "R" -> ARollSum
  | "F" -> AFixed
  | _ -> failwith "algo"

let config_of a bits mn mx w =
  { c_algo = algo_of a; c_bits = n_of_string bits; c_min = n_of_string mn; c_max = n_of_string mx;
    c_win = n_of_string w }

let print_outcome (pr : 'a -> string) (o : 'a outcome) : string =
  match o with
  | Ok a -> "OK " ^ pr a
  | Err e -> "ERR " ^ string_of_n e
  | Panic _ -> "PANIC"
  | OutOfFuel -> "FUEL"

let pr_chunks (l : (n * n) list) : string =
  String.concat " " (List.map (fun (o, s) -> string_of_n o ^ ":" ^ string_of_n s) l)

let sched_of (s : string) : ev list =
  if s = "-" then []
  else
    List.map
      (fun t -> if t = "p" then EvPending else EvRead (nat_of_int (int_of_string (String.sub t 1 (String.length t - 1)))))
      (split_on ',' s)

(* ---- suites ---- *)
let run_hash toks =
  match toks with
  | [ a; w; data ] ->
      let w = n_of_string w in
      let data = bytes_of_hex data in
      let out = Buffer.create 1024 in
      (match a with
      | "R" ->
          let h = ref (rs_new w) in
          List.iter
            (fun b ->
              h := rs_input !h b;
              Buffer.add_string out (string_of_n (rs_sum !h));
              Buffer.add_char out ' ')
            data
      | _ ->
          let h = ref (bh_new w) in
          List.iter
            (fun b ->
              if (!h).bh_full then h := bh_input !h b else h := bh_init !h b;
              if (!h).bh_full then begin
                Buffer.add_string out (string_of_n (bh_sum !h));
                Buffer.add_char out ' '
              end)
            data);
      "OK " ^ String.trim (Buffer.contents out)
  | _ -> failwith "hash: bad case"

let run_oneshot toks =
  match toks with
  | [ a; bits; mn; mx; w; data ] ->
      print_outcome pr_chunks (chunk_oneshot (config_of a bits mn mx w) (bytes_of_hex data))
  | _ -> failwith "oneshot: bad case"

let run_stream toks =
  match toks with
  | [ a; bits; mn; mx; w; data; sched ] ->
      print_outcome pr_chunks (chunk_stream (config_of a bits mn mx w) (bytes_of_hex data) (sched_of sched))
  | _ -> failwith "stream: bad case"

let run_spec toks =
  match toks with
  | [ a; bits; mn; mx; w; data ] ->
      "OK " ^ pr_chunks (spec_chunks (config_of a bits mn mx w) false (bytes_of_hex data))
  | _ -> failwith "spec: bad case"

(* ---- chunk index / clone output ---- *)
let nlist_of (s : string) : n list = if s = "" then [] else List.map n_of_string (split_on ',' s)

let index_of (s : string) : (n * loc) list =
  if s = "-" then []
  else
    List.map
      (fun e ->
        match String.split_on_char ':' e with
        | [ k; sz; offs ] -> (n_of_string k, { l_size = n_of_string sz; l_offs = nlist_of offs })
        | _ -> failwith "index entry")
      (split_on ';' s)

let pr_nlist l = String.concat "," (List.map string_of_n l)

let pr_index (idx : (n * loc) list) : string =
  if idx = [] then "-"
  else
    let l = List.sort (fun (a, _) (b, _) -> compare (int_of_n a) (int_of_n b)) idx in
    String.concat ";" (List.map (fun (k, l) -> string_of_n k ^ ":" ^ string_of_n l.l_size ^ ":" ^ pr_nlist l.l_offs) l)

let pr_ops (ops : rop list) : string =
  if ops = [] then "-"
  else
    String.concat " "
      (List.map
         (function
           | RCopy (k, size, src, dests) -> "C" ^ string_of_n k ^ ":" ^ string_of_n size ^ ":" ^ string_of_n src ^ ":" ^ pr_nlist dests
           | RStore (k, size, src) -> "M" ^ string_of_n k ^ ":" ^ string_of_n size ^ ":" ^ string_of_n src)
         ops)

let run_planner toks =
  match toks with
  | [ cur; tgt ] ->
      let cur = index_of cur and tgt = index_of tgt in
      let ((stripped, cnt), total) = strip_in_place cur tgt in
      let ops = reorder_ops cur stripped in
      "OK " ^ string_of_n cnt ^ " " ^ string_of_n total ^ " | " ^ pr_index stripped ^ " | " ^ pr_ops ops
  | _ -> failwith "planner: bad case"

let pr_trace (t : tev list) : string =
  if t = [] then "-"
  else
    String.concat ","
      (List.map (function TSeek o -> "s" ^ string_of_n o | TWrite d -> "w" ^ hex_of_bytes d | TRead k -> "r" ^ string_of_n k) t)

let feeds_of (s : string) : (n * n list) list =
  if s = "-" then []
  else List.map (fun f -> match String.split_on_char '=' f with [ k; d ] -> (n_of_string k, bytes_of_hex d) | _ -> failwith "feed") (split_on ';' s)

let run_clone toks =
  match toks with
  | [ prior; cidx; oidx; fault; seeds; arch ] ->
      let fault =
        if fault = "-" then None
        else match String.split_on_char ',' fault with [ k; t ] -> Some (n_of_string k, n_of_string t) | _ -> failwith "fault" in
      let oi = if oidx = "N" then None else Some (index_of (String.sub oidx 1 (String.length oidx - 1))) in
      let r = clone_model (bytes_of_hex prior) fault (index_of cidx) oi (feeds_of seeds) (feeds_of arch) in
      let st = r.cr_state in
      (match st.o_err with
      | None ->
          "OK " ^ string_of_n r.cr_moved ^ " " ^ (if r.cr_fed = [] then "-" else pr_nlist r.cr_fed) ^ " "
          ^ (if r.cr_fetch = [] then "-" else pr_nlist r.cr_fetch) ^ " " ^ hex_of_bytes st.o_file ^ " "
          ^ pr_trace st.o_trace ^ " " ^ pr_index r.cr_index
      | Some _ -> "ERR " ^ hex_of_bytes st.o_file ^ " " ^ pr_trace st.o_trace)
  | _ -> failwith "clone: bad case"

let dispatch (line : string) : string =
  match split_on ' ' line with
  | "hash" :: r -> run_hash r
  | "oneshot" :: r -> run_oneshot r
  | "stream" :: r -> run_stream r
  | "spec" :: r -> run_spec r
  | "planner" :: r -> run_planner r
  | "clone" :: r -> run_clone r
  | k :: _ -> failwith ("unknown suite " ^ k)
  | [] -> ""

let () =
  let ic = if Array.length Sys.argv > 1 then open_in Sys.argv.(1) else stdin in
  let oc = if Array.length Sys.argv > 2 then open_out Sys.argv.(2) else stdout in
  (try
     while true do
       let line = input_line ic in
       let res = try dispatch line with Stack_overflow -> "STACK" | Failure m -> "RUNNER-ERROR " ^ m in
       output_string oc res;
       output_char oc '\n'
     done
   with End_of_file -> ());
  close_out oc
