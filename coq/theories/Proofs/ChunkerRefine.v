(* RollingHashChunker::next refines the byte-at-a-time automaton; the streaming chunker is
   independent of the read schedule (C09). *)
From Coq Require Import NArith List Lia Bool Arith PeanoNat ZArith ZifyBool.
From Bita Require Import Model.Base Gen.Generated Model.RollSum Model.BuzHash Model.Chunker.
Import ListNotations.

(* ---------- generic list facts ---------- *)
Lemma skipn_cons_nth {A} (buf : list A) off b r :
  skipn off buf = b :: r -> skipn (S off) buf = r /\ (off < length buf)%nat.
Proof.
  revert off. induction buf as [|x xs IH]; intros [|off] E; cbn in *; try discriminate.
  - injection E as -> ->. split; [reflexivity|lia].
  - destruct (IH off E) as [E' Hl]. split; [exact E'|lia].
Qed.

Lemma skipn_nil_len {A} (buf : list A) off : skipn off buf = [] -> (length buf <= off)%nat.
Proof.
  revert off. induction buf as [|x xs IH]; intros [|off] E; cbn in *; try lia; try discriminate.
  specialize (IH off E). lia.
Qed.

Lemma skipn_skipn_add {A} (a b : nat) (l : list A) : skipn a (skipn b l) = skipn (b + a) l.
Proof.
  revert l. induction b as [|b IH]; intros l; [reflexivity|].
  destruct l as [|x l]; cbn [skipn Nat.add]; [destruct a; reflexivity|apply IH].
Qed.

Section Refine.
  Local Open Scope nat_scope.
  Variable H : Type.
  Variable init_done : H -> bool.
  Variable init input : H -> N -> H.
  Variable matches : H -> bool.          (* sum | mask == sum *)
  Variable pending : H -> nat.           (* init calls still needed *)
  Variable good : H -> Prop.             (* representation invariant of the hasher *)
  Hypothesis done_pending : forall h, good h -> init_done h = (pending h =? 0).
  Hypothesis good_init : forall h b, good h -> good (init h b).
  Hypothesis good_input : forall h b, good h -> good (input h b).
  Hypothesis pending_init : forall h b, good h -> pending (init h b) = pending h - 1.
  Hypothesis pending_input : forall h b, pending h = 0 -> pending (input h b) = 0.

  Variables limit minsz maxsz : nat.     (* hash_input_limit, min_chunk_size, max_chunk_size *)
  Hypothesis limit_le : limit <= minsz.
  Hypothesis min_le_max : minsz <= maxsz.
  Hypothesis max_pos : 0 < maxsz.

  Local Notation init_loop := (Chunker.init_loop H init_done init).
  Local Notation scan_loop := (Chunker.scan_loop H input matches).
  Local Notation next := (rh_next H init_done init input matches limit minsz maxsz).
  Local Notation next_panics := (rh_next_panics H init_done init limit minsz maxsz).

  (* ---- the automaton with nat offsets ---- *)
  Definition step (h : H) (off : nat) (b : N) : H * bool :=
    if negb (init_done h) then (init h b, false)
    else if (0 <? limit) && (off <? limit - 1) then (h, false)
    else if off <? minsz - 1 then (input h b, false)
    else let h' := input h b in (h', matches h').

  Fixpoint auto (h : H) (off : nat) (rest : list N) : H * nat * bool :=
    match rest with
    | [] => (h, off, false)
    | b :: r => let '(h', bd) := step h off b in
                if bd || (maxsz <=? S off) then (h', S off, true) else auto h' (S off) r
    end.

  Lemma firstn_S_skipn (buf : list N) off b r n :
    skipn off buf = b :: r -> firstn (S n) (skipn off buf) = b :: firstn n (skipn (S off) buf).
  Proof. intros E. destruct (skipn_cons_nth buf off b r E) as [-> _]. rewrite E. reflexivity. Qed.

  (* when nothing is left, next returns without a boundary (off < maxsz) *)
  Lemma next_nil h off buf : skipn off buf = [] -> off <= length buf -> off < maxsz ->
    next h off buf = (h, off, false).
  Proof.
    intros E Hle Hlt. apply skipn_nil_len in E. assert (Hlen : length buf = off) by lia.
    unfold rh_next. rewrite (skipn_all2 buf) by lia. cbn [Chunker.init_loop].
    rewrite Hlen.
    assert (E2 : (if (0 <? limit) && (off <? limit) then Nat.min (limit - 1) off else off) = off).
    { destruct (0 <? limit) eqn:E0; destruct (off <? limit) eqn:E1; cbn [andb]; try reflexivity.
      apply Nat.ltb_lt in E1. lia. }
    rewrite E2.
    destruct ((0 <? minsz) && (off <? minsz)) eqn:E3.
    - apply andb_true_iff in E3. destruct E3 as [_ E3]. apply Nat.ltb_lt in E3.
      replace (Nat.min (minsz - 1) off) with off by lia.
      rewrite Nat.sub_diag. cbn [firstn fold_left].
      replace (Nat.min maxsz off - off) with 0 by lia. cbn [firstn Chunker.scan_loop].
      replace (maxsz <=? off) with false by (symmetry; apply Nat.leb_gt; lia). reflexivity.
    - replace (Nat.min maxsz off - off) with 0 by lia. cbn [firstn Chunker.scan_loop].
      replace (maxsz <=? off) with false by (symmetry; apply Nat.leb_gt; lia). reflexivity.
  Qed.

  Lemma init_loop_done h off rest : init_done h = true -> init_loop h off rest = (h, off).
  Proof. intros Hd. destruct rest; cbn [Chunker.init_loop]; [reflexivity|rewrite Hd; reflexivity]. Qed.

  Lemma done_input h b : good h -> init_done h = true -> init_done (input h b) = true.
  Proof.
    intros Hg. rewrite !done_pending by auto. intros E. apply Nat.eqb_eq in E. apply Nat.eqb_eq.
    apply pending_input; exact E.
  Qed.

  Lemma next_at_max h buf : init_done h = true -> maxsz <= length buf ->
    next h maxsz buf = (h, maxsz, true).
  Proof.
    intros Hd Hlen. unfold rh_next. rewrite init_loop_done by exact Hd.
    replace ((0 <? limit) && (maxsz <? limit)) with false
      by (symmetry; apply andb_false_iff; right; apply Nat.ltb_ge; lia).
    replace ((0 <? minsz) && (maxsz <? minsz)) with false
      by (symmetry; apply andb_false_iff; right; apply Nat.ltb_ge; lia).
    replace (Nat.min maxsz (length buf) - maxsz) with 0 by lia. cbn [firstn Chunker.scan_loop].
    rewrite Nat.leb_refl. reflexivity.
  Qed.

  Lemma next_unfold h off buf b r :
    good h ->
    skipn off buf = b :: r -> off < maxsz -> off + pending h <= maxsz ->
    next h off buf =
      let '(h', bd) := step h off b in
      if bd || (maxsz <=? S off) then (h', S off, true) else next h' (S off) buf.
  Proof.
    intros Hg E Hlt Hpend. destruct (skipn_cons_nth buf off b r E) as [E' Hlen].
    unfold step. destruct (init_done h) eqn:Hd; cbn [negb].
    2:{ (* A: init byte *)
      assert (Hp : pending h <> 0).
      { rewrite done_pending in Hd by auto. apply Nat.eqb_neq in Hd. exact Hd. }
      assert (Hn : next h off buf = next (init h b) (S off) buf).
      { unfold rh_next. rewrite E, E'. cbn [Chunker.init_loop]. rewrite Hd. reflexivity. }
      rewrite Hn. cbn [orb].
      destruct (maxsz <=? S off) eqn:Em; [|reflexivity].
      apply Nat.leb_le in Em. assert (Hs : S off = maxsz) by lia. rewrite Hs.
      apply next_at_max; [|lia].
      rewrite done_pending, pending_init by auto. apply Nat.eqb_eq. lia. }
    destruct ((0 <? limit) && (off <? limit - 1)) eqn:Esk.
    { (* B: skipped byte *)
      apply andb_true_iff in Esk. destruct Esk as [E0 E1].
      apply Nat.ltb_lt in E0. apply Nat.ltb_lt in E1. cbn [orb].
      replace (maxsz <=? S off) with false by (symmetry; apply Nat.leb_gt; lia).
      unfold rh_next. rewrite !init_loop_done by exact Hd.
      replace ((0 <? limit) && (off <? limit)) with true
        by (symmetry; apply andb_true_iff; split; apply Nat.ltb_lt; lia).
      replace ((0 <? limit) && (S off <? limit)) with true
        by (symmetry; apply andb_true_iff; split; apply Nat.ltb_lt; lia).
      reflexivity. }
    (* not skipped: clause 1 leaves the offset unchanged *)
    assert (Hoff2 : (if (0 <? limit) && (off <? limit) then Nat.min (limit - 1) (length buf) else off) = off).
    { destruct ((0 <? limit) && (off <? limit)) eqn:Ec; [|reflexivity].
      apply andb_true_iff in Ec. destruct Ec as [E0 E1]. apply Nat.ltb_lt in E0. apply Nat.ltb_lt in E1.
      apply andb_false_iff in Esk. destruct Esk as [Esk|Esk].
      - apply Nat.ltb_ge in Esk. lia.
      - apply Nat.ltb_ge in Esk. lia. }
    assert (Hlim : limit = 0 \/ limit - 1 <= off).
    { apply andb_false_iff in Esk. destruct Esk as [Esk|Esk]; apply Nat.ltb_ge in Esk; lia. }
    assert (Hc1' : (0 <? limit) && (S off <? limit) = false).
    { apply andb_false_iff. destruct Hlim as [->|Hl]; [left; reflexivity|right; apply Nat.ltb_ge; lia]. }
    destruct (off <? minsz - 1) eqn:Emin.
    { (* C: hashed, not tested *)
      apply Nat.ltb_lt in Emin. cbn [orb].
      replace (maxsz <=? S off) with false by (symmetry; apply Nat.leb_gt; lia).
      unfold rh_next. rewrite !init_loop_done by (try apply done_input; auto).
      rewrite Hoff2, Hc1'.
      replace ((0 <? minsz) && (off <? minsz)) with true
        by (symmetry; apply andb_true_iff; split; apply Nat.ltb_lt; lia).
      replace ((0 <? minsz) && (S off <? minsz)) with true
        by (symmetry; apply andb_true_iff; split; apply Nat.ltb_lt; lia).
      set (e := Nat.min (minsz - 1) (length buf)).
      assert (He : e - off = S (e - S off)) by (unfold e; lia).
      rewrite He, E, E'. cbn [firstn fold_left]. reflexivity. }
    (* D: hashed and tested *)
    apply Nat.ltb_ge in Emin.
    assert (H3 : (if (0 <? minsz) && (off <? minsz)
                  then (fold_left input (firstn (Nat.min (minsz - 1) (length buf) - off) (skipn off buf)) h,
                        Nat.min (minsz - 1) (length buf))
                  else (h, off)) = (h, off)).
    { destruct ((0 <? minsz) && (off <? minsz)) eqn:Ec; [|reflexivity].
      apply andb_true_iff in Ec. destruct Ec as [E0 E1]. apply Nat.ltb_lt in E0. apply Nat.ltb_lt in E1.
      replace (Nat.min (minsz - 1) (length buf)) with off by lia.
      rewrite Nat.sub_diag. reflexivity. }
    unfold rh_next at 1. rewrite init_loop_done by exact Hd. rewrite Hoff2, H3.
    set (mb := Nat.min maxsz (length buf)).
    assert (Hmb : mb - off = S (mb - S off)) by (unfold mb; lia).
    rewrite Hmb, E. cbn [firstn Chunker.scan_loop].
    destruct (matches (input h b)) eqn:Em; cbn [orb]; [reflexivity|].
    destruct (maxsz <=? S off) eqn:Emax.
    - apply Nat.leb_le in Emax. replace (mb - S off) with 0 by (unfold mb; lia).
      cbn [firstn Chunker.scan_loop]. replace (maxsz <=? S off) with true by (symmetry; apply Nat.leb_le; lia).
      reflexivity.
    - unfold rh_next. rewrite init_loop_done by (apply done_input; auto).
      rewrite Hc1'.
      replace ((0 <? minsz) && (S off <? minsz)) with false
        by (symmetry; apply andb_false_iff; right; apply Nat.ltb_ge; lia).
      rewrite E'. fold mb. reflexivity.
  Qed.

  (* one automaton step keeps the invariants *)
  Lemma step_inv h off b h' bd :
    good h -> off + pending h <= maxsz -> off < maxsz -> step h off b = (h', bd) ->
    good h' /\ S off + pending h' <= maxsz.
  Proof.
    intros Hg Hp Hlt Es. unfold step in Es. destruct (init_done h) eqn:Hd; cbn [negb] in Es.
    - assert (Hp0 : pending h = 0) by (rewrite done_pending in Hd by auto; apply Nat.eqb_eq in Hd; exact Hd).
      destruct ((0 <? limit) && (off <? limit - 1)); [injection Es as <- _; split; [auto|lia]|].
      destruct (off <? minsz - 1); injection Es as <- _; (split; [auto|]);
        rewrite pending_input by exact Hp0; lia.
    - injection Es as <- _. split; [auto|]. rewrite pending_init by auto.
      assert (pending h <> 0) by (rewrite done_pending in Hd by auto; apply Nat.eqb_neq in Hd; exact Hd). lia.
  Qed.

  (* ---- main refinement: next = auto, for every reachable (h, off) ---- *)
  Theorem next_is_auto : forall n h off buf,
    good h ->
    length (skipn off buf) = n -> off <= length buf -> off < maxsz -> off + pending h <= maxsz ->
    next h off buf = auto h off (skipn off buf).
  Proof.
    induction n as [|n IH]; intros h off buf Hg Hn Hle Hlt Hp.
    - destruct (skipn off buf) eqn:E; [|discriminate]. cbn [auto]. apply next_nil; auto.
    - destruct (skipn off buf) as [|b r] eqn:E; [discriminate|].
      rewrite (next_unfold h off buf b r Hg E Hlt Hp). cbn [auto].
      destruct (step h off b) as [h' bd] eqn:Es.
      destruct (bd || (maxsz <=? S off)) eqn:Eb; [reflexivity|].
      apply orb_false_iff in Eb. destruct Eb as [_ Eb]. apply Nat.leb_gt in Eb.
      destruct (skipn_cons_nth buf off b r E) as [E' Hlen].
      destruct (step_inv h off b h' bd Hg Hp Hlt Es) as [Hg' Hp'].
      rewrite <- E'. apply IH; auto.
      rewrite E'. cbn in Hn. lia.
  Qed.
  (* ---- no slice-order panic ---- *)
  Lemma init_loop_bounds : forall rest h off h1 off1,
    good h -> init_loop h off rest = (h1, off1) ->
    off <= off1 /\ off1 <= off + length rest /\ off1 <= off + pending h.
  Proof.
    induction rest as [|b r IH]; intros h off h1 off1 Hg E; cbn [Chunker.init_loop] in E.
    - injection E as <- <-. cbn [length]. lia.
    - destruct (init_done h) eqn:Hd.
      + injection E as <- <-. cbn [length]. lia.
      + apply IH in E; [|auto]. rewrite pending_init in E by auto.
        assert (Hp : pending h <> 0).
        { rewrite done_pending in Hd by auto. apply Nat.eqb_neq in Hd. exact Hd. }
        cbn [length]. lia.
  Qed.

  Lemma next_no_panic h off buf :
    good h -> off <= length buf -> off + pending h <= maxsz ->
    next_panics h off buf = false.
  Proof.
    intros Hg Hle Hp. unfold rh_next_panics.
    destruct (init_loop h off (skipn off buf)) as [h1 off1] eqn:E.
    apply init_loop_bounds in E; [|auto]. rewrite skipn_length in E.
    destruct E as (E1 & E2 & E3).
    destruct (Nat.ltb_spec 0 limit); destruct (Nat.ltb_spec off1 limit); cbn [andb];
    destruct (Nat.ltb_spec 0 minsz); cbn [andb].
    all: repeat match goal with |- context [Nat.ltb ?a ?b] => destruct (Nat.ltb_spec a b) end;
         cbn [andb orb]; try reflexivity; try lia.
  Qed.

  (* ---- the chunk list of the automaton, nat offsets ---- *)
  Fixpoint nchunks (h : H) (start : N) (off : nat) (data : list N) : list (N * N) :=
    match data with
    | [] => if off =? 0 then [] else [(start, N.of_nat off)]
    | b :: r =>
        let '(h', bd) := step h off b in
        if bd || (maxsz <=? S off)
        then (start, N.of_nat (S off)) :: nchunks h' (start + N.of_nat (S off))%N 0 r
        else nchunks h' start (S off) r
    end.

  Lemma auto_found : forall xs h off h' off',
    auto h off xs = (h', off', true) ->
    off < off' /\ off' <= off + length xs /\
    forall start ys, nchunks h start off (xs ++ ys) =
       (start, N.of_nat off') :: nchunks h' (start + N.of_nat off')%N 0 (skipn (off' - off) xs ++ ys).
  Proof.
    induction xs as [|b r IH]; intros h off h' off' E; cbn [auto] in E; [discriminate|].
    destruct (step h off b) as [h1 bd] eqn:Es.
    destruct (bd || (maxsz <=? S off)) eqn:Eb.
    - injection E as <- <-. cbn [length]. split; [lia|]. split; [lia|].
      intros start ys. replace (S off - off) with 1 by lia.
      cbn [skipn app nchunks]. rewrite Es, Eb. reflexivity.
    - apply IH in E. destruct E as (E1 & E2 & E3). cbn [length]. split; [lia|]. split; [lia|].
      intros start ys. replace (off' - off) with (S (off' - S off)) by lia.
      cbn [skipn app nchunks]. rewrite Es, Eb. apply E3.
  Qed.

  Lemma auto_notfound : forall xs h off h' off',
    auto h off xs = (h', off', false) ->
    off' = off + length xs /\
    forall start ys, nchunks h start off (xs ++ ys) = nchunks h' start off' ys.
  Proof.
    induction xs as [|b r IH]; intros h off h' off' E; cbn [auto] in E.
    - injection E as <- <-. cbn [length]. split; [lia|]. reflexivity.
    - destruct (step h off b) as [h1 bd] eqn:Es.
      destruct (bd || (maxsz <=? S off)) eqn:Eb; [discriminate|].
      apply IH in E. destruct E as (E1 & E2). cbn [length]. split; [lia|].
      intros start ys. cbn [app nchunks]. rewrite Es, Eb. apply E2.
  Qed.

  Lemma auto_inv : forall xs h off h' off' fd,
    good h -> off + pending h <= maxsz -> off < maxsz ->
    auto h off xs = (h', off', fd) ->
    good h' /\ off' + pending h' <= maxsz /\ (fd = false -> off' < maxsz).
  Proof.
    induction xs as [|b r IH]; intros h off h' off' fd Hg Hp Hlt E; cbn [auto] in E.
    - injection E as <- <- <-. auto.
    - destruct (step h off b) as [h1 bd] eqn:Es.
      destruct (step_inv h off b h1 bd Hg Hp Hlt Es) as [Hg1 Hp1].
      destruct (bd || (maxsz <=? S off)) eqn:Eb.
      + injection E as <- <- <-. split; [auto|]. split; [auto|]. discriminate.
      + apply orb_false_iff in Eb. destruct Eb as [_ Eb]. apply Nat.leb_gt in Eb.
        apply (IH h1 (S off)); auto.
  Qed.
End Refine.

(* ---------- nat automaton = N automaton ---------- *)
Section Conv.
  Variable H : Type.
  Variable init_done : H -> bool.
  Variable init input : H -> N -> H.
  Variable matches : H -> bool.
  Variables limitN minN maxN : N.

  Lemma step_astep h off b :
    step H init_done init input matches (N.to_nat limitN) (N.to_nat minN) h off b =
    astep H init_done init input matches limitN minN h (N.of_nat off) b.
  Proof.
    unfold step, astep.
    replace (0 <? N.to_nat limitN)%nat with (0 <? limitN)%N by lia.
    replace (off <? N.to_nat limitN - 1)%nat with (N.of_nat off <? limitN - 1)%N by lia.
    replace (off <? N.to_nat minN - 1)%nat with (N.of_nat off <? minN - 1)%N by lia.
    reflexivity.
  Qed.

  Lemma nchunks_auto_chunks : forall data h start off,
    nchunks H init_done init input matches (N.to_nat limitN) (N.to_nat minN) (N.to_nat maxN) h start off data =
    auto_chunks H init_done init input matches limitN minN maxN h start (N.of_nat off) data.
  Proof.
    induction data as [|b r IH]; intros h start off; cbn [nchunks auto_chunks].
    - replace (N.of_nat off =? 0)%N with (off =? 0)%nat by lia. reflexivity.
    - rewrite step_astep. destruct (astep _ _ _ _ _ _ _ _ _ _) as [h' bd].
      replace (N.of_nat off + 1)%N with (N.of_nat (S off)) by lia.
      replace (maxN <=? N.of_nat (S off))%N with (N.to_nat maxN <=? S off)%nat by lia.
      destruct (bd || (N.to_nat maxN <=? S off)%nat).
      + rewrite IH. reflexivity.
      + apply IH.
  Qed.
End Conv.

(* ---------- the concrete hashers ---------- *)
Definition h_good (h : hasher) : Prop :=
  match h with HRoll _ => True | HBuz b => bh_full b = true \/ (bh_index b < bh_w b)%N end.

Lemma h_done_pending h : h_good h -> h_init_done h = (h_pending h =? 0)%nat.
Proof.
  destruct h as [r|b]; cbn [h_good h_init_done h_pending]; [reflexivity|].
  intros [F|I]; [rewrite F; reflexivity|].
  destruct (bh_full b); [reflexivity|]. symmetry. apply Nat.eqb_neq. lia.
Qed.

Lemma h_pending_init h x : h_good h -> h_pending (h_init h x) = (h_pending h - 1)%nat.
Proof.
  destruct h as [r|b]; cbn [h_good h_init h_pending]; [reflexivity|].
  unfold bh_init. destruct (bh_full b) eqn:F; [rewrite F; reflexivity|].
  intros [F'|I]; [discriminate|]. cbn [bh_full bh_w bh_index].
  destruct (N.leb_spec (bh_w b - 1) (bh_index b)); destruct (N.leb_spec (bh_w b) (bh_index b + 1)); lia.
Qed.

Lemma h_good_init h x : h_good h -> h_good (h_init h x).
Proof.
  destruct h as [r|b]; cbn [h_good h_init]; [auto|].
  unfold bh_init. destruct (bh_full b) eqn:F; [rewrite F; auto|].
  intros [F'|I]; [discriminate|]. cbn [bh_full bh_w bh_index].
  destruct (N.leb_spec (bh_w b - 1) (bh_index b)); destruct (N.leb_spec (bh_w b) (bh_index b + 1)); auto; right; lia.
Qed.

Lemma bh_input_fields b x :
  bh_full (bh_input b x) = bh_full b /\ bh_index (bh_input b x) = bh_index b /\ bh_w (bh_input b x) = bh_w b.
Proof. unfold bh_input. destruct (_ <? _)%N; cbn; auto. Qed.

Lemma h_good_input h x : h_good h -> h_good (h_input h x).
Proof.
  destruct h as [r|b]; cbn [h_good h_input]; [auto|].
  destruct (bh_input_fields b x) as (-> & -> & ->). auto.
Qed.

Lemma h_pending_input h x : h_pending h = O -> h_pending (h_input h x) = O.
Proof.
  destruct h as [r|b]; cbn [h_input h_pending]; [auto|].
  destruct (bh_input_fields b x) as (-> & -> & ->). auto.
Qed.

(* ---------- the streaming loop, rolling-hash chunkers ---------- *)
Section Stream.
  Local Open Scope nat_scope.
  Variable mask : N.
  Variables limit minsz maxsz : nat.
  Hypothesis limit_le : limit <= minsz.
  Hypothesis min_le_max : minsz <= maxsz.
  Hypothesis max_pos : 0 < maxsz.

  Local Notation aut := (auto hasher h_init_done h_init h_input (h_matches mask) limit minsz maxsz).
  Local Notation nch := (nchunks hasher h_init_done h_init h_input (h_matches mask) limit minsz maxsz).
  Local Notation ck h off := (CkRolling h mask limit minsz maxsz off).

  Lemma rh_next_never_panics h off buf :
    h_good h -> off <= length buf -> off + h_pending h <= maxsz ->
    rh_next_panics hasher h_init_done h_init limit minsz maxsz h off buf = false.
  Proof.
    intros. apply (next_no_panic hasher h_init_done h_init h_pending h_good);
      auto using h_done_pending, h_pending_init, h_good_init.
  Qed.

  Lemma rh_next_is_auto h off buf :
    h_good h -> off <= length buf -> off < maxsz -> off + h_pending h <= maxsz ->
    rh_next hasher h_init_done h_init h_input (h_matches mask) limit minsz maxsz h off buf =
    aut h off (skipn off buf).
  Proof.
    intros. apply (next_is_auto hasher h_init_done h_init h_input (h_matches mask) h_pending h_good)
      with (n := length (skipn off buf));
      auto using h_done_pending, h_pending_init, h_good_init, h_good_input, h_pending_input.
  Qed.

  Lemma ck_next_rolling h off buf :
    h_good h -> off <= length buf -> off < maxsz -> off + h_pending h <= maxsz ->
    ck_next (ck h off) buf =
      let '(h', off', found) := aut h off (skipn off buf) in
      if found then Ok (ck h' 0, Some off') else Ok (ck h' off', None).
  Proof.
    intros Hg Hle Hlt Hp. cbn [ck_next].
    rewrite rh_next_never_panics, rh_next_is_auto by auto. reflexivity.
  Qed.

  Lemma aut_inv xs h off h' off' fd :
    h_good h -> off + h_pending h <= maxsz -> off < maxsz ->
    aut h off xs = (h', off', fd) ->
    h_good h' /\ off' + h_pending h' <= maxsz /\ (fd = false -> off' < maxsz).
  Proof.
    apply (auto_inv hasher h_init_done h_init h_input (h_matches mask) h_pending h_good);
      auto using h_done_pending, h_pending_init, h_good_init, h_good_input, h_pending_input.
  Qed.

  Lemma stream_rolling : forall fuel h off start buf rest evs,
    h_good h -> off <= length buf -> off < maxsz -> off + h_pending h <= maxsz ->
    Forall (fun e => e <> EvRead 0) evs ->
    2 * length buf + 3 * length rest + length evs + 1 <= fuel ->
    stream_run fuel (ck h off) start buf rest evs = Ok (nch h start off (skipn off buf ++ rest)).
  Proof.
    induction fuel as [|f IH]; intros h off start buf rest evs Hg Hle Hlt Hp Hev Hfuel; [lia|].
    cbn [stream_run].
    assert (Hstep : match buf with [] => Ok (ck h off, None) | _ => ck_next (ck h off) buf end =
              let '(h', off', found) := aut h off (skipn off buf) in
              if found then Ok (ck h' 0, Some off') else Ok (ck h' off', None)).
    { destruct buf as [|x buf'].
      - assert (off = 0) by (cbn [length] in Hle; lia). subst off. reflexivity.
      - apply ck_next_rolling; auto. }
    rewrite Hstep. clear Hstep.
    destruct (aut h off (skipn off buf)) as [[h' off'] fd] eqn:Ea.
    destruct (aut_inv _ _ _ _ _ _ Hg Hp Hlt Ea) as (Hg' & Hp' & Hlt').
    destruct fd; cbn [bind].
    - (* a chunk is split off *)
      apply auto_found in Ea; try assumption. destruct Ea as (E1 & E2 & E3). rewrite skipn_length in E2.
      rewrite (IH h' 0 _ (skipn off' buf) rest evs); auto; try lia.
      + cbn [bind skipn]. rewrite E3. rewrite skipn_skipn_add.
        replace (off + (off' - off)) with off' by lia. reflexivity.
      + rewrite skipn_length. lia.
    - (* no boundary in the buffer *)
      specialize (Hlt' eq_refl).
      apply auto_notfound in Ea; try assumption. destruct Ea as (E1 & E2). rewrite skipn_length in E1.
      assert (Hoff' : off' = length buf) by lia. clear E1.
      rewrite E2. clear E2.
      assert (Hread : forall n evs', (n <> 0 \/ n = length rest) ->
                Forall (fun e => e <> EvRead 0) evs' -> length evs' <= length evs ->
                match firstn n rest with
                | [] => match buf with [] => Ok [] | _ => Ok [(start, N.of_nat (length buf))] end
                | _ => stream_run f (ck h' off') start (buf ++ firstn n rest) (skipn n rest) evs'
                end = Ok (nch h' start off' rest)).
      { intros n evs' Hn Hev' Hl.
        assert (Hlen : length rest = length (firstn n rest) + length (skipn n rest)).
        { rewrite <- (firstn_skipn n rest) at 1. apply app_length. }
        destruct (firstn n rest) as [|g got] eqn:Eg.
        - assert (rest = []).
          { destruct rest as [|y rest']; [reflexivity|]. destruct n; [|discriminate].
            destruct Hn as [Hn|Hn]; [lia|discriminate]. }
          subst rest. cbn [nchunks]. subst off'. destruct buf; reflexivity.
        - rewrite IH; auto.
          + rewrite skipn_app, Hoff', skipn_all, Nat.sub_diag.
            change (skipn 0 (g :: got)) with (g :: got).
            rewrite app_nil_l, <- Eg, firstn_skipn. reflexivity.
          + rewrite app_length. lia.
          + rewrite app_length. cbn [length] in *. lia. }
      destruct evs as [|[|n] evs'].
      + cbn [tl]. apply Hread; auto.
      + rewrite IH; auto.
        * rewrite Hoff', skipn_all. reflexivity.
        * lia.
        * inversion Hev; auto.
        * cbn [length] in Hfuel. lia.
      + cbn [tl]. inversion Hev as [|e l Hn Hev']; subst.
        apply Hread; [left; intros ->; apply Hn; reflexivity|assumption|cbn [length]; lia].
  Qed.
End Stream.

(* ---------- the streaming loop, fixed-size chunker ---------- *)
Lemma lenN_length {A} (l : list A) : lenN l = N.of_nat (length l).
Proof. induction l as [|x l IH]; cbn [lenN length]; [reflexivity|rewrite IH; lia]. Qed.

Lemma stream_fixed : forall fuel size start buf rest evs fuel2,
  (1 <= size)%nat ->
  Forall (fun e => e <> EvRead 0) evs ->
  (2 * length buf + 3 * length rest + length evs + 1 <= fuel)%nat ->
  (length buf + length rest < fuel2)%nat ->
  stream_run fuel (CkFixed size) start buf rest evs =
  Ok (fixed_chunks (N.of_nat size) start (N.of_nat (length buf + length rest)) fuel2).
Proof.
  induction fuel as [|f IH]; intros size start buf rest evs fuel2 Hsz Hev Hfuel Hf2; [lia|].
  cbn [stream_run].
  assert (Hstep : match buf with [] => Ok (CkFixed size, None) | _ => ck_next (CkFixed size) buf end =
            Ok (CkFixed size, if (size <=? length buf)%nat then Some size else None)).
  { destruct buf as [|x buf']; cbn [ck_next].
    - cbn [length]. replace (size <=? 0)%nat with false by lia. reflexivity.
    - destruct (size <=? length (x :: buf'))%nat; reflexivity. }
  rewrite Hstep. clear Hstep. cbn [bind].
  destruct (Nat.leb_spec size (length buf)) as [Hle|Hgt].
  - (* a full chunk *)
    destruct fuel2 as [|f2]; [lia|].
    rewrite (IH size _ (skipn size buf) rest evs f2); auto; try (rewrite skipn_length; lia).
    cbn [bind fixed_chunks].
    replace (N.of_nat (length buf + length rest) =? 0)%N with false by lia.
    replace (N.of_nat size <=? N.of_nat (length buf + length rest))%N with true by lia.
    rewrite skipn_length.
    replace (N.of_nat (length buf + length rest) - N.of_nat size)%N
      with (N.of_nat (length buf - size + length rest)) by lia.
    reflexivity.
  - assert (Hread : forall n evs', (n <> 0 \/ n = length rest)%nat ->
              Forall (fun e => e <> EvRead 0) evs' -> (length evs' <= length evs)%nat ->
              match firstn n rest with
              | [] => match buf with [] => Ok [] | _ => Ok [(start, N.of_nat (length buf))] end
              | _ => stream_run f (CkFixed size) start (buf ++ firstn n rest) (skipn n rest) evs'
              end = Ok (fixed_chunks (N.of_nat size) start (N.of_nat (length buf + length rest)) fuel2)).
    { intros n evs' Hn Hev' Hl.
      assert (Hlen : length rest = (length (firstn n rest) + length (skipn n rest))%nat).
      { rewrite <- (firstn_skipn n rest) at 1. apply app_length. }
      destruct (firstn n rest) as [|g got] eqn:Eg.
      - assert (rest = []).
        { destruct rest as [|y rest']; [reflexivity|]. destruct n; [|discriminate].
          destruct Hn as [Hn|Hn]; [lia|discriminate]. }
        subst rest. cbn [length]. destruct fuel2 as [|f2]; [lia|]. cbn [fixed_chunks].
        destruct buf as [|x buf'].
        + reflexivity.
        + replace (N.of_nat (length (x :: buf') + 0) =? 0)%N with false by (cbn [length]; lia).
          replace (N.of_nat size <=? N.of_nat (length (x :: buf') + 0))%N with false by lia.
          rewrite Nat.add_0_r. reflexivity.
      - rewrite (IH size _ _ _ evs' fuel2); auto.
        + rewrite app_length. do 2 f_equal. lia.
        + rewrite app_length. cbn [length] in *. lia.
        + rewrite app_length. lia. }
    destruct evs as [|[|n] evs'].
    + cbn [tl]. apply Hread; auto.
    + apply IH; auto.
      * inversion Hev; auto.
      * cbn [length] in Hfuel. lia.
    + cbn [tl]. inversion Hev as [|e l Hn Hev']; subst.
      apply Hread; [left; intros ->; apply Hn; reflexivity|assumption|cbn [length]; lia].
Qed.

(* ---------- main theorem ---------- *)
Lemma stream_rolling_main mask limitN minN maxN h data evs :
  (limitN <= minN)%N -> (minN <= maxN)%N -> (1 <= maxN)%N ->
  h_good h -> (h_pending h <= N.to_nat maxN)%nat ->
  Forall (fun e => e <> EvRead 0) evs ->
  stream_run (stream_fuel data evs)
    (CkRolling h mask (N.to_nat limitN) (N.to_nat minN) (N.to_nat maxN) 0) 0 [] data evs =
  Ok (auto_chunks hasher h_init_done h_init h_input (h_matches mask) limitN minN maxN h 0 0 data).
Proof.
  intros H1 H2 H3 Hg Hp Hev.
  rewrite stream_rolling; auto; try lia.
  - cbn [skipn app]. rewrite nchunks_auto_chunks. reflexivity.
  - unfold stream_fuel. cbn [length]. lia.
Qed.

Theorem chunk_stream_schedule_independent :
  forall cfg data evs,
    valid_config cfg = true ->
    Forall (fun e => e <> EvRead 0) evs ->
    chunk_stream cfg data evs = chunk_oneshot cfg data.
Proof.
  intros cfg data evs Hv Hev.
  unfold chunk_stream, chunk_oneshot, new_chunker, valid_config in *.
  destruct (c_algo cfg) eqn:Ea.
  - (* BuzHash *)
    assert (V : (1 <= c_win cfg /\ c_min cfg <= c_max cfg /\ c_win cfg <= c_max cfg /\ 1 <= c_max cfg
                 /\ 1 <= c_bits cfg /\ c_bits cfg <= 32)%N) by lia.
    destruct V as (V1 & V2 & V3 & V4 & V5 & V6).
    replace (c_win cfg =? 0)%N with false by lia. unfold filter_mask.
    replace (32 <? c_bits cfg)%N with false by lia.
    replace (c_bits cfg =? 0)%N with false by lia. cbn [bind].
    apply stream_rolling_main; auto; try lia.
    + destruct (N.leb_spec (c_win cfg) (c_min cfg)); lia.
    + cbn. right. lia.
    + cbn. lia.
  - (* RollSum *)
    assert (V : (1 <= c_win cfg /\ c_min cfg <= c_max cfg /\ c_win cfg <= c_max cfg /\ 1 <= c_max cfg
                 /\ 1 <= c_bits cfg /\ c_bits cfg <= 32)%N) by lia.
    destruct V as (V1 & V2 & V3 & V4 & V5 & V6).
    replace (c_win cfg =? 0)%N with false by lia. unfold filter_mask.
    replace (32 <? c_bits cfg)%N with false by lia.
    replace (c_bits cfg =? 0)%N with false by lia. cbn [bind].
    apply stream_rolling_main; auto; try lia.
    + destruct (N.leb_spec (c_win cfg) (c_min cfg)); lia.
    + cbn. exact I.
    + cbn. lia.
  - (* fixed size *)
    assert (V : (1 <= c_max cfg)%N) by lia.
    replace (c_max cfg =? 0)%N with false by lia. cbn [bind].
    rewrite (stream_fixed _ _ _ _ _ _ (S (length data))); auto; try lia.
    + cbn [length Nat.add]. rewrite N2Nat.id, lenN_length. reflexivity.
    + unfold stream_fuel. cbn [length]. lia.
Qed.

(* for valid configurations the reference chunking succeeds, hence so does every streaming run:
   in particular no slice-order panic ([rh_next_panics]) and no fuel exhaustion along any run *)
Lemma chunk_oneshot_ok cfg data :
  valid_config cfg = true -> exists l, chunk_oneshot cfg data = Ok l.
Proof.
  intros Hv. unfold chunk_oneshot, valid_config in *.
  destruct (c_algo cfg).
  1,2: replace (c_win cfg =? 0)%N with false by lia; unfold filter_mask;
       replace (32 <? c_bits cfg)%N with false by lia;
       replace (c_bits cfg =? 0)%N with false by lia; cbn [bind]; eexists; reflexivity.
  replace (c_max cfg =? 0)%N with false by lia. eexists; reflexivity.
Qed.

Corollary chunk_stream_ok cfg data evs :
  valid_config cfg = true -> Forall (fun e => e <> EvRead 0) evs ->
  exists l, chunk_stream cfg data evs = Ok l.
Proof.
  intros Hv Hev. rewrite chunk_stream_schedule_independent by assumption.
  apply chunk_oneshot_ok; assumption.
Qed.

Print Assumptions chunk_stream_schedule_independent.
Print Assumptions chunk_stream_ok.
