(* The byte-keyed chunk index (Model/HashSum.v) is the id-keyed chunk index (Model/ChunkIndex.v)
   up to an injective renaming of keys; truncation is applied consistently by add and lookups. *)
From Coq Require Import NArith List Lia Bool.
From Bita Require Import Model.Base Model.ChunkIndex Model.HashSum.
Import ListNotations.
Open Scope N_scope.

Lemma HK_list_eqb_eq : forall a b, list_eqb a b = true <-> a = b.
Proof.
  induction a as [|x a IH]; intros [|y b]; cbn [list_eqb]; try (split; [discriminate|discriminate]).
  - split; reflexivity.
  - rewrite andb_true_iff, N.eqb_eq, IH. split.
    + intros [-> ->]. reflexivity.
    + intros E. injection E as -> ->. split; reflexivity.
Qed.

Lemma HK_list_eqb_refl : forall a, list_eqb a a = true.
Proof. intros a. apply HK_list_eqb_eq. reflexivity. Qed.

Lemma HK_list_eqb_neq : forall a b, a <> b -> list_eqb a b = false.
Proof.
  intros a b Hn. destruct (list_eqb a b) eqn:E; [|reflexivity].
  apply HK_list_eqb_eq in E. contradiction.
Qed.

Lemma HK_list_eqb_spec : forall a b, reflect (a = b) (list_eqb a b).
Proof.
  intros a b. destruct (list_eqb a b) eqn:E; constructor.
  - apply HK_list_eqb_eq. exact E.
  - intros ->. rewrite HK_list_eqb_refl in E. discriminate.
Qed.

Section Refine.
  Variable kid : hsum -> N.

  Definition abs (idx : hindex) : index := map (fun e => (kid (fst e), snd e)) idx.

  (* injectivity of the key assignment on the keys that matter *)
  Definition inj_on (ks : list hsum) : Prop :=
    forall a b, In a ks -> In b ks -> kid a = kid b -> a = b.

  Lemma inj_on_tail : forall k k' ks, inj_on (k :: k' :: ks) -> inj_on (k :: ks).
  Proof.
    intros k k' ks H a b Ha Hb. apply H; cbn [In] in *; tauto.
  Qed.

  (* under inj_on the two key tests agree *)
  Lemma key_test_agree : forall k k' ks, inj_on (k :: k' :: ks) -> list_eqb k k' = (kid k =? kid k').
  Proof.
    intros k k' ks H. destruct (HK_list_eqb_spec k k') as [->|Hn].
    - symmetry. apply N.eqb_refl.
    - symmetry. apply N.eqb_neq. intros E. apply Hn. apply H; cbn [In]; auto.
  Qed.

  Theorem hci_get_refines : forall idx k, inj_on (k :: map fst idx) ->
    hci_get idx k = ci_get (abs idx) (kid k).
  Proof.
    induction idx as [|[k' l] r IH]; intros k H; cbn [hci_get abs map ci_get fst snd]; [reflexivity|].
    cbn [map fst] in H. rewrite (key_test_agree _ _ _ H).
    destruct (kid k =? kid k'); [reflexivity|].
    apply IH. eapply inj_on_tail; exact H.
  Qed.

  Theorem hci_contains_refines : forall L idx h, inj_on (hs_truncate L h :: map fst idx) ->
    hci_contains L idx h = ci_contains (abs idx) (kid (hs_truncate L h)).
  Proof.
    intros L idx h H. unfold hci_contains, ci_contains. rewrite (hci_get_refines _ _ H). reflexivity.
  Qed.

  Lemma hci_remove_key_refines : forall idx k, inj_on (k :: map fst idx) ->
    abs (hci_remove_key idx k) = ci_remove (abs idx) (kid k).
  Proof.
    induction idx as [|[k' l] r IH]; intros k H; cbn [hci_remove_key abs map ci_remove fst snd]; [reflexivity|].
    cbn [map fst] in H. rewrite (key_test_agree _ _ _ H).
    destruct (kid k =? kid k'); [reflexivity|].
    cbn [map fst snd]. f_equal. apply IH. eapply inj_on_tail; exact H.
  Qed.

  Theorem hci_remove_refines : forall L idx h, inj_on (hs_truncate L h :: map fst idx) ->
    abs (hci_remove L idx h) = ci_remove (abs idx) (kid (hs_truncate L h)).
  Proof. intros L idx h H. unfold hci_remove. apply hci_remove_key_refines. exact H. Qed.

  Lemma hci_add_key_refines : forall idx k size offs, inj_on (k :: map fst idx) ->
    abs (hci_add_key idx k size offs) = ci_add (abs idx) (kid k) size offs.
  Proof.
    induction idx as [|[k' l] r IH]; intros k size offs H; cbn [hci_add_key abs map ci_add fst snd]; [reflexivity|].
    cbn [map fst] in H. rewrite (key_test_agree _ _ _ H).
    destruct (kid k =? kid k'); [reflexivity|].
    cbn [map fst snd]. f_equal. apply IH. eapply inj_on_tail; exact H.
  Qed.

  Theorem hci_add_refines : forall L idx h size offs, inj_on (hs_truncate L h :: map fst idx) ->
    abs (hci_add L idx h size offs) = ci_add (abs idx) (kid (hs_truncate L h)) size offs.
  Proof. intros L idx h size offs H. unfold hci_add. apply hci_add_key_refines. exact H. Qed.

  (* ---------- consistency of truncation (independent of kid) ---------- *)

  Lemma hci_get_add_same : forall idx k size offs, exists l, hci_get (hci_add_key idx k size offs) k = Some l.
  Proof.
    induction idx as [|[k' l] r IH]; intros k size offs; cbn [hci_add_key].
    - cbn [hci_get]. rewrite HK_list_eqb_refl. eexists; reflexivity.
    - destruct (list_eqb k k') eqn:E; cbn [hci_get]; rewrite E.
      + eexists; reflexivity.
      + apply IH.
  Qed.

  Lemma hci_get_add_other : forall idx k k2 size offs, k <> k2 ->
    hci_get (hci_add_key idx k size offs) k2 = hci_get idx k2.
  Proof.
    induction idx as [|[k' l] r IH]; intros k k2 size offs Hn; cbn [hci_add_key].
    - cbn [hci_get]. rewrite (HK_list_eqb_neq k2 k) by congruence. reflexivity.
    - destruct (HK_list_eqb_spec k k') as [<-|Hk]; cbn [hci_get].
      + rewrite (HK_list_eqb_neq k2 k) by congruence. reflexivity.
      + destruct (list_eqb k2 k'); [reflexivity|]. apply IH. exact Hn.
  Qed.

  Theorem lookup_trunc_consistent : forall L idx h size offs,
    hci_contains L (hci_add L idx h size offs) h = true.
  Proof.
    intros L idx h size offs. unfold hci_contains, hci_add.
    destruct (hci_get_add_same idx (hs_truncate L h) size offs) as [l ->]. reflexivity.
  Qed.

  Theorem lookup_same_prefix : forall L idx h1 h2, takeN L h1 = takeN L h2 ->
    hci_contains L idx h1 = hci_contains L idx h2 /\ hci_remove L idx h1 = hci_remove L idx h2.
  Proof.
    intros L idx h1 h2 E. unfold hci_contains, hci_remove, hs_truncate. rewrite E. split; reflexivity.
  Qed.

  Theorem lookup_distinct_prefix : forall L idx h1 h2 size offs, takeN L h1 <> takeN L h2 ->
    hci_contains L (hci_add L idx h1 size offs) h2 = hci_contains L idx h2.
  Proof.
    intros L idx h1 h2 size offs Hn. unfold hci_contains, hci_add, hs_truncate.
    rewrite hci_get_add_other by exact Hn. reflexivity.
  Qed.
End Refine.

(* the unit test lookup_truncated_hash_sum of chunk_index.rs, on the model *)
Example HK_lookup_truncated_hash_sum :
  let index := hci_add 4 [] (hs_from [1;2;3;4;99;99]) 10 [0] in
  hci_contains 4 index (hs_from [1;2;3;4;5;6]) = true /\ hci_remove 4 index (hs_from [1;2;3;4;5;6]) = [].
Proof. vm_compute. split; reflexivity. Qed.

Print Assumptions hci_get_refines.
Print Assumptions hci_contains_refines.
Print Assumptions hci_remove_refines.
Print Assumptions hci_add_refines.
Print Assumptions lookup_trunc_consistent.
Print Assumptions lookup_same_prefix.
Print Assumptions lookup_distinct_prefix.
