(* The explicit-stack loop of build_reorder_ops (Model/PlannerIter.v) computes exactly the recursive
   formulation [visit]/[trees]/[reorder_ops] of Model/ChunkIndex.v. Purely structural: no well-formedness
   hypothesis on the indexes is needed. *)
From Bita Require Import Model.Base Model.ChunkIndex Model.PlannerIter Proofs.Planner.
From Coq Require Import PeanoNat.

Local Open Scope nat_scope.

(* number of keys of the universe [U] that are not yet visited *)
Definition cnt (U vis : list N) : nat := length (filter (fun k => negb (memk k vis)) U).

Lemma cnt_nil U : cnt U [] = length U.
Proof. unfold cnt. induction U; simpl; auto. Qed.

Lemma cnt_mono U : forall vis vis',
  (forall k, memk k vis = true -> memk k vis' = true) -> cnt U vis' <= cnt U vis.
Proof.
  intros vis vis' H. unfold cnt. induction U as [|a U IH]; simpl; auto.
  destruct (memk a vis) eqn:E.
  - rewrite (H _ E). simpl. exact IH.
  - simpl. destruct (memk a vis'); simpl; lia.
Qed.

Lemma cnt_cons_lt U : forall vis k,
  In k U -> memk k vis = false -> cnt U (k :: vis) < cnt U vis.
Proof.
  intros vis k. unfold cnt. induction U as [|a U IH]; simpl; [tauto|].
  intros [->|Hin] Hk.
  - rewrite N.eqb_refl, Hk. simpl.
    assert (H := cnt_mono U vis (k :: vis)). unfold cnt in H.
    assert (length (filter (fun k0 => negb (memk k0 (k :: vis))) U)
            <= length (filter (fun k0 => negb (memk k0 vis)) U)).
    { apply H. intros k0 Hk0. simpl. destruct (k0 =? k)%N; auto. }
    simpl in *. lia.
  - specialize (IH Hin Hk). simpl in IH.
    destruct (a =? k)%N eqn:E.
    + simpl. destruct (memk a vis); simpl; lia.
    + destruct (memk a vis); simpl; lia.
Qed.

(* ---------- the overlap list of [expand] ---------- *)

Lemma take_while_In {A} (f : A -> bool) : forall l x, In x (take_while f l) -> In x l.
Proof. induction l as [|a l IH]; simpl; [tauto|]. intros x. destruct (f a); simpl; [intuition|tauto]. Qed.

Lemma take_while_length {A} (f : A -> bool) : forall l, length (take_while f l) <= length l.
Proof. induction l as [|a l IH]; simpl; auto. destruct (f a); simpl; lia. Qed.

Lemma filter_length_le {A} (f : A -> bool) : forall l, length (filter f l) <= length l.
Proof. induction l as [|a l IH]; simpl; auto. destruct (f a); simpl; lia. Qed.

Lemma iter_overlapping_In lay off size e : In e (iter_overlapping lay off size) -> In e lay.
Proof.
  unfold iter_overlapping. intros H. apply take_while_In in H. apply in_rev in H.
  apply filter_In in H. tauto.
Qed.

Lemma iter_overlapping_length lay off size : length (iter_overlapping lay off size) <= length lay.
Proof.
  unfold iter_overlapping. etransitivity; [apply take_while_length|].
  rewrite rev_length. apply filter_length_le.
Qed.

Lemma expand_In tgt lay c e : In e (fst (expand tgt lay c)) -> In e lay.
Proof.
  unfold expand. destruct (ci_get tgt (m_key c)) as [tl|]; simpl; [|tauto].
  rewrite in_flat_map. intros (d & _ & H). apply filter_In in H.
  eapply iter_overlapping_In. apply H.
Qed.

Lemma flat_map_length_le {A B} (f : A -> list B) m : forall l,
  (forall a, length (f a) <= m) -> length (flat_map f l) <= length l * m.
Proof.
  intros l H. induction l as [|a l IH]; simpl; auto.
  rewrite app_length. specialize (H a). lia.
Qed.

Lemma ci_get_max_dests : forall tgt k tl, ci_get tgt k = Some tl -> length (l_offs tl) <= max_dests tgt.
Proof.
  induction tgt as [|[k' l] r IH]; simpl; [discriminate|].
  intros k tl. destruct (k =? k')%N.
  - intros [= ->]. apply Nat.le_max_l.
  - intros H. etransitivity; [eapply IH; eauto|]. apply Nat.le_max_r.
Qed.

Lemma expand_length tgt lay c : length (fst (expand tgt lay c)) <= max_dests tgt * length lay.
Proof.
  unfold expand. destruct (ci_get tgt (m_key c)) as [tl|] eqn:E; simpl; [|lia].
  etransitivity.
  - apply flat_map_length_le with (m := length lay). intros d.
    etransitivity; [apply filter_length_le|apply iter_overlapping_length].
  - apply Nat.mul_le_mono_r. eapply ci_get_max_dests; eauto.
Qed.

(* [visit] written with [expand] *)
Lemma visit_S f tgt lay c vis ops :
  visit (S f) tgt lay c (vis, ops) =
  if memk (m_key c) vis then (vis, ops) else
  let vis1 := m_key c :: vis in
  let stores := map (fun e => RStore (le_key e) (le_size e) (le_off e))
                    (filter (fun e => memk (le_key e) vis1) (fst (expand tgt lay c))) in
  let children := filter (fun e => negb (memk (le_key e) vis1)) (fst (expand tgt lay c)) in
  let r := fold_left (fun st e => visit f tgt lay (mchunk_of e) st) (rev children) (vis1, ops ++ stores) in
  (fst r, snd r ++ [RCopy (m_key c) (m_size c) (m_src c) (snd (expand tgt lay c))]).
Proof.
  simpl. destruct (memk (m_key c) vis); [reflexivity|].
  unfold expand, mchunk_of. destruct (ci_get tgt (m_key c)) as [tl|]; cbn [fst snd].
  - match goal with |- (let '(a, b) := ?X in _) = _ => destruct X end. reflexivity.
  - match goal with |- (let '(a, b) := ?X in _) = _ => destruct X end. reflexivity.
Qed.

Lemma iter_loop_S f tgt lay c op rest vis ops :
  iter_loop (S f) tgt lay ((c, op) :: rest) vis ops =
  if memk (m_key c) vis then
    iter_loop f tgt lay rest vis (match op with Some o => ops ++ [o] | None => ops end)
  else
    let vis1 := m_key c :: vis in
    let stores := map (fun e => RStore (le_key e) (le_size e) (le_off e))
                      (filter (fun e => memk (le_key e) vis1) (fst (expand tgt lay c))) in
    let children := filter (fun e => negb (memk (le_key e) vis1)) (fst (expand tgt lay c)) in
    iter_loop f tgt lay
      (map (fun e => (mchunk_of e, @None rop)) (rev children)
       ++ (c, Some (RCopy (m_key c) (m_size c) (m_src c) (snd (expand tgt lay c)))) :: rest)
      vis1 (ops ++ stores).
Proof.
  simpl. destruct (memk (m_key c) vis); [reflexivity|].
  destruct (expand tgt lay c) as [ov dests]. cbn [fst snd]. rewrite map_rev. reflexivity.
Qed.

Section OneTree.
  Variables (tgt : index) (lay : layout).
  Variable U : list N.                       (* universe of keys: the root and every layout entry *)
  Hypothesis lay_U : forall e, In e lay -> In (le_key e) U.
  Variable M : nat.                          (* bound on the number of overlapped entries of one chunk *)
  Hypothesis M_ok : forall c, length (fst (expand tgt lay c)) <= M.

  (* what the loop does with a not-yet-expanded entry on top of an arbitrary rest of the stack:
     after [n] iterations the entry is gone and the state is that of the recursive visit *)
  Definition runs_as (stack rest : list sentry) (vis : list N) (ops : list rop) (r : list N * list rop)
    (budget : nat) : Prop :=
    (forall k, memk k vis = true -> memk k (fst r) = true) /\
    exists n,
      n + (M + 2) * cnt U (fst r) <= budget + (M + 2) * cnt U vis /\
      forall fi, iter_loop (n + fi) tgt lay (stack ++ rest) vis ops = iter_loop fi tgt lay rest (fst r) (snd r).

  Definition visit_ok (f : nat) : Prop :=
    forall c vis ops rest, In (m_key c) U -> cnt U vis < f ->
      runs_as [(c, None)] rest vis ops (visit f tgt lay c (vis, ops)) 1.

  Lemma children_ok f : visit_ok f ->
    forall l vis ops rest, (forall e, In e l -> In (le_key e) U) -> cnt U vis < f ->
      runs_as (map (fun e => (mchunk_of e, @None rop)) l) rest vis ops
              (fold_left (fun st e => visit f tgt lay (mchunk_of e) st) l (vis, ops)) (length l).
  Proof.
    intros HV. induction l as [|e l IH]; intros vis ops rest HU Hf.
    - cbn [fold_left map length app fst snd]. split; [auto|]. exists 0. cbn [fst snd]. split; [lia|]. reflexivity.
    - cbn [fold_left map length].
      destruct (HV (mchunk_of e) vis ops (map (fun e => (mchunk_of e, @None rop)) l ++ rest))
        as (Hm1 & n1 & Hb1 & He1); [apply HU; left; reflexivity|exact Hf|].
      destruct (visit f tgt lay (mchunk_of e) (vis, ops)) as [vis' ops'] eqn:Ev. cbn [fst snd] in *.
      assert (Hc : cnt U vis' <= cnt U vis) by (apply cnt_mono; exact Hm1).
      destruct (IH vis' ops' rest) as (Hm2 & n2 & Hb2 & He2);
        [intros; apply HU; right; assumption|lia|].
      split; [auto|]. exists (n1 + n2). split; [lia|].
      intros fi. rewrite <- Nat.add_assoc.
      change ((mchunk_of e, @None rop) :: map (fun e0 => (mchunk_of e0, @None rop)) l)
        with ([(mchunk_of e, @None rop)] ++ map (fun e0 => (mchunk_of e0, @None rop)) l).
      rewrite <- app_assoc. rewrite He1. apply He2.
  Qed.

  Lemma visit_ok_all : forall f, visit_ok f.
  Proof.
    induction f as [|f IH]; intros c vis ops rest HcU Hf; [lia|].
    rewrite visit_S. destruct (memk (m_key c) vis) eqn:Ec.
    - (* already visited: the (c, None) entry is popped, nothing emitted *)
      split; [auto|]. exists 1. cbn [fst snd]. split; [lia|].
      intros fi. cbn [app Nat.add]. rewrite iter_loop_S, Ec. reflexivity.
    - cbv zeta.
      set (vis1 := m_key c :: vis).
      set (ov := fst (expand tgt lay c)).
      set (stores := map (fun e => RStore (le_key e) (le_size e) (le_off e))
                         (filter (fun e => memk (le_key e) vis1) ov)).
      set (children := filter (fun e => negb (memk (le_key e) vis1)) ov).
      set (copy := RCopy (m_key c) (m_size c) (m_src c) (snd (expand tgt lay c))).
      assert (H1 : cnt U vis1 < cnt U vis) by (apply cnt_cons_lt; assumption).
      destruct (children_ok f IH (rev children) vis1 (ops ++ stores) ((c, Some copy) :: rest))
        as (Hm & n & Hb & He).
      { intros e He. apply in_rev in He. apply filter_In in He. apply lay_U.
        eapply expand_In. apply He. }
      { lia. }
      set (r := fold_left (fun st e => visit f tgt lay (mchunk_of e) st) (rev children) (vis1, ops ++ stores)) in *.
      cbn [fst snd].
      assert (Hcv : memk (m_key c) (fst r) = true).
      { apply Hm. unfold vis1. simpl. rewrite N.eqb_refl. reflexivity. }
      split.
      + intros k Hk. apply Hm. unfold vis1. simpl. rewrite Hk. destruct (k =? m_key c)%N; reflexivity.
      + exists (S (n + 1)). split.
        * assert (length (rev children) <= M).
          { rewrite rev_length. unfold children. etransitivity; [apply filter_length_le|apply M_ok]. }
          assert ((M + 2) * (cnt U vis1 + 1) <= (M + 2) * cnt U vis) by (apply Nat.mul_le_mono_l; lia).
          cbn [fst]. lia.
        * intros fi. cbn [app]. change (S (n + 1) + fi) with (S (n + 1 + fi)).
          rewrite iter_loop_S, Ec. cbv zeta. fold vis1 ov stores children copy.
          rewrite <- Nat.add_assoc, He. cbn [Nat.add].
          rewrite iter_loop_S, Hcv. reflexivity.
  Qed.

  (* one DFS tree *)
  Theorem visit_iter_eq_gen : forall c vis ops fuel_r fuel_i,
    In (m_key c) U ->
    cnt U vis < fuel_r ->
    1 + (M + 2) * cnt U vis <= fuel_i ->
    visit_iter fuel_i tgt lay c (vis, ops) = visit fuel_r tgt lay c (vis, ops).
  Proof.
    intros c vis ops fr fi HcU Hr Hi.
    destruct (visit_ok_all fr c vis ops [] HcU Hr) as (_ & n & Hb & He).
    unfold visit_iter. cbn [fst snd].
    replace fi with (n + (fi - n)) by lia.
    change [(c, @None rop)] with ([(c, @None rop)] ++ []). rewrite He.
    destruct (visit fr tgt lay c (vis, ops)) as [v o]. destruct (fi - n); reflexivity.
  Qed.
End OneTree.

(* One DFS tree: the explicit-stack loop produces exactly the visited list and the op list of the recursive
   [visit].  [U] is any list of keys containing the root and all layout keys;
   fuel_r: more than the number of unvisited keys of U (so that [visit] does not run out of fuel);
   fuel_i: enough loop iterations. *)
Theorem visit_iter_eq : forall tgt lay U c vis ops fuel_r fuel_i,
  In (m_key c) U ->
  (forall e, In e lay -> In (le_key e) U) ->
  cnt U vis < fuel_r ->
  1 + (max_dests tgt * length lay + 2) * cnt U vis <= fuel_i ->
  visit_iter fuel_i tgt lay c (vis, ops) = visit fuel_r tgt lay c (vis, ops).
Proof.
  intros. eapply visit_iter_eq_gen with (U := U) (M := max_dests tgt * length lay); eauto.
  intros. apply expand_length.
Qed.

(* ---------- all trees ---------- *)

Lemma layout_remove_In o s : forall l e, In e (layout_remove o s l) -> In e l.
Proof.
  induction l as [|x r IH]; simpl; [tauto|]. intros e.
  destruct ((le_off x =? o)%N && (le_size x =? s)%N); simpl; [tauto|]. intuition.
Qed.

Lemma remove_tree_sub cur tree : forall lay,
  (forall e, In e (remove_tree cur lay tree) -> In e lay) /\
  length (remove_tree cur lay tree) <= length lay.
Proof.
  unfold remove_tree. induction tree as [|k t IH]; intros lay; simpl; [split; auto|].
  assert (Hin : forall offs s lay0,
            (forall e, In e (fold_left (fun lay1 o => layout_remove o s lay1) offs lay0) -> In e lay0) /\
            length (fold_left (fun lay1 o => layout_remove o s lay1) offs lay0) <= length lay0).
  { induction offs as [|o offs IHo]; intros s lay0; simpl; [split; auto|].
    destruct (IHo s (layout_remove o s lay0)) as [A B]. split.
    - intros e He. eapply layout_remove_In. apply A. exact He.
    - etransitivity; [exact B|apply layout_remove_length]. }
  destruct (ci_get cur k) as [l|].
  - destruct (IH (fold_left (fun lay0 o => layout_remove o (l_size l) lay0) (l_offs l) lay)) as [A B].
    destruct (Hin (l_offs l) (l_size l) lay) as [C D]. split.
    + intros e He. apply C. apply A. exact He.
    + lia.
  - apply IH.
Qed.

Lemma trees_iter_eq cur tgt U L fr fi :
  length U < fr ->
  1 + (max_dests tgt * L + 2) * length U <= fi ->
  forall todo lay processed ops,
    (forall c, In c todo -> In (m_key c) U) ->
    (forall e, In e lay -> In (le_key e) U) ->
    length lay <= L ->
    trees_iter fi cur tgt lay todo processed ops = trees fr cur tgt lay todo processed ops.
Proof.
  intros Hr Hi. induction todo as [|c r IH]; intros lay processed ops HT HL Hlen; simpl; [reflexivity|].
  destruct (memk (m_key c) processed).
  - apply IH; auto. intros; apply HT; right; assumption.
  - rewrite (visit_iter_eq tgt lay U c [] ops fr fi).
    + destruct (visit fr tgt lay c ([], ops)) as [tree ops'].
      destruct (remove_tree_sub cur tree lay) as [A B].
      apply IH.
      * intros; apply HT; right; assumption.
      * intros e He. apply HL. apply A. exact He.
      * lia.
    + apply HT. left. reflexivity.
    + exact HL.
    + rewrite cnt_nil. exact Hr.
    + rewrite cnt_nil. etransitivity; [|exact Hi].
      apply le_n_S. apply Nat.mul_le_mono_r. apply Nat.add_le_mono_r. apply Nat.mul_le_mono_l. exact Hlen.
Qed.

Lemma layout_insert_In e : forall l x, In x (layout_insert e l) -> x = e \/ In x l.
Proof.
  induction l as [|y r IH]; simpl; [intuition congruence|]. intros x.
  destruct (co_lt (le_off e) (le_size e) (le_off y) (le_size y)); simpl; [intuition congruence|].
  destruct ((le_off e =? le_off y)%N && (le_size e =? le_size y)%N); simpl; [intuition congruence|].
  intros [->|H]; [tauto|]. apply IH in H. tauto.
Qed.

Lemma insert_by_src_In c : forall l x, In x (insert_by_src c l) <-> x = c \/ In x l.
Proof.
  induction l as [|y r IH]; simpl; [intuition|]. intros x.
  destruct (m_src c <? m_src y)%N; simpl; [intuition|]. rewrite IH. intuition.
Qed.

(* every key of the source layout is the key of a chunk to move *)
Lemma source_layout_keys cur tgt : forall e, In e (source_layout cur tgt) ->
  In (le_key e) (map m_key (chunks_to_move cur tgt)).
Proof.
  unfold source_layout, chunks_to_move.
  assert (G : forall idx lay todo,
            (forall e, In e lay -> In (le_key e) (map m_key todo)) ->
            forall e,
              In e (fold_left (fun acc e0 => let '(k, l) := e0 in
                      if ci_contains tgt k
                      then layout_insert {| le_off := first_off l; le_size := l_size l; le_key := k |} acc
                      else acc) idx lay) ->
              In (le_key e)
                 (map m_key (fold_left (fun acc e0 => let '(k, l) := e0 in
                      if ci_contains tgt k
                      then insert_by_src {| m_key := k; m_size := l_size l; m_src := first_off l |} acc
                      else acc) idx todo))).
  { induction idx as [|[k l] idx IH]; intros lay todo H; simpl; [exact H|].
    apply IH. destruct (ci_contains tgt k); [|exact H].
    intros e He. apply layout_insert_In in He. apply in_map_iff. destruct He as [->|He].
    - eexists. split; [|apply insert_by_src_In; left; reflexivity]. reflexivity.
    - apply H in He. apply in_map_iff in He. destruct He as (x & Hx & Hin).
      exists x. split; [exact Hx|]. apply insert_by_src_In. right. exact Hin. }
  apply G. simpl. tauto.
Qed.

(* The whole planner: hypothesis-free. *)
Theorem reorder_ops_iter_eq : forall cur tgt, reorder_ops_iter cur tgt = reorder_ops cur tgt.
Proof.
  intros cur tgt. unfold reorder_ops_iter, reorder_ops, iter_fuel.
  apply trees_iter_eq with (U := map m_key (chunks_to_move cur tgt)) (L := length (source_layout cur tgt)).
  - rewrite map_length. lia.
  - rewrite map_length. simpl. lia.
  - intros c Hc. apply in_map. exact Hc.
  - apply source_layout_keys.
  - lia.
Qed.

Print Assumptions visit_iter_eq.
Print Assumptions reorder_ops_iter_eq.
