From Coq Require Import List Bool.
Import ListNotations.
From Bita Require Import Model.OutFile.

(* ---- sanity checks of the model ---- *)
Example ex_mid_noflush : clone_run false true [true;false;true] = false. Proof. vm_compute. reflexivity. Qed.
Example ex_mid_flush : clone_run true true [true;false;true] = false. Proof. vm_compute. reflexivity. Qed.
Example ex_last_noflush : clone_run false true [true;true;false] = true. Proof. vm_compute. reflexivity. Qed.
Example ex_last_flush : clone_run true true [true;true;false] = false. Proof. vm_compute. reflexivity. Qed.
Example ex_last_flush_blk : clone_run true false [true;true;false] = false. Proof. vm_compute. reflexivity. Qed.
Example ex_empty : clone_run true true [] = true /\ clone_run false false [] = true.
Proof. vm_compute. split; reflexivity. Qed.

(* a failed write is pending in the state (in flight or remembered) *)
Definition is_bad (i : option bool) : bool :=
  match i with Some false => true | _ => false end.

Definition mk (i : option bool) : tfile := {| tf_inflight := i; tf_lasterr := false |}.

Lemma cw_cons : forall f rest i,
  clone_writes (f :: rest) (mk i) =
  if is_bad i then (mk None, false) else clone_writes rest (mk (Some f)).
Proof.
  intros f rest i. destruct i as [[|]|]; reflexivity.
Qed.

Lemma removelast_cons2 : forall (A : Type) (a b : A) l,
  removelast (a :: b :: l) = a :: removelast (b :: l).
Proof. reflexivity. Qed.

Lemma cw_snd : forall rest f i,
  snd (clone_writes (f :: rest) (mk i)) =
  negb (is_bad i) && forallb (fun b => b) (removelast (f :: rest)).
Proof.
  induction rest as [|g rest IH]; intros f i.
  - rewrite cw_cons. destruct (is_bad i); reflexivity.
  - rewrite cw_cons. destruct (is_bad i) eqn:E; [reflexivity|].
    rewrite IH. rewrite removelast_cons2.
    cbn [forallb negb andb is_bad]. destruct f; reflexivity.
Qed.

Lemma cw_fst : forall rest f i,
  snd (clone_writes (f :: rest) (mk i)) = true ->
  fst (clone_writes (f :: rest) (mk i)) = mk (Some (last (f :: rest) true)).
Proof.
  induction rest as [|g rest IH]; intros f i.
  - rewrite cw_cons. destruct (is_bad i); simpl; [discriminate|reflexivity].
  - rewrite cw_cons. destruct (is_bad i); [simpl; discriminate|].
    intros H. rewrite (IH g (Some f) H). reflexivity.
Qed.

Lemma forallb_removelast_last : forall l,
  forallb (fun b : bool => b) (removelast l) = true -> last l true = true ->
  forallb (fun b : bool => b) l = true.
Proof.
  induction l as [|a l IH]; [reflexivity|].
  destruct l as [|b l].
  - simpl. intros _ H. rewrite H. reflexivity.
  - rewrite removelast_cons2. intros H1 H2.
    cbn [forallb] in H1. apply andb_true_iff in H1. destruct H1 as [Ha H1].
    change (last (a :: b :: l) true) with (last (b :: l) true) in H2.
    change (forallb (fun b0 : bool => b0) (a :: b :: l))
      with (a && forallb (fun b0 : bool => b0) (b :: l)).
    rewrite Ha, (IH H1 H2). reflexivity.
Qed.

Lemma forallb_id_In_false : forall l,
  In false l -> forallb (fun b : bool => b) l = false.
Proof.
  induction l as [|a l IH]; simpl; [tauto|].
  intros [H|H]; [subst; reflexivity|]. rewrite (IH H). apply andb_false_r.
Qed.

Lemma forallb_id_Forall : forall l,
  Forall (fun b => b = true) l -> forallb (fun b : bool => b) l = true.
Proof.
  induction 1; simpl; [reflexivity|]. subst. assumption.
Qed.

Lemma forallb_removelast : forall l,
  forallb (fun b : bool => b) l = true ->
  forallb (fun b : bool => b) (removelast l) = true.
Proof.
  induction l as [|a l IH]; [reflexivity|].
  destruct l as [|b l]; [reflexivity|].
  rewrite removelast_cons2. cbn [forallb]. intros H.
  apply andb_true_iff in H. destruct H as [Ha H]. rewrite Ha. exact (IH H).
Qed.

Lemma forallb_last : forall l,
  forallb (fun b : bool => b) l = true -> last l true = true.
Proof.
  induction l as [|a l IH]; [reflexivity|].
  cbn [forallb]. intros H. apply andb_true_iff in H. destruct H as [Ha H].
  destruct l as [|b l]; [exact Ha|]. exact (IH H).
Qed.

(* the flushed run, computed exactly *)
Lemma flushed_clone_exact : forall regular fates,
  clone_run true regular fates = forallb (fun b => b) fates.
Proof.
  intros regular [|f rest].
  - destruct regular; reflexivity.
  - unfold clone_run. change tf_new with (mk None).
    pose proof (cw_snd rest f None) as Hs.
    pose proof (cw_fst rest f None) as Hf.
    destruct (clone_writes (f :: rest) (mk None)) as [s ok].
    cbn [fst snd is_bad negb andb] in Hs, Hf.
    destruct ok.
    + rewrite (Hf eq_refl). symmetry in Hs.
      destruct (last (f :: rest) true) eqn:El.
      * rewrite (forallb_removelast_last _ Hs El).
        destruct regular; reflexivity.
      * destruct (forallb (fun b : bool => b) (f :: rest)) eqn:Ea.
        -- apply forallb_last in Ea. congruence.
        -- reflexivity.
    + destruct (forallb (fun b : bool => b) (f :: rest)) eqn:Ea; [|reflexivity].
      apply forallb_removelast in Ea. congruence.
Qed.

(* with the flush, any failed write makes the run fail -- for regular files and block devices *)
Theorem flushed_clone_reports_failed_write : forall regular fates,
  In false fates -> clone_run true regular fates = false.
Proof.
  intros. rewrite flushed_clone_exact. apply forallb_id_In_false. assumption.
Qed.

(* and all-successful writes are reported as success (non-vacuity) *)
Theorem flushed_clone_ok : forall regular fates,
  Forall (fun b => b = true) fates -> clone_run true regular fates = true.
Proof.
  intros. rewrite flushed_clone_exact. apply forallb_id_Forall. assumption.
Qed.

(* without the flush the LAST write's failure is lost *)
Theorem unflushed_clone_loses_last_error :
  exists fates, In false fates /\ clone_run false true fates = true.
Proof.
  exists [true; true; false]. split; [simpl; tauto|reflexivity].
Qed.

Lemma unflushed_clone_exact : forall regular fates,
  clone_run false regular fates = forallb (fun b => b) (removelast fates).
Proof.
  intros regular [|f rest].
  - destruct regular; reflexivity.
  - unfold clone_run. change tf_new with (mk None).
    pose proof (cw_snd rest f None) as Hs.
    destruct (clone_writes (f :: rest) (mk None)) as [s ok].
    cbn [fst snd is_bad negb andb] in Hs. rewrite <- Hs.
    destruct ok; [|reflexivity].
    destruct regular; [|reflexivity].
    unfold tf_set_len. destruct (tf_inflight s) as [[|]|]; reflexivity.
Qed.

Lemma forallb_removelast_split : forall l,
  forallb (fun b : bool => b) (removelast l) = true <->
  (forall pre b post, l = pre ++ b :: post -> post <> [] -> b = true).
Proof.
  induction l as [|a l IH].
  - split; [|reflexivity]. intros _ pre b post H. destruct pre; discriminate.
  - destruct l as [|c l].
    + split; [|reflexivity]. intros _ pre b post H Hp.
      destruct pre as [|p pre].
      * injection H as _ H. congruence.
      * injection H as _ H. destruct pre; discriminate.
    + rewrite removelast_cons2. cbn [forallb]. rewrite andb_true_iff, IH. split.
      * intros [Ha H] pre b post E Hp. destruct pre as [|p pre].
        -- injection E as E _. congruence.
        -- injection E as _ E. exact (H pre b post E Hp).
      * intros H. split.
        -- apply (H [] a (c :: l)); [reflexivity|discriminate].
        -- intros pre b post E Hp. apply (H (a :: pre) b post); [|exact Hp].
           rewrite E. reflexivity.
Qed.

(* without the flush, success is reported iff every write except possibly the
   last one succeeded *)
Theorem unflushed_clone_characterisation : forall regular fates,
  clone_run false regular fates = true <->
  (forall pre b post, fates = pre ++ b :: post -> post <> [] -> b = true).
Proof.
  intros. rewrite unflushed_clone_exact. apply forallb_removelast_split.
Qed.

Print Assumptions flushed_clone_reports_failed_write.
Print Assumptions flushed_clone_ok.
Print Assumptions unflushed_clone_loses_last_error.
Print Assumptions unflushed_clone_characterisation.
