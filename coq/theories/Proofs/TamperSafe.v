(* C04 / C17 (clone part) / C06 at archive level: the archive phase of a clone fed with arbitrary payloads.
   Whatever the reader returns for each descriptor, a payload is only written after decompression and
   hash verification; under the hash-soundness assumption restricted to the offered data ([verified_ok])
   the clone either fails with an error or reproduces the source exactly. *)
From Bita Require Import Model.Base Model.ChunkIndex Model.CloneOutput Model.CloneSpec Model.Proto
  Model.Archive Model.CloneArchive.
From Bita Require Import Proofs.CloneCorrect Proofs.CloneFinal.

(* ---------- list facts ---------- *)
Lemma filter_idem {A} (p : A -> bool) : forall l, filter p (filter p l) = filter p l.
Proof.
  induction l as [|x l IH]; cbn [filter]; [reflexivity|].
  destruct (p x) eqn:E; cbn [filter]; [rewrite E, IH; reflexivity|exact IH].
Qed.

Lemma filter_map_comm {A B} (f : A -> B) (p : B -> bool) :
  forall l, filter p (map f l) = map f (filter (fun x => p (f x)) l).
Proof.
  induction l as [|x l IH]; cbn [filter map]; [reflexivity|].
  destruct (p (f x)); cbn [map]; rewrite IH; reflexivity.
Qed.

(* ---------- the clone only sees the archive list through the chunk_stream filter ---------- *)
Lemma feed_list_nil : forall st idx, feed_list st idx [] = (st, idx, []).
Proof. reflexivity. Qed.

Lemma clone_model_arch_ext : forall prior fault cidx oidx seeds arch arch',
  filter (fun kd => ci_contains (cr_index (clone_model prior fault cidx oidx seeds [])) (fst kd)) arch =
  filter (fun kd => ci_contains (cr_index (clone_model prior fault cidx oidx seeds [])) (fst kd)) arch' ->
  clone_model prior fault cidx oidx seeds arch = clone_model prior fault cidx oidx seeds arch'.
Proof.
  intros prior fault cidx oidx seeds arch arch'. unfold clone_model.
  destruct (match oidx with
            | Some oi => reorder_in_place (o_init prior fault) cidx oi
            | None => (o_init prior fault, cidx, 0)
            end) as [[st1 idx1] moved] eqn:E1.
  destruct (feed_list st1 idx1 seeds) as [[st2 idx2] fed2] eqn:E2.
  destruct (o_err st2) as [e|] eqn:Ee.
  - intros _. reflexivity.
  - cbn [filter]. rewrite feed_list_nil. cbn [cr_index]. intros Hf. rewrite Hf. reflexivity.
Qed.

Section TamperSafe.
  Variable H : list N -> list N.
  Variable decomp : N -> list N -> option (list N).
  Variable D : N -> list N.

  Definition dkey (a : archive) (d : adesc) : N := key_of a (ad_checksum d).
  (* the descriptor table names each chunk of the source index once *)
  Definition desc_keys_ok (a : archive) : Prop :=
    NoDup (map (dkey a) (a_descs a)) /\
    forall k, In k (keys (build_source_index a)) <-> In k (map (dkey a) (a_descs a)).
  (* hash check soundness on the candidates of THIS run (the cryptographic assumption, restricted to the
     data actually offered): whatever passes decompression + hash comparison for descriptor d is chunk d *)
  Definition verified_ok (a : archive) (payload_of : adesc -> list N) : Prop :=
    forall d x, In d (a_descs a) -> unpack H decomp a d (payload_of d) = Ok x -> x = D (dkey a d).

  (* the genuine (key, chunk) pair of a descriptor *)
  Definition gen (a : archive) (d : adesc) : N * list N := (dkey a d, D (dkey a d)).

  (* ---------- unpack / unpack_all ---------- *)
  Lemma unpack_ok_or_err : forall a d p,
    (exists x, unpack H decomp a d p = Ok x) \/ (exists e, unpack H decomp a d p = Err e).
  Proof.
    intros a d p. unfold unpack.
    destruct (ad_source_size d =? lenN p).
    - cbn [bind]. destruct (list_eqb _ _); [left|right]; eexists; reflexivity.
    - destruct (a_comp a) as [[alg lvl]|].
      + destruct (decomp alg p) as [x|].
        * cbn [bind]. destruct (list_eqb _ _); [left|right]; eexists; reflexivity.
        * right. eexists. reflexivity.
      + cbn [bind]. destruct (list_eqb _ _); [left|right]; eexists; reflexivity.
  Qed.

  Lemma unpack_all_ok_or_err : forall a payload_of descs,
    (exists arch, unpack_all H decomp a payload_of descs = Ok arch)
    \/ (exists e, unpack_all H decomp a payload_of descs = Err e).
  Proof.
    intros a payload_of descs. induction descs as [|d r IH]; cbn [unpack_all].
    - left. eexists. reflexivity.
    - destruct (unpack_ok_or_err a d (payload_of d)) as [[x Hx]|[e He]].
      + rewrite Hx. cbn [bind]. destruct IH as [[rest Hr]|[e He]].
        * rewrite Hr. cbn [bind]. left. eexists. reflexivity.
        * rewrite He. cbn [bind]. right. eexists. reflexivity.
      + rewrite He. cbn [bind]. right. eexists. reflexivity.
  Qed.

  (* what passed verification is the genuine list *)
  Lemma unpack_all_verified : forall a payload_of descs arch,
    verified_ok a payload_of -> (forall d, In d descs -> In d (a_descs a)) ->
    unpack_all H decomp a payload_of descs = Ok arch -> arch = map (gen a) descs.
  Proof.
    intros a payload_of descs. induction descs as [|d r IH]; intros arch Hv Hsub Hu; cbn [unpack_all] in Hu.
    - injection Hu as Hu. subst arch. reflexivity.
    - destruct (unpack H decomp a d (payload_of d)) as [x| | |] eqn:Hx; cbn [bind] in Hu; try discriminate Hu.
      destruct (unpack_all H decomp a payload_of r) as [rest| | |] eqn:Hr; cbn [bind] in Hu; try discriminate Hu.
      injection Hu as Hu. subst arch. cbn [map].
      rewrite (IH rest Hv (fun d' Hd' => Hsub d' (or_intror Hd')) eq_refl).
      rewrite (Hv d x (Hsub d (or_introl eq_refl)) Hx). reflexivity.
  Qed.

  Lemma unpack_all_total : forall a payload_of descs,
    (forall d, In d descs -> exists x, unpack H decomp a d (payload_of d) = Ok x) ->
    exists arch, unpack_all H decomp a payload_of descs = Ok arch.
  Proof.
    intros a payload_of descs. induction descs as [|d r IH]; intros Hall; cbn [unpack_all].
    - eexists. reflexivity.
    - destruct (Hall d (or_introl eq_refl)) as [x Hx]. rewrite Hx. cbn [bind].
      destruct (IH (fun d' Hd' => Hall d' (or_intror Hd'))) as [rest Hr]. rewrite Hr. cbn [bind].
      eexists. reflexivity.
  Qed.

  Lemma fetch_descs_incl : forall a idx d, In d (fetch_descs a idx) -> In d (a_descs a).
  Proof. intros a idx d Hd. unfold fetch_descs in Hd. apply filter_In in Hd. apply Hd. Qed.

  (* ---------- the genuine full archive list ---------- *)
  Definition full (a : archive) : list (N * list N) := map (gen a) (a_descs a).

  Lemma map_fst_gen : forall a descs, map fst (map (gen a) descs) = map (dkey a) descs.
  Proof. intros a descs. rewrite map_map. reflexivity. Qed.

  Lemma sound_gen : forall a descs, sound_feeds D (map (gen a) descs).
  Proof.
    intros a descs. unfold sound_feeds. apply Forall_forall. intros kd Hkd.
    apply in_map_iff in Hkd. destruct Hkd as [d [Hd _]]. subst kd. reflexivity.
  Qed.

  Lemma full_complete : forall a, desc_keys_ok a -> arch_complete (build_source_index a) (full a).
  Proof.
    intros a [Hnd Hk]. unfold arch_complete, full. rewrite map_fst_gen. split; assumption.
  Qed.

  (* what chunk_stream selects from the full list is the genuine list of fetch_descs *)
  Lemma filter_full : forall a idx,
    filter (fun kd => ci_contains idx (fst kd)) (full a) = map (gen a) (fetch_descs a idx).
  Proof.
    intros a idx. unfold full, fetch_descs.
    rewrite (filter_map_comm (gen a) (fun kd => ci_contains idx (fst kd))). reflexivity.
  Qed.

  (* the central reduction: a successful archive_clone is the library clone on the full genuine list *)
  Lemma archive_clone_full : forall a payload_of prior oidx seeds arch,
    verified_ok a payload_of ->
    unpack_all H decomp a payload_of
      (fetch_descs a (cr_index (clone_model prior None (build_source_index a) oidx seeds []))) = Ok arch ->
    clone_model prior None (build_source_index a) oidx seeds arch
    = clone_model prior None (build_source_index a) oidx seeds (full a).
  Proof.
    intros a payload_of prior oidx seeds arch Hv Hu.
    apply unpack_all_verified in Hu; [|exact Hv|apply fetch_descs_incl].
    apply clone_model_arch_ext. rewrite Hu. rewrite <- filter_full. apply filter_idem.
  Qed.

  (* ---------- C04 ---------- *)
  Theorem payload_tamper_safe : forall a src payload_of prior oidx seeds,
    describes D (build_source_index a) src -> out_ok D oidx prior -> sound_feeds D seeds ->
    desc_keys_ok a -> verified_ok a payload_of ->
    match archive_clone H decomp a payload_of prior oidx seeds with
    | Ok r => o_err (cr_state r) = None /\ cr_index r = [] /\ takeN (lenN src) (o_file (cr_state r)) = src
    | Err _ => True
    | Panic _ | OutOfFuel => False
    end.
  Proof.
    intros a src payload_of prior oidx seeds Hdesc Hout Hss Hk Hv. unfold archive_clone.
    destruct (unpack_all_ok_or_err a payload_of
                (fetch_descs a (cr_index (clone_model prior None (build_source_index a) oidx seeds []))))
      as [[arch Hu]|[e He]].
    - rewrite Hu. cbn [bind]. rewrite (archive_clone_full a payload_of prior oidx seeds arch Hv Hu).
      exact (clone_exact_final D src prior (build_source_index a) oidx seeds (full a)
               Hdesc Hout Hss (sound_gen a (a_descs a)) (full_complete a Hk)).
    - rewrite He. cbn [bind]. exact I.
  Qed.

  (* ---------- C17 (clone part) ---------- *)
  Theorem genuine_payloads_clone : forall a src payload_of prior oidx seeds,
    describes D (build_source_index a) src -> out_ok D oidx prior -> sound_feeds D seeds ->
    desc_keys_ok a ->
    (forall d, In d (a_descs a) -> unpack H decomp a d (payload_of d) = Ok (D (dkey a d))) ->
    exists r, archive_clone H decomp a payload_of prior oidx seeds = Ok r
              /\ o_err (cr_state r) = None /\ cr_index r = [] /\ takeN (lenN src) (o_file (cr_state r)) = src.
  Proof.
    intros a src payload_of prior oidx seeds Hdesc Hout Hss Hk Hgen.
    assert (Hv : verified_ok a payload_of).
    { intros d x Hd Hx. rewrite (Hgen d Hd) in Hx. injection Hx as Hx. symmetry. exact Hx. }
    pose proof (payload_tamper_safe a src payload_of prior oidx seeds Hdesc Hout Hss Hk Hv) as Hsafe.
    unfold archive_clone in *.
    destruct (unpack_all_total a payload_of
                (fetch_descs a (cr_index (clone_model prior None (build_source_index a) oidx seeds []))))
      as [arch Hu].
    { intros d Hd. exists (D (dkey a d)). apply Hgen. eapply fetch_descs_incl. exact Hd. }
    rewrite Hu in *. cbn [bind] in *. eexists. split; [reflexivity|exact Hsafe].
  Qed.

  (* ---------- C06 at archive level ---------- *)
  Theorem archive_fetch_exact : forall a src payload_of prior oidx seeds r,
    describes D (build_source_index a) src -> out_ok D oidx prior -> sound_feeds D seeds ->
    desc_keys_ok a -> verified_ok a payload_of ->
    archive_clone H decomp a payload_of prior oidx seeds = Ok r ->
    cr_fetch r = map (dkey a) (filter (fun d => negb (found oidx seeds (dkey a d))) (a_descs a)).
  Proof.
    intros a src payload_of prior oidx seeds r Hdesc Hout Hss Hk Hv Hr. unfold archive_clone in Hr.
    destruct (unpack_all H decomp a payload_of
                (fetch_descs a (cr_index (clone_model prior None (build_source_index a) oidx seeds []))))
      as [arch| | |] eqn:Hu; cbn [bind] in Hr; try discriminate Hr.
    injection Hr as Hr. subst r.
    rewrite (archive_clone_full a payload_of prior oidx seeds arch Hv Hu).
    rewrite (fetch_exact_final D src prior (build_source_index a) oidx seeds (full a)
               Hdesc Hout Hss (sound_gen a (a_descs a)) (full_complete a Hk)).
    unfold full. rewrite map_fst_gen.
    apply (filter_map_comm (dkey a) (fun k => negb (found oidx seeds k))).
  Qed.
End TamperSafe.

Print Assumptions payload_tamper_safe.
Print Assumptions genuine_payloads_clone.
Print Assumptions archive_fetch_exact.
