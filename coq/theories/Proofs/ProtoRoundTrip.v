(* Round trip of the protobuf dictionary codec model (Model/Proto.v):
   decode_dict (encode_dict d) = Some d for every well-formed dictionary. *)
From Bita Require Import Model.Base Gen.Generated Model.Proto.

Local Open Scope N_scope.

(* ---------- bit arithmetic ---------- *)
Lemma land_low_shiftl : forall a b k, a < 2 ^ k -> N.land a (N.shiftl b k) = 0.
Proof.
  intros a b k Ha. apply N.bits_inj. intro n.
  rewrite N.land_spec, N.bits_0.
  destruct (N.lt_ge_cases n k) as [Hn | Hn].
  - rewrite (N.shiftl_spec_low b k n Hn). apply andb_false_r.
  - assert (E : a = a mod 2 ^ k) by (symmetry; apply N.mod_small; exact Ha).
    rewrite E. rewrite N.mod_pow2_bits_high by exact Hn. reflexivity.
Qed.

Lemma lor_disjoint_add : forall a b, N.land a b = 0 -> N.lor a b = a + b.
Proof.
  intros a b H. rewrite <- N.lxor_lor by exact H. symmetry. apply N.add_nocarry_lxor. exact H.
Qed.

Lemma lor_low_shiftl : forall a b k, a < 2 ^ k -> N.lor a (N.shiftl b k) = a + b * 2 ^ k.
Proof.
  intros a b k Ha. rewrite lor_disjoint_add by (apply land_low_shiftl; exact Ha).
  rewrite N.shiftl_mul_pow2. reflexivity.
Qed.

Lemma lor_shiftl_low : forall a b k, a < 2 ^ k -> N.lor (N.shiftl b k) a = b * 2 ^ k + a.
Proof. intros a b k Ha. rewrite N.lor_comm, lor_low_shiftl by exact Ha. lia. Qed.

Lemma land127 : forall n, N.land n 127 = n mod 128.
Proof. intro n. change 127 with (N.ones 7). rewrite N.land_ones. reflexivity. Qed.

Lemma lor128 : forall x, x < 128 -> N.lor x 128 = x + 128.
Proof.
  intros x Hx. change 128 with (N.shiftl 1 7) at 1. rewrite lor_low_shiftl by exact Hx. reflexivity.
Qed.

Lemma w32_small : forall v, v < 4294967296 -> w32 v = v.
Proof.
  intros v Hv. unfold w32. change MASK32 with (N.ones 32). rewrite N.land_ones.
  apply N.mod_small. exact Hv.
Qed.

Lemma mask64_small : forall x, x < 2 ^ 64 -> N.land x (M64 - 1) = x.
Proof.
  intros x Hx. change (M64 - 1) with (N.ones 64). rewrite N.land_ones. apply N.mod_small. exact Hx.
Qed.

(* ---------- varint ---------- *)
Lemma pow2_split : forall a b, 2 ^ (a + b) = 2 ^ a * 2 ^ b.
Proof. intros. apply N.pow_add_r. Qed.

Lemma dec_enc_varint_gen : forall fuel count acc m r,
  N.of_nat fuel + count = 10 -> (1 <= fuel)%nat ->
  m < 2 ^ (64 - 7 * count) -> acc < 2 ^ (7 * count) ->
  dec_varint fuel count acc (enc_varint fuel m ++ r) = Some (acc + m * 2 ^ (7 * count), r).
Proof.
  induction fuel as [| f IH]; intros count acc m r Hc Hf Hm Hacc; [lia |].
  assert (Hc9 : count <= 9) by lia.
  assert (Hsplit : 2 ^ 64 = 2 ^ (64 - 7 * count) * 2 ^ (7 * count)).
  { rewrite <- N.pow_add_r. f_equal. lia. }
  assert (Hpos : 0 < 2 ^ (7 * count)) by (apply N.neq_0_lt_0, N.pow_nonzero; lia).
  cbn [enc_varint].
  destruct (N.ltb_spec m 128) as [Hlt | Hge].
  - cbn [app dec_varint]. 
    destruct (N.ltb_spec m 128) as [_ | ?]; [| lia].
    assert (Hguard : (count =? 9) && (2 <=? m) = false).
    { destruct (N.eqb_spec count 9) as [E | E]; [| reflexivity].
      subst count. change (2 ^ (64 - 7 * 9)) with 2 in Hm.
      destruct (N.leb_spec 2 m); [lia | reflexivity]. }
    rewrite Hguard. f_equal. f_equal.
    rewrite land127, (N.mod_small m 128) by exact Hlt.
    rewrite (N.mul_comm count 7).
    rewrite mask64_small.
    + rewrite lor_low_shiftl by exact Hacc. reflexivity.
    + rewrite N.shiftl_mul_pow2, Hsplit. apply N.mul_lt_mono_pos_r; assumption.
  - assert (Hc8 : count <= 8).
    { destruct (N.le_gt_cases count 8) as [H | H]; [exact H |].
      assert (count = 9) by lia. subst count. change (2 ^ (64 - 7 * 9)) with 2 in Hm. lia. }
    assert (Hmod : m mod 128 < 128) by (apply N.mod_lt; discriminate).
    assert (Hdm : m = 128 * (m / 128) + m mod 128) by (apply N.div_mod; discriminate).
    assert (Hb : N.lor (N.land m 127) 128 = m mod 128 + 128).
    { rewrite land127. apply lor128. exact Hmod. }
    rewrite Hb.
    assert (Hb2 : N.land (m mod 128 + 128) 127 = m mod 128).
    { rewrite land127. replace (m mod 128 + 128) with (m mod 128 + 1 * 128) by reflexivity.
      rewrite N.mod_add by discriminate. apply N.mod_small. exact Hmod. }
    rewrite N.shiftr_div_pow2. change (2 ^ 7) with 128.
    revert Hmod Hdm Hb2. clear Hb.
    generalize (m mod 128) as q. generalize (m / 128) as dv. intros dv q Hq Hdm Hb2.
    cbn [app dec_varint].
    destruct (N.ltb_spec (q + 128) 128) as [? | _]; [lia |].
    rewrite Hb2. rewrite (N.mul_comm count 7).
    assert (Hp7 : 2 ^ (7 * (count + 1)) = 128 * 2 ^ (7 * count)).
    { replace (7 * (count + 1)) with (7 + 7 * count) by lia. rewrite N.pow_add_r. reflexivity. }
    assert (Hsh : N.shiftl q (7 * count) < 2 ^ (7 * (count + 1))).
    { rewrite N.shiftl_mul_pow2, Hp7. apply N.mul_lt_mono_pos_r; assumption. }
    rewrite mask64_small.
    2:{ eapply N.lt_le_trans; [exact Hsh |]. apply N.pow_le_mono_r; lia. }
    rewrite lor_low_shiftl by exact Hacc.
    destruct f as [| f'].
    { exfalso. clear - Hc Hc8. lia. }
    rewrite IH.
    + f_equal. f_equal. rewrite Hp7. rewrite Hdm. lia.
    + lia.
    + lia.
    + assert (Hp : 2 ^ (64 - 7 * count) = 128 * 2 ^ (64 - 7 * (count + 1))).
      { replace (64 - 7 * count) with (7 + (64 - 7 * (count + 1))) by lia.
        rewrite N.pow_add_r. reflexivity. }
      rewrite Hp in Hm. lia.
    + rewrite Hp7.
      assert (q * 2 ^ (7 * count) <= 127 * 2 ^ (7 * count)) by (apply N.mul_le_mono_r; lia).
      lia.
Qed.

Theorem decode_encode_varint : forall n r, n < 18446744073709551616 ->
  decode_varint (encode_varint n ++ r) = Some (n, r).
Proof.
  intros n r Hn. unfold decode_varint, encode_varint.
  rewrite dec_enc_varint_gen.
  - f_equal. f_equal. change (2 ^ (7 * 0)) with 1. lia.
  - reflexivity.
  - lia.
  - exact Hn.
  - change (2 ^ (7 * 0)) with 1. lia.
Qed.

Lemma encode_varint_length : forall n, (1 <= length (encode_varint n))%nat.
Proof.
  intro n. unfold encode_varint. cbn [enc_varint].
  destruct (n <? 128); cbn [length]; lia.
Qed.

(* ---------- keys ---------- *)
Theorem decode_encode_key : forall tag wt r, 1 <= tag -> tag < 536870912 -> wt < 6 ->
  decode_key (encode_key tag wt ++ r) = Some (tag, wt, r).
Proof.
  intros tag wt r Ht1 Ht2 Hwt. unfold decode_key, encode_key.
  assert (Hk : N.lor (N.shiftl tag 3) wt = tag * 8 + wt).
  { rewrite lor_shiftl_low by (change (2 ^ 3) with 8; lia). reflexivity. }
  rewrite Hk. rewrite decode_encode_varint by lia.
  unfold M32. destruct (N.leb_spec 4294967296 (tag * 8 + wt)) as [? | _]; [lia |].
  assert (Hland : N.land (tag * 8 + wt) 7 = wt).
  { change 7 with (N.ones 3). rewrite N.land_ones. change (2 ^ 3) with 8.
    rewrite N.add_comm, N.mod_add by discriminate. apply N.mod_small. lia. }
  assert (Hshr : N.shiftr (tag * 8 + wt) 3 = tag).
  { rewrite N.shiftr_div_pow2. change (2 ^ 3) with 8.
    rewrite N.add_comm, N.div_add by discriminate. rewrite N.div_small by lia. reflexivity. }
  rewrite Hland, Hshr.
  destruct (N.leb_spec 6 wt) as [? | _]; [lia |].
  destruct (N.eqb_spec tag 0) as [? | _]; [lia |]. reflexivity.
Qed.

Lemma encode_key_length : forall tag wt, (1 <= length (encode_key tag wt))%nat.
Proof. intros. apply encode_varint_length. Qed.

Global Opaque encode_varint decode_varint encode_key decode_key.

(* ---------- lengths / take_bytes ---------- *)
Lemma lenN_app : forall (A : Type) (a b : list A), lenN (a ++ b) = lenN a + lenN b.
Proof. induction a as [| x a IH]; intro b; cbn [app lenN]; [reflexivity | rewrite IH; lia]. Qed.

Lemma takeN_app_len : forall (A : Type) (b r : list A), takeN (lenN b) (b ++ r) = b.
Proof.
  induction b as [| x b IH]; intro r.
  - cbn [lenN app]. destruct r; reflexivity.
  - cbn [lenN app takeN]. destruct (N.eqb_spec (N.succ (lenN b)) 0) as [E | _]; [lia |].
    rewrite N.pred_succ, IH. reflexivity.
Qed.

Lemma dropN_app_len : forall (A : Type) (b r : list A), dropN (lenN b) (b ++ r) = r.
Proof.
  induction b as [| x b IH]; intro r.
  - cbn [lenN app]. destruct r; reflexivity.
  - cbn [lenN app dropN]. destruct (N.eqb_spec (N.succ (lenN b)) 0) as [E | _]; [lia |].
    rewrite N.pred_succ, IH. reflexivity.
Qed.

Lemma take_bytes_app : forall b r, take_bytes (lenN b) (b ++ r) = Some (b, r).
Proof.
  intros b r. unfold take_bytes. rewrite lenN_app.
  destruct (N.leb_spec (lenN b) (lenN b + lenN r)) as [_ | ?]; [| lia].
  rewrite takeN_app_len, dropN_app_len. reflexivity.
Qed.

Definition B64 : N := 18446744073709551616.

Lemma read_len_field_enc : forall b r, lenN b < B64 ->
  read_len_field WT_LEN (encode_varint (lenN b) ++ b ++ r) = Some (b, r).
Proof.
  intros b r Hb. unfold read_len_field. change (WT_LEN =? WT_LEN) with true. cbv iota.
  rewrite decode_encode_varint by exact Hb. apply take_bytes_app.
Qed.

Lemma read_varint_field_enc : forall v r, v < B64 ->
  read_varint_field WT_VARINT (encode_varint v ++ r) = Some (v, r).
Proof.
  intros v r Hv. unfold read_varint_field. change (WT_VARINT =? WT_VARINT) with true. cbv iota.
  apply decode_encode_varint. exact Hv.
Qed.

(* ---------- merge loop ---------- *)
Definition stepfn (A : Type) : Type := A -> N -> N -> list N -> option (A * list N).

(* [merge_ok step acc l res]: the merge loop started in state [acc] on input [l] ends with [res],
   for every fuel that is at least the length of the input *)
Definition merge_ok {A} (step : stepfn A) (acc : A) (l : list N) (res : A) : Prop :=
  forall fuel, (length l <= fuel)%nat -> merge_fields fuel step acc l = Some res.

Lemma merge_ok_nil : forall A (step : stepfn A) acc, merge_ok step acc [] acc.
Proof. intros A step acc fuel _. destruct fuel; reflexivity. Qed.

(* one iteration of the merge loop on a well-formed key followed by a field body that [step] consumes *)
Lemma merge_fields_one : forall A (step : stepfn A) acc acc' tag wt body y fuel,
  1 <= tag -> tag < 536870912 -> wt < 6 ->
  step acc tag wt (body ++ y) = Some (acc', y) ->
  merge_fields (S fuel) step acc (encode_key tag wt ++ body ++ y) = merge_fields fuel step acc' y.
Proof.
  intros A step acc acc' tag wt body y fuel Ht1 Ht2 Hwt Hstep.
  pose proof (encode_key_length tag wt) as Hkl.
  destruct (encode_key tag wt ++ body ++ y) as [| x l] eqn:El.
  { apply (f_equal (@length N)) in El. rewrite app_length in El. cbn [length] in El. lia. }
  cbn [merge_fields]. rewrite <- El.
  rewrite decode_encode_key by assumption.
  rewrite Hstep. reflexivity.
Qed.

(* A predicate on loop states (accumulator, remaining input) is [field_closed] when it is preserved
   backwards by one complete field.  All encoder-side lemmas below are stated for an arbitrary
   field-closed predicate, so that they serve both for the round trip ([merge_ok]) and for
   fuel-exact statements about inputs with trailing bytes (Proofs/ProtoUnknown.v). *)
Definition field_closed {A} (step : stepfn A) (P : A -> list N -> Prop) : Prop :=
  forall acc acc' tag wt body y,
    1 <= tag -> tag < 536870912 -> wt < 6 ->
    step acc tag wt (body ++ y) = Some (acc', y) ->
    P acc' y -> P acc (encode_key tag wt ++ body ++ y).

Lemma merge_ok_closed : forall A (step : stepfn A) res, field_closed step (fun acc l => merge_ok step acc l res).
Proof.
  intros A step res acc acc' tag wt body y Ht1 Ht2 Hwt Hstep Hrest fuel Hfuel.
  pose proof (encode_key_length tag wt) as Hkl.
  rewrite !app_length in Hfuel.
  destruct fuel as [| f]; [lia |].
  rewrite (merge_fields_one _ step acc acc' tag wt body y f) by assumption.
  apply Hrest. lia.
Qed.

Section Closed.
  Context {A : Type} (step : stepfn A) (P : A -> list N -> Prop) (HP : field_closed step P).

  Lemma closed_uint : forall acc acc' tag v y,
    1 <= tag -> tag < 536870912 ->
    (v = 0 -> acc' = acc) ->
    (v <> 0 -> step acc tag WT_VARINT (encode_varint v ++ y) = Some (acc', y)) ->
    P acc' y -> P acc (enc_uint tag v ++ y).
  Proof.
    intros acc acc' tag v y Ht1 Ht2 H0 Hstep Hrest. unfold enc_uint.
    destruct (N.eqb_spec v 0) as [E | E].
    - cbn [app]. rewrite <- (H0 E). exact Hrest.
    - rewrite <- app_assoc. apply HP with (acc' := acc'); try assumption.
      + unfold WT_VARINT; lia.
      + apply Hstep. exact E.
  Qed.

  Lemma closed_msg : forall acc acc' tag b y,
    1 <= tag -> tag < 536870912 ->
    step acc tag WT_LEN (encode_varint (lenN b) ++ b ++ y) = Some (acc', y) ->
    P acc' y -> P acc (enc_msg tag b ++ y).
  Proof.
    intros acc acc' tag b y Ht1 Ht2 Hstep Hrest. unfold enc_msg.
    replace ((encode_key tag WT_LEN ++ encode_varint (lenN b) ++ b) ++ y)
      with (encode_key tag WT_LEN ++ (encode_varint (lenN b) ++ b) ++ y)
      by (rewrite <- !app_assoc; reflexivity).
    apply HP with (acc' := acc'); try assumption.
    - unfold WT_LEN; lia.
    - rewrite <- app_assoc. exact Hstep.
  Qed.

  Lemma closed_bytes : forall acc acc' tag b y,
    1 <= tag -> tag < 536870912 ->
    (b = [] -> acc' = acc) ->
    (b <> [] -> step acc tag WT_LEN (encode_varint (lenN b) ++ b ++ y) = Some (acc', y)) ->
    P acc' y -> P acc (enc_bytes tag b ++ y).
  Proof.
    intros acc acc' tag b y Ht1 Ht2 H0 Hstep Hrest.
    destruct b as [| x b'] eqn:Eb.
    - cbn [enc_bytes app]. rewrite <- (H0 eq_refl). exact Hrest.
    - rewrite <- Eb in *.
      replace (enc_bytes tag b) with (enc_msg tag b) by (rewrite Eb; reflexivity).
      apply closed_msg with (acc' := acc'); try assumption.
      apply Hstep. rewrite Eb. discriminate.
  Qed.
End Closed.

Lemma merge_ok_uint : forall A (step : stepfn A) acc acc' tag v y res,
  1 <= tag -> tag < 536870912 ->
  (v = 0 -> acc' = acc) ->
  (v <> 0 -> step acc tag WT_VARINT (encode_varint v ++ y) = Some (acc', y)) ->
  merge_ok step acc' y res ->
  merge_ok step acc (enc_uint tag v ++ y) res.
Proof. intros A step acc acc' tag v y res. apply (closed_uint step _ (merge_ok_closed A step res)). Qed.

Lemma merge_ok_bytes : forall A (step : stepfn A) acc acc' tag b y res,
  1 <= tag -> tag < 536870912 ->
  (b = [] -> acc' = acc) ->
  (b <> [] -> step acc tag WT_LEN (encode_varint (lenN b) ++ b ++ y) = Some (acc', y)) ->
  merge_ok step acc' y res ->
  merge_ok step acc (enc_bytes tag b ++ y) res.
Proof. intros A step acc acc' tag b y res. apply (closed_bytes step _ (merge_ok_closed A step res)). Qed.

(* ---------- well-formedness ---------- *)
Definition u32 (x : N) : Prop := x < 4294967296.
Definition u64 (x : N) : Prop := x < 18446744073709551616.
Definition bytes_ok (l : list N) : Prop := Forall (fun b => b < 256) l.
Definition desc_wf (d : descriptor) : Prop :=
  bytes_ok (d_checksum d) /\ u32 (d_archive_size d) /\ u64 (d_archive_offset d) /\ u32 (d_source_size d).
Definition params_wf (p : chunker_params) : Prop :=
  u32 (p_bits p) /\ u32 (p_min p) /\ u32 (p_max p) /\ u32 (p_win p) /\ u32 (p_hashlen p) /\ u32 (p_algo p).
Definition comp_wf (c : compression) : Prop := u32 (z_type c) /\ u32 (z_level c).
(* BTreeMap: keys strictly increasing in byte order *)
Fixpoint meta_sorted (m : list (list N * list N)) : Prop :=
  match m with
  | [] => True
  | (k, _) :: r => (match r with [] => True | (k', _) :: _ => bytes_lt k k' = true end) /\ meta_sorted r
  end.
Definition dict_wf (d : dictionary) : Prop :=
  bytes_ok (dict_version d) /\ utf8_valid (dict_version d) = true /\ bytes_ok (dict_checksum d) /\ u64 (dict_total d)
  /\ (match dict_params d with Some p => params_wf p | None => True end)
  /\ (match dict_comp d with Some c => comp_wf c | None => True end)
  /\ Forall u32 (dict_order d) /\ Forall desc_wf (dict_descs d)
  /\ Forall (fun kv => bytes_ok (fst kv) /\ utf8_valid (fst kv) = true /\ bytes_ok (snd kv)) (dict_meta d)
  /\ meta_sorted (dict_meta d).

Ltac tagb :=
  cbv delta [F_ChunkDescriptor_checksum F_ChunkDescriptor_archive_size F_ChunkDescriptor_archive_offset
             F_ChunkDescriptor_source_size F_ChunkerParameters_chunk_filter_bits F_ChunkerParameters_min_chunk_size
             F_ChunkerParameters_max_chunk_size F_ChunkerParameters_rolling_hash_window_size
             F_ChunkerParameters_chunk_hash_length F_ChunkerParameters_chunking_algorithm
             F_ChunkCompression_compression F_ChunkCompression_compression_level
             F_ChunkDictionary_application_version F_ChunkDictionary_source_checksum
             F_ChunkDictionary_source_total_size F_ChunkDictionary_chunker_params
             F_ChunkDictionary_chunk_compression F_ChunkDictionary_rebuild_order
             F_ChunkDictionary_chunk_descriptors F_ChunkDictionary_metadata]; lia.

Ltac tageq :=
  cbn [N.eqb Pos.eqb
       F_ChunkDescriptor_checksum F_ChunkDescriptor_archive_size F_ChunkDescriptor_archive_offset
       F_ChunkDescriptor_source_size F_ChunkerParameters_chunk_filter_bits F_ChunkerParameters_min_chunk_size
       F_ChunkerParameters_max_chunk_size F_ChunkerParameters_rolling_hash_window_size
       F_ChunkerParameters_chunk_hash_length F_ChunkerParameters_chunking_algorithm
       F_ChunkCompression_compression F_ChunkCompression_compression_level
       F_ChunkDictionary_application_version F_ChunkDictionary_source_checksum
       F_ChunkDictionary_source_total_size F_ChunkDictionary_chunker_params
       F_ChunkDictionary_chunk_compression F_ChunkDictionary_rebuild_order
       F_ChunkDictionary_chunk_descriptors F_ChunkDictionary_metadata].

(* ---------- ChunkDescriptor ---------- *)
Theorem desc_roundtrip : forall dp d, desc_wf d -> lenN (d_checksum d) < B64 ->
  merge_ok (desc_step dp) desc_default (encode_desc d) d.
Proof.
  intros dp d (_ & Has & Hao & Hss) Hlen. unfold u32, u64 in *.
  unfold encode_desc. rewrite <- (app_nil_r (enc_uint F_ChunkDescriptor_source_size _)).
  apply merge_ok_bytes with (acc' := {| d_checksum := d_checksum d; d_archive_size := 0; d_archive_offset := 0; d_source_size := 0 |});
    [tagb | tagb | intro E; rewrite E; reflexivity | intros _ | ].
  { unfold desc_step. tageq. rewrite read_len_field_enc by exact Hlen. reflexivity. }
  apply merge_ok_uint with (acc' := {| d_checksum := d_checksum d; d_archive_size := d_archive_size d; d_archive_offset := 0; d_source_size := 0 |});
    [tagb | tagb | intro E; rewrite E; reflexivity | intros _ | ].
  { unfold desc_step. tageq. rewrite read_varint_field_enc by (unfold B64; lia).
    rewrite w32_small by exact Has. reflexivity. }
  apply merge_ok_uint with (acc' := {| d_checksum := d_checksum d; d_archive_size := d_archive_size d; d_archive_offset := d_archive_offset d; d_source_size := 0 |});
    [tagb | tagb | intro E; rewrite E; reflexivity | intros _ | ].
  { unfold desc_step. tageq. rewrite read_varint_field_enc by exact Hao. reflexivity. }
  apply merge_ok_uint with (acc' := d);
    [tagb | tagb | intro E; destruct d; cbn in *; rewrite E; reflexivity | intros _ | apply merge_ok_nil ].
  { unfold desc_step. tageq. rewrite read_varint_field_enc by (unfold B64; lia).
    rewrite w32_small by exact Hss. destruct d; reflexivity. }
Qed.

(* ---------- ChunkerParameters ---------- *)
Theorem params_roundtrip : forall dp p, params_wf p ->
  merge_ok (params_step dp) params_default (encode_params p) p.
Proof.
  intros dp p (H1 & H2 & H3 & H4 & H5 & H6). unfold u32 in *.
  unfold encode_params. rewrite <- (app_nil_r (enc_uint F_ChunkerParameters_chunking_algorithm _)).
  apply merge_ok_uint with (acc' := {| p_bits := p_bits p; p_min := 0; p_max := 0; p_win := 0; p_hashlen := 0; p_algo := 0 |});
    [tagb | tagb | intro E; rewrite E; reflexivity | intros _ | ].
  { unfold params_step. tageq. rewrite read_varint_field_enc by (unfold B64; lia).
    rewrite w32_small by assumption. reflexivity. }
  apply merge_ok_uint with (acc' := {| p_bits := p_bits p; p_min := p_min p; p_max := 0; p_win := 0; p_hashlen := 0; p_algo := 0 |});
    [tagb | tagb | intro E; rewrite E; reflexivity | intros _ | ].
  { unfold params_step. tageq. rewrite read_varint_field_enc by (unfold B64; lia).
    rewrite w32_small by assumption. reflexivity. }
  apply merge_ok_uint with (acc' := {| p_bits := p_bits p; p_min := p_min p; p_max := p_max p; p_win := 0; p_hashlen := 0; p_algo := 0 |});
    [tagb | tagb | intro E; rewrite E; reflexivity | intros _ | ].
  { unfold params_step. tageq. rewrite read_varint_field_enc by (unfold B64; lia).
    rewrite w32_small by assumption. reflexivity. }
  apply merge_ok_uint with (acc' := {| p_bits := p_bits p; p_min := p_min p; p_max := p_max p; p_win := p_win p; p_hashlen := 0; p_algo := 0 |});
    [tagb | tagb | intro E; rewrite E; reflexivity | intros _ | ].
  { unfold params_step. tageq. rewrite read_varint_field_enc by (unfold B64; lia).
    rewrite w32_small by assumption. reflexivity. }
  apply merge_ok_uint with (acc' := {| p_bits := p_bits p; p_min := p_min p; p_max := p_max p; p_win := p_win p; p_hashlen := p_hashlen p; p_algo := 0 |});
    [tagb | tagb | intro E; rewrite E; reflexivity | intros _ | ].
  { unfold params_step. tageq. rewrite read_varint_field_enc by (unfold B64; lia).
    rewrite w32_small by assumption. reflexivity. }
  apply merge_ok_uint with (acc' := p);
    [tagb | tagb | intro E; destruct p; cbn in *; rewrite E; reflexivity | intros _ | apply merge_ok_nil ].
  { unfold params_step. tageq. rewrite read_varint_field_enc by (unfold B64; lia).
    rewrite w32_small by assumption. destruct p; reflexivity. }
Qed.

(* ---------- ChunkCompression ---------- *)
Theorem comp_roundtrip : forall dp c, comp_wf c ->
  merge_ok (comp_step dp) comp_default (encode_comp c) c.
Proof.
  intros dp c (H1 & H2). unfold u32 in *.
  unfold encode_comp. rewrite <- (app_nil_r (enc_uint F_ChunkCompression_compression_level _)).
  apply merge_ok_uint with (acc' := {| z_type := z_type c; z_level := 0 |});
    [tagb | tagb | intro E; rewrite E; reflexivity | intros _ | ].
  { unfold comp_step. tageq. rewrite read_varint_field_enc by (unfold B64; lia).
    rewrite w32_small by assumption. reflexivity. }
  apply merge_ok_uint with (acc' := c);
    [tagb | tagb | intro E; destruct c; cbn in *; rewrite E; reflexivity | intros _ | apply merge_ok_nil ].
  { unfold comp_step. tageq. rewrite read_varint_field_enc by (unfold B64; lia).
    rewrite w32_small by assumption. destruct c; reflexivity. }
Qed.

(* ---------- map entry ---------- *)
Theorem entry_roundtrip : forall dp kv, utf8_valid (fst kv) = true ->
  lenN (fst kv) < B64 -> lenN (snd kv) < B64 ->
  merge_ok (entry_step dp) ([], []) (encode_entry kv) kv.
Proof.
  intros dp [k v] Hu Hk Hv. cbn [fst snd] in *.
  unfold encode_entry. cbn [fst snd]. rewrite <- (app_nil_r (enc_bytes 2 v)).
  apply merge_ok_bytes with (acc' := (k, [])); [lia | lia | intro E; rewrite E; reflexivity | intros _ | ].
  { unfold entry_step. tageq. rewrite read_len_field_enc by exact Hk. rewrite Hu. reflexivity. }
  apply merge_ok_bytes with (acc' := (k, v)); [lia | lia | intro E; rewrite E; reflexivity | intros _ | apply merge_ok_nil].
  { unfold entry_step. tageq. rewrite read_len_field_enc by exact Hv. reflexivity. }
Qed.

(* ---------- packed repeated uint32 ---------- *)
Lemma read_packed_enc : forall vs acc fuel, Forall u32 vs ->
  (length (flat_map encode_varint vs) <= fuel)%nat ->
  read_packed fuel (flat_map encode_varint vs) acc = Some (acc ++ vs).
Proof.
  induction vs as [| v vs IH]; intros acc fuel Hwf Hfuel.
  - cbn [flat_map]. destruct fuel; cbn [read_packed]; rewrite app_nil_r; reflexivity.
  - inversion Hwf as [| ? ? Hv Hvs]; subst. unfold u32 in Hv.
    cbn [flat_map] in *. rewrite app_length in Hfuel.
    pose proof (encode_varint_length v) as Hl.
    destruct fuel as [| f]; [lia |].
    destruct (encode_varint v ++ flat_map encode_varint vs) as [| x l] eqn:El.
    { apply (f_equal (@length N)) in El. rewrite app_length in El. cbn [length] in El. lia. }
    cbn [read_packed]. rewrite <- El.
    rewrite decode_encode_varint by lia. rewrite w32_small by exact Hv.
    rewrite IH; [| exact Hvs | lia]. rewrite <- app_assoc. reflexivity.
Qed.

(* ---------- map_insert on sorted input ---------- *)
Lemma bytes_lt_irrefl : forall a, bytes_lt a a = false.
Proof.
  induction a as [| x a IH]; [reflexivity |]. cbn [bytes_lt].
  rewrite N.ltb_irrefl. exact IH.
Qed.

Lemma bytes_lt_trans : forall a b c, bytes_lt a b = true -> bytes_lt b c = true -> bytes_lt a c = true.
Proof.
  induction a as [| x a IH]; intros [| y b] [| z c] Hab Hbc; cbn [bytes_lt] in *; try discriminate; try reflexivity.
  destruct (N.ltb_spec x y) as [Hxy | Hxy].
  - destruct (N.ltb_spec y z) as [Hyz | Hyz].
    + destruct (N.ltb_spec x z); [reflexivity | lia].
    + destruct (N.ltb_spec z y) as [Hzy | Hzy]; [discriminate |].
      destruct (N.ltb_spec x z); [reflexivity | lia].
  - destruct (N.ltb_spec y x) as [Hyx | Hyx]; [discriminate |].
    assert (x = y) by lia. subst y.
    destruct (N.ltb_spec x z) as [Hxz | Hxz]; [reflexivity |].
    destruct (N.ltb_spec z x) as [Hzx | Hzx]; [discriminate |].
    eapply IH; eassumption.
Qed.

Lemma list_eqb_eq : forall a b, list_eqb a b = true -> a = b.
Proof.
  induction a as [| x a IH]; intros [| y b] H; cbn [list_eqb] in H; try discriminate; [reflexivity |].
  apply andb_true_iff in H. destruct H as [H1 H2]. apply N.eqb_eq in H1. subst y.
  f_equal. apply IH. exact H2.
Qed.

Lemma map_insert_last : forall k v pre,
  Forall (fun q => bytes_lt (fst q) k = true) pre -> map_insert k v pre = pre ++ [(k, v)].
Proof.
  intros k v pre. induction pre as [| [k' v'] pre IH]; intro H; [reflexivity |].
  inversion H as [| ? ? Hk Hpre]; subst. cbn [fst] in Hk.
  cbn [map_insert app].
  assert (E1 : bytes_lt k k' = false).
  { destruct (bytes_lt k k') eqn:E; [| reflexivity].
    pose proof (bytes_lt_trans _ _ _ E Hk) as C. rewrite bytes_lt_irrefl in C. discriminate. }
  assert (E2 : list_eqb k k' = false).
  { destruct (list_eqb k k') eqn:E; [| reflexivity].
    apply list_eqb_eq in E. subst k'. rewrite bytes_lt_irrefl in Hk. discriminate. }
  rewrite E1, E2. rewrite IH by exact Hpre. reflexivity.
Qed.

Lemma meta_sorted_tail : forall p l, meta_sorted (p :: l) -> meta_sorted l.
Proof. intros [k v] l H. cbn [meta_sorted] in H. apply H. Qed.

Lemma meta_sorted_head : forall p l, meta_sorted (p :: l) ->
  Forall (fun q => bytes_lt (fst p) (fst q) = true) l.
Proof.
  intros p l. revert p. induction l as [| [k' v'] l IH]; intros [k v] H; [constructor |].
  cbn [meta_sorted] in H. destruct H as [Hkk' Hrest]. cbn [fst].
  constructor; [exact Hkk' |].
  assert (Hl : Forall (fun q => bytes_lt (fst (k', v')) (fst q) = true) l).
  { apply IH. cbn [meta_sorted]. exact Hrest. }
  cbn [fst] in Hl. eapply Forall_impl; [| exact Hl].
  intros q Hq. cbn beta in Hq. eapply bytes_lt_trans; eassumption.
Qed.

Lemma meta_sorted_prefix_lt : forall pre k v rest, meta_sorted (pre ++ (k, v) :: rest) ->
  Forall (fun q => bytes_lt (fst q) k = true) pre.
Proof.
  induction pre as [| p pre IH]; intros k v rest H; [constructor |].
  cbn [app] in H. constructor.
  - pose proof (meta_sorted_head _ _ H) as Hh. rewrite Forall_forall in Hh.
    apply (Hh (k, v)). apply in_or_app. right. left. reflexivity.
  - eapply IH. eapply meta_sorted_tail. exact H.
Qed.

(* ---------- size bookkeeping ---------- *)
Lemma lenN_enc_bytes_ge : forall tag b, lenN b <= lenN (enc_bytes tag b).
Proof.
  intros tag b. unfold enc_bytes. destruct b as [| x b']; [cbn [lenN]; lia |].
  rewrite !lenN_app. lia.
Qed.

Lemma lenN_enc_msg_ge : forall tag b, lenN b <= lenN (enc_msg tag b).
Proof. intros tag b. unfold enc_msg. rewrite !lenN_app. lia. Qed.

Lemma lenN_flat_map_bound : forall (A : Type) (f : A -> list N) (g : A -> N) l bound,
  (forall x, g x <= lenN (f x)) ->
  lenN (flat_map f l) < bound -> Forall (fun x => g x < bound) l.
Proof.
  intros A f g l bound Hg. induction l as [| x l IH]; intro H; [constructor |].
  cbn [flat_map] in H. rewrite lenN_app in H. constructor.
  - specialize (Hg x). lia.
  - apply IH. lia.
Qed.

(* ---------- ChunkDictionary ---------- *)
Definition enc_desc_field (x : descriptor) : list N := enc_msg F_ChunkDictionary_chunk_descriptors (encode_desc x).
Definition enc_meta_field (kv : list N * list N) : list N := enc_msg F_ChunkDictionary_metadata (encode_entry kv).

Lemma skip_fuel_ok : forall b, (length b <= skip_fuel b)%nat.
Proof. intro b. unfold skip_fuel. lia. Qed.

Section Dict.
  Context (P : dictionary -> list N -> Prop) (HP : field_closed dict_step P).

  Lemma descs_loop : forall ds pre ver ck tot pa co ord me y,
    Forall desc_wf ds ->
    Forall (fun x => lenN (d_checksum x) < B64) ds ->
    Forall (fun x => lenN (encode_desc x) < B64) ds ->
    P (Build_dictionary ver ck tot pa co ord (pre ++ ds) me) y ->
    P (Build_dictionary ver ck tot pa co ord pre me) (flat_map enc_desc_field ds ++ y).
  Proof.
    induction ds as [| x ds IH]; intros pre ver ck tot pa co ord me y Hwf Hck Hlen Hrest.
    - rewrite app_nil_r in Hrest. exact Hrest.
    - inversion Hwf as [| ? ? Hwx Hwds]; subst. inversion Hck as [| ? ? Hcx Hcds]; subst.
      inversion Hlen as [| ? ? Hlx Hlds]; subst.
      cbn [flat_map]. rewrite <- app_assoc. unfold enc_desc_field at 1.
      apply (closed_msg dict_step P HP) with (acc' := Build_dictionary ver ck tot pa co ord (pre ++ [x]) me); [tagb | tagb | |].
      + unfold dict_step. tageq. rewrite read_len_field_enc by exact Hlx.
        rewrite (desc_roundtrip (DEPTH0 - 1) x Hwx Hcx _ (skip_fuel_ok _)). reflexivity.
      + apply IH; try assumption. rewrite <- app_assoc. exact Hrest.
  Qed.

  Lemma meta_loop : forall ms pre ver ck tot pa co ord ds y,
    meta_sorted (pre ++ ms) ->
    Forall (fun kv => utf8_valid (fst kv) = true) ms ->
    Forall (fun kv => lenN (fst kv) < B64) ms ->
    Forall (fun kv => lenN (snd kv) < B64) ms ->
    Forall (fun kv => lenN (encode_entry kv) < B64) ms ->
    P (Build_dictionary ver ck tot pa co ord ds (pre ++ ms)) y ->
    P (Build_dictionary ver ck tot pa co ord ds pre) (flat_map enc_meta_field ms ++ y).
  Proof.
    induction ms as [| [k v] ms IH]; intros pre ver ck tot pa co ord ds y Hs Hu Hk Hv Hlen Hrest.
    - rewrite app_nil_r in Hrest. exact Hrest.
    - inversion Hu as [| ? ? Hux Hus]; subst. inversion Hk as [| ? ? Hkx Hks]; subst.
      inversion Hv as [| ? ? Hvx Hvs]; subst. inversion Hlen as [| ? ? Hlx Hls]; subst.
      cbn [flat_map]. rewrite <- app_assoc. unfold enc_meta_field at 1.
      apply (closed_msg dict_step P HP) with (acc' := Build_dictionary ver ck tot pa co ord ds (pre ++ [(k, v)])); [tagb | tagb | |].
      + unfold dict_step. tageq. rewrite read_len_field_enc by exact Hlx.
        rewrite (entry_roundtrip (DEPTH0 - 1) (k, v) Hux Hkx Hvx _ (skip_fuel_ok _)).
        cbn [dict_meta]. rewrite map_insert_last by (eapply meta_sorted_prefix_lt; exact Hs).
        reflexivity.
      + apply IH; try assumption; rewrite <- app_assoc; assumption.
  Qed.

  (* The encoding of a well-formed dictionary [d], followed by any bytes [y], drives the top-level
     merge loop from the default dictionary to the state (d, y). *)
  Theorem encode_dict_closed : forall d y, dict_wf d -> lenN (encode_dict d) < B64 ->
    P d y -> P dict_default (encode_dict d ++ y).
  Proof.
    intros [ver ck tot pa co ord ds me] y Hwf Hsize Hfinal.
    destruct Hwf as (_ & Huver & _ & Htot & Hpa & Hco & Hord & Hds & Hme & Hsorted).
    cbn [dict_version dict_checksum dict_total dict_params dict_comp dict_order dict_descs dict_meta] in *.
    unfold u64 in Htot.
    unfold encode_dict in *.
    cbn [dict_version dict_checksum dict_total dict_params dict_comp dict_order dict_descs dict_meta] in *.
    fold enc_desc_field enc_meta_field in *.
    change (flat_map (fun x => enc_desc_field x) ds) with (flat_map enc_desc_field ds) in *.
    change (flat_map (fun kv => enc_meta_field kv) me) with (flat_map enc_meta_field me) in *.
    rewrite !lenN_app in Hsize.
    pose proof (lenN_enc_bytes_ge F_ChunkDictionary_application_version ver) as Sver.
    pose proof (lenN_enc_bytes_ge F_ChunkDictionary_source_checksum ck) as Sck.
    assert (Sds : Forall (fun x => lenN (encode_desc x) < B64) ds).
    { apply lenN_flat_map_bound with (f := enc_desc_field); [| lia].
      intro x. apply lenN_enc_msg_ge. }
    assert (Sdck : Forall (fun x => lenN (d_checksum x) < B64) ds).
    { eapply Forall_impl; [| exact Sds]. intros x Hx. cbn beta in Hx.
      unfold encode_desc in Hx. rewrite !lenN_app in Hx.
      pose proof (lenN_enc_bytes_ge F_ChunkDescriptor_checksum (d_checksum x)). lia. }
    assert (Sme : Forall (fun kv => lenN (encode_entry kv) < B64) me).
    { apply lenN_flat_map_bound with (f := enc_meta_field); [| lia].
      intro x. apply lenN_enc_msg_ge. }
    assert (Smk : Forall (fun kv => lenN (fst kv) < B64) me).
    { eapply Forall_impl; [| exact Sme]. intros x Hx. cbn beta in Hx.
      unfold encode_entry in Hx. rewrite !lenN_app in Hx.
      pose proof (lenN_enc_bytes_ge 1 (fst x)). lia. }
    assert (Smv : Forall (fun kv => lenN (snd kv) < B64) me).
    { eapply Forall_impl; [| exact Sme]. intros x Hx. cbn beta in Hx.
      unfold encode_entry in Hx. rewrite !lenN_app in Hx.
      pose proof (lenN_enc_bytes_ge 2 (snd x)). lia. }
    assert (Smu : Forall (fun kv => utf8_valid (fst kv) = true) me).
    { eapply Forall_impl; [| exact Hme]. intros x Hx. apply Hx. }
    unfold dict_default. rewrite <- !app_assoc.
    (* application_version *)
    apply (closed_bytes dict_step P HP) with (acc' := Build_dictionary ver [] 0 None None [] [] []);
      [tagb | tagb | intro E; rewrite E; reflexivity | intros _ |].
    { unfold dict_step. tageq. rewrite read_len_field_enc by lia.
      cbn [dict_version dict_checksum dict_total dict_params dict_comp dict_order dict_descs dict_meta].
      rewrite Huver. reflexivity. }
    (* source_checksum *)
    apply (closed_bytes dict_step P HP) with (acc' := Build_dictionary ver ck 0 None None [] [] []);
      [tagb | tagb | intro E; rewrite E; reflexivity | intros _ |].
    { unfold dict_step. tageq. rewrite read_len_field_enc by lia. reflexivity. }
    (* source_total_size *)
    apply (closed_uint dict_step P HP) with (acc' := Build_dictionary ver ck tot None None [] [] []);
      [tagb | tagb | intro E; rewrite E; reflexivity | intros _ |].
    { unfold dict_step. tageq. rewrite read_varint_field_enc by exact Htot. reflexivity. }
    (* chunker_params *)
    assert (Hstep4 : forall z,
      P (Build_dictionary ver ck tot pa None [] [] []) z ->
      P (Build_dictionary ver ck tot None None [] [] [])
        (match pa with Some p => enc_msg F_ChunkDictionary_chunker_params (encode_params p) | None => [] end ++ z)).
    { intros z Hrest. destruct pa as [p |]; [| exact Hrest].
      pose proof (lenN_enc_msg_ge F_ChunkDictionary_chunker_params (encode_params p)) as Sp.
      apply (closed_msg dict_step P HP) with (acc' := Build_dictionary ver ck tot (Some p) None [] [] []); [tagb | tagb | | exact Hrest].
      unfold dict_step. tageq. rewrite read_len_field_enc by lia.
      cbn [dict_params].
      rewrite (params_roundtrip (DEPTH0 - 1) p Hpa _ (skip_fuel_ok _)). reflexivity. }
    apply Hstep4. clear Hstep4.
    (* chunk_compression *)
    assert (Hstep5 : forall z,
      P (Build_dictionary ver ck tot pa co [] [] []) z ->
      P (Build_dictionary ver ck tot pa None [] [] [])
        (match co with Some c => enc_msg F_ChunkDictionary_chunk_compression (encode_comp c) | None => [] end ++ z)).
    { intros z Hrest. destruct co as [c |]; [| exact Hrest].
      pose proof (lenN_enc_msg_ge F_ChunkDictionary_chunk_compression (encode_comp c)) as Sc.
      apply (closed_msg dict_step P HP) with (acc' := Build_dictionary ver ck tot pa (Some c) [] [] []); [tagb | tagb | | exact Hrest].
      unfold dict_step. tageq. rewrite read_len_field_enc by lia.
      cbn [dict_comp].
      rewrite (comp_roundtrip (DEPTH0 - 1) c Hco _ (skip_fuel_ok _)). reflexivity. }
    apply Hstep5. clear Hstep5.
    (* rebuild_order *)
    assert (Hstep6 : forall z,
      P (Build_dictionary ver ck tot pa co ord [] []) z ->
      P (Build_dictionary ver ck tot pa co [] [] [])
        (match ord with [] => [] | _ => enc_msg F_ChunkDictionary_rebuild_order (flat_map encode_varint ord) end ++ z)).
    { intros z Hrest. destruct ord as [| o ord']; [exact Hrest |].
      remember (o :: ord') as ord eqn:Eord.
      pose proof (lenN_enc_msg_ge F_ChunkDictionary_rebuild_order (flat_map encode_varint ord)) as So.
      apply (closed_msg dict_step P HP) with (acc' := Build_dictionary ver ck tot pa co ord [] []); [tagb | tagb | | exact Hrest].
      unfold dict_step. tageq. change (WT_LEN =? WT_LEN) with true. cbv iota.
      rewrite read_len_field_enc by lia.
      rewrite (read_packed_enc ord [] _ Hord (skip_fuel_ok _)). reflexivity. }
    apply Hstep6. clear Hstep6.
    (* chunk_descriptors *)
    apply (descs_loop ds []); try assumption. cbn [app].
    (* metadata *)
    apply (meta_loop me []); try assumption.
  Qed.
End Dict.

Theorem dict_roundtrip : forall d, dict_wf d -> lenN (encode_dict d) < B64 ->
  merge_ok dict_step dict_default (encode_dict d) d.
Proof.
  intros d Hwf Hsize. rewrite <- (app_nil_r (encode_dict d)).
  apply (encode_dict_closed _ (merge_ok_closed _ dict_step d)); try assumption.
  apply merge_ok_nil.
Qed.

(* MAIN THEOREM.  The size hypothesis is needed: the model's lists are unbounded, and a length of
   2^64 or more does not survive the 10-byte varint. *)
Theorem decode_encode_dict : forall d, dict_wf d ->
  lenN (encode_dict d) < 18446744073709551616 ->
  decode_dict (encode_dict d) = Some d.
Proof.
  intros d Hwf Hsize. unfold decode_dict.
  apply (dict_roundtrip d Hwf Hsize). apply skip_fuel_ok.
Qed.

Print Assumptions decode_encode_dict.
