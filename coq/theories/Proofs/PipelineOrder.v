(* C12 core: the scheduled pipeline computes the sequential function. *)
From Coq Require Import List NArith Bool Lia PeanoNat.
Import ListNotations.
From Bita Require Import Pipeline.

(* ------------------------------------------------------------------ *)
(* Ordered stage: invariant                                            *)
(* ------------------------------------------------------------------ *)

Section Stage.
Variables A B : Type.
Variable n : nat.
Variable f : A -> B.

(* [done] = inputs already emitted *)
Definition stage_inv (xs : list A) (s : stage A B) : Prop :=
  exists done,
    st_out s = map f done /\
    done ++ map fst (st_flight s) ++ st_todo s = xs.

Lemma map_fst_mark_done : forall i (l : list (A * bool)),
  map fst (mark_done i l) = map fst l.
Proof.
  intros i l; revert i.
  induction l as [|[x c] r IH]; intros i; simpl.
  - reflexivity.
  - destruct i as [|j]; simpl.
    + reflexivity.
    + rewrite IH. reflexivity.
Qed.

Lemma stage_inv_init : forall xs,
  stage_inv xs {| st_todo := xs; st_flight := []; st_out := [] |}.
Proof.
  intros xs. exists []. simpl. split; reflexivity.
Qed.

Lemma stage_inv_step : forall xs s e,
  stage_inv xs s -> stage_inv xs (stage_step n f s e).
Proof.
  intros xs s e [done [Hout Hxs]].
  destruct s as [todo flight out]; simpl in *.
  destruct e as [|i|]; unfold stage_step; simpl.
  - (* Start *)
    destruct (Nat.ltb (length flight) n).
    + destruct todo as [|x r].
      * exists done. simpl. split; assumption.
      * exists done. simpl. split; [assumption|].
        rewrite map_app. simpl. rewrite <- app_assoc. simpl. exact Hxs.
    + exists done. simpl. split; assumption.
  - (* Complete *)
    exists done. simpl. split; [assumption|].
    rewrite map_fst_mark_done. exact Hxs.
  - (* Emit *)
    destruct flight as [|[x [|]] r].
    + exists done. simpl. split; assumption.
    + exists (done ++ [x]). simpl. split.
      * rewrite map_app. simpl. rewrite Hout. reflexivity.
      * rewrite <- app_assoc. simpl. simpl in Hxs. exact Hxs.
    + exists done. simpl. split; assumption.
Qed.

Lemma stage_inv_fold : forall xs evs s,
  stage_inv xs s -> stage_inv xs (fold_left (stage_step n f) evs s).
Proof.
  intros xs evs. induction evs as [|e evs IH]; intros s Hs; simpl.
  - exact Hs.
  - apply IH. apply stage_inv_step. exact Hs.
Qed.

Lemma stage_run_inv : forall xs evs, stage_inv xs (stage_run n f xs evs).
Proof.
  intros xs evs. unfold stage_run. apply stage_inv_fold. apply stage_inv_init.
Qed.

Lemma firstn_length_app : forall (l1 l2 : list A),
  firstn (length l1) (l1 ++ l2) = l1.
Proof.
  induction l1 as [|a l1 IH]; intros l2; simpl.
  - reflexivity.
  - rewrite IH. reflexivity.
Qed.

Lemma stage_out_prefix_s : forall xs evs,
  exists k, st_out (stage_run n f xs evs) = map f (firstn k xs).
Proof.
  intros xs evs.
  destruct (stage_run_inv xs evs) as [done [Hout Hxs]].
  exists (length done). rewrite Hout. rewrite <- Hxs.
  rewrite firstn_length_app. reflexivity.
Qed.

Lemma stage_done_inv : forall (s : stage A B),
  stage_done s = true -> st_todo s = [] /\ st_flight s = [].
Proof.
  intros [todo flight out]. unfold stage_done. simpl.
  destruct todo; destruct flight; simpl; intros H; try discriminate.
  split; reflexivity.
Qed.

Lemma ordered_stage_preserves_order_s : forall xs evs,
  stage_done (stage_run n f xs evs) = true ->
  st_out (stage_run n f xs evs) = map f xs.
Proof.
  intros xs evs Hd.
  destruct (stage_run_inv xs evs) as [done [Hout Hxs]].
  apply stage_done_inv in Hd. destruct Hd as [Ht Hf].
  rewrite Ht, Hf in Hxs. simpl in Hxs. rewrite app_nil_r in Hxs.
  rewrite Hout, Hxs. reflexivity.
Qed.

(* the fully sequential schedule: start one, complete it, emit it *)
Definition seq_schedule (xs : list A) : list sev :=
  concat (map (fun _ => [Start; Complete 0; Emit]) xs).

Lemma seq_three_steps : forall x r out,
  (1 <= n)%nat ->
  fold_left (stage_step n f) [Start; Complete 0; Emit]
            {| st_todo := x :: r; st_flight := []; st_out := out |}
  = {| st_todo := r; st_flight := []; st_out := out ++ [f x] |}.
Proof.
  intros x r out Hn.
  assert (Hlt : Nat.ltb 0 n = true) by (apply Nat.ltb_lt; lia).
  simpl. unfold stage_step. simpl. rewrite Hlt. simpl. reflexivity.
Qed.

Lemma seq_schedule_drains : forall xs out,
  (1 <= n)%nat ->
  fold_left (stage_step n f) (seq_schedule xs)
            {| st_todo := xs; st_flight := []; st_out := out |}
  = {| st_todo := []; st_flight := []; st_out := out ++ map f xs |}.
Proof.
  intros xs out Hn. revert out.
  induction xs as [|x r IH]; intros out.
  - simpl. rewrite app_nil_r. reflexivity.
  - change (seq_schedule (x :: r))
      with ([Start; Complete 0; Emit] ++ seq_schedule r).
    rewrite fold_left_app, seq_three_steps by exact Hn.
    rewrite IH. rewrite <- app_assoc. reflexivity.
Qed.

Lemma stage_can_finish_s : forall xs, (1 <= n)%nat ->
  exists evs, stage_done (stage_run n f xs evs) = true.
Proof.
  intros xs Hn. exists (seq_schedule xs).
  unfold stage_run. rewrite seq_schedule_drains by exact Hn. reflexivity.
Qed.

End Stage.

(* ------------------------------------------------------------------ *)
(* Main theorems on the stage                                          *)
(* ------------------------------------------------------------------ *)

(* safety: under ANY schedule the outputs are a prefix of the sequential result *)
Theorem stage_out_prefix : forall A B n (f : A -> B) xs evs,
  exists k, st_out (stage_run n f xs evs) = map f (firstn k xs).
Proof. intros. apply stage_out_prefix_s. Qed.

(* completeness: when the stage has drained, the outputs are exactly the
   sequential result *)
Theorem ordered_stage_preserves_order : forall A B n (f : A -> B) xs evs,
  stage_done (stage_run n f xs evs) = true ->
  st_out (stage_run n f xs evs) = map f xs.
Proof. intros. apply ordered_stage_preserves_order_s. assumption. Qed.

(* liveness witness: for every window n >= 1 some schedule drains the stage *)
Theorem stage_can_finish : forall A B n (f : A -> B) xs, (1 <= n)%nat ->
  exists evs, stage_done (stage_run n f xs evs) = true.
Proof. intros. apply stage_can_finish_s. assumption. Qed.

(* the pipeline result does not depend on the schedules or the window *)
Theorem pipeline_deterministic :
  forall A B C n (hash : A -> B) dedup (compress : B -> C) xs evs1 evs2 out,
  pipeline n hash dedup compress xs evs1 evs2 = Some out ->
  out = map compress (dedup (map hash xs)).
Proof.
  intros A B C n hash dedup compress xs evs1 evs2 out Hp.
  unfold pipeline in Hp.
  destruct (stage_done (stage_run n hash xs evs1)) eqn:Hd1; [|discriminate].
  apply ordered_stage_preserves_order in Hd1. rewrite Hd1 in Hp.
  destruct (stage_done (stage_run n compress (dedup (map hash xs)) evs2))
    eqn:Hd2; [|discriminate].
  apply ordered_stage_preserves_order in Hd2. rewrite Hd2 in Hp.
  inversion Hp. reflexivity.
Qed.

(* non-vacuity of pipeline_deterministic: some pair of schedules yields Some *)
Theorem pipeline_can_finish :
  forall A B C n (hash : A -> B) dedup (compress : B -> C) xs, (1 <= n)%nat ->
  exists evs1 evs2,
    pipeline n hash dedup compress xs evs1 evs2
    = Some (map compress (dedup (map hash xs))).
Proof.
  intros A B C n hash dedup compress xs Hn.
  destruct (stage_can_finish A B n hash xs Hn) as [evs1 Hd1].
  pose proof (ordered_stage_preserves_order _ _ _ _ _ _ Hd1) as Ho1.
  destruct (stage_can_finish B C n compress (dedup (map hash xs)) Hn)
    as [evs2 Hd2].
  pose proof (ordered_stage_preserves_order _ _ _ _ _ _ Hd2) as Ho2.
  exists evs1, evs2. unfold pipeline.
  rewrite Hd1, Ho1, Hd2, Ho2. reflexivity.
Qed.

(* ------------------------------------------------------------------ *)
(* Temp file                                                           *)
(* ------------------------------------------------------------------ *)

Definition pending (s : afile) : list N :=
  match af_inflight s with Some d => d | None => [] end.

Definition ev_bytes (e : fev) : list N :=
  match e with FWrite d => d | _ => [] end.

Lemma writes_of_app : forall a b, writes_of (a ++ b) = writes_of a ++ writes_of b.
Proof.
  intros a b. unfold writes_of. rewrite map_app, concat_app. reflexivity.
Qed.

Lemma afile_land_disk : forall s, af_disk (afile_land s) = af_disk s ++ pending s.
Proof.
  intros [disk [d|]]; unfold afile_land, pending; simpl.
  - reflexivity.
  - rewrite app_nil_r. reflexivity.
Qed.

Lemma afile_land_pending : forall s, pending (afile_land s) = [].
Proof.
  intros [disk [d|]]; unfold afile_land, pending; simpl; reflexivity.
Qed.

Lemma afile_step_total : forall s e,
  af_disk (afile_step s e) ++ pending (afile_step s e)
  = (af_disk s ++ pending s) ++ ev_bytes e.
Proof.
  intros s e. destruct e as [d| |]; simpl.
  - rewrite afile_land_disk. reflexivity.
  - rewrite afile_land_disk, afile_land_pending, !app_nil_r. reflexivity.
  - rewrite afile_land_disk, afile_land_pending, !app_nil_r. reflexivity.
Qed.

Lemma afile_fold_total : forall evs s,
  af_disk (fold_left afile_step evs s) ++ pending (fold_left afile_step evs s)
  = (af_disk s ++ pending s) ++ writes_of evs.
Proof.
  induction evs as [|e evs IH]; intros s; simpl.
  - unfold writes_of. simpl. rewrite app_nil_r. reflexivity.
  - rewrite IH, afile_step_total.
    change (e :: evs) with ([e] ++ evs). rewrite writes_of_app.
    unfold writes_of at 2. simpl. rewrite app_nil_r, <- app_assoc. reflexivity.
Qed.

Lemma afile_run_total : forall evs,
  af_disk (afile_run evs) ++ pending (afile_run evs) = writes_of evs.
Proof.
  intros evs. unfold afile_run. rewrite afile_fold_total. reflexivity.
Qed.

Theorem flushed_file_complete : forall evs,
  reopen_read (afile_run (evs ++ [FFlush])) = writes_of evs.
Proof.
  intros evs. unfold reopen_read, afile_run. rewrite fold_left_app. simpl.
  rewrite afile_land_disk. apply afile_run_total.
Qed.

Theorem unflushed_file_may_be_short :
  exists evs, reopen_read (afile_run evs) <> writes_of evs.
Proof.
  exists [FWrite [1%N]]. vm_compute. discriminate.
Qed.

Theorem disk_is_prefix : forall evs,
  exists k, reopen_read (afile_run evs) = firstn k (writes_of evs).
Proof.
  intros evs. exists (length (af_disk (afile_run evs))).
  unfold reopen_read. rewrite <- (afile_run_total evs).
  rewrite firstn_length_app. reflexivity.
Qed.

Print Assumptions stage_out_prefix.
Print Assumptions ordered_stage_preserves_order.
Print Assumptions stage_can_finish.
Print Assumptions pipeline_deterministic.
Print Assumptions pipeline_can_finish.
Print Assumptions flushed_file_complete.
Print Assumptions unflushed_file_may_be_short.
Print Assumptions disk_is_prefix.
