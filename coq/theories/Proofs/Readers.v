(* C07 / C08: properties of the archive readers (Model/HttpReader.v). *)
From Bita Require Import Model.Base Model.HttpReader.

(* ------------------------------------------------------------------ *)
(* takeN / dropN / lenN                                                 *)
(* ------------------------------------------------------------------ *)
Section ListN.
Context {A : Type}.
Implicit Types l : list A.

Lemma takeN_firstn : forall l n, takeN n l = firstn (N.to_nat n) l.
Proof.
  induction l as [|x l IH]; intros n; cbn [takeN].
  - now rewrite firstn_nil.
  - destruct (N.eqb_spec n 0) as [->|Hn]; [reflexivity|].
    rewrite IH. replace (N.to_nat n) with (S (N.to_nat (N.pred n))) by lia. reflexivity.
Qed.

Lemma dropN_skipn : forall l n, dropN n l = skipn (N.to_nat n) l.
Proof.
  induction l as [|x l IH]; intros n; cbn [dropN].
  - now rewrite skipn_nil.
  - destruct (N.eqb_spec n 0) as [->|Hn]; [reflexivity|].
    rewrite IH. replace (N.to_nat n) with (S (N.to_nat (N.pred n))) by lia. reflexivity.
Qed.

Lemma lenN_length : forall l, lenN l = N.of_nat (length l).
Proof. induction l as [|x l IH]; cbn [lenN length]; [reflexivity|]. rewrite IH. lia. Qed.

Lemma lenN_app : forall l1 l2, lenN (l1 ++ l2) = lenN l1 + lenN l2.
Proof. intros. rewrite !lenN_length, app_length. lia. Qed.

Lemma lenN_takeN : forall n l, lenN (takeN n l) = N.min n (lenN l).
Proof. intros. rewrite takeN_firstn, !lenN_length, firstn_length. lia. Qed.

Lemma lenN_dropN : forall n l, lenN (dropN n l) = lenN l - n.
Proof. intros. rewrite dropN_skipn, !lenN_length, skipn_length. lia. Qed.

Lemma lenN_nil_inv : forall l, lenN l = 0 -> l = [].
Proof. intros [|x l] H; [reflexivity|]. cbn [lenN] in H. lia. Qed.

Lemma takeN_0 : forall l, takeN 0 l = [].
Proof. intros. now rewrite takeN_firstn. Qed.

Lemma dropN_0 : forall l, dropN 0 l = l.
Proof. intros. now rewrite dropN_skipn. Qed.

Lemma takeN_all : forall n l, lenN l <= n -> takeN n l = l.
Proof. intros n l H. rewrite takeN_firstn. apply firstn_all2. rewrite lenN_length in H. lia. Qed.

Lemma dropN_all : forall n l, lenN l <= n -> dropN n l = [].
Proof. intros n l H. rewrite dropN_skipn. apply skipn_all2. rewrite lenN_length in H. lia. Qed.

Lemma takeN_takeN : forall a b l, takeN a (takeN b l) = takeN (N.min a b) l.
Proof.
  intros. rewrite !takeN_firstn, firstn_firstn. f_equal. lia.
Qed.

Lemma skipn_skipn' : forall (a b : nat) l, skipn a (skipn b l) = skipn (b + a) l.
Proof.
  intros a b; induction b as [|b IH]; intros l; [reflexivity|].
  destruct l as [|x l]; [now rewrite !skipn_nil|]. cbn [skipn Nat.add]. apply IH.
Qed.

Lemma dropN_dropN : forall a b l, dropN a (dropN b l) = dropN (b + a) l.
Proof.
  intros. rewrite !dropN_skipn, skipn_skipn'. f_equal. lia.
Qed.

Lemma dropN_takeN : forall a b l, dropN a (takeN b l) = takeN (b - a) (dropN a l).
Proof.
  intros. rewrite !dropN_skipn, !takeN_firstn, skipn_firstn_comm. f_equal. lia.
Qed.

Lemma firstn_add : forall (a b : nat) l, firstn (a + b) l = firstn a l ++ firstn b (skipn a l).
Proof.
  intros a b; induction a as [|a IH]; intros l; [reflexivity|].
  destruct l as [|x l]; [now rewrite !firstn_nil|]. cbn [firstn skipn Nat.add app]. now rewrite IH.
Qed.

Lemma takeN_add : forall a b l, takeN (a + b) l = takeN a l ++ takeN b (dropN a l).
Proof.
  intros. rewrite !takeN_firstn, dropN_skipn, <- firstn_add. f_equal. lia.
Qed.

(* a short take is a take of its own length *)
Lemma takeN_lenN_self : forall n l, takeN (lenN (takeN n l)) l = takeN n l.
Proof.
  intros n l. rewrite lenN_takeN. destruct (N.min_spec n (lenN l)) as [[H ->]|[H ->]]; [reflexivity|].
  rewrite !takeN_all by lia. reflexivity.
Qed.
End ListN.

Lemma last_cons_default : forall {A} (l : list A) x d d', last (x :: l) d = last (x :: l) d'.
Proof.
  intros A l; induction l as [|y l IH]; intros x d d'; [reflexivity|].
  change (last (x :: y :: l) d) with (last (y :: l) d).
  change (last (x :: y :: l) d') with (last (y :: l) d'). apply IH.
Qed.

Lemma Forall_last : forall {A} (P : A -> Prop) l d, Forall P l -> P d -> P (last l d).
Proof.
  intros A P l d Hl Hd; induction Hl as [|x l Hx Hl IH]; [exact Hd|].
  destruct l as [|y l]; [exact Hx|]. exact IH.
Qed.

Lemma Forall_skipn : forall {A} (P : A -> Prop) n l, Forall P l -> Forall P (skipn n l).
Proof.
  intros A P n; induction n as [|n IH]; intros l Hl; [exact Hl|].
  destruct Hl as [|x l Hx Hl]; [constructor|]. cbn [skipn]. now apply IH.
Qed.

Lemma Forall_firstn : forall {A} (P : A -> Prop) n l, Forall P l -> Forall P (firstn n l).
Proof.
  intros A P n; induction n as [|n IH]; intros l Hl; [constructor|].
  destruct Hl as [|x l Hx Hl]; [constructor|]. cbn [firstn]. constructor; [exact Hx|now apply IH].
Qed.

(* ------------------------------------------------------------------ *)
(* C07: runs                                                            *)
(* ------------------------------------------------------------------ *)
(* maximal runs of adjacent chunks, in list order *)
Fixpoint runs (chunks : list range) : list (list range) :=
  match chunks with
  | [] => []
  | a :: r =>
      match runs r with
      | (b :: run) :: rest => if r_end a =? r_off b then (a :: b :: run) :: rest else [a] :: (b :: run) :: rest
      | _ => [[a]]
      end
  end.
Definition run_request (run : list range) : N * N :=
  match run with [] => (0, 0) | a :: _ => (r_off a, r_end (last run a) - r_off a) end.
Definition chunk_bytes (f : list N) (c : range) : list N := takeN (r_size c) (dropN (r_off c) f).
Definition in_file (f : list N) (c : range) : Prop := 0 < r_size c /\ r_end c <= lenN f.

Lemma runs_cons : forall a r,
  runs (a :: r) =
  match runs r with
  | (b :: run) :: rest => if r_end a =? r_off b then (a :: b :: run) :: rest else [a] :: (b :: run) :: rest
  | _ => [[a]]
  end.
Proof. reflexivity. Qed.

(* adjacency inside a run *)
Fixpoint chain (l : list range) : Prop :=
  match l with
  | [] => True
  | a :: r => match r with [] => True | b :: _ => r_end a = r_off b /\ chain r end
  end.

(* no two consecutive runs could be merged *)
Fixpoint maxi (rs : list (list range)) : Prop :=
  match rs with
  | [] => True
  | r1 :: t =>
      match t with
      | [] => True
      | r2 :: _ => (forall p a b q, r1 = p ++ [a] -> r2 = b :: q -> r_end a <> r_off b) /\ maxi t
      end
  end.

Lemma chain_tail : forall x l, chain (x :: l) -> chain l.
Proof. intros x [|y l] H; [exact I|]. exact (proj2 H). Qed.

Lemma chain_split : forall l, chain l ->
  forall a b pre post, l = pre ++ a :: b :: post -> r_end a = r_off b.
Proof.
  intros l Hl a b pre; revert l Hl. induction pre as [|x pre IH]; intros l Hl post ->.
  - exact (proj1 Hl).
  - exact (IH (pre ++ a :: b :: post) (chain_tail _ _ Hl) post eq_refl).
Qed.

Lemma maxi_split : forall rs, maxi rs ->
  forall pre r1 r2 post, rs = pre ++ r1 :: r2 :: post ->
  forall p a b q, r1 = p ++ [a] -> r2 = b :: q -> r_end a <> r_off b.
Proof.
  intros rs Hm pre; revert rs Hm. induction pre as [|x pre IH]; intros rs Hm r1 r2 post ->.
  - exact (proj1 Hm).
  - refine (IH (pre ++ r1 :: r2 :: post) _ r1 r2 post eq_refl).
    cbn [app maxi] in Hm. destruct (pre ++ r1 :: r2 :: post) as [|y t] eqn:E; [exact I|]. exact (proj2 Hm).
Qed.

Lemma runs_inv : forall l,
  concat (runs l) = l /\ Forall (fun run => run <> [] /\ chain run) (runs l) /\ maxi (runs l).
Proof.
  induction l as [|a r (Hc & Hf & Hm)]; [split; [reflexivity|split; [constructor|exact I]]|].
  rewrite runs_cons. destruct (runs r) as [|[|b run] rest] eqn:E.
  - cbn [concat] in Hc. subst r. split; [reflexivity|]. split; [|exact I]. constructor; [|constructor]. split; [discriminate|exact I].
  - inversion Hf as [|? ? [Hne _] _]. now elim Hne.
  - cbn [concat] in Hc. inversion Hf as [|? ? [_ Hch] Hf']; subst.
    destruct (N.eqb_spec (r_end a) (r_off b)) as [Hab|Hab].
    + split; [reflexivity|]. split.
      * constructor; [|exact Hf']. split; [discriminate|]. split; assumption.
      * destruct rest as [|r2 rest']; [exact I|]. split; [|exact (proj2 Hm)].
        intros p x y q Hp Hq. destruct p as [|a' p'].
        -- discriminate Hp.
        -- injection Hp as _ Hp. exact (proj1 Hm p' x y q Hp Hq).
    + split; [reflexivity|]. split.
      * constructor; [|exact Hf]. split; [discriminate|exact I].
      * split; [|exact Hm]. intros p x y q Hp Hq. destruct p as [|a' p'].
        -- injection Hp as <-. injection Hq as <- _. exact Hab.
        -- injection Hp as _ Hp. now destruct p'.
Qed.

(* characterisation of [runs]: a partition of the list (in order) into non-empty runs of adjacent chunks,
   such that no two consecutive runs can be merged *)
Theorem runs_spec : forall chunks,
     concat (runs chunks) = chunks
  /\ Forall (fun run => run <> [] /\ forall a b pre post, run = pre ++ a :: b :: post -> r_end a = r_off b) (runs chunks)
  /\ (forall pre r1 r2 post, runs chunks = pre ++ r1 :: r2 :: post ->
        forall p a b q, r1 = p ++ [a] -> r2 = b :: q -> r_end a <> r_off b).
Proof.
  intros chunks. destruct (runs_inv chunks) as (Hc & Hf & Hm). split; [exact Hc|]. split.
  - eapply Forall_impl; [|exact Hf]. intros run [Hne Hch]. split; [exact Hne|]. exact (chain_split run Hch).
  - exact (maxi_split _ Hm).
Qed.

(* ---- adjacent_reads is the length of the first run ---- *)
Fixpoint adjn (chunks : list range) : nat :=
  match chunks with
  | [] => 1
  | a :: r => match r with [] => 1 | b :: _ => if r_end a =? r_off b then S (adjn r) else 1 end
  end.

Lemma adjacent_reads_adjn : forall l, N.to_nat (adjacent_reads l) = adjn l.
Proof.
  induction l as [|a r IH]; [reflexivity|].
  cbn [adjacent_reads adjn]. destruct r as [|b r']; [reflexivity|].
  destruct (r_end a =? r_off b); [|reflexivity]. rewrite <- IH. lia.
Qed.

Lemma adjn_cons2 : forall a b r,
  adjn (a :: b :: r) = if r_end a =? r_off b then S (adjn (b :: r)) else 1%nat.
Proof. reflexivity. Qed.

Lemma adjn_pos : forall l, exists k, adjn l = S k.
Proof.
  intros [|a [|b r]]; [now exists O|now exists O|].
  rewrite adjn_cons2. destruct (r_end a =? r_off b); eauto.
Qed.

Lemma adjn_le : forall c rest, (adjn (c :: rest) <= length (c :: rest))%nat.
Proof.
  intros c rest; revert c. induction rest as [|b r IH]; intros a; [cbn; lia|].
  rewrite adjn_cons2. destruct (r_end a =? r_off b); [|cbn [length]; lia].
  specialize (IH b). cbn [length] in *. lia.
Qed.

Lemma runs_unfold : forall c rest,
  runs (c :: rest) = firstn (adjn (c :: rest)) (c :: rest) :: runs (skipn (adjn (c :: rest)) (c :: rest)).
Proof.
  intros c rest; revert c. induction rest as [|b r IH]; intros a; [reflexivity|].
  rewrite runs_cons, (IH b), adjn_cons2. destruct (adjn_pos (b :: r)) as [k Hk]. rewrite Hk.
  cbn [firstn]. destruct (r_end a =? r_off b).
  - cbn [firstn skipn]. reflexivity.
  - cbn [firstn skipn]. rewrite (IH b), Hk. reflexivity.
Qed.

Lemma chain_firstn_adjn : forall l, chain (firstn (adjn l) l).
Proof.
  induction l as [|a r IH]; [exact I|]. destruct r as [|b r]; [exact I|].
  rewrite adjn_cons2. destruct (N.eqb_spec (r_end a) (r_off b)) as [Hab|Hab]; [|exact I].
  destruct (adjn_pos (b :: r)) as [k Hk]. rewrite Hk in *. cbn [firstn] in *. split; assumption.
Qed.

Fixpoint total_size (l : list range) : N :=
  match l with [] => 0 | a :: r => r_size a + total_size r end.

Lemma chain_last_end : forall c r, chain (c :: r) -> r_end (last (c :: r) c) = r_off c + total_size (c :: r).
Proof.
  intros c r; revert c. induction r as [|b r IH]; intros c Hc.
  - cbn [last total_size]. unfold r_end. lia.
  - change (last (c :: b :: r) c) with (last (b :: r) c). rewrite (last_cons_default r b c b).
    rewrite (IH b (proj2 Hc)). destruct Hc as [Hcb _]. unfold r_end in Hcb.
    cbn [total_size] in *. lia.
Qed.

(* ------------------------------------------------------------------ *)
(* one range request                                                    *)
(* ------------------------------------------------------------------ *)
Definition bytes (f : list N) (off n : N) : list N := takeN n (dropN off f).

Lemma bytes_add : forall f off a b, bytes f off (a + b) = bytes f off a ++ bytes f (off + a) b.
Proof. intros. unfold bytes. rewrite takeN_add, dropN_dropN. reflexivity. Qed.

Lemma bytes_0 : forall f off, bytes f off 0 = [].
Proof. intros. apply takeN_0. Qed.

Lemma lenN_bytes : forall f off n, lenN (bytes f off n) = N.min n (lenN f - off).
Proof. intros. unfold bytes. now rewrite lenN_takeN, lenN_dropN. Qed.

Definition honest (it : sitem) : Prop := match it with SOk | SRefuse | SCut _ | SShort _ => True | _ => False end.

Lemma serve_honest : forall f off size it body fn,
  honest it -> serve f off size it = Some (body, fn) ->
  lenN body <= size /\ body = bytes f off (lenN body).
Proof.
  intros f off size it body fn Hh Hs.
  assert (Hm : exists m, m <= size /\ body = takeN m (dropN off f)).
  { unfold serve in Hs. destruct it; try contradiction; try discriminate;
      injection Hs as <- _.
    - exists size. split; [lia|reflexivity].
    - exists (N.min k size). split; [lia|apply takeN_takeN].
    - exists (N.min k size). split; [lia|apply takeN_takeN]. }
  destruct Hm as (m & Hm & ->). split.
  - rewrite lenN_takeN. lia.
  - unfold bytes. now rewrite takeN_lenN_self.
Qed.

Lemma range_request_S : forall fu f off size retries script need got log,
  range_request (S fu) f off size retries script need got log =
      let it := match script with [] => SOk | x :: _ => x end in
      let script' := tl script in
      let log' := log ++ [(off, size)] in
      match serve f off size it with
      | None =>
          if retries =? 0 then (got, log', script', Some E_HTTP)
          else range_request fu f off size (retries - 1) script' need got log'
      | Some (body, fn) =>
          let got' := got ++ body in
          if need <=? lenN got' then (got', log', script', None)
          else
            match fn with
            | FinEnd => (got', log', script', Some E_END)
            | FinErr =>
                if retries =? 0 then (got', log', script', Some E_HTTP)
                else range_request fu f (off + lenN body) (size - lenN body) (retries - 1) script' need got' log'
            end
      end.
Proof. reflexivity. Qed.

Lemma honest_head : forall script, Forall honest script ->
  honest (match script with [] => SOk | x :: _ => x end) /\ Forall honest (tl script).
Proof. intros script H; destruct H as [|x l Hx Hl]; split; try assumption; constructor. Qed.

(* the bytes delivered by a range request are the file bytes from [off] on, contiguous *)
Lemma rr_inv : forall fuel f off size retries script need got log got' log' script' err,
  Forall honest script ->
  range_request fuel f off size retries script need got log = (got', log', script', err) ->
  exists r, r <= size /\ got' = got ++ bytes f off r /\ Forall honest script'
    /\ (err = None -> need <= lenN got')
    /\ (lenN got < need -> err <> None -> lenN got' < need).
Proof.
  induction fuel as [|fu IH]; intros f off size retries script need got log got' log' script' err Hh H.
  - injection H as <- <- <- <-. exists 0. rewrite bytes_0, app_nil_r.
    repeat split; [lia|assumption|discriminate|auto].
  - rewrite range_request_S in H. cbv zeta in H.
    destruct (honest_head script Hh) as [Hit Htl].
    destruct (serve f off size _) as [[body fn]|] eqn:Es.
    + destruct (serve_honest _ _ _ _ _ _ Hit Es) as [Hb1 Hb2].
      assert (Hdone : forall e, (e = None -> need <= lenN (got ++ body)) ->
                (e <> None -> lenN (got ++ body) < need) ->
                (got ++ body, log ++ [(off, size)], tl script, e) = (got', log', script', err) ->
                exists r, r <= size /\ got' = got ++ bytes f off r /\ Forall honest script'
                  /\ (err = None -> need <= lenN got')
                  /\ (lenN got < need -> err <> None -> lenN got' < need)).
      { intros e He1 He2 HH. injection HH as <- <- <- <-. exists (lenN body). rewrite <- Hb2.
        repeat split; auto. }
      destruct (N.leb_spec need (lenN (got ++ body))) as [Hle|Hlt].
      * apply (Hdone None); [auto|congruence|exact H].
      * destruct fn.
        -- apply (Hdone (Some E_END)); [discriminate|auto|exact H].
        -- destruct (retries =? 0).
           ++ apply (Hdone (Some E_HTTP)); [discriminate|auto|exact H].
           ++ apply IH in H; [|exact Htl]. destruct H as (r & Hr & Hg & Hs & Hn & He).
              exists (lenN body + r). split; [lia|]. split.
              { rewrite bytes_add, <- Hb2, Hg, app_assoc. reflexivity. }
              split; [exact Hs|]. split; [exact Hn|]. intros _ Herr. apply He; assumption.
    + destruct (retries =? 0).
      * injection H as <- <- <- <-. exists 0. rewrite bytes_0, app_nil_r.
        repeat split; [lia|assumption|discriminate|auto].
      * apply IH in H; [|exact Htl]. exact H.
Qed.

(* resumption: inside one range request every request ends at the same byte and starts at the first byte
   not yet received; the bytes delivered are contiguous file bytes *)
Theorem range_request_resumes : forall fuel f off size retries script need got0 log0 got log script' err,
  Forall honest script ->
  range_request fuel f off size retries script need got0 log0 = (got, log, script', err) ->
  exists newlog, log = log0 ++ newlog /\
    Forall (fun r => fst r + snd r = off + size /\ off <= fst r) newlog /\
    (forall pre o s post, newlog = pre ++ (o, s) :: post ->
        exists received, o = off + received /\ s = size - received /\ received <= size) /\
    (exists r, r <= size /\ got = got0 ++ bytes f off r).
Proof.
  intros fuel f off size retries script need got0 log0 got log script' err Hh H.
  assert (Hc : exists r, r <= size /\ got = got0 ++ bytes f off r).
  { destruct (rr_inv _ _ _ _ _ _ _ _ _ _ _ _ _ Hh H) as (r & Hr & Hg & _). eauto. }
  cut (exists newlog, log = log0 ++ newlog /\
        forall pre o s post, newlog = pre ++ (o, s) :: post ->
        exists received, o = off + received /\ s = size - received /\ received <= size).
  { intros (newlog & Hl & Hsplit). exists newlog. split; [exact Hl|]. split; [|split; assumption].
    apply Forall_forall. intros [o s] Hin. apply in_split in Hin. destruct Hin as (pre & post & ->).
    destruct (Hsplit pre o s post eq_refl) as (rc & -> & -> & Hrc). cbn [fst snd]. lia. }
  clear Hc. revert f off size retries script need got0 log0 got log script' err Hh H.
  induction fuel as [|fu IH]; intros f off size retries script need got0 log0 got log script' err Hh H.
  - injection H as <- <- <- <-. exists []. split; [now rewrite app_nil_r|].
    intros pre o s post Hp. now destruct pre.
  - rewrite range_request_S in H. cbv zeta in H.
    destruct (honest_head script Hh) as [Hit Htl].
    assert (Hone : exists newlog, log0 ++ [(off, size)] = log0 ++ newlog /\
        forall pre o s post, newlog = pre ++ (o, s) :: post ->
        exists received, o = off + received /\ s = size - received /\ received <= size).
    { exists [(off, size)]. split; [reflexivity|]. intros pre o s post Hp.
      destruct pre as [|x pre]; [|now destruct pre].
      injection Hp as <- <- _. exists 0. repeat split; lia. }
    destruct (serve f off size _) as [[body fn]|] eqn:Es.
    + destruct (serve_honest _ _ _ _ _ _ Hit Es) as [Hb1 _].
      destruct (need <=? lenN (got0 ++ body)); [injection H as <- <- <- <-; exact Hone|].
      destruct fn; [injection H as <- <- <- <-; exact Hone|].
      destruct (retries =? 0); [injection H as <- <- <- <-; exact Hone|].
      apply IH in H; [|exact Htl]. destruct H as (nl & Hl & Hsplit).
      exists ((off, size) :: nl). split; [rewrite Hl, <- app_assoc; reflexivity|].
      intros pre o s post Hp. destruct pre as [|x pre].
      * injection Hp as <- <- _. exists 0. repeat split; lia.
      * injection Hp as _ Hp. destruct (Hsplit pre o s post Hp) as (rc & -> & -> & Hrc).
        exists (lenN body + rc). repeat split; lia.
    + destruct (retries =? 0); [injection H as <- <- <- <-; exact Hone|].
      apply IH in H; [|exact Htl]. destruct H as (nl & Hl & Hsplit).
      exists ((off, size) :: nl). split; [rewrite Hl, <- app_assoc; reflexivity|].
      intros pre o s post Hp. destruct pre as [|x pre].
      * injection Hp as <- <- _. exists 0. repeat split; lia.
      * injection Hp as _ Hp. exact (Hsplit pre o s post Hp).
Qed.

(* ------------------------------------------------------------------ *)
(* the chunk reader                                                     *)
(* ------------------------------------------------------------------ *)
Fixpoint pre_done (buf : list N) (cs : list range) : list item :=
  match cs with
  | [] => []
  | x :: r => if r_size x <=? lenN buf
              then IOk (takeN (r_size x) buf) :: pre_done (dropN (r_size x) buf) r
              else []
  end.

Lemma chunk_reader_S : forall fu f retries script c rest buf log,
  chunk_reader (S fu) f retries script (c :: rest) buf log =
  if r_size c <=? lenN buf then
    let '(items, log') := chunk_reader fu f retries script rest (dropN (r_size c) buf) log in
    (IOk (takeN (r_size c) buf) :: items, log')
  else
    let n := adjacent_reads (c :: rest) in
    let run := firstn (N.to_nat n) (c :: rest) in
    let total := r_end (last run c) - r_off c in
    let '(got, log', script', err) :=
      range_request (S (N.to_nat retries) + 1) f (r_off c) total retries script total [] log in
    match err with
    | None =>
        let '(items, log'') := chunk_reader fu f retries script' (skipn (N.to_nat n) (c :: rest)) (dropN total got) log' in
        (split_chunks got run ++ items, log'')
    | Some e => (pre_done got run ++ [IErr e], log')
    end.
Proof. reflexivity. Qed.

Definition ok_items (f : list N) (cs : list range) : list item := map (fun c => IOk (chunk_bytes f c)) cs.

(* normal form of one step on an empty buffer and a non-empty chunk *)
Lemma cr_step : forall fu f retries script c rest log,
  0 < r_size c ->
  chunk_reader (S fu) f retries script (c :: rest) [] log =
    let n := adjn (c :: rest) in
    let run := firstn n (c :: rest) in
    let total := total_size run in
    let '(got, log', script', err) :=
      range_request (S (N.to_nat retries) + 1) f (r_off c) total retries script total [] log in
    match err with
    | None =>
        let '(items, log'') := chunk_reader fu f retries script' (skipn n (c :: rest)) (dropN total got) log' in
        (split_chunks got run ++ items, log'')
    | Some e => (pre_done got run ++ [IErr e], log')
    end.
Proof.
  intros fu f retries script c rest log Hc. rewrite chunk_reader_S.
  cbn [lenN]. destruct (N.leb_spec (r_size c) 0) as [H|_]; [lia|].
  cbv zeta. rewrite adjacent_reads_adjn.
  assert (Ht : r_end (last (firstn (adjn (c :: rest)) (c :: rest)) c) - r_off c
               = total_size (firstn (adjn (c :: rest)) (c :: rest))).
  { pose proof (chain_firstn_adjn (c :: rest)) as Hch.
    destruct (adjn_pos (c :: rest)) as [k Hk]. rewrite Hk in *. cbn [firstn] in *.
    rewrite (chain_last_end _ _ Hch). lia. }
  rewrite Ht. reflexivity.
Qed.

Lemma run_total_pos : forall c rest, 0 < r_size c -> 0 < total_size (firstn (adjn (c :: rest)) (c :: rest)).
Proof.
  intros c rest Hc. destruct (adjn_pos (c :: rest)) as [k ->]. cbn [firstn total_size]. lia.
Qed.

Lemma run_in_file : forall f c rest, Forall (in_file f) (c :: rest) ->
  r_off c + total_size (firstn (adjn (c :: rest)) (c :: rest)) <= lenN f.
Proof.
  intros f c rest Hf. pose proof (chain_firstn_adjn (c :: rest)) as Hch.
  pose proof (Forall_firstn _ (adjn (c :: rest)) _ Hf) as Hrun.
  destruct (adjn_pos (c :: rest)) as [k Hk]. rewrite Hk in *. cbn [firstn] in *.
  rewrite <- (chain_last_end _ _ Hch).
  apply (Forall_last (fun x => r_end x <= lenN f)).
  - eapply Forall_impl; [|exact Hrun]. intros x Hx. exact (proj2 Hx).
  - exact (proj2 (Forall_inv Hf)).
Qed.

Definition head_at (off : N) (run : list range) : Prop :=
  match run with [] => True | c :: _ => r_off c = off end.

Lemma head_at_next : forall c r, chain (c :: r) -> head_at (r_off c + r_size c) r.
Proof. intros c [|b r] H; [exact I|]. symmetry. exact (proj1 H). Qed.

Lemma dropN_bytes : forall f off n k, dropN k (bytes f off n) = bytes f (off + k) (n - k).
Proof. intros. unfold bytes. now rewrite dropN_takeN, dropN_dropN. Qed.

Lemma takeN_bytes : forall f off n k, k <= n -> takeN k (bytes f off n) = bytes f off k.
Proof. intros. unfold bytes. rewrite takeN_takeN. f_equal. lia. Qed.

Lemma split_ok : forall f run off T,
  chain run -> head_at off run -> total_size run <= T ->
  split_chunks (bytes f off T) run = ok_items f run.
Proof.
  intros f run; induction run as [|c r IH]; intros off T Hch Hh HT; [reflexivity|].
  cbn [head_at] in Hh. subst off. cbn [total_size] in HT.
  cbn [split_chunks ok_items map]. rewrite takeN_bytes by lia. f_equal.
  rewrite dropN_bytes. apply IH; [exact (chain_tail _ _ Hch)|exact (head_at_next _ _ Hch)|lia].
Qed.

Lemma pre_ok : forall f run off r,
  chain run -> head_at off run ->
  exists j, (j <= length run)%nat /\ pre_done (bytes f off r) run = ok_items f (firstn j run)
    /\ (lenN (bytes f off r) < total_size run -> (j < length run)%nat).
Proof.
  intros f run; induction run as [|c rs IH]; intros off r Hch Hh.
  - exists O. cbn [total_size length]. repeat split; [lia|lia].
  - cbn [head_at] in Hh. subst off. cbn [pre_done].
    destruct (N.leb_spec (r_size c) (lenN (bytes f (r_off c) r))) as [Hle|Hlt].
    + assert (Hr : r_size c <= r) by (rewrite lenN_bytes in Hle; lia).
      destruct (IH (r_off c + r_size c) (r - r_size c) (chain_tail _ _ Hch) (head_at_next _ _ Hch))
        as (j & Hj & Hp & Hlt).
      exists (S j). rewrite takeN_bytes by lia. rewrite dropN_bytes, Hp.
      cbn [length firstn ok_items map total_size]. split; [lia|]. split; [reflexivity|].
      intros Hl. rewrite lenN_bytes in *. assert (j < length rs)%nat; [apply Hlt|]; lia.
    + exists O. cbn [length firstn ok_items map]. repeat split; lia.
Qed.

Lemma success_shape : forall f off r total,
  r <= total -> total <= lenN (bytes f off r) ->
  bytes f off r = bytes f off total /\ dropN total (bytes f off total) = [].
Proof.
  intros f off r total Hr Hl. assert (r = total) by (rewrite lenN_bytes in Hl; lia). subst r.
  split; [reflexivity|]. apply dropN_all. rewrite lenN_bytes. lia.
Qed.

Lemma firstn_firstn_le : forall {A} (l : list A) (j n : nat), (j <= n)%nat -> firstn j (firstn n l) = firstn j l.
Proof. intros. rewrite firstn_firstn. f_equal. lia. Qed.

Definition exact_result (f : list N) (chunks : list range) (items : list item) : Prop :=
  exists j e, (j <= length chunks)%nat /\
    (items = ok_items f (firstn j chunks)
     \/ items = ok_items f (firstn j chunks) ++ [IErr e] /\ (j < length chunks)%nat).

Lemma cr_exact : forall fuel f retries script chunks log items log',
  Forall honest script -> Forall (in_file f) chunks ->
  chunk_reader fuel f retries script chunks [] log = (items, log') ->
  exact_result f chunks items.
Proof.
  induction fuel as [|fu IH]; intros f retries script chunks log items log' Hh Hf H.
  - injection H as <- _. exists O, 0. split; [lia|]. left. reflexivity.
  - destruct chunks as [|c rest].
    + injection H as <- _. exists O, 0. split; [cbn; lia|]. left. reflexivity.
    + pose proof (proj1 (Forall_inv Hf)) as Hc.
      rewrite (cr_step _ _ _ _ _ _ _ Hc) in H. cbv zeta in H.
      pose proof (chain_firstn_adjn (c :: rest)) as Hch.
      pose proof (run_total_pos c rest Hc) as Hpos.
      pose proof (adjn_le c rest) as Hn.
      set (n := adjn (c :: rest)) in *. set (run := firstn n (c :: rest)) in *.
      set (total := total_size run) in *.
      assert (Hhead : head_at (r_off c) run).
      { subst run n. destruct (adjn_pos (c :: rest)) as [k ->]. reflexivity. }
      assert (Hlen : length run = n).
      { subst run. apply firstn_length_le. exact Hn. }
      destruct (range_request _ f (r_off c) total retries script total [] log)
        as [[[got log1] script1] err] eqn:Er.
      apply (rr_inv _ _ _ _ _ _ _ _ _ _ _ _ _ Hh) in Er.
      destruct Er as (r & Hr & Hg & Hs & Hnone & Hsome). cbn [app lenN] in Hg, Hsome. subst got.
      destruct err as [e|].
      * injection H as <- _.
        destruct (pre_ok f run (r_off c) r Hch Hhead) as (j & Hj & Hp & Hlt).
        exists j, e. assert (j < length run)%nat by (apply Hlt, Hsome; [lia|discriminate]).
        split; [lia|]. right. split; [|lia].
        rewrite Hp. subst run. rewrite firstn_firstn_le by lia. reflexivity.
      * destruct (success_shape f (r_off c) r total Hr (Hnone eq_refl)) as [Hb Hd].
        rewrite Hb, Hd in H. rewrite (split_ok f run (r_off c) total Hch Hhead) in H by (subst total; lia).
        destruct (chunk_reader fu f retries script1 (skipn n (c :: rest)) [] log1) as [items1 log2] eqn:Ec.
        injection H as <- _.
        apply IH in Ec; [|exact Hs|apply Forall_skipn; exact Hf].
        destruct Ec as (j & e & Hj & Hcase). rewrite skipn_length in Hj.
        exists (n + j)%nat, e. split; [lia|].
        rewrite firstn_add. unfold ok_items in *. rewrite map_app. fold run.
        destruct Hcase as [->|[-> Hlt]]; [left; reflexivity|right].
        split; [now rewrite app_assoc|]. rewrite skipn_length in Hlt. lia.
Qed.

(* C08: every delivered item is exactly the requested chunk, in order; at most one error, at the end *)
Theorem http_items_exact : forall f retries script chunks items log,
  Forall honest script -> Forall (in_file f) chunks ->
  read_chunks_http f retries script chunks = (items, log) ->
  exists j e, (j <= length chunks)%nat /\
    (items = map (fun c => IOk (chunk_bytes f c)) (firstn j chunks)
     \/ items = map (fun c => IOk (chunk_bytes f c)) (firstn j chunks) ++ [IErr e] /\ (j < length chunks)%nat).
Proof.
  intros f retries script chunks items log Hh Hf H. unfold read_chunks_http in H.
  exact (cr_exact _ _ _ _ _ _ _ _ Hh Hf H).
Qed.

(* ------------------------------------------------------------------ *)
(* enough retries                                                       *)
(* ------------------------------------------------------------------ *)
Definition failing (it : sitem) : bool := match it with SOk => false | _ => true end.
Definition retryable (it : sitem) : Prop := match it with SOk | SRefuse | SCut _ => True | _ => False end.

Lemma lenN_bytes_in : forall f off n, off + n <= lenN f -> lenN (bytes f off n) = n.
Proof. intros. rewrite lenN_bytes. lia. Qed.

Lemma takeN_bytes' : forall f off n k, takeN k (bytes f off n) = bytes f off (N.min k n).
Proof. intros. unfold bytes. now rewrite takeN_takeN. Qed.

Lemma rr_suffice : forall fuel f off size retries script need got log,
  Forall retryable script ->
  N.of_nat (length (filter failing script)) <= retries ->
  (N.to_nat retries < fuel)%nat ->
  off + size <= lenN f -> need = lenN got + size ->
  exists log' script',
    range_request fuel f off size retries script need got log = (got ++ bytes f off size, log', script', None)
    /\ Forall retryable script'
    /\ (length (filter failing script') <= length (filter failing script))%nat.
Proof.
  induction fuel as [|fu IH]; intros f off size retries script need got log Hs Hn Hfu Hin Hneed; [lia|].
  rewrite range_request_S. cbv zeta.
  assert (Hleb : need <=? lenN (got ++ bytes f off size) = true).
  { rewrite lenN_app, lenN_bytes_in by exact Hin. apply N.leb_le. lia. }
  destruct script as [|it script].
  - unfold serve. cbv beta iota zeta. fold (bytes f off size). rewrite Hleb.
    exists (log ++ [(off, size)]), []. repeat split; [constructor|cbn; lia].
  - pose proof (Forall_inv Hs) as Hit. pose proof (Forall_inv_tail Hs) as Htl.
    cbn [tl] in *. destruct it; try contradiction.
    + (* SOk *)
      unfold serve. cbv beta iota zeta. fold (bytes f off size). rewrite Hleb.
      exists (log ++ [(off, size)]), script. repeat split; [exact Htl|cbn [filter failing]; lia].
    + (* SRefuse *)
      unfold serve. cbv beta iota zeta. cbn [filter failing length] in Hn.
      destruct (N.eqb_spec retries 0) as [H0|_]; [lia|].
      destruct (IH f off size (retries - 1) script need got (log ++ [(off, size)]) Htl) as (l' & s' & -> & Hs' & Hc');
        [lia|lia|exact Hin|exact Hneed|].
      exists l', s'. repeat split; [exact Hs'|cbn [filter failing length]; lia].
    + (* SCut k *)
      unfold serve. cbv beta iota zeta. fold (bytes f off size). rewrite takeN_bytes'.
      cbn [filter failing length] in Hn.
      set (b := N.min k size).
      assert (Hbs : b <= size) by (subst b; lia).
      assert (Hbk : b = size \/ b < size) by lia.
      clearbody b.
      assert (Hb : lenN (bytes f off b) = b) by (apply lenN_bytes_in; lia).
      rewrite lenN_app, Hb.
      destruct (N.leb_spec need (lenN got + b)) as [Hle|Hlt].
      * assert (b = size) by lia. exists (log ++ [(off, size)]), script.
        repeat split; [congruence|exact Htl|cbn [filter failing length]; lia].
      * destruct (N.eqb_spec retries 0) as [H0|_]; [lia|].
        destruct (IH f (off + b) (size - b) (retries - 1) script need (got ++ bytes f off b) (log ++ [(off, size)]) Htl)
          as (l' & s' & -> & Hs' & Hc').
        { lia. } { lia. } { lia. } { rewrite lenN_app, Hb. lia. }
        exists l', s'. repeat split; [|exact Hs'|cbn [filter failing length]; lia].
        rewrite <- app_assoc, <- bytes_add. replace (b + (size - b)) with size by lia. reflexivity.
Qed.

Lemma cr_suffice : forall fuel f retries script chunks log,
  Forall retryable script ->
  N.of_nat (length (filter failing script)) <= retries ->
  Forall (in_file f) chunks ->
  (length chunks < fuel)%nat ->
  fst (chunk_reader fuel f retries script chunks [] log) = ok_items f chunks.
Proof.
  induction fuel as [|fu IH]; intros f retries script chunks log Hs Hn Hf Hfu; [lia|].
  destruct chunks as [|c rest]; [reflexivity|].
  pose proof (proj1 (Forall_inv Hf)) as Hc.
  rewrite (cr_step _ _ _ _ _ _ _ Hc). cbv zeta.
  pose proof (chain_firstn_adjn (c :: rest)) as Hch.
  pose proof (adjn_le c rest) as Hn'.
  pose proof (run_in_file f c rest Hf) as Hin.
  destruct (adjn_pos (c :: rest)) as [k Hk].
  set (n := adjn (c :: rest)) in *. set (run := firstn n (c :: rest)) in *.
  set (total := total_size run) in *.
  assert (Hhead : head_at (r_off c) run) by (subst run; rewrite Hk; reflexivity).
  destruct (rr_suffice (S (N.to_nat retries) + 1) f (r_off c) total retries script total [] log Hs Hn)
    as (log1 & script1 & -> & Hs1 & Hc1); [lia|exact Hin|reflexivity|].
  cbn [app]. rewrite (split_ok f run (r_off c) total Hch Hhead) by (subst total; lia).
  rewrite dropN_all by (rewrite lenN_bytes; lia).
  specialize (IH f retries script1 (skipn n (c :: rest)) log1 Hs1).
  destruct (chunk_reader fu f retries script1 (skipn n (c :: rest)) [] log1) as [items1 log2].
  cbn [fst] in *. rewrite IH.
  - unfold ok_items. rewrite <- map_app. subst run. now rewrite firstn_skipn.
  - lia.
  - apply Forall_skipn. exact Hf.
  - rewrite skipn_length, Hk. cbn [length] in *. lia.
Qed.

(* C08: enough retries: with only SOk / SRefuse / SCut items and no more failing items than the retry
   budget, everything is delivered *)
Theorem http_retries_suffice : forall f retries script chunks,
  Forall (fun it => match it with SOk | SRefuse | SCut _ => True | _ => False end) script ->
  N.of_nat (length (filter failing script)) <= retries ->
  Forall (in_file f) chunks ->
  fst (read_chunks_http f retries script chunks) = map (fun c => IOk (chunk_bytes f c)) chunks.
Proof.
  intros f retries script chunks Hs Hn Hf. unfold read_chunks_http.
  apply cr_suffice; [exact Hs|exact Hn|exact Hf|lia].
Qed.

(* ------------------------------------------------------------------ *)
(* C07: no failures: one request per maximal run                        *)
(* ------------------------------------------------------------------ *)
Lemma rr_nil : forall fu f off size retries log,
  off + size <= lenN f ->
  range_request (S fu) f off size retries [] size [] log = (bytes f off size, log ++ [(off, size)], [], None).
Proof.
  intros fu f off size retries log Hin. rewrite range_request_S. cbv zeta. unfold serve.
  cbv beta iota zeta. fold (bytes f off size). cbn [app tl].
  rewrite lenN_bytes_in by exact Hin. rewrite N.leb_refl. reflexivity.
Qed.

Lemma cr_noscript : forall fuel f retries chunks log,
  Forall (in_file f) chunks ->
  (length chunks < fuel)%nat ->
  chunk_reader fuel f retries [] chunks [] log = (ok_items f chunks, log ++ map run_request (runs chunks)).
Proof.
  induction fuel as [|fu IH]; intros f retries chunks log Hf Hfu; [lia|].
  destruct chunks as [|c rest]; [cbn [chunk_reader ok_items map runs]; now rewrite app_nil_r|].
  pose proof (proj1 (Forall_inv Hf)) as Hc.
  rewrite (cr_step _ _ _ _ _ _ _ Hc). cbv zeta.
  pose proof (chain_firstn_adjn (c :: rest)) as Hch.
  pose proof (run_in_file f c rest Hf) as Hin.
  rewrite runs_unfold.
  destruct (adjn_pos (c :: rest)) as [k Hk].
  set (n := adjn (c :: rest)) in *. set (run := firstn n (c :: rest)) in *.
  assert (Hreq : run_request run = (r_off c, total_size run)).
  { subst run. rewrite Hk in *. cbn [firstn] in *. unfold run_request.
    rewrite (chain_last_end _ _ Hch). f_equal. lia. }
  set (total := total_size run) in *.
  assert (Hhead : head_at (r_off c) run) by (subst run; rewrite Hk; reflexivity).
  change (S (N.to_nat retries) + 1)%nat with (S (N.to_nat retries + 1)).
  rewrite rr_nil by exact Hin.
  rewrite (split_ok f run (r_off c) total Hch Hhead) by (subst total; lia).
  rewrite dropN_all by (rewrite lenN_bytes; lia).
  rewrite IH.
  - cbn [map]. rewrite Hreq, <- app_assoc. cbn [app]. f_equal.
    unfold ok_items. rewrite <- map_app. subst run. now rewrite firstn_skipn.
  - apply Forall_skipn. exact Hf.
  - rewrite skipn_length, Hk. cbn [length] in *. lia.
Qed.

Theorem requests_are_maximal_runs : forall f retries chunks,
  Forall (in_file f) chunks ->
  read_chunks_http f retries [] chunks
  = (map (fun c => IOk (chunk_bytes f c)) chunks, map run_request (runs chunks)).
Proof.
  intros f retries chunks Hf. unfold read_chunks_http.
  rewrite cr_noscript by (try exact Hf; lia). reflexivity.
Qed.

(* ------------------------------------------------------------------ *)
(* C08: the local reader                                                *)
(* ------------------------------------------------------------------ *)
Fixpoint io_expected (f : list N) (chunks : list range) : list item :=
  match chunks with
  | [] => []
  | c :: r => if r_end c <=? lenN f then IOk (chunk_bytes f c) :: io_expected f r else [IErr E_EOF_IO]
  end.

(* one read of at most [n] bytes *)
Definition read_step (fu : nat) (f : list N) (pos have size : N) (acc : list N) (n : N) (rest : list rev)
  : item * list rev :=
  let avail := bytes f pos (N.min n (size - have)) in
  match avail with
  | [] => (IErr E_EOF_IO, rest)
  | _ => io_read_chunk fu f (pos + lenN avail) (have + lenN avail) size (acc ++ avail) rest
  end.

Lemma io_step_nil : forall fu f pos have size acc,
  io_read_chunk (S fu) f pos have size acc [] =
  if size <=? have then (IOk acc, []) else read_step fu f pos have size acc (size - have) [].
Proof. reflexivity. Qed.

Lemma io_step_pending : forall fu f pos have size acc r,
  io_read_chunk (S fu) f pos have size acc (RPending :: r) =
  if size <=? have then (IOk acc, RPending :: r) else io_read_chunk fu f pos have size acc r.
Proof. reflexivity. Qed.

Lemma io_step_read : forall fu f pos have size acc n r,
  io_read_chunk (S fu) f pos have size acc (RRead n :: r) =
  if size <=? have then (IOk acc, RRead n :: r) else read_step fu f pos have size acc n r.
Proof. reflexivity. Qed.

Lemma read_step_nonempty : forall fu f pos have size acc n rest,
  0 < lenN (bytes f pos (N.min n (size - have))) ->
  read_step fu f pos have size acc n rest =
  let avail := bytes f pos (N.min n (size - have)) in
  io_read_chunk fu f (pos + lenN avail) (have + lenN avail) size (acc ++ avail) rest.
Proof.
  intros fu f pos have size acc n rest H. unfold read_step. cbv zeta.
  destruct (bytes f pos (N.min n (size - have))) as [|x l]; [cbn [lenN] in H; lia|reflexivity].
Qed.

Definition sched_ok (sched : list rev) : Prop := Forall (fun e => e <> RRead 0) sched.

Lemma io_ok : forall fuel f off size pos have acc sched,
  sched_ok sched -> off + size <= lenN f -> have <= size -> pos = off + have ->
  acc = bytes f off have ->
  (N.to_nat (size - have) + length sched < fuel)%nat ->
  exists sched', io_read_chunk fuel f pos have size acc sched = (IOk (bytes f off size), sched')
    /\ sched_ok sched'.
Proof.
  induction fuel as [|fu IH]; intros f off size pos have acc sched Hs Hin Hh Hpos Hacc Hfu; [lia|].
  assert (Hread : forall n rest, n <> 0 -> have < size -> sched_ok rest ->
            (N.to_nat (size - have - N.min n (size - have)) + length rest < fu)%nat ->
            exists sched', read_step fu f pos have size acc n rest = (IOk (bytes f off size), sched')
              /\ sched_ok sched').
  { intros n rest Hn Hlt Hrest Hfu'.
    assert (Hm : 0 < N.min n (size - have) <= size - have) by lia.
    set (m := N.min n (size - have)) in *.
    assert (Hlen : lenN (bytes f pos m) = m) by (apply lenN_bytes_in; lia).
    rewrite read_step_nonempty by (fold m; lia). fold m. cbv zeta. rewrite Hlen.
    apply (IH f off); [exact Hrest|exact Hin|lia|lia| |lia].
    rewrite bytes_add, <- Hacc, <- Hpos. reflexivity. }
  destruct sched as [|[|n] r].
  - rewrite io_step_nil. destruct (N.leb_spec size have) as [Hle|Hlt].
    + exists []. split; [|constructor]. assert (have = size) by lia. subst have acc. reflexivity.
    + apply Hread; [lia|exact Hlt|constructor|]. cbn [length] in *. lia.
  - rewrite io_step_pending. destruct (N.leb_spec size have) as [Hle|Hlt].
    + exists (RPending :: r). split; [|exact Hs]. assert (have = size) by lia. subst have acc. reflexivity.
    + apply (IH f off); try assumption; [exact (Forall_inv_tail Hs)|]. cbn [length] in Hfu. lia.
  - rewrite io_step_read. destruct (N.leb_spec size have) as [Hle|Hlt].
    + exists (RRead n :: r). split; [|exact Hs]. assert (have = size) by lia. subst have acc. reflexivity.
    + apply Hread; [|exact Hlt|exact (Forall_inv_tail Hs)|].
      * intros ->. exact (Forall_inv Hs eq_refl).
      * assert (n <> 0) by (intros ->; exact (Forall_inv Hs eq_refl)). cbn [length] in Hfu. lia.
Qed.

Lemma io_eof : forall fuel f off size pos have acc sched,
  0 < size -> lenN f < off + size -> pos = off + have ->
  (have = 0 \/ off + have <= lenN f) ->
  exists sched', io_read_chunk fuel f pos have size acc sched = (IErr E_EOF_IO, sched').
Proof.
  induction fuel as [|fu IH]; intros f off size pos have acc sched Hsz Hout Hpos Hinv; [eexists; reflexivity|].
  assert (Hlt : have < size) by lia.
  assert (Hread : forall n rest, exists sched', read_step fu f pos have size acc n rest = (IErr E_EOF_IO, sched')).
  { intros n rest. destruct (N.eq_dec (lenN (bytes f pos (N.min n (size - have)))) 0) as [H0|H0].
    - apply lenN_nil_inv in H0. unfold read_step. cbv zeta. rewrite H0. eexists; reflexivity.
    - rewrite read_step_nonempty by lia. cbv zeta.
      apply (IH f off); [exact Hsz|exact Hout|lia|]. right. rewrite lenN_bytes in *. lia. }
  destruct sched as [|[|n] r].
  - rewrite io_step_nil. destruct (N.leb_spec size have); [lia|]. apply Hread.
  - rewrite io_step_pending. destruct (N.leb_spec size have); [lia|]. apply (IH f off); assumption.
  - rewrite io_step_read. destruct (N.leb_spec size have); [lia|]. apply Hread.
Qed.

(* [io_reader_exact] as first stated (without the hypothesis on zero-sized chunks) is false:
   f = 0..39, chunks = [(0,5); (41,0); (0,1)], sched = []: the reader delivers IOk [] for the empty chunk
   beyond the end of the file (no read is attempted), while [io_expected] says IErr E_EOF_IO. *)
Theorem io_reader_exact : forall f chunks sched,
  Forall (fun e => e <> RRead 0) sched ->
  Forall (fun c => 0 < r_size c \/ r_end c <= lenN f) chunks ->
  io_read_chunks f chunks sched = io_expected f chunks.
Proof.
  intros f chunks; induction chunks as [|c r IH]; intros sched Hs Hc; [reflexivity|].
  cbn [io_read_chunks io_expected].
  destruct (N.leb_spec (r_end c) (lenN f)) as [Hin|Hout].
  - destruct (io_ok (S (N.to_nat (r_size c)) + length sched) f (r_off c) (r_size c) (r_off c) 0 [] sched)
      as (sched' & -> & Hs'); [exact Hs|exact Hin|lia|lia|now rewrite bytes_0|lia|].
    rewrite (IH sched' Hs' (Forall_inv_tail Hc)). reflexivity.
  - destruct (Forall_inv Hc) as [Hpos|Hin]; [|lia].
    destruct (io_eof (S (N.to_nat (r_size c)) + length sched) f (r_off c) (r_size c) (r_off c) 0 [] sched)
      as (sched' & ->); [exact Hpos|exact Hout|lia|now left|]. reflexivity.
Qed.

(* ------------------------------------------------------------------ *)
(* C08: the exact resumption point                                      *)
(* ------------------------------------------------------------------ *)
(* With fuel k the model stops just before sending request number k+1 and returns the state reached,
   so [range_request (length pre)] is "the range request after the requests in [pre]". *)
Lemma rr_log_head : forall fuel f off size retries script need got0 log0 got log script' err,
  range_request fuel f off size retries script need got0 log0 = (got, log, script', err) ->
  exists nl, log = log0 ++ nl /\
    match fuel with O => nl = [] | S _ => exists nl', nl = (off, size) :: nl' end.
Proof.
  induction fuel as [|fu IH]; intros f off size retries script need got0 log0 got log script' err H.
  - injection H as <- <- <- <-. exists []. now rewrite app_nil_r.
  - rewrite range_request_S in H. cbv zeta in H.
    assert (Hone : forall g s e, (g, log0 ++ [(off, size)], s, e) = (got, log, script', err) ->
              exists nl, log = log0 ++ nl /\ exists nl', nl = (off, size) :: nl').
    { intros g s e HH. injection HH as <- <- <- <-. exists [(off, size)]. split; [reflexivity|]. now exists []. }
    assert (Hrec : forall o' s' r' sc g, range_request fu f o' s' r' sc need g (log0 ++ [(off, size)]) = (got, log, script', err) ->
              exists nl, log = log0 ++ nl /\ exists nl', nl = (off, size) :: nl').
    { intros o' s' r' sc g HH. apply IH in HH. destruct HH as (nl & -> & _).
      exists ((off, size) :: nl). split; [now rewrite <- app_assoc|]. now exists nl. }
    destruct (serve f off size _) as [[body fn]|].
    + destruct (need <=? lenN (got0 ++ body)); [exact (Hone _ _ _ H)|].
      destruct fn; [exact (Hone _ _ _ H)|].
      destruct (retries =? 0); [exact (Hone _ _ _ H)|exact (Hrec _ _ _ _ _ H)].
    + destruct (retries =? 0); [exact (Hone _ _ _ H)|exact (Hrec _ _ _ _ _ H)].
Qed.

Theorem range_request_resume_point :
  forall fuel f off size retries script need got0 log0 got script' err pre o s post,
  Forall honest script ->
  range_request fuel f off size retries script need got0 log0 = (got, log0 ++ pre ++ (o, s) :: post, script', err) ->
  exists got_pre script_pre received,
    range_request (length pre) f off size retries script need got0 log0
      = (got_pre, log0 ++ pre, script_pre, Some E_HTTP)
    /\ got_pre = got0 ++ bytes f off received /\ lenN (bytes f off received) = received
    /\ received <= size
    /\ o = off + received /\ s = size - received.
Proof.
  induction fuel as [|fu IH];
    intros f off size retries script need got0 log0 got script' err pre o s post Hh H.
  - apply rr_log_head in H. destruct H as (nl & Hl & ->).
    apply app_inv_head in Hl. now destruct pre.
  - destruct pre as [|x pre].
    + apply rr_log_head in H. destruct H as (nl & Hl & nl' & ->). apply app_inv_head in Hl.
      injection Hl as -> -> _. exists got0, script, 0. cbn [length range_request app].
      rewrite bytes_0, !app_nil_r. cbn [lenN]. repeat split; lia.
    + pose proof (rr_log_head _ _ _ _ _ _ _ _ _ _ _ _ _ H) as (nl & Hl & nl' & ->).
      apply app_inv_head in Hl. injection Hl as -> Hl. clear nl' Hl.
      cbn [length]. rewrite range_request_S in H |- *. cbv zeta in H |- *.
      destruct (honest_head script Hh) as [Hit Htl].
      assert (Hshift : log0 ++ ((off, size) :: pre) ++ (o, s) :: post = (log0 ++ [(off, size)]) ++ pre ++ (o, s) :: post)
        by now rewrite <- app_assoc.
      assert (Hshift' : log0 ++ (off, size) :: pre = (log0 ++ [(off, size)]) ++ pre) by now rewrite <- app_assoc.
      rewrite Hshift in H. rewrite Hshift'.
      assert (Hterm : forall g sc e,
                (g, log0 ++ [(off, size)], sc, e) = (got, (log0 ++ [(off, size)]) ++ pre ++ (o, s) :: post, script', err) -> False).
      { intros g sc e HH. injection HH as _ HH _ _. apply (f_equal (@length _)) in HH.
        rewrite !app_length in HH. cbn [length] in HH. lia. }
      destruct (serve f off size _) as [[body fn]|] eqn:Es.
      * destruct (serve_honest _ _ _ _ _ _ Hit Es) as [Hb1 Hb2].
        destruct (need <=? lenN (got0 ++ body)); [elim (Hterm _ _ _ H)|].
        destruct fn; [elim (Hterm _ _ _ H)|].
        destruct (retries =? 0); [elim (Hterm _ _ _ H)|].
        apply IH in H; [|exact Htl]. destruct H as (gp & sp & rc & -> & Hg & Hlen & Hrc & -> & ->).
        exists gp, sp, (lenN body + rc). split; [reflexivity|]. split.
        { rewrite Hg, bytes_add, <- Hb2, app_assoc. reflexivity. }
        split.
        { rewrite bytes_add, <- Hb2, lenN_app, Hlen. reflexivity. }
        repeat split; lia.
      * destruct (retries =? 0); [elim (Hterm _ _ _ H)|].
        apply IH in H; [|exact Htl]. destruct H as (gp & sp & rc & -> & Hg & Hlen & Hrc & -> & ->).
        exists gp, sp, rc. repeat split; assumption.
Qed.
