(* STRETCH GOAL (separate from Proofs/ProtoRoundTrip.v): the dictionary decoder is robust to unknown
   fields.  An unknown field (tag >= 9, wire type varint / 64-bit / length-delimited / 32-bit with a
   well-formed payload) inserted at a field boundary does not change the result of [decode_dict],
   whether that result is [Some _] or [None]. *)
From Bita Require Import Model.Base Gen.Generated Model.Proto Proofs.ProtoRoundTrip.

Local Open Scope N_scope.
Local Transparent decode_varint decode_key.

(* ---------- every reader returns a suffix that is no longer than its input ---------- *)
Lemma dec_varint_shorter : forall fuel c acc l v r,
  dec_varint fuel c acc l = Some (v, r) -> (length r < length l)%nat.
Proof.
  induction fuel as [| f IH]; intros c acc l v r H; [discriminate |].
  destruct l as [| b l']; [discriminate |]. cbn [dec_varint] in H.
  destruct (b <? 128).
  - destruct ((c =? 9) && (2 <=? b)); [discriminate |]. inversion H; subst. cbn [length]. lia.
  - apply IH in H. cbn [length]. lia.
Qed.

Lemma decode_varint_shorter : forall l v r, decode_varint l = Some (v, r) -> (length r < length l)%nat.
Proof. intros l v r H. unfold decode_varint in H. eapply dec_varint_shorter; exact H. Qed.

Lemma decode_key_shorter : forall l tag wt r, decode_key l = Some (tag, wt, r) -> (length r < length l)%nat.
Proof.
  intros l tag wt r H. unfold decode_key in H.
  destruct (decode_varint l) as [[key r0] |] eqn:E; [| discriminate].
  destruct (M32 <=? key); [discriminate |].
  destruct (6 <=? N.land key 7); [discriminate |].
  destruct (N.shiftr key 3 =? 0); [discriminate |].
  inversion H; subst. eapply decode_varint_shorter; exact E.
Qed.

Lemma dropN_length : forall (A : Type) (l : list A) n, (length (dropN n l) <= length l)%nat.
Proof.
  induction l as [| x l IH]; intro n; cbn [dropN length]; [lia |].
  destruct (n =? 0); [cbn [length]; lia |]. specialize (IH (N.pred n)). lia.
Qed.

Lemma take_bytes_shorter : forall n l x r, take_bytes n l = Some (x, r) -> (length r <= length l)%nat.
Proof.
  intros n l x r H. unfold take_bytes in H. destruct (n <=? lenN l); [| discriminate].
  inversion H; subst. apply dropN_length.
Qed.

Lemma read_varint_field_shorter : forall wt l v r, read_varint_field wt l = Some (v, r) -> (length r <= length l)%nat.
Proof.
  intros wt l v r H. unfold read_varint_field in H. destruct (wt =? WT_VARINT); [| discriminate].
  apply decode_varint_shorter in H. lia.
Qed.

Lemma read_len_field_shorter : forall wt l b r, read_len_field wt l = Some (b, r) -> (length r <= length l)%nat.
Proof.
  intros wt l b r H. unfold read_len_field in H. destruct (wt =? WT_LEN); [| discriminate].
  destruct (decode_varint l) as [[n r0] |] eqn:E; [| discriminate].
  apply decode_varint_shorter in E. apply take_bytes_shorter in H. lia.
Qed.

(* the group loop inside skip_field, as a top-level fixpoint *)
Definition group_loop (sk : N -> N -> list N -> option (list N)) (tag : N) : nat -> list N -> option (list N) :=
  fix group (g : nat) (l : list N) {struct g} : option (list N) :=
  match g with
  | O => None
  | S g' =>
    match decode_key l with
    | None => None
    | Some (itag, iwt, r) =>
        if iwt =? WT_EGROUP then (if itag =? tag then Some r else None)
        else match sk iwt itag r with
             | Some r' => group g' r'
             | None => None
             end
    end
  end.

Lemma skip_field_S : forall f depth wt tag l,
  skip_field (S f) depth wt tag l =
    if depth =? 0 then None else
    if wt =? WT_VARINT then match decode_varint l with Some (_, r) => Some r | None => None end
    else if wt =? WT_32 then match take_bytes 4 l with Some (_, r) => Some r | None => None end
    else if wt =? WT_64 then match take_bytes 8 l with Some (_, r) => Some r | None => None end
    else if wt =? WT_LEN then
      match decode_varint l with
      | Some (n, r) => match take_bytes n r with Some (_, r') => Some r' | None => None end
      | None => None
      end
    else if wt =? WT_SGROUP then group_loop (skip_field f (depth - 1)) tag f l
    else None.
Proof. reflexivity. Qed.

Lemma group_loop_shorter : forall sk tag,
  (forall wt t l r, sk wt t l = Some r -> (length r <= length l)%nat) ->
  forall g l r, group_loop sk tag g l = Some r -> (length r <= length l)%nat.
Proof.
  intros sk tag Hsk. induction g as [| g IH]; intros l r H; [discriminate |].
  change (group_loop sk tag (S g) l) with
    (match decode_key l with
     | None => None
     | Some (itag, iwt, r) =>
        if iwt =? WT_EGROUP then (if itag =? tag then Some r else None)
        else match sk iwt itag r with
             | Some r' => group_loop sk tag g r'
             | None => None
             end
     end) in H.
  destruct (decode_key l) as [[[itag iwt] r0] |] eqn:Ek; [| discriminate].
  apply decode_key_shorter in Ek.
  destruct (iwt =? WT_EGROUP).
  - destruct (itag =? tag); [| discriminate]. inversion H; subst. lia.
  - destruct (sk iwt itag r0) as [r' |] eqn:Es; [| discriminate].
    apply Hsk in Es. apply IH in H. lia.
Qed.

Lemma skip_field_shorter : forall fuel depth wt tag l r,
  skip_field fuel depth wt tag l = Some r -> (length r <= length l)%nat.
Proof.
  induction fuel as [| f IH]; intros depth wt tag l r H; [discriminate |].
  rewrite skip_field_S in H.
  destruct (depth =? 0); [discriminate |].
  destruct (wt =? WT_VARINT).
  { destruct (decode_varint l) as [[v r0] |] eqn:E; [| discriminate]. inversion H; subst.
    apply decode_varint_shorter in E. lia. }
  destruct (wt =? WT_32).
  { destruct (take_bytes 4 l) as [[v r0] |] eqn:E; [| discriminate]. inversion H; subst.
    eapply take_bytes_shorter; exact E. }
  destruct (wt =? WT_64).
  { destruct (take_bytes 8 l) as [[v r0] |] eqn:E; [| discriminate]. inversion H; subst.
    eapply take_bytes_shorter; exact E. }
  destruct (wt =? WT_LEN).
  { destruct (decode_varint l) as [[n r0] |] eqn:E; [| discriminate].
    destruct (take_bytes n r0) as [[v r1] |] eqn:E2; [| discriminate]. inversion H; subst.
    apply decode_varint_shorter in E. apply take_bytes_shorter in E2. lia. }
  destruct (wt =? WT_SGROUP); [| discriminate].
  eapply group_loop_shorter; [| exact H]. intros wt' t' l' r'. apply IH.
Qed.

Lemma dict_step_shorter : forall acc tag wt l acc' r,
  dict_step acc tag wt l = Some (acc', r) -> (length r <= length l)%nat.
Proof.
  intros acc tag wt l acc' r H. unfold dict_step in H.
  repeat match type of H with
         | context [match ?x with _ => _ end] => destruct x eqn:?
         end;
  try discriminate; inversion H; subst;
  try (eapply read_len_field_shorter; eassumption);
  try (eapply read_varint_field_shorter; eassumption);
  try (eapply skip_field_shorter; eassumption).
Qed.

(* ---------- fuel independence of the merge loop ---------- *)
Lemma merge_fuel_indep : forall A (step : stepfn A),
  (forall acc tag wt l acc' r, step acc tag wt l = Some (acc', r) -> (length r <= length l)%nat) ->
  forall f1 f2 acc l, (length l <= f1)%nat -> (length l <= f2)%nat ->
  merge_fields f1 step acc l = merge_fields f2 step acc l.
Proof.
  intros A step Hs. induction f1 as [| f1 IH]; intros f2 acc l H1 H2.
  - destruct l; [| cbn [length] in H1; lia]. destruct f2; reflexivity.
  - destruct l as [| x l'].
    + destruct f2; reflexivity.
    + destruct f2 as [| f2]; [cbn [length] in H2; lia |].
      cbn [merge_fields].
      destruct (decode_key (x :: l')) as [[[tag wt] r] |] eqn:Ek; [| reflexivity].
      apply decode_key_shorter in Ek.
      destruct (step acc tag wt r) as [[acc' r'] |] eqn:Es; [| reflexivity].
      apply Hs in Es. apply IH; lia.
Qed.

(* the merge loop with the canonical amount of fuel *)
Definition run_dict (acc : dictionary) (l : list N) : option dictionary :=
  merge_fields (length l) dict_step acc l.

Lemma run_dict_fuel : forall acc l fuel, (length l <= fuel)%nat ->
  merge_fields fuel dict_step acc l = run_dict acc l.
Proof. intros acc l fuel H. unfold run_dict. apply merge_fuel_indep; [exact dict_step_shorter | lia | lia]. Qed.

Lemma decode_dict_run : forall l, decode_dict l = run_dict dict_default l.
Proof. intro l. unfold decode_dict. apply run_dict_fuel. apply skip_fuel_ok. Qed.

(* ---------- unknown fields ---------- *)
Definition payload_ok (wt : N) (u : list N) : Prop :=
  (wt = WT_VARINT /\ exists v, v < 18446744073709551616 /\ u = encode_varint v)
  \/ (wt = WT_64 /\ lenN u = 8)
  \/ (wt = WT_LEN /\ exists p, lenN p < 18446744073709551616 /\ u = encode_varint (lenN p) ++ p)
  \/ (wt = WT_32 /\ lenN u = 4).

Lemma payload_ok_wt : forall wt u, payload_ok wt u -> wt < 6.
Proof.
  intros wt u [[E _] | [[E _] | [[E _] | [E _]]]]; subst wt; reflexivity.
Qed.

Lemma skip_field_payload : forall wt u, payload_ok wt u ->
  forall fuel depth tag b, depth <> 0 -> skip_field (S fuel) depth wt tag (u ++ b) = Some b.
Proof.
  intros wt u Hp fuel depth tag b Hd. rewrite skip_field_S.
  destruct (N.eqb_spec depth 0) as [? | _]; [contradiction |].
  destruct Hp as [[E (v & Hv & Eu)] | [[E Hl] | [[E (p & Hpl & Eu)] | [E Hl]]]]; subst wt.
  - change (WT_VARINT =? WT_VARINT) with true. cbv iota. subst u.
    rewrite decode_encode_varint by exact Hv. reflexivity.
  - change (WT_64 =? WT_VARINT) with false. change (WT_64 =? WT_32) with false.
    change (WT_64 =? WT_64) with true. cbv iota.
    rewrite <- Hl. rewrite take_bytes_app. reflexivity.
  - change (WT_LEN =? WT_VARINT) with false. change (WT_LEN =? WT_32) with false.
    change (WT_LEN =? WT_64) with false. change (WT_LEN =? WT_LEN) with true. cbv iota. subst u.
    rewrite <- app_assoc. rewrite decode_encode_varint by exact Hpl.
    rewrite take_bytes_app. reflexivity.
  - change (WT_32 =? WT_VARINT) with false. change (WT_32 =? WT_32) with true. cbv iota.
    rewrite <- Hl. rewrite take_bytes_app. reflexivity.
Qed.

Lemma dict_step_unknown : forall acc t wt u b, 9 <= t -> payload_ok wt u ->
  dict_step acc t wt (u ++ b) = Some (acc, b).
Proof.
  intros acc t wt u b Ht Hp. unfold dict_step.
  cbv delta [F_ChunkDictionary_application_version F_ChunkDictionary_source_checksum
             F_ChunkDictionary_source_total_size F_ChunkDictionary_chunker_params
             F_ChunkDictionary_chunk_compression F_ChunkDictionary_rebuild_order
             F_ChunkDictionary_chunk_descriptors F_ChunkDictionary_metadata].
  repeat match goal with
         | |- context [t =? ?k] => destruct (N.eqb_spec t k) as [? | _]; [lia |]
         end.
  unfold skip_fuel. rewrite (skip_field_payload wt u Hp) by (unfold DEPTH0; discriminate).
  reflexivity.
Qed.

(* [reaches a acc acc']: from loop state [acc], the bytes [a] are a sequence of complete top-level
   fields that leads to state [acc'], whatever follows *)
Definition reaches (a : list N) (acc acc' : dictionary) : Prop :=
  forall rest, run_dict acc (a ++ rest) = run_dict acc' rest.

Lemma reaches_nil : forall acc, reaches [] acc acc.
Proof. intros acc rest. reflexivity. Qed.

Lemma reaches_trans : forall a b acc acc1 acc2,
  reaches a acc acc1 -> reaches b acc1 acc2 -> reaches (a ++ b) acc acc2.
Proof. intros a b acc acc1 acc2 Ha Hb rest. rewrite <- app_assoc. rewrite Ha. apply Hb. Qed.

(* one complete field *)
Lemma reaches_field : forall acc acc' tag wt body,
  1 <= tag -> tag < 536870912 -> wt < 6 ->
  (forall rest, dict_step acc tag wt (body ++ rest) = Some (acc', rest)) ->
  reaches (encode_key tag wt ++ body) acc acc'.
Proof.
  intros acc acc' tag wt body Ht1 Ht2 Hwt Hstep rest. rewrite <- app_assoc.
  unfold run_dict at 1.
  pose proof (encode_key_length tag wt) as Hkl.
  destruct (length (encode_key tag wt ++ body ++ rest)) as [| n] eqn:El.
  { rewrite app_length in El. lia. }
  rewrite (merge_fields_one _ dict_step acc acc' tag wt body rest n) by auto.
  apply run_dict_fuel. rewrite !app_length in El. lia.
Qed.

Lemma reaches_unknown : forall acc t wt u, 9 <= t -> t < 536870912 -> payload_ok wt u ->
  reaches (encode_key t wt ++ u) acc acc.
Proof.
  intros acc t wt u Ht1 Ht2 Hp. apply reaches_field; [lia | exact Ht2 | eapply payload_ok_wt; exact Hp |].
  intro rest. apply dict_step_unknown; assumption.
Qed.

(* the encoding of a well-formed dictionary is such a sequence of complete fields *)
Lemma reaches_encode_dict : forall d, dict_wf d -> lenN (encode_dict d) < 18446744073709551616 ->
  reaches (encode_dict d) dict_default d.
Proof.
  intros d Hwf Hsize rest.
  set (P := fun (acc : dictionary) (l : list N) =>
              forall fuel, (length l <= fuel)%nat -> merge_fields fuel dict_step acc l = run_dict d rest).
  assert (HP : field_closed dict_step P).
  { intros acc acc' tag wt body y Ht1 Ht2 Hwt Hstep Hrest fuel Hfuel.
    pose proof (encode_key_length tag wt) as Hkl. rewrite !app_length in Hfuel.
    destruct fuel as [| f]; [lia |].
    rewrite (merge_fields_one _ dict_step acc acc' tag wt body y f) by assumption.
    apply Hrest. lia. }
  assert (H : P dict_default (encode_dict d ++ rest)).
  { apply (encode_dict_closed P HP); try assumption.
    intros fuel Hfuel. apply run_dict_fuel. exact Hfuel. }
  unfold run_dict at 1. apply H. lia.
Qed.

(* MAIN THEOREM of the stretch goal *)
Theorem unknown_field_skipped : forall a acc' t wt u b,
  reaches a dict_default acc' ->
  9 <= t -> t < 536870912 -> payload_ok wt u ->
  decode_dict (a ++ encode_key t wt ++ u ++ b) = decode_dict (a ++ b).
Proof.
  intros a acc' t wt u b Ha Ht1 Ht2 Hp.
  rewrite !decode_dict_run. rewrite !Ha.
  rewrite app_assoc. apply (reaches_unknown acc' t wt u Ht1 Ht2 Hp).
Qed.

(* instances: an unknown field after, before, or (any number of times) around an encoded dictionary *)
Corollary unknown_field_after_dict : forall d t wt u b,
  dict_wf d -> lenN (encode_dict d) < 18446744073709551616 ->
  9 <= t -> t < 536870912 -> payload_ok wt u ->
  decode_dict (encode_dict d ++ encode_key t wt ++ u ++ b) = decode_dict (encode_dict d ++ b).
Proof.
  intros d t wt u b Hwf Hsize Ht1 Ht2 Hp.
  apply unknown_field_skipped with (acc' := d); try assumption.
  apply reaches_encode_dict; assumption.
Qed.

Corollary decode_encode_dict_trailing_unknown : forall d t wt u,
  dict_wf d -> lenN (encode_dict d) < 18446744073709551616 ->
  9 <= t -> t < 536870912 -> payload_ok wt u ->
  decode_dict (encode_dict d ++ encode_key t wt ++ u) = Some d.
Proof.
  intros d t wt u Hwf Hsize Ht1 Ht2 Hp.
  rewrite <- (app_nil_r u).
  rewrite unknown_field_after_dict by assumption.
  rewrite app_nil_r. apply decode_encode_dict; assumption.
Qed.

Corollary decode_encode_dict_leading_unknown : forall d t wt u,
  dict_wf d -> lenN (encode_dict d) < 18446744073709551616 ->
  9 <= t -> t < 536870912 -> payload_ok wt u ->
  decode_dict (encode_key t wt ++ u ++ encode_dict d) = Some d.
Proof.
  intros d t wt u Hwf Hsize Ht1 Ht2 Hp.
  change (encode_key t wt ++ u ++ encode_dict d) with ([] ++ encode_key t wt ++ u ++ encode_dict d).
  rewrite (unknown_field_skipped [] dict_default) by (try assumption; apply reaches_nil).
  apply decode_encode_dict; assumption.
Qed.

Print Assumptions unknown_field_skipped.
Print Assumptions decode_encode_dict_trailing_unknown.
Print Assumptions decode_encode_dict_leading_unknown.
