(* The boundary rule (property C09): the byte-at-a-time automaton [chunk_oneshot], which carries a
   hasher state across chunks, computes exactly the stateless specification [spec_chunks cfg false].
   The purity of the two rolling hashes (sum = function of the last W bytes fed) is taken as section
   hypotheses; everything else is proven here from the Model files. *)
From Coq Require Import NArith List Bool Lia.
From Bita Require Import Model.Base Gen.Generated Model.RollSum Model.BuzHash Model.Chunker Model.ChunkSpec.
Import ListNotations.
Open Scope N_scope.

(* ---------- list helpers ---------- *)
Lemma lenN_app {A} (l1 l2 : list A) : lenN (l1 ++ l2) = lenN l1 + lenN l2.
Proof. induction l1 as [|x l1 IH]; cbn [lenN app]; lia. Qed.

Lemma lenN_length {A} (l : list A) : lenN l = N.of_nat (length l).
Proof. induction l as [|x l IH]; cbn [lenN length]; lia. Qed.

Lemma dropN_0 {A} (l : list A) : dropN 0 l = l.
Proof. destruct l; reflexivity. Qed.

Lemma takeN_app_exact {A} (pre rest : list A) n : lenN pre = n -> takeN n (pre ++ rest) = pre.
Proof.
  revert n; induction pre as [|x pre IH]; intros n Hn; cbn [lenN app] in *.
  - subst n. destruct rest; reflexivity.
  - cbn [takeN]. destruct (N.eqb_spec n 0) as [E|E]; [lia|]. f_equal. apply IH. lia.
Qed.

Lemma dropN_all {A} (l : list A) n : lenN l <= n -> dropN n l = [].
Proof.
  revert n; induction l as [|x l IH]; intros n Hn; cbn [lenN dropN] in *; [reflexivity|].
  destruct (N.eqb_spec n 0) as [E|E]; [lia|]. apply IH. lia.
Qed.

Lemma dropN_app_plus {A} (l1 l2 : list A) k : dropN (lenN l1 + k) (l1 ++ l2) = dropN k l2.
Proof.
  induction l1 as [|x l1 IH]; cbn [lenN app].
  - now rewrite N.add_0_l.
  - cbn [dropN]. destruct (N.eqb_spec (N.succ (lenN l1) + k) 0) as [E|E]; [lia|].
    replace (N.pred (N.succ (lenN l1) + k)) with (lenN l1 + k) by lia. exact IH.
Qed.

Lemma dropN_app_l {A} (l r : list A) k : k <= lenN l -> dropN k (l ++ r) = dropN k l ++ r.
Proof.
  revert k; induction l as [|x l IH]; intros k Hk; cbn [lenN app] in *.
  - replace k with 0 by lia. now rewrite dropN_0.
  - cbn [dropN]. destruct (N.eqb_spec k 0) as [E|E]; [reflexivity|]. apply IH. lia.
Qed.

Lemma dropN_split {A} (l : list A) : forall j, j <= lenN l -> exists l1, l = l1 ++ dropN j l /\ lenN l1 = j.
Proof.
  induction l as [|x l IH]; intros j Hj; cbn [lenN] in *.
  - exists []. split; [reflexivity|cbn; lia].
  - cbn [dropN]. destruct (N.eqb_spec j 0) as [E|E].
    + exists []. split; [reflexivity|cbn; lia].
    + destruct (IH (N.pred j)) as [l1 [H1 H2]]; [lia|].
      exists (x :: l1). split; [cbn [app]; now rewrite <- H1|cbn [lenN]; lia].
Qed.

Lemma lastN_0 {A} (l : list A) : lastN 0 l = [].
Proof. unfold lastN. apply dropN_all. lia. Qed.

Lemma lastN_all {A} (l : list A) : lastN (lenN l) l = l.
Proof. unfold lastN. rewrite N.sub_diag. apply dropN_0. Qed.

Lemma lastN_app_r {A} (l1 l2 : list A) n : n <= lenN l2 -> lastN n (l1 ++ l2) = lastN n l2.
Proof.
  intros Hn. unfold lastN. rewrite lenN_app.
  replace (lenN l1 + lenN l2 - n) with (lenN l1 + (lenN l2 - n)) by lia. apply dropN_app_plus.
Qed.

Lemma lastN_snoc {A} (l : list A) b n : n <= lenN l -> lastN (n + 1) (l ++ [b]) = lastN n l ++ [b].
Proof.
  intros Hn. unfold lastN. rewrite lenN_app. cbn [lenN].
  replace (lenN l + N.succ 0 - (n + 1)) with (lenN l - n) by lia. apply dropN_app_l. lia.
Qed.

Lemma lastN_split {A} (l : list A) k : k <= lenN l -> exists l1, l = l1 ++ lastN k l /\ lenN (lastN k l) = k.
Proof.
  intros Hk. unfold lastN. destruct (dropN_split l (lenN l - k)) as [l1 [H1 H2]]; [lia|].
  exists l1. split; [exact H1|].
  assert (E : lenN l = lenN l1 + lenN (dropN (lenN l - k) l)) by (rewrite <- lenN_app, <- H1; reflexivity).
  lia.
Qed.

Lemma lastN_lastN {A} (l : list A) n k : n <= k -> k <= lenN l -> lastN n (lastN k l) = lastN n l.
Proof.
  intros Hnk Hk. destruct (lastN_split l k Hk) as [l1 [H1 H2]].
  rewrite H1 at 2. symmetry. apply lastN_app_r. lia.
Qed.

Lemma lastN_le {A} (l l' : list A) n k :
  n <= k -> k <= lenN l -> k <= lenN l' -> lastN k l = lastN k l' -> lastN n l = lastN n l'.
Proof.
  intros Hnk Hl Hl' E. rewrite <- (lastN_lastN l n k), <- (lastN_lastN l' n k) by assumption.
  now rewrite E.
Qed.

(* ---------- facts about the specification alone ---------- *)
Fixpoint tiles (s : N) (l : list (N * N)) (total : N) : Prop :=
  match l with [] => s = total | (o, n) :: r => o = s /\ 0 < n /\ tiles (s + n) r total end.

Section SpecFacts.
  Variable cfg : config.
  Variable lit : bool.
  Variable data : list N.
  Local Notation total := (lenN data).
  Local Notation scan := (spec_scan cfg lit).
  Local Notation chunks := (spec_chunks_from cfg lit).

  Lemma spec_scan_fuel : forall f1 f2 s p,
    (N.to_nat (total - (s + p)) < f1)%nat -> (N.to_nat (total - (s + p)) < f2)%nat ->
    scan f1 data total s p = scan f2 data total s p.
  Proof.
    induction f1 as [|f1 IH]; intros f2 s p H1 H2; [lia|]. destruct f2 as [|f2]; [lia|].
    cbn [spec_scan].
    destruct ((c_max cfg <=? p) || (tested cfg lit s p && pure_match cfg data (s + p))); [reflexivity|].
    destruct (N.leb_spec total (s + p)) as [L|L]; [reflexivity|]. apply IH; lia.
  Qed.

  Lemma spec_scan_ge : forall f s p, p <= scan f data total s p.
  Proof.
    induction f as [|f IH]; intros s p; cbn [spec_scan]; [lia|].
    destruct ((c_max cfg <=? p) || (tested cfg lit s p && pure_match cfg data (s + p))); [lia|].
    destruct (N.leb_spec total (s + p)) as [L|L]; [lia|]. specialize (IH s (p + 1)). lia.
  Qed.

  Lemma spec_scan_le_total : forall f s p, s + p <= total -> s + scan f data total s p <= total.
  Proof.
    induction f as [|f IH]; intros s p Hp; cbn [spec_scan]; [lia|].
    destruct ((c_max cfg <=? p) || (tested cfg lit s p && pure_match cfg data (s + p))); [lia|].
    destruct (N.leb_spec total (s + p)) as [L|L]; [lia|]. apply IH. lia.
  Qed.

  Lemma spec_scan_le_max : forall f s p, p <= c_max cfg -> scan f data total s p <= c_max cfg.
  Proof.
    induction f as [|f IH]; intros s p Hp; cbn [spec_scan]; [lia|].
    destruct (N.leb_spec (c_max cfg) p) as [M|M]; cbn [orb]; [lia|].
    destruct (tested cfg lit s p && pure_match cfg data (s + p)); [lia|].
    destruct (N.leb_spec total (s + p)) as [L|L]; [lia|]. apply IH. lia.
  Qed.

  (* a scan that stops before the end of the data stopped at the maximum size or at a tested position *)
  Lemma spec_scan_stop : forall f s p, (N.to_nat (total - (s + p)) < f)%nat ->
    s + scan f data total s p < total ->
    c_max cfg <= scan f data total s p \/ tested cfg lit s (scan f data total s p) = true.
  Proof.
    induction f as [|f IH]; intros s p Hf; cbn [spec_scan]; [lia|].
    destruct (N.leb_spec (c_max cfg) p) as [M|M]; cbn [orb]; [intros _; left; lia|].
    destruct (tested cfg lit s p) eqn:T; cbn [andb].
    - destruct (pure_match cfg data (s + p)); [intros _; right; exact T|].
      destruct (N.leb_spec total (s + p)) as [L|L]; [lia|]. apply IH. lia.
    - destruct (N.leb_spec total (s + p)) as [L|L]; [lia|]. apply IH. lia.
  Qed.

  Lemma spec_chunks_from_fuel : forall f1 f2 s,
    (N.to_nat (total - s) < f1)%nat -> (N.to_nat (total - s) < f2)%nat ->
    chunks f1 data total s = chunks f2 data total s.
  Proof.
    induction f1 as [|f1 IH]; intros f2 s H1 H2; [lia|]. destruct f2 as [|f2]; [lia|].
    cbn [spec_chunks_from]. destruct (N.leb_spec total s) as [L|L]; [reflexivity|].
    cbv zeta. f_equal.
    pose proof (spec_scan_ge (S (length data)) s 1) as G. apply IH; lia.
  Qed.

  Lemma big_fuel : forall s p, 1 <= p -> (N.to_nat (total - (s + p)) < S (length data))%nat.
  Proof. intros s p Hp. rewrite lenN_length. lia. Qed.

  Lemma spec_chunks_from_tiles : forall f s, s <= total -> (N.to_nat (total - s) < f)%nat ->
    tiles s (chunks f data total s) total.
  Proof.
    induction f as [|f IH]; intros s Hs Hf; [lia|]. cbn [spec_chunks_from].
    destruct (N.leb_spec total s) as [L|L]; cbn [tiles]; [lia|]. cbv zeta.
    pose proof (spec_scan_ge (S (length data)) s 1) as G.
    pose proof (spec_scan_le_total (S (length data)) s 1) as T.
    split; [reflexivity|]. split; [lia|]. apply IH; lia.
  Qed.

  Lemma spec_chunks_from_in : forall f s o n, In (o, n) (chunks f data total s) ->
    o < total /\ n = scan (S (length data)) data total o 1.
  Proof.
    induction f as [|f IH]; intros s o n HI; cbn [spec_chunks_from] in HI; [destruct HI|].
    destruct (N.leb_spec total s) as [L|L]; [destruct HI|]. cbv zeta in HI.
    destruct HI as [E|HI]; [inversion E; subst; split; [lia|reflexivity]|].
    eapply IH; exact HI.
  Qed.
End SpecFacts.

Lemma fixed_chunks_tiles size : 0 < size -> forall fuel start tot, (N.to_nat tot < fuel)%nat ->
  tiles start (fixed_chunks size start tot fuel) (start + tot).
Proof.
  intros Hs. induction fuel as [|f IH]; intros start tot Hf; [lia|]. cbn [fixed_chunks].
  destruct (N.eqb_spec tot 0) as [E|E]; cbn [tiles]; [lia|].
  destruct (N.leb_spec size tot) as [L|L]; cbn [tiles].
  - split; [reflexivity|]. split; [lia|].
    replace (start + tot) with (start + size + (tot - size)) by lia. apply IH. lia.
  - split; [reflexivity|]. split; [lia|reflexivity].
Qed.

Lemma fixed_chunks_in size : forall fuel start tot o n, In (o, n) (fixed_chunks size start tot fuel) ->
  n <= size /\ (o + n < start + tot -> n = size).
Proof.
  induction fuel as [|f IH]; intros start tot o n HI; cbn [fixed_chunks] in HI; [destruct HI|].
  destruct (N.eqb_spec tot 0) as [E|E]; [destruct HI|].
  destruct (N.leb_spec size tot) as [L|L].
  - destruct HI as [E1|HI]; [inversion E1; subst; split; [lia|reflexivity]|].
    apply IH in HI. destruct HI as [H1 H2]. split; [exact H1|]. intros H. apply H2. lia.
  - destruct HI as [E1|[]]. inversion E1; subst. split; lia.
Qed.

Theorem spec_chunks_tile : forall cfg lit data, valid_config cfg = true ->
  tiles 0 (spec_chunks cfg lit data) (lenN data).
Proof.
  intros cfg lit data Hv. unfold spec_chunks. unfold valid_config in Hv.
  assert (F : (N.to_nat (lenN data) < S (length data))%nat) by (rewrite lenN_length; lia).
  destruct (c_algo cfg).
  1,2: apply spec_chunks_from_tiles; [lia|rewrite N.sub_0_r; exact F].
  apply N.leb_le in Hv.
  change (lenN data) with (0 + lenN data) at 2. apply fixed_chunks_tiles; [lia|exact F].
Qed.

Theorem spec_chunks_sizes : forall cfg lit data o n, valid_config cfg = true ->
  In (o, n) (spec_chunks cfg lit data) ->
  n <= c_max cfg /\ (o + n < lenN data ->
     match c_algo cfg with AFixed => n = c_max cfg | _ => c_min cfg <= n end).
Proof.
  intros cfg lit data o n Hv HI. unfold spec_chunks in HI. unfold valid_config in Hv.
  assert (R : c_algo cfg <> AFixed ->
              In (o, n) (spec_chunks_from cfg lit (S (length data)) data (lenN data) 0) ->
              c_min cfg <= c_max cfg -> 1 <= c_max cfg ->
              n <= c_max cfg /\ (o + n < lenN data -> c_min cfg <= n)).
  { intros _ HI' Hmm Hm1. apply spec_chunks_from_in in HI'. destruct HI' as [Ho En]. split.
    - subst n. apply spec_scan_le_max. exact Hm1.
    - intros Hlt. subst n.
      destruct (spec_scan_stop cfg lit data (S (length data)) o 1 (big_fuel data o 1 ltac:(lia)) Hlt) as [M|T]; [lia|].
      unfold tested in T. apply andb_true_iff in T. destruct T as [T _]. apply N.leb_le in T. lia. }
  destruct (c_algo cfg).
  - repeat (apply andb_true_iff in Hv; destruct Hv as [Hv ?]).
    repeat match goal with H : (_ <=? _) = true |- _ => apply N.leb_le in H end.
    apply R; [discriminate|exact HI|lia|lia].
  - repeat (apply andb_true_iff in Hv; destruct Hv as [Hv ?]).
    repeat match goal with H : (_ <=? _) = true |- _ => apply N.leb_le in H end.
    apply R; [discriminate|exact HI|lia|lia].
  - apply fixed_chunks_in in HI. rewrite N.add_0_l in HI. exact HI.
Qed.

(* ---------- fed sequences: the hasher state as a function of the bytes fed so far ---------- *)
Definition rs_feed (W : N) (xs : list N) : rollsum := fold_left rs_input xs (rs_new W).
Definition bh_step (h : buzhash) (b : N) : buzhash := if bh_full h then bh_input h b else bh_init h b.
Definition bh_feed (W : N) (xs : list N) : buzhash := fold_left bh_step xs (bh_new W).

Lemma rs_feed_snoc W xs b : rs_feed W (xs ++ [b]) = rs_input (rs_feed W xs) b.
Proof. unfold rs_feed. rewrite fold_left_app. reflexivity. Qed.

Lemma bh_feed_snoc W xs b : bh_feed W (xs ++ [b]) = bh_step (bh_feed W xs) b.
Proof. unfold bh_feed. rewrite fold_left_app. reflexivity. Qed.

(* while fewer than W bytes have been fed the window is not full (so the bytes go to [bh_init]) *)
Lemma bh_feed_notfull W : forall xs, lenN xs < W ->
  bh_full (bh_feed W xs) = false /\ bh_index (bh_feed W xs) = lenN xs /\ bh_w (bh_feed W xs) = W.
Proof.
  induction xs as [|b xs IH] using rev_ind; intros Hl.
  - unfold bh_feed, bh_new. cbn [fold_left bh_full bh_index bh_w lenN]. auto.
  - rewrite lenN_app in *. cbn [lenN] in *. destruct IH as [F [I Hw]]; [lia|].
    rewrite bh_feed_snoc. unfold bh_step. rewrite F. unfold bh_init. rewrite F.
    cbn [bh_full bh_index bh_w]. rewrite I, Hw.
    split; [apply N.leb_gt; lia|]. split; [|reflexivity].
    destruct (N.leb_spec W (lenN xs + 1)); lia.
Qed.

Section WithPurity.
  Hypothesis rs_pure_correct : forall W xs, 1 <= W -> W < 4294967296 -> Forall (fun b => b < 256) xs ->
    rs_sum (rs_feed W xs) = rs_pure W (lastN W (repeat 0 (N.to_nat W) ++ xs)).
  Hypothesis bh_pure_correct : forall W xs, 1 <= W -> W <= lenN xs -> Forall (fun b => b < 256) xs ->
    bh_full (bh_feed W xs) = true /\ bh_sum (bh_feed W xs) = bh_pure (lastN W xs).

  Lemma bh_full_iff W xs : 1 <= W -> Forall (fun b => b < 256) xs ->
    bh_full (bh_feed W xs) = (W <=? lenN xs).
  Proof.
    intros HW HF. destruct (N.leb_spec W (lenN xs)) as [L|L].
    - apply bh_pure_correct; assumption.
    - apply bh_feed_notfull. exact L.
  Qed.

  Section Run.
    Variable cfg : config.
    Local Notation W := (c_win cfg).
    Local Notation mn := (c_min cfg).
    Local Notation mx := (c_max cfg).
    Hypothesis HW1 : 1 <= W.
    Hypothesis HW32 : W < 4294967296.
    Hypothesis Hmx1 : 1 <= mx.

    Definition limit : N := if W <=? mn then mn - W else 0.
    Definition mask : N := N.ones (c_bits cfg).
    Definition pad : list N := repeat 0 (N.to_nat W).
    Definition feed (xs : list N) : hasher :=
      match c_algo cfg with ABuzHash => HBuz (bh_feed W xs) | _ => HRoll (rs_feed W xs) end.
    Definition pmatch (pre : list N) : bool :=
      let sm := pure_sum cfg (lastN W (pad ++ pre)) in N.lor sm mask =? sm.

    Local Notation step := (astep hasher h_init_done h_init h_input (h_matches mask) limit mn).
    Local Notation auto := (auto_chunks hasher h_init_done h_init h_input (h_matches mask) limit mn mx).
    Local Notation bytes := (Forall (fun b => b < 256)).

    Lemma limit_cases : (W <= mn /\ limit = mn - W) \/ (mn < W /\ limit = 0).
    Proof. unfold limit. destruct (N.leb_spec W mn); [left|right]; split; auto. Qed.

    Lemma feed_init_done xs : bytes xs ->
      h_init_done (feed xs) = match c_algo cfg with ABuzHash => W <=? lenN xs | _ => true end.
    Proof.
      intros HF. unfold feed. destruct (c_algo cfg); cbn [h_init_done]; try reflexivity.
      apply bh_full_iff; assumption.
    Qed.

    Lemma feed_init xs b : h_init_done (feed xs) = false -> h_init (feed xs) b = feed (xs ++ [b]).
    Proof.
      unfold feed. destruct (c_algo cfg); cbn [h_init_done h_init]; try discriminate.
      intros F. rewrite bh_feed_snoc. unfold bh_step. rewrite F. reflexivity.
    Qed.

    Lemma feed_input xs b : h_init_done (feed xs) = true -> h_input (feed xs) b = feed (xs ++ [b]).
    Proof.
      unfold feed. destruct (c_algo cfg); cbn [h_init_done h_input]; intros F.
      - rewrite bh_feed_snoc. unfold bh_step. rewrite F. reflexivity.
      - rewrite rs_feed_snoc. reflexivity.
      - rewrite rs_feed_snoc. reflexivity.
    Qed.

    Lemma feed_sum xs pre : bytes xs -> h_init_done (feed xs) = true ->
      lastN W (pad ++ xs) = lastN W (pad ++ pre) ->
      h_sum (feed xs) = pure_sum cfg (lastN W (pad ++ pre)).
    Proof.
      intros HF Hd E. rewrite feed_init_done in Hd by exact HF. rewrite <- E.
      unfold feed, pure_sum. destruct (c_algo cfg); cbn [h_sum].
      - apply N.leb_le in Hd. destruct (bh_pure_correct W xs HW1 Hd HF) as [_ S].
        rewrite S. rewrite lastN_app_r by exact Hd. reflexivity.
      - apply rs_pure_correct; assumption.
      - apply rs_pure_correct; assumption.
    Qed.

    (* the automaton invariant: [xs] = bytes fed to the hasher so far, [pre] = stream consumed so far,
       [off] = bytes of the current chunk consumed so far *)
    Definition Inv (xs : list N) (off : N) (pre : list N) : Prop :=
      bytes xs /\ lenN xs <= lenN pre /\
      (xs = pre \/
       (0 < limit /\ (c_algo cfg = ABuzHash -> W <= lenN xs) /\
        exists fresh, off <= fresh + (limit - 1) /\ fresh <= lenN xs /\ fresh <= lenN pre /\
                      lastN fresh xs = lastN fresh pre)).

    Lemma Inv_off0 xs off pre : Inv xs off pre -> Inv xs 0 pre.
    Proof.
      intros [HF [Hl HD]]. split; [exact HF|]. split; [exact Hl|].
      destruct HD as [E|[L0 [HB [fresh [H1 [H2 [H3 H4]]]]]]]; [left; exact E|right].
      split; [exact L0|]. split; [exact HB|]. exists fresh. repeat split; try assumption. lia.
    Qed.

    Lemma Inv_feed xs off pre b : b < 256 -> Inv xs off pre -> Inv (xs ++ [b]) (off + 1) (pre ++ [b]).
    Proof.
      intros Hb [HF [Hl HD]]. split; [apply Forall_app; split; [exact HF|constructor; [exact Hb|constructor]]|].
      rewrite !lenN_app. cbn [lenN]. split; [lia|].
      destruct HD as [E|[L0 [HB [fresh [H1 [H2 [H3 H4]]]]]]]; [left; now rewrite E|right].
      split; [exact L0|]. split; [intros Ha; specialize (HB Ha); lia|].
      exists (fresh + 1). split; [lia|]. split; [lia|]. split; [lia|].
      rewrite !lastN_snoc by assumption. now rewrite H4.
    Qed.

    Lemma Inv_window xs off pre : Inv xs off pre -> mn <= off ->
      lastN W (pad ++ xs) = lastN W (pad ++ pre).
    Proof.
      intros [HF [Hl HD]] Hoff.
      destruct HD as [E|[L0 [HB [fresh [H1 [H2 [H3 H4]]]]]]]; [now rewrite E|].
      destruct limit_cases as [[C1 C2]|[C1 C2]]; [|lia].
      rewrite !lastN_app_r by lia. apply (lastN_le xs pre W fresh); try assumption. lia.
    Qed.

    Lemma tested_false_min s p : p < mn -> tested cfg false s p = false.
    Proof. intros H. unfold tested. replace (N.max mn 1 <=? p) with false; [reflexivity|]. symmetry. apply N.leb_gt. lia. Qed.

    Lemma astep_spec xs off pre s b : Inv xs off pre -> lenN pre = s + off -> b < 256 ->
      exists xs', step (feed xs) off b = (feed xs', tested cfg false s (off + 1) && pmatch (pre ++ [b]))
                  /\ Inv xs' (off + 1) (pre ++ [b]).
    Proof.
      intros HI Hpre Hb. pose proof HI as [HF [Hlen HD]]. unfold astep.
      pose proof (feed_init_done xs HF) as Hdone.
      destruct (h_init_done (feed xs)) eqn:Hd; cbn [negb].
      2: { (* the byte goes to init: BuzHash, fewer than W bytes of the stream seen *)
        destruct (c_algo cfg) eqn:Ha; try discriminate. symmetry in Hdone. apply N.leb_gt in Hdone.
        assert (E : xs = pre).
        { destruct HD as [E|[_ [HB _]]]; [exact E|]. specialize (HB eq_refl). lia. }
        subst xs. exists (pre ++ [b]). split.
        - rewrite feed_init by exact Hd. f_equal.
          assert (T : tested cfg false s (off + 1) = false).
          { unfold tested. rewrite Ha. replace (W + 1 <=? s + (off + 1)) with false;
              [apply andb_false_r|]. symmetry. apply N.leb_gt. lia. }
          rewrite T. reflexivity.
        - apply Inv_feed; assumption. }
      assert (Hfull : c_algo cfg = ABuzHash -> W <= lenN xs).
      { intros Ha. rewrite Ha in Hdone. symmetry in Hdone. apply N.leb_le in Hdone. exact Hdone. }
      destruct ((0 <? limit) && (off <? limit - 1)) eqn:Hskip.
      - (* skipped *)
        apply andb_true_iff in Hskip. destruct Hskip as [S0 S1]. apply N.ltb_lt in S0, S1.
        destruct limit_cases as [[C1 C2]|[C1 C2]]; [|lia].
        exists xs. split.
        + rewrite tested_false_min by lia. reflexivity.
        + split; [exact HF|]. rewrite lenN_app. cbn [lenN]. split; [lia|]. right.
          split; [exact S0|]. split; [exact Hfull|]. exists 0.
          split; [lia|]. split; [lia|]. split; [lia|]. now rewrite !lastN_0.
      - destruct (N.ltb_spec off (mn - 1)) as [L|L].
        + (* hashed, not tested *)
          exists (xs ++ [b]). split.
          * rewrite feed_input by exact Hd. rewrite tested_false_min by lia. reflexivity.
          * apply Inv_feed; assumption.
        + (* hashed and tested *)
          exists (xs ++ [b]). pose proof (Inv_feed xs off pre b Hb HI) as HI'. split; [|exact HI'].
          rewrite feed_input by exact Hd. f_equal.
          assert (T : tested cfg false s (off + 1) = true).
          { unfold tested. apply andb_true_iff. split; [apply N.leb_le; lia|].
            destruct (c_algo cfg) eqn:Ha; try reflexivity. specialize (Hfull eq_refl). apply N.leb_le. lia. }
          rewrite T. cbn [andb]. unfold h_matches, pmatch. cbv zeta.
          assert (Hd' : h_init_done (feed (xs ++ [b])) = true).
          { destruct HI' as [HF' _]. rewrite feed_init_done by exact HF'.
            destruct (c_algo cfg) eqn:Ha; try reflexivity. specialize (Hfull eq_refl).
            apply N.leb_le. rewrite lenN_app. lia. }
          rewrite (feed_sum (xs ++ [b]) (pre ++ [b])); [reflexivity| |exact Hd'|].
          { destruct HI' as [HF' _]. exact HF'. }
          apply (Inv_window _ (off + 1)); [exact HI'|lia].
    Qed.

    Section Data.
      Variable data : list N.
      Hypothesis Hdata : bytes data.
      Local Notation total := (lenN data).
      Local Notation scanC := (spec_scan cfg false (S (length data)) data total).
      Local Notation chunksC := (spec_chunks_from cfg false (S (length data)) data total).

      Definition cond (s p : N) : bool :=
        (mx <=? p) || (tested cfg false s p && pure_match cfg data (s + p)).
      Definition scan_next (s p : N) : N := if total <=? s + p then p else scanC s (p + 1).
      Definition nextp (s off : N) : N := if cond s (off + 1) then off + 1 else scan_next s (off + 1).

      Lemma scanC_unfold s p : 1 <= p ->
        scanC s p = if cond s p then p else scan_next s p.
      Proof.
        intros Hp. cbn [spec_scan]. fold (cond s p). destruct (cond s p); [reflexivity|].
        unfold scan_next. destruct (N.leb_spec total (s + p)) as [L|L]; [reflexivity|].
        apply spec_scan_fuel; rewrite lenN_length in *; lia.
      Qed.

      Lemma scan_next_unfold s off : s + off < total -> scan_next s off = nextp s off.
      Proof.
        intros H. unfold scan_next at 1. destruct (N.leb_spec total (s + off)) as [L|L]; [lia|].
        rewrite scanC_unfold by lia. reflexivity.
      Qed.

      Lemma chunksC_nil s : total <= s -> chunksC s = [].
      Proof. intros H. cbn [spec_chunks_from]. destruct (N.leb_spec total s); [reflexivity|lia]. Qed.

      Lemma chunks_S f s : spec_chunks_from cfg false (S f) data total s =
        if total <=? s then []
        else let p := scanC s 1 in (s, p) :: spec_chunks_from cfg false f data total (s + p).
      Proof. reflexivity. Qed.

      Lemma chunksC_unfold s : s < total -> chunksC s = (s, nextp s 0) :: chunksC (s + nextp s 0).
      Proof.
        intros H. rewrite (chunks_S (length data) s).
        destruct (N.leb_spec total s) as [L|L]; [lia|]. cbv zeta.
        assert (E : scanC s 1 = nextp s 0) by (rewrite scanC_unfold by lia; reflexivity).
        rewrite E. f_equal.
        assert (G : 1 <= nextp s 0) by (rewrite <- E; apply spec_scan_ge).
        apply spec_chunks_from_fuel; rewrite lenN_length in *; lia.
      Qed.

      Lemma pure_match_pre e pre : takeN e data = pre -> pure_match cfg data e = pmatch pre.
      Proof. intros E. unfold pure_match, pmatch, win_at, pad, mask. rewrite E. reflexivity. Qed.

      Lemma auto_spec_gen : forall rest pre xs s off,
        data = pre ++ rest -> lenN pre = s + off -> Inv xs off pre -> off < mx ->
        auto (feed xs) s off rest =
          if off =? 0 then chunksC s else (s, scan_next s off) :: chunksC (s + scan_next s off).
      Proof.
        induction rest as [|b r IH]; intros pre xs s off Hd Hp HI Hoff.
        - rewrite app_nil_r in Hd. subst pre. cbn [auto_chunks].
          destruct (N.eqb_spec off 0) as [E|E].
          + symmetry. apply chunksC_nil. lia.
          + unfold scan_next. destruct (N.leb_spec total (s + off)) as [L|L]; [|lia].
            rewrite chunksC_nil by lia. reflexivity.
        - assert (Hb : b < 256).
          { rewrite Hd in Hdata. apply Forall_app in Hdata. destruct Hdata as [_ H]. now inversion H. }
          destruct (astep_spec xs off pre s b HI Hp Hb) as [xs' [Hst HI']].
          cbn [auto_chunks]. rewrite Hst.
          assert (Hd' : data = (pre ++ [b]) ++ r) by (rewrite <- app_assoc; exact Hd).
          assert (Hp' : lenN (pre ++ [b]) = s + (off + 1)) by (rewrite lenN_app; cbn [lenN]; lia).
          assert (Htot : s + off < total) by (rewrite Hd, lenN_app; cbn [lenN]; lia).
          assert (Hpm : pure_match cfg data (s + (off + 1)) = pmatch (pre ++ [b])).
          { apply pure_match_pre. rewrite Hd'. apply takeN_app_exact. exact Hp'. }
          rewrite <- Hpm. rewrite orb_comm. fold (cond s (off + 1)).
          assert (Hspec : (if off =? 0 then chunksC s
                           else (s, scan_next s off) :: chunksC (s + scan_next s off))
                          = (s, nextp s off) :: chunksC (s + nextp s off)).
          { destruct (N.eqb_spec off 0) as [E|E].
            - subst off. rewrite N.add_0_r in Htot. apply chunksC_unfold. exact Htot.
            - rewrite scan_next_unfold by exact Htot. reflexivity. }
          rewrite Hspec. unfold nextp.
          destruct (cond s (off + 1)) eqn:HB.
          + rewrite (IH (pre ++ [b]) xs' (s + (off + 1)) 0 Hd'); [reflexivity|lia| |lia].
            eapply Inv_off0; exact HI'.
          + assert (Hlt : off + 1 < mx).
            { unfold cond in HB. apply orb_false_iff in HB. destruct HB as [HB _]. apply N.leb_gt in HB. exact HB. }
            rewrite (IH (pre ++ [b]) xs' s (off + 1) Hd' Hp' HI' Hlt).
            destruct (N.eqb_spec (off + 1) 0) as [E|E]; [lia|reflexivity].
      Qed.
    End Data.
  End Run.

  Theorem oneshot_is_spec : forall cfg data,
    valid_config cfg = true -> c_win cfg < 4294967296 -> Forall (fun b => b < 256) data ->
    chunk_oneshot cfg data = Ok (spec_chunks cfg false data).
  Proof.
    intros cfg data Hv HW Hdata. unfold chunk_oneshot, spec_chunks. unfold valid_config in Hv.
    destruct (c_algo cfg) eqn:Ha.
    3: { apply N.leb_le in Hv. destruct (N.eqb_spec (c_max cfg) 0) as [E|E]; [lia|reflexivity]. }
    all: repeat (apply andb_true_iff in Hv; destruct Hv as [Hv ?]);
      repeat match goal with H : (_ <=? _) = true |- _ => apply N.leb_le in H end;
      destruct (N.eqb_spec (c_win cfg) 0) as [E|E]; [lia|];
      unfold filter_mask;
      destruct (N.ltb_spec 32 (c_bits cfg)) as [B1|B1]; [lia|];
      destruct (N.eqb_spec (c_bits cfg) 0) as [B2|B2]; [lia|];
      cbn [bind]; f_equal;
      pose proof (auto_spec_gen cfg ltac:(lia) HW ltac:(lia) data Hdata data [] [] 0 0 eq_refl eq_refl) as M;
      unfold feed in M; rewrite Ha in M; apply M; [|lia];
      (split; [constructor|]; split; [cbn; lia|left; reflexivity]).
  Qed.
End WithPurity.

Print Assumptions spec_chunks_tile.
Print Assumptions spec_chunks_sizes.
Print Assumptions oneshot_is_spec.
Check oneshot_is_spec.
