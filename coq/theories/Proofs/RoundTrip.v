(* C01 (model level) and C11: the composed round trip.
   [compress_model] followed by [try_init] on the produced bytes gives an archive that reports the
   settings the writer was asked to record, and [archive_clone] on that archive with the honest file
   reader rebuilds the source.  All ingredients come from CompressConform, ProtoRoundTrip, TamperSafe.

   Assumptions (section hypotheses / premises), all stated in Section RoundTrip:
   - [H] returns 64 bytes (Blake2b-512); [opts_ok]: valid chunker configuration with u32 fields and at most 30
     filter bits (what the reader accepts), hash length 1..64, compression NONE or BROTLI, UTF-8 version and
     metadata keys, sorted metadata;
   - source and archive sizes fit u64 (the source size is a u64 field of the dictionary; it does not follow from
     the archive size when chunks are stored compressed);
   - [codec_ok]: the decompressor inverts the compressor; [trunc_inj]: the truncated hash does not collide on the
     chunks of this source (inherent to the format: descriptors are looked up by truncated hash);
   - [few_chunks]: the number of chunks fits u32 (the rebuild order is a list of u32).
   What the reader reports for the chunker configuration is [cfg_read (o_cfg o)]: equal to [o_cfg o] for the
   rolling-hash algorithms; for FixedSize only [c_max] is recorded (bits = min = window = 0). *)
From Coq Require Import NArith List Bool Lia.
From Bita Require Import Model.Base Gen.Generated Model.Chunker Model.ChunkIndex Model.CloneOutput Model.CloneSpec
                         Model.Proto Model.Archive Model.Compress Model.CloneArchive.
From Bita Require Proofs.BoundaryRule.
From Bita Require Import Proofs.CloneCorrect Proofs.TamperSafe Proofs.ProtoRoundTrip Proofs.CompressConform.
Import ListNotations.
Open Scope N_scope.

(* ================================================================== *)
(* 0. small facts                                                      *)
(* ================================================================== *)
Lemma rt_ok_inj {A} : forall (a b : A), Ok a = Ok b -> a = b.
Proof. intros a b E. congruence. Qed.

Lemma rt_lenN_app {A} (l1 l2 : list A) : lenN (l1 ++ l2) = lenN l1 + lenN l2.
Proof. induction l1 as [|x l1 IH]; cbn [lenN app]; lia. Qed.

Lemma rt_takeN_all {A} : forall (l : list A) n, lenN l <= n -> takeN n l = l.
Proof.
  induction l as [|x l IH]; intros n Hn; cbn [takeN lenN] in *; [reflexivity|].
  destruct (N.eqb_spec n 0) as [E|E]; [lia|]. f_equal. apply IH. lia.
Qed.

Lemma rt_takeN_takeN {A} : forall (l : list A) a n, a <= n -> takeN a (takeN n l) = takeN a l.
Proof.
  induction l as [|x l IH]; intros a n Hn; cbn [takeN]; [reflexivity|].
  destruct (N.eqb_spec n 0) as [E|E].
  - cbn [takeN]. destruct (N.eqb_spec a 0) as [E'|E']; [reflexivity|lia].
  - cbn [takeN]. destruct (N.eqb_spec a 0) as [E'|E']; [reflexivity|]. f_equal. apply IH. lia.
Qed.

Lemma rt_takeN_Forall {A} (P : A -> Prop) : forall (l : list A) n, Forall P l -> Forall P (takeN n l).
Proof.
  induction l as [|x l IH]; intros n Hl; cbn [takeN]; [constructor|].
  inversion Hl as [|y l' Hx Hr]; subst.
  destruct (n =? 0); [constructor|]. constructor; [exact Hx|]. apply IH. exact Hr.
Qed.

Lemma rt_takeN_app_exact {A} (pre rest : list A) n : lenN pre = n -> takeN n (pre ++ rest) = pre.
Proof. apply BoundaryRule.takeN_app_exact. Qed.

Lemma rt_takeN_app_le {A} : forall (pre rest : list A) n, n <= lenN pre -> takeN n (pre ++ rest) = takeN n pre.
Proof.
  induction pre as [|x pre IH]; intros rest n Hn; cbn [lenN app takeN] in *.
  - replace n with 0 by lia. destruct rest; reflexivity.
  - destruct (N.eqb_spec n 0) as [E|E]; [reflexivity|]. f_equal. apply IH. lia.
Qed.

Lemma rt_slice_app_l : forall (pre rest : list N) a b, b <= lenN pre -> slice (pre ++ rest) a b = slice pre a b.
Proof.
  intros pre rest a b Hb. unfold slice.
  destruct (N.le_gt_cases a (lenN pre)) as [Ha|Ha].
  - rewrite BoundaryRule.dropN_app_l by exact Ha. apply rt_takeN_app_le. rewrite cc_lenN_dropN. lia.
  - replace (b - a) with 0 by lia.
    assert (Z : forall (l : list N), takeN 0 l = []) by (destruct l; reflexivity).
    rewrite !Z. reflexivity.
Qed.

Lemma rt_list_eqb_refl : forall a, list_eqb a a = true.
Proof. intros a. apply cc_list_eqb. reflexivity. Qed.

Lemma rt_nthN_app_r {A} : forall (l r : list A) i, nthN (lenN l + i) (l ++ r) = nthN i r.
Proof.
  induction l as [|x l IH]; intros r i; cbn [lenN app nthN].
  - now rewrite N.add_0_l.
  - destruct (N.eqb_spec (N.succ (lenN l) + i) 0) as [E|E]; [lia|].
    replace (N.pred (N.succ (lenN l) + i)) with (lenN l + i) by lia. apply IH.
Qed.

Lemma rt_nthN_split {A} : forall (l : list A) i x, nthN i l = Some x ->
  exists pre post, l = pre ++ x :: post /\ lenN pre = i.
Proof.
  induction l as [|y l IH]; intros i x Hn; cbn [nthN] in Hn; [discriminate|].
  destruct (N.eqb_spec i 0) as [E|E].
  - inversion Hn; subst. exists [], l. split; reflexivity.
  - apply IH in Hn. destruct Hn as (pre & post & El & Hl). exists (y :: pre), post. subst l.
    split; [reflexivity|]. cbn [lenN]. lia.
Qed.

(* ---------- little-endian numbers ---------- *)
Lemma rt_le_value_bytes : forall k x, le_value (le_bytes k x) = x mod 2 ^ (8 * N.of_nat k).
Proof.
  induction k as [|k IH]; intros x; cbn [le_bytes le_value].
  - cbn. now rewrite N.mod_1_r.
  - rewrite IH. change 255 with (N.ones 8). rewrite N.land_ones, N.shiftr_div_pow2.
    replace (8 * N.of_nat (S k)) with (8 + 8 * N.of_nat k) by lia.
    rewrite N.pow_add_r. change (2 ^ 8) with 256.
    rewrite N.mod_mul_r; [reflexivity|lia|]. apply N.pow_nonzero. lia.
Qed.

Lemma rt_le_value_bytes8 : forall x, x < 18446744073709551616 -> le_value (le_bytes 8 x) = x.
Proof. intros x Hx. rewrite rt_le_value_bytes. apply N.mod_small. exact Hx. Qed.

(* ================================================================== *)
(* 1. the reader on a freshly built header                             *)
(* ================================================================== *)
Section Reader.
  Variable H : list N -> list N.
  Hypothesis H_len : forall x, lenN (H x) = 64.

  Definition hsize (n : N) : N := 14 + n + 8 + 64.

  Definition hprefix (dictb : list N) : list N :=
    ARCHIVE_MAGIC ++ le_bytes 8 (lenN dictb) ++ dictb ++ le_bytes 8 (hsize (lenN dictb)).

  Lemma build_header_shape : forall dictb,
    build_header H dictb None = ARCHIVE_MAGIC ++ le_bytes 8 (lenN dictb) ++ dictb
                                 ++ le_bytes 8 (hsize (lenN dictb)) ++ H (hprefix dictb).
  Proof.
    intros dictb. unfold build_header, hprefix. cbv zeta.
    assert (E0 : lenN (ARCHIVE_MAGIC ++ le_bytes 8 (lenN dictb) ++ dictb) + TRAILER_OFFSET_SIZE + TRAILER_HASH_SIZE
                 = hsize (lenN dictb)).
    { rewrite !rt_lenN_app. change (lenN (le_bytes 8 (lenN dictb))) with 8.
      change (lenN ARCHIVE_MAGIC) with 6. unfold hsize. change TRAILER_OFFSET_SIZE with 8.
      change TRAILER_HASH_SIZE with 64. lia. }
    rewrite E0. rewrite <- !app_assoc. reflexivity.
  Qed.

  Lemma lenN_build_header : forall dictb, lenN (build_header H dictb None) = hsize (lenN dictb).
  Proof.
    intros dictb. rewrite build_header_shape. rewrite !rt_lenN_app, H_len.
    change (lenN (le_bytes 8 (lenN dictb))) with 8. change (lenN (le_bytes 8 (hsize (lenN dictb)))) with 8.
    change (lenN ARCHIVE_MAGIC) with 6. unfold hsize. lia.
  Qed.

  Lemma lenN_hprefix : forall dictb, lenN (hprefix dictb) = 14 + lenN dictb + 8.
  Proof.
    intros dictb. unfold hprefix. rewrite !rt_lenN_app.
    change (lenN (le_bytes 8 (lenN dictb))) with 8. change (lenN (le_bytes 8 (hsize (lenN dictb)))) with 8.
    change (lenN ARCHIVE_MAGIC) with 6. lia.
  Qed.

  Theorem try_init_built : forall dictb data d descs p c cm cfg,
    lenN (build_header H dictb None ++ data) < 18446744073709551616 ->
    decode_dict dictb = Some d ->
    abs_descs (hsize (lenN dictb)) (dict_descs d) = Ok descs ->
    dict_params d = Some p ->
    existsb (fun i => lenN descs <=? i) (dict_order d) = false ->
    dict_comp d = Some c -> comp_of c = Ok cm -> config_of p = Ok cfg ->
    try_init H (file_read_at (build_header H dictb None ++ data)) =
      Ok {| a_descs := descs; a_order := dict_order d; a_header_size := hsize (lenN dictb);
            a_header_checksum := H (hprefix dictb);
            a_comp := cm; a_version := dict_version d; a_data_offset := hsize (lenN dictb); a_total := dict_total d;
            a_source_checksum := takeN HASH_MAX_LEN (dict_checksum d); a_cfg := cfg; a_hashlen := p_hashlen p;
            a_meta := dict_meta d |}.
  Proof.
    intros dictb data d descs p c cm cfg Hlen Hdec Habs Hp Hex Hc Hcm Hcfg.
    pose proof (lenN_build_header dictb) as Lh.
    set (n := lenN dictb) in *.
    set (L1 := le_bytes 8 n). set (L2 := le_bytes 8 (hsize n)).
    set (HP := H (hprefix dictb)).
    assert (LL1 : lenN L1 = 8) by reflexivity. assert (LL2 : lenN L2 = 8) by reflexivity.
    assert (LHP : lenN HP = 64) by apply H_len.
    assert (LM : lenN ARCHIVE_MAGIC = 6) by reflexivity.
    set (f := build_header H dictb None ++ data) in *.
    assert (Lf : hsize n <= lenN f) by (unfold f; rewrite rt_lenN_app, Lh; lia).
    assert (Ef : f = ARCHIVE_MAGIC ++ L1 ++ dictb ++ L2 ++ HP ++ data).
    { unfold f. rewrite build_header_shape. rewrite <- !app_assoc. reflexivity. }
    unfold hsize in Lf.
    assert (Hn : n < 18446744073709551616) by lia.
    (* the two reads *)
    assert (R0 : file_read_at f 0 PRE_HEADER_SIZE = Ok (ARCHIVE_MAGIC ++ L1)).
    { unfold file_read_at. change PRE_HEADER_SIZE with 14.
      destruct (N.leb_spec (0 + 14) (lenN f)) as [_|Hgt]; [|lia]. f_equal.
      rewrite Ef. rewrite (app_assoc ARCHIVE_MAGIC L1). apply (cc_slice_app [] (ARCHIVE_MAGIC ++ L1)).
      - reflexivity.
      - rewrite rt_lenN_app. lia. }
    assert (R1 : file_read_at f PRE_HEADER_SIZE (n + TRAILER_OFFSET_SIZE + TRAILER_HASH_SIZE)
                 = Ok (dictb ++ L2 ++ HP)).
    { unfold file_read_at. change PRE_HEADER_SIZE with 14. change TRAILER_OFFSET_SIZE with 8.
      change TRAILER_HASH_SIZE with 64.
      destruct (N.leb_spec (14 + (n + 8 + 64)) (lenN f)) as [_|Hgt]; [|lia]. f_equal.
      rewrite Ef. rewrite (app_assoc ARCHIVE_MAGIC L1).
      replace (dictb ++ L2 ++ HP ++ data) with ((dictb ++ L2 ++ HP) ++ data) by (rewrite <- !app_assoc; reflexivity).
      apply cc_slice_app.
      - rewrite rt_lenN_app. lia.
      - rewrite !rt_lenN_app. fold n. lia. }
    set (hdr := (ARCHIVE_MAGIC ++ L1) ++ dictb ++ L2 ++ HP).
    assert (Lhdr : lenN hdr = hsize n).
    { unfold hdr. rewrite !rt_lenN_app. fold n. unfold hsize. lia. }
    assert (Ehp : takeN (14 + n + 8) hdr = hprefix dictb).
    { unfold hdr, hprefix. fold n. fold L1. fold L2.
      replace ((ARCHIVE_MAGIC ++ L1) ++ dictb ++ L2 ++ HP) with ((ARCHIVE_MAGIC ++ L1 ++ dictb ++ L2) ++ HP)
        by (rewrite <- !app_assoc; reflexivity).
      apply rt_takeN_app_exact. rewrite !rt_lenN_app. fold n. lia. }
    assert (Esum : slice hdr (14 + n + 8) (14 + n + 8 + 64) = HP).
    { unfold hdr. rewrite <- (app_nil_r HP) at 1.
      replace ((ARCHIVE_MAGIC ++ L1) ++ dictb ++ L2 ++ HP ++ []) with ((ARCHIVE_MAGIC ++ L1 ++ dictb ++ L2) ++ HP ++ [])
        by (rewrite <- !app_assoc; reflexivity).
      apply cc_slice_app; [rewrite !rt_lenN_app; fold n; lia|lia]. }
    assert (Edict : slice hdr 14 (14 + n) = dictb).
    { unfold hdr. apply cc_slice_app; [rewrite rt_lenN_app; lia|fold n; lia]. }
    assert (Eoff : slice hdr (14 + n) (14 + n + 8) = L2).
    { unfold hdr. rewrite (app_assoc (ARCHIVE_MAGIC ++ L1) dictb).
      apply cc_slice_app; [rewrite !rt_lenN_app; fold n; lia|lia]. }
    assert (Epre6 : takeN 6 (ARCHIVE_MAGIC ++ L1) = ARCHIVE_MAGIC) by (apply rt_takeN_app_exact; reflexivity).
    assert (Edsz : slice (ARCHIVE_MAGIC ++ L1) 6 PRE_HEADER_SIZE = L1).
    { rewrite <- (app_nil_r L1) at 1. apply cc_slice_app; [reflexivity|reflexivity]. }
    assert (V1 : le_value L1 = n) by (apply rt_le_value_bytes8; exact Hn).
    assert (V2 : le_value L2 = hsize n) by (apply rt_le_value_bytes8; unfold hsize; lia).
    unfold try_init. rewrite R0. cbn [bind]. rewrite Epre6.
    change (list_eqb ARCHIVE_MAGIC ARCHIVE_MAGIC) with true. cbn [orb negb].
    rewrite Edsz, V1.
    destruct (N.ltb_spec (n + TRAILER_OFFSET_SIZE + TRAILER_HASH_SIZE + PRE_HEADER_SIZE) M64) as [_|Hge];
      [|exfalso; revert Hge; change TRAILER_OFFSET_SIZE with 8; change TRAILER_HASH_SIZE with 64;
        change PRE_HEADER_SIZE with 14; unfold M64; lia].
    cbn [negb]. rewrite R1. cbn [bind]. fold hdr.
    change PRE_HEADER_SIZE with 14. change TRAILER_OFFSET_SIZE with 8. change TRAILER_HASH_SIZE with 64.
    rewrite Lhdr.
    destruct (N.eqb_spec (hsize n) (14 + (n + 8 + 64))) as [_|Hne]; [|exfalso; unfold hsize in Hne; lia].
    cbn [negb]. rewrite Esum, Ehp. fold HP. rewrite rt_list_eqb_refl. cbn [negb].
    rewrite Edict, Hdec, Eoff, V2, Habs. cbn [bind]. rewrite Hp, Hex, Hc, Hcm. cbn [bind]. rewrite Hcfg. cbn [bind].
    reflexivity.
  Qed.
End Reader.

(* ================================================================== *)
(* 2. what the writer produces, in functional form                     *)
(* ================================================================== *)
Section Writer.
  Variable H : list N -> list N.
  Variable comp : list N -> list N.

  Fixpoint mkdescs (o : copts) (uniq : list (list N)) (off : N) : list descriptor :=
    match uniq with
    | [] => []
    | x :: r => {| d_checksum := takeN (o_hashlen o) (H x); d_archive_size := w32 (lenN (stored comp o x));
                   d_archive_offset := off; d_source_size := w32 (lenN x) |}
                :: mkdescs o r (off + lenN (stored comp o x))
    end.

  Lemma descriptors_mk : forall o up off ds bytes,
    Forall (fun p => fst p = H (snd p)) up -> descriptors comp o up off = (ds, bytes) ->
    ds = mkdescs o (map snd up) off /\ bytes = concat (map (stored comp o) (map snd up)).
  Proof.
    intros o. induction up as [|[h x] r IH]; intros off ds bytes Hh Hd; cbn [descriptors] in Hd.
    - inversion Hd; subst. split; reflexivity.
    - cbv zeta in Hd.
      destruct (descriptors comp o r (off + lenN (stored comp o x))) as [ds' bytes'] eqn:ER.
      inversion Hd; subst ds bytes. clear Hd.
      inversion Hh as [|p r' Hp Hr]; subst. cbn [fst snd] in Hp. subst h.
      destruct (IH _ _ _ Hr ER) as (E1 & E2). subst ds' bytes'.
      cbn [map snd mkdescs concat]. split; reflexivity.
  Qed.

  Theorem compress_dict_facts : forall src o d data,
    compress_dict H comp src o = Ok (d, data) ->
    exists chunks uniq order,
      chunk_oneshot (o_cfg o) src = Ok chunks
      /\ NoDup (map H uniq)
      /\ (forall x, In x uniq -> In x (chunk_datas src chunks))
      /\ Forall2 (fun i dd => exists x, nthN i uniq = Some x /\ H x = H dd) order (chunk_datas src chunks)
      /\ first_occ_ordered 0 order /\ seen_after 0 order = lenN uniq
      /\ data = concat (map (stored comp o) uniq)
      /\ d = {| dict_version := o_version o; dict_checksum := H src; dict_total := lenN src;
                dict_params := Some (params_of (o_cfg o) (o_hashlen o));
                dict_comp := Some (comp_record (o_comp o));
                dict_order := map w32 order; dict_descs := mkdescs o uniq 0; dict_meta := o_meta o |}.
  Proof.
    intros src o d data Hc. unfold compress_dict in Hc.
    destruct (chunk_oneshot (o_cfg o) src) as [chunks| | |] eqn:EC; cbn [bind] in Hc; try discriminate.
    cbv zeta in Hc. fold (chunk_datas src chunks) in Hc.
    destruct (dedup H (chunk_datas src chunks) [] []) as [up order] eqn:ED.
    destruct (descriptors comp o up 0) as [descs bytes] eqn:EDS.
    apply rt_ok_inj in Hc.
    pose proof (dedup_inv H _ _ _ _ _ _ (dd_inv_init H) ED) as Inv. cbn [app] in Inv.
    destruct Inv as [I1 I2 I3 I4 I5 I6].
    destruct (descriptors_mk _ _ _ _ _ I1 EDS) as (E1 & E2).
    exists chunks, (map snd up), order.
    split; [reflexivity|]. split.
    { replace (map H (map snd up)) with (map fst up); [exact I2|].
      rewrite map_map. apply map_ext_in. intros p Hp. rewrite Forall_forall in I1. now apply I1. }
    split.
    { intros x Hx. apply in_map_iff in Hx. destruct Hx as (p & E & Hp). subst x.
      rewrite Forall_forall in I3. now apply I3. }
    split; [exact I4|]. split; [exact I5|]. split; [rewrite cc_lenN_map; exact I6|].
    split; [congruence|]. rewrite <- E1. congruence.
  Qed.
End Writer.

(* ================================================================== *)
(* 2b. an index built from a list of occurrences in source order       *)
(* ================================================================== *)
Lemma rt_insert_sorted_In : forall o l x, In x (insert_sorted o l) <-> x = o \/ In x l.
Proof.
  intros o. induction l as [|y l IH]; intros x; cbn [insert_sorted].
  - cbn [In]. intuition.
  - destruct (N.ltb_spec o y) as [L|L]; [cbn [In]; intuition|].
    destruct (N.eqb_spec o y) as [E|E].
    + subst y. cbn [In]. intuition.
    + cbn [In]. rewrite IH. intuition.
Qed.

Lemma rt_insert_sorted_ss : forall o l, strictly_sorted l -> strictly_sorted (insert_sorted o l).
Proof.
  intros o. induction l as [|y l IH]; intros Hs; cbn [insert_sorted].
  - cbn. split; exact I.
  - destruct (N.ltb_spec o y) as [L|L].
    + apply ss_cons. split; [|exact Hs]. apply ss_cons in Hs. destruct Hs as [Hy _].
      intros z [Hz|Hz]; [subst; exact L|]. specialize (Hy z Hz). lia.
    + destruct (N.eqb_spec o y) as [E|E]; [exact Hs|].
      apply ss_cons in Hs. destruct Hs as [Hy Hs]. apply ss_cons. split; [|apply IH; exact Hs].
      intros z Hz. apply rt_insert_sorted_In in Hz. destruct Hz as [Hz|Hz]; [subst; lia|apply Hy; exact Hz].
Qed.

Lemma rt_insert_sorted_nonempty : forall o l, insert_sorted o l <> [].
Proof.
  intros o l E. assert (Hin : In o (insert_sorted o l)) by (apply rt_insert_sorted_In; now left).
  rewrite E in Hin. destruct Hin.
Qed.

Lemma rt_ci_get_add : forall idx k s o k',
  ci_get (ci_add idx k s [o]) k' =
    if k' =? k then Some {| l_size := match ci_get idx k with Some l => l_size l | None => s end;
                            l_offs := insert_sorted o (match ci_get idx k with Some l => l_offs l | None => [] end) |}
    else ci_get idx k'.
Proof.
  induction idx as [|[k0 l0] r IH]; intros k s o k'; cbn [ci_add ci_get fold_left].
  - destruct (N.eqb_spec k' k); reflexivity.
  - destruct (N.eqb_spec k k0) as [E|E]; cbn [ci_get].
    + subst k0. destruct (N.eqb_spec k' k); reflexivity.
    + rewrite IH. destruct (N.eqb_spec k' k) as [E1|E1].
      * subst k'. destruct (N.eqb_spec k k0); [contradiction|reflexivity].
      * reflexivity.
Qed.

Lemma rt_keys_add : forall idx k s o k', In k' (keys (ci_add idx k s [o])) <-> k' = k \/ In k' (keys idx).
Proof.
  induction idx as [|[k0 l0] r IH]; intros k s o k'; cbn [ci_add keys].
  - cbn [In]. intuition.
  - destruct (N.eqb_spec k k0) as [E|E]; cbn [keys In].
    + subst k0. intuition.
    + rewrite IH. intuition.
Qed.

Lemma rt_keys_add_NoDup : forall idx k s o, NoDup (keys idx) -> NoDup (keys (ci_add idx k s [o])).
Proof.
  induction idx as [|[k0 l0] r IH]; intros k s o Hn; cbn [ci_add keys].
  - constructor; [intros []|constructor].
  - cbn [keys] in Hn. inversion Hn as [|x l Hx Hr]; subst.
    destruct (N.eqb_spec k k0) as [E|E]; cbn [keys].
    + constructor; assumption.
    + constructor; [|apply IH; exact Hr]. intros Hin. apply rt_keys_add in Hin.
      destruct Hin as [Hin|Hin]; [congruence|contradiction].
Qed.

Lemma rt_fold_left_ext {A B} (f g : A -> B -> A) : forall l i,
  (forall a x, In x l -> f a x = g a x) -> fold_left f l i = fold_left g l i.
Proof.
  induction l as [|x l IH]; intros i Hfg; cbn [fold_left]; [reflexivity|].
  rewrite (Hfg i x (or_introl eq_refl)). apply IH. intros a y Hy. apply Hfg. now right.
Qed.

Section IndexBuild.
  Variable D : N -> list N.

  Fixpoint occs_from (order : list N) (off : N) : list (N * N) :=
    match order with
    | [] => []
    | k :: r => (off, k) :: occs_from r (off + lenN (D k))
    end.

  Definition add_occ (idx : index) (oc : N * N) : index := ci_add idx (snd oc) (lenN (D (snd oc))) [fst oc].

  Record ib_inv (idx : index) (occs : list (N * N)) : Prop := {
    ib_nodup : NoDup (keys idx);
    ib_loc : forall k l, ci_get idx k = Some l ->
               l_size l = lenN (D k) /\ l_offs l <> [] /\ strictly_sorted (l_offs l);
    ib_occ : forall k o, occ idx k o <-> In (o, k) occs }.

  Lemma ib_init : ib_inv [] [].
  Proof.
    constructor.
    - constructor.
    - intros k l Hg. discriminate.
    - intros k o. split; [intros (l & Hg & _); discriminate|intros []].
  Qed.

  Lemma ib_step : forall idx occs oc, ib_inv idx occs -> ib_inv (add_occ idx oc) (occs ++ [oc]).
  Proof.
    intros idx occs [o k] [I1 I2 I3]. unfold add_occ. cbn [fst snd]. constructor.
    - apply rt_keys_add_NoDup. exact I1.
    - intros k' l Hg. rewrite rt_ci_get_add in Hg. destruct (N.eqb_spec k' k) as [E|E].
      + subst k'. inversion Hg; subst l. clear Hg. cbn [l_size l_offs].
        destruct (ci_get idx k) as [l0|] eqn:E0.
        * destruct (I2 k l0 E0) as (A & B & C). split; [exact A|]. split; [apply rt_insert_sorted_nonempty|].
          apply rt_insert_sorted_ss. exact C.
        * split; [reflexivity|]. split; [apply rt_insert_sorted_nonempty|]. cbn. split; exact I.
      + apply I2. exact Hg.
    - intros k' o'. unfold occ. split.
      + intros (l & Hg & Hin). rewrite rt_ci_get_add in Hg. apply in_or_app.
        destruct (N.eqb_spec k' k) as [E|E].
        * subst k'. inversion Hg; subst l. clear Hg. cbn [l_offs] in Hin.
          apply rt_insert_sorted_In in Hin. destruct Hin as [Hin|Hin]; [subst; right; now left|].
          left. apply I3. destruct (ci_get idx k) as [l0|] eqn:E0; [|destruct Hin].
          exists l0. split; [exact E0|exact Hin].
        * left. apply I3. exists l. split; assumption.
      + intros Hin. apply in_app_or in Hin. rewrite rt_ci_get_add. destruct Hin as [Hin|[Hin|[]]].
        * apply I3 in Hin. destruct Hin as (l & Hg & Hin). destruct (N.eqb_spec k' k) as [E|E].
          -- subst k'. rewrite Hg. eexists. split; [reflexivity|]. cbn [l_offs].
             apply rt_insert_sorted_In. now right.
          -- exists l. split; assumption.
        * inversion Hin; subst o' k'. rewrite N.eqb_refl. eexists. split; [reflexivity|]. cbn [l_offs].
          apply rt_insert_sorted_In. now left.
  Qed.

  Lemma ib_fold : forall occs idx done, ib_inv idx done -> ib_inv (fold_left add_occ occs idx) (done ++ occs).
  Proof.
    induction occs as [|oc occs IH]; intros idx done Hinv; cbn [fold_left].
    - rewrite app_nil_r. exact Hinv.
    - replace (done ++ oc :: occs) with ((done ++ [oc]) ++ occs) by (rewrite <- app_assoc; reflexivity).
      apply IH. apply ib_step. exact Hinv.
  Qed.

  (* ---------- the occurrence list of a rebuild order ---------- *)
  Lemma occs_from_ge : forall order off o k, In (o, k) (occs_from order off) -> off <= o /\ In k order.
  Proof.
    induction order as [|k0 r IH]; intros off o k Hin; cbn [occs_from] in Hin; [destruct Hin|].
    destruct Hin as [E|Hin].
    - inversion E; subst. split; [lia|now left].
    - apply IH in Hin. split; [lia|right; tauto].
  Qed.

  Lemma occs_from_holds : forall order off o k, In (o, k) (occs_from order off) ->
    off <= o /\ o - off + lenN (D k) <= lenN (concat (map D order))
    /\ takeN (lenN (D k)) (dropN (o - off) (concat (map D order))) = D k.
  Proof.
    induction order as [|k0 r IH]; intros off o k Hin; cbn [occs_from] in Hin; [destruct Hin|].
    cbn [map concat]. rewrite rt_lenN_app. destruct Hin as [E|Hin].
    - inversion E; subst o k. split; [lia|]. split; [lia|].
      replace (off - off) with 0 by lia. rewrite BoundaryRule.dropN_0. apply rt_takeN_app_exact. reflexivity.
    - apply IH in Hin. destruct Hin as (A & B & C). split; [lia|]. split; [lia|].
      replace (o - off) with (lenN (D k0) + (o - (off + lenN (D k0)))) by lia.
      rewrite BoundaryRule.dropN_app_plus. exact C.
  Qed.

  Lemma occs_from_disjoint : forall order off o1 k1 o2 k2,
    In (o1, k1) (occs_from order off) -> In (o2, k2) (occs_from order off) -> (k1, o1) <> (k2, o2) ->
    o1 + lenN (D k1) <= o2 \/ o2 + lenN (D k2) <= o1.
  Proof.
    induction order as [|k0 r IH]; intros off o1 k1 o2 k2 H1 H2 Hne; cbn [occs_from] in H1, H2; [destruct H1|].
    destruct H1 as [E1|H1]; destruct H2 as [E2|H2].
    - inversion E1; inversion E2; subst. contradiction Hne. reflexivity.
    - inversion E1; subst. apply occs_from_ge in H2. left. lia.
    - inversion E2; subst. apply occs_from_ge in H1. right. lia.
    - eapply IH; eassumption.
  Qed.

  Lemma occs_from_cover : forall order off p, off <= p -> p < off + lenN (concat (map D order)) ->
    exists k o, In (o, k) (occs_from order off) /\ o <= p < o + lenN (D k).
  Proof.
    induction order as [|k0 r IH]; intros off p Hlo Hhi; cbn [map concat lenN] in Hhi; [lia|].
    rewrite rt_lenN_app in Hhi. cbn [occs_from].
    destruct (N.lt_ge_cases p (off + lenN (D k0))) as [L|L].
    - exists k0, off. split; [now left|lia].
    - destruct (IH (off + lenN (D k0)) p L ltac:(lia)) as (k & o & Hin & Hr).
      exists k, o. split; [now right|exact Hr].
  Qed.

  Lemma occs_from_in : forall order off k, In k order -> exists o, In (o, k) (occs_from order off).
  Proof.
    induction order as [|k0 r IH]; intros off k Hin; [destruct Hin|]. cbn [occs_from].
    destruct Hin as [E|Hin].
    - subst k0. exists off. now left.
    - destruct (IH (off + lenN (D k0)) k Hin) as (o & Ho). exists o. now right.
  Qed.

  Theorem build_describes : forall order,
    Forall (fun k => 0 < lenN (D k)) order ->
    let idx := fold_left add_occ (occs_from order 0) [] in
    describes D idx (concat (map D order))
    /\ (forall k, In k (keys idx) <-> In k order).
  Proof.
    intros order Hpos idx.
    pose proof (ib_fold (occs_from order 0) [] [] ib_init) as Hinv. cbn [app] in Hinv. fold idx in Hinv.
    destruct Hinv as [I1 I2 I3]. rewrite Forall_forall in Hpos.
    assert (Hko : forall k l, ci_get idx k = Some l -> In k order).
    { intros k l Hg. destruct (I2 k l Hg) as (_ & Hne & _).
      destruct (l_offs l) as [|o0 t] eqn:El; [contradiction Hne; reflexivity|].
      assert (Ho : occ idx k o0) by (exists l; split; [exact Hg|rewrite El; now left]).
      apply I3 in Ho. apply occs_from_ge in Ho. apply Ho. }
    split.
    - unfold describes. split.
      { split; [exact I1|]. intros k l Hin. apply (In_ci_get idx k l I1) in Hin.
        destruct (I2 k l Hin) as (A & B & C). split; [exact A|]. split; [|split; assumption].
        rewrite A. apply Hpos. eapply Hko. exact Hin. }
      split.
      { intros k o Ho. apply I3 in Ho. apply occs_from_holds in Ho. destruct Ho as (_ & A & B).
        rewrite N.sub_0_r in A, B. split; assumption. }
      split.
      { intros k1 o1 k2 o2 H1 H2 Hne. apply I3 in H1. apply I3 in H2.
        eapply occs_from_disjoint; eassumption. }
      intros p Hp. destruct (occs_from_cover order 0 p) as (k & o & Hin & Hr); [lia|lia|].
      exists k, o. split; [apply I3; exact Hin|exact Hr].
    - intros k. split.
      + intros Hk. apply keys_ci_get in Hk. destruct Hk as (l & Hg). eapply Hko. exact Hg.
      + intros Hk. destruct (occs_from_in order 0 k Hk) as (o & Ho). apply I3 in Ho.
        destruct Ho as (l & Hg & _). eapply ci_get_Some_keys. exact Hg.
  Qed.
End IndexBuild.

(* ---------- every index below the number of distinct chunks occurs in the rebuild order ---------- *)
Lemma rt_seen_after_ge : forall order s, s <= seen_after s order.
Proof.
  induction order as [|i r IH]; intros s; cbn [seen_after]; [lia|].
  destruct (N.eqb_spec i s); [specialize (IH (s + 1))|specialize (IH s)]; lia.
Qed.

Lemma rt_focc_all : forall order s k,
  first_occ_ordered s order -> s <= k -> k < seen_after s order -> In k order.
Proof.
  induction order as [|i r IH]; intros s k Hf Hlo Hhi; cbn [first_occ_ordered seen_after] in *; [lia|].
  destruct Hf as [[Hi Hf]|[Hi Hf]].
  - destruct (N.eqb_spec i s) as [E|E]; [lia|]. right. eapply IH; eassumption.
  - subst i. rewrite N.eqb_refl in Hhi. destruct (N.eq_dec k s) as [E|E]; [left; congruence|].
    right. apply (IH (s + 1)); [exact Hf|lia|exact Hhi].
Qed.

(* positions i, i+1, ... of a list *)
Fixpoint nseq {A} (i : N) (l : list A) : list N :=
  match l with [] => [] | _ :: r => i :: nseq (i + 1) r end.

Lemma rt_nseq_In {A} : forall (l : list A) i k, In k (nseq i l) <-> i <= k < i + lenN l.
Proof.
  induction l as [|x l IH]; intros i k; cbn [nseq lenN In]; [lia|].
  rewrite IH. lia.
Qed.

Lemma rt_nseq_NoDup {A} : forall (l : list A) i, NoDup (nseq i l).
Proof.
  induction l as [|x l IH]; intros i; cbn [nseq]; constructor; [|apply IH].
  intros Hin. apply rt_nseq_In in Hin. lia.
Qed.

Lemma rt_NoDup_map_inv {A B} (f : A -> B) : forall l, NoDup (map f l) -> NoDup l.
Proof.
  induction l as [|x l IH]; intros Hn; [constructor|]. cbn [map] in Hn.
  inversion Hn as [|y l' Hy Hl]; subst. constructor; [|apply IH; exact Hl].
  intros Hin. apply Hy. apply in_map. exact Hin.
Qed.

Lemma rt_lenN_length {A} (l : list A) : lenN l = N.of_nat (length l).
Proof. induction l as [|x l IH]; cbn [lenN length]; lia. Qed.
(* ================================================================== *)
(* 3. the round trip                                                   *)
(* ================================================================== *)
Lemma rt_existsb_ge_false : forall n l, Forall (fun i => i < n) l -> existsb (fun i => n <=? i) l = false.
Proof.
  intros n l Hl. induction Hl as [|i l Hi Hl IH]; cbn [existsb]; [reflexivity|].
  destruct (N.leb_spec n i) as [Hle|_]; [lia|]. exact IH.
Qed.

(* what the reader reconstructs from the recorded chunker parameters *)
Definition cfg_read (c : config) : config :=
  match c_algo c with
  | AFixed => {| c_algo := AFixed; c_bits := 0; c_min := 0; c_max := c_max c; c_win := 0 |}
  | _ => c
  end.

Section RoundTrip.
  Variable H : list N -> list N.
  Variable comp : list N -> list N.
  Variable decomp : N -> list N -> option (list N).

  Hypothesis H_len : forall x, lenN (H x) = 64.
  Hypothesis H_bytes : forall x, Forall (fun b => b < 256) (H x).

  Definition opts_ok (o : copts) : Prop :=
       valid_config (o_cfg o) = true
    /\ c_max (o_cfg o) < 4294967296 /\ c_min (o_cfg o) < 4294967296 /\ c_win (o_cfg o) < 4294967296
    /\ c_bits (o_cfg o) <= 30
    /\ 1 <= o_hashlen o /\ o_hashlen o <= 64
    /\ (o_comp o = None \/ exists t l, o_comp o = Some (t, l) /\ supported_compression t = true /\ l < 4294967296)
    /\ bytes_ok (o_version o) /\ utf8_valid (o_version o) = true
    /\ Forall (fun kv => bytes_ok (fst kv) /\ utf8_valid (fst kv) = true /\ bytes_ok (snd kv)) (o_meta o)
    /\ meta_sorted (o_meta o).

  Definition codec_ok (o : copts) : Prop :=
    forall t l x, o_comp o = Some (t, l) -> decomp t (comp x) = Some x.

  Definition trunc_inj (o : copts) (src : list N) : Prop :=
    forall chunks, chunk_oneshot (o_cfg o) src = Ok chunks ->
    forall a b, In a (chunk_datas src chunks) -> In b (chunk_datas src chunks) ->
      takeN (o_hashlen o) (H a) = takeN (o_hashlen o) (H b) -> a = b.

  (* the rebuild order is a list of u32: the number of chunks of the source must fit *)
  Definition few_chunks (o : copts) (src : list N) : Prop :=
    forall chunks, chunk_oneshot (o_cfg o) src = Ok chunks -> lenN chunks < 4294967296.

  (* ---------- recorded settings are read back ---------- *)
  Lemma config_of_params : forall o, opts_ok o ->
    config_of (params_of (o_cfg o) (o_hashlen o)) = Ok (cfg_read (o_cfg o)).
  Proof.
    intros o (Hv & Hmax & Hmin & Hwin & Hbits & _). unfold params_of, cfg_read, valid_config in *.
    destruct (o_cfg o) as [algo bits mn mx win]. cbn [c_algo c_bits c_min c_max c_win] in *.
    destruct algo; unfold config_of; cbn [p_algo p_bits p_min p_max p_win].
    1,2: rewrite !(cc_w32_small) by (unfold M32; lia);
         apply andb_true_iff in Hv; destruct Hv as [Hv _];
         apply andb_true_iff in Hv; destruct Hv as [Hv Hb1];
         apply andb_true_iff in Hv; destruct Hv as [Hv Hm1];
         apply andb_true_iff in Hv; destruct Hv as [Hv Hwm];
         apply andb_true_iff in Hv; destruct Hv as [Hw1 Hmm];
         cbn [N.eqb Pos.eqb E_ChunkingAlgorithm_BUZHASH E_ChunkingAlgorithm_ROLLSUM E_ChunkingAlgorithm_FIXED_SIZE orb];
         rewrite Hw1, Hm1, Hmm, Hwm, Hb1; cbn [andb];
         destruct (N.leb_spec bits 30) as [_|Hgt]; [reflexivity|lia].
    rewrite cc_w32_small by (unfold M32; lia).
    cbn [N.eqb Pos.eqb E_ChunkingAlgorithm_FIXED_SIZE]. rewrite Hv. reflexivity.
  Qed.

  Lemma comp_of_record : forall o, opts_ok o -> comp_of (comp_record (o_comp o)) = Ok (o_comp o).
  Proof.
    intros o (_ & _ & _ & _ & _ & _ & _ & Hc & _). destruct Hc as [Hc|(t & l & Hc & Ht & _)]; rewrite Hc; [reflexivity|].
    unfold comp_of, comp_record. cbn [z_type z_level]. rewrite Ht.
    destruct (N.eqb_spec t E_CompressionType_NONE) as [->|_]; [discriminate Ht|reflexivity].
  Qed.

  Lemma params_wf_of : forall o, opts_ok o -> params_wf (params_of (o_cfg o) (o_hashlen o)).
  Proof.
    intros o (_ & _ & _ & _ & Hbits & _). unfold params_of, params_wf, u32.
    pose proof cc_w32_lt as W. unfold M32 in W.
    destruct (c_algo (o_cfg o)); cbn [p_bits p_min p_max p_win p_hashlen p_algo];
      repeat split; try apply W; try lia; reflexivity.
  Qed.

  Lemma comp_wf_of : forall o, opts_ok o -> comp_wf (comp_record (o_comp o)).
  Proof.
    intros o (_ & _ & _ & _ & _ & _ & _ & Hc & _). unfold comp_wf, u32.
    destruct Hc as [Hc|(t & l & Hc & Ht & Hl)]; rewrite Hc; cbn [comp_record z_type z_level]; split; try lia; try reflexivity.
    unfold supported_compression in Ht.
    destruct (N.eqb_spec t E_CompressionType_BROTLI) as [->|_]; [reflexivity|].
    destruct (N.eqb_spec t E_CompressionType_ZSTD) as [->|_]; [reflexivity|].
    destruct (N.eqb_spec t E_CompressionType_LZMA) as [->|_]; [reflexivity|discriminate Ht].
  Qed.

  (* ---------- the descriptor table ---------- *)
  Fixpoint adescs (o : copts) (uniq : list (list N)) (off : N) : list adesc :=
    match uniq with
    | [] => []
    | x :: r => {| ad_checksum := takeN (o_hashlen o) (H x); ad_size := lenN (stored comp o x);
                   ad_offset := off; ad_source_size := lenN x |}
                :: adescs o r (off + lenN (stored comp o x))
    end.

  Definition total_stored (o : copts) (uniq : list (list N)) : N := lenN (concat (map (stored comp o) uniq)).

  Lemma total_stored_cons : forall o x r,
    total_stored o (x :: r) = lenN (stored comp o x) + total_stored o r.
  Proof. intros o x r. unfold total_stored. cbn [map concat]. apply rt_lenN_app. Qed.

  Lemma mkdescs_wf : forall o uniq off,
    off + total_stored o uniq < 18446744073709551616 ->
    Forall desc_wf (mkdescs H comp o uniq off).
  Proof.
    intros o. induction uniq as [|x r IH]; intros off Hb; cbn [mkdescs]; [constructor|].
    rewrite total_stored_cons in Hb. constructor.
    - unfold desc_wf, u32, u64. cbn [d_checksum d_archive_size d_archive_offset d_source_size].
      pose proof cc_w32_lt as W. unfold M32 in W.
      split; [apply rt_takeN_Forall; apply H_bytes|]. split; [apply W|]. split; [lia|apply W].
    - apply IH. lia.
  Qed.

  Lemma abs_descs_mk : forall o uniq hs off,
    o_hashlen o <= 64 ->
    Forall (fun x => lenN x < 4294967296) uniq ->
    hs + off + total_stored o uniq < 18446744073709551616 ->
    abs_descs hs (mkdescs H comp o uniq off) = Ok (adescs o uniq (hs + off)).
  Proof.
    intros o uniq hs off Hhl. revert off. induction uniq as [|x r IH]; intros off Hsz Hb;
      cbn [mkdescs abs_descs adescs]; [reflexivity|].
    inversion Hsz as [|x' r' Hx Hr]; subst.
    rewrite total_stored_cons in Hb.
    cbn [d_checksum d_archive_size d_archive_offset d_source_size].
    pose proof (stored_spec comp o x) as [Hle _].
    rewrite !cc_w32_small by (unfold M32; lia).
    destruct (N.ltb_spec (hs + off) M64) as [_|Hge]; [|unfold M64 in Hge; lia].
    destruct (N.ltb_spec (hs + off + lenN (stored comp o x)) M64) as [_|Hge]; [|unfold M64 in Hge; lia].
    cbn [andb]. rewrite (IH (off + lenN (stored comp o x)) Hr) by lia. cbn [bind].
    rewrite (rt_takeN_all (takeN (o_hashlen o) (H x))).
    - rewrite N.add_assoc. reflexivity.
    - rewrite cc_lenN_takeN. unfold HASH_MAX_LEN. lia.
  Qed.

  Lemma lenN_adescs : forall o uniq off, lenN (adescs o uniq off) = lenN uniq.
  Proof. intros o. induction uniq as [|x r IH]; intros off; cbn [adescs lenN]; [reflexivity|]. now rewrite IH. Qed.

  (* ---------- sizes of the unique chunks ---------- *)
  Lemma chunk_data_sizes : forall o src chunks x,
    opts_ok o -> chunk_oneshot (o_cfg o) src = Ok chunks -> In x (chunk_datas src chunks) ->
    0 < lenN x /\ lenN x < 4294967296.
  Proof.
    intros o src chunks x Hok EC Hx. destruct Hok as (Hv & Hmax & _).
    destruct (chunk_oneshot_concat _ _ _ Hv EC) as [_ Hne]. rewrite Forall_forall in Hne.
    split; [apply Hne; exact Hx|].
    unfold chunk_datas in Hx. apply in_map_iff in Hx. destruct Hx as ([off n] & E & Hin). subst x.
    cbn [fst snd]. pose proof (chunk_oneshot_sizes _ _ _ _ _ Hv EC Hin) as Hn.
    unfold slice. rewrite cc_lenN_takeN. lia.
  Qed.

  (* ---------- compress, then try_init ---------- *)
  Theorem compress_then_init : forall src o bytes,
    opts_ok o -> bytes_ok src -> lenN src < 18446744073709551616 -> lenN bytes < 18446744073709551616 ->
    compress_model H comp src o = Ok bytes ->
    exists chunks uniq order hdr hck,
      chunk_oneshot (o_cfg o) src = Ok chunks
      /\ NoDup (map H uniq)
      /\ (forall x, In x uniq -> In x (chunk_datas src chunks))
      /\ Forall2 (fun i dd => exists x, nthN i uniq = Some x /\ H x = H dd) order (chunk_datas src chunks)
      /\ first_occ_ordered 0 order /\ seen_after 0 order = lenN uniq
      /\ bytes = hdr ++ concat (map (stored comp o) uniq)
      /\ try_init H (file_read_at bytes) =
           Ok {| a_descs := adescs o uniq (lenN hdr); a_order := map w32 order; a_header_size := lenN hdr;
                 a_header_checksum := hck; a_comp := o_comp o; a_version := o_version o;
                 a_data_offset := lenN hdr; a_total := lenN src; a_source_checksum := H src;
                 a_cfg := cfg_read (o_cfg o); a_hashlen := o_hashlen o; a_meta := o_meta o |}.
  Proof.
    intros src o bytes Hok Hsrc Hls Hlb Hm.
    destruct (compress_dict H comp src o) as [[d data]| | |] eqn:ED.
    2-4: unfold compress_model in Hm; rewrite ED in Hm; cbn [bind] in Hm; discriminate.
    pose proof (compress_model_layout H comp src o bytes d data ED Hm) as Eb. clear Hm.
    destruct (compress_dict_facts H comp src o d data ED)
      as (chunks & uniq & order & EC & Hnd & Hin & Hord & Hfo & Hseen & Edata & Ed).
    set (dictb := encode_dict d) in *.
    pose proof (lenN_build_header H H_len dictb) as Lh.
    set (hdr := build_header H dictb None) in *.
    assert (Lb : lenN bytes = hsize (lenN dictb) + total_stored o uniq).
    { rewrite Eb, rt_lenN_app, Lh, Edata. reflexivity. }
    unfold hsize in Lb.
    pose proof Hok as (Hv & Hmax & Hmin & Hwin & Hbits & Hhl1 & Hhl64 & Hcomp & Hver & Hutf & Hmeta & Hsort).
    assert (Hsz : Forall (fun x => lenN x < 4294967296) uniq).
    { apply Forall_forall. intros x Hx. eapply chunk_data_sizes; [exact Hok|exact EC|apply Hin; exact Hx]. }
    assert (Hidx : Forall (fun i => i < lenN uniq) order).
    { clear - Hord. induction Hord as [|i dd order done (x & Hx & _) HF IH]; constructor; [|exact IH].
      eapply cc_nthN_lt; exact Hx. }
    (* the dictionary is well formed, so it is decoded back *)
    assert (Hwf : dict_wf d).
    { rewrite Ed. unfold dict_wf.
      cbn [dict_version dict_checksum dict_total dict_params dict_comp dict_order dict_descs dict_meta].
      split; [exact Hver|]. split; [exact Hutf|]. split; [apply H_bytes|]. split; [exact Hls|].
      split; [apply params_wf_of; exact Hok|]. split; [apply comp_wf_of; exact Hok|].
      split.
      { apply Forall_forall. intros j Hj. apply in_map_iff in Hj. destruct Hj as (i & E & _). subst j.
        pose proof (cc_w32_lt i) as W. unfold M32 in W. exact W. }
      split; [apply mkdescs_wf; lia|]. split; [exact Hmeta|exact Hsort]. }
    assert (Hdec : decode_dict dictb = Some d).
    { apply decode_encode_dict; [exact Hwf|]. fold dictb. lia. }
    exists chunks, uniq, order, hdr, (H (hprefix dictb)).
    split; [exact EC|]. split; [exact Hnd|]. split; [exact Hin|]. split; [exact Hord|].
    split; [exact Hfo|]. split; [exact Hseen|]. split; [rewrite Eb, Edata; reflexivity|].
    rewrite Eb. unfold hdr.
    rewrite (try_init_built H H_len dictb data d (adescs o uniq (hsize (lenN dictb)))
               (params_of (o_cfg o) (o_hashlen o)) (comp_record (o_comp o)) (o_comp o) (cfg_read (o_cfg o))).
    - rewrite Ed. cbn [dict_version dict_checksum dict_total dict_order dict_meta]. fold hdr. rewrite Lh.
      rewrite (rt_takeN_all (H src)) by (rewrite H_len; unfold HASH_MAX_LEN; lia).
      replace (p_hashlen (params_of (o_cfg o) (o_hashlen o))) with (o_hashlen o); [reflexivity|].
      unfold params_of. destruct (c_algo (o_cfg o)); cbn [p_hashlen]; rewrite cc_w32_small; try reflexivity;
        unfold M32; lia.
    - fold hdr. rewrite <- Eb. exact Hlb.
    - exact Hdec.
    - rewrite Ed. cbn [dict_descs].
      replace (hsize (lenN dictb)) with (hsize (lenN dictb) + 0) at 2 by lia.
      apply abs_descs_mk; [exact Hhl64|exact Hsz|unfold hsize; lia].
    - rewrite Ed. reflexivity.
    - rewrite Ed. cbn [dict_order]. rewrite lenN_adescs. apply rt_existsb_ge_false.
      apply Forall_forall. intros j Hj. apply in_map_iff in Hj. destruct Hj as (i & E & Hi). subst j.
      rewrite Forall_forall in Hidx. specialize (Hidx i Hi). pose proof (cc_w32_le i). lia.
    - rewrite Ed. reflexivity.
    - apply comp_of_record. exact Hok.
    - apply config_of_params. exact Hok.
  Qed.

  Theorem reader_reports_writer : forall src o bytes,
    opts_ok o -> bytes_ok src -> lenN src < 18446744073709551616 -> lenN bytes < 18446744073709551616 ->
    compress_model H comp src o = Ok bytes ->
    exists a, try_init H (file_read_at bytes) = Ok a
      /\ a_total a = lenN src /\ a_source_checksum a = H src
      /\ a_cfg a = cfg_read (o_cfg o)
      /\ a_hashlen a = o_hashlen o /\ a_comp a = o_comp o
      /\ a_meta a = o_meta o /\ a_version a = o_version o
      /\ a_data_offset a = a_header_size a.
  Proof.
    intros src o bytes Hok Hsrc Hls Hlb Hm.
    destruct (compress_then_init src o bytes Hok Hsrc Hls Hlb Hm)
      as (chunks & uniq & order & hdr & hck & _ & _ & _ & _ & _ & _ & _ & Hinit).
    eexists. split; [exact Hinit|]. cbn. repeat split.
  Qed.

  (* ================================================================ *)
  (* the accepted archive: keys, source index, payloads               *)
  (* ================================================================ *)
  Definition mkad (o : copts) (x : list N) (off : N) : adesc :=
    {| ad_checksum := takeN (o_hashlen o) (H x); ad_size := lenN (stored comp o x);
       ad_offset := off; ad_source_size := lenN x |}.

  Lemma adescs_app : forall o pre l off,
    adescs o (pre ++ l) off = adescs o pre off ++ adescs o l (off + total_stored o pre).
  Proof.
    intros o. induction pre as [|y pre IH]; intros l off; cbn [app adescs].
    - unfold total_stored. cbn [map concat lenN]. now rewrite N.add_0_r.
    - rewrite IH, total_stored_cons, N.add_assoc. reflexivity.
  Qed.

  Lemma adescs_nth : forall o pre x post off,
    nthN (lenN pre) (adescs o (pre ++ x :: post) off) = Some (mkad o x (off + total_stored o pre)).
  Proof.
    intros o pre x post off. rewrite adescs_app. rewrite <- (lenN_adescs o pre off).
    replace (lenN (adescs o pre off)) with (lenN (adescs o pre off) + 0) by lia.
    rewrite rt_nthN_app_r. reflexivity.
  Qed.

  Lemma adescs_In : forall o l off d, In d (adescs o l off) ->
    exists pre x post, l = pre ++ x :: post /\ d = mkad o x (off + total_stored o pre).
  Proof.
    intros o. induction l as [|y l IH]; intros off d Hin; cbn [adescs] in Hin; [destruct Hin|].
    destruct Hin as [E|Hin].
    - exists [], y, l. split; [reflexivity|]. subst d. unfold mkad, total_stored. cbn [map concat lenN].
      now rewrite N.add_0_r.
    - apply IH in Hin. destruct Hin as (pre & x & post & El & Ed). exists (y :: pre), x, post.
      split; [subst l; reflexivity|]. rewrite total_stored_cons, N.add_assoc. exact Ed.
  Qed.

  Section Arch.
    Variable o : copts.
    Variable uniq : list (list N).
    Variable hs : N.
    Variable a : archive.
    Hypothesis Adescs : a_descs a = adescs o uniq hs.
    Hypothesis Ahl : a_hashlen a = o_hashlen o.
    Hypothesis Uinj : forall x y, In x uniq -> In y uniq ->
      takeN (o_hashlen o) (H x) = takeN (o_hashlen o) (H y) -> x = y.
    Hypothesis Und : NoDup uniq.

    Lemma trunc_tk : forall x, trunc a (takeN (o_hashlen o) (H x)) = takeN (o_hashlen o) (H x).
    Proof. intros x. unfold trunc. rewrite Ahl. apply rt_takeN_takeN. lia. Qed.

    Lemma first_with_skip : forall l off h rest i,
      (forall y, In y l -> takeN (o_hashlen o) (H y) <> h) ->
      first_with a h (adescs o l off ++ rest) i = first_with a h rest (i + lenN l).
    Proof.
      induction l as [|y l IH]; intros off h rest i Hne; cbn [adescs app lenN].
      - now rewrite N.add_0_r.
      - cbn [first_with ad_checksum]. rewrite trunc_tk.
        destruct (list_eqb (takeN (o_hashlen o) (H y)) h) eqn:E.
        + apply cc_list_eqb in E. exfalso. apply (Hne y); [now left|exact E].
        + rewrite IH; [f_equal; lia|]. intros z Hz. apply Hne. now right.
    Qed.

    Lemma key_of_pos : forall pre x post, uniq = pre ++ x :: post ->
      key_of a (takeN (o_hashlen o) (H x)) = lenN pre.
    Proof.
      intros pre x post Eu. unfold key_of. rewrite trunc_tk, Adescs, Eu, adescs_app.
      rewrite first_with_skip.
      - cbn [adescs first_with ad_checksum]. rewrite trunc_tk, rt_list_eqb_refl. lia.
      - intros y Hy Heq. assert (y = x).
        { apply Uinj; [rewrite Eu; apply in_or_app; now left|rewrite Eu; apply in_or_app; right; now left|exact Heq]. }
        subst y. rewrite Eu in Und. apply NoDup_remove_2 in Und. apply Und. apply in_or_app. now left.
    Qed.

    Lemma dkeys_nseq : forall l pre off, uniq = pre ++ l ->
      map (dkey a) (adescs o l off) = nseq (lenN pre) l.
    Proof.
      induction l as [|x l IH]; intros pre off Eu; cbn [adescs map nseq]; [reflexivity|]. f_equal.
      - unfold dkey. cbn [ad_checksum]. eapply key_of_pos. exact Eu.
      - rewrite (IH (pre ++ [x])).
        + rewrite rt_lenN_app. reflexivity.
        + rewrite <- app_assoc. exact Eu.
    Qed.

    Lemma dkeys_all : map (dkey a) (a_descs a) = nseq 0 uniq.
    Proof. rewrite Adescs. apply (dkeys_nseq uniq [] hs). reflexivity. Qed.

    (* valid indexes: the descriptor, its key and its chunk *)
    Lemma valid_index : forall i, i < lenN uniq ->
      exists x off, nthN i uniq = Some x /\ nthN i (a_descs a) = Some (mkad o x off)
                    /\ key_of a (takeN (o_hashlen o) (H x)) = i.
    Proof.
      intros i Hi. destruct (nthN i uniq) as [x|] eqn:En.
      - destruct (rt_nthN_split uniq i x En) as (pre & post & Eu & Lp).
        exists x, (hs + total_stored o pre). split; [reflexivity|]. split.
        + rewrite Adescs, Eu, <- Lp. apply adescs_nth.
        + rewrite <- Lp. eapply key_of_pos. exact Eu.
      - exfalso. clear - Hi En. revert i Hi En. induction uniq as [|y l IH]; intros i Hi En; cbn [lenN nthN] in *; [lia|].
        destruct (N.eqb_spec i 0); [discriminate|]. apply (IH (N.pred i)); [lia|exact En].
    Qed.

    Lemma source_chunks_occs : forall order off, Forall (fun i => i < lenN uniq) order ->
      source_chunks a order off = occs_from (lookup uniq) order off.
    Proof.
      induction order as [|i r IH]; intros off Hv; cbn [source_chunks occs_from]; [reflexivity|].
      inversion Hv as [|i' r' Hi Hr]; subst.
      destruct (valid_index i Hi) as (x & doff & En & Ed & _). rewrite Ed. cbn [mkad ad_source_size].
      replace (lookup uniq i) with x by (unfold lookup; rewrite En; reflexivity).
      f_equal. apply IH. exact Hr.
    Qed.

    Lemma source_index_build : forall order, a_order a = order -> Forall (fun i => i < lenN uniq) order ->
      build_source_index a = fold_left (add_occ (lookup uniq)) (occs_from (lookup uniq) order 0) [].
    Proof.
      intros order Eo Hv. unfold build_source_index. rewrite Eo, (source_chunks_occs order 0 Hv).
      apply rt_fold_left_ext. intros idx [off i] Hin. apply occs_from_ge in Hin. destruct Hin as [_ Hin].
      rewrite Forall_forall in Hv. destruct (valid_index i (Hv i Hin)) as (x & doff & En & Ed & Ek).
      rewrite Ed. unfold add_occ. cbn [fst snd mkad ad_checksum ad_source_size]. rewrite Ek.
      replace (lookup uniq i) with x by (unfold lookup; rewrite En; reflexivity). reflexivity.
    Qed.
    (* ---------- payloads ---------- *)
    Variables bytes hdr : list N.
    Hypothesis Ebytes : bytes = hdr ++ concat (map (stored comp o) uniq).
    Hypothesis Lhdr : lenN hdr = hs.
    Hypothesis Acomp : a_comp a = o_comp o.
    Hypothesis Hcodec : codec_ok o.
    Hypothesis Hhl64 : o_hashlen o <= 64.

    Lemma desc_split : forall d, In d (a_descs a) ->
      exists pre x post, uniq = pre ++ x :: post /\ d = mkad o x (hs + total_stored o pre)
                         /\ lookup uniq (dkey a d) = x.
    Proof.
      intros d Hin. rewrite Adescs in Hin. apply adescs_In in Hin.
      destruct Hin as (pre & x & post & Eu & Ed). exists pre, x, post. split; [exact Eu|]. split; [exact Ed|].
      assert (Ek : dkey a d = lenN pre).
      { subst d. unfold dkey. cbn [mkad ad_checksum]. eapply key_of_pos. exact Eu. }
      rewrite Ek. unfold lookup. rewrite Eu, cc_nthN_app_exact. reflexivity.
    Qed.

    Lemma payload_eq : forall d, In d (a_descs a) ->
      file_payload bytes d = stored comp o (lookup uniq (dkey a d)).
    Proof.
      intros d Hin. destruct (desc_split d Hin) as (pre & x & post & Eu & Ed & El). rewrite El.
      subst d. unfold file_payload. cbn [mkad ad_offset ad_size].
      rewrite Ebytes, Eu, map_app, concat_app. cbn [map concat].
      rewrite (app_assoc hdr). apply cc_slice_app.
      - rewrite rt_lenN_app, Lhdr. reflexivity.
      - reflexivity.
    Qed.

    Lemma payload_unpack : forall d, In d (a_descs a) ->
      unpack H decomp a d (file_payload bytes d) = Ok (lookup uniq (dkey a d)).
    Proof.
      intros d Hin. rewrite (payload_eq d Hin).
      destruct (desc_split d Hin) as (pre & x & post & Eu & Ed & El). rewrite El.
      subst d. unfold unpack. cbn [mkad ad_source_size ad_checksum].
      assert (Eh : takeN (lenN (takeN (o_hashlen o) (H x))) (H x) = takeN (o_hashlen o) (H x)).
      { rewrite cc_lenN_takeN, H_len. replace (N.min (o_hashlen o) 64) with (o_hashlen o) by lia. reflexivity. }
      destruct (stored_spec comp o x) as (_ & [Es|[Es Hlt]]).
      - rewrite Es, N.eqb_refl. cbn [bind]. rewrite Eh, rt_list_eqb_refl. reflexivity.
      - rewrite Es. destruct (N.eqb_spec (lenN x) (lenN (comp x))) as [E|_]; [lia|].
        rewrite Acomp. destruct (o_comp o) as [[t l]|] eqn:Eo.
        + rewrite (Hcodec t l x Eo). cbn [bind]. rewrite Eh, rt_list_eqb_refl. reflexivity.
        + exfalso. unfold stored in Es. rewrite Eo in Es. rewrite <- Es in Hlt. lia.
    Qed.
  End Arch.

  (* ================================================================ *)
  (* the accepted archive describes the source                         *)
  (* ================================================================ *)
  Theorem compress_archive_describes : forall src o bytes,
    opts_ok o -> bytes_ok src -> lenN src < 18446744073709551616 -> lenN bytes < 18446744073709551616 ->
    trunc_inj o src -> few_chunks o src ->
    compress_model H comp src o = Ok bytes ->
    exists a uniq, try_init H (file_read_at bytes) = Ok a
      /\ describes (lookup uniq) (build_source_index a) src
      /\ desc_keys_ok a
      /\ (forall d, In d (a_descs a) -> file_payload bytes d = stored comp o (lookup uniq (dkey a d)))
      /\ (codec_ok o -> forall d, In d (a_descs a) ->
            unpack H decomp a d (file_payload bytes d) = Ok (lookup uniq (dkey a d))).
  Proof.
    intros src o bytes Hok Hsrc Hls Hlb Hti Hfew Hm.
    destruct (compress_then_init src o bytes Hok Hsrc Hls Hlb Hm)
      as (chunks & uniq & order & hdr & hck & EC & Hnd & Hin & Hord & Hfo & Hseen & Eb & Hinit).
    pose proof Hok as (Hv & _ & _ & _ & _ & _ & Hhl64 & _).
    match type of Hinit with _ = Ok ?r => set (a := r) in * end.
    assert (Und : NoDup uniq) by (eapply rt_NoDup_map_inv; exact Hnd).
    assert (Uinj : forall x y, In x uniq -> In y uniq ->
              takeN (o_hashlen o) (H x) = takeN (o_hashlen o) (H y) -> x = y).
    { intros x y Hx Hy E. apply (Hti chunks EC x y (Hin x Hx) (Hin y Hy) E). }
    assert (Hlu : lenN uniq < 4294967296).
    { specialize (Hfew chunks EC). assert (Hle : (length uniq <= length (chunk_datas src chunks))%nat).
      { apply NoDup_incl_length; [exact Und|]. intros x Hx. apply Hin. exact Hx. }
      unfold chunk_datas in Hle. rewrite map_length in Hle. rewrite (rt_lenN_length uniq). rewrite (rt_lenN_length chunks) in Hfew. lia. }
    assert (Hnth : Forall (fun i => exists x, nthN i uniq = Some x) order).
    { clear - Hord. induction Hord as [|i dd order done (x & Hx & _) HF IH]; constructor; [|exact IH].
      exists x. exact Hx. }
    assert (Hidx : Forall (fun i => i < lenN uniq) order).
    { eapply Forall_impl; [|exact Hnth]. intros i (x & Hx). eapply cc_nthN_lt. exact Hx. }
    assert (Eo : a_order a = order).
    { unfold a. cbn [a_order]. rewrite <- (map_id order) at 2. apply map_ext_in. intros i Hi.
      rewrite Forall_forall in Hidx. specialize (Hidx i Hi). apply cc_w32_small. unfold M32. lia. }
    assert (CF : collision_free H (chunk_datas src chunks)).
    { intros x y Hx Hy E. apply (Hti chunks EC x y Hx Hy). rewrite E. reflexivity. }
    assert (Esrc : concat (map (lookup uniq) order) = src).
    { rewrite (lookup_exact H uniq (chunk_datas src chunks) order (chunk_datas src chunks) Hord Hin
                 (fun d h => h) CF).
      apply (chunk_oneshot_concat _ _ _ Hv EC). }
    assert (Hpos : Forall (fun k => 0 < lenN (lookup uniq k)) order).
    { eapply Forall_impl; [|exact Hnth]. intros i (x & Hx). unfold lookup. rewrite Hx.
      eapply chunk_data_sizes; [exact Hok|exact EC|]. apply Hin. eapply cc_nthN_In. exact Hx. }
    destruct (build_describes (lookup uniq) order Hpos) as [Hdesc Hkeys].
    pose proof (source_index_build o uniq (lenN hdr) a eq_refl eq_refl Uinj Und order Eo Hidx) as Eidx.
    rewrite <- Eidx, Esrc in Hdesc. rewrite <- Eidx in Hkeys.
    exists a, uniq. split; [exact Hinit|]. split; [exact Hdesc|]. split.
    { unfold desc_keys_ok. rewrite (dkeys_all o uniq (lenN hdr) a eq_refl eq_refl Uinj Und). split.
      - apply rt_nseq_NoDup.
      - intros k. rewrite Hkeys, rt_nseq_In. split.
        + intros Hk. rewrite Forall_forall in Hidx. specialize (Hidx k Hk). lia.
        + intros Hk. apply (rt_focc_all order 0 k Hfo); [lia|]. rewrite Hseen. lia. }
    split.
    { intros d Hd.
      exact (payload_eq o uniq (lenN hdr) a eq_refl eq_refl Uinj Und bytes hdr Eb eq_refl d Hd). }
    intros Hcodec d Hd.
    exact (payload_unpack o uniq (lenN hdr) a eq_refl eq_refl Uinj Und bytes hdr Eb eq_refl eq_refl
             Hcodec Hhl64 d Hd).
  Qed.

  (* ================================================================ *)
  (* C01, model level: compress, then clone from the produced archive  *)
  (* ================================================================ *)
  Theorem roundtrip : forall src o bytes,
    opts_ok o -> bytes_ok src -> lenN src < 18446744073709551616 -> lenN bytes < 18446744073709551616 ->
    codec_ok o -> trunc_inj o src -> few_chunks o src ->
    compress_model H comp src o = Ok bytes ->
    exists a r, try_init H (file_read_at bytes) = Ok a
      /\ archive_clone H decomp a (file_payload bytes) [] None [] = Ok r
      /\ o_err (cr_state r) = None /\ cr_index r = []
      /\ takeN (lenN src) (o_file (cr_state r)) = src.
  Proof.
    intros src o bytes Hok Hsrc Hls Hlb Hcodec Hti Hfew Hm.
    destruct (compress_archive_describes src o bytes Hok Hsrc Hls Hlb Hti Hfew Hm)
      as (a & uniq & Hinit & Hdesc & Hkeys & _ & Hpay).
    destruct (genuine_payloads_clone H decomp (lookup uniq) a src (file_payload bytes) [] None []
                Hdesc I (Forall_nil _) Hkeys (Hpay Hcodec)) as (r & Hr & He & Hi & Hf).
    exists a, r. repeat split; assumption.
  Qed.
End RoundTrip.

Print Assumptions try_init_built.
Print Assumptions compress_then_init.
Print Assumptions reader_reports_writer.
Print Assumptions compress_archive_describes.
Print Assumptions roundtrip.

(* ================================================================== *)
(* 4. concrete evidence                                                *)
(* ================================================================== *)
(* a toy strong hash of 64 bytes and a codec, to evaluate the composed model *)
Definition rt_toyH (x : list N) : list N := map (fun b => b mod 256) (takeN 64 (x ++ repeat 7 64%nat)).
Definition rt_toycomp (x : list N) : list N := match x with [1; 2] => [9] | _ => x end.
Definition rt_toydecomp (t : N) (y : list N) : option (list N) := match y with [9] => Some [1; 2] | _ => Some y end.

Definition rt_run (o : copts) (src : list N) :=
  match compress_model rt_toyH rt_toycomp src o with
  | Ok bytes =>
      match try_init rt_toyH (file_read_at bytes) with
      | Ok a =>
          match archive_clone rt_toyH rt_toydecomp a (file_payload bytes) [] None [] with
          | Ok r => Some (a_cfg a, a_comp a, a_order a, map ad_size (a_descs a), o_err (cr_state r), cr_index r,
                          o_file (cr_state r))
          | _ => None
          end
      | _ => None
      end
  | _ => None
  end.

(* Why [a_cfg a = o_cfg o] had to become [a_cfg a = cfg_read (o_cfg o)]: for FixedSize the writer records
   bits = min = window = 0 whatever the options say; [a_comp] on the other hand is read back exactly, and
   the chunk [1;2] is stored compressed (1 byte). *)
Example rt_fixed_cfg_not_recorded :
  rt_run {| o_cfg := {| c_algo := AFixed; c_bits := 5; c_min := 1; c_max := 2; c_win := 1 |};
            o_hashlen := 4; o_comp := Some (E_CompressionType_BROTLI, 6); o_meta := []; o_version := [48] |}
         [1; 2; 3; 4; 1; 2; 5]
  = Some ({| c_algo := AFixed; c_bits := 0; c_min := 0; c_max := 2; c_win := 0 |},
          Some (E_CompressionType_BROTLI, 6), [0; 1; 0; 2], [1; 2; 1], None, [], [1; 2; 3; 4; 1; 2; 5]).
Proof. vm_compute. reflexivity. Qed.

Example rt_rolling_cfg_recorded :
  rt_run {| o_cfg := {| c_algo := ARollSum; c_bits := 1; c_min := 1; c_max := 3; c_win := 1 |};
            o_hashlen := 64; o_comp := None; o_meta := []; o_version := [] |}
         [1; 2; 3; 4; 1; 2; 5]
  = Some ({| c_algo := ARollSum; c_bits := 1; c_min := 1; c_max := 3; c_win := 1 |},
          None, [0; 1; 2; 3], [1; 2; 2; 2], None, [], [1; 2; 3; 4; 1; 2; 5]).
Proof. vm_compute. reflexivity. Qed.

Example rt_empty_source :
  rt_run {| o_cfg := {| c_algo := AFixed; c_bits := 0; c_min := 0; c_max := 2; c_win := 0 |};
            o_hashlen := 4; o_comp := None; o_meta := []; o_version := [] |} []
  = Some ({| c_algo := AFixed; c_bits := 0; c_min := 0; c_max := 2; c_win := 0 |}, None, [], [], None, [], []).
Proof. vm_compute. reflexivity. Qed.

(* The hypotheses of [roundtrip] are jointly satisfiable: an instance with every premise discharged. *)
Lemma rt_toyH_len : forall x, lenN (rt_toyH x) = 64.
Proof.
  intros x. unfold rt_toyH. rewrite cc_lenN_map, cc_lenN_takeN, rt_lenN_app.
  change (lenN (repeat 7 64%nat)) with 64. lia.
Qed.

Lemma rt_toyH_bytes : forall x, Forall (fun b => b < 256) (rt_toyH x).
Proof.
  intros x. unfold rt_toyH. apply Forall_forall. intros b Hb. apply in_map_iff in Hb.
  destruct Hb as (c & E & _). subst b. apply N.mod_lt. lia.
Qed.

Example rt_roundtrip_instance :
  let o := {| o_cfg := {| c_algo := AFixed; c_bits := 0; c_min := 0; c_max := 2; c_win := 0 |};
              o_hashlen := 4; o_comp := Some (E_CompressionType_BROTLI, 6); o_meta := [([97], [1; 2])];
              o_version := [48] |} in
  let src := [1; 2; 3; 4; 1; 2; 5] in
  let comp := fun x : list N => 0 :: 0 :: x in
  let decomp := fun (t : N) (y : list N) => Some (tl (tl y)) in
  exists bytes a r,
    compress_model rt_toyH comp src o = Ok bytes
    /\ try_init rt_toyH (file_read_at bytes) = Ok a
    /\ archive_clone rt_toyH decomp a (file_payload bytes) [] None [] = Ok r
    /\ o_err (cr_state r) = None /\ cr_index r = [] /\ takeN (lenN src) (o_file (cr_state r)) = src.
Proof.
  intros o src comp decomp.
  destruct (compress_model rt_toyH comp src o) as [bytes| | |] eqn:Em; try (vm_compute in Em; discriminate).
  assert (Hlb : lenN bytes < 18446744073709551616).
  { vm_compute in Em. apply rt_ok_inj in Em. subst bytes. vm_compute. reflexivity. }
  destruct (roundtrip rt_toyH comp decomp rt_toyH_len rt_toyH_bytes src o bytes) as (a & r & Ha & Hr & He & Hi & Hf).
  - unfold opts_ok. cbn. repeat split; try lia; try reflexivity.
    + right. exists E_CompressionType_BROTLI, 6. split; [reflexivity|split; [reflexivity|lia]].
    + constructor; [lia|constructor].
    + constructor; [|constructor]. cbn. repeat split; repeat constructor.
  - repeat constructor.
  - vm_compute. reflexivity.
  - exact Hlb.
  - intros t l x _. reflexivity.
  - intros chunks EC. vm_compute in EC. apply rt_ok_inj in EC. subst chunks.
    intros x y Hx Hy. vm_compute in Hx, Hy.
    repeat (destruct Hx as [Hx|Hx]; [subst x|]); try contradiction;
    repeat (destruct Hy as [Hy|Hy]; [subst y|]); try contradiction;
    intros E; vm_compute in E; try reflexivity; discriminate E.
  - intros chunks EC. vm_compute in EC. apply rt_ok_inj in EC. subst chunks. vm_compute. reflexivity.
  - exact Em.
  - exists bytes, a, r. repeat split; assumption.
Qed.
Print Assumptions rt_roundtrip_instance.
