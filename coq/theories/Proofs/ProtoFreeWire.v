(* EXTENSION of Proofs/ProtoFree.v to the wire level: the same free encodings, where in addition every
   varint (field keys, length prefixes, varint values, packed elements, unknown varint payloads) may be
   ANY valid base-128 encoding of its value (1 to 10 bytes, e.g. padded with zero groups), not only the
   minimal one produced by [encode_varint].  The relations are declarative ([varint_enc] is the
   base-128 grammar); the occurrence trees, the schemas and the value of an occurrence list
   ([dict_value]) are those of ProtoFree.v. *)
From Bita Require Import Model.Base Gen.Generated Model.Proto Proofs.ProtoRoundTrip Proofs.ProtoUnknown Proofs.ProtoFree.

Local Open Scope N_scope.
Local Transparent decode_varint decode_key encode_varint encode_key.

(* ---------- varints ---------- *)
(* [varint_enc v l]: [l] is a base-128 little-endian encoding of [v]: every byte but the last has the
   continuation bit (128) set *)
Inductive varint_enc : N -> list N -> Prop :=
| VE_last : forall b, b < 128 -> varint_enc b [b]
| VE_more : forall b v l, b < 128 -> varint_enc v l -> varint_enc (b + 128 * v) (b + 128 :: l).

(* a valid 64-bit varint: at most 10 bytes, value below 2^64 *)
Definition wvarint (v : N) (l : list N) : Prop :=
  varint_enc v l /\ (length l <= 10)%nat /\ v < 18446744073709551616.

Lemma varint_enc_nonempty : forall v l, varint_enc v l -> l <> [].
Proof. intros v l H. destruct H; discriminate. Qed.

Lemma pow7_succ : forall c, 2 ^ (7 * (c + 1)) = 128 * 2 ^ (7 * c).
Proof. intro c. replace (7 * (c + 1)) with (7 + 7 * c) by lia. rewrite N.pow_add_r. reflexivity. Qed.

Lemma dec_varint_enc : forall v l, varint_enc v l -> forall fuel count acc r,
  (length l <= fuel)%nat -> N.of_nat (length l) + count <= 10 -> acc < 2 ^ (7 * count) ->
  v * 2 ^ (7 * count) < 2 ^ 64 ->
  dec_varint fuel count acc (l ++ r) = Some (acc + v * 2 ^ (7 * count), r).
Proof.
  intros v l H. induction H as [b Hb | b v l Hb Hv IH]; intros fuel count acc r Hfuel Hcount Hacc Hval.
  - cbn [length] in *. destruct fuel as [| f]; [lia |].
    cbn [app dec_varint].
    destruct (N.ltb_spec b 128) as [_ | ?]; [| lia].
    assert (Hguard : (count =? 9) && (2 <=? b) = false).
    { destruct (N.eqb_spec count 9) as [E | E]; [| reflexivity].
      subst count. change (2 ^ (7 * 9)) with 9223372036854775808 in Hval. change (2 ^ 64) with 18446744073709551616 in Hval.
      destruct (N.leb_spec 2 b); [lia | reflexivity]. }
    rewrite Hguard. f_equal. f_equal.
    rewrite land127, (N.mod_small b 128) by exact Hb.
    rewrite (N.mul_comm count 7).
    rewrite mask64_small by (rewrite N.shiftl_mul_pow2; exact Hval).
    rewrite lor_low_shiftl by exact Hacc. reflexivity.
  - cbn [length] in *. destruct fuel as [| f]; [lia |].
    cbn [app dec_varint].
    destruct (N.ltb_spec (b + 128) 128) as [? | _]; [lia |].
    assert (Hb2 : N.land (b + 128) 127 = b).
    { rewrite land127. replace (b + 128) with (b + 1 * 128) by reflexivity.
      rewrite N.mod_add by discriminate. apply N.mod_small. exact Hb. }
    rewrite Hb2. rewrite (N.mul_comm count 7).
    pose proof (pow7_succ count) as Hp7.
    assert (Hpos : 0 < 2 ^ (7 * count)) by (apply N.neq_0_lt_0, N.pow_nonzero; lia).
    set (P := 2 ^ (7 * count)) in *.
    assert (HbP : b * P <= 127 * P) by (apply N.mul_le_mono_r; lia).
    assert (Hexp : (b + 128 * v) * P = b * P + 128 * (v * P)) by lia.
    rewrite mask64_small by (rewrite N.shiftl_mul_pow2; fold P; lia).
    rewrite lor_low_shiftl by exact Hacc. fold P.
    rewrite IH.
    + f_equal. f_equal. rewrite Hp7. lia.
    + lia.
    + lia.
    + rewrite Hp7. lia.
    + rewrite Hp7. lia.
Qed.

Theorem decode_wvarint : forall v l r, wvarint v l -> decode_varint (l ++ r) = Some (v, r).
Proof.
  intros v l r (He & Hlen & Hv). unfold decode_varint.
  rewrite (dec_varint_enc v l He 10 0 0 r).
  - f_equal. f_equal. change (2 ^ (7 * 0)) with 1. lia.
  - exact Hlen.
  - lia.
  - change (2 ^ (7 * 0)) with 1. lia.
  - change (2 ^ (7 * 0)) with 1. change (2 ^ 64) with 18446744073709551616. lia.
Qed.

(* the minimal encoding is one of them *)
Lemma enc_varint_length : forall fuel n, (length (enc_varint fuel n) <= fuel)%nat.
Proof.
  induction fuel as [| f IH]; intro n; cbn [enc_varint length]; [lia |].
  destruct (n <? 128); cbn [length]; [lia |]. specialize (IH (N.shiftr n 7)). lia.
Qed.

Lemma enc_varint_valid : forall fuel n, n < 2 ^ (7 * N.of_nat (S fuel)) -> varint_enc n (enc_varint (S fuel) n).
Proof.
  induction fuel as [| f IH]; intros n Hn.
  - change (2 ^ (7 * N.of_nat 1)) with 128 in Hn. cbn [enc_varint].
    destruct (N.ltb_spec n 128) as [Hlt | ?]; [| lia]. apply VE_last. exact Hlt.
  - remember (S f) as sf eqn:Esf. cbn [enc_varint].
    destruct (N.ltb_spec n 128) as [Hlt | Hge]; [apply VE_last; exact Hlt |].
    assert (Hmod : n mod 128 < 128) by (apply N.mod_lt; discriminate).
    assert (Hdm : n = 128 * (n / 128) + n mod 128) by (apply N.div_mod; discriminate).
    rewrite land127, lor128 by exact Hmod.
    rewrite N.shiftr_div_pow2. change (2 ^ 7) with 128.
    assert (Hq : n / 128 < 2 ^ (7 * N.of_nat sf)).
    { apply N.div_lt_upper_bound; [discriminate |].
      replace (7 * N.of_nat (S sf)) with (7 + 7 * N.of_nat sf) in Hn by lia.
      rewrite N.pow_add_r in Hn. exact Hn. }
    subst sf. specialize (IH (n / 128) Hq).
    assert (E : varint_enc (n mod 128 + 128 * (n / 128)) (n mod 128 + 128 :: enc_varint (S f) (n / 128))).
    { apply VE_more; assumption. }
    replace (n mod 128 + 128 * (n / 128)) with n in E by lia. exact E.
Qed.

Lemma wvarint_canonical : forall v, v < 18446744073709551616 -> wvarint v (encode_varint v).
Proof.
  intros v Hv. unfold wvarint, encode_varint. split; [| split; [apply enc_varint_length | exact Hv]].
  apply (enc_varint_valid 9). change (2 ^ (7 * N.of_nat 10)) with 1180591620717411303424. lia.
Qed.

(* ---------- keys ---------- *)
(* a field key: a valid varint of value 8 * field number + wire type *)
Definition wkey (t wt : N) (l : list N) : Prop := wvarint (t * 8 + wt) l.

Lemma key_value : forall t wt, wt < 8 -> N.lor (N.shiftl t 3) wt = t * 8 + wt.
Proof. intros t wt Hwt. rewrite lor_shiftl_low by (change (2 ^ 3) with 8; lia). reflexivity. Qed.

Theorem decode_wkey : forall t wt l r, wkey t wt l -> 1 <= t -> t < 536870912 -> wt < 6 ->
  decode_key (l ++ r) = Some (t, wt, r).
Proof.
  intros t wt l r Hk Ht1 Ht2 Hwt. unfold decode_key. rewrite (decode_wvarint _ l r Hk).
  unfold M32. destruct (N.leb_spec 4294967296 (t * 8 + wt)) as [? | _]; [lia |].
  assert (Hland : N.land (t * 8 + wt) 7 = wt).
  { change 7 with (N.ones 3). rewrite N.land_ones. change (2 ^ 3) with 8.
    rewrite N.add_comm, N.mod_add by discriminate. apply N.mod_small. lia. }
  assert (Hshr : N.shiftr (t * 8 + wt) 3 = t).
  { rewrite N.shiftr_div_pow2. change (2 ^ 3) with 8.
    rewrite N.add_comm, N.div_add by discriminate. rewrite N.div_small by lia. reflexivity. }
  rewrite Hland, Hshr.
  destruct (N.leb_spec 6 wt) as [? | _]; [lia |].
  destruct (N.eqb_spec t 0) as [? | _]; [lia |]. reflexivity.
Qed.

Lemma wkey_canonical : forall t wt, t < 536870912 -> wt < 8 -> wkey t wt (encode_key t wt).
Proof.
  intros t wt Ht Hwt. unfold wkey, encode_key. rewrite key_value by exact Hwt.
  apply wvarint_canonical. lia.
Qed.

Lemma wkey_nonempty : forall t wt l, wkey t wt l -> l <> [].
Proof. intros t wt l (H & _). eapply varint_enc_nonempty; exact H. Qed.

Global Opaque decode_varint decode_key encode_varint encode_key.

(* ---------- readers on wire-level pieces ---------- *)
Lemma read_varint_field_w : forall v vb r, wvarint v vb ->
  read_varint_field WT_VARINT (vb ++ r) = Some (v, r).
Proof.
  intros v vb r H. unfold read_varint_field. change (WT_VARINT =? WT_VARINT) with true. cbv iota.
  apply decode_wvarint. exact H.
Qed.

Lemma read_len_field_w : forall b lb r, wvarint (lenN b) lb ->
  read_len_field WT_LEN (lb ++ b ++ r) = Some (b, r).
Proof.
  intros b lb r H. unfold read_len_field. change (WT_LEN =? WT_LEN) with true. cbv iota.
  rewrite (decode_wvarint _ lb (b ++ r) H). apply take_bytes_app.
Qed.

(* payload of an unknown field, wire level (no groups) *)
Definition wpayload (wt : N) (u : list N) : Prop :=
  (wt = WT_VARINT /\ exists v, wvarint v u)
  \/ (wt = WT_64 /\ lenN u = 8)
  \/ (wt = WT_LEN /\ exists p lb, wvarint (lenN p) lb /\ u = lb ++ p)
  \/ (wt = WT_32 /\ lenN u = 4).

Lemma wpayload_wt : forall wt u, wpayload wt u -> wt < 6.
Proof. intros wt u [[E _] | [[E _] | [[E _] | [E _]]]]; subst wt; reflexivity. Qed.

Lemma payload_ok_w : forall wt u, payload_ok wt u -> wpayload wt u.
Proof.
  intros wt u [[E (v & Hv & Eu)] | [[E Hl] | [[E (p & Hp & Eu)] | [E Hl]]]]; subst.
  - left. split; [reflexivity |]. exists v. apply wvarint_canonical. exact Hv.
  - right. left. split; [reflexivity | exact Hl].
  - right. right. left. split; [reflexivity |]. exists p, (encode_varint (lenN p)).
    split; [apply wvarint_canonical; exact Hp | reflexivity].
  - right. right. right. split; [reflexivity | exact Hl].
Qed.

Lemma skip_field_wpayload : forall wt u, wpayload wt u ->
  forall fuel depth tag b, depth <> 0 -> skip_field (S fuel) depth wt tag (u ++ b) = Some b.
Proof.
  intros wt u Hp fuel depth tag b Hd. rewrite skip_field_S.
  destruct (N.eqb_spec depth 0) as [? | _]; [contradiction |].
  destruct Hp as [[E (v & Hv)] | [[E Hl] | [[E (p & lb & Hlb & Eu)] | [E Hl]]]]; subst wt.
  - change (WT_VARINT =? WT_VARINT) with true. cbv iota.
    rewrite (decode_wvarint v u b Hv). reflexivity.
  - change (WT_64 =? WT_VARINT) with false. change (WT_64 =? WT_32) with false.
    change (WT_64 =? WT_64) with true. cbv iota.
    rewrite <- Hl. rewrite take_bytes_app. reflexivity.
  - change (WT_LEN =? WT_VARINT) with false. change (WT_LEN =? WT_32) with false.
    change (WT_LEN =? WT_64) with false. change (WT_LEN =? WT_LEN) with true. cbv iota. subst u.
    rewrite <- app_assoc. rewrite (decode_wvarint _ lb (p ++ b) Hlb).
    rewrite take_bytes_app. reflexivity.
  - change (WT_32 =? WT_VARINT) with false. change (WT_32 =? WT_32) with true. cbv iota.
    rewrite <- Hl. rewrite take_bytes_app. reflexivity.
Qed.

(* ---------- wire encodings of occurrence lists ---------- *)
(* [seq_wire enc xs bytes]: [bytes] is the concatenation of one encoding of each element of [xs] *)
Inductive seq_wire {O : Type} (enc : O -> list N -> Prop) : list O -> list N -> Prop :=
| SW_nil : seq_wire enc [] []
| SW_cons : forall o occs b1 b2, enc o b1 -> seq_wire enc occs b2 -> seq_wire enc (o :: occs) (b1 ++ b2).

(* one field occurrence of a flat message: key, then the payload *)
Inductive occ_wire : occ -> list N -> Prop :=
| W_varint : forall t v kb vb, wkey t WT_VARINT kb -> wvarint v vb -> occ_wire (OVarint t v) (kb ++ vb)
| W_len : forall t b kb lb, wkey t WT_LEN kb -> wvarint (lenN b) lb -> occ_wire (OLen t b) (kb ++ lb ++ b)
| W_unk : forall t wt u kb, wkey t wt kb -> occ_wire (OUnk t wt u) (kb ++ u).

(* allowed by the schema: as [occ_ok], with the wire-level unknown payloads *)
Definition occ_ok_w (s : schema) (o : occ) : Prop :=
  match o with
  | OVarint t v => exists bd, s t = Some (KVarint bd) /\ v < bd
  | OLen t b => s t = Some KBytes \/ (s t = Some KString /\ utf8_valid b = true)
  | OUnk t wt u => 1 <= t /\ t < 536870912 /\ s t = None /\ wpayload wt u
  end.

Lemma occ_ok_ok_w : forall s o, occ_ok s o -> occ_ok_w s o.
Proof.
  intros s [t v | t b | t wt u] H; cbn [occ_ok occ_ok_w] in *; try exact H.
  destruct H as (H1 & H2 & H3 & H4). repeat split; try assumption. apply payload_ok_w. exact H4.
Qed.

Definition wire_desc (d : descriptor) (bytes : list N) : Prop :=
  exists occs, seq_wire occ_wire occs bytes /\ Forall (occ_ok_w desc_schema) occs /\ desc_val occs = d.
Definition wire_params (p : chunker_params) (bytes : list N) : Prop :=
  exists occs, seq_wire occ_wire occs bytes /\ Forall (occ_ok_w params_schema) occs /\ params_val occs = p.
Definition wire_comp (c : compression) (bytes : list N) : Prop :=
  exists occs, seq_wire occ_wire occs bytes /\ Forall (occ_ok_w comp_schema) occs /\ comp_val occs = c.
Definition wire_entry (kv : list N * list N) (bytes : list N) : Prop :=
  exists occs, seq_wire occ_wire occs bytes /\ Forall (occ_ok_w entry_schema) occs /\ entry_val occs = kv.

(* ---------- the merge loop over wire-level occurrences ---------- *)
Lemma merge_fields_wone : forall A (step : stepfn A) acc acc' tag wt kb body y fuel,
  kb <> [] -> decode_key (kb ++ body ++ y) = Some (tag, wt, body ++ y) ->
  step acc tag wt (body ++ y) = Some (acc', y) ->
  merge_fields (S fuel) step acc (kb ++ body ++ y) = merge_fields fuel step acc' y.
Proof.
  intros A step acc acc' tag wt kb body y fuel Hne Hkey Hstep.
  destruct (kb ++ body ++ y) as [| x l] eqn:El.
  { destruct kb; [contradiction | discriminate]. }
  cbn [merge_fields]. rewrite Hkey, Hstep. reflexivity.
Qed.

Section WBlocks.
  Context {O A : Type} (step : stepfn A) (enc : O -> list N -> Prop) (ok : O -> Prop) (upd : O -> A -> A).

  Definition wblock_ok : Prop :=
    forall o chunk, ok o -> enc o chunk ->
      exists tag wt kb body, chunk = kb ++ body /\ kb <> [] /\
        (forall r, decode_key (kb ++ r) = Some (tag, wt, r)) /\
        forall acc rest, step acc tag wt (body ++ rest) = Some (upd o acc, rest).

  Hypothesis Hb : wblock_ok.

  Lemma merge_wblocks : forall occs bytes, seq_wire enc occs bytes -> forall acc, Forall ok occs ->
    merge_ok step acc bytes (fold_left (fun a o => upd o a) occs acc).
  Proof.
    intros occs bytes H. induction H as [| o occs b1 b2 Ho Hs IH]; intros acc Hok.
    - cbn [fold_left]. apply merge_ok_nil.
    - inversion Hok as [| ? ? Hoo Hoccs]; subst. cbn [fold_left].
      destruct (Hb o b1 Hoo Ho) as (tag & wt & kb & body & E & Hne & Hkey & Hstep). subst b1.
      intros fuel Hfuel. rewrite <- app_assoc in *.
      destruct fuel as [| f].
      { exfalso. destruct kb; [contradiction | cbn [app length] in Hfuel; lia]. }
      rewrite (merge_fields_wone A step acc (upd o acc) tag wt kb body b2 f Hne (Hkey _) (Hstep _ _)).
      apply IH; [exact Hoccs |].
      rewrite !app_length in Hfuel. destruct kb; [contradiction | cbn [length] in Hfuel; lia].
  Qed.
End WBlocks.

(* ---------- the flat messages ---------- *)
Ltac wsplit kb Hk :=
  split; [rewrite <- ?app_assoc; reflexivity |
  split; [eapply wkey_nonempty; exact Hk |
  split; [intro r; apply decode_wkey; [exact Hk | lia | lia | first [reflexivity | assumption]] |]]].

Lemma desc_wblock : forall dp, dp <> 0 -> wblock_ok (desc_step dp) occ_wire (occ_ok_w desc_schema) desc_upd.
Proof.
  intros dp Hdp o chunk Hok Henc. destruct Henc as [t v kb vb Hk Hvb | t b kb lb Hk Hlb | t wt u kb Hk].
  - destruct Hok as (bd & Hs & Hv). exists t, WT_VARINT, kb, vb.
    unfold desc_schema in Hs. untag. unfold U32, B64 in *.
    split_tag t; try discriminate; injection Hs as <-; wsplit kb Hk;
      intros acc rest; unfold desc_step, desc_upd; untag; cbn [N.eqb Pos.eqb];
      rewrite (read_varint_field_w _ _ _ Hvb); rewrite ?w32_small by lia; reflexivity.
  - exists t, WT_LEN, kb, (lb ++ b).
    cbn [occ_ok_w] in Hok. unfold desc_schema in Hok. untag.
    split_tag t; destruct Hok as [Hs | [Hs _]]; try discriminate. wsplit kb Hk.
    intros acc rest; unfold desc_step, desc_upd; untag; cbn [N.eqb Pos.eqb].
    rewrite <- app_assoc. rewrite (read_len_field_w _ _ _ Hlb). reflexivity.
  - destruct Hok as (Ht1 & Ht2 & Hs & Hp). exists t, wt, kb, u.
    pose proof (wpayload_wt _ _ Hp) as Hwt. wsplit kb Hk.
    intros acc rest. unfold desc_schema in Hs. unfold desc_step, desc_upd. untag.
    split_tag t; try discriminate.
    unfold skip_fuel. rewrite (skip_field_wpayload wt u Hp) by exact Hdp. reflexivity.
Qed.

Theorem desc_wmerge : forall dp occs bytes acc, dp <> 0 ->
  seq_wire occ_wire occs bytes -> Forall (occ_ok_w desc_schema) occs ->
  merge_ok (desc_step dp) acc bytes (desc_from acc occs).
Proof.
  intros dp occs bytes acc Hdp Henc Hok. rewrite <- desc_fold.
  apply (merge_wblocks _ _ _ _ (desc_wblock dp Hdp)); assumption.
Qed.

Lemma params_wblock : forall dp, dp <> 0 -> wblock_ok (params_step dp) occ_wire (occ_ok_w params_schema) params_upd.
Proof.
  intros dp Hdp o chunk Hok Henc. destruct Henc as [t v kb vb Hk Hvb | t b kb lb Hk Hlb | t wt u kb Hk].
  - destruct Hok as (bd & Hs & Hv). exists t, WT_VARINT, kb, vb.
    unfold params_schema in Hs. untag. unfold U32, B64 in *.
    split_tag t; try discriminate; injection Hs as <-; wsplit kb Hk;
      intros acc rest; unfold params_step, params_upd; untag; cbn [N.eqb Pos.eqb]; cbv beta zeta;
      rewrite (read_varint_field_w _ _ _ Hvb); rewrite w32_small by lia; reflexivity.
  - exfalso. cbn [occ_ok_w] in Hok. unfold params_schema in Hok. untag.
    split_tag t; destruct Hok as [Hs | [Hs _]]; discriminate.
  - destruct Hok as (Ht1 & Ht2 & Hs & Hp). exists t, wt, kb, u.
    pose proof (wpayload_wt _ _ Hp) as Hwt. wsplit kb Hk.
    intros acc rest. unfold params_schema in Hs. unfold params_step, params_upd. untag.
    split_tag t; try discriminate.
    unfold skip_fuel. rewrite (skip_field_wpayload wt u Hp) by exact Hdp. reflexivity.
Qed.

Theorem params_wmerge : forall dp occs bytes acc, dp <> 0 ->
  seq_wire occ_wire occs bytes -> Forall (occ_ok_w params_schema) occs ->
  merge_ok (params_step dp) acc bytes (params_from acc occs).
Proof.
  intros dp occs bytes acc Hdp Henc Hok. rewrite <- params_fold.
  apply (merge_wblocks _ _ _ _ (params_wblock dp Hdp)); assumption.
Qed.

Lemma comp_wblock : forall dp, dp <> 0 -> wblock_ok (comp_step dp) occ_wire (occ_ok_w comp_schema) comp_upd.
Proof.
  intros dp Hdp o chunk Hok Henc. destruct Henc as [t v kb vb Hk Hvb | t b kb lb Hk Hlb | t wt u kb Hk].
  - destruct Hok as (bd & Hs & Hv). exists t, WT_VARINT, kb, vb.
    unfold comp_schema in Hs. untag. unfold U32, B64 in *.
    split_tag t; try discriminate; injection Hs as <-; wsplit kb Hk;
      intros acc rest; unfold comp_step, comp_upd; untag; cbn [N.eqb Pos.eqb];
      rewrite (read_varint_field_w _ _ _ Hvb); rewrite w32_small by lia; reflexivity.
  - exfalso. cbn [occ_ok_w] in Hok. unfold comp_schema in Hok. untag.
    split_tag t; destruct Hok as [Hs | [Hs _]]; discriminate.
  - destruct Hok as (Ht1 & Ht2 & Hs & Hp). exists t, wt, kb, u.
    pose proof (wpayload_wt _ _ Hp) as Hwt. wsplit kb Hk.
    intros acc rest. unfold comp_schema in Hs. unfold comp_step, comp_upd. untag.
    split_tag t; try discriminate.
    unfold skip_fuel. rewrite (skip_field_wpayload wt u Hp) by exact Hdp. reflexivity.
Qed.

Theorem comp_wmerge : forall dp occs bytes acc, dp <> 0 ->
  seq_wire occ_wire occs bytes -> Forall (occ_ok_w comp_schema) occs ->
  merge_ok (comp_step dp) acc bytes (comp_from acc occs).
Proof.
  intros dp occs bytes acc Hdp Henc Hok. rewrite <- comp_fold.
  apply (merge_wblocks _ _ _ _ (comp_wblock dp Hdp)); assumption.
Qed.

Lemma entry_wblock : forall dp, dp <> 0 -> wblock_ok (entry_step dp) occ_wire (occ_ok_w entry_schema) entry_upd.
Proof.
  intros dp Hdp o chunk Hok Henc. destruct Henc as [t v kb vb Hk Hvb | t b kb lb Hk Hlb | t wt u kb Hk].
  - exfalso. destruct Hok as (bd & Hs & Hv). unfold entry_schema in Hs.
    split_tag t; discriminate.
  - exists t, WT_LEN, kb, (lb ++ b).
    cbn [occ_ok_w] in Hok. unfold entry_schema in Hok.
    split_tag t; destruct Hok as [Hs | [Hs Hu]]; try discriminate; wsplit kb Hk;
      intros acc rest; unfold entry_step, entry_upd; cbn [N.eqb Pos.eqb];
      rewrite <- app_assoc; rewrite (read_len_field_w _ _ _ Hlb); rewrite ?Hu; reflexivity.
  - destruct Hok as (Ht1 & Ht2 & Hs & Hp). exists t, wt, kb, u.
    pose proof (wpayload_wt _ _ Hp) as Hwt. wsplit kb Hk.
    intros acc rest. unfold entry_schema in Hs. unfold entry_step, entry_upd.
    split_tag t; try discriminate.
    unfold skip_fuel. rewrite (skip_field_wpayload wt u Hp) by exact Hdp. reflexivity.
Qed.

Theorem entry_wmerge : forall dp occs bytes acc, dp <> 0 ->
  seq_wire occ_wire occs bytes -> Forall (occ_ok_w entry_schema) occs ->
  merge_ok (entry_step dp) acc bytes (entry_from acc occs).
Proof.
  intros dp occs bytes acc Hdp Henc Hok. rewrite <- entry_fold.
  apply (merge_wblocks _ _ _ _ (entry_wblock dp Hdp)); assumption.
Qed.

(* ---------- the dictionary ---------- *)
Inductive docc_wire : docc -> list N -> Prop :=
| WD_version : forall b kb lb, wkey F_ChunkDictionary_application_version WT_LEN kb -> wvarint (lenN b) lb ->
    docc_wire (DVersion b) (kb ++ lb ++ b)
| WD_checksum : forall b kb lb, wkey F_ChunkDictionary_source_checksum WT_LEN kb -> wvarint (lenN b) lb ->
    docc_wire (DChecksum b) (kb ++ lb ++ b)
| WD_total : forall v kb vb, wkey F_ChunkDictionary_source_total_size WT_VARINT kb -> wvarint v vb ->
    docc_wire (DTotal v) (kb ++ vb)
| WD_params : forall sub body kb lb, wkey F_ChunkDictionary_chunker_params WT_LEN kb ->
    seq_wire occ_wire sub body -> wvarint (lenN body) lb -> docc_wire (DParams sub) (kb ++ lb ++ body)
| WD_comp : forall sub body kb lb, wkey F_ChunkDictionary_chunk_compression WT_LEN kb ->
    seq_wire occ_wire sub body -> wvarint (lenN body) lb -> docc_wire (DComp sub) (kb ++ lb ++ body)
| WD_packed : forall vs body kb lb, wkey F_ChunkDictionary_rebuild_order WT_LEN kb ->
    seq_wire wvarint vs body -> wvarint (lenN body) lb -> docc_wire (DOrderPacked vs) (kb ++ lb ++ body)
| WD_one : forall v kb vb, wkey F_ChunkDictionary_rebuild_order WT_VARINT kb -> wvarint v vb ->
    docc_wire (DOrderOne v) (kb ++ vb)
| WD_desc : forall sub body kb lb, wkey F_ChunkDictionary_chunk_descriptors WT_LEN kb ->
    seq_wire occ_wire sub body -> wvarint (lenN body) lb -> docc_wire (DDesc sub) (kb ++ lb ++ body)
| WD_meta : forall sub body kb lb, wkey F_ChunkDictionary_metadata WT_LEN kb ->
    seq_wire occ_wire sub body -> wvarint (lenN body) lb -> docc_wire (DMeta sub) (kb ++ lb ++ body)
| WD_unk : forall t wt u kb, wkey t wt kb -> docc_wire (DUnk t wt u) (kb ++ u).

Definition docc_ok_w (o : docc) : Prop :=
  match o with
  | DVersion b => utf8_valid b = true
  | DChecksum _ => True
  | DTotal v => True
  | DParams sub => Forall (occ_ok_w params_schema) sub
  | DComp sub => Forall (occ_ok_w comp_schema) sub
  | DOrderPacked vs => Forall (fun v => v < U32) vs
  | DOrderOne v => v < U32
  | DDesc sub => Forall (occ_ok_w desc_schema) sub
  | DMeta sub => Forall (occ_ok_w entry_schema) sub
  | DUnk t wt u => 9 <= t /\ t < 536870912 /\ wpayload wt u
  end.

(* THE RELATION, wire level *)
Definition wire_dict (d : dictionary) (bytes : list N) : Prop :=
  exists occs, seq_wire docc_wire occs bytes /\ Forall docc_ok_w occs /\ dict_value occs d.

Lemma read_packed_w : forall vs body, seq_wire wvarint vs body -> Forall (fun v => v < U32) vs ->
  forall acc fuel, (length body <= fuel)%nat -> read_packed fuel body acc = Some (acc ++ vs).
Proof.
  intros vs body H. induction H as [| v vs b1 b2 Hv Hs IH]; intros Hok acc fuel Hfuel.
  - destruct fuel; cbn [read_packed]; rewrite app_nil_r; reflexivity.
  - inversion Hok as [| ? ? Hv32 Hvs]; subst.
    pose proof (varint_enc_nonempty _ _ (proj1 Hv)) as Hne.
    rewrite app_length in Hfuel.
    destruct fuel as [| f]; [destruct b1; [contradiction | cbn [length] in Hfuel; lia] |].
    destruct (b1 ++ b2) as [| x l] eqn:El; [destruct b1; [contradiction | discriminate] |].
    cbn [read_packed]. rewrite <- El. rewrite (decode_wvarint v b1 b2 Hv).
    unfold U32 in Hv32. rewrite w32_small by exact Hv32.
    rewrite IH; [rewrite <- app_assoc; reflexivity | exact Hvs |].
    destruct b1; [contradiction | cbn [length] in Hfuel; lia].
Qed.

Lemma dict_step_unknown_w : forall acc t wt u b, 9 <= t -> wpayload wt u ->
  dict_step acc t wt (u ++ b) = Some (acc, b).
Proof.
  intros acc t wt u b Ht Hp. unfold dict_step. untag.
  repeat match goal with
         | |- context [t =? ?k] => destruct (N.eqb_spec t k) as [? | _]; [lia |]
         end.
  unfold skip_fuel. rewrite (skip_field_wpayload wt u Hp) by (unfold DEPTH0; discriminate).
  reflexivity.
Qed.

Ltac wsplit_top Hk :=
  split; [rewrite <- ?app_assoc; reflexivity |
  split; [eapply wkey_nonempty; exact Hk |
  split; [intro r; apply decode_wkey; [exact Hk | tagb | tagb | reflexivity] |]]].

Lemma dict_wblock : wblock_ok dict_step docc_wire docc_ok_w docc_upd.
Proof.
  intros o chunk Hok Henc.
  destruct Henc as [b kb lb Hk Hlb | b kb lb Hk Hlb | v kb vb Hk Hvb | sub body kb lb Hk Hsub Hlb
                   | sub body kb lb Hk Hsub Hlb | vs body kb lb Hk Hsub Hlb | v kb vb Hk Hvb
                   | sub body kb lb Hk Hsub Hlb | sub body kb lb Hk Hsub Hlb | t wt u kb Hk];
    cbn [docc_ok_w] in Hok.
  - exists F_ChunkDictionary_application_version, WT_LEN, kb, (lb ++ b). wsplit_top Hk.
    intros acc rest. unfold dict_step, docc_upd. tageq.
    rewrite <- app_assoc. rewrite (read_len_field_w _ _ _ Hlb). rewrite Hok. reflexivity.
  - exists F_ChunkDictionary_source_checksum, WT_LEN, kb, (lb ++ b). wsplit_top Hk.
    intros acc rest. unfold dict_step, docc_upd. tageq.
    rewrite <- app_assoc. rewrite (read_len_field_w _ _ _ Hlb). reflexivity.
  - exists F_ChunkDictionary_source_total_size, WT_VARINT, kb, vb. wsplit_top Hk.
    intros acc rest. unfold dict_step, docc_upd. tageq.
    rewrite (read_varint_field_w _ _ _ Hvb). reflexivity.
  - exists F_ChunkDictionary_chunker_params, WT_LEN, kb, (lb ++ body). wsplit_top Hk.
    intros acc rest. unfold dict_step, docc_upd. tageq.
    rewrite <- app_assoc. rewrite (read_len_field_w _ _ _ Hlb).
    fold (cur_params (dict_params acc)).
    rewrite (params_wmerge (DEPTH0 - 1) sub body _ depth_ok Hsub Hok _ (skip_fuel_ok _)). reflexivity.
  - exists F_ChunkDictionary_chunk_compression, WT_LEN, kb, (lb ++ body). wsplit_top Hk.
    intros acc rest. unfold dict_step, docc_upd. tageq.
    rewrite <- app_assoc. rewrite (read_len_field_w _ _ _ Hlb).
    fold (cur_comp (dict_comp acc)).
    rewrite (comp_wmerge (DEPTH0 - 1) sub body _ depth_ok Hsub Hok _ (skip_fuel_ok _)). reflexivity.
  - exists F_ChunkDictionary_rebuild_order, WT_LEN, kb, (lb ++ body). wsplit_top Hk.
    intros acc rest. unfold dict_step, docc_upd. tageq.
    change (WT_LEN =? WT_LEN) with true. cbv iota.
    rewrite <- app_assoc. rewrite (read_len_field_w _ _ _ Hlb).
    rewrite (read_packed_w vs body Hsub Hok [] _ (skip_fuel_ok _)). reflexivity.
  - exists F_ChunkDictionary_rebuild_order, WT_VARINT, kb, vb. wsplit_top Hk.
    intros acc rest. unfold dict_step, docc_upd. tageq.
    change (WT_VARINT =? WT_LEN) with false. cbv iota. unfold U32 in Hok.
    rewrite (read_varint_field_w _ _ _ Hvb). rewrite w32_small by exact Hok. reflexivity.
  - exists F_ChunkDictionary_chunk_descriptors, WT_LEN, kb, (lb ++ body). wsplit_top Hk.
    intros acc rest. unfold dict_step, docc_upd. tageq.
    rewrite <- app_assoc. rewrite (read_len_field_w _ _ _ Hlb).
    rewrite (desc_wmerge (DEPTH0 - 1) sub body _ depth_ok Hsub Hok _ (skip_fuel_ok _)). reflexivity.
  - exists F_ChunkDictionary_metadata, WT_LEN, kb, (lb ++ body). wsplit_top Hk.
    intros acc rest. unfold dict_step, docc_upd. tageq.
    rewrite <- app_assoc. rewrite (read_len_field_w _ _ _ Hlb).
    rewrite (entry_wmerge (DEPTH0 - 1) sub body _ depth_ok Hsub Hok _ (skip_fuel_ok _)). reflexivity.
  - destruct Hok as (Ht1 & Ht2 & Hp). exists t, wt, kb, u.
    split; [reflexivity | split; [eapply wkey_nonempty; exact Hk | split]].
    + intro r. apply decode_wkey; [exact Hk | lia | lia | eapply wpayload_wt; exact Hp].
    + intros acc rest. apply dict_step_unknown_w; assumption.
Qed.

Theorem wire_dict_merge : forall d bytes,
  meta_sorted (dict_meta d) -> wire_dict d bytes -> merge_ok dict_step dict_default bytes d.
Proof.
  intros d bytes Hm (occs & Henc & Hok & Hv).
  rewrite <- (dict_value_from occs d Hm Hv), <- dict_fold.
  apply (merge_wblocks _ _ _ _ dict_wblock); assumption.
Qed.

(* MAIN THEOREM, wire level.  No size hypothesis: a valid length prefix is below 2^64. *)
Theorem wire_encoding_decodes : forall d bytes,
  dict_wf d -> wire_dict d bytes -> decode_dict bytes = Some d.
Proof.
  intros d bytes Hwf Hw. unfold decode_dict.
  apply (wire_dict_merge d bytes); [apply Hwf | exact Hw | apply skip_fuel_ok].
Qed.

(* ---------- the free encodings of ProtoFree.v are wire encodings ---------- *)
Definition schema_ok (s : schema) : Prop :=
  forall t k, s t = Some k -> t < 536870912 /\ match k with KVarint bd => bd <= B64 | _ => True end.

Lemma desc_schema_ok : schema_ok desc_schema.
Proof.
  intros t k H. unfold desc_schema in H. untag. unfold U32, B64 in *.
  split_tag t; try discriminate; injection H as <-; split; try exact I; lia.
Qed.
Lemma params_schema_ok : schema_ok params_schema.
Proof.
  intros t k H. unfold params_schema in H. untag. unfold U32, B64 in *.
  split_tag t; try discriminate; injection H as <-; split; try exact I; lia.
Qed.
Lemma comp_schema_ok : schema_ok comp_schema.
Proof.
  intros t k H. unfold comp_schema in H. untag. unfold U32, B64 in *.
  split_tag t; try discriminate; injection H as <-; split; try exact I; lia.
Qed.
Lemma entry_schema_ok : schema_ok entry_schema.
Proof.
  intros t k H. unfold entry_schema in H.
  split_tag t; try discriminate; injection H as <-; split; try exact I; lia.
Qed.

Lemma seq_wire_flat_map : forall (O : Type) (enc : O -> list N -> Prop) (f : O -> list N) occs,
  Forall (fun o => enc o (f o)) occs -> seq_wire enc occs (flat_map f occs).
Proof.
  intros O enc f occs H. induction H as [| o occs Ho _ IH]; cbn [flat_map]; constructor; assumption.
Qed.

Lemma occ_wire_canonical : forall s o, schema_ok s -> occ_ok s o -> lenN (enc_occ o) < B64 ->
  occ_wire o (enc_occ o).
Proof.
  intros s [t v | t b | t wt u] Hs Hok Hsz; cbn [occ_ok enc_occ] in *.
  - destruct Hok as (bd & Hst & Hv). destruct (Hs t _ Hst) as [Ht Hbd].
    constructor; [apply wkey_canonical; [exact Ht | reflexivity] | apply wvarint_canonical; unfold B64 in Hbd; lia].
  - pose proof (lenN_enc_msg_ge t b) as Hlb. unfold enc_msg.
    assert (Ht : t < 536870912) by (destruct Hok as [H | [H _]]; apply (Hs t _ H)).
    constructor; [apply wkey_canonical; [exact Ht | reflexivity] | apply wvarint_canonical; unfold B64 in Hsz; lia].
  - destruct Hok as (Ht1 & Ht2 & _ & Hp). constructor.
    apply wkey_canonical; [exact Ht2 |]. pose proof (payload_ok_wt _ _ Hp). lia.
Qed.

Lemma sub_wire_canonical : forall s sub, schema_ok s -> Forall (occ_ok s) sub ->
  lenN (flat_map enc_occ sub) < B64 -> seq_wire occ_wire sub (flat_map enc_occ sub).
Proof.
  intros s sub Hs Hok Hsz. apply seq_wire_flat_map.
  assert (Hlen : Forall (fun o => lenN (enc_occ o) < B64) sub).
  { apply lenN_flat_map_bound with (f := enc_occ); [intro x; lia | exact Hsz]. }
  rewrite Forall_forall in *. intros o Hin. eapply occ_wire_canonical; [exact Hs | apply Hok; exact Hin | apply Hlen; exact Hin].
Qed.

Lemma docc_wire_canonical : forall o, docc_ok o -> lenN (enc_docc o) < B64 -> docc_wire o (enc_docc o).
Proof.
  intros o Hok Hsz. pose proof (lenN_enc_docc_sub o) as Hsub.
  destruct o as [b | b | v | sub | sub | vs | v | sub | sub | t wt u]; cbn [docc_ok enc_docc] in *; unfold enc_msg.
  - constructor; [apply wkey_canonical; [tagb | reflexivity] | apply wvarint_canonical; unfold B64 in Hsz; lia].
  - constructor; [apply wkey_canonical; [tagb | reflexivity] | apply wvarint_canonical; unfold B64 in Hsz; lia].
  - constructor; [apply wkey_canonical; [tagb | reflexivity] | apply wvarint_canonical; exact Hok].
  - constructor; [apply wkey_canonical; [tagb | reflexivity] | | apply wvarint_canonical; unfold B64 in Hsz; lia].
    apply (sub_wire_canonical params_schema); [exact params_schema_ok | exact Hok | lia].
  - constructor; [apply wkey_canonical; [tagb | reflexivity] | | apply wvarint_canonical; unfold B64 in Hsz; lia].
    apply (sub_wire_canonical comp_schema); [exact comp_schema_ok | exact Hok | lia].
  - constructor; [apply wkey_canonical; [tagb | reflexivity] | | apply wvarint_canonical; unfold B64 in Hsz; lia].
    apply seq_wire_flat_map. eapply Forall_impl; [| exact Hok]. intros v Hv. cbn beta in Hv.
    apply wvarint_canonical. unfold U32 in Hv. lia.
  - constructor; [apply wkey_canonical; [tagb | reflexivity] | apply wvarint_canonical; unfold U32 in Hok; lia].
  - constructor; [apply wkey_canonical; [tagb | reflexivity] | | apply wvarint_canonical; unfold B64 in Hsz; lia].
    apply (sub_wire_canonical desc_schema); [exact desc_schema_ok | exact Hok | lia].
  - constructor; [apply wkey_canonical; [tagb | reflexivity] | | apply wvarint_canonical; unfold B64 in Hsz; lia].
    apply (sub_wire_canonical entry_schema); [exact entry_schema_ok | exact Hok | lia].
  - destruct Hok as (Ht1 & Ht2 & Hp). constructor.
    apply wkey_canonical; [exact Ht2 |]. pose proof (payload_ok_wt _ _ Hp). lia.
Qed.

Lemma docc_ok_ok_w : forall o, docc_ok o -> docc_ok_w o.
Proof.
  intros [b | b | v | sub | sub | vs | v | sub | sub | t wt u] H; cbn [docc_ok docc_ok_w] in *; try exact H; try exact I;
    try (eapply Forall_impl; [| exact H]; intros o Ho; apply occ_ok_ok_w; exact Ho).
  destruct H as (H1 & H2 & H3). repeat split; try assumption. apply payload_ok_w. exact H3.
Qed.

Theorem free_is_wire : forall d bytes, lenN bytes < B64 -> free_dict d bytes -> wire_dict d bytes.
Proof.
  intros d bytes Hsz (occs & E & Hok & Hv). subst bytes. exists occs. split; [| split; [| exact Hv]].
  - apply seq_wire_flat_map.
    assert (Hlen : Forall (fun o => lenN (enc_docc o) < B64) occs).
    { apply lenN_flat_map_bound with (f := enc_docc); [intro x; lia | exact Hsz]. }
    rewrite Forall_forall in *. intros o Hin. apply docc_wire_canonical; [apply Hok; exact Hin | apply Hlen; exact Hin].
  - eapply Forall_impl; [| exact Hok]. intros o Ho. apply docc_ok_ok_w. exact Ho.
Qed.

Corollary canonical_is_wire : forall d, dict_wf d -> lenN (encode_dict d) < B64 -> wire_dict d (encode_dict d).
Proof. intros d Hwf Hsz. apply free_is_wire; [exact Hsz | apply canonical_is_free; exact Hwf]. Qed.

(* ---------- EXAMPLE with padded varints ---------- *)
(* a checker for [varint_enc] *)
Fixpoint varint_val (l : list N) : option N :=
  match l with
  | [] => None
  | b :: r =>
      match r with
      | [] => if b <? 128 then Some b else None
      | _ :: _ =>
          if (128 <=? b) && (b <? 256) then
            match varint_val r with Some v => Some (b - 128 + 128 * v) | None => None end
          else None
      end
  end.

Lemma varint_val_sound : forall l v, varint_val l = Some v -> varint_enc v l.
Proof.
  induction l as [| b r IH]; intros v H; [discriminate |].
  destruct r as [| b' r'].
  - cbn [varint_val] in H. destruct (N.ltb_spec b 128) as [Hb | ?]; [| discriminate].
    injection H as <-. apply VE_last. exact Hb.
  - remember (b' :: r') as r eqn:Er.
    assert (H' : (if (128 <=? b) && (b <? 256) then
                    match varint_val r with Some v => Some (b - 128 + 128 * v) | None => None end
                  else None) = Some v).
    { rewrite Er in *. exact H. }
    clear H. destruct (N.leb_spec 128 b) as [H1 | ?]; [| discriminate].
    destruct (N.ltb_spec b 256) as [H2 | ?]; [| discriminate]. cbn [andb] in H'.
    destruct (varint_val r) as [w |] eqn:Ew; [| discriminate]. injection H' as <-.
    replace (b :: r) with ((b - 128) + 128 :: r) by (f_equal; lia).
    apply VE_more; [lia | apply IH; reflexivity].
Qed.

Lemma SW_cons' : forall (O : Type) (enc : O -> list N -> Prop) o occs bytes b1 b2,
  bytes = b1 ++ b2 -> enc o b1 -> seq_wire enc occs b2 -> seq_wire enc (o :: occs) bytes.
Proof. intros O enc o occs bytes b1 b2 -> H1 H2. constructor; assumption. Qed.

Ltac wv := split; [apply varint_val_sound; vm_compute; reflexivity | split; [cbn [length]; lia | vm_compute; reflexivity]].

Definition exw_d : dictionary :=
  {| dict_version := [65]; dict_checksum := []; dict_total := 300; dict_params := None; dict_comp := None;
     dict_order := [1]; dict_descs := []; dict_meta := [] |}.

(* key of source_total_size on 3 bytes, 300 on 3 bytes; rebuild_order packed with a length prefix on 2 bytes
   and the element 1 on 2 bytes; application_version "A" with minimal varints *)
Definition exw_bytes : list N := [152; 128; 0; 172; 130; 0;   50; 130; 0; 129; 0;   10; 1; 65].

Example exw_wire : wire_dict exw_d exw_bytes.
Proof.
  exists [DTotal 300; DOrderPacked [1]; DVersion [65]]. split; [| split].
  - apply (SW_cons' _ _ _ _ _ ([152; 128; 0] ++ [172; 130; 0]) _ eq_refl).
    { constructor; unfold wkey; wv. }
    apply (SW_cons' _ _ _ _ _ ([50] ++ [130; 0] ++ [129; 0]) _ eq_refl).
    { constructor; [unfold wkey; wv | | wv].
      apply (SW_cons' _ _ _ _ _ [129; 0] [] eq_refl); [wv | constructor]. }
    apply (SW_cons' _ _ _ _ _ ([10] ++ [1] ++ [65]) [] eq_refl).
    { constructor; [unfold wkey; wv | wv]. }
    constructor.
  - repeat constructor.
  - unfold dict_value. repeat split; try (vm_compute; reflexivity).
Qed.

Example exw_decodes : decode_dict exw_bytes = Some exw_d.
Proof. vm_compute. reflexivity. Qed.

Print Assumptions wire_encoding_decodes.
Print Assumptions free_is_wire.
Print Assumptions exw_wire.
