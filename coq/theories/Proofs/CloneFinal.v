(* Composition: the clone theorems of Proofs/CloneCorrect.v with the planner/executor lemma of
   Proofs/Planner.v discharged. *)
From Bita Require Import Model.Base Model.ChunkIndex Model.CloneOutput Model.CloneSpec.
From Bita Require Import Proofs.Planner Proofs.CloneCorrect.

Definition clone_exact_final := fun D => clone_exact D (reorder_exec_correct D).
Definition fetch_exact_final := fun D => fetch_exact D (reorder_exec_correct D).
Definition write_trace_spec_final := fun D => write_trace_spec D (reorder_exec_correct D).

(* C05 (i): whatever bytes an interrupted run left behind, a re-run in place reproduces the source *)
Lemma rerun_completes_final :
  forall D src prior cidx oidx seeds arch fault,
    let left := o_file (cr_state (clone_model prior fault cidx oidx seeds arch)) in
    forall oidx' seeds',
    describes D cidx src -> out_ok D (Some oidx') left ->
    sound_feeds D seeds' -> sound_feeds D arch -> arch_complete cidx arch ->
    let r := clone_model left None cidx (Some oidx') seeds' arch in
    o_err (cr_state r) = None /\ cr_index r = [] /\ takeN (lenN src) (o_file (cr_state r)) = src.
Proof.
  intros D src prior cidx oidx seeds arch fault left oidx' seeds' Hd Ho Hs Ha Hc.
  exact (clone_exact_final D src left cidx (Some oidx') seeds' arch Hd Ho Hs Ha Hc).
Qed.
