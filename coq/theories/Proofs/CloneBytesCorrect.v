(* The clone at the level of bytes (Model/CloneBytes.v): the old output file and the seed files are byte strings
   that are scanned with the archive's own chunker and hashed.  Whatever the old output and the seeds contain,
   the clone rebuilds the source, provided the truncated strong hash does not collide on the chunks this run
   looks at (the archive's chunks and the chunks found in the scanned files).
   1. [clone_bytes_general]: any opened archive whose index describes the source;
   2. [compress_then_clone_bytes]: archives written by the model writer;
   3. [seeds_and_old_output_irrelevant_bytes];
   4. a computed instance. *)
From Coq Require Import NArith List Bool Lia.
From Bita Require Import Model.Base Gen.Generated Model.Chunker Model.ChunkIndex Model.CloneOutput Model.CloneSpec
                         Model.Proto Model.Archive Model.Compress Model.CloneArchive Model.CloneBytes.
From Bita Require Proofs.BoundaryRule.
From Bita Require Import Proofs.CloneCorrect Proofs.TamperSafe Proofs.ProtoRoundTrip Proofs.CompressConform
                         Proofs.RoundTrip.
Import ListNotations.
Open Scope N_scope.

(* ================================================================== *)
(* 0. small facts                                                      *)
(* ================================================================== *)
Lemma cb_code_inj : forall l1 l2,
  Forall (fun b => b < 256) l1 -> Forall (fun b => b < 256) l2 ->
  code_of_bytes l1 = code_of_bytes l2 -> l1 = l2.
Proof.
  induction l1 as [|b1 r1 IH]; intros [|b2 r2] H1 H2 E; cbn [code_of_bytes] in E.
  - reflexivity.
  - exfalso. lia.
  - exfalso. lia.
  - inversion H1 as [|x1 l1' Hb1 Hr1]; subst. inversion H2 as [|x2 l2' Hb2 Hr2]; subst.
    assert (Eb : b1 = b2) by lia. subst b2.
    assert (Ec : code_of_bytes r1 = code_of_bytes r2) by lia.
    f_equal. apply IH; assumption.
Qed.

(* describes only looks at the chunk data of the keys of the index *)
Lemma cb_describes_ext : forall (D1 D2 : N -> list N) idx src,
  (forall k, In k (keys idx) -> D1 k = D2 k) -> describes D1 idx src -> describes D2 idx src.
Proof.
  intros D1 D2 idx src Hext (Hwf & Hin & Hdis & Hcov).
  assert (Hocc : forall k o, occ idx k o -> D1 k = D2 k).
  { intros k o (l & Hg & _). apply Hext. eapply ci_get_Some_keys. exact Hg. }
  unfold describes. split.
  { destruct Hwf as [Hnd Hl]. split; [exact Hnd|]. intros k l Hkl.
    rewrite <- (Hext k (In_keys idx k l Hkl)). apply Hl. exact Hkl. }
  split.
  { intros k o Ho. pose proof (Hin k o Ho) as Hh. unfold holds in *. rewrite <- (Hocc k o Ho). exact Hh. }
  split.
  { intros k1 o1 k2 o2 Ho1 Ho2 Hne. rewrite <- (Hocc k1 o1 Ho1), <- (Hocc k2 o2 Ho2).
    apply Hdis; assumption. }
  intros p Hp. destruct (Hcov p Hp) as (k & o & Ho & Hr). exists k, o. split; [exact Ho|].
  rewrite <- (Hocc k o Ho). exact Hr.
Qed.

(* ---------- first_with ---------- *)
Lemma cb_first_with_ge : forall a h ds i, i <= first_with a h ds i.
Proof.
  intros a h. induction ds as [|d r IH]; intros i; cbn [first_with]; [lia|].
  destruct (list_eqb (trunc a (ad_checksum d)) h); [lia|]. specialize (IH (i + 1)). lia.
Qed.

Lemma cb_first_with_found : forall a h ds i, first_with a h ds i < i + lenN ds ->
  exists d, In d ds /\ trunc a (ad_checksum d) = h.
Proof.
  intros a h. induction ds as [|d r IH]; intros i Hlt; cbn [first_with lenN] in Hlt; [lia|].
  destruct (list_eqb (trunc a (ad_checksum d)) h) eqn:E.
  - apply cc_list_eqb in E. exists d. split; [now left|exact E].
  - destruct (IH (i + 1)) as (d' & Hd' & Ed'); [lia|]. exists d'. split; [now right|exact Ed'].
Qed.

Lemma cb_first_with_in : forall a ds d i, In d ds ->
  first_with a (trunc a (ad_checksum d)) ds i < i + lenN ds.
Proof.
  intros a. induction ds as [|d0 r IH]; intros d i Hin; [destruct Hin|]. cbn [first_with lenN].
  destruct (list_eqb (trunc a (ad_checksum d0)) (trunc a (ad_checksum d))) eqn:E; [lia|].
  destruct Hin as [Hin|Hin].
  - subst d0. rewrite rt_list_eqb_refl in E. discriminate E.
  - specialize (IH d (i + 1) Hin). lia.
Qed.

Lemma cb_trunc_trunc : forall a h, trunc a (trunc a h) = trunc a h.
Proof. intros a h. unfold trunc. apply rt_takeN_takeN. lia. Qed.

Lemma cb_dkey_lt : forall a d, In d (a_descs a) -> dkey a d < lenN (a_descs a).
Proof.
  intros a d Hin. unfold dkey, key_of.
  pose proof (cb_first_with_in a (a_descs a) d 0 Hin) as Hlt. lia.
Qed.

(* ---------- chunk lists with contiguous offsets ---------- *)
Fixpoint contig (s : N) (sc : list (N * list N)) : Prop :=
  match sc with [] => True | oc :: r => fst oc = s /\ contig (s + lenN (snd oc)) r end.

Lemma cb_tiles_contig : forall data l s, BoundaryRule.tiles s l (lenN data) ->
  contig s (map (fun c => (fst c, slice data (fst c) (fst c + snd c))) l).
Proof.
  intros data. induction l as [|[o n] r IH]; intros s Ht; cbn [BoundaryRule.tiles] in Ht; cbn [map contig]; [exact I|].
  destruct Ht as (E & Hn & Ht). subst o. cbn [fst snd]. split; [reflexivity|].
  pose proof (tiles_le _ _ _ Ht) as Hle.
  rewrite cc_lenN_slice by exact Hle. replace (s + n - s) with n by lia. apply IH. exact Ht.
Qed.

Section Contig.
  Variable D : N -> list N.
  Variable key : list N -> N.

  Lemma cb_occs_contig : forall sc s, contig s sc ->
    (forall oc, In oc sc -> D (key (snd oc)) = snd oc) ->
    map (fun oc => (fst oc, key (snd oc))) sc = occs_from D (map (fun oc => key (snd oc)) sc) s.
  Proof.
    induction sc as [|oc r IH]; intros s Hc HD; cbn [map occs_from]; [reflexivity|].
    cbn [contig] in Hc. destruct Hc as [E Hc]. rewrite E. f_equal.
    rewrite (HD oc (or_introl eq_refl)). apply IH; [exact Hc|]. intros oc' Hoc'. apply HD. now right.
  Qed.

  Lemma cb_fold_add : forall sc idx,
    (forall oc, In oc sc -> D (key (snd oc)) = snd oc) ->
    fold_left (fun idx oc => ci_add idx (key (snd oc)) (lenN (snd oc)) [fst oc]) sc idx
    = fold_left (add_occ D) (map (fun oc => (fst oc, key (snd oc))) sc) idx.
  Proof.
    induction sc as [|oc r IH]; intros idx HD; cbn [map fold_left]; [reflexivity|].
    unfold add_occ at 2. cbn [fst snd]. rewrite (HD oc (or_introl eq_refl)).
    apply IH. intros oc' Hoc'. apply HD. now right.
  Qed.

  (* an index built by scanning a tiled byte string describes it *)
  Lemma cb_scan_describes : forall sc,
    contig 0 sc -> Forall (fun oc => 0 < lenN (snd oc)) sc ->
    (forall oc, In oc sc -> D (key (snd oc)) = snd oc) ->
    describes D (fold_left (fun idx oc => ci_add idx (key (snd oc)) (lenN (snd oc)) [fst oc]) sc [])
              (concat (map snd sc)).
  Proof.
    intros sc Hc Hpos HD.
    set (order := map (fun oc => key (snd oc)) sc).
    assert (Hpo : Forall (fun k => 0 < lenN (D k)) order).
    { unfold order. apply Forall_forall. intros k Hk. apply in_map_iff in Hk. destruct Hk as (oc & E & Hoc).
      subst k. rewrite (HD oc Hoc). rewrite Forall_forall in Hpos. apply Hpos. exact Hoc. }
    destruct (build_describes D order Hpo) as [Hdesc _].
    rewrite (cb_fold_add sc [] HD), (cb_occs_contig sc 0 Hc HD). fold order.
    replace (map snd sc) with (map D order); [exact Hdesc|].
    unfold order. rewrite map_map. apply map_ext_in. intros oc Hoc. apply HD. exact Hoc.
  Qed.

  (* the occurrences recorded by a scan are the scanned chunks under their keys *)
  Lemma cb_scan_inv : forall sc,
    (forall oc, In oc sc -> D (key (snd oc)) = snd oc) ->
    ib_inv D (fold_left (fun idx oc => ci_add idx (key (snd oc)) (lenN (snd oc)) [fst oc]) sc [])
           (map (fun oc => (fst oc, key (snd oc))) sc).
  Proof.
    intros sc HD. rewrite (cb_fold_add sc [] HD).
    exact (ib_fold D (map (fun oc => (fst oc, key (snd oc))) sc) [] [] (ib_init D)).
  Qed.
End Contig.

(* ================================================================== *)
(* 1. any opened archive                                               *)
(* ================================================================== *)
Section CloneBytesCorrect.
  Variable H : list N -> list N.
  Variable decomp : N -> list N -> option (list N).
  Hypothesis H_len : forall x, lenN (H x) = 64.
  Hypothesis H_bytes : forall x, Forall (fun b => b < 256) (H x).

  (* the chunks the archive's chunker finds in the old output (when it is scanned) and in the seeds *)
  Definition scanned (a : archive) (prior : list N) (inplace : bool) (seeds : list (list N)) : list (list N) :=
    (if inplace then map snd (scan_chunks a prior) else []) ++ flat_map (fun s => map snd (scan_chunks a s)) seeds.

  (* ---------- what a scan finds ---------- *)
  Lemma scan_chunks_facts : forall a data, valid_config (a_cfg a) = true ->
    contig 0 (scan_chunks a data)
    /\ Forall (fun oc => 0 < lenN (snd oc)) (scan_chunks a data)
    /\ (scan_chunks a data = [] \/ concat (map snd (scan_chunks a data)) = data).
  Proof.
    intros a data Hv. unfold scan_chunks.
    destruct (chunk_oneshot (a_cfg a) data) as [l| | |] eqn:EC.
    2-4: split; [exact I|]; split; [constructor|left; reflexivity].
    pose proof (chunk_oneshot_tiles _ _ _ Hv EC) as Ht.
    destruct (chunk_oneshot_concat _ _ _ Hv EC) as [Hcat Hne].
    assert (Esnd : map snd (map (fun c => (fst c, slice data (fst c) (fst c + snd c))) l) = chunk_datas data l).
    { rewrite map_map. reflexivity. }
    split; [apply cb_tiles_contig; exact Ht|]. split.
    - apply Forall_forall. intros oc Hoc. rewrite Forall_forall in Hne. apply Hne. rewrite <- Esnd.
      apply in_map. exact Hoc.
    - right. rewrite Esnd. exact Hcat.
  Qed.

  (* ---------- the chunk data of every key of this run ---------- *)
  Definition Dx (D : N -> list N) (a : archive) (cs : list (list N)) (k : N) : list N :=
    if k <? lenN (a_descs a) then D k
    else match find (fun c => hkey a (H c) =? k) cs with Some c => c | None => [] end.

  Section Keys.
    Variable D : N -> list N.
    Variable a : archive.
    Variable cs : list (list N).
    Hypothesis Hck : forall d, In d (a_descs a) -> trunc a (ad_checksum d) = trunc a (H (D (dkey a d))).
    Hypothesis Hinj : forall x y,
      In x (map (fun d => D (dkey a d)) (a_descs a) ++ cs) ->
      In y (map (fun d => D (dkey a d)) (a_descs a) ++ cs) ->
      trunc a (H x) = trunc a (H y) -> x = y.

    Lemma Dx_desc : forall d, In d (a_descs a) -> Dx D a cs (dkey a d) = D (dkey a d).
    Proof.
      intros d Hd. unfold Dx. pose proof (cb_dkey_lt a d Hd) as Hlt.
      destruct (N.ltb_spec (dkey a d) (lenN (a_descs a))) as [_|Hge]; [reflexivity|lia].
    Qed.

    Lemma hkey_cases : forall h,
      (key_of a h < lenN (a_descs a) /\ hkey a h = key_of a h)
      \/ (lenN (a_descs a) <= key_of a h /\ hkey a h = lenN (a_descs a) + 1 + code_of_bytes (trunc a h)).
    Proof.
      intros h. unfold hkey. cbv zeta.
      destruct (N.ltb_spec (key_of a h) (lenN (a_descs a))) as [L|L]; [left|right]; split; (exact L || reflexivity).
    Qed.

    Lemma Dx_scanned : forall c, In c cs -> Dx D a cs (hkey a (H c)) = c.
    Proof.
      intros c Hc. unfold Dx.
      assert (Hcin : In c (map (fun d => D (dkey a d)) (a_descs a) ++ cs)) by (apply in_or_app; now right).
      destruct (hkey_cases (H c)) as [[Hlt Ek]|[Hge Ek]].
      - (* the chunk has a descriptor's key: it is that descriptor's chunk *)
        rewrite Ek. destruct (N.ltb_spec (key_of a (H c)) (lenN (a_descs a))) as [_|Hge]; [|lia].
        unfold key_of in Hlt.
        destruct (cb_first_with_found a (trunc a (H c)) (a_descs a) 0) as (d & Hd & Ed); [lia|].
        assert (Edk : dkey a d = key_of a (H c)).
        { unfold dkey, key_of. rewrite Ed. reflexivity. }
        rewrite <- Edk. apply Hinj.
        + apply in_or_app. left. apply in_map_iff. exists d. split; [reflexivity|exact Hd].
        + exact Hcin.
        + rewrite <- (Hck d Hd). exact Ed.
      - (* an unknown chunk: the first scanned chunk with the same key is the chunk itself *)
        rewrite Ek. destruct (N.ltb_spec (lenN (a_descs a) + 1 + code_of_bytes (trunc a (H c))) (lenN (a_descs a)))
          as [Hlt|_]; [lia|].
        destruct (find (fun c' => hkey a (H c') =? lenN (a_descs a) + 1 + code_of_bytes (trunc a (H c))) cs)
          as [c'|] eqn:Ef.
        + apply find_some in Ef. destruct Ef as [Hc' Ek']. apply N.eqb_eq in Ek'.
          assert (Hc'in : In c' (map (fun d => D (dkey a d)) (a_descs a) ++ cs)) by (apply in_or_app; now right).
          apply Hinj; [exact Hc'in|exact Hcin|].
          destruct (hkey_cases (H c')) as [[Hlt' Ek2]|[Hge' Ek2]]; [lia|].
          apply cb_code_inj.
          * unfold trunc. apply rt_takeN_Forall. apply H_bytes.
          * unfold trunc. apply rt_takeN_Forall. apply H_bytes.
          * lia.
        + exfalso. pose proof (find_none _ _ Ef c Hc) as Hn. cbv beta in Hn. rewrite Ek, N.eqb_refl in Hn.
          discriminate Hn.
    Qed.

    (* a descriptor's chunk gets that descriptor's key *)
    Lemma hkey_desc : forall d, In d (a_descs a) -> hkey a (H (D (dkey a d))) = dkey a d.
    Proof.
      intros d Hd.
      assert (E : key_of a (H (D (dkey a d))) = dkey a d).
      { unfold key_of. rewrite <- (Hck d Hd). reflexivity. }
      unfold hkey. cbv zeta. rewrite E. pose proof (cb_dkey_lt a d Hd) as Hlt.
      destruct (N.ltb_spec (dkey a d) (lenN (a_descs a))) as [_|Hge]; [reflexivity|lia].
    Qed.
  End Keys.

  (* ---------- the index of a scanned file ---------- *)
  Lemma scan_out_ok : forall (D' : N -> list N) a prior, valid_config (a_cfg a) = true ->
    (forall c, In c (map snd (scan_chunks a prior)) -> D' (hkey a (H c)) = c) ->
    out_ok D' (Some (scan_index H a prior)) prior.
  Proof.
    intros D' a prior Hv HD.
    destruct (scan_chunks_facts a prior Hv) as (Hc & Hpos & Hcat).
    assert (HD' : forall oc, In oc (scan_chunks a prior) -> D' (hkey a (H (snd oc))) = snd oc).
    { intros oc Hoc. apply HD. apply in_map. exact Hoc. }
    pose proof (cb_scan_describes D' (fun c => hkey a (H c)) (scan_chunks a prior) Hc Hpos HD') as Hdesc.
    cbv beta in Hdesc. fold (scan_index H a prior) in Hdesc.
    destruct Hdesc as (Hwf & Hin & Hdis & _). unfold out_ok. split; [exact Hwf|]. split; [|exact Hdis].
    destruct Hcat as [E|E].
    - unfold scan_index. rewrite E. cbn [fold_left]. intros k o (l & Hg & _). discriminate Hg.
    - rewrite E in Hin. exact Hin.
  Qed.

  Lemma seed_feeds_sound : forall (D' : N -> list N) a seeds,
    (forall c, In c (flat_map (fun s => map snd (scan_chunks a s)) seeds) -> D' (hkey a (H c)) = c) ->
    sound_feeds D' (flat_map (seed_feeds H a) seeds).
  Proof.
    intros D' a seeds HD. unfold sound_feeds. apply Forall_forall. intros kd Hkd.
    apply in_flat_map in Hkd. destruct Hkd as (s & Hs & Hkd). unfold seed_feeds in Hkd.
    apply in_map_iff in Hkd. destruct Hkd as (oc & E & Hoc). subst kd. cbn [fst snd]. symmetry. apply HD.
    apply in_flat_map. exists s. split; [exact Hs|]. apply in_map. exact Hoc.
  Qed.

  (* the chunk-content function of a run and the premises of the index-level theorems for it *)
  Lemma clone_bytes_setup : forall (D : N -> list N) a src payload_of prior inplace seeds,
    describes D (build_source_index a) src -> desc_keys_ok a ->
    (forall d, In d (a_descs a) -> unpack H decomp a d (payload_of d) = Ok (D (dkey a d))) ->
    valid_config (a_cfg a) = true ->
    (forall d, In d (a_descs a) -> trunc a (ad_checksum d) = trunc a (H (D (dkey a d)))) ->
    (forall x y, In x (map (fun d => D (dkey a d)) (a_descs a) ++ scanned a prior inplace seeds) ->
                 In y (map (fun d => D (dkey a d)) (a_descs a) ++ scanned a prior inplace seeds) ->
                 trunc a (H x) = trunc a (H y) -> x = y) ->
    let D' := Dx D a (scanned a prior inplace seeds) in
    describes D' (build_source_index a) src
    /\ out_ok D' (if inplace then Some (scan_index H a prior) else None) prior
    /\ sound_feeds D' (flat_map (seed_feeds H a) seeds)
    /\ (forall d, In d (a_descs a) -> unpack H decomp a d (payload_of d) = Ok (D' (dkey a d)))
    /\ (forall k, In k (keys (build_source_index a)) -> D' k = D k)
    /\ (forall c, In c (scanned a prior inplace seeds) -> D' (hkey a (H c)) = c).
  Proof.
    intros D a src payload_of prior inplace seeds Hdesc Hkeys Hpay Hv Hck Hinj.
    set (cs := scanned a prior inplace seeds) in *.
    intros D'.
    assert (Hsc : forall c, In c cs -> D' (hkey a (H c)) = c).
    { intros c Hc. exact (Dx_scanned D a cs Hck Hinj c Hc). }
    assert (Hkd : forall k, In k (keys (build_source_index a)) -> D' k = D k).
    { intros k Hk. destruct Hkeys as [_ Hkk].
      apply Hkk in Hk. apply in_map_iff in Hk. destruct Hk as (d & E & Hd). subst k.
      apply Dx_desc. exact Hd. }
    split.
    { apply (cb_describes_ext D D'); [|exact Hdesc]. intros k Hk. symmetry. apply Hkd. exact Hk. }
    split.
    { destruct inplace; [|exact I]. apply scan_out_ok; [exact Hv|]. intros c Hc. apply Hsc.
      unfold cs, scanned. apply in_or_app. left. exact Hc. }
    split.
    { apply seed_feeds_sound. intros c Hc. apply Hsc. unfold cs, scanned. apply in_or_app. right. exact Hc. }
    split.
    { intros d Hd. unfold D'. rewrite (Dx_desc D a cs d Hd). apply Hpay. exact Hd. }
    split; [exact Hkd|exact Hsc].
  Qed.

  Theorem clone_bytes_general : forall (D : N -> list N) a src payload_of prior inplace seeds,
    describes D (build_source_index a) src -> desc_keys_ok a ->
    (forall d, In d (a_descs a) -> unpack H decomp a d (payload_of d) = Ok (D (dkey a d))) ->
    valid_config (a_cfg a) = true ->
    (* every descriptor's checksum is the (truncated) hash of its chunk *)
    (forall d, In d (a_descs a) -> trunc a (ad_checksum d) = trunc a (H (D (dkey a d)))) ->
    (* the strong hash, truncated to the archive's hash length, does not collide on the chunks this run looks at:
       the archive's chunks and whatever the chunker finds in the old output (when scanned) and in the seeds *)
    (forall x y, In x (map (fun d => D (dkey a d)) (a_descs a) ++ scanned a prior inplace seeds) ->
                 In y (map (fun d => D (dkey a d)) (a_descs a) ++ scanned a prior inplace seeds) ->
                 trunc a (H x) = trunc a (H y) -> x = y) ->
    exists r, clone_bytes H decomp a payload_of prior inplace seeds = Ok r
      /\ o_err (cr_state r) = None /\ cr_index r = [] /\ takeN (lenN src) (o_file (cr_state r)) = src.
  Proof.
    intros D a src payload_of prior inplace seeds Hdesc Hkeys Hpay Hv Hck Hinj.
    destruct (clone_bytes_setup D a src payload_of prior inplace seeds Hdesc Hkeys Hpay Hv Hck Hinj)
      as (Hdesc' & Hout & Hss & Hpay' & _ & _).
    unfold clone_bytes.
    exact (genuine_payloads_clone H decomp _ a src payload_of prior _ _ Hdesc' Hout Hss Hkeys Hpay').
  Qed.
End CloneBytesCorrect.

Print Assumptions clone_bytes_general.

(* ================================================================== *)
(* 2. archives written by the model writer                             *)
(* ================================================================== *)
(* the chunk data a chunker configuration finds in a byte string (nothing when the chunker fails) *)
Definition chunks_of (cfg : config) (data : list N) : list (list N) :=
  match chunk_oneshot cfg data with Ok l => chunk_datas data l | _ => [] end.

Definition scanned_cfg (cfg : config) (prior : list N) (inplace : bool) (seeds : list (list N)) : list (list N) :=
  (if inplace then chunks_of cfg prior else []) ++ flat_map (chunks_of cfg) seeds.

Lemma scan_chunks_snd : forall a data, map snd (scan_chunks a data) = chunks_of (a_cfg a) data.
Proof.
  intros a data. unfold scan_chunks, chunks_of. destruct (chunk_oneshot (a_cfg a) data); try reflexivity.
  rewrite map_map. reflexivity.
Qed.

Lemma scanned_scanned_cfg : forall a prior inplace seeds,
  scanned a prior inplace seeds = scanned_cfg (a_cfg a) prior inplace seeds.
Proof.
  intros a prior inplace seeds. unfold scanned, scanned_cfg. f_equal.
  - destruct inplace; [apply scan_chunks_snd|reflexivity].
  - apply flat_map_ext. intros s. apply scan_chunks_snd.
Qed.

Lemma valid_config_cfg_read : forall c, valid_config c = true -> valid_config (cfg_read c) = true.
Proof.
  intros c Hv. unfold cfg_read. destruct (c_algo c) eqn:Ea; try exact Hv.
  unfold valid_config in *. rewrite Ea in Hv. cbn [c_algo c_max]. exact Hv.
Qed.

Section WriterArchives.
  Variable H : list N -> list N.
  Variable comp : list N -> list N.
  Variable decomp : N -> list N -> option (list N).
  Hypothesis H_len : forall x, lenN (H x) = 64.
  Hypothesis H_bytes : forall x, Forall (fun b => b < 256) (H x).

  (* the truncated strong hash does not collide on the chunks of the source together with the chunks the
     reader's chunker finds in the old output (when it is scanned) and in the seeds *)
  Definition no_collision (o : copts) (src prior : list N) (inplace : bool) (seeds : list (list N)) : Prop :=
    forall x y,
      In x (chunks_of (o_cfg o) src ++ scanned_cfg (cfg_read (o_cfg o)) prior inplace seeds) ->
      In y (chunks_of (o_cfg o) src ++ scanned_cfg (cfg_read (o_cfg o)) prior inplace seeds) ->
      takeN (o_hashlen o) (H x) = takeN (o_hashlen o) (H y) -> x = y.

  Lemma no_collision_trunc_inj : forall o src prior inplace seeds,
    no_collision o src prior inplace seeds -> trunc_inj H o src.
  Proof.
    intros o src prior inplace seeds Hnc chunks EC x y Hx Hy E.
    apply Hnc; [| |exact E]; apply in_or_app; left; unfold chunks_of; rewrite EC; assumption.
  Qed.

  (* compress_archive_describes, with the checksums of the descriptors and the origin of their chunks *)
  Lemma compress_archive_describes_ck : forall src o bytes,
    opts_ok o -> bytes_ok src -> lenN src < 18446744073709551616 -> lenN bytes < 18446744073709551616 ->
    trunc_inj H o src -> few_chunks o src ->
    compress_model H comp src o = Ok bytes ->
    exists a uniq, try_init H (file_read_at bytes) = Ok a
      /\ describes (lookup uniq) (build_source_index a) src
      /\ desc_keys_ok a
      /\ (codec_ok comp decomp o -> forall d, In d (a_descs a) ->
            unpack H decomp a d (file_payload bytes d) = Ok (lookup uniq (dkey a d)))
      /\ (forall d, In d (a_descs a) ->
            In (lookup uniq (dkey a d)) (chunks_of (o_cfg o) src)
            /\ ad_checksum d = takeN (o_hashlen o) (H (lookup uniq (dkey a d))))
      /\ a_cfg a = cfg_read (o_cfg o) /\ a_hashlen a = o_hashlen o /\ a_total a = lenN src.
  Proof.
    intros src o bytes Hok Hsrc Hls Hlb Hti Hfew Hm.
    destruct (compress_then_init H comp H_len H_bytes src o bytes Hok Hsrc Hls Hlb Hm)
      as (chunks & uniq & order & hdr & hck & EC & Hnd & Hin & Hord & Hfo & Hseen & Eb & Hinit).
    pose proof Hok as (Hv & _ & _ & _ & _ & _ & Hhl64 & _).
    match type of Hinit with _ = Ok ?r => set (a := r) in * end.
    assert (Und : NoDup uniq) by (eapply rt_NoDup_map_inv; exact Hnd).
    assert (Uinj : forall x y, In x uniq -> In y uniq ->
              takeN (o_hashlen o) (H x) = takeN (o_hashlen o) (H y) -> x = y).
    { intros x y Hx Hy E. apply (Hti chunks EC x y (Hin x Hx) (Hin y Hy) E). }
    assert (Hlu : lenN uniq < 4294967296).
    { specialize (Hfew chunks EC). assert (Hle : (length uniq <= length (chunk_datas src chunks))%nat).
      { apply NoDup_incl_length; [exact Und|]. intros x Hx. apply Hin. exact Hx. }
      unfold chunk_datas in Hle. rewrite map_length in Hle. rewrite (rt_lenN_length uniq).
      rewrite (rt_lenN_length chunks) in Hfew. lia. }
    assert (Hnth : Forall (fun i => exists x, nthN i uniq = Some x) order).
    { clear - Hord. induction Hord as [|i dd order done (x & Hx & _) HF IH]; constructor; [|exact IH].
      exists x. exact Hx. }
    assert (Hidx : Forall (fun i => i < lenN uniq) order).
    { eapply Forall_impl; [|exact Hnth]. intros i (x & Hx). eapply cc_nthN_lt. exact Hx. }
    assert (Eo : a_order a = order).
    { unfold a. cbn [a_order]. rewrite <- (map_id order) at 2. apply map_ext_in. intros i Hi.
      rewrite Forall_forall in Hidx. specialize (Hidx i Hi). apply cc_w32_small. unfold M32. lia. }
    assert (CF : collision_free H (chunk_datas src chunks)).
    { intros x y Hx Hy E. apply (Hti chunks EC x y Hx Hy). rewrite E. reflexivity. }
    assert (Esrc : concat (map (lookup uniq) order) = src).
    { rewrite (lookup_exact H uniq (chunk_datas src chunks) order (chunk_datas src chunks) Hord Hin
                 (fun d h => h) CF).
      apply (chunk_oneshot_concat _ _ _ Hv EC). }
    assert (Hpos : Forall (fun k => 0 < lenN (lookup uniq k)) order).
    { eapply Forall_impl; [|exact Hnth]. intros i (x & Hx). unfold lookup. rewrite Hx.
      eapply chunk_data_sizes; [exact Hok|exact EC|]. apply Hin. eapply cc_nthN_In. exact Hx. }
    destruct (build_describes (lookup uniq) order Hpos) as [Hdesc Hkeys].
    pose proof (source_index_build H comp o uniq (lenN hdr) a eq_refl eq_refl Uinj Und order Eo Hidx) as Eidx.
    rewrite <- Eidx, Esrc in Hdesc. rewrite <- Eidx in Hkeys.
    exists a, uniq. split; [exact Hinit|]. split; [exact Hdesc|]. split.
    { unfold desc_keys_ok. rewrite (dkeys_all H comp o uniq (lenN hdr) a eq_refl eq_refl Uinj Und). split.
      - apply rt_nseq_NoDup.
      - intros k. rewrite Hkeys, rt_nseq_In. split.
        + intros Hk. rewrite Forall_forall in Hidx. specialize (Hidx k Hk). lia.
        + intros Hk. apply (rt_focc_all order 0 k Hfo); [lia|]. rewrite Hseen. lia. }
    split.
    { intros Hcodec d Hd.
      exact (payload_unpack H comp decomp H_len o uniq (lenN hdr) a eq_refl eq_refl Uinj Und bytes hdr Eb eq_refl
               eq_refl Hcodec Hhl64 d Hd). }
    split.
    { intros d Hd.
      destruct (desc_split H comp o uniq (lenN hdr) a eq_refl eq_refl Uinj Und d Hd) as (pre & x & post & Eu & Ed & El).
      rewrite El. split.
      - unfold chunks_of. rewrite EC. apply Hin. rewrite Eu. apply in_or_app. right. now left.
      - rewrite Ed. reflexivity. }
    split; [reflexivity|]. split; reflexivity.
  Qed.

  Theorem compress_then_clone_bytes : forall src o bytes prior inplace seeds,
    opts_ok o -> bytes_ok src -> lenN src < 18446744073709551616 -> lenN bytes < 18446744073709551616 ->
    codec_ok comp decomp o -> few_chunks o src ->
    no_collision o src prior inplace seeds ->
    compress_model H comp src o = Ok bytes ->
    exists a r, try_init H (file_read_at bytes) = Ok a
      /\ clone_bytes H decomp a (file_payload bytes) prior inplace seeds = Ok r
      /\ o_err (cr_state r) = None /\ cr_index r = [] /\ takeN (lenN src) (o_file (cr_state r)) = src.
  Proof.
    intros src o bytes prior inplace seeds Hok Hsrc Hls Hlb Hcodec Hfew Hnc Hm.
    pose proof (no_collision_trunc_inj o src prior inplace seeds Hnc) as Hti.
    destruct (compress_archive_describes_ck src o bytes Hok Hsrc Hls Hlb Hti Hfew Hm)
      as (a & uniq & Hinit & Hdesc & Hkeys & Hpay & Hck & Ecfg & Ehl & _).
    pose proof Hok as (Hv & _).
    assert (Htr : forall d, In d (a_descs a) ->
              trunc a (ad_checksum d) = trunc a (H (lookup uniq (dkey a d)))).
    { intros d Hd. destruct (Hck d Hd) as [_ E]. rewrite E. unfold trunc. rewrite Ehl.
      apply rt_takeN_takeN. lia. }
    destruct (clone_bytes_general H decomp H_bytes (lookup uniq) a src (file_payload bytes) prior inplace seeds
                Hdesc Hkeys (Hpay Hcodec)) as (r & Hr & He & Hi & Hf).
    - rewrite Ecfg. apply valid_config_cfg_read. exact Hv.
    - exact Htr.
    - assert (Hsub : forall x,
                In x (map (fun d => lookup uniq (dkey a d)) (a_descs a) ++ scanned a prior inplace seeds) ->
                In x (chunks_of (o_cfg o) src ++ scanned_cfg (cfg_read (o_cfg o)) prior inplace seeds)).
      { intros x Hx. apply in_app_or in Hx. apply in_or_app. destruct Hx as [Hx|Hx].
        - left. apply in_map_iff in Hx. destruct Hx as (d & E & Hd). subst x. apply (Hck d Hd).
        - right. rewrite scanned_scanned_cfg, Ecfg in Hx. exact Hx. }
      intros x y Hx Hy E. apply Hnc; [apply Hsub; exact Hx|apply Hsub; exact Hy|].
      unfold trunc in E. rewrite Ehl in E. exact E.
    - exists a, r. repeat split; assumption.
  Qed.

  (* ---------- 3. the old output and the seeds do not influence the result ---------- *)
  Corollary seeds_and_old_output_irrelevant_bytes :
    forall src o bytes prior1 inplace1 seeds1 prior2 inplace2 seeds2,
    opts_ok o -> bytes_ok src -> lenN src < 18446744073709551616 -> lenN bytes < 18446744073709551616 ->
    codec_ok comp decomp o -> few_chunks o src ->
    no_collision o src prior1 inplace1 seeds1 ->
    no_collision o src prior2 inplace2 seeds2 ->
    compress_model H comp src o = Ok bytes ->
    exists a r1 r2, try_init H (file_read_at bytes) = Ok a
      /\ clone_bytes H decomp a (file_payload bytes) prior1 inplace1 seeds1 = Ok r1
      /\ clone_bytes H decomp a (file_payload bytes) prior2 inplace2 seeds2 = Ok r2
      /\ o_err (cr_state r1) = None /\ o_err (cr_state r2) = None
      /\ takeN (lenN src) (o_file (cr_state r1)) = src
      /\ takeN (lenN src) (o_file (cr_state r2)) = takeN (lenN src) (o_file (cr_state r1)).
  Proof.
    intros src o bytes prior1 inplace1 seeds1 prior2 inplace2 seeds2 Hok Hsrc Hls Hlb Hcodec Hfew Hnc1 Hnc2 Hm.
    destruct (compress_then_clone_bytes src o bytes prior1 inplace1 seeds1 Hok Hsrc Hls Hlb Hcodec Hfew Hnc1 Hm)
      as (a1 & r1 & Ha1 & Hr1 & He1 & _ & Hf1).
    destruct (compress_then_clone_bytes src o bytes prior2 inplace2 seeds2 Hok Hsrc Hls Hlb Hcodec Hfew Hnc2 Hm)
      as (a2 & r2 & Ha2 & Hr2 & He2 & _ & Hf2).
    assert (Ea : a2 = a1) by congruence. subst a2.
    exists a1, r1, r2. repeat split; try assumption. rewrite Hf1, Hf2. reflexivity.
  Qed.

  (* ---------- the whole command on a regular file: open, clone, resize ---------- *)
  Lemma set_len_exact : forall n (f src : list N), takeN n f = src -> lenN src = n -> set_len n f = src.
  Proof.
    intros n f src Ht Hl. unfold set_len. rewrite Ht.
    assert (Hle : n <= lenN f).
    { rewrite <- Ht in Hl. rewrite cc_lenN_takeN in Hl. lia. }
    replace (n - lenN f) with 0 by lia. cbn [N.to_nat repeat]. apply app_nil_r.
  Qed.

  Theorem open_and_clone_bytes_correct : forall src o bytes prior inplace seeds,
    opts_ok o -> bytes_ok src -> lenN src < 18446744073709551616 -> lenN bytes < 18446744073709551616 ->
    codec_ok comp decomp o -> few_chunks o src ->
    no_collision o src prior inplace seeds ->
    compress_model H comp src o = Ok bytes ->
    open_and_clone_bytes H decomp bytes prior inplace seeds = Ok src.
  Proof.
    intros src o bytes prior inplace seeds Hok Hsrc Hls Hlb Hcodec Hfew Hnc Hm.
    destruct (compress_then_clone_bytes src o bytes prior inplace seeds Hok Hsrc Hls Hlb Hcodec Hfew Hnc Hm)
      as (a & r & Ha & Hr & He & _ & Hf).
    destruct (reader_reports_writer H comp H_len H_bytes src o bytes Hok Hsrc Hls Hlb Hm)
      as (a' & Ha' & Htot & _).
    assert (Ea : a' = a) by congruence. subst a'.
    unfold open_and_clone_bytes. rewrite Ha. cbn [bind]. rewrite Hr. cbn [bind]. rewrite He, Htot.
    f_equal. apply set_len_exact; [exact Hf|reflexivity].
  Qed.
End WriterArchives.

Print Assumptions compress_then_clone_bytes.
Print Assumptions seeds_and_old_output_irrelevant_bytes.
Print Assumptions open_and_clone_bytes_correct.

(* ================================================================== *)
(* 4. concrete evidence                                                *)
(* ================================================================== *)
Definition cb_run (o : copts) (src prior : list N) (inplace : bool) (seeds : list (list N)) :=
  match compress_model rt_toyH rt_toycomp src o with
  | Ok bytes =>
      match try_init rt_toyH (file_read_at bytes) with
      | Ok a =>
          match clone_bytes rt_toyH rt_toydecomp a (file_payload bytes) prior inplace seeds with
          | Ok r => Some (open_and_clone_bytes rt_toyH rt_toydecomp bytes prior inplace seeds,
                          map snd (scan_chunks a prior), map (fun s => map snd (scan_chunks a s)) seeds,
                          cr_moved r, cr_fed r, cr_fetch r, o_file (cr_state r))
          | _ => None
          end
      | _ => None
      end
  | _ => None
  end.

(* FixedSize 2: the old output holds the chunks [3;4] and [1;2] (at other offsets) and unknown chunks, the seed
   holds the chunk [5]: 6 bytes are moved in place, 1 byte comes from the seed, nothing is fetched, and the
   file is truncated to the source length *)
Example cb_fixed_inplace_seed :
  cb_run {| o_cfg := {| c_algo := AFixed; c_bits := 0; c_min := 0; c_max := 2; c_win := 0 |};
            o_hashlen := 4; o_comp := Some (E_CompressionType_BROTLI, 6); o_meta := [([97], [1; 2])];
            o_version := [48] |}
         [1; 2; 3; 4; 1; 2; 5] [3; 4; 9; 9; 1; 2; 8; 8; 8] true [[0; 0; 5]]
  = Some (Ok [1; 2; 3; 4; 1; 2; 5],
          [[3; 4]; [9; 9]; [1; 2]; [8; 8]; [8]], [[[0; 0]; [5]]],
          6, [0; 1], [], [1; 2; 3; 4; 1; 2; 5; 8; 8]).
Proof. vm_compute. reflexivity. Qed.

(* RollSum: chunks of the old output and of the seed are reused, the rest is fetched from the archive *)
Example cb_rolling_inplace_seed :
  cb_run {| o_cfg := {| c_algo := ARollSum; c_bits := 1; c_min := 1; c_max := 3; c_win := 1 |};
            o_hashlen := 64; o_comp := None; o_meta := []; o_version := [] |}
         [1; 2; 3; 4; 1; 2; 5; 6; 7; 8; 9; 10; 11] [5; 6; 7; 3; 4; 9; 9; 1; 2; 8; 8; 8] true [[0; 0; 5; 9; 10; 11]]
  = Some (Ok [1; 2; 3; 4; 1; 2; 5; 6; 7; 8; 9; 10; 11],
          [[5]; [6; 7]; [3]; [4; 9]; [9]; [1]; [2; 8; 8]; [8]], [[[0; 0; 5]; [9]; [10; 11]]],
          3, [0; 0; 2; 2; 2; 2; 2], [1; 2; 3; 5], [1; 2; 3; 4; 1; 2; 5; 6; 7; 8; 9; 10; 11]).
Proof. vm_compute. reflexivity. Qed.

(* The hypotheses of [compress_then_clone_bytes] are jointly satisfiable: an instance with every premise
   discharged (old output scanned in place, one seed). *)
Example cb_instance :
  let o := {| o_cfg := {| c_algo := AFixed; c_bits := 0; c_min := 0; c_max := 2; c_win := 0 |};
              o_hashlen := 4; o_comp := Some (E_CompressionType_BROTLI, 6); o_meta := [([97], [1; 2])];
              o_version := [48] |} in
  let src := [1; 2; 3; 4; 1; 2; 5] in
  let prior := [3; 4; 9; 9; 1; 2; 8; 8; 8] in
  let seeds := [[0; 0; 5]] in
  let comp := fun x : list N => 0 :: 0 :: x in
  let decomp := fun (t : N) (y : list N) => Some (tl (tl y)) in
  exists bytes,
    compress_model rt_toyH comp src o = Ok bytes
    /\ open_and_clone_bytes rt_toyH decomp bytes prior true seeds = Ok src.
Proof.
  intros o src prior seeds comp decomp.
  destruct (compress_model rt_toyH comp src o) as [bytes| | |] eqn:Em; try (vm_compute in Em; discriminate).
  assert (Hlb : lenN bytes < 18446744073709551616).
  { vm_compute in Em. apply rt_ok_inj in Em. subst bytes. vm_compute. reflexivity. }
  exists bytes. split; [reflexivity|].
  apply (open_and_clone_bytes_correct rt_toyH comp decomp rt_toyH_len rt_toyH_bytes src o bytes prior true seeds).
  - unfold opts_ok. cbn. repeat split; try lia; try reflexivity.
    + right. exists E_CompressionType_BROTLI, 6. split; [reflexivity|split; [reflexivity|lia]].
    + constructor; [lia|constructor].
    + constructor; [|constructor]. cbn. repeat split; repeat constructor.
  - repeat constructor.
  - vm_compute. reflexivity.
  - exact Hlb.
  - intros t l x _. reflexivity.
  - intros chunks EC. vm_compute in EC. apply rt_ok_inj in EC. subst chunks. vm_compute. reflexivity.
  - intros x y Hx Hy. vm_compute in Hx, Hy.
    repeat (destruct Hx as [Hx|Hx]; [subst x|]); try contradiction;
    repeat (destruct Hy as [Hy|Hy]; [subst y|]); try contradiction;
    intros E; vm_compute in E; try reflexivity; discriminate E.
  - exact Em.
Qed.
Print Assumptions cb_instance.
