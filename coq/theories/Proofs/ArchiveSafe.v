(* Safety of opening/inspecting untrusted archives (C15, open/inspect part) and header integrity
   (C04, "any change inside the header is rejected" part), on the model of Model/Archive.v. *)
From Coq Require Import NArith List Lia Bool Arith PeanoNat.
From Bita Require Import Model.Base Gen.Generated Model.Chunker Model.ChunkIndex Model.Proto Model.Archive.
From Bita Require Import Proofs.ChunkerRefine.
Import ListNotations.
Open Scope N_scope.

(* ------------------------------------------------------------------ *)
(* generic list facts: bridge to firstn/skipn *)

Lemma AS_takeN_firstn {A} : forall (l : list A) n, takeN n l = firstn (N.to_nat n) l.
Proof.
  induction l as [|x r IH]; intros n; cbn [takeN].
  - destruct (N.to_nat n); reflexivity.
  - destruct (N.eqb_spec n 0) as [->|Hn]; [reflexivity|].
    replace (N.to_nat n) with (S (N.to_nat (N.pred n))) by lia. cbn [firstn]. rewrite IH. reflexivity.
Qed.

Lemma AS_dropN_skipn {A} : forall (l : list A) n, dropN n l = skipn (N.to_nat n) l.
Proof.
  induction l as [|x r IH]; intros n; cbn [dropN].
  - destruct (N.to_nat n); reflexivity.
  - destruct (N.eqb_spec n 0) as [->|Hn]; [reflexivity|].
    replace (N.to_nat n) with (S (N.to_nat (N.pred n))) by lia. cbn [skipn]. rewrite IH. reflexivity.
Qed.

Lemma AS_lenN_length {A} : forall (l : list A), lenN l = N.of_nat (length l).
Proof. induction l as [|x r IH]; cbn [lenN length]; [reflexivity|]. rewrite IH. lia. Qed.

Lemma AS_lenN_app {A} (a b : list A) : lenN (a ++ b) = lenN a + lenN b.
Proof. rewrite !AS_lenN_length, app_length. lia. Qed.

Lemma slice_firstn_skipn (l : list N) a b :
  slice l a b = firstn (N.to_nat (b - a)) (skipn (N.to_nat a) l).
Proof. unfold slice. rewrite AS_takeN_firstn, AS_dropN_skipn. reflexivity. Qed.

Lemma firstn_app_skipn_nat {A} : forall a (l : list A) c,
  firstn a l ++ firstn c (skipn a l) = firstn (a + c)%nat l.
Proof.
  induction a as [|a IH]; intros l c; [reflexivity|].
  destruct l as [|x r]; cbn [firstn skipn app plus].
  - destruct c; reflexivity.
  - rewrite IH. reflexivity.
Qed.

Lemma skipn_firstn_nat {A} : forall a n (l : list A),
  skipn a (firstn n l) = firstn (n - a)%nat (skipn a l).
Proof.
  induction a as [|a IH]; intros n l.
  - cbn [skipn]. rewrite Nat.sub_0_r. reflexivity.
  - destruct n as [|n]; [destruct (skipn (S a) l); reflexivity|].
    destruct l as [|x r]; [cbn [firstn skipn]; rewrite firstn_nil; reflexivity|]. cbn [firstn skipn Nat.sub]. apply IH.
Qed.

Lemma firstn_firstn_nat {A} : forall a n (l : list A), (a <= n)%nat -> firstn a (firstn n l) = firstn a l.
Proof.
  induction a as [|a IH]; intros n l Hle; [reflexivity|].
  destruct n as [|n]; [lia|]. destruct l as [|x r]; [reflexivity|].
  cbn [firstn]. rewrite IH by lia. reflexivity.
Qed.

Lemma takeN_takeN {A} (l : list A) a n : a <= n -> takeN a (takeN n l) = takeN a l.
Proof. intros Hle. rewrite !AS_takeN_firstn. apply firstn_firstn_nat. lia. Qed.

Lemma slice_takeN (l : list N) a b n : b <= n -> slice (takeN n l) a b = slice l a b.
Proof.
  intros Hle. rewrite !slice_firstn_skipn, AS_takeN_firstn, skipn_firstn_nat.
  apply firstn_firstn_nat. lia.
Qed.

Lemma slice_0 (l : list N) n : slice l 0 n = takeN n l.
Proof. unfold slice. rewrite N.sub_0_r. destruct l; reflexivity. Qed.

Lemma takeN_app_slice (l : list N) a b : a <= b -> takeN a l ++ slice l a b = takeN b l.
Proof.
  intros Hle. rewrite slice_firstn_skipn, !AS_takeN_firstn, firstn_app_skipn_nat.
  f_equal. lia.
Qed.

Lemma lenN_takeN_le {A} (l : list A) n : n <= lenN l -> lenN (takeN n l) = n.
Proof.
  rewrite AS_takeN_firstn, !AS_lenN_length, firstn_length. intros Hle. lia.
Qed.

Lemma list_eqb_eq : forall a b, list_eqb a b = true <-> a = b.
Proof.
  induction a as [|x a IH]; intros [|y b]; cbn [list_eqb]; try (split; [discriminate|discriminate]).
  - split; reflexivity.
  - rewrite andb_true_iff, N.eqb_eq, IH. split.
    + intros [-> ->]. reflexivity.
    + intros E. injection E as -> ->. split; reflexivity.
Qed.

Lemma nthN_some {A} : forall (l : list A) i, i < lenN l -> exists d, nthN i l = Some d.
Proof.
  induction l as [|x r IH]; intros i Hi; cbn [lenN nthN] in *; [lia|].
  destruct (N.eqb_spec i 0) as [->|Hn]; [eexists; reflexivity|].
  apply IH. lia.
Qed.

Lemma existsb_false_Forall (n : N) (l : list N) :
  existsb (fun i => n <=? i) l = false -> Forall (fun i => i < n) l.
Proof.
  induction l as [|x r IH]; cbn [existsb]; intros E; [constructor|].
  apply orb_false_iff in E. destruct E as [E1 E2]. constructor; [|apply IH; exact E2].
  apply N.leb_gt. exact E1.
Qed.

(* ------------------------------------------------------------------ *)
(* outcome helper *)

Definition ok_or_err {A} (x : outcome A) : Prop :=
  match x with Ok _ | Err _ => True | Panic _ | OutOfFuel => False end.

Definition reader_total (read_at : N -> N -> outcome (list N)) : Prop :=
  forall off n, match read_at off n with Ok _ | Err _ => True | _ => False end.

(* ------------------------------------------------------------------ *)
(* the H-independent conversion/validation steps *)

Lemma abs_descs_total o : forall ds, ok_or_err (abs_descs o ds).
Proof.
  induction ds as [|d r IH]; cbn [abs_descs]; [exact I|].
  destruct (_ && _); [|exact I].
  destruct (abs_descs o r); cbn [bind ok_or_err] in *; auto.
Qed.

Lemma abs_descs_bounds o : forall ds descs, abs_descs o ds = Ok descs ->
  Forall (fun d => ad_offset d + ad_size d < M64) descs.
Proof.
  induction ds as [|d r IH]; cbn [abs_descs]; intros descs E.
  - injection E as <-. constructor.
  - destruct (_ && _) eqn:Eb; [|discriminate].
    destruct (abs_descs o r) as [r'| | |]; cbn [bind] in E; try discriminate.
    injection E as <-. apply andb_true_iff in Eb. destruct Eb as [_ Eb]. apply N.ltb_lt in Eb.
    constructor; [cbn [ad_offset ad_size]; exact Eb|apply IH; reflexivity].
Qed.

Lemma comp_of_total c : ok_or_err (comp_of c).
Proof. unfold comp_of. destruct (_ =? _); [exact I|]. destruct (supported_compression _); exact I. Qed.

Lemma config_of_total p : ok_or_err (config_of p).
Proof.
  unfold config_of. destruct (_ =? _).
  - destruct (_ <=? _); exact I.
  - destruct (_ || _); [|exact I]. destruct (_ && _); exact I.
Qed.

Lemma config_of_valid p cfg : config_of p = Ok cfg ->
  valid_config cfg = true /\
  (c_algo cfg = AFixed \/ (1 <= c_win cfg /\ 1 <= c_bits cfg /\ c_bits cfg <= 30)).
Proof.
  unfold config_of. destruct (p_algo p =? E_ChunkingAlgorithm_FIXED_SIZE).
  - destruct (1 <=? p_max p) eqn:E1; [|discriminate]. intros E. injection E as <-.
    split; [unfold valid_config; cbn [c_algo c_max]; exact E1|left; reflexivity].
  - destruct (_ || _); [|discriminate].
    destruct (_ && _) eqn:Eb; [|discriminate]. intros E. injection E as <-.
    repeat (apply andb_true_iff in Eb; let E' := fresh "Eb" in destruct Eb as [Eb E']).
    rewrite N.leb_le in *.
    split.
    + unfold valid_config. cbn [c_algo c_bits c_min c_max c_win].
      assert (Hv : (1 <=? p_win p) && (p_min p <=? p_max p) && (p_win p <=? p_max p) && (1 <=? p_max p)
                   && (1 <=? p_bits p) && (p_bits p <=? 32) = true).
      { repeat (apply andb_true_iff; split); apply N.leb_le; lia. }
      destruct (p_algo p =? E_ChunkingAlgorithm_BUZHASH); exact Hv.
    + right. cbn [c_bits c_win]. lia.
Qed.

Lemma filter_mask_ok bits : 1 <= bits -> bits <= 32 -> exists m, filter_mask bits = Ok m.
Proof.
  intros H1 H2. unfold filter_mask.
  destruct (N.ltb_spec 32 bits); [lia|]. destruct (N.eqb_spec bits 0); [lia|]. eexists; reflexivity.
Qed.

Section ArchiveSafe.
  Variable H : list N -> list N.

  (* ---------------------------------------------------------------- *)
  (* A. totality *)

  Theorem try_init_total : forall read_at, reader_total read_at ->
    match try_init H read_at with Ok _ | Err _ => True | Panic _ | OutOfFuel => False end.
  Proof.
    intros read_at Hr. change (ok_or_err (try_init H read_at)). unfold try_init.
    pose proof (Hr 0 PRE_HEADER_SIZE) as Hr0.
    destruct (read_at 0 PRE_HEADER_SIZE) as [pre|e|p|]; cbn [bind ok_or_err]; try exact I; try contradiction.
    destruct (negb (_ || _)); [exact I|]. cbv zeta.
    destruct (negb (_ <? M64)); [exact I|].
    match goal with |- context [read_at ?a ?b] => pose proof (Hr a b) as Hr1; destruct (read_at a b) as [rest|e|p|] end;
      cbn [bind ok_or_err]; try exact I; try contradiction.
    destruct (negb (_ =? _)); [exact I|].
    destruct (negb (list_eqb _ _)); [exact I|].
    destruct (decode_dict _) as [d|]; [|exact I].
    match goal with |- context [abs_descs ?o ?ds] => pose proof (abs_descs_total o ds) as Ha; destruct (abs_descs o ds) as [descs|e|p|] end;
      cbn [bind ok_or_err] in *; try exact I; try contradiction.
    destruct (dict_params d) as [p|]; [|exact I].
    destruct (existsb _ _); [exact I|].
    destruct (dict_comp d) as [c|]; [|exact I].
    pose proof (comp_of_total c) as Hc. destruct (comp_of c) as [comp|e|pp|]; cbn [bind ok_or_err] in *; try exact I; try contradiction.
    pose proof (config_of_total p) as Hp. destruct (config_of p) as [cfg|e|pp|]; cbn [bind ok_or_err] in *; try exact I; try contradiction.
  Qed.

  Lemma file_reader_total f : reader_total (file_read_at f).
  Proof. intros off n. unfold file_read_at. destruct (_ <=? _); exact I. Qed.

  Theorem try_init_file_total : forall f,
    match try_init H (file_read_at f) with Ok _ | Err _ => True | Panic _ | OutOfFuel => False end.
  Proof. intros f. apply try_init_total, file_reader_total. Qed.

  (* ---------------------------------------------------------------- *)
  (* inversion of acceptance *)

  Definition accepted (read_at : N -> N -> outcome (list N)) (a : archive)
             (pre rest : list N) (d : dictionary) (p : chunker_params) (c : compression)
             (descs : list adesc) (comp : option (N * N)) (cfg : config) : Prop :=
    let dsize := le_value (slice pre 6 PRE_HEADER_SIZE) in
    let trailer := dsize + TRAILER_OFFSET_SIZE + TRAILER_HASH_SIZE in
    let header := pre ++ rest in
    let offs := PRE_HEADER_SIZE + dsize + TRAILER_OFFSET_SIZE in
    let sum := slice header offs (offs + TRAILER_HASH_SIZE) in
    let data_offset := le_value (slice header (PRE_HEADER_SIZE + dsize) offs) in
    read_at 0 PRE_HEADER_SIZE = Ok pre /\
    (list_eqb (takeN 6 pre) ARCHIVE_MAGIC = true \/ list_eqb (takeN 6 pre) LEGACY_MAGIC = true) /\
    trailer + PRE_HEADER_SIZE < M64 /\
    read_at PRE_HEADER_SIZE trailer = Ok rest /\
    lenN header = PRE_HEADER_SIZE + trailer /\
    sum = H (takeN offs header) /\
    decode_dict (slice header PRE_HEADER_SIZE (PRE_HEADER_SIZE + dsize)) = Some d /\
    abs_descs data_offset (dict_descs d) = Ok descs /\
    dict_params d = Some p /\
    existsb (fun i => lenN descs <=? i) (dict_order d) = false /\
    dict_comp d = Some c /\
    comp_of c = Ok comp /\
    config_of p = Ok cfg /\
    a = {| a_descs := descs; a_order := dict_order d; a_header_size := lenN header; a_header_checksum := sum;
           a_comp := comp; a_version := dict_version d; a_data_offset := data_offset; a_total := dict_total d;
           a_source_checksum := takeN HASH_MAX_LEN (dict_checksum d); a_cfg := cfg; a_hashlen := p_hashlen p;
           a_meta := dict_meta d |}.

  Lemma try_init_inv read_at a : try_init H read_at = Ok a ->
    exists pre rest d p c descs comp cfg, accepted read_at a pre rest d p c descs comp cfg.
  Proof.
    unfold try_init. intros E.
    destruct (read_at 0 PRE_HEADER_SIZE) as [pre|e|pp|] eqn:E0; cbn [bind] in E; try discriminate.
    destruct (negb (_ || _)) eqn:Emagic in E; [discriminate|]. cbv zeta in E.
    destruct (negb (_ <? M64)) eqn:Elt in E; [discriminate|].
    match type of E with context [read_at ?x ?y] => destruct (read_at x y) as [rest|e|pp|] eqn:E1 end;
      cbn [bind] in E; try discriminate.
    destruct (negb (_ =? _)) eqn:Elen in E; [discriminate|].
    destruct (negb (list_eqb _ _)) eqn:Esum in E; [discriminate|].
    destruct (decode_dict _) as [d|] eqn:Edec in E; [|discriminate].
    match type of E with context [abs_descs ?o ?ds] => destruct (abs_descs o ds) as [descs|e|pp|] eqn:Eabs end;
      cbn [bind] in E; try discriminate.
    destruct (dict_params d) as [p|] eqn:Ep; [|discriminate].
    destruct (existsb _ _) eqn:Eex in E; [discriminate|].
    destruct (dict_comp d) as [c|] eqn:Ec; [|discriminate].
    destruct (comp_of c) as [comp|e|pp|] eqn:Ecomp; cbn [bind] in E; try discriminate.
    destruct (config_of p) as [cfg|e|pp|] eqn:Ecfg; cbn [bind] in E; try discriminate.
    injection E as <-.
    exists pre, rest, d, p, c, descs, comp, cfg. unfold accepted. cbv zeta.
    apply negb_false_iff in Emagic, Elt, Elen, Esum.
    apply orb_true_iff in Emagic. apply N.ltb_lt in Elt. apply N.eqb_eq in Elen. apply list_eqb_eq in Esum.
    repeat (split; [assumption || reflexivity|]). reflexivity.
  Qed.

  (* try_init only looks at the two reads it performs *)
  Lemma try_init_ext r1 r2 :
    r2 0 PRE_HEADER_SIZE = r1 0 PRE_HEADER_SIZE ->
    (forall pre, r1 0 PRE_HEADER_SIZE = Ok pre ->
       let trailer := le_value (slice pre 6 PRE_HEADER_SIZE) + TRAILER_OFFSET_SIZE + TRAILER_HASH_SIZE in
       r2 PRE_HEADER_SIZE trailer = r1 PRE_HEADER_SIZE trailer) ->
    try_init H r2 = try_init H r1.
  Proof.
    intros E0 E1. unfold try_init. rewrite E0.
    destruct (r1 0 PRE_HEADER_SIZE) as [pre|e|pp|]; cbn [bind]; try reflexivity.
    specialize (E1 pre eq_refl). cbv zeta in *. rewrite E1. reflexivity.
  Qed.

  (* ---------------------------------------------------------------- *)
  (* A. accepted archives are safe to inspect *)

  Theorem accepted_archive_safe : forall read_at a, try_init H read_at = Ok a ->
       valid_config (a_cfg a) = true
    /\ Forall (fun i => i < lenN (a_descs a)) (a_order a)
    /\ Forall (fun d => ad_offset d + ad_size d < 18446744073709551616) (a_descs a)
    /\ (exists avg, print_archive a = Ok avg)
    /\ (exists c, new_chunker (a_cfg a) = Ok c)
    /\ (forall i, In i (a_order a) -> exists d, nthN i (a_descs a) = Some d).
  Proof.
    intros read_at a E. apply try_init_inv in E.
    destruct E as (pre & rest & d & p & c & descs & comp & cfg & Hacc).
    unfold accepted in Hacc. cbv zeta in Hacc.
    destruct Hacc as (_ & _ & _ & _ & _ & _ & _ & Habs & _ & Hex & _ & _ & Hcfg & ->).
    cbn [a_cfg a_descs a_order].
    apply config_of_valid in Hcfg. destruct Hcfg as [Hvalid Hshape].
    apply existsb_false_Forall in Hex. apply abs_descs_bounds in Habs.
    split; [exact Hvalid|]. split; [exact Hex|]. split; [exact Habs|].
    split; [|split].
    - unfold print_archive. cbn [a_cfg a_descs].
      destruct Hshape as [Hf|(Hw & Hb1 & Hb2)].
      + rewrite Hf. cbn [bind]. eexists; reflexivity.
      + destruct (filter_mask_ok (c_bits cfg)) as [m Hm]; [lia|lia|].
        rewrite Hm. destruct (c_algo cfg); cbn [bind]; eexists; reflexivity.
    - unfold new_chunker.
      destruct Hshape as [Hf|(Hw & Hb1 & Hb2)].
      + rewrite Hf. eexists; reflexivity.
      + destruct (filter_mask_ok (c_bits cfg)) as [m Hm]; [lia|lia|].
        rewrite Hm. destruct (N.eqb_spec (c_win cfg) 0) as [E0|_]; [lia|].
        destruct (c_algo cfg); cbn [bind]; eexists; reflexivity.
    - intros i Hi. rewrite Forall_forall in Hex. apply nthN_some. apply Hex. exact Hi.
  Qed.

  Corollary accepted_archive_scan_total : forall read_at a data evs, try_init H read_at = Ok a ->
    Forall (fun e => e <> EvRead 0) evs -> exists l, chunk_stream (a_cfg a) data evs = Ok l.
  Proof.
    intros read_at a data evs E Hev. apply chunk_stream_ok; [|exact Hev].
    apply (accepted_archive_safe read_at a E).
  Qed.

  (* ---------------------------------------------------------------- *)
  (* B. header integrity *)

  Lemma file_read_at_ok f off size x : file_read_at f off size = Ok x ->
    off + size <= lenN f /\ x = slice f off (off + size).
  Proof.
    unfold file_read_at. destruct (N.leb_spec (off + size) (lenN f)) as [Hle|Hgt]; [|discriminate].
    intros E. injection E as <-. split; [exact Hle|reflexivity].
  Qed.

  (* acceptance of a file, in terms of the file's bytes *)
  Lemma file_inv f a : try_init H (file_read_at f) = Ok a ->
    exists d p c descs comp cfg,
      let dsize := le_value (slice f 6 14) in
      let hs := 14 + dsize + 8 + 64 in
      hs <= lenN f /\
      takeN 14 f ++ slice f 14 hs = takeN hs f /\
      le_value (slice (takeN 14 f) 6 PRE_HEADER_SIZE) = dsize /\
      accepted (file_read_at f) a (takeN 14 f) (slice f 14 hs) d p c descs comp cfg.
  Proof.
    intros E. apply try_init_inv in E.
    destruct E as (pre & rest & d & p & c & descs & comp & cfg & Hacc).
    exists d, p, c, descs, comp, cfg. cbv zeta.
    pose proof Hacc as Hacc'. unfold accepted in Hacc'. cbv zeta in Hacc'.
    destruct Hacc' as (E0 & _ & _ & E1 & _).
    apply file_read_at_ok in E0. destruct E0 as [Hle0 ->].
    apply file_read_at_ok in E1. destruct E1 as [Hle1 ->].
    change (0 + PRE_HEADER_SIZE) with 14 in *. rewrite slice_0 in *.
    assert (Ed : le_value (slice (takeN 14 f) 6 PRE_HEADER_SIZE) = le_value (slice f 6 14)).
    { change PRE_HEADER_SIZE with 14. rewrite slice_takeN by lia. reflexivity. }
    rewrite Ed in Hacc, Hle1.
    cbv [PRE_HEADER_SIZE TRAILER_OFFSET_SIZE TRAILER_HASH_SIZE] in Hle1.
    replace (14 + le_value (slice f 6 14) + 8 + 64) with (14 + (le_value (slice f 6 14) + 8 + 64)) by lia.
    split; [exact Hle1|]. split; [apply takeN_app_slice; lia|]. split; [exact Ed|].
    exact Hacc.
  Qed.

  Theorem header_accept_implies : forall f a, try_init H (file_read_at f) = Ok a ->
    exists dsize,
         dsize = le_value (slice f 6 14)
      /\ a_header_size a = 14 + dsize + 8 + 64 /\ a_header_size a <= lenN f
      /\ (list_eqb (takeN 6 f) ARCHIVE_MAGIC = true \/ list_eqb (takeN 6 f) LEGACY_MAGIC = true)
      /\ slice f (14 + dsize + 8) (14 + dsize + 8 + 64) = H (takeN (14 + dsize + 8) f)
      /\ a_header_checksum a = H (takeN (14 + dsize + 8) f).
  Proof.
    intros f a E. apply file_inv in E.
    destruct E as (d & p & c & descs & comp & cfg & Hfi). cbv zeta in Hfi.
    destruct Hfi as (Hle & Happ & Ed & Hacc).
    unfold accepted in Hacc. cbv zeta in Hacc. rewrite Ed, Happ in Hacc.
    set (dsize := le_value (slice f 6 14)) in *.
    destruct Hacc as (_ & Hmagic & _ & _ & Hlen & Hsum & _ & _ & _ & _ & _ & _ & _ & ->).
    cbn [a_header_size a_header_checksum].
    cbv [PRE_HEADER_SIZE TRAILER_OFFSET_SIZE TRAILER_HASH_SIZE] in *.
    rewrite takeN_takeN in Hmagic by lia.
    rewrite slice_takeN in Hsum by lia. rewrite takeN_takeN in Hsum by lia.
    exists dsize. split; [reflexivity|].
    split; [rewrite Hlen; lia|]. split; [rewrite Hlen; lia|]. split; [exact Hmagic|].
    split; [exact Hsum|]. rewrite slice_takeN by lia. exact Hsum.
  Qed.

  Theorem try_init_header_only : forall f1 f2 a, try_init H (file_read_at f1) = Ok a ->
    takeN (a_header_size a) f1 = takeN (a_header_size a) f2 -> a_header_size a <= lenN f2 ->
    try_init H (file_read_at f2) = Ok a.
  Proof.
    intros f1 f2 a E Htake Hle2.
    destruct (header_accept_implies f1 a E) as (dsize & Hd & Hhs & Hle1 & _).
    rewrite <- E. apply try_init_ext.
    - unfold file_read_at. cbv [PRE_HEADER_SIZE].
      destruct (N.leb_spec (0 + 14) (lenN f1)); [|lia]. destruct (N.leb_spec (0 + 14) (lenN f2)); [|lia].
      f_equal. rewrite <- (slice_takeN f2 0 (0 + 14) (a_header_size a)) by lia.
      rewrite <- (slice_takeN f1 0 (0 + 14) (a_header_size a)) by lia.
      rewrite Htake. reflexivity.
    - intros pre Epre. cbv zeta.
      apply file_read_at_ok in Epre. destruct Epre as [_ ->].
      rewrite slice_0. rewrite slice_takeN by (cbv [PRE_HEADER_SIZE]; lia).
      change (slice f1 6 PRE_HEADER_SIZE) with (slice f1 6 14). rewrite <- Hd.
      unfold file_read_at. cbv [PRE_HEADER_SIZE TRAILER_OFFSET_SIZE TRAILER_HASH_SIZE].
      destruct (N.leb_spec (14 + (dsize + 8 + 64)) (lenN f1)); [|lia].
      destruct (N.leb_spec (14 + (dsize + 8 + 64)) (lenN f2)); [|lia].
      f_equal. rewrite <- (slice_takeN f2 14 _ (a_header_size a)) by lia.
      rewrite <- (slice_takeN f1 14 _ (a_header_size a)) by lia.
      rewrite Htake. reflexivity.
  Qed.

  Theorem pinned_header_identity : forall f1 f2 a1 a2,
    try_init H (file_read_at f1) = Ok a1 -> try_init H (file_read_at f2) = Ok a2 ->
    a_header_checksum a1 = a_header_checksum a2 ->
    (forall x y, x = takeN (a_header_size a1 - 64) f1 -> y = takeN (a_header_size a2 - 64) f2 -> H x = H y -> x = y) ->
    takeN (a_header_size a1) f1 = takeN (a_header_size a2) f2 /\ a1 = a2.
  Proof.
    intros f1 f2 a1 a2 E1 E2 Hck Hinj.
    destruct (header_accept_implies f1 a1 E1) as (d1 & _ & Hhs1 & Hle1 & _ & Hsl1 & Hc1).
    destruct (header_accept_implies f2 a2 E2) as (d2 & _ & Hhs2 & Hle2 & _ & Hsl2 & Hc2).
    replace (a_header_size a1 - 64) with (14 + d1 + 8) in Hinj by lia.
    replace (a_header_size a2 - 64) with (14 + d2 + 8) in Hinj by lia.
    assert (Hbody : takeN (14 + d1 + 8) f1 = takeN (14 + d2 + 8) f2).
    { apply Hinj; [reflexivity|reflexivity|]. rewrite <- Hc1, <- Hc2. exact Hck. }
    assert (Hd : d1 = d2).
    { pose proof (f_equal (@lenN N) Hbody) as Hl. rewrite !lenN_takeN_le in Hl by lia. lia. }
    subst d2.
    assert (Hhdr : takeN (a_header_size a1) f1 = takeN (a_header_size a2) f2).
    { rewrite Hhs1, Hhs2.
      rewrite <- (takeN_app_slice f1 (14 + d1 + 8) (14 + d1 + 8 + 64)) by lia.
      rewrite <- (takeN_app_slice f2 (14 + d1 + 8) (14 + d1 + 8 + 64)) by lia.
      rewrite Hsl1, Hsl2, Hbody. reflexivity. }
    split; [exact Hhdr|].
    assert (E2' : try_init H (file_read_at f2) = Ok a1).
    { apply (try_init_header_only f1 f2 a1 E1); [|lia]. rewrite Hhdr. f_equal. lia. }
    rewrite E2 in E2'. injection E2' as ->. reflexivity.
  Qed.
End ArchiveSafe.

Print Assumptions try_init_total.
Print Assumptions try_init_file_total.
Print Assumptions accepted_archive_safe.
Print Assumptions accepted_archive_scan_total.
Print Assumptions header_accept_implies.
Print Assumptions try_init_header_only.
Print Assumptions pinned_header_identity.
Check try_init_total.
Check try_init_file_total.
Check accepted_archive_safe.
Check accepted_archive_scan_total.
Check header_accept_implies.
Check try_init_header_only.
Check pinned_header_identity.
