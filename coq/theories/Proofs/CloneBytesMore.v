(* Byte-level corollaries of the write economy (C13) and fetch economy (C06) theorems for the clone of
   Model/CloneBytes.v, where the old output and the seeds are byte strings scanned with the archive's chunker.
   A. [clone_bytes_writes] / [compress_clone_bytes_writes]: every write is a chunk of the source at one of its
      offsets, each offset is written at most once, and a chunk that the scan of the old output found already
      in place is not written;
   B. [clone_bytes_fetch] / [compress_clone_bytes_fetch]: the descriptors fetched from the archive are exactly
      those, in archive order, whose chunk occurs neither in the scanned old output nor in a seed.
   The chunk-content function of a run is the [Dx] of Proofs/CloneBytesCorrect.v ([clone_bytes_setup]). *)
From Coq Require Import NArith List Bool Lia.
From Bita Require Import Model.Base Gen.Generated Model.Chunker Model.ChunkIndex Model.CloneOutput Model.CloneSpec
                         Model.Proto Model.Archive Model.Compress Model.CloneArchive Model.CloneBytes.
From Bita Require Import Proofs.CloneCorrect Proofs.CloneFinal Proofs.TamperSafe Proofs.ProtoRoundTrip
                         Proofs.CompressConform Proofs.RoundTrip Proofs.CloneBytesCorrect.
Import ListNotations.
Open Scope N_scope.

(* ---------- small facts ---------- *)
Definition chunk_mem (x : list N) (l : list (list N)) : bool := existsb (list_eqb x) l.

Lemma chunk_mem_In : forall x l, chunk_mem x l = true <-> In x l.
Proof.
  intros x l. unfold chunk_mem. rewrite existsb_exists. split.
  - intros (y & Hy & E). apply cc_list_eqb in E. subst y. exact Hy.
  - intros Hx. exists x. split; [exact Hx|apply rt_list_eqb_refl].
Qed.

Lemma cm_NoDup_map_filter {A B} (f : A -> B) (p : A -> bool) : forall l,
  NoDup (map f l) -> NoDup (map f (filter p l)).
Proof.
  induction l as [|x l IH]; intros Hn; cbn [filter map] in *; [constructor|].
  inversion Hn as [|y l' Hx Hl]; subst. destruct (p x); cbn [map]; [|apply IH; exact Hl].
  constructor; [|apply IH; exact Hl]. intros Hin. apply Hx. apply in_map_iff in Hin.
  destruct Hin as (z & E & Hz). apply filter_In in Hz. apply in_map_iff. exists z. split; [exact E|apply Hz].
Qed.

Lemma cm_holds_slice : forall (D : N -> list N) f o k, holds D f o k -> slice f o (o + lenN (D k)) = D k.
Proof.
  intros D f o k [_ E]. unfold slice. replace (o + lenN (D k) - o) with (lenN (D k)) by lia. exact E.
Qed.

(* the archive phase at the level of write traces (C13 for archive_clone) *)
Lemma archive_write_trace : forall (H : list N -> list N) decomp (D : N -> list N) a src payload_of prior oidx seeds r,
  describes D (build_source_index a) src -> out_ok D oidx prior -> sound_feeds D seeds ->
  desc_keys_ok a -> verified_ok H decomp D a payload_of ->
  archive_clone H decomp a payload_of prior oidx seeds = Ok r ->
  let ws := writes_of 0 (o_trace (cr_state r)) in
  (forall o d, In (o, d) ws ->
      exists k, occ (build_source_index a) k o /\ d = D k /\ o + lenN d <= lenN src
                /\ match oidx with Some oi => ~ occ oi k o | None => True end)
  /\ NoDup (map fst ws).
Proof.
  intros H decomp D a src payload_of prior oidx seeds r Hdesc Hout Hss Hk Hv Hr. unfold archive_clone in Hr.
  destruct (unpack_all H decomp a payload_of
              (fetch_descs a (cr_index (clone_model prior None (build_source_index a) oidx seeds []))))
    as [arch| | |] eqn:Hu; cbn [bind] in Hr; try discriminate Hr.
  injection Hr as Hr. subst r.
  rewrite (archive_clone_full H decomp D a payload_of prior oidx seeds arch Hv Hu).
  exact (write_trace_spec_final D src prior (build_source_index a) oidx seeds (full D a)
           Hdesc Hout Hss (sound_gen D a (a_descs a)) (full_complete D a Hk)).
Qed.

(* ================================================================== *)
(* 1. any opened archive                                               *)
(* ================================================================== *)
Section General.
  Variable H : list N -> list N.
  Variable decomp : N -> list N -> option (list N).
  Hypothesis H_bytes : forall x, Forall (fun b => b < 256) (H x).

  (* ---------- what the scan of a byte string records ---------- *)
  Lemma scan_index_occ : forall (D' : N -> list N) a data,
    (forall c, In c (map snd (scan_chunks a data)) -> D' (hkey a (H c)) = c) ->
    forall k o, occ (scan_index H a data) k o <-> exists c, In (o, c) (scan_chunks a data) /\ k = hkey a (H c).
  Proof.
    intros D' a data HD k o.
    assert (HD' : forall oc, In oc (scan_chunks a data) -> D' (hkey a (H (snd oc))) = snd oc).
    { intros oc Hoc. apply HD. apply in_map. exact Hoc. }
    pose proof (cb_scan_inv D' (fun c => hkey a (H c)) (scan_chunks a data) HD') as Hinv.
    cbv beta in Hinv. fold (scan_index H a data) in Hinv.
    rewrite (ib_occ D' _ _ Hinv k o). rewrite in_map_iff. split.
    - intros ([o' c] & E & Hoc). cbn [fst snd] in E. inversion E; subst. exists c. split; [exact Hoc|reflexivity].
    - intros (c & Hoc & E). exists (o, c). split; [cbn [fst snd]; rewrite E; reflexivity|exact Hoc].
  Qed.

  Lemma scan_index_contains : forall (D' : N -> list N) a data,
    (forall c, In c (map snd (scan_chunks a data)) -> D' (hkey a (H c)) = c) ->
    forall k, ci_contains (scan_index H a data) k = true
              <-> exists c, In c (map snd (scan_chunks a data)) /\ hkey a (H c) = k.
  Proof.
    intros D' a data HD k.
    assert (HD' : forall oc, In oc (scan_chunks a data) -> D' (hkey a (H (snd oc))) = snd oc).
    { intros oc Hoc. apply HD. apply in_map. exact Hoc. }
    pose proof (cb_scan_inv D' (fun c => hkey a (H c)) (scan_chunks a data) HD') as Hinv.
    cbv beta in Hinv. fold (scan_index H a data) in Hinv. split.
    - intros Hc. unfold ci_contains in Hc. destruct (ci_get (scan_index H a data) k) as [l|] eqn:Eg; [|discriminate Hc].
      destruct (ib_loc D' _ _ Hinv k l Eg) as (_ & Hne & _).
      destruct (l_offs l) as [|o0 t] eqn:El; [contradiction Hne; reflexivity|].
      assert (Ho : occ (scan_index H a data) k o0) by (exists l; split; [exact Eg|rewrite El; now left]).
      apply (scan_index_occ D' a data HD) in Ho. destruct Ho as (c & Hoc & E). exists c.
      split; [|symmetry; exact E]. apply in_map_iff. exists (o0, c). split; [reflexivity|exact Hoc].
    - intros (c & Hc & E). apply in_map_iff in Hc. destruct Hc as ([o c'] & E' & Hoc). cbn [snd] in E'. subst c'.
      assert (Ho : occ (scan_index H a data) k o).
      { apply (scan_index_occ D' a data HD). exists c. split; [exact Hoc|symmetry; exact E]. }
      destruct Ho as (l & Hg & _). unfold ci_contains. rewrite Hg. reflexivity.
  Qed.

  Lemma seed_feeds_keys : forall a seeds k,
    In k (map fst (flat_map (seed_feeds H a) seeds))
    <-> exists c, In c (flat_map (fun s => map snd (scan_chunks a s)) seeds) /\ hkey a (H c) = k.
  Proof.
    intros a seeds k. split.
    - intros Hk. apply in_map_iff in Hk. destruct Hk as (kd & E & Hkd). apply in_flat_map in Hkd.
      destruct Hkd as (s & Hs & Hkd). unfold seed_feeds in Hkd. apply in_map_iff in Hkd.
      destruct Hkd as (oc & E' & Hoc). subst kd. cbn [fst] in E. exists (snd oc). split; [|exact E].
      apply in_flat_map. exists s. split; [exact Hs|apply in_map; exact Hoc].
    - intros (c & Hc & E). apply in_flat_map in Hc. destruct Hc as (s & Hs & Hc). apply in_map_iff in Hc.
      destruct Hc as (oc & E' & Hoc). subst c. apply in_map_iff. exists (hkey a (H (snd oc)), snd oc).
      split; [exact E|]. apply in_flat_map. exists s. split; [exact Hs|]. unfold seed_feeds.
      apply in_map_iff. exists oc. split; [reflexivity|exact Hoc].
  Qed.

  (* a key is found (old output scan or seeds) iff it is the key of a scanned chunk *)
  Lemma found_scanned : forall (D' : N -> list N) a prior inplace seeds,
    (forall c, In c (scanned a prior inplace seeds) -> D' (hkey a (H c)) = c) ->
    forall k, found (if inplace then Some (scan_index H a prior) else None) (flat_map (seed_feeds H a) seeds) k = true
              <-> exists c, In c (scanned a prior inplace seeds) /\ hkey a (H c) = k.
  Proof.
    intros D' a prior inplace seeds HD k. unfold found, scanned. rewrite orb_true_iff, memk_In, seed_feeds_keys.
    split.
    - intros [Hf|(c & Hc & E)].
      + destruct inplace; [|discriminate Hf].
        apply (scan_index_contains D' a prior) in Hf.
        * destruct Hf as (c & Hc & E). exists c. split; [apply in_or_app; left; exact Hc|exact E].
        * intros c Hc. apply HD. unfold scanned. apply in_or_app. left. exact Hc.
      + exists c. split; [apply in_or_app; right; exact Hc|exact E].
    - intros (c & Hc & E). apply in_app_or in Hc. destruct Hc as [Hc|Hc].
      + left. destruct inplace; [|destruct Hc]. apply (scan_index_contains D' a prior).
        * intros c' Hc'. apply HD. unfold scanned. apply in_or_app. left. exact Hc'.
        * exists c. split; [exact Hc|exact E].
      + right. exists c. split; [exact Hc|exact E].
  Qed.

  Section Run.
    Variable D : N -> list N.
    Variable a : archive.
    Variables src prior : list N.
    Variable payload_of : adesc -> list N.
    Variable inplace : bool.
    Variable seeds : list (list N).
    Hypothesis Hdesc : describes D (build_source_index a) src.
    Hypothesis Hkeys : desc_keys_ok a.
    Hypothesis Hpay : forall d, In d (a_descs a) -> unpack H decomp a d (payload_of d) = Ok (D (dkey a d)).
    Hypothesis Hv : valid_config (a_cfg a) = true.
    Hypothesis Hck : forall d, In d (a_descs a) -> trunc a (ad_checksum d) = trunc a (H (D (dkey a d))).
    Hypothesis Hinj : forall x y,
      In x (map (fun d => D (dkey a d)) (a_descs a) ++ scanned a prior inplace seeds) ->
      In y (map (fun d => D (dkey a d)) (a_descs a) ++ scanned a prior inplace seeds) ->
      trunc a (H x) = trunc a (H y) -> x = y.

    Let D' := Dx H D a (scanned a prior inplace seeds).
    Let oidx := if inplace then Some (scan_index H a prior) else None.
    Let feeds := flat_map (seed_feeds H a) seeds.

    Lemma run_setup :
      describes D' (build_source_index a) src /\ out_ok D' oidx prior /\ sound_feeds D' feeds
      /\ verified_ok H decomp D' a payload_of
      /\ (forall k, In k (keys (build_source_index a)) -> D' k = D k)
      /\ (forall c, In c (scanned a prior inplace seeds) -> D' (hkey a (H c)) = c).
    Proof.
      destruct (clone_bytes_setup H decomp H_bytes D a src payload_of prior inplace seeds
                  Hdesc Hkeys Hpay Hv Hck Hinj) as (A1 & A2 & A3 & A4 & A5 & A6).
      split; [exact A1|]. split; [exact A2|]. split; [exact A3|]. split; [|split; [exact A5|exact A6]].
      intros d x Hd Hx. rewrite (A4 d Hd) in Hx. injection Hx as Hx. symmetry. exact Hx.
    Qed.

    (* a source key is found iff its chunk is among the scanned chunks *)
    Lemma found_chunk : forall d, In d (a_descs a) ->
      found oidx feeds (dkey a d) = chunk_mem (D (dkey a d)) (scanned a prior inplace seeds).
    Proof.
      intros d Hd. destruct run_setup as (_ & _ & _ & _ & Hkd & Hsc).
      assert (Hkin : In (dkey a d) (keys (build_source_index a))).
      { destruct Hkeys as [_ Hkk]. apply Hkk. apply in_map. exact Hd. }
      apply eq_iff_eq_true. unfold oidx, feeds. rewrite (found_scanned D' a prior inplace seeds Hsc).
      rewrite chunk_mem_In. split.
      - intros (c & Hc & E). rewrite <- (Hkd _ Hkin), <- E, (Hsc c Hc). exact Hc.
      - intros Hc. exists (D (dkey a d)). split; [exact Hc|]. exact (hkey_desc H D a Hck d Hd).
    Qed.

    (* ---------- A. writes ---------- *)
    Theorem clone_bytes_writes : forall r,
      clone_bytes H decomp a payload_of prior inplace seeds = Ok r ->
      let ws := writes_of 0 (o_trace (cr_state r)) in
      (* every write is a chunk of the source at one of its offsets, not found in place by the scan *)
      (forall o d, In (o, d) ws ->
          exists k, occ (build_source_index a) k o /\ d = D k /\ o + lenN d <= lenN src
                    /\ slice src o (o + lenN d) = d
                    /\ (inplace = true -> ~ occ (scan_index H a prior) k o))
      (* each offset is written at most once *)
      /\ NoDup (map fst ws)
      (* in byte terms: a chunk found by the scan of the old output at an offset where the source has that
         very chunk is not written *)
      /\ (inplace = true -> forall o' c k, In (o', c) (scan_chunks a prior) ->
            occ (build_source_index a) k o' -> c = D k -> ~ In o' (map fst ws)).
    Proof.
      intros r Hr ws. destruct run_setup as (Hdesc' & Hout & Hss & Hver & Hkd & Hsc).
      unfold clone_bytes in Hr. fold oidx in Hr. fold feeds in Hr.
      destruct (archive_write_trace H decomp D' a src payload_of prior oidx feeds r Hdesc' Hout Hss Hkeys Hver Hr)
        as [Hw Hnd]. fold ws in Hw, Hnd.
      assert (Hocck : forall k o, occ (build_source_index a) k o -> D' k = D k).
      { intros k o (l & Hg & _). apply Hkd. eapply ci_get_Some_keys. exact Hg. }
      assert (Hwr : forall o d, In (o, d) ws ->
                exists k, occ (build_source_index a) k o /\ d = D k /\ o + lenN d <= lenN src
                          /\ slice src o (o + lenN d) = d
                          /\ (inplace = true -> ~ occ (scan_index H a prior) k o)).
      { intros o d Hin. destruct (Hw o d Hin) as (k & Hocc & Ed & Hle & Hnp). exists k.
        rewrite (Hocck k o Hocc) in Ed. split; [exact Hocc|]. split; [exact Ed|]. split; [exact Hle|]. split.
        - subst d. apply cm_holds_slice. destruct Hdesc as (_ & Hinf & _). apply Hinf. exact Hocc.
        - intros Ei. unfold oidx in Hnp. rewrite Ei in Hnp. exact Hnp. }
      split; [exact Hwr|]. split; [exact Hnd|].
      intros Ei o' c k Hoc Hocc Ec Hin. apply in_map_iff in Hin. destruct Hin as ([o d] & E & Hin).
      cbn [fst] in E. subst o. destruct (Hwr o' d Hin) as (k' & Hocc' & _ & _ & _ & Hnp).
      assert (Ek : k' = k).
      { destruct Hdesc as (Hwf & _ & Hdis & _). exact (occ_inj D _ k' k o' Hwf Hdis Hocc' Hocc). }
      subst k'. apply (Hnp Ei).
      apply (scan_index_occ D' a prior).
      - intros c' Hc'. apply Hsc. unfold scanned. rewrite Ei. apply in_or_app. left. exact Hc'.
      - exists c. split; [exact Hoc|].
        assert (Hk : In k (keys (build_source_index a))).
        { destruct Hocc as (l & Hg & _). eapply ci_get_Some_keys. exact Hg. }
        destruct Hkeys as [_ Hkk]. apply Hkk in Hk. apply in_map_iff in Hk. destruct Hk as (d0 & E0 & Hd0).
        subst k c. symmetry. exact (hkey_desc H D a Hck d0 Hd0).
    Qed.

    (* ---------- B. fetches ---------- *)
    Theorem clone_bytes_fetch : forall r,
      clone_bytes H decomp a payload_of prior inplace seeds = Ok r ->
      (* the keys fetched are those of the descriptors, in archive order, whose chunk was not scanned *)
      cr_fetch r = map (dkey a) (filter (fun d => negb (chunk_mem (D (dkey a d)) (scanned a prior inplace seeds)))
                                        (a_descs a))
      (* each at most once *)
      /\ NoDup (cr_fetch r)
      /\ (forall d, In d (a_descs a) ->
            (In (dkey a d) (cr_fetch r) <-> ~ In (D (dkey a d)) (scanned a prior inplace seeds))).
    Proof.
      intros r Hr. destruct run_setup as (Hdesc' & Hout & Hss & Hver & _ & _).
      unfold clone_bytes in Hr. fold oidx in Hr. fold feeds in Hr.
      pose proof (archive_fetch_exact H decomp D' a src payload_of prior oidx feeds r Hdesc' Hout Hss Hkeys Hver Hr)
        as Hf.
      assert (Ef : cr_fetch r = map (dkey a)
                 (filter (fun d => negb (chunk_mem (D (dkey a d)) (scanned a prior inplace seeds))) (a_descs a))).
      { rewrite Hf. f_equal. apply filter_ext_in. intros d Hd. rewrite (found_chunk d Hd). reflexivity. }
      split; [exact Ef|]. split.
      - rewrite Ef. apply cm_NoDup_map_filter. apply Hkeys.
      - intros d Hd. rewrite Ef, in_map_iff. split.
        + intros (d' & E & Hd') Hin. apply filter_In in Hd'. destruct Hd' as [_ Hp]. rewrite E in Hp.
          apply negb_true_iff in Hp. apply chunk_mem_In in Hin. congruence.
        + intros Hn. exists d. split; [reflexivity|]. apply filter_In. split; [exact Hd|].
          apply negb_true_iff. destruct (chunk_mem (D (dkey a d)) (scanned a prior inplace seeds)) eqn:E; [|reflexivity].
          apply chunk_mem_In in E. contradiction.
    Qed.
  End Run.
End General.

Print Assumptions clone_bytes_writes.
Print Assumptions clone_bytes_fetch.

(* ================================================================== *)
(* 2. archives written by the model writer                             *)
(* ================================================================== *)
Section Writer.
  Variable H : list N -> list N.
  Variable comp : list N -> list N.
  Variable decomp : N -> list N -> option (list N).
  Hypothesis H_len : forall x, lenN (H x) = 64.
  Hypothesis H_bytes : forall x, Forall (fun b => b < 256) (H x).

  (* the accepted archive satisfies the premises of the general theorems with D := lookup uniq *)
  Lemma writer_general_hyps : forall src o bytes prior inplace seeds,
    opts_ok o -> bytes_ok src -> lenN src < 18446744073709551616 -> lenN bytes < 18446744073709551616 ->
    codec_ok comp decomp o -> few_chunks o src ->
    no_collision H o src prior inplace seeds ->
    compress_model H comp src o = Ok bytes ->
    exists a uniq, try_init H (file_read_at bytes) = Ok a
      /\ describes (lookup uniq) (build_source_index a) src /\ desc_keys_ok a
      /\ (forall d, In d (a_descs a) ->
            unpack H decomp a d (file_payload bytes d) = Ok (lookup uniq (dkey a d)))
      /\ valid_config (a_cfg a) = true
      /\ (forall d, In d (a_descs a) ->
            trunc a (ad_checksum d) = trunc a (H (lookup uniq (dkey a d))))
      /\ (forall x y,
            In x (map (fun d => lookup uniq (dkey a d)) (a_descs a) ++ scanned a prior inplace seeds) ->
            In y (map (fun d => lookup uniq (dkey a d)) (a_descs a) ++ scanned a prior inplace seeds) ->
            trunc a (H x) = trunc a (H y) -> x = y)
      /\ (forall d, In d (a_descs a) ->
            In (lookup uniq (dkey a d)) (chunks_of (o_cfg o) src)
            /\ ad_checksum d = takeN (o_hashlen o) (H (lookup uniq (dkey a d))))
      /\ scanned a prior inplace seeds = scanned_cfg (cfg_read (o_cfg o)) prior inplace seeds
      /\ a_hashlen a = o_hashlen o.
  Proof.
    intros src o bytes prior inplace seeds Hok Hsrc Hls Hlb Hcodec Hfew Hnc Hm.
    pose proof (no_collision_trunc_inj H o src prior inplace seeds Hnc) as Hti.
    destruct (compress_archive_describes_ck H comp decomp H_len H_bytes src o bytes Hok Hsrc Hls Hlb Hti Hfew Hm)
      as (a & uniq & Hinit & Hdesc & Hkeys & Hpay & Hck & Ecfg & Ehl & _).
    pose proof Hok as (Hv & _).
    assert (Esc : scanned a prior inplace seeds = scanned_cfg (cfg_read (o_cfg o)) prior inplace seeds).
    { rewrite scanned_scanned_cfg, Ecfg. reflexivity. }
    exists a, uniq. split; [exact Hinit|]. split; [exact Hdesc|]. split; [exact Hkeys|].
    split; [exact (Hpay Hcodec)|]. split; [rewrite Ecfg; apply valid_config_cfg_read; exact Hv|].
    split.
    { intros d Hd. destruct (Hck d Hd) as [_ E]. rewrite E. unfold trunc. rewrite Ehl.
      apply rt_takeN_takeN. lia. }
    split.
    { assert (Hsub : forall x,
                In x (map (fun d => lookup uniq (dkey a d)) (a_descs a) ++ scanned a prior inplace seeds) ->
                In x (chunks_of (o_cfg o) src ++ scanned_cfg (cfg_read (o_cfg o)) prior inplace seeds)).
      { intros x Hx. apply in_app_or in Hx. apply in_or_app. destruct Hx as [Hx|Hx].
        - left. apply in_map_iff in Hx. destruct Hx as (d & E & Hd). subst x. apply (Hck d Hd).
        - right. rewrite Esc in Hx. exact Hx. }
      intros x y Hx Hy E. apply Hnc; [apply Hsub; exact Hx|apply Hsub; exact Hy|].
      unfold trunc in E. rewrite Ehl in E. exact E. }
    split; [exact Hck|]. split; [exact Esc|exact Ehl].
  Qed.

  (* ---------- A. writes, stated on bytes only ---------- *)
  Theorem compress_clone_bytes_writes : forall src o bytes prior inplace seeds,
    opts_ok o -> bytes_ok src -> lenN src < 18446744073709551616 -> lenN bytes < 18446744073709551616 ->
    codec_ok comp decomp o -> few_chunks o src ->
    no_collision H o src prior inplace seeds ->
    compress_model H comp src o = Ok bytes ->
    exists a r, try_init H (file_read_at bytes) = Ok a
      /\ clone_bytes H decomp a (file_payload bytes) prior inplace seeds = Ok r
      /\ let ws := writes_of 0 (o_trace (cr_state r)) in
         (* every write puts bytes of the source at their place: a whole chunk of the source index *)
         (forall o' d, In (o', d) ws ->
             slice src o' (o' + lenN d) = d /\ o' + lenN d <= lenN src
             /\ exists k l, ci_get (build_source_index a) k = Some l /\ In o' (l_offs l) /\ l_size l = lenN d)
         (* each offset is written at most once *)
         /\ NoDup (map fst ws)
         (* a chunk the scan found in the old output exactly where the source has a chunk with the same bytes
            is not written *)
         /\ (inplace = true -> forall o' c k l, In (o', c) (scan_chunks a prior) ->
               ci_get (build_source_index a) k = Some l -> In o' (l_offs l) -> l_size l = lenN c ->
               slice src o' (o' + lenN c) = c -> ~ In o' (map fst ws)).
  Proof.
    intros src o bytes prior inplace seeds Hok Hsrc Hls Hlb Hcodec Hfew Hnc Hm.
    destruct (writer_general_hyps src o bytes prior inplace seeds Hok Hsrc Hls Hlb Hcodec Hfew Hnc Hm)
      as (a & uniq & Hinit & Hdesc & Hkeys & Hpay & Hv & Hck & Hinj & _).
    destruct (clone_bytes_general H decomp H_bytes (lookup uniq) a src (file_payload bytes) prior inplace seeds
                Hdesc Hkeys Hpay Hv Hck Hinj) as (r & Hr & _).
    destruct (clone_bytes_writes H decomp H_bytes (lookup uniq) a src prior (file_payload bytes) inplace seeds
                Hdesc Hkeys Hpay Hv Hck Hinj r Hr) as (Hw & Hnd & Hip).
    exists a, r. split; [exact Hinit|]. split; [exact Hr|]. cbv zeta.
    destruct Hdesc as (Hwf & Hinf & _).
    assert (Hsz : forall k l, ci_get (build_source_index a) k = Some l -> l_size l = lenN (lookup uniq k)).
    { intros k l Hg. destruct Hwf as [_ Hl]. apply (Hl k l). apply ci_get_In. exact Hg. }
    split.
    { intros o' d Hin. destruct (Hw o' d Hin) as (k & (l & Hg & Ho) & Ed & Hle & Hs & _).
      split; [exact Hs|]. split; [exact Hle|]. exists k, l. split; [exact Hg|]. split; [exact Ho|].
      rewrite (Hsz k l Hg), Ed. reflexivity. }
    split; [exact Hnd|].
    intros Ei o' c k l Hoc Hg Ho Hl Hs.
    apply (Hip Ei o' c k Hoc); [exists l; split; assumption|].
    assert (Hh : holds (lookup uniq) src o' k) by (apply Hinf; exists l; split; assumption).
    rewrite <- (cm_holds_slice (lookup uniq) src o' k Hh), <- (Hsz k l Hg), Hl. symmetry. exact Hs.
  Qed.

  (* ---------- B. fetches, stated on checksums ---------- *)
  Theorem compress_clone_bytes_fetch : forall src o bytes prior inplace seeds,
    opts_ok o -> bytes_ok src -> lenN src < 18446744073709551616 -> lenN bytes < 18446744073709551616 ->
    codec_ok comp decomp o -> few_chunks o src ->
    no_collision H o src prior inplace seeds ->
    compress_model H comp src o = Ok bytes ->
    exists a r, try_init H (file_read_at bytes) = Ok a
      /\ clone_bytes H decomp a (file_payload bytes) prior inplace seeds = Ok r
      (* fetched: the descriptors, in archive order, whose checksum is not the truncated hash of a chunk found
         in the old output (when scanned) or in a seed *)
      /\ cr_fetch r = map (dkey a)
           (filter (fun d => negb (existsb (fun c => list_eqb (takeN (o_hashlen o) (H c)) (ad_checksum d))
                                           (scanned_cfg (cfg_read (o_cfg o)) prior inplace seeds)))
                   (a_descs a))
      /\ NoDup (cr_fetch r).
  Proof.
    intros src o bytes prior inplace seeds Hok Hsrc Hls Hlb Hcodec Hfew Hnc Hm.
    destruct (writer_general_hyps src o bytes prior inplace seeds Hok Hsrc Hls Hlb Hcodec Hfew Hnc Hm)
      as (a & uniq & Hinit & Hdesc & Hkeys & Hpay & Hv & Hck & Hinj & Hsrcck & Esc & Ehl).
    destruct (clone_bytes_general H decomp H_bytes (lookup uniq) a src (file_payload bytes) prior inplace seeds
                Hdesc Hkeys Hpay Hv Hck Hinj) as (r & Hr & _).
    destruct (clone_bytes_fetch H decomp H_bytes (lookup uniq) a src prior (file_payload bytes) inplace seeds
                Hdesc Hkeys Hpay Hv Hck Hinj r Hr) as (Hf & Hnd & _).
    exists a, r. split; [exact Hinit|]. split; [exact Hr|]. split; [|exact Hnd].
    rewrite Hf. f_equal. apply filter_ext_in. intros d Hd. f_equal. rewrite Esc.
    destruct (Hsrcck d Hd) as [Hin Eck].
    apply eq_iff_eq_true. rewrite chunk_mem_In, existsb_exists. split.
    - intros Hc. exists (lookup uniq (dkey a d)). split; [exact Hc|]. rewrite Eck. apply rt_list_eqb_refl.
    - intros (c & Hc & E). apply cc_list_eqb in E. rewrite Eck in E.
      assert (Ec : c = lookup uniq (dkey a d)).
      { apply Hnc; [apply in_or_app; right; exact Hc|apply in_or_app; left; exact Hin|exact E]. }
      rewrite <- Ec. exact Hc.
  Qed.
End Writer.

Print Assumptions compress_clone_bytes_writes.
Print Assumptions compress_clone_bytes_fetch.

(* ================================================================== *)
(* 3. concrete evidence                                                *)
(* ================================================================== *)
Definition cm_run (o : copts) (src prior : list N) (inplace : bool) (seeds : list (list N)) :=
  match compress_model rt_toyH rt_toycomp src o with
  | Ok bytes =>
      match try_init rt_toyH (file_read_at bytes) with
      | Ok a =>
          match clone_bytes rt_toyH rt_toydecomp a (file_payload bytes) prior inplace seeds with
          | Ok r => Some (scan_chunks a prior, build_source_index a, writes_of 0 (o_trace (cr_state r)),
                          map (dkey a) (a_descs a), cr_fetch r)
          | _ => None
          end
      | _ => None
      end
  | _ => None
  end.

(* the data of [cb_fixed_inplace_seed]: the source has the chunk [1;2] at offsets 0 and 4 and the scan finds
   [1;2] at offset 4 of the old output: offset 4 is not written, offset 0 is; [3;4] is moved to offset 2, [5]
   comes from the seed; nothing is fetched *)
Example cm_inplace_chunk_skipped :
  cm_run {| o_cfg := {| c_algo := AFixed; c_bits := 0; c_min := 0; c_max := 2; c_win := 0 |};
            o_hashlen := 4; o_comp := Some (E_CompressionType_BROTLI, 6); o_meta := [([97], [1; 2])];
            o_version := [48] |}
         [1; 2; 3; 4; 1; 2; 5] [3; 4; 9; 9; 1; 2; 8; 8; 8] true [[0; 0; 5]]
  = Some ([(0, [3; 4]); (2, [9; 9]); (4, [1; 2]); (6, [8; 8]); (8, [8])],
          [(0, {| l_size := 2; l_offs := [0; 4] |}); (1, {| l_size := 2; l_offs := [2] |});
           (2, {| l_size := 1; l_offs := [6] |})],
          [(2, [3; 4]); (0, [1; 2]); (6, [5])],
          [0; 1; 2], []).
Proof. vm_compute. reflexivity. Qed.

(* same old output and seed, the last chunk of the source is [5;6], found nowhere: exactly its descriptor
   (key 2) is fetched *)
Example cm_only_missing_chunk_fetched :
  cm_run {| o_cfg := {| c_algo := AFixed; c_bits := 0; c_min := 0; c_max := 2; c_win := 0 |};
            o_hashlen := 4; o_comp := Some (E_CompressionType_BROTLI, 6); o_meta := [([97], [1; 2])];
            o_version := [48] |}
         [1; 2; 3; 4; 1; 2; 5; 6] [3; 4; 9; 9; 1; 2; 8; 8; 8] true [[0; 0; 5]]
  = Some ([(0, [3; 4]); (2, [9; 9]); (4, [1; 2]); (6, [8; 8]); (8, [8])],
          [(0, {| l_size := 2; l_offs := [0; 4] |}); (1, {| l_size := 2; l_offs := [2] |});
           (2, {| l_size := 2; l_offs := [6] |})],
          [(2, [3; 4]); (0, [1; 2]); (6, [5; 6])],
          [0; 1; 2], [2]).
Proof. vm_compute. reflexivity. Qed.
