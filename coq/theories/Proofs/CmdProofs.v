(* Theorems about the command orchestration model (C14, C16). The step order and the flag expressions are
   the ones re-extracted from the source into Gen/Generated.v: these proofs are re-checked against them on
   every run and fail if, e.g., the output were opened before the header check. *)
From Bita Require Import Model.Base Gen.Generated Model.Cmd.

Definition no_write_effect (l : list eff) : Prop :=
  Forall (fun e => match e with EOpenW _ _ _ _ true => False | EWrites => False | ESetLen _ => False | EUnlink _ => False | _ => True end) l.

(* C14, clone: each refusal leaves the output entry exactly as it was *)
Theorem refusal_leaves_output_clone : forall env,
  let r := clone_cmd_model env in
     ((e_archive env = AInvalid \/ e_pin env = PinMismatch) ->
        s_failed r = true /\ s_out r = e_out env /\ s_eff r = [])
  /\ (e_out env <> Absent -> c_force_create (e_flags env) = false -> c_seed_output (e_flags env) = false ->
        s_failed r = true /\ s_out r = e_out env /\ no_write_effect (s_eff r))
  /\ (forall c, e_out env = Blk c -> lenN c < lenN (e_src env) ->
        s_failed r = true /\ s_out r = e_out env /\ ~ In EWrites (s_eff r) /\ (forall n, ~ In (ESetLen n) (s_eff r))).
Proof.
  intros [[fc so vo] ar pn out src]. cbv zeta. unfold clone_cmd_model, run_clone, clone_step_order.
  split; [|split].
  - cbn [e_archive e_pin e_out e_flags e_src]. intros [->| ->].
    + cbn. auto.
    + destruct ar; cbn; auto.
  - cbn [e_archive e_pin e_out e_flags e_src c_force_create c_seed_output]. intros Hne -> ->.
    destruct ar; [|destruct out; cbn; try congruence; repeat split; constructor].
    destruct pn; destruct out; try congruence; cbn; repeat split; repeat constructor.
  - cbn [e_archive e_pin e_out e_flags e_src]. intros c -> Hlt.
    apply N.ltb_lt in Hlt.
    destruct ar; destruct pn; destruct fc; destruct so; cbn;
      rewrite ?Hlt; cbn; repeat split; try tauto; try (intros n [E|[]]; discriminate);
      try (intros [E|[]]; discriminate); try (intros n []); try (intros []);
      try (intros [E|[E|[]]]; discriminate); try (intros n [E|[E|[]]]; discriminate).
Qed.

(* C14, compress: an existing output without --force-create is refused before anything is created *)
Theorem refusal_leaves_output_compress : forall env,
  z_out env <> Absent -> z_force_create (z_flags env) = false ->
  let r := compress_cmd_model env in
  s_failed r = true /\ s_out r = z_out env /\ no_write_effect (s_eff r).
Proof.
  intros [[f] out a] Hne Hf. cbn in Hf, Hne. subst f. cbv zeta.
  unfold compress_cmd_model, compress_step_order.
  destruct out; [congruence| |]; cbn; repeat split; repeat constructor.
Qed.

