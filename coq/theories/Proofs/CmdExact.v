(* C14, exactness of the refusal set: in the command model (step order and flag expressions regenerated from the
   source) the clone command ends without having written chunk data EXACTLY when one of the four refusals named by
   the property applies; in each such case it failed, the output entry is what it was, and its length was never set.
   Conversely a command that is not refused reaches the write stage: no further, unnamed refusal exists. *)
From Bita Require Import Model.Base Gen.Generated Model.Cmd.

Definition clone_refused (env : cenv) : Prop :=
     e_archive env = AInvalid
  \/ e_pin env = PinMismatch
  \/ (e_out env <> Absent /\ c_force_create (e_flags env) = false /\ c_seed_output (e_flags env) = false)
  \/ (exists c, e_out env = Blk c /\ lenN c < lenN (e_src env)).

Definition compress_refused (env : zenv) : Prop :=
  z_out env <> Absent /\ z_force_create (z_flags env) = false.

Local Ltac not_in := let H := fresh in intro H; cbn in H;
  repeat match type of H with _ \/ _ => destruct H as [H|H]; [discriminate H|] end; exact H.

Theorem clone_refusal_exact : forall env,
  let r := clone_cmd_model env in
     (clone_refused env <-> ~ In EWrites (s_eff r))
  /\ (~ In EWrites (s_eff r) ->
        s_failed r = true /\ s_out r = e_out env /\ (forall n, ~ In (ESetLen n) (s_eff r))).
Proof.
  intros [[fc so vo] ar pn out src]. cbv zeta.
  unfold clone_cmd_model, run_clone, clone_step_order, clone_refused.
  cbn [e_archive e_pin e_out e_flags e_src c_force_create c_seed_output].
  assert (Hblk : forall c : list N, (lenN c <? lenN src) = true \/ (lenN c <? lenN src) = false)
    by (intro c; destruct (lenN c <? lenN src); auto).
  destruct ar.
  2:{ cbn. split; [split; [intros _ []|intros _; left; reflexivity]|intros _; repeat split; intros n []]. }
  destruct pn.
  3:{ cbn. split; [split; [intros _ []|intros _; right; left; reflexivity]|intros _; repeat split; intros n []]. }
  all: destruct out as [|c|c]; destruct fc; destruct so; cbn;
    try (destruct (Hblk c) as [Hc|Hc]; rewrite Hc; cbn);
    try (destruct vo; cbn; try (destruct (list_eqb _ _); cbn)).
  all: split; [split|].
  (* refused -> no write *)
  all: try (intros _; not_in).
  (* refused, but the trace has a write: the refusal premise is contradictory *)
  all: try (intros [H|[H|[H|H]]]; exfalso;
            [discriminate H | discriminate H
            | destruct H as (H1 & H2 & H3); first [congruence | discriminate H2 | discriminate H3]
            | destruct H as (c' & E & L); first [discriminate E | injection E as <-; apply N.ltb_lt in L; congruence]]).
  (* no write -> refused *)
  all: try (intros Hn; exfalso; apply Hn; cbn; tauto).
  all: try (intros _; right; right; left; repeat split; congruence).
  all: try (intros _; right; right; right; exists c; split; [reflexivity|apply N.ltb_lt; exact Hc]).
  (* consequences of no write *)
  all: try (intros _; repeat split; intros n; not_in).
Qed.

Theorem compress_refusal_exact : forall env,
  let r := compress_cmd_model env in
     (compress_refused env <-> ~ In EWrites (s_eff r))
  /\ (~ In EWrites (s_eff r) -> s_failed r = true /\ s_out r = z_out env /\ ~ In (EUnlink 1) (s_eff r)
        /\ (forall a b c d, ~ In (EOpenW 1 a b c d) (s_eff r))).
Proof.
  intros [[f] out a]. cbv zeta. unfold compress_cmd_model, compress_step_order, compress_refused.
  cbn [z_out z_flags z_force_create].
  destruct out as [|c|c]; destruct f; cbn.
  all: split; [split|].
  all: try (intros _; not_in).
  all: try (intros [H1 H2]; exfalso; first [congruence | discriminate H2]).
  all: try (intros Hn; exfalso; apply Hn; cbn; tauto).
  all: try (intros _; split; [congruence|reflexivity]).
  all: try (intros _; repeat split; try not_in; intros; not_in).
Qed.
