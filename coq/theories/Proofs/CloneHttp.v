(* C06 + C07 end to end: which HTTP Range requests a clone sends.
   The archive phase of the clone (Model/CloneArchive.v) asks the chunk reader for the stored byte ranges of the
   descriptors still in the index after the in-place and seed phases; the HTTP reader (Model/HttpReader.v) turns
   maximal runs of adjacent ranges into single Range requests (Proofs/Readers.v, requests_are_maximal_runs).
   Composed with the byte-level fetch theorems of Proofs/CloneBytesMore.v: the requests are one per maximal run
   of adjacent stored ranges of exactly the descriptors whose chunk occurs neither in the scanned old output nor
   in a seed, in archive order. *)
From Coq Require Import NArith List Bool Lia.
From Bita Require Import Model.Base Gen.Generated Model.Chunker Model.ChunkIndex Model.CloneOutput Model.CloneSpec
                         Model.Proto Model.Archive Model.Compress Model.CloneArchive Model.CloneBytes Model.HttpReader.
From Bita Require Import Proofs.Planner Proofs.CloneCorrect Proofs.CloneFinal Proofs.TamperSafe Proofs.ProtoRoundTrip
                         Proofs.CompressConform Proofs.RoundTrip Proofs.Readers
                         Proofs.CloneBytesCorrect Proofs.CloneBytesMore.
Import ListNotations.
Open Scope N_scope.

(* ================================================================== *)
(* 0. the requests of a clone                                          *)
(* ================================================================== *)
(* the stored byte range of a descriptor: [ad_offset] is absolute after try_init (Archive.abs_descs adds the
   chunk data offset), so the archive is not consulted *)
Definition desc_range (a : archive) (d : adesc) : range := {| r_off := ad_offset d; r_size := ad_size d |}.

Lemma desc_range_bytes : forall f a d, chunk_bytes f (desc_range a d) = file_payload f d.
Proof.
  intros f a d. unfold chunk_bytes, desc_range, file_payload, slice. cbn [r_off r_size].
  replace (ad_offset d + ad_size d - ad_offset d) with (ad_size d) by lia. reflexivity.
Qed.

Section Defs.
  Variable H : list N -> list N.

  (* the descriptors archive_clone fetches: those still in the index after the in-place and seed phases *)
  Definition clone_http_fetch (a : archive) (prior : list N) (inplace : bool) (seeds : list (list N)) : list adesc :=
    fetch_descs a (cr_index (clone_model prior None (build_source_index a)
                                         (if inplace then Some (scan_index H a prior) else None)
                                         (flat_map (seed_feeds H a) seeds) [])).

  (* the HTTP chunk reader on their stored ranges, the server answering every request *)
  Definition clone_http (a : archive) (f : list N) (retries : N) (prior : list N) (inplace : bool)
    (seeds : list (list N)) : list item * list (N * N) :=
    read_chunks_http f retries [] (map (desc_range a) (clone_http_fetch a prior inplace seeds)).

  Definition clone_http_items a f retries prior inplace seeds : list item :=
    fst (clone_http a f retries prior inplace seeds).
  Definition clone_http_requests a f retries prior inplace seeds : list (N * N) :=
    snd (clone_http a f retries prior inplace seeds).
End Defs.

(* ---------- runs of a chain ---------- *)
Lemma runs_head : forall b r, exists run rest, runs (b :: r) = (b :: run) :: rest.
Proof.
  intros b r. rewrite runs_cons. destruct (runs r) as [|[|c run] rest].
  - exists [], []. reflexivity.
  - exists [], []. reflexivity.
  - destruct (r_end b =? r_off c); [exists (c :: run), rest|exists [], ((c :: run) :: rest)]; reflexivity.
Qed.

Lemma runs_len_cons : forall a b r,
  lenN (runs (a :: b :: r)) = if r_end a =? r_off b then lenN (runs (b :: r)) else 1 + lenN (runs (b :: r)).
Proof.
  intros a b r. rewrite (runs_cons a). destruct (runs_head b r) as (run & rest & E). rewrite E.
  destruct (r_end a =? r_off b); cbn [lenN]; lia.
Qed.

Lemma runs_chain : forall l, chain l -> l <> [] -> runs l = [l].
Proof.
  induction l as [|a r IH]; intros Hc Hne; [contradiction Hne; reflexivity|].
  destruct r as [|b r']; [reflexivity|]. destruct Hc as [Hab Hc].
  rewrite runs_cons, (IH Hc) by discriminate. rewrite Hab, N.eqb_refl. reflexivity.
Qed.

(* in a chain of non-empty ranges the offsets increase *)
Lemma chain_off_ge : forall l a, chain (a :: l) -> Forall (fun c => 0 < r_size c) l ->
  forall y, In y l -> r_end a <= r_off y.
Proof.
  induction l as [|b r IH]; intros a Hc Hp y Hy; [destruct Hy|].
  destruct Hc as [Hab Hc]. inversion Hp as [|b' r' Hb Hr]; subst. destruct Hy as [Hy|Hy].
  - subst y. lia.
  - specialize (IH b Hc Hr y Hy). unfold r_end in *. lia.
Qed.

(* number of maximal blocks of [true] *)
Fixpoint blocks (prev : bool) (l : list bool) : N :=
  match l with [] => 0 | b :: r => (if b && negb prev then 1 else 0) + blocks b r end.

Section RunsFilter.
  Variable A : Type.
  Variable rng : A -> range.
  Variable p : A -> bool.

  Lemma blocks_true_false : forall ps, blocks false ps = blocks true ps + match ps with true :: _ => 1 | _ => 0 end.
  Proof. intros [|[|] ps]; cbn [blocks andb negb]; lia. Qed.

  (* runs by byte adjacency of the kept elements = runs by index adjacency *)
  Lemma runs_filter_blocks : forall l,
    chain (map rng l) -> Forall (fun x => 0 < r_size (rng x)) l ->
    lenN (runs (map rng (filter p l))) = blocks false (map p l).
  Proof.
    induction l as [|x l IH]; intros Hc Hp; [reflexivity|].
    inversion Hp as [|x' l' Hx Hl]; subst.
    assert (Hc' : chain (map rng l)) by (cbn [map] in Hc; eapply chain_tail; exact Hc).
    specialize (IH Hc' Hl). cbn [filter map blocks]. destruct (p x) eqn:Ex; cbn [andb negb].
    2: { rewrite IH. lia. }
    cbn [map]. destruct l as [|y0 l0].
    - reflexivity.
    - cbn [filter map] in IH |- *. destruct (p y0) eqn:Ey.
      + (* the next descriptor is kept: adjacent, same run *)
        cbn [map] in IH |- *. rewrite runs_len_cons.
        cbn [map] in Hc. destruct Hc as [Hab _]. rewrite Hab, N.eqb_refl. rewrite IH.
        cbn [blocks andb negb]. lia.
      + (* the next descriptor is dropped: the next kept one, if any, starts later *)
        cbn [blocks andb negb] in IH |- *.
        destruct (filter p l0) as [|y l1] eqn:Ef.
        * cbn [map runs lenN] in IH |- *. rewrite <- IH. reflexivity.
        * cbn [map] in IH |- *. rewrite runs_len_cons.
          assert (Hy : In y l0).
          { assert (Hin : In y (filter p l0)) by (rewrite Ef; now left). apply filter_In in Hin. apply Hin. }
          assert (Hlt : r_end (rng x) < r_off (rng y)).
          { cbn [map] in Hc. destruct Hc as [Hab Hc].
            inversion Hl as [|y0' l0' Hy0 Hl0]; subst.
            assert (Hge : r_end (rng y0) <= r_off (rng y)).
            { apply (chain_off_ge (map rng l0) (rng y0) Hc).
              - apply Forall_forall. intros c Hcin. apply in_map_iff in Hcin. destruct Hcin as (z & E & Hz).
                subst c. rewrite Forall_forall in Hl0. apply Hl0. exact Hz.
              - apply in_map. exact Hy. }
            unfold r_end in *. lia. }
          destruct (N.eqb_spec (r_end (rng x)) (r_off (rng y))) as [E|_]; [lia|]. rewrite IH. lia.
  Qed.
End RunsFilter.

(* ================================================================== *)
(* 1. any opened archive                                               *)
(* ================================================================== *)
Section General.
  Variable H : list N -> list N.
  Variable decomp : N -> list N -> option (list N).
  Hypothesis H_bytes : forall x, Forall (fun b => b < 256) (H x).

  Variable D : N -> list N.
  Variable a : archive.
  Variables src prior f : list N.
  Variable inplace : bool.
  Variable seeds : list (list N).
  Hypothesis Hdesc : describes D (build_source_index a) src.
  Hypothesis Hkeys : desc_keys_ok a.
  Hypothesis Hpay : forall d, In d (a_descs a) -> unpack H decomp a d (file_payload f d) = Ok (D (dkey a d)).
  Hypothesis Hv : valid_config (a_cfg a) = true.
  Hypothesis Hck : forall d, In d (a_descs a) -> trunc a (ad_checksum d) = trunc a (H (D (dkey a d))).
  Hypothesis Hinj : forall x y,
    In x (map (fun d => D (dkey a d)) (a_descs a) ++ scanned a prior inplace seeds) ->
    In y (map (fun d => D (dkey a d)) (a_descs a) ++ scanned a prior inplace seeds) ->
    trunc a (H x) = trunc a (H y) -> x = y.

  (* the descriptors whose chunk occurs neither in the scanned old output nor in a seed *)
  Definition missing_descs : list adesc :=
    filter (fun d => negb (chunk_mem (D (dkey a d)) (scanned a prior inplace seeds))) (a_descs a).

  (* C06 at descriptor level: what the archive phase asks the reader for *)
  Lemma clone_http_fetch_exact : clone_http_fetch H a prior inplace seeds = missing_descs.
  Proof.
    destruct (run_setup H decomp H_bytes D a src prior (file_payload f) inplace seeds Hdesc Hkeys Hpay Hv Hck Hinj)
      as (Hdesc' & Hout & _).
    set (D' := Dx H D a (scanned a prior inplace seeds)) in *.
    set (oidx := if inplace then Some (scan_index H a prior) else None) in *.
    set (feeds := flat_map (seed_feeds H a) seeds) in *.
    destruct (clone_char D' (reorder_exec_correct D') src prior (build_source_index a) oidx feeds [] Hdesc' Hout)
      as (st1 & _ & _ & Hidx & _).
    cbv zeta in Hidx. cbn [filter] in Hidx. rewrite app_nil_r in Hidx.
    unfold clone_http_fetch, missing_descs. fold oidx feeds. rewrite Hidx. unfold fetch_descs.
    apply filter_ext_in. intros d Hd. fold (dkey a d).
    rewrite <- (found_chunk H decomp H_bytes D a src prior (file_payload f) inplace seeds
                  Hdesc Hkeys Hpay Hv Hck Hinj d Hd). fold oidx feeds.
    assert (Hkin : In (dkey a d) (keys (build_source_index a))).
    { destruct Hkeys as [_ Hkk]. apply Hkk. apply in_map. exact Hd. }
    apply keys_ci_get in Hkin. destruct Hkin as (l & Hl).
    assert (Hnd : NoDup (keys (build_source_index a))) by apply Hdesc.
    unfold ci_contains at 1. rewrite ci_get_removes by (apply keys_filter_NoDup; exact Hnd).
    rewrite ci_get_idx1, Hl. unfold found. fold (inoi oidx (dkey a d)).
    destruct (memk (dkey a d) (map fst feeds)); destruct (inoi oidx (dkey a d)); reflexivity.
  Qed.

  (* C06 + C07: one Range request per maximal run of adjacent stored ranges of the missing descriptors, in
     archive order, and the payloads of exactly those descriptors are delivered, in order *)
  Theorem clone_http_general : forall retries,
    Forall (in_file f) (map (desc_range a) (a_descs a)) ->
    clone_http_requests H a f retries prior inplace seeds
      = map run_request (runs (map (desc_range a) missing_descs))
    /\ clone_http_items H a f retries prior inplace seeds
      = map (fun d => IOk (file_payload f d)) missing_descs.
  Proof.
    intros retries Hf. unfold clone_http_requests, clone_http_items, clone_http.
    rewrite clone_http_fetch_exact.
    assert (Hf' : Forall (in_file f) (map (desc_range a) missing_descs)).
    { apply Forall_forall. intros c Hc. apply in_map_iff in Hc. destruct Hc as (d & E & Hd). subst c.
      rewrite Forall_forall in Hf. apply Hf. apply in_map. unfold missing_descs in Hd. apply filter_In in Hd.
      apply Hd. }
    rewrite (requests_are_maximal_runs f retries _ Hf'). cbn [fst snd]. split; [reflexivity|].
    rewrite map_map. apply map_ext. intros d. rewrite desc_range_bytes. reflexivity.
  Qed.
End General.

Print Assumptions clone_http_fetch_exact.
Print Assumptions clone_http_general.

(* ================================================================== *)
(* 2. archives written by the model writer                             *)
(* ================================================================== *)
Section Writer.
  Variable H : list N -> list N.
  Variable comp : list N -> list N.
  Variable decomp : N -> list N -> option (list N).
  Hypothesis H_len : forall x, lenN (H x) = 64.
  Hypothesis H_bytes : forall x, Forall (fun b => b < 256) (H x).

  (* no chunk of the source is stored as zero bytes (a compressor never answers with an empty output).
     Needed: the HTTP reader completes a zero sized range without a request, see [zero_size_counterexample]. *)
  Definition stored_nonempty (o : copts) (src : list N) : Prop :=
    forall x, In x (chunks_of (o_cfg o) src) -> 0 < lenN (stored comp o x).

  (* the descriptors whose checksum is not the truncated hash of a chunk found in the old output or a seed *)
  Definition missing_by_checksum (o : copts) (a : archive) (prior : list N) (inplace : bool)
    (seeds : list (list N)) : adesc -> bool :=
    fun d => negb (existsb (fun c => list_eqb (takeN (o_hashlen o) (H c)) (ad_checksum d))
                           (scanned_cfg (cfg_read (o_cfg o)) prior inplace seeds)).

  (* ---------- layout of the descriptor table: chunks stored back to back ---------- *)
  Lemma total_stored_app : forall o pre l,
    total_stored comp o (pre ++ l) = total_stored comp o pre + total_stored comp o l.
  Proof.
    intros o. induction pre as [|x pre IH]; intros l; cbn [app].
    - unfold total_stored at 2. cbn [map concat lenN]. lia.
    - rewrite !total_stored_cons, IH. lia.
  Qed.

  Lemma adescs_chain : forall a o uniq off, chain (map (desc_range a) (adescs H comp o uniq off)).
  Proof.
    intros a o. induction uniq as [|x r IH]; intros off; cbn [adescs map]; [exact I|].
    specialize (IH (off + lenN (stored comp o x))). destruct r as [|y r']; [exact I|].
    cbn [adescs map] in IH |- *. split; [|exact IH]. reflexivity.
  Qed.

  Lemma adescs_in_file : forall a o f uniq off,
    (forall x, In x uniq -> 0 < lenN (stored comp o x)) ->
    off + total_stored comp o uniq <= lenN f ->
    Forall (in_file f) (map (desc_range a) (adescs H comp o uniq off)).
  Proof.
    intros a o f. induction uniq as [|x r IH]; intros off Hp Hb; cbn [adescs map]; [constructor|].
    rewrite total_stored_cons in Hb. constructor.
    - unfold in_file, r_end, desc_range. cbn [r_off r_size ad_offset ad_size].
      split; [apply Hp; now left|lia].
    - apply IH; [intros y Hy; apply Hp; now right|lia].
  Qed.

  Lemma adescs_sizes : forall a o uniq off,
    (forall x, In x uniq -> 0 < lenN (stored comp o x)) ->
    Forall (fun d => 0 < r_size (desc_range a d)) (adescs H comp o uniq off).
  Proof.
    intros a o. induction uniq as [|x r IH]; intros off Hp; cbn [adescs]; constructor.
    - cbn [desc_range r_size ad_size]. apply Hp. now left.
    - apply IH. intros y Hy. apply Hp. now right.
  Qed.

  Lemma adescs_last_end : forall a o uniq off d0, uniq <> [] ->
    r_end (last (map (desc_range a) (adescs H comp o uniq off)) d0) = off + total_stored comp o uniq.
  Proof.
    intros a o. induction uniq as [|x r IH]; intros off d0 Hne; [contradiction Hne; reflexivity|].
    rewrite total_stored_cons. cbn [adescs map]. destruct r as [|y r'].
    - cbn [adescs map last]. unfold r_end, desc_range, total_stored. cbn [r_off r_size ad_offset ad_size map concat lenN].
      lia.
    - specialize (IH (off + lenN (stored comp o x)) d0 ltac:(discriminate)).
      cbn [adescs map] in IH |- *. cbn [last] in IH |- *. rewrite IH. lia.
  Qed.

  Lemma adescs_run_request : forall a o uniq off, uniq <> [] ->
    run_request (map (desc_range a) (adescs H comp o uniq off)) = (off, total_stored comp o uniq).
  Proof.
    intros a o uniq off Hne. destruct uniq as [|x r]; [contradiction Hne; reflexivity|].
    pose proof (fun d0 => adescs_last_end a o (x :: r) off d0 Hne) as HL.
    cbn [adescs map] in HL |- *. unfold run_request. rewrite HL.
    cbn [desc_range r_off ad_offset]. f_equal. lia.
  Qed.

  (* what try_init accepted: the descriptor table of the writer, laid out from the chunk data offset to the end *)
  Lemma writer_layout : forall src o bytes a,
    opts_ok o -> bytes_ok src -> lenN src < 18446744073709551616 -> lenN bytes < 18446744073709551616 ->
    compress_model H comp src o = Ok bytes ->
    try_init H (file_read_at bytes) = Ok a ->
    exists uniq, a_descs a = adescs H comp o uniq (a_data_offset a)
      /\ lenN bytes = a_data_offset a + total_stored comp o uniq
      /\ (forall x, In x uniq -> In x (chunks_of (o_cfg o) src)).
  Proof.
    intros src o bytes a Hok Hsrc Hls Hlb Hm Ha.
    destruct (compress_then_init H comp H_len H_bytes src o bytes Hok Hsrc Hls Hlb Hm)
      as (chunks & uniq & order & hdr & hck & EC & _ & Hin & _ & _ & _ & Eb & Hinit).
    rewrite Hinit in Ha. injection Ha as Ha. subst a. cbn [a_descs a_data_offset].
    exists uniq. split; [reflexivity|]. split.
    - rewrite Eb, rt_lenN_app. reflexivity.
    - intros x Hx. unfold chunks_of. rewrite EC. apply Hin. exact Hx.
  Qed.

  (* ---------- the requests of a clone from a written archive ---------- *)
  Theorem compress_clone_http : forall src o bytes prior inplace seeds retries,
    opts_ok o -> bytes_ok src -> lenN src < 18446744073709551616 -> lenN bytes < 18446744073709551616 ->
    codec_ok comp decomp o -> few_chunks o src ->
    no_collision H o src prior inplace seeds -> stored_nonempty o src ->
    compress_model H comp src o = Ok bytes ->
    exists a, try_init H (file_read_at bytes) = Ok a
      /\ let missing := filter (missing_by_checksum o a prior inplace seeds) (a_descs a) in
         (* one Range request per maximal run of adjacent stored ranges of the missing descriptors *)
         clone_http_requests H a bytes retries prior inplace seeds
           = map run_request (runs (map (desc_range a) missing))
         (* = one per maximal run of consecutive missing descriptors of the table *)
         /\ lenN (clone_http_requests H a bytes retries prior inplace seeds)
           = blocks false (map (missing_by_checksum o a prior inplace seeds) (a_descs a))
         (* and their payloads are delivered in archive order *)
         /\ clone_http_items H a bytes retries prior inplace seeds
           = map (fun d => IOk (file_payload bytes d)) missing.
  Proof.
    intros src o bytes prior inplace seeds retries Hok Hsrc Hls Hlb Hcodec Hfew Hnc Hne Hm.
    destruct (writer_general_hyps H comp decomp H_len H_bytes src o bytes prior inplace seeds
                Hok Hsrc Hls Hlb Hcodec Hfew Hnc Hm)
      as (a & uniq & Hinit & Hdesc & Hkeys & Hpay & Hv & Hck & Hinj & Hsrcck & Esc & Ehl).
    destruct (writer_layout src o bytes a Hok Hsrc Hls Hlb Hm Hinit) as (uniq' & Ed & El & Hu').
    assert (Hpos : forall x, In x uniq' -> 0 < lenN (stored comp o x)).
    { intros x Hx. apply Hne. apply Hu'. exact Hx. }
    assert (Hf : Forall (in_file bytes) (map (desc_range a) (a_descs a))).
    { rewrite Ed. apply adescs_in_file; [exact Hpos|lia]. }
    destruct (clone_http_general H decomp H_bytes (lookup uniq) a src prior bytes inplace seeds
                Hdesc Hkeys Hpay Hv Hck Hinj retries Hf) as [Hreq Hit].
    assert (Emiss : missing_descs (lookup uniq) a prior inplace seeds
                    = filter (missing_by_checksum o a prior inplace seeds) (a_descs a)).
    { unfold missing_descs. apply filter_ext_in. intros d Hd. unfold missing_by_checksum. f_equal. rewrite Esc.
      destruct (Hsrcck d Hd) as [Hin Eck].
      apply eq_iff_eq_true. rewrite chunk_mem_In, existsb_exists. split.
      - intros Hc. exists (lookup uniq (dkey a d)). split; [exact Hc|]. rewrite Eck. apply rt_list_eqb_refl.
      - intros (c & Hc & E). apply cc_list_eqb in E. rewrite Eck in E.
        assert (Ec : c = lookup uniq (dkey a d)).
        { apply Hnc; [apply in_or_app; right; exact Hc|apply in_or_app; left; exact Hin|exact E]. }
        rewrite <- Ec. exact Hc. }
    rewrite Emiss in Hreq, Hit.
    exists a. split; [exact Hinit|]. cbv zeta. split; [exact Hreq|]. split; [|exact Hit].
    rewrite Hreq, cc_lenN_map.
    apply (runs_filter_blocks adesc (desc_range a) (missing_by_checksum o a prior inplace seeds)).
    - rewrite Ed. apply adescs_chain.
    - rewrite Ed. apply adescs_sizes. exact Hpos.
  Qed.

  (* nothing to reuse (the old output is not scanned, no seeds): the whole chunk data in ONE request *)
  Theorem compress_clone_http_nothing_found : forall src o bytes prior retries,
    opts_ok o -> bytes_ok src -> lenN src < 18446744073709551616 -> lenN bytes < 18446744073709551616 ->
    codec_ok comp decomp o -> few_chunks o src ->
    no_collision H o src prior false [] -> stored_nonempty o src ->
    compress_model H comp src o = Ok bytes -> src <> [] ->
    exists a, try_init H (file_read_at bytes) = Ok a
      /\ clone_http_requests H a bytes retries prior false [] = [(a_data_offset a, lenN bytes - a_data_offset a)]
      /\ clone_http_items H a bytes retries prior false [] = map (fun d => IOk (file_payload bytes d)) (a_descs a).
  Proof.
    intros src o bytes prior retries Hok Hsrc Hls Hlb Hcodec Hfew Hnc Hne Hm Hsne.
    destruct (compress_clone_http src o bytes prior false [] retries Hok Hsrc Hls Hlb Hcodec Hfew Hnc Hne Hm)
      as (a & Hinit & Hreq & _ & Hit). cbv zeta in Hreq, Hit.
    assert (Eall : filter (missing_by_checksum o a prior false []) (a_descs a) = a_descs a).
    { clear. induction (a_descs a) as [|d l IH]; [reflexivity|]. cbn [filter]. unfold missing_by_checksum at 1.
      unfold scanned_cfg. cbn [flat_map app existsb negb]. f_equal. exact IH. }
    rewrite Eall in Hreq, Hit.
    destruct (writer_layout src o bytes a Hok Hsrc Hls Hlb Hm Hinit) as (uniq' & Ed & El & _).
    (* a non-empty source has at least one descriptor *)
    assert (Hdne : uniq' <> []).
    { intros E. rewrite E in Ed. cbn [adescs] in Ed.
      destruct (writer_general_hyps H comp decomp H_len H_bytes src o bytes prior false []
                  Hok Hsrc Hls Hlb Hcodec Hfew Hnc Hm)
        as (a' & uniq & Hinit' & Hdesc & Hkeys & _).
      assert (Ea : a' = a) by congruence. subst a'.
      destruct Hdesc as (_ & _ & _ & Hcov). destruct (Hcov 0) as (k & o' & (l & Hg & _) & _).
      { destruct src; [contradiction Hsne; reflexivity|]. cbn [lenN]. lia. }
      apply ci_get_Some_keys in Hg. destruct Hkeys as [_ Hkk]. apply Hkk in Hg. rewrite Ed in Hg. destruct Hg. }
    exists a. split; [exact Hinit|]. split; [|exact Hit].
    rewrite Hreq, Ed. rewrite runs_chain; [|apply adescs_chain|].
    2: { destruct uniq'; [contradiction Hdne; reflexivity|]. discriminate. }
    cbn [map]. rewrite (adescs_run_request a o uniq' (a_data_offset a) Hdne). f_equal. f_equal. lia.
  Qed.
End Writer.

Print Assumptions compress_clone_http.
Print Assumptions compress_clone_http_nothing_found.

(* ================================================================== *)
(* 3. concrete evidence                                                *)
(* ================================================================== *)
Definition ch_run (comp : list N -> list N) (o : copts) (src prior : list N) (inplace : bool) (seeds : list (list N)) :=
  match compress_model rt_toyH comp src o with
  | Ok bytes =>
      match try_init rt_toyH (file_read_at bytes) with
      | Ok a => Some (a_data_offset a, lenN bytes, map (desc_range a) (a_descs a),
                      map (dkey a) (clone_http_fetch rt_toyH a prior inplace seeds),
                      clone_http rt_toyH a bytes 0 prior inplace seeds)
      | _ => None
      end
  | _ => None
  end.

Definition ch_opts : copts :=
  {| o_cfg := {| c_algo := AFixed; c_bits := 0; c_min := 0; c_max := 2; c_win := 0 |};
     o_hashlen := 4; o_comp := Some (E_CompressionType_BROTLI, 6); o_meta := [([97], [1; 2])]; o_version := [48] |}.

(* the data of [cm_only_missing_chunk_fetched]: only the chunk [5;6] (descriptor 2) is found nowhere: one request
   for its 2 stored bytes *)
Example ch_only_missing_chunk_requested :
  ch_run rt_toycomp ch_opts [1; 2; 3; 4; 1; 2; 5; 6] [3; 4; 9; 9; 1; 2; 8; 8; 8] true [[0; 0; 5]]
  = Some (226, 231,
          [{| r_off := 226; r_size := 1 |}; {| r_off := 227; r_size := 2 |}; {| r_off := 229; r_size := 2 |}],
          [2], ([IOk [5; 6]], [(229, 2)])).
Proof. vm_compute. reflexivity. Qed.

(* five descriptors; the chunks of 1 ([3;4]) and 4 ([1;2], stored compressed in 1 byte) are found in the old
   output: descriptors 0 and 2, 3 are missing: two requests, the second covering two adjacent stored chunks *)
Example ch_two_runs :
  ch_run rt_toycomp ch_opts [7; 7; 3; 4; 5; 6; 8; 9; 1; 2] [3; 4; 9; 9; 1; 2; 8; 8; 8] true [[0; 0; 5]]
  = Some (255, 264,
          [{| r_off := 255; r_size := 2 |}; {| r_off := 257; r_size := 2 |}; {| r_off := 259; r_size := 2 |};
           {| r_off := 261; r_size := 2 |}; {| r_off := 263; r_size := 1 |}],
          [0; 2; 3], ([IOk [7; 7]; IOk [5; 6]; IOk [8; 9]], [(255, 2); (259, 4)])).
Proof. vm_compute. reflexivity. Qed.

(* nothing scanned: the whole chunk data [255, 264) in one request *)
Example ch_nothing_found_one_request :
  ch_run rt_toycomp ch_opts [7; 7; 3; 4; 5; 6; 8; 9; 1; 2] [3; 4; 9; 9; 1; 2; 8; 8; 8] false []
  = Some (255, 264,
          [{| r_off := 255; r_size := 2 |}; {| r_off := 257; r_size := 2 |}; {| r_off := 259; r_size := 2 |};
           {| r_off := 261; r_size := 2 |}; {| r_off := 263; r_size := 1 |}],
          [0; 1; 2; 3; 4],
          ([IOk [7; 7]; IOk [3; 4]; IOk [5; 6]; IOk [8; 9]; IOk [9]], [(255, 9)])).
Proof. vm_compute. reflexivity. Qed.

(* Why [stored_nonempty] is a hypothesis: a codec that is a correct inverse pair ([codec_ok]) but compresses one
   chunk to zero bytes. The descriptor's stored range is empty; the reader delivers it without any request, so
   the request list is [] and not the single request [(193, 0)] the run formula gives. *)
Definition ch_zcomp (x : list N) : list N := if list_eqb x [1; 2] then [] else 0 :: 0 :: x.
Definition ch_zdecomp (t : N) (y : list N) : option (list N) :=
  match y with [] => Some [1; 2] | _ => Some (tl (tl y)) end.

Example zero_size_counterexample :
  codec_ok ch_zcomp ch_zdecomp ch_opts
  /\ ch_run ch_zcomp ch_opts [1; 2] [] false []
     = Some (193, 193, [{| r_off := 193; r_size := 0 |}], [0], ([IOk []], []))
  /\ map run_request (runs [{| r_off := 193; r_size := 0 |}]) = [(193, 0)].
Proof.
  split; [|split; vm_compute; reflexivity].
  intros t l x _. unfold ch_zcomp, ch_zdecomp. destruct (list_eqb x [1; 2]) eqn:E.
  - apply cc_list_eqb in E. subst x. reflexivity.
  - reflexivity.
Qed.
