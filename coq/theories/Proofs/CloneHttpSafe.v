(* A whole clone over HTTP (Model/CloneHttpModel.v) against a scripted server (Model/HttpReader.v).
   1. [chunk_reader_never_short]: for EVERY script the chunk reader delivers all the chunks, or a strict prefix
      followed by exactly one error item: a stream never ends early without an error.
   2. [http_clone_tamper_safe] (C04 over http): whatever the server does, a clone that reports success
      produced the source.
   3. [http_clone_total] (C15 over http): never Panic / OutOfFuel.
   4. [http_clone_unreliable_server] (C01/C08 over http): an honest but unreliable server and enough retries.
   5. computed instances. *)
From Coq Require Import NArith List Bool Lia.
From Bita Require Import Model.Base Gen.Generated Model.Chunker Model.ChunkIndex Model.CloneOutput Model.CloneSpec
                         Model.Proto Model.Archive Model.Compress Model.CloneArchive Model.CloneBytes Model.HttpReader
                         Model.CloneHttpModel.
From Bita Require Import Proofs.Planner Proofs.CloneCorrect Proofs.CloneFinal Proofs.ArchiveSafe Proofs.TamperSafe
                         Proofs.ProtoRoundTrip Proofs.CompressConform Proofs.RoundTrip Proofs.Readers
                         Proofs.CloneBytesCorrect Proofs.CloneBytesMore Proofs.CloneHttp.
Import ListNotations.
Open Scope N_scope.

(* ================================================================== *)
(* 1. the chunk reader never ends a stream early without an error      *)
(* ================================================================== *)
(* a range request that reports an error has not delivered what was needed; one that reports success has:
   for every script *)
Lemma rr_any : forall fuel f off size retries script need got log got' log' script' err,
  lenN got < need ->
  range_request fuel f off size retries script need got log = (got', log', script', err) ->
  match err with None => need <= lenN got' | Some _ => lenN got' < need end.
Proof.
  induction fuel as [|fu IH]; intros f off size retries script need got log got' log' script' err Hlt Hr.
  - injection Hr as <- _ _ <-. exact Hlt.
  - rewrite range_request_S in Hr. cbv zeta in Hr.
    destruct (serve f off size _) as [[body fn]|].
    + destruct (N.leb_spec need (lenN (got ++ body))) as [Hle|Hgt].
      * injection Hr as <- _ _ <-. exact Hle.
      * destruct fn.
        -- injection Hr as <- _ _ <-. exact Hgt.
        -- destruct (retries =? 0).
           ++ injection Hr as <- _ _ <-. exact Hgt.
           ++ exact (IH _ _ _ _ _ _ _ _ _ _ _ _ Hgt Hr).
    + destruct (retries =? 0).
      * injection Hr as <- _ _ <-. exact Hlt.
      * exact (IH _ _ _ _ _ _ _ _ _ _ _ _ Hlt Hr).
Qed.

(* a buffer that holds a whole run is split into chunks of the requested sizes *)
Lemma split_chunks_sizes : forall run buf, total_size run <= lenN buf ->
  exists ds, split_chunks buf run = map IOk ds /\ Forall2 (fun d c => lenN d = r_size c) ds run.
Proof.
  induction run as [|c r IH]; intros buf Hb; cbn [split_chunks].
  - exists []. split; [reflexivity|constructor].
  - cbn [total_size] in Hb. destruct (IH (dropN (r_size c) buf)) as (ds & E & HF).
    { rewrite lenN_dropN. lia. }
    exists (takeN (r_size c) buf :: ds). cbn [map]. rewrite E. split; [reflexivity|].
    constructor; [|exact HF]. rewrite lenN_takeN. lia.
Qed.

(* a buffer that does not hold a whole run gives a strict prefix *)
Lemma pre_done_short : forall run buf, lenN buf < total_size run ->
  exists ds, pre_done buf run = map IOk ds /\ (length ds < length run)%nat.
Proof.
  induction run as [|c r IH]; intros buf Hb; cbn [total_size] in Hb; [lia|]. cbn [pre_done].
  destruct (N.leb_spec (r_size c) (lenN buf)) as [Hle|Hgt].
  - destruct (IH (dropN (r_size c) buf)) as (ds & E & Hl).
    { rewrite lenN_dropN. lia. }
    exists (takeN (r_size c) buf :: ds). cbn [map length]. rewrite E. split; [reflexivity|lia].
  - exists []. split; [reflexivity|cbn [length]; lia].
Qed.

Lemma Forall2_app_skipn : forall {A B} (R : A -> B -> Prop) n l1 l2 (cs : list B),
  Forall2 R l1 (firstn n cs) -> Forall2 R l2 (skipn n cs) -> Forall2 R (l1 ++ l2) cs.
Proof.
  intros A B R n l1 l2 cs H1 H2. rewrite <- (firstn_skipn n cs). apply Forall2_app; assumption.
Qed.

Lemma Forall2_len : forall {A B} (R : A -> B -> Prop) l1 l2, Forall2 R l1 l2 -> length l1 = length l2.
Proof. intros A B R l1 l2 HF. induction HF as [|x y l1 l2 _ _ IH]; [reflexivity|]. cbn [length]. now rewrite IH. Qed.

Definition never_short (chunks : list range) (items : list item) : Prop :=
  (exists ds, items = map IOk ds /\ length ds = length chunks /\ Forall2 (fun d c => lenN d = r_size c) ds chunks)
  \/ (exists ds e, items = map IOk ds ++ [IErr e] /\ (length ds < length chunks)%nat).

Lemma cr_never_short : forall fuel f retries script chunks buf log items log',
  (length chunks < fuel)%nat ->
  chunk_reader fuel f retries script chunks buf log = (items, log') ->
  never_short chunks items.
Proof.
  induction fuel as [|fu IH]; intros f retries script chunks buf log items log' Hfu Hc; [lia|].
  destruct chunks as [|c rest].
  - injection Hc as <- _. left. exists []. split; [reflexivity|]. split; [reflexivity|constructor].
  - rewrite chunk_reader_S in Hc. destruct (N.leb_spec (r_size c) (lenN buf)) as [Hle|Hgt].
    + destruct (chunk_reader fu f retries script rest (dropN (r_size c) buf) log) as [items1 log1] eqn:E1.
      injection Hc as <- _. cbn [length] in Hfu.
      apply IH in E1; [|lia]. destruct E1 as [(ds & -> & Hl & HF)|(ds & e & -> & Hl)].
      * left. exists (takeN (r_size c) buf :: ds). split; [reflexivity|]. split; [cbn [length]; lia|].
        constructor; [|exact HF]. rewrite lenN_takeN. lia.
      * right. exists (takeN (r_size c) buf :: ds), e. split; [reflexivity|]. cbn [length]. lia.
    + cbv zeta in Hc. rewrite adjacent_reads_adjn in Hc.
      pose proof (chain_firstn_adjn (c :: rest)) as Hch.
      pose proof (adjn_le c rest) as Hn.
      destruct (adjn_pos (c :: rest)) as [k Hk].
      assert (Ht : r_end (last (firstn (adjn (c :: rest)) (c :: rest)) c) - r_off c
                   = total_size (firstn (adjn (c :: rest)) (c :: rest))).
      { rewrite Hk in *. cbn [firstn] in *. rewrite (chain_last_end _ _ Hch). lia. }
      rewrite Ht in Hc.
      assert (Hpos : 0 < total_size (firstn (adjn (c :: rest)) (c :: rest))).
      { rewrite Hk. cbn [firstn total_size]. lia. }
      set (n := adjn (c :: rest)) in *. set (run := firstn n (c :: rest)) in *.
      set (total := total_size run) in *.
      assert (Hlen : length run = n) by (subst run; apply firstn_length_le; exact Hn).
      destruct (range_request _ f (r_off c) total retries script total [] log)
        as [[[got log1] script1] err] eqn:Er.
      apply rr_any in Er; [|cbn [lenN]; exact Hpos].
      destruct err as [e|].
      * injection Hc as <- _. destruct (pre_done_short run got Er) as (ds & -> & Hl).
        right. exists ds, e. split; [reflexivity|]. lia.
      * destruct (chunk_reader fu f retries script1 (skipn n (c :: rest)) (dropN total got) log1)
          as [items1 log2] eqn:E1.
        injection Hc as <- _.
        destruct (split_chunks_sizes run got Er) as (ds0 & -> & HF0).
        pose proof (Forall2_len _ _ _ HF0) as Hl0.
        apply IH in E1; [|rewrite skipn_length; cbn [length] in *; lia].
        unfold never_short in E1. rewrite skipn_length in E1.
        destruct E1 as [(ds & -> & Hl & HF)|(ds & e & -> & Hl)].
        -- left. exists (ds0 ++ ds). rewrite map_app. split; [reflexivity|]. split.
           ++ rewrite app_length. lia.
           ++ exact (Forall2_app_skipn _ n ds0 ds (c :: rest) HF0 HF).
        -- right. exists (ds0 ++ ds), e. rewrite map_app, app_assoc. split; [reflexivity|].
           rewrite app_length. lia.
Qed.

(* (1) all the chunks, each of the requested size, or a strict prefix followed by exactly one error item *)
Theorem chunk_reader_never_short : forall f retries script chunks buf log items log',
  chunk_reader (S (length chunks)) f retries script chunks buf log = (items, log') ->
  (exists ds, items = map IOk ds /\ length ds = length chunks /\ Forall2 (fun d c => lenN d = r_size c) ds chunks)
  \/ (exists ds e, items = map IOk ds ++ [IErr e] /\ (length ds < length chunks)%nat).
Proof.
  intros f retries script chunks buf log items log' Hc.
  refine (cr_never_short _ _ _ _ _ _ _ _ _ _ Hc). lia.
Qed.

Corollary read_chunks_http_never_short : forall f retries script chunks items log,
  read_chunks_http f retries script chunks = (items, log) ->
  (exists ds, items = map IOk ds /\ length ds = length chunks /\ Forall2 (fun d c => lenN d = r_size c) ds chunks)
  \/ (exists ds e, items = map IOk ds ++ [IErr e] /\ (length ds < length chunks)%nat).
Proof. intros f retries script chunks items log Hc. exact (chunk_reader_never_short _ _ _ _ _ _ _ _ Hc). Qed.

(* ================================================================== *)
(* 2. C04 over http                                                    *)
(* ================================================================== *)
Section HttpTamper.
  Variable H : list N -> list N.
  Variable decomp : N -> list N -> option (list N).
  Variable D : N -> list N.

  (* hash check soundness on everything a run could be offered *)
  Definition verified_any (a : archive) : Prop :=
    forall d x y, In d (a_descs a) -> unpack H decomp a d x = Ok y -> y = D (dkey a d).

  (* a stream that ends with an error item before all chunks arrived fails the clone *)
  Lemma unpack_items_err : forall a descs ds e, (length ds < length descs)%nat ->
    forall arch, unpack_items H decomp a descs (map IOk ds ++ [IErr e]) <> Ok arch.
  Proof.
    intros a. induction descs as [|d r IH]; intros ds e Hl arch; cbn [length] in Hl; [lia|].
    destruct ds as [|x ds]; cbn [map app unpack_items]; [discriminate|].
    destruct (unpack H decomp a d x) as [y| | |]; cbn [bind]; try discriminate.
    cbn [length] in Hl. specialize (IH ds e ltac:(lia)).
    destruct (unpack_items H decomp a r (map IOk ds ++ [IErr e])) as [rest| | |]; cbn [bind]; try discriminate.
    exfalso. exact (IH rest eq_refl).
  Qed.

  (* what passed verification is the genuine list *)
  Lemma unpack_items_verified : forall a descs ds arch,
    verified_any a -> (forall d, In d descs -> In d (a_descs a)) -> length ds = length descs ->
    unpack_items H decomp a descs (map IOk ds) = Ok arch -> arch = map (gen D a) descs.
  Proof.
    intros a. induction descs as [|d r IH]; intros ds arch Hv Hsub Hl Hu.
    - cbn [unpack_items] in Hu. injection Hu as <-. reflexivity.
    - destruct ds as [|x ds]; [discriminate Hl|]. cbn [map unpack_items] in Hu.
      destruct (unpack H decomp a d x) as [y| | |] eqn:Hy; cbn [bind] in Hu; try discriminate Hu.
      destruct (unpack_items H decomp a r (map IOk ds)) as [rest| | |] eqn:Hr; cbn [bind] in Hu; try discriminate Hu.
      injection Hu as <-. cbn [map]. cbn [length] in Hl.
      rewrite (IH ds rest Hv (fun d' Hd' => Hsub d' (or_intror Hd')) ltac:(lia) Hr).
      rewrite (Hv d x y (Hsub d (or_introl eq_refl)) Hy). reflexivity.
  Qed.

  Theorem http_clone_tamper_safe : forall f retries script a sc lg src out,
    http_open H f retries script = (Ok a, sc, lg) ->
    describes D (build_source_index a) src -> desc_keys_ok a -> a_total a = lenN src ->
    (forall d x y, In d (a_descs a) -> unpack H decomp a d x = Ok y -> y = D (dkey a d)) ->
    fst (http_clone H decomp f retries script) = Ok out -> out = src.
  Proof.
    intros f retries script a sc lg src out Ho Hdesc Hk Htot Hv Hc.
    unfold http_clone in Hc. rewrite Ho in Hc.
    set (descs := fetch_descs a (cr_index (clone_model [] None (build_source_index a) None [] []))) in *.
    destruct (chunk_reader (S (length descs)) f retries sc (map (desc_req) descs) [] lg) as [items log2] eqn:Ecr.
    assert (Hns := chunk_reader_never_short f retries sc (map desc_req descs) [] lg items log2).
    rewrite map_length in Hns. specialize (Hns Ecr).
    destruct (unpack_items H decomp a descs items) as [arch|e|p|] eqn:Eu; cbn [fst] in Hc; try discriminate Hc.
    destruct Hns as [(ds & -> & Hl & _)|(ds & e & -> & Hl)].
    2: { exfalso. exact (unpack_items_err a descs ds e Hl arch Eu). }
    apply unpack_items_verified in Eu; [|exact Hv|apply fetch_descs_incl|exact Hl].
    assert (Ecm : clone_model [] None (build_source_index a) None [] arch
                  = clone_model [] None (build_source_index a) None [] (full D a)).
    { apply clone_model_arch_ext. rewrite Eu. unfold descs. rewrite <- filter_full. apply filter_idem. }
    rewrite Ecm in Hc.
    destruct (clone_exact_final D src [] (build_source_index a) None [] (full D a)
                Hdesc I (Forall_nil _) (sound_gen D a (a_descs a)) (full_complete D a Hk)) as (He & _ & Hf).
    rewrite He in Hc. cbn [fst] in Hc. injection Hc as <-.
    apply set_len_exact; [rewrite Htot; exact Hf|symmetry; exact Htot].
  Qed.
End HttpTamper.

(* ================================================================== *)
(* 3. C15 over http: totality                                          *)
(* ================================================================== *)
Section HttpTotal.
  Variable H : list N -> list N.
  Variable decomp : N -> list N -> option (list N).

  Lemma item_reader_total : forall pre (o : outcome (list N)),
    match o with Ok _ | Err _ => True | _ => False end ->
    reader_total (fun off (_ : N) => if off =? 0 then Ok pre else o).
  Proof. intros pre o Ho off n. destruct (off =? 0); [exact I|exact Ho]. Qed.

  Lemma http_open_total : forall f retries script,
    match fst (fst (http_open H f retries script)) with Ok _ | Err _ => True | Panic _ | OutOfFuel => False end.
  Proof.
    intros f retries script. unfold http_open.
    destruct (http_read_at _ f 0 PRE_HEADER_SIZE retries script []) as [[pre|e] log1]; [|exact I].
    destruct (_ && _).
    - destruct (http_read_at _ f PRE_HEADER_SIZE _ retries _ log1) as [i2 log2]. cbn [fst].
      apply try_init_total. apply item_reader_total. destruct i2; exact I.
    - cbn [fst]. apply try_init_total. apply item_reader_total. exact I.
  Qed.

  Lemma unpack_items_ok_or_err : forall a descs items,
    match unpack_items H decomp a descs items with Ok _ | Err _ => True | Panic _ | OutOfFuel => False end.
  Proof.
    intros a. induction descs as [|d r IH]; intros items; cbn [unpack_items]; [exact I|].
    destruct items as [|[x|e] ri]; [exact I| |exact I].
    destruct (unpack_ok_or_err H decomp a d x) as [[y ->]|[e ->]]; cbn [bind]; [|exact I].
    specialize (IH ri). destruct (unpack_items H decomp a r ri); cbn [bind]; try exact I; contradiction.
  Qed.

  (* (3) whatever the server sends, for every hash and codec, the clone ends with a result or a reported error.
     (The output side, [clone_model], is a total function without Panic outcomes: the model of clone_output.rs
     has no arithmetic that can fail; what can fail on hostile data is all in try_init / unpack.) *)
  Theorem http_clone_total : forall f retries script,
    match fst (http_clone H decomp f retries script) with Ok _ | Err _ => True | Panic _ | OutOfFuel => False end.
  Proof.
    intros f retries script. unfold http_clone.
    pose proof (http_open_total f retries script) as Ho.
    destruct (http_open H f retries script) as [[oa sc] lg]. cbn [fst] in Ho.
    destruct oa as [a|e|p|]; try contradiction; [|exact I].
    destruct (chunk_reader _ f retries sc _ [] lg) as [items log2].
    pose proof (unpack_items_ok_or_err a
                  (fetch_descs a (cr_index (clone_model [] None (build_source_index a) None [] []))) items) as Hu.
    destruct (unpack_items H decomp a _ items) as [arch|e|p|]; try contradiction; [|exact I].
    destruct (o_err _); exact I.
  Qed.
End HttpTotal.

(* (2) + (3) in the form of C04_payload_tamper_safe: success with the source, or a reported error *)
Corollary http_clone_safe :
  forall (H : list N -> list N) (decomp : N -> list N -> option (list N)) (D : N -> list N)
         f retries script a sc lg src,
    http_open H f retries script = (Ok a, sc, lg) ->
    describes D (build_source_index a) src -> desc_keys_ok a -> a_total a = lenN src ->
    (forall d x y, In d (a_descs a) -> unpack H decomp a d x = Ok y -> y = D (dkey a d)) ->
    match fst (http_clone H decomp f retries script) with
    | Ok out => out = src
    | Err _ => True
    | Panic _ | OutOfFuel => False
    end.
Proof.
  intros H decomp D f retries script a sc lg src Ho Hdesc Hk Htot Hv.
  pose proof (http_clone_total H decomp f retries script) as Ht.
  pose proof (http_clone_tamper_safe H decomp D f retries script a sc lg src) as Hs.
  destruct (fst (http_clone H decomp f retries script)) as [out|e|p|]; try exact Ht.
  exact (Hs out Ho Hdesc Hk Htot Hv eq_refl).
Qed.

(* ================================================================== *)
(* 4. C01 / C08 over http: an honest but unreliable server             *)
(* ================================================================== *)
Lemma http_read_at_S : forall fu f off size retries script log,
  http_read_at (S fu) f off size retries script log =
    let it := match script with [] => SOk | x :: _ => x end in
    let log' := log ++ [(off, size)] in
    match serve f off size it with
    | Some (body, FinEnd) =>
        if size <=? lenN body then (IOk (takeN size body), log') else (IErr E_END, log')
    | _ =>
        if retries =? 0 then (IErr E_HTTP, log')
        else http_read_at fu f off size (retries - 1) (tl script) log'
    end.
Proof. reflexivity. Qed.

Lemma repeat_snoc : forall {A} (x : A) n, [x] ++ repeat x n = repeat x (S n).
Proof. reflexivity. Qed.

(* HttpReader::read_at with enough retries: the whole range, after one request per failing item and one more *)
Lemma hra_suffice : forall fuel f off size retries script log,
  Forall retryable script ->
  N.of_nat (length (filter failing script)) <= retries ->
  (N.to_nat retries < fuel)%nat ->
  off + size <= lenN f ->
  exists k, http_read_at fuel f off size retries script log = (IOk (bytes f off size), log ++ repeat (off, size) (S k))
    /\ (script = [] -> k = O).
Proof.
  induction fuel as [|fu IH]; intros f off size retries script log Hs Hn Hfu Hin; [lia|].
  rewrite http_read_at_S. cbv zeta.
  assert (Hok : serve f off size SOk = Some (bytes f off size, FinEnd)) by reflexivity.
  assert (Hfull : (if size <=? lenN (bytes f off size) then (IOk (takeN size (bytes f off size)), log ++ [(off, size)])
                   else (IErr E_END, log ++ [(off, size)])) = (IOk (bytes f off size), log ++ repeat (off, size) 1)).
  { rewrite lenN_bytes_in by exact Hin. rewrite N.leb_refl. rewrite takeN_all; [reflexivity|].
    rewrite lenN_bytes_in by exact Hin. lia. }
  destruct script as [|it script].
  - rewrite Hok. exists O. split; [exact Hfull|reflexivity].
  - pose proof (Forall_inv Hs) as Hit. pose proof (Forall_inv_tail Hs) as Htl.
    assert (Hretry : failing it = true ->
              exists k, (if retries =? 0 then (IErr E_HTTP, log ++ [(off, size)])
                         else http_read_at fu f off size (retries - 1) script (log ++ [(off, size)]))
                        = (IOk (bytes f off size), log ++ repeat (off, size) (S k))
                /\ (it :: script = [] -> k = O)).
    { intros Hf. cbn [filter] in Hn. rewrite Hf in Hn. cbn [length] in Hn.
      destruct (N.eqb_spec retries 0) as [H0|_]; [lia|].
      destruct (IH f off size (retries - 1) script (log ++ [(off, size)]) Htl) as (k & -> & _); [lia|lia|exact Hin|].
      exists (S k). split; [|discriminate]. rewrite <- app_assoc, repeat_snoc. reflexivity. }
    cbn [tl]. destruct it; try contradiction.
    + rewrite Hok. exists O. split; [exact Hfull|discriminate].
    + unfold serve. apply Hretry. reflexivity.
    + unfold serve. apply Hretry. reflexivity.
Qed.

Lemma filter_skipn_le : forall {A} (p : A -> bool) n l, (length (filter p (skipn n l)) <= length (filter p l))%nat.
Proof.
  intros A p n; induction n as [|n IH]; intros l; [cbn [skipn]; lia|].
  destruct l as [|x l]; [cbn; lia|]. cbn [skipn filter]. specialize (IH l).
  destruct (p x); cbn [length]; lia.
Qed.

Section HttpHonest.
  Variable H : list N -> list N.
  Variable decomp : N -> list N -> option (list N).

  (* opening over http an archive that opens as a file: the two header reads, retried as needed *)
  Lemma http_open_honest : forall f retries script a,
    try_init H (file_read_at f) = Ok a ->
    Forall retryable script -> N.of_nat (length (filter failing script)) <= retries ->
    exists sc lg, http_open H f retries script = (Ok a, sc, lg)
      /\ Forall retryable sc /\ (length (filter failing sc) <= length (filter failing script))%nat
      /\ (script = [] -> sc = [] /\ lg = [(0, 14); (14, a_header_size a - 14)]).
  Proof.
    intros f retries script a Ha Hs Hn.
    destruct (try_init_inv H _ a Ha) as (pre & rest & d & p & c & descs & cm & cfg & Hacc).
    unfold accepted in Hacc. cbv zeta in Hacc.
    destruct Hacc as (E0 & Hmagic & Hlt & E1 & Hlen & _ & _ & _ & _ & _ & _ & _ & _ & Ea).
    pose proof (file_read_at_ok _ _ _ _ E0) as [Hle0 Epre].
    pose proof (file_read_at_ok _ _ _ _ E1) as [Hle1 Erest].
    assert (Epre' : pre = bytes f 0 PRE_HEADER_SIZE) by (rewrite Epre; reflexivity).
    set (trailer := le_value (slice pre 6 PRE_HEADER_SIZE) + TRAILER_OFFSET_SIZE + TRAILER_HASH_SIZE) in *.
    assert (Erest' : rest = bytes f PRE_HEADER_SIZE trailer).
    { rewrite Erest. unfold slice, bytes. f_equal. lia. }
    assert (Ehs : a_header_size a = PRE_HEADER_SIZE + trailer).
    { rewrite Ea. cbn [a_header_size]. exact Hlen. }
    unfold http_open.
    destruct (hra_suffice (S (S (N.to_nat retries))) f 0 PRE_HEADER_SIZE retries script [] Hs Hn)
      as (k1 & -> & Hk1); [lia|exact Hle0|].
    cbn [app]. rewrite <- Epre'. fold trailer.
    assert (Hcond : (list_eqb (takeN 6 pre) ARCHIVE_MAGIC || list_eqb (takeN 6 pre) LEGACY_MAGIC)
                    && (trailer + PRE_HEADER_SIZE <? M64) = true).
    { apply andb_true_iff. split; [apply orb_true_iff; exact Hmagic|apply N.ltb_lt; exact Hlt]. }
    rewrite Hcond.
    set (sc1 := skipn (length (repeat (0, PRE_HEADER_SIZE) (S k1))) script).
    assert (Hs1 : Forall retryable sc1) by (apply Forall_skipn; exact Hs).
    assert (Hf1 : (length (filter failing sc1) <= length (filter failing script))%nat) by apply filter_skipn_le.
    destruct (hra_suffice (S (S (N.to_nat retries))) f PRE_HEADER_SIZE trailer retries sc1
                (repeat (0, PRE_HEADER_SIZE) (S k1)) Hs1) as (k2 & -> & Hk2); [lia|lia|exact Hle1|].
    rewrite <- Erest'.
    cbn [item_outcome].
    assert (Einit : try_init H (fun off (_ : N) => if off =? 0 then Ok pre else Ok rest) = Ok a).
    { rewrite <- Ha. apply try_init_ext.
      + rewrite E0. reflexivity.
      + intros pre' E0'. rewrite E0 in E0'. injection E0' as <-. cbv zeta. fold trailer. rewrite E1. reflexivity. }
    rewrite Einit. eexists _, _. split; [reflexivity|].
    - split; [apply Forall_skipn; exact Hs1|]. split.
      + etransitivity; [apply filter_skipn_le|exact Hf1].
      + intros ->. split; [apply skipn_nil|]. rewrite (Hk1 eq_refl).
        assert (E : sc1 = []) by apply skipn_nil. rewrite (Hk2 E). rewrite Ehs. cbn [repeat app].
        replace (PRE_HEADER_SIZE + trailer - 14) with trailer by (cbv [PRE_HEADER_SIZE]; lia). reflexivity.
  Qed.

  Lemma unpack_items_honest : forall a f descs,
    unpack_items H decomp a descs (ok_items f (map desc_req descs)) = unpack_all H decomp a (file_payload f) descs.
  Proof.
    intros a f. induction descs as [|d r IH]; [reflexivity|].
    cbn [map ok_items unpack_items unpack_all]. fold (ok_items f (map desc_req r)). rewrite IH.
    change (chunk_bytes f (desc_req d)) with (chunk_bytes f (desc_range a d)). rewrite desc_range_bytes. reflexivity.
  Qed.

  (* C08 over http, any archive: with only complete answers, refused connections and cut bodies, and no more
     failing items than the retry budget, a clone over http is the clone of the local file *)
  Theorem http_clone_honest : forall f retries script a,
    try_init H (file_read_at f) = Ok a ->
    Forall (in_file f) (map desc_req (a_descs a)) ->
    Forall retryable script -> N.of_nat (length (filter failing script)) <= retries ->
    fst (http_clone H decomp f retries script) = open_and_clone H decomp f.
  Proof.
    intros f retries script a Ha Hf Hs Hn.
    destruct (http_open_honest f retries script a Ha Hs Hn) as (sc & lg & Ho & Hsc & Hfl & _).
    unfold http_clone, open_and_clone, archive_clone. rewrite Ho, Ha. cbn [bind].
    set (descs := fetch_descs a (cr_index (clone_model [] None (build_source_index a) None [] []))).
    assert (Hf' : Forall (in_file f) (map desc_req descs)).
    { apply Forall_forall. intros x Hx. apply in_map_iff in Hx. destruct Hx as (d & <- & Hd).
      rewrite Forall_forall in Hf. apply Hf. apply in_map. eapply fetch_descs_incl. exact Hd. }
    pose proof (cr_suffice (S (length descs)) f retries sc (map desc_req descs) lg Hsc) as Hcr.
    rewrite map_length in Hcr. specialize (Hcr ltac:(lia) Hf' ltac:(lia)).
    destruct (chunk_reader (S (length descs)) f retries sc (map desc_req descs) [] lg) as [items log2].
    cbn [fst] in Hcr. subst items. rewrite unpack_items_honest.
    destruct (unpack_all H decomp a (file_payload f) descs) as [arch|e|p|]; cbn [bind fst]; try reflexivity.
    destruct (o_err _); reflexivity.
  Qed.

  (* the requests when nothing fails *)
  Lemma http_clone_noscript_log : forall f retries a,
    try_init H (file_read_at f) = Ok a ->
    Forall (in_file f) (map desc_req (a_descs a)) ->
    snd (http_clone H decomp f retries [])
    = [(0, 14); (14, a_header_size a - 14)]
      ++ map run_request (runs (map desc_req
           (fetch_descs a (cr_index (clone_model [] None (build_source_index a) None [] []))))).
  Proof.
    intros f retries a Ha Hf.
    destruct (http_open_honest f retries [] a Ha (Forall_nil _)) as (sc & lg & Ho & _ & _ & Hnil); [cbn; lia|].
    destruct (Hnil eq_refl) as [-> ->].
    unfold http_clone. rewrite Ho.
    set (descs := fetch_descs a (cr_index (clone_model [] None (build_source_index a) None [] []))).
    assert (Hf' : Forall (in_file f) (map desc_req descs)).
    { apply Forall_forall. intros x Hx. apply in_map_iff in Hx. destruct Hx as (d & <- & Hd).
      rewrite Forall_forall in Hf. apply Hf. apply in_map. eapply fetch_descs_incl. exact Hd. }
    rewrite cr_noscript; [|exact Hf'|rewrite map_length; lia].
    destruct (unpack_items H decomp a descs _); [|reflexivity..].
    destruct (o_err _); reflexivity.
  Qed.
End HttpHonest.

(* ---------- archives written by the model writer ---------- *)
Lemma chunks_of_nil : forall cfg, valid_config cfg = true -> chunks_of cfg [] = [].
Proof.
  intros cfg Hv. unfold chunks_of. destruct (chunk_oneshot cfg []) as [l| | |] eqn:EC; try reflexivity.
  destruct (chunk_oneshot_concat _ _ _ Hv EC) as [Hcat Hne].
  destruct (chunk_datas [] l) as [|x r]; [reflexivity|]. exfalso.
  cbn [concat] in Hcat. apply app_eq_nil in Hcat. destruct Hcat as [-> _].
  pose proof (Forall_inv Hne) as Hx. cbn [lenN] in Hx. lia.
Qed.

Section HttpWriter.
  Variable H : list N -> list N.
  Variable comp : list N -> list N.
  Variable decomp : N -> list N -> option (list N).
  Hypothesis H_len : forall x, lenN (H x) = 64.
  Hypothesis H_bytes : forall x, Forall (fun b => b < 256) (H x).

  Lemma writer_in_file : forall src o bytes a,
    opts_ok o -> bytes_ok src -> lenN src < 18446744073709551616 -> lenN bytes < 18446744073709551616 ->
    stored_nonempty comp o src ->
    compress_model H comp src o = Ok bytes -> try_init H (file_read_at bytes) = Ok a ->
    Forall (in_file bytes) (map desc_req (a_descs a)).
  Proof.
    intros src o bytes a Hok Hsrc Hls Hlb Hne Hm Ha.
    destruct (writer_layout H comp H_len H_bytes src o bytes a Hok Hsrc Hls Hlb Hm Ha) as (uniq & Ed & El & Hu).
    rewrite Ed. change (map desc_req) with (map (desc_range a)). apply adescs_in_file.
    - intros x Hx. apply Hne. apply Hu. exact Hx.
    - lia.
  Qed.

  (* (4) C01 / C08 over http: the server answers completely, refuses connections or cuts bodies, in any order,
     but not more often in total than the retry budget: the clone over http reproduces the source *)
  Theorem http_clone_unreliable_server : forall src o bytes retries script,
    opts_ok o -> bytes_ok src -> lenN src < 18446744073709551616 -> lenN bytes < 18446744073709551616 ->
    codec_ok comp decomp o -> few_chunks o src ->
    no_collision H o src [] false [] -> stored_nonempty comp o src ->
    compress_model H comp src o = Ok bytes ->
    Forall (fun it => match it with SOk | SRefuse | SCut _ => True | _ => False end) script ->
    N.of_nat (length (filter failing script)) <= retries ->
    exists log, http_clone H decomp bytes retries script = (Ok src, log).
  Proof.
    intros src o bytes retries script Hok Hsrc Hls Hlb Hcodec Hfew Hnc Hne Hm Hs Hn.
    destruct (reader_reports_writer H comp H_len H_bytes src o bytes Hok Hsrc Hls Hlb Hm) as (a & Ha & _).
    pose proof (writer_in_file src o bytes a Hok Hsrc Hls Hlb Hne Hm Ha) as Hf.
    pose proof (http_clone_honest H decomp bytes retries script a Ha Hf Hs Hn) as Hc.
    change (open_and_clone H decomp bytes) with (open_and_clone_bytes H decomp bytes [] false []) in Hc.
    rewrite (open_and_clone_bytes_correct H comp decomp H_len H_bytes src o bytes [] false []
               Hok Hsrc Hls Hlb Hcodec Hfew Hnc Hm) in Hc.
    destruct (http_clone H decomp bytes retries script) as [r log]. cbn [fst] in Hc. subst r.
    exists log. reflexivity.
  Qed.

  (* nothing fails: the pre-header, the rest of the header, and (unless the source is empty) the whole chunk data
     in ONE request *)
  Theorem http_clone_reliable_server : forall src o bytes retries,
    opts_ok o -> bytes_ok src -> lenN src < 18446744073709551616 -> lenN bytes < 18446744073709551616 ->
    codec_ok comp decomp o -> few_chunks o src ->
    no_collision H o src [] false [] -> stored_nonempty comp o src ->
    compress_model H comp src o = Ok bytes ->
    exists a, try_init H (file_read_at bytes) = Ok a
      /\ http_clone H decomp bytes retries []
         = (Ok src, [(0, 14); (14, a_header_size a - 14)]
                    ++ match src with [] => [] | _ :: _ => [(a_data_offset a, lenN bytes - a_data_offset a)] end).
  Proof.
    intros src o bytes retries Hok Hsrc Hls Hlb Hcodec Hfew Hnc Hne Hm.
    destruct (reader_reports_writer H comp H_len H_bytes src o bytes Hok Hsrc Hls Hlb Hm) as (a & Ha & _).
    pose proof (writer_in_file src o bytes a Hok Hsrc Hls Hlb Hne Hm Ha) as Hf.
    exists a. split; [exact Ha|].
    destruct (http_clone_unreliable_server src o bytes retries [] Hok Hsrc Hls Hlb Hcodec Hfew Hnc Hne Hm
                (Forall_nil _)) as (log & Hc); [cbn; lia|].
    pose proof (http_clone_noscript_log H decomp bytes retries a Ha Hf) as Hlog.
    rewrite Hc in Hlog |- *. cbn [snd] in Hlog. rewrite Hlog. f_equal. f_equal.
    destruct src as [|b src'].
    - (* an empty source has no descriptors *)
      destruct (writer_layout H comp H_len H_bytes [] o bytes a Hok Hsrc Hls Hlb Hm Ha) as (uniq & Ed & _ & Hu).
      destruct uniq as [|x uniq].
      + unfold fetch_descs. rewrite Ed. reflexivity.
      + exfalso. specialize (Hu x (or_introl eq_refl)). rewrite chunks_of_nil in Hu by apply Hok. exact Hu.
    - destruct (compress_clone_http_nothing_found H comp decomp H_len H_bytes (b :: src') o bytes [] retries
                  Hok Hsrc Hls Hlb Hcodec Hfew Hnc Hne Hm) as (a' & Ha' & Hreq & _); [discriminate|].
      assert (Ea : a' = a) by congruence. subst a'.
      unfold clone_http_requests, clone_http in Hreq.
      rewrite requests_are_maximal_runs in Hreq.
      + cbn [snd] in Hreq. exact Hreq.
      + apply Forall_forall. intros x Hx. apply in_map_iff in Hx. destruct Hx as (d & <- & Hd).
        rewrite Forall_forall in Hf. apply Hf. apply (in_map desc_req). eapply fetch_descs_incl. exact Hd.
  Qed.
End HttpWriter.

(* ================================================================== *)
(* 5. concrete evidence                                                *)
(* ================================================================== *)
Definition hs_src : list N := [7; 7; 3; 4; 5; 6; 8; 9; 1; 2].
(* the archive of [ch_nothing_found_one_request]: 264 bytes, header 255 bytes, five descriptors stored in [255, 264) *)
Definition hs_bytes : list N :=
  match compress_model rt_toyH rt_toycomp hs_src ch_opts with Ok b => b | _ => [] end.
Definition hs_run (retries : N) (script : list sitem) := http_clone rt_toyH rt_toydecomp hs_bytes retries script.

(* (a) nothing fails: pre-header, rest of the header, the chunk data in one request *)
Example hs_reliable : (lenN hs_bytes, hs_run 0 []) = (264, (Ok hs_src, [(0, 14); (14, 241); (255, 9)])).
Proof. vm_compute. reflexivity. Qed.

(* (b) the pre-header body is cut after 5 bytes (read_at starts over), the connection for the rest of the header
   is refused once: two retries are enough *)
Example hs_unreliable :
  hs_run 2 [SCut 5; SOk; SRefuse; SOk; SOk] = (Ok hs_src, [(0, 14); (0, 14); (14, 241); (14, 241); (255, 9)]).
Proof. vm_compute. reflexivity. Qed.

(* a cut chunk transfer is resumed at the first missing byte; with the budget used up the clone fails *)
Example hs_chunk_resume :
  hs_run 1 [SOk; SOk; SCut 3; SOk] = (Ok hs_src, [(0, 14); (14, 241); (255, 9); (258, 6)])
  /\ hs_run 1 [SOk; SOk; SCut 3; SCut 2; SOk] = (Err E_HTTP, [(0, 14); (14, 241); (255, 9); (258, 6)])
  /\ hs_run 0 [SRefuse] = (Err E_HTTP, [(0, 14)]).
Proof. vm_compute. repeat split. Qed.

(* (c) other bytes of the right length for the chunk data: hash mismatch *)
Example hs_wrong_chunk_data : hs_run 2 [SOk; SOk; SWrong] = (Err E_HASH, [(0, 14); (14, 241); (255, 9)]).
Proof. vm_compute. reflexivity. Qed.

(* (d) other bytes for the pre-header (no magic) or for the rest of the header (header checksum): invalid archive *)
Example hs_wrong_header :
  hs_run 2 [SWrong] = (Err E_INVALID, [(0, 14)])
  /\ hs_run 2 [SOk; SWrong] = (Err E_INVALID, [(0, 14); (14, 241)]).
Proof. vm_compute. split; reflexivity. Qed.

(* bodies that end early are errors (no retry: the transfer did not fail); longer bodies are cut to size *)
Example hs_short_and_extra :
  hs_run 2 [SOk; SOk; SShort 4] = (Err E_END, [(0, 14); (14, 241); (255, 9)])
  /\ hs_run 2 [SShort 5] = (Err E_END, [(0, 14)])
  /\ hs_run 2 [SExtra 5; SExtra 7; SExtra 1] = (Ok hs_src, [(0, 14); (14, 241); (255, 9)]).
Proof. vm_compute. repeat split. Qed.

(* Why (2) needs the hash check and cannot rest on the reader alone: after an over-long response the left-over
   bytes complete the next chunk WITHOUT a request, also when that chunk is not adjacent. The stream has all its
   items, each of the requested size (1), but the second item is not the requested range (bytes 9..11 instead of
   20..22). *)
Example extra_bytes_counterexample :
  let f := map N.of_nat (seq 0 40) in
  read_chunks_http f 0 [SExtra 3] [ {| r_off := 5; r_size := 4 |}; {| r_off := 20; r_size := 3 |} ]
  = ([IOk [5; 6; 7; 8]; IOk [9; 10; 11]], [(5, 4)]).
Proof. vm_compute. reflexivity. Qed.

(* The hypotheses of [http_clone_unreliable_server] are jointly satisfiable: an instance with every premise
   discharged, for every script of complete / refused / cut answers with at most three failing items. *)
Example hs_instance :
  let o := ch_opts in
  let src := [1; 2; 3; 4; 1; 2; 5] in
  let comp := fun x : list N => 0 :: 0 :: x in
  let decomp := fun (t : N) (y : list N) => Some (tl (tl y)) in
  exists bytes,
    compress_model rt_toyH comp src o = Ok bytes
    /\ forall script,
         Forall (fun it => match it with SOk | SRefuse | SCut _ => True | _ => False end) script ->
         N.of_nat (length (filter failing script)) <= 3 ->
         exists log, http_clone rt_toyH decomp bytes 3 script = (Ok src, log).
Proof.
  intros o src comp decomp.
  destruct (compress_model rt_toyH comp src o) as [bytes| | |] eqn:Em; try (vm_compute in Em; discriminate).
  assert (Hlb : lenN bytes < 18446744073709551616).
  { vm_compute in Em. apply rt_ok_inj in Em. subst bytes. vm_compute. reflexivity. }
  exists bytes. split; [reflexivity|]. intros script Hs Hn.
  apply (http_clone_unreliable_server rt_toyH comp decomp rt_toyH_len rt_toyH_bytes src o bytes 3 script);
    try assumption.
  - unfold opts_ok. cbn. repeat split; try lia; try reflexivity.
    + right. exists E_CompressionType_BROTLI, 6. split; [reflexivity|split; [reflexivity|lia]].
    + constructor; [lia|constructor].
    + constructor; [|constructor]. cbn. repeat split; repeat constructor.
  - repeat constructor.
  - vm_compute. reflexivity.
  - intros t l x _. reflexivity.
  - intros chunks EC. vm_compute in EC. apply rt_ok_inj in EC. subst chunks. vm_compute. reflexivity.
  - intros x y Hx Hy. vm_compute in Hx, Hy.
    repeat (destruct Hx as [Hx|Hx]; [subst x|]); try contradiction;
    repeat (destruct Hy as [Hy|Hy]; [subst y|]); try contradiction;
    intros E; vm_compute in E; try reflexivity; discriminate E.
  - intros x Hx. vm_compute in Hx.
    repeat (destruct Hx as [Hx|Hx]; [subst x; vm_compute; reflexivity|]). contradiction.
Qed.

Print Assumptions chunk_reader_never_short.
Print Assumptions http_clone_tamper_safe.
Print Assumptions http_clone_total.
Print Assumptions http_clone_safe.
Print Assumptions http_clone_honest.
Print Assumptions http_clone_unreliable_server.
Print Assumptions http_clone_reliable_server.
Print Assumptions hs_instance.
