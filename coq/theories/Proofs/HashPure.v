(* The state-carrying rolling hashes (Model/RollSum.v, Model/BuzHash.v) compute the pure window hashes of
   Model/ChunkSpec.v on the last W bytes fed.  Only the Coq standard library is used. *)
From Bita Require Import Model.Base Gen.Generated Model.RollSum Model.BuzHash Model.ChunkSpec.
From Coq Require Import ZArith.
Open Scope N_scope.

(* lia with [mod]/[/] by constants *)
Ltac mlia := zify; Z.to_euclidean_division_equations; lia.

(* ------------------------------------------------------------------------------------------ *)
(** * Bridges from the N-indexed list helpers to the standard library *)

Lemma lenN_length {A} (l : list A) : lenN l = N.of_nat (length l).
Proof. induction l; cbn [lenN length]; [reflexivity | rewrite IHl; lia]. Qed.

Lemma dropN_skipn {A} n (l : list A) : dropN n l = skipn (N.to_nat n) l.
Proof.
  revert n; induction l as [|x l IH]; intros n; cbn [dropN].
  - now rewrite skipn_nil.
  - destruct (N.eqb_spec n 0) as [->|Hn]; [reflexivity|].
    rewrite IH. replace (N.to_nat n) with (S (N.to_nat (N.pred n))) by lia. reflexivity.
Qed.

Lemma takeN_firstn {A} n (l : list A) : takeN n l = firstn (N.to_nat n) l.
Proof.
  revert n; induction l as [|x l IH]; intros n; cbn [takeN].
  - now rewrite firstn_nil.
  - destruct (N.eqb_spec n 0) as [->|Hn]; [reflexivity|].
    rewrite IH. replace (N.to_nat n) with (S (N.to_nat (N.pred n))) by lia. reflexivity.
Qed.

Lemma lastN_skipn {A} n (l : list A) : lastN n l = skipn (length l - N.to_nat n) l.
Proof. unfold lastN. rewrite dropN_skipn, lenN_length. f_equal. lia. Qed.

Lemma lenN_app {A} (l1 l2 : list A) : lenN (l1 ++ l2) = lenN l1 + lenN l2.
Proof. rewrite !lenN_length, app_length. lia. Qed.

Lemma lenN_snoc {A} (l : list A) b : lenN (l ++ [b]) = lenN l + 1.
Proof. rewrite lenN_app. reflexivity. Qed.

Lemma lenN_repeat {A} (x : A) n : lenN (repeat x n) = N.of_nat n.
Proof. now rewrite lenN_length, repeat_length. Qed.

Lemma lenN_map {A B} (f : A -> B) l : lenN (map f l) = lenN l.
Proof. now rewrite !lenN_length, map_length. Qed.

Lemma skipn_S_tl {A} k (l : list A) : skipn (S k) l = tl (skipn k l).
Proof.
  revert l; induction k as [|k IH]; intros l.
  - destruct l; reflexivity.
  - destruct l as [|x l]; [reflexivity|]. cbn [skipn] in *. apply IH.
Qed.

Lemma skipn_repeat {A} (x : A) k n : skipn k (repeat x n) = repeat x (n - k).
Proof.
  revert n; induction k as [|k IH]; intros n.
  - now rewrite Nat.sub_0_r.
  - destruct n as [|n]; [reflexivity|]. cbn [repeat skipn]. rewrite IH. reflexivity.
Qed.

Lemma repeat_snoc {A} (x : A) n : repeat x n ++ [x] = repeat x (S n).
Proof. induction n as [|n IH]; [reflexivity|]. cbn [repeat app]. now rewrite IH. Qed.

Lemma Forall_skipn' {A} (P : A -> Prop) k l : Forall P l -> Forall P (skipn k l).
Proof.
  revert l; induction k as [|k IH]; intros l H; [exact H|].
  destruct l as [|x l]; [exact H|]. cbn [skipn]. apply IH. now inversion H.
Qed.

Lemma lastN_length {A} W (l : list A) : W <= lenN l -> lenN (lastN W l) = W.
Proof. intros H. rewrite lastN_skipn, lenN_length, skipn_length. rewrite lenN_length in H. lia. Qed.

Lemma lastN_all {A} W (l : list A) : lenN l <= W -> lastN W l = l.
Proof.
  intros H. rewrite lastN_skipn. rewrite lenN_length in H.
  replace (length l - N.to_nat W)%nat with 0%nat by lia. reflexivity.
Qed.

Lemma lastN_Forall {A} (P : A -> Prop) W l : Forall P l -> Forall P (lastN W l).
Proof. intros H. rewrite lastN_skipn. now apply Forall_skipn'. Qed.

(* sliding the window by one element *)
Lemma lastN_snoc {A} W (l : list A) b :
  1 <= W -> W <= lenN l -> lastN W (l ++ [b]) = tl (lastN W l) ++ [b].
Proof.
  intros H1 H2. rewrite !lastN_skipn, app_length. cbn [length]. rewrite lenN_length in H2.
  replace (length l + 1 - N.to_nat W)%nat with (S (length l - N.to_nat W)) by lia.
  rewrite skipn_app, skipn_S_tl.
  replace (S (length l - N.to_nat W) - length l)%nat with 0%nat by lia.
  reflexivity.
Qed.

(* a run of at least W equal elements at the end: the window is constant *)
Lemma lastN_run {A} W (pre : list A) x n :
  W <= N.of_nat n -> lastN W (pre ++ repeat x n) = repeat x (N.to_nat W).
Proof.
  intros H. rewrite lastN_skipn, app_length, repeat_length, skipn_app.
  rewrite skipn_all2 by lia. rewrite skipn_repeat. cbn [app]. f_equal. lia.
Qed.

(* ------------------------------------------------------------------------------------------ *)
(** * 32-bit words *)

Definition u32 (x : N) : Prop := x < M32.

Lemma w32_mod x : w32 x = x mod M32.
Proof.
  unfold w32, MASK32, M32. change 4294967295 with (N.ones 32). now rewrite N.land_ones.
Qed.

Lemma w32_u32 x : u32 (w32 x).
Proof. unfold u32. rewrite w32_mod. apply N.mod_lt. discriminate. Qed.

Lemma w32_id x : u32 x -> w32 x = x.
Proof. unfold u32. intros H. rewrite w32_mod. now apply N.mod_small. Qed.

Lemma sub32_mod a b : sub32 a b = (a + M32 - b) mod M32.
Proof. unfold sub32. apply w32_mod. Qed.

(* ------------------------------------------------------------------------------------------ *)
(** * RollSum *)

Definition rs_feed (W : N) (xs : list N) : rollsum := fold_left rs_input xs (rs_new W).

Lemma rs_pure12_snoc r b :
  rs_pure12 (r ++ [b]) =
  (fst (rs_pure12 r) + (b + CHAR_OFFSET), snd (rs_pure12 r) + fst (rs_pure12 r) + (b + CHAR_OFFSET)).
Proof.
  induction r as [|a r IH].
  - cbn [app rs_pure12 lenN fst snd]. f_equal; lia.
  - cbn [app rs_pure12]. rewrite IH. destruct (rs_pure12 r) as [s1 s2]. cbn [fst snd].
    rewrite lenN_snoc. f_equal; lia.
Qed.

Lemma rs_pure12_zeros n :
  rs_pure12 (repeat 0 n) = (CHAR_OFFSET * N.of_nat n, CHAR_OFFSET * (N.of_nat n * (N.of_nat n + 1) / 2)).
Proof.
  induction n as [|n IH].
  - reflexivity.
  - cbn [repeat rs_pure12]. rewrite IH, lenN_repeat. f_equal; [lia|].
    replace (N.of_nat (S n) * (N.of_nat (S n) + 1))
      with (N.of_nat n * (N.of_nat n + 1) + (N.of_nat n + 1) * 2) by lia.
    rewrite N.div_add by discriminate. lia.
Qed.

(* the three word-level facts; products are opaque to lia *)
Lemma rs_arith_s1 s1r a b :
  a <= M32 -> sub32 (w32 (w32 (s1r + (a + CHAR_OFFSET)) + b)) a = w32 (s1r + (b + CHAR_OFFSET)).
Proof.
  intros Ha. rewrite sub32_mod, !w32_mod. unfold M32, CHAR_OFFSET in *. mlia.
Qed.

Lemma rs_arith_s2 s2r X s1' C :
  sub32 (w32 (w32 (s2r + X + C) + w32 s1')) (w32 X) = w32 (s2r + s1' + C).
Proof.
  rewrite sub32_mod, !w32_mod. unfold M32. mlia.
Qed.

Lemma rs_arith_base A S : u32 A -> w32 (S + sub32 A (w32 S)) = A.
Proof.
  unfold u32. intros HA. rewrite sub32_mod, !w32_mod. unfold M32 in *. mlia.
Qed.

Record rs_inv (W : N) (win : list N) (h : rollsum) : Prop := {
  ri_win : rs_win h = win;
  ri_w : rs_w h = W;
  ri_len : lenN win = W;
  ri_bytes : Forall (fun b => b < 256) win;
  ri_s1 : rs_s1 h = w32 (fst (rs_pure12 win));
  ri_s2 : rs_s2 h = w32 (snd (rs_pure12 win) + rs_const W) }.

Lemma rs_inv_new W : W < M32 -> rs_inv W (repeat 0 (N.to_nat W)) (rs_new W).
Proof.
  intros HW. split; cbn [rs_new rs_win rs_w rs_s1 rs_s2].
  - reflexivity.
  - reflexivity.
  - rewrite lenN_repeat. lia.
  - apply Forall_forall. intros x Hx. apply repeat_spec in Hx. subst. reflexivity.
  - rewrite rs_pure12_zeros. cbn [fst]. rewrite N2Nat.id, (w32_id W) by exact HW.
    f_equal. lia.
  - rewrite rs_pure12_zeros. cbn [snd]. rewrite N2Nat.id. unfold rs_const.
    symmetry. apply rs_arith_base. apply w32_u32.
Qed.

Lemma rs_inv_step W win h b :
  1 <= W -> W < M32 -> b < 256 -> rs_inv W win h -> rs_inv W (tl win ++ [b]) (rs_input h b).
Proof.
  intros H1 HW Hb [Hwin Hw Hlen Hbytes Hs1 Hs2].
  destruct win as [|a r]; [cbn in Hlen; lia|].
  cbn [lenN] in Hlen. inversion Hbytes as [|x0 l0 Ha Hr]; subst x0 l0.
  assert (Es1 : rs_s1 (rs_input h b) = w32 (fst (rs_pure12 r) + (b + CHAR_OFFSET))).
  { unfold rs_input. cbn [rs_s1]. rewrite Hwin, Hs1. cbn [hd rs_pure12].
    destruct (rs_pure12 r) as [s1 s2]. cbn [fst]. apply rs_arith_s1. unfold M32. lia. }
  split.
  - unfold rs_input. cbn [rs_win]. now rewrite Hwin.
  - unfold rs_input. cbn [rs_w]. exact Hw.
  - cbn [tl]. rewrite lenN_snoc. lia.
  - cbn [tl]. apply Forall_app. split; [exact Hr|]. constructor; [exact Hb|constructor].
  - cbn [tl]. rewrite rs_pure12_snoc. cbn [fst]. exact Es1.
  - cbn [tl]. rewrite rs_pure12_snoc. cbn [snd].
    unfold rs_input in *. cbn [rs_s1 rs_s2] in *. rewrite Es1. rewrite Hwin, Hs2, Hw. cbn [hd rs_pure12].
    destruct (rs_pure12 r) as [s1 s2]. cbn [fst snd].
    rewrite (w32_id W) by exact HW.
    replace (lenN r + 1) with W by lia.
    replace (s2 + s1 + (b + CHAR_OFFSET) + rs_const W) with (s2 + (s1 + (b + CHAR_OFFSET)) + rs_const W) by lia.
    apply rs_arith_s2.
Qed.

Lemma rs_feed_inv W xs :
  1 <= W -> W < M32 -> Forall (fun b => b < 256) xs ->
  rs_inv W (lastN W (repeat 0 (N.to_nat W) ++ xs)) (rs_feed W xs).
Proof.
  intros H1 HW. induction xs as [|b xs IH] using rev_ind; intros Hxs.
  - rewrite app_nil_r. rewrite lastN_all by (rewrite lenN_repeat; lia).
    apply rs_inv_new. exact HW.
  - apply Forall_app in Hxs. destruct Hxs as [Hxs Hb]. inversion Hb; subst.
    unfold rs_feed. rewrite fold_left_app. cbn [fold_left]. rewrite app_assoc.
    rewrite lastN_snoc; [|exact H1|rewrite lenN_app, lenN_repeat; lia].
    apply rs_inv_step; auto.
Qed.

Theorem rs_pure_correct : forall W xs,
  1 <= W -> W < 4294967296 -> Forall (fun b => b < 256) xs ->
  rs_sum (rs_feed W xs) = rs_pure W (lastN W (repeat 0 (N.to_nat W) ++ xs)).
Proof.
  intros W xs H1 HW Hxs.
  destruct (rs_feed_inv W xs H1 HW Hxs) as [_ _ _ _ Hs1 Hs2].
  unfold rs_sum, rs_pure. rewrite Hs1, Hs2.
  destruct (rs_pure12 _) as [s1 s2]. reflexivity.
Qed.

(* ------------------------------------------------------------------------------------------ *)
(** * Rotation algebra on 32-bit words *)

Lemma mod32_cases x : x < 64 -> x mod 32 = if x <? 32 then x else x - 32.
Proof.
  intros H. destruct (N.ltb_spec x 32).
  - apply N.mod_small; lia.
  - replace x with ((x - 32) + 1 * 32) at 1 by lia. rewrite N.mod_add by lia. apply N.mod_small. lia.
Qed.

Lemma w32_spec x i : N.testbit (w32 x) i = andb (N.testbit x i) (i <? 32).
Proof.
  unfold w32, MASK32. change 4294967295 with (N.ones 32). rewrite N.land_spec. f_equal.
  destruct (N.ltb_spec i 32).
  - apply N.ones_spec_low; lia.
  - apply N.ones_spec_high; lia.
Qed.

Lemma u32_pow x : u32 x -> x < 2^32.
Proof. intros H. exact H. Qed.

Lemma pow_u32 x : x < 2^32 -> u32 x.
Proof. intros H. exact H. Qed.

Lemma u32_testbit_high x i : u32 x -> 32 <= i -> N.testbit x i = false.
Proof.
  intros Hx Hi. apply u32_pow in Hx. destruct (N.eq_dec x 0) as [->|Hnz]. { apply N.bits_0. }
  apply N.bits_above_log2. apply N.log2_lt_pow2; [lia|].
  eapply N.lt_le_trans; [exact Hx|]. apply N.pow_le_mono_r; lia.
Qed.

Lemma lxor_u32 x y : u32 x -> u32 y -> u32 (N.lxor x y).
Proof.
  intros Hx Hy. apply u32_pow in Hx, Hy. apply pow_u32.
  destruct (N.eq_dec (N.lxor x y) 0) as [->|Hnz]; [reflexivity|].
  apply N.log2_lt_pow2; [lia|].
  eapply N.le_lt_trans; [apply N.log2_lxor|].
  apply N.max_lub_lt.
  - destruct (N.eq_dec x 0) as [->|]; [cbn; lia|]. apply N.log2_lt_pow2; lia.
  - destruct (N.eq_dec y 0) as [->|]; [cbn; lia|]. apply N.log2_lt_pow2; lia.
Qed.

Lemma rotl32_spec x n i : u32 x ->
  N.testbit (rotl32 x n) i = andb (i <? 32) (N.testbit x ((i + 32 - n mod 32) mod 32)).
Proof.
  intros Hx. unfold rotl32. set (k := n mod 32).
  assert (Hk : k < 32) by (subst k; apply N.mod_lt; lia).
  rewrite w32_spec, N.lor_spec.
  destruct (N.ltb_spec i 32) as [Hi|Hi]; [|now rewrite Bool.andb_false_r].
  rewrite Bool.andb_true_r. cbn [andb].
  destruct (N.ltb_spec i k) as [Hik|Hik].
  - rewrite N.shiftl_spec_low by lia. cbn [orb].
    rewrite N.shiftr_spec by lia. f_equal.
    assert (i + 32 - k < 32) by lia. rewrite N.mod_small by lia. lia.
  - rewrite N.shiftl_spec_high by lia.
    rewrite N.shiftr_spec by lia.
    rewrite (u32_testbit_high x (i + (32 - k))) by (auto; lia).
    rewrite Bool.orb_false_r. f_equal.
    replace (i + 32 - k) with ((i - k) + 1 * 32) by lia.
    rewrite N.mod_add by lia. rewrite N.mod_small by lia. reflexivity.
Qed.

Lemma rotl32_u32 x n : u32 (rotl32 x n).
Proof. unfold rotl32. apply w32_u32. Qed.

Lemma rotl32_lxor x y n : u32 x -> u32 y -> rotl32 (N.lxor x y) n = N.lxor (rotl32 x n) (rotl32 y n).
Proof.
  intros Hx Hy. apply N.bits_inj. intro i.
  assert (Hxy : u32 (N.lxor x y)) by now apply lxor_u32.
  rewrite N.lxor_spec, !rotl32_spec by assumption.
  rewrite N.lxor_spec. destruct (i <? 32); reflexivity.
Qed.

Lemma rotl32_rotl32 x n m : u32 x -> rotl32 (rotl32 x n) m = rotl32 x (n + m).
Proof.
  intros Hx. apply N.bits_inj. intro i.
  rewrite rotl32_spec by apply rotl32_u32.
  rewrite !rotl32_spec by assumption.
  destruct (N.ltb_spec i 32) as [Hi|Hi]; [|reflexivity]. cbn [andb].
  assert (Hlt : (i + 32 - m mod 32) mod 32 < 32) by (apply N.mod_lt; lia).
  apply N.ltb_lt in Hlt. rewrite Hlt. cbn [andb]. f_equal.
  assert (n mod 32 < 32) by (apply N.mod_lt; lia).
  assert (m mod 32 < 32) by (apply N.mod_lt; lia).
  assert ((n+m) mod 32 < 32) by (apply N.mod_lt; lia).
  rewrite (N.add_mod n m 32) by lia.
  set (a := n mod 32) in *. set (b := m mod 32) in *.
  clearbody a b. clear - Hi H H0.
  rewrite (mod32_cases (i + 32 - b)) by lia.
  rewrite (mod32_cases (a + b)) by lia.
  destruct (N.ltb_spec (i + 32 - b) 32); destruct (N.ltb_spec (a + b) 32);
  rewrite !mod32_cases by lia;
  repeat match goal with |- context [?x <? 32] => destruct (N.ltb_spec x 32) end; lia.
Qed.

Lemma rotl32_0_r x : u32 x -> rotl32 x 0 = x.
Proof.
  intros Hx. apply N.bits_inj. intro i. rewrite rotl32_spec by assumption.
  destruct (N.ltb_spec i 32) as [Hi|Hi]; cbn [andb].
  - f_equal. change (0 mod 32) with 0. rewrite N.sub_0_r.
    replace (i + 32) with (i + 1 * 32) by lia. rewrite N.mod_add by lia. apply N.mod_small. exact Hi.
  - symmetry. now apply u32_testbit_high.
Qed.

Lemma rotl32_0_l n : rotl32 0 n = 0.
Proof.
  apply N.bits_inj. intro i. rewrite rotl32_spec by reflexivity.
  rewrite !N.bits_0. apply Bool.andb_false_r.
Qed.

Lemma rotl32_mod x n : rotl32 x (n mod 32) = rotl32 x n.
Proof. unfold rotl32. rewrite N.mod_mod by discriminate. reflexivity. Qed.

(* ------------------------------------------------------------------------------------------ *)
(** * BuzHash *)

Lemma buzhash_table_u32 : Forall u32 BUZHASH_TABLE.
Proof.
  assert (H : forallb (fun x => x <? M32) BUZHASH_TABLE = true) by (vm_compute; reflexivity).
  rewrite forallb_forall in H. apply Forall_forall. intros x Hx. apply N.ltb_lt. now apply H.
Qed.

Lemma bh_table_u32 b : u32 (bh_table b).
Proof.
  unfold bh_table. apply lxor_u32.
  - destruct (Nat.lt_ge_cases (N.to_nat b) (length BUZHASH_TABLE)) as [Hlt|Hge].
    + eapply Forall_forall; [apply buzhash_table_u32|]. apply nth_In. exact Hlt.
    + rewrite nth_overflow by exact Hge. reflexivity.
  - reflexivity.
Qed.

(* the partial hash during initialisation: like bh_pure, but with k more bytes still to come *)
Fixpoint bh_part (k : N) (win : list N) : N :=
  match win with
  | [] => 0
  | a :: r => N.lxor (rotl32 (bh_table a) (lenN r + k)) (bh_part k r)
  end.

Lemma bh_part_0 win : bh_part 0 win = bh_pure win.
Proof. induction win as [|a r IH]; [reflexivity|]. cbn [bh_part bh_pure]. now rewrite IH, N.add_0_r. Qed.

Lemma bh_part_u32 k win : u32 (bh_part k win).
Proof.
  induction win as [|a r IH]; [reflexivity|]. cbn [bh_part]. apply lxor_u32; [apply rotl32_u32|exact IH].
Qed.

Lemma bh_pure_u32 win : u32 (bh_pure win).
Proof. rewrite <- bh_part_0. apply bh_part_u32. Qed.

Lemma bh_part_snoc k xs b :
  1 <= k -> bh_part (k - 1) (xs ++ [b]) = N.lxor (bh_part k xs) (rotl32 (bh_table b) (k - 1)).
Proof.
  intros Hk. induction xs as [|a r IH].
  - cbn [app bh_part lenN]. now rewrite N.lxor_0_r, N.lxor_0_l, N.add_0_l.
  - cbn [app bh_part]. rewrite IH, lenN_snoc.
    replace (lenN r + 1 + (k - 1)) with (lenN r + k) by lia.
    now rewrite N.lxor_assoc.
Qed.

Lemma bh_pure_snoc r b : bh_pure (r ++ [b]) = N.lxor (rotl32 (bh_pure r) 1) (bh_table b).
Proof.
  induction r as [|a r IH].
  - cbn [app bh_pure lenN]. rewrite rotl32_0_r by apply bh_table_u32.
    now rewrite rotl32_0_l, N.lxor_0_r, N.lxor_0_l.
  - cbn [app bh_pure]. rewrite IH, lenN_snoc.
    rewrite rotl32_lxor by (apply rotl32_u32 || apply bh_pure_u32).
    rewrite rotl32_rotl32 by apply bh_table_u32.
    now rewrite N.lxor_assoc.
Qed.

(* one rolling step on a full window *)
Lemma bh_pure_push a r b W :
  lenN r + 1 = W ->
  N.lxor (N.lxor (rotl32 (bh_pure (a :: r)) 1) (rotl32 (bh_table a) W)) (bh_table b) = bh_pure (r ++ [b]).
Proof.
  intros HW. rewrite bh_pure_snoc. cbn [bh_pure].
  rewrite rotl32_lxor by (apply rotl32_u32 || apply bh_pure_u32).
  rewrite rotl32_rotl32 by apply bh_table_u32. rewrite HW.
  f_equal.
  rewrite (N.lxor_comm (rotl32 (bh_table a) W)), N.lxor_assoc, N.lxor_nilpotent. apply N.lxor_0_r.
Qed.

(* a constant window is a fixed point of the rolling step (why skipping repeated input is sound) *)
Lemma bh_pure_const_fixed b W :
  1 <= W ->
  let win := repeat b (N.to_nat W) in
  N.lxor (N.lxor (rotl32 (bh_pure win) 1) (rotl32 (bh_table b) W)) (bh_table b) = bh_pure win.
Proof.
  intros HW win. subst win.
  replace (N.to_nat W) with (S (N.to_nat (W - 1))) by lia.
  cbn [repeat]. rewrite bh_pure_push by (rewrite lenN_repeat; lia).
  rewrite repeat_snoc. reflexivity.
Qed.

Definition bh_step (h : buzhash) (b : N) : buzhash := if bh_full h then bh_input h b else bh_init h b.
Definition bh_feed (W : N) (xs : list N) : buzhash := fold_left bh_step xs (bh_new W).

Definition bh_inv (W : N) (fed : list N) (h : buzhash) : Prop :=
  bh_w h = W /\
  if lenN fed <? W then
    bh_full h = false /\ bh_index h = lenN fed /\
    bh_buf h = repeat 0 (N.to_nat (W - lenN fed)) ++ map bh_table fed /\
    bh_sum h = bh_part (W - lenN fed) fed
  else
    bh_full h = true /\
    bh_buf h = map bh_table (lastN W fed) /\
    bh_sum h = bh_pure (lastN W fed) /\
    exists pre, fed = pre ++ repeat (bh_last h) (N.to_nat (bh_rep h + 1)).

Lemma bh_inv_new W : 1 <= W -> bh_inv W [] (bh_new W).
Proof.
  intros HW. split; [reflexivity|]. cbn [lenN].
  destruct (N.ltb_spec 0 W); [|lia].
  cbn [bh_new bh_full bh_index bh_buf bh_sum map bh_part]. rewrite N.sub_0_r, app_nil_r. auto.
Qed.

Lemma bh_push_ok W fed h b :
  1 <= W -> W <= lenN fed -> bh_w h = W ->
  bh_buf h = map bh_table (lastN W fed) -> bh_sum h = bh_pure (lastN W fed) ->
  tl (bh_buf h) ++ [bh_table b] = map bh_table (lastN W (fed ++ [b])) /\
  N.lxor (N.lxor (rotl32 (bh_sum h) 1) (rotl32 (hd 0 (bh_buf h)) (bh_w h))) (bh_table b)
    = bh_pure (lastN W (fed ++ [b])).
Proof.
  intros H1 HW Hw Hbuf Hsum. rewrite lastN_snoc by assumption.
  pose proof (lastN_length W fed HW) as Hlen.
  rewrite Hbuf, Hsum, Hw. destruct (lastN W fed) as [|a r]; [cbn in Hlen; lia|].
  cbn [lenN] in Hlen. cbn [map tl hd]. split.
  - now rewrite map_app.
  - apply bh_pure_push. lia.
Qed.

Lemma bh_inv_step W fed h b : 1 <= W -> bh_inv W fed h -> bh_inv W (fed ++ [b]) (bh_step h b).
Proof.
  intros H1 [Hw Hinv]. unfold bh_inv, bh_step. rewrite lenN_snoc.
  destruct (N.ltb_spec (lenN fed) W) as [Hlt|Hge].
  - (* initialisation *)
    destruct Hinv as (Hfull & Hidx & Hbuf & Hsum).
    rewrite Hfull. unfold bh_init. rewrite Hfull, Hw, Hidx, Hbuf, Hsum.
    split; [reflexivity|]. cbn [bh_full bh_index bh_buf bh_sum bh_last bh_rep].
    assert (Ebuf : tl (repeat 0 (N.to_nat (W - lenN fed)) ++ map bh_table fed) ++ [bh_table b]
                   = repeat 0 (N.to_nat (W - (lenN fed + 1))) ++ map bh_table (fed ++ [b])).
    { replace (N.to_nat (W - lenN fed)) with (S (N.to_nat (W - (lenN fed + 1)))) by lia.
      cbn [repeat app tl]. now rewrite map_app, app_assoc. }
    assert (Esum : N.lxor (bh_part (W - lenN fed) fed) (rotl32 (bh_table b) (W - (lenN fed + 1)))
                   = bh_part (W - (lenN fed + 1)) (fed ++ [b])).
    { replace (W - (lenN fed + 1)) with (W - lenN fed - 1) by lia. rewrite bh_part_snoc by lia. reflexivity. }
    rewrite Ebuf, Esum.
    destruct (N.ltb_spec (lenN fed + 1) W) as [Hlt'|Hge'].
    + destruct (N.leb_spec (W - 1) (lenN fed)); [lia|].
      destruct (N.leb_spec W (lenN fed + 1)); [lia|]. auto.
    + destruct (N.leb_spec (W - 1) (lenN fed)); [|lia].
      assert (Hlen : lenN (fed ++ [b]) <= W) by (rewrite lenN_snoc; lia).
      rewrite (lastN_all W (fed ++ [b])) by exact Hlen.
      replace (W - (lenN fed + 1)) with 0 by lia. rewrite bh_part_0. cbn [N.to_nat repeat app].
      repeat split. exists fed. reflexivity.
  - (* rolling *)
    destruct Hinv as (Hfull & Hbuf & Hsum & pre & Hpre).
    destruct (N.ltb_spec (lenN fed + 1) W) as [Hlt'|_]; [lia|].
    rewrite Hfull.
    destruct (bh_push_ok W fed h b H1 Hge Hw Hbuf Hsum) as [Pbuf Psum].
    unfold bh_input. destruct (N.eqb_spec b (bh_last h)) as [Heq|Hne].
    + destruct (N.ltb_spec (bh_rep h + 1) (bh_w h)) as [Hr|Hr];
        cbn [bh_full bh_index bh_buf bh_sum bh_last bh_rep bh_w].
      * split; [exact Hw|]. repeat split; try assumption.
        exists pre. rewrite Hpre at 1. rewrite <- app_assoc. f_equal. subst b.
        rewrite repeat_snoc. f_equal. lia.
      * split; [exact Hw|]. rewrite Hw in Hr.
        assert (Efed : fed ++ [b] = pre ++ repeat b (S (N.to_nat (bh_rep h + 1)))).
        { rewrite Hpre at 1. rewrite <- app_assoc. f_equal. subst b. apply repeat_snoc. }
        assert (Ewin : lastN W (fed ++ [b]) = lastN W fed).
        { rewrite Efed. rewrite Hpre. subst b. rewrite !lastN_run by lia. reflexivity. }
        rewrite Ewin. repeat split; try assumption.
        exists pre. rewrite Efed. f_equal. f_equal. lia.
    + destruct (N.ltb_spec 0 (bh_w h)) as [Hr|Hr]; [|lia].
      cbn [bh_full bh_index bh_buf bh_sum bh_last bh_rep bh_w].
      split; [exact Hw|]. repeat split; try assumption.
      exists fed. reflexivity.
Qed.

Lemma bh_feed_inv W xs : 1 <= W -> bh_inv W xs (bh_feed W xs).
Proof.
  intros HW. induction xs as [|b xs IH] using rev_ind.
  - apply bh_inv_new. exact HW.
  - unfold bh_feed. rewrite fold_left_app. cbn [fold_left]. apply bh_inv_step; assumption.
Qed.

Theorem bh_pure_correct : forall W xs,
  1 <= W -> W <= lenN xs -> Forall (fun b => b < 256) xs ->
  bh_full (bh_feed W xs) = true /\ bh_sum (bh_feed W xs) = bh_pure (lastN W xs).
Proof.
  intros W xs H1 HW _. destruct (bh_feed_inv W xs H1) as [_ Hinv].
  destruct (N.ltb_spec (lenN xs) W) as [Hlt|_]; [lia|].
  destruct Hinv as (Hfull & _ & Hsum & _). auto.
Qed.

Print Assumptions rs_pure_correct.
Print Assumptions bh_pure_correct.
