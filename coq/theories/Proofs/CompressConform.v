(* Conformance of the archive writer model (property C11, model level):
   1. the one-shot chunker output tiles the source, every chunk is at most [c_max] long;
   2. what [compress_dict] produces: one descriptor per distinct (by full hash) chunk, in order of first
      occurrence, stored back to back, raw iff compression does not make it strictly smaller, and a
      rebuild order that reproduces the source;
   3. the header layout of [build_header].
   The strong hash [H] and the compressor [comp] are parameters; nothing is assumed about them except,
   for the rebuild clause only, that [H] does not collide on the chunks of the source at hand. *)
From Coq Require Import NArith List Bool Lia.
From Bita Require Import Model.Base Gen.Generated Model.RollSum Model.BuzHash Model.Chunker Model.Proto Model.Archive Model.Compress
                         Proofs.BoundaryRule.
Import ListNotations.
Open Scope N_scope.

(* ---------- list helpers ---------- *)
Lemma cc_lenN_takeN {A} : forall (l : list A) n, lenN (takeN n l) = N.min n (lenN l).
Proof.
  induction l as [|x l IH]; intros n; cbn [takeN lenN]; [lia|].
  destruct (N.eqb_spec n 0) as [E|E]; cbn [lenN]; [lia|]. rewrite IH. lia.
Qed.

Lemma cc_lenN_dropN {A} : forall (l : list A) n, lenN (dropN n l) = lenN l - n.
Proof.
  induction l as [|x l IH]; intros n; cbn [dropN lenN]; [lia|].
  destruct (N.eqb_spec n 0) as [E|E]; cbn [lenN]; [lia|]. rewrite IH. lia.
Qed.

Lemma cc_take_drop {A} : forall (l : list A) n, takeN n l ++ dropN n l = l.
Proof.
  induction l as [|x l IH]; intros n; cbn [takeN dropN app]; [reflexivity|].
  destruct (N.eqb_spec n 0) as [E|E]; cbn [app]; [reflexivity|]. now rewrite IH.
Qed.

Lemma cc_dropN_dropN {A} : forall (l : list A) a b, dropN b (dropN a l) = dropN (a + b) l.
Proof.
  induction l as [|x l IH]; intros a b; cbn [dropN]; [reflexivity|].
  destruct (N.eqb_spec a 0) as [E|E].
  - subst a. rewrite N.add_0_l. reflexivity.
  - destruct (N.eqb_spec (a + b) 0) as [E2|E2]; [lia|].
    rewrite IH. f_equal. lia.
Qed.

Lemma cc_lenN_slice : forall (l : list N) a b, b <= lenN l -> lenN (slice l a b) = b - a.
Proof. intros l a b Hb. unfold slice. rewrite cc_lenN_takeN, cc_lenN_dropN. lia. Qed.

Lemma cc_slice_app : forall (pre mid rest : list N) a b,
  lenN pre = a -> a + lenN mid = b -> slice (pre ++ mid ++ rest) a b = mid.
Proof.
  intros pre mid rest a b Ha Hb. unfold slice.
  replace a with (lenN pre + 0) by lia. rewrite dropN_app_plus, dropN_0.
  apply takeN_app_exact. lia.
Qed.

Lemma cc_nthN_lt {A} : forall (l : list A) i x, nthN i l = Some x -> i < lenN l.
Proof.
  induction l as [|y l IH]; intros i x Hn; cbn [nthN lenN] in *; [discriminate|].
  destruct (N.eqb_spec i 0) as [E|E]; [lia|]. apply IH in Hn. lia.
Qed.

Lemma cc_nthN_In {A} : forall (l : list A) i x, nthN i l = Some x -> In x l.
Proof.
  induction l as [|y l IH]; intros i x Hn; cbn [nthN] in *; [discriminate|].
  destruct (N.eqb_spec i 0) as [E|E]; [inversion Hn; now left|]. right. eapply IH; exact Hn.
Qed.

Lemma cc_nthN_app_some {A} : forall (l r : list A) i x, nthN i l = Some x -> nthN i (l ++ r) = Some x.
Proof.
  induction l as [|y l IH]; intros r i x Hn; cbn [nthN app] in *; [discriminate|].
  destruct (N.eqb_spec i 0) as [E|E]; [exact Hn|]. apply IH. exact Hn.
Qed.

Lemma cc_nthN_app_exact {A} : forall (l : list A) x r, nthN (lenN l) (l ++ x :: r) = Some x.
Proof.
  induction l as [|y l IH]; intros x r; cbn [nthN app lenN]; [reflexivity|].
  destruct (N.eqb_spec (N.succ (lenN l)) 0) as [E|E]; [lia|]. rewrite N.pred_succ. apply IH.
Qed.

Lemma cc_nthN_map {A B} (f : A -> B) : forall (l : list A) i, nthN i (map f l) = option_map f (nthN i l).
Proof.
  induction l as [|y l IH]; intros i; cbn [nthN map]; [reflexivity|].
  destruct (N.eqb_spec i 0) as [E|E]; [reflexivity|]. apply IH.
Qed.

Lemma cc_lenN_map {A B} (f : A -> B) : forall (l : list A), lenN (map f l) = lenN l.
Proof. induction l as [|y l IH]; cbn [lenN map]; [reflexivity|]. now rewrite IH. Qed.

Lemma cc_list_eqb : forall a b, list_eqb a b = true <-> a = b.
Proof.
  induction a as [|x a IH]; intros [|y b]; cbn [list_eqb]; split; intros Hab; try reflexivity; try discriminate.
  - apply andb_true_iff in Hab. destruct Hab as [H1 H2]. apply N.eqb_eq in H1. apply IH in H2. now subst.
  - inversion Hab; subst. apply andb_true_iff. split; [apply N.eqb_refl|]. now apply IH.
Qed.

Lemma cc_Forall2_impl {A B} (P Q : A -> B -> Prop) : (forall a b, P a b -> Q a b) ->
  forall l1 l2, Forall2 P l1 l2 -> Forall2 Q l1 l2.
Proof. intros HPQ l1 l2 HF. induction HF; constructor; [now apply HPQ|assumption]. Qed.

(* ---------- w32 ---------- *)
Lemma cc_w32_mod : forall x, w32 x = x mod M32.
Proof. intros x. unfold w32. change MASK32 with (N.ones 32). rewrite N.land_ones. reflexivity. Qed.

Lemma cc_w32_lt : forall x, w32 x < M32.
Proof. intros x. rewrite cc_w32_mod. apply N.mod_lt. discriminate. Qed.

Lemma cc_w32_le : forall x, w32 x <= x.
Proof. intros x. rewrite cc_w32_mod. apply N.mod_le. discriminate. Qed.

Lemma cc_w32_small : forall x, x < M32 -> w32 x = x.
Proof. intros x Hx. rewrite cc_w32_mod. apply N.mod_small. exact Hx. Qed.

(* ================================================================== *)
(* 1. the chunker output tiles the source                              *)
(* ================================================================== *)
Section AutoFacts.
  Variable HT : Type.
  Variable init_done : HT -> bool.
  Variable init input : HT -> N -> HT.
  Variable matches : HT -> bool.
  Variables limit minsz maxsz : N.
  Notation AC := (auto_chunks HT init_done init input matches limit minsz maxsz).

  (* chunks tile [start, start+off+len data); the first chunk absorbs the [off] bytes already consumed *)
  Lemma auto_chunks_shape : forall data h start off,
    match AC h start off data with
    | [] => off = 0 /\ data = []
    | (o, n) :: r => o = start /\ off <= n /\ 0 < n /\ tiles (start + n) r (start + off + lenN data)
    end.
  Proof.
    induction data as [|b r IH]; intros h start off; cbn [auto_chunks lenN].
    - destruct (N.eqb_spec off 0) as [E|E]; [split; [exact E|reflexivity]|].
      cbn [tiles]. repeat split; lia.
    - destruct (astep HT init_done init input matches limit minsz h off b) as [h' bd].
      destruct (bd || (maxsz <=? off + 1)).
      + split; [reflexivity|]. split; [lia|]. split; [lia|].
        specialize (IH h' (start + (off + 1)) 0).
        destruct (AC h' (start + (off + 1)) 0 r) as [|[o n] r'].
        * destruct IH as [_ E]. subst r. cbn [tiles lenN]. lia.
        * destruct IH as (E & _ & Hn & Ht). subst o. cbn [tiles]. split; [reflexivity|]. split; [exact Hn|].
          replace (start + off + N.succ (lenN r)) with (start + (off + 1) + 0 + lenN r) by lia. exact Ht.
      + specialize (IH h' start (off + 1)).
        destruct (AC h' start (off + 1) r) as [|[o n] r'].
        * destruct IH as [E _]. lia.
        * destruct IH as (E & Ho & Hn & Ht). subst o. split; [reflexivity|]. split; [lia|]. split; [exact Hn|].
          replace (start + off + N.succ (lenN r)) with (start + (off + 1) + lenN r) by lia. exact Ht.
  Qed.

  Lemma auto_chunks_tiles : forall data h start,
    tiles start (AC h start 0 data) (start + lenN data).
  Proof.
    intros data h start. pose proof (auto_chunks_shape data h start 0) as S.
    destruct (AC h start 0 data) as [|[o n] r].
    - destruct S as [_ E]. subst data. cbn [tiles lenN]. lia.
    - destruct S as (E & _ & Hn & Ht). subst o. cbn [tiles]. split; [reflexivity|]. split; [exact Hn|].
      replace (start + lenN data) with (start + 0 + lenN data) by lia. exact Ht.
  Qed.

  (* a boundary is forced when off + 1 >= maxsz *)
  Lemma auto_chunks_sizes : 0 < maxsz -> forall data h start off o n,
    off < maxsz -> In (o, n) (AC h start off data) -> n <= maxsz.
  Proof.
    intros Hm. induction data as [|b r IH]; intros h start off o n Ho HI; cbn [auto_chunks] in HI.
    - destruct (N.eqb_spec off 0) as [E|E]; [destruct HI|].
      destruct HI as [E1|[]]. inversion E1; subst. lia.
    - destruct (astep HT init_done init input matches limit minsz h off b) as [h' bd].
      destruct bd; cbn [orb] in HI.
      + destruct HI as [E1|HI]; [inversion E1; subst; lia|]. eapply IH; [|exact HI]. exact Hm.
      + destruct (N.leb_spec maxsz (off + 1)) as [L|L].
        * destruct HI as [E1|HI]; [inversion E1; subst; lia|]. eapply IH; [|exact HI]. exact Hm.
        * eapply IH; [|exact HI]. exact L.
  Qed.
End AutoFacts.

Theorem chunk_oneshot_tiles : forall cfg data l,
  valid_config cfg = true -> chunk_oneshot cfg data = Ok l -> tiles 0 l (lenN data).
Proof.
  intros cfg data l Hv Hc. unfold chunk_oneshot in Hc. unfold valid_config in Hv.
  assert (R : forall a,
    (if c_win cfg =? 0 then Panic P_OVERFLOW else
      do mask <- filter_mask (c_bits cfg);
      let limit := if c_win cfg <=? c_min cfg then c_min cfg - c_win cfg else 0 in
      let h := match a with ABuzHash => HBuz (bh_new (c_win cfg)) | _ => HRoll (rs_new (c_win cfg)) end in
      Ok (auto_chunks hasher h_init_done h_init h_input (h_matches mask) limit (c_min cfg) (c_max cfg) h 0 0 data))
    = Ok l -> tiles 0 l (lenN data)).
  { intros a Ha. destruct (c_win cfg =? 0); [discriminate|].
    destruct (filter_mask (c_bits cfg)) as [mask| | |]; cbn [bind] in Ha; try discriminate.
    cbv zeta in Ha. inversion Ha; subst l.
    replace (lenN data) with (0 + lenN data) by lia. apply auto_chunks_tiles. }
  destruct (c_algo cfg).
  1: exact (R ABuzHash Hc).
  1: exact (R ARollSum Hc).
  destruct (N.eqb_spec (c_max cfg) 0) as [E|E]; [discriminate|]. clear R.
  assert (El : l = fixed_chunks (c_max cfg) 0 (lenN data) (S (length data))) by congruence.
  rewrite El.
  assert (T : tiles 0 (fixed_chunks (c_max cfg) 0 (lenN data) (S (length data))) (0 + lenN data)).
  { apply fixed_chunks_tiles; [lia|]. rewrite lenN_length. lia. }
  rewrite N.add_0_l in T. exact T.
Qed.

Theorem chunk_oneshot_sizes : forall cfg data l o n,
  valid_config cfg = true -> chunk_oneshot cfg data = Ok l -> In (o, n) l -> n <= c_max cfg.
Proof.
  intros cfg data l o n Hv Hc HI. unfold chunk_oneshot in Hc. unfold valid_config in Hv.
  assert (R : forall a, 1 <= c_max cfg ->
    (if c_win cfg =? 0 then Panic P_OVERFLOW else
      do mask <- filter_mask (c_bits cfg);
      let limit := if c_win cfg <=? c_min cfg then c_min cfg - c_win cfg else 0 in
      let h := match a with ABuzHash => HBuz (bh_new (c_win cfg)) | _ => HRoll (rs_new (c_win cfg)) end in
      Ok (auto_chunks hasher h_init_done h_init h_input (h_matches mask) limit (c_min cfg) (c_max cfg) h 0 0 data))
    = Ok l -> n <= c_max cfg).
  { intros a Hm Ha. destruct (c_win cfg =? 0); [discriminate|].
    destruct (filter_mask (c_bits cfg)) as [mask| | |]; cbn [bind] in Ha; try discriminate.
    cbv zeta in Ha. inversion Ha; subst l.
    eapply auto_chunks_sizes; [| |exact HI]; lia. }
  assert (M : c_algo cfg <> AFixed -> 1 <= c_max cfg).
  { intros NF. destruct (c_algo cfg); [| |congruence].
    all: apply andb_true_iff in Hv; destruct Hv as [Hv _]; apply andb_true_iff in Hv; destruct Hv as [Hv _];
         apply andb_true_iff in Hv; destruct Hv as [_ Hv]; apply N.leb_le in Hv; exact Hv. }
  destruct (c_algo cfg).
  1: exact (R ABuzHash (M ltac:(discriminate)) Hc).
  1: exact (R ARollSum (M ltac:(discriminate)) Hc).
  destruct (N.eqb_spec (c_max cfg) 0) as [E|E]; [discriminate|]. clear R.
  assert (El : l = fixed_chunks (c_max cfg) 0 (lenN data) (S (length data))) by congruence.
  rewrite El in HI. apply fixed_chunks_in in HI. lia.
Qed.

(* ---------- consequences of a tiling for the chunk datas ---------- *)
Definition chunk_datas (src : list N) (l : list (N * N)) : list (list N) :=
  map (fun c => slice src (fst c) (fst c + snd c)) l.

Lemma tiles_le : forall l s total, tiles s l total -> s <= total.
Proof.
  induction l as [|[o n] r IH]; intros s total Ht; cbn [tiles] in Ht; [lia|].
  destruct Ht as (_ & Hn & Ht). apply IH in Ht. lia.
Qed.

Lemma tiles_concat : forall src l s, tiles s l (lenN src) -> concat (chunk_datas src l) = dropN s src.
Proof.
  intros src. induction l as [|[o n] r IH]; intros s Ht; cbn [tiles] in Ht; cbn [chunk_datas map concat].
  - subst s. symmetry. apply dropN_all. lia.
  - destruct Ht as (E & Hn & Ht). subst o. cbn [fst snd]. fold (chunk_datas src r).
    rewrite (IH _ Ht). unfold slice. replace (s + n - s) with n by lia.
    rewrite <- (cc_dropN_dropN src s n). apply cc_take_drop.
Qed.

Lemma tiles_nonempty : forall src l s, tiles s l (lenN src) -> Forall (fun x => 0 < lenN x) (chunk_datas src l).
Proof.
  intros src. induction l as [|[o n] r IH]; intros s Ht; cbn [tiles] in Ht; cbn [chunk_datas map]; constructor.
  - destruct Ht as (E & Hn & Ht). subst o. cbn [fst snd]. apply tiles_le in Ht.
    rewrite cc_lenN_slice; lia.
  - destruct Ht as (_ & _ & Ht). eapply IH; exact Ht.
Qed.

Theorem chunk_oneshot_concat : forall cfg src l,
  valid_config cfg = true -> chunk_oneshot cfg src = Ok l ->
  concat (chunk_datas src l) = src /\ Forall (fun x => 0 < lenN x) (chunk_datas src l).
Proof.
  intros cfg src l Hv Hc. pose proof (chunk_oneshot_tiles cfg src l Hv Hc) as Ht. split.
  - rewrite (tiles_concat src l 0 Ht). apply dropN_0.
  - eapply tiles_nonempty; exact Ht.
Qed.

(* ================================================================== *)
(* 2. conformance of what the writer produces                          *)
(* ================================================================== *)
Fixpoint contiguous (off : N) (sizes : list N) (ds : list descriptor) : Prop :=
  match sizes, ds with
  | [], [] => True
  | s :: sr, d :: dr => d_archive_offset d = off /\ contiguous (off + s) sr dr
  | _, _ => False
  end.

(* order of first occurrence: the first time an index appears it is the number of distinct indexes seen so far *)
Fixpoint first_occ_ordered (seen : N) (order : list N) : Prop :=
  match order with
  | [] => True
  | i :: r => (i < seen /\ first_occ_ordered seen r) \/ (i = seen /\ first_occ_ordered (seen + 1) r)
  end.

(* number of distinct indexes seen after [order] (meaningful when [first_occ_ordered seen order]) *)
Fixpoint seen_after (seen : N) (order : list N) : N :=
  match order with
  | [] => seen
  | i :: r => seen_after (if i =? seen then seen + 1 else seen) r
  end.

Lemma first_occ_app : forall a s b,
  first_occ_ordered s a -> first_occ_ordered (seen_after s a) b -> first_occ_ordered s (a ++ b).
Proof.
  induction a as [|i a IH]; intros s b Ha Hb; cbn [app first_occ_ordered seen_after] in *; [exact Hb|].
  destruct Ha as [[Hi Ha]|[Hi Ha]].
  - left. split; [exact Hi|]. apply IH; [exact Ha|].
    destruct (N.eqb_spec i s) as [E|E]; [lia|]. exact Hb.
  - right. split; [exact Hi|]. apply IH; [exact Ha|].
    destruct (N.eqb_spec i s) as [E|E]; [exact Hb|lia].
Qed.

Lemma seen_after_app : forall a s b, seen_after s (a ++ b) = seen_after (seen_after s a) b.
Proof. induction a as [|i a IH]; intros s b; cbn [app seen_after]; [reflexivity|]. apply IH. Qed.

(* u32 truncation of the indexes keeps the property (after 2^32 distinct indexes every wrapped
   index has been seen already) *)
Lemma first_occ_w32 : forall order s,
  first_occ_ordered s order -> first_occ_ordered (N.min s M32) (map w32 order).
Proof.
  induction order as [|i r IH]; intros s Ho; cbn [map first_occ_ordered] in *; [exact I|].
  pose proof (cc_w32_lt i) as Hlt. pose proof (cc_w32_le i) as Hle.
  destruct Ho as [[Hi Hr]|[Hi Hr]].
  - left. split; [lia|]. apply IH. exact Hr.
  - subst i. destruct (N.lt_ge_cases s M32) as [L|L].
    + right. rewrite (cc_w32_small s L). split; [lia|].
      replace (N.min s M32 + 1) with (N.min (s + 1) M32) by lia. apply IH. exact Hr.
    + left. split; [lia|]. replace (N.min s M32) with (N.min (s + 1) M32) by lia. apply IH. exact Hr.
Qed.

Section Conform.
  Variable H : list N -> list N.
  Variable comp : list N -> list N.

  (* [H] does not collide on the members of [l] *)
  Definition collision_free (l : list (list N)) : Prop :=
    forall a b, In a l -> In b l -> H a = H b -> a = b.

  Definition lookup (uniq : list (list N)) (i : N) : list N :=
    match nthN i uniq with Some x => x | None => [] end.

  (* ---------- find_hash ---------- *)
  Lemma find_hash_some : forall h l i j, find_hash h l i = Some j -> i <= j /\ nthN (j - i) l = Some h.
  Proof.
    intros h. induction l as [|x l IH]; intros i j Hf; cbn [find_hash] in Hf; [discriminate|].
    destruct (list_eqb x h) eqn:E.
    - inversion Hf; subst j. apply cc_list_eqb in E. subst x. split; [lia|].
      replace (i - i) with 0 by lia. reflexivity.
    - apply IH in Hf. destruct Hf as [Hle Hn]. split; [lia|]. cbn [nthN].
      destruct (N.eqb_spec (j - i) 0) as [E0|E0]; [lia|].
      replace (N.pred (j - i)) with (j - (i + 1)) by lia. exact Hn.
  Qed.

  Lemma find_hash_none : forall h l i, find_hash h l i = None -> ~ In h l.
  Proof.
    intros h. induction l as [|x l IH]; intros i Hf HI; cbn [find_hash] in Hf; [destruct HI|].
    destruct (list_eqb x h) eqn:E; [discriminate|].
    destruct HI as [E1|HI].
    - subst x. assert (T : list_eqb h h = true) by (apply cc_list_eqb; reflexivity). congruence.
    - eapply IH; [exact Hf|exact HI].
  Qed.

  (* ---------- dedup ---------- *)
  (* [done]: the chunk datas processed so far *)
  Record dd_inv (uniq : list (list N * list N)) (order : list N) (done : list (list N)) : Prop := {
    dd_hash : Forall (fun p => fst p = H (snd p)) uniq;
    dd_nodup : NoDup (map fst uniq);
    dd_from : Forall (fun p => In (snd p) done) uniq;
    dd_order : Forall2 (fun i d => exists x, nthN i (map snd uniq) = Some x /\ H x = H d) order done;
    dd_focc : first_occ_ordered 0 order;
    dd_seen : seen_after 0 order = lenN uniq }.

  Lemma NoDup_snoc {A} : forall (l : list A) x, NoDup l -> ~ In x l -> NoDup (l ++ [x]).
  Proof.
    induction l as [|y l IH]; intros x Hn Hx; cbn [app].
    - constructor; [intros []|constructor].
    - inversion Hn as [|y' l' Hy Hl]; subst. constructor.
      + intros HI. apply in_app_or in HI. destruct HI as [HI|[E|[]]]; [now apply Hy|].
        subst. apply Hx. now left.
      + apply IH; [exact Hl|]. intros HI. apply Hx. now right.
  Qed.

  Lemma Forall_snoc {A} (P : A -> Prop) : forall l x, Forall P l -> P x -> Forall P (l ++ [x]).
  Proof. intros l x Hl Hx. apply Forall_app. split; [exact Hl|]. constructor; [exact Hx|constructor]. Qed.

  Lemma dedup_inv : forall datas uniq order done uniq' order',
    dd_inv uniq order done ->
    dedup H datas uniq order = (uniq', order') ->
    dd_inv uniq' order' (done ++ datas).
  Proof.
    induction datas as [|d r IH]; intros uniq order done uniq' order' Inv Hd; cbn [dedup] in Hd.
    - inversion Hd; subst. rewrite app_nil_r. exact Inv.
    - cbv zeta in Hd. destruct Inv as [I1 I2 I3 I4 I5 I6].
      replace (done ++ d :: r) with ((done ++ [d]) ++ r) by (rewrite <- app_assoc; reflexivity).
      destruct (find_hash (H d) (map fst uniq) 0) as [i|] eqn:EF.
      + (* known hash *)
        apply find_hash_some in EF. destruct EF as [_ Hn]. rewrite N.sub_0_r in Hn.
        rewrite cc_nthN_map in Hn. destruct (nthN i uniq) as [p|] eqn:Ep; [|discriminate].
        cbn [option_map] in Hn. inversion Hn as [Hp].
        assert (Hps : fst p = H (snd p)).
        { rewrite Forall_forall in I1. apply I1. eapply cc_nthN_In; exact Ep. }
        eapply IH; [|exact Hd]. constructor.
        * exact I1.
        * exact I2.
        * eapply Forall_impl; [|exact I3]. intros q Hq. cbv beta in *. apply in_or_app. now left.
        * apply Forall2_app; [exact I4|]. constructor; [|constructor].
          exists (snd p). split; [rewrite cc_nthN_map, Ep; reflexivity|]. congruence.
        * apply first_occ_app; [exact I5|]. rewrite I6. cbn [first_occ_ordered].
          left. split; [eapply cc_nthN_lt; exact Ep|exact I].
        * rewrite seen_after_app, I6. cbn [seen_after].
          apply cc_nthN_lt in Ep. destruct (N.eqb_spec i (lenN uniq)) as [E|E]; [lia|reflexivity].
      + (* new hash *)
        apply find_hash_none in EF.
        eapply IH; [|exact Hd]. constructor.
        * apply Forall_snoc; [exact I1|reflexivity].
        * rewrite map_app. cbn [map fst]. apply NoDup_snoc; [exact I2|exact EF].
        * apply Forall_snoc.
          -- eapply Forall_impl; [|exact I3]. intros q Hq. cbv beta in *. apply in_or_app. now left.
          -- cbn [snd]. apply in_or_app. right. now left.
        * apply Forall2_app.
          -- eapply cc_Forall2_impl; [|exact I4]. intros a b (x & Hx & Hh). exists x. split; [|exact Hh].
             rewrite map_app. apply cc_nthN_app_some. exact Hx.
          -- constructor; [|constructor]. exists d. split; [|reflexivity].
             rewrite map_app. cbn [map snd]. rewrite <- (cc_lenN_map snd uniq). apply cc_nthN_app_exact.
        * apply first_occ_app; [exact I5|]. rewrite I6. cbn [first_occ_ordered].
          right. split; [reflexivity|exact I].
        * rewrite seen_after_app, I6. cbn [seen_after]. rewrite N.eqb_refl.
          rewrite lenN_app. cbn [lenN]. lia.
  Qed.

  Lemma dd_inv_init : dd_inv [] [] [].
  Proof. constructor; cbn; try constructor. Qed.

  (* without collisions the looked-up chunks are the processed chunks themselves *)
  Lemma lookup_exact : forall U all order done,
    Forall2 (fun i d => exists x, nthN i U = Some x /\ H x = H d) order done ->
    (forall x, In x U -> In x all) -> (forall d, In d done -> In d all) -> collision_free all ->
    map (lookup U) order = done.
  Proof.
    intros U all order done HF HU. induction HF as [|i d order done (x & Hx & Hh) HF IH]; intros HD CF;
      cbn [map]; [reflexivity|].
    f_equal.
    - unfold lookup. rewrite Hx. apply CF; [apply HU; eapply cc_nthN_In; exact Hx|apply HD; now left|exact Hh].
    - apply IH; [|exact CF]. intros d' Hd'. apply HD. now right.
  Qed.

  (* ---------- stored ---------- *)
  Lemma stored_spec : forall o x,
    lenN (stored comp o x) <= lenN x
    /\ (stored comp o x = x \/ (stored comp o x = comp x /\ lenN (comp x) < lenN x)).
  Proof.
    intros o x. unfold stored. destruct (o_comp o) as [c|]; [|split; [lia|now left]].
    cbv zeta. destruct (N.ltb_spec (lenN (comp x)) (lenN x)) as [L|L].
    - split; [lia|]. right. split; [reflexivity|exact L].
    - split; [lia|now left].
  Qed.

  (* ---------- descriptors ---------- *)
  Lemma descriptors_spec : forall o uniq off ds bytes,
    Forall (fun p => fst p = H (snd p)) uniq ->
    descriptors comp o uniq off = (ds, bytes) ->
       length (map snd uniq) = length ds
    /\ Forall2 (fun x dsc => d_checksum dsc = takeN (o_hashlen o) (H x)
                             /\ d_source_size dsc = w32 (lenN x)
                             /\ d_archive_size dsc = w32 (lenN (stored comp o x))) (map snd uniq) ds
    /\ contiguous off (map (fun x => lenN (stored comp o x)) (map snd uniq)) ds
    /\ bytes = concat (map (stored comp o) (map snd uniq)).
  Proof.
    intros o. induction uniq as [|[h d] r IH]; intros off ds bytes Hh Hd; cbn [descriptors] in Hd.
    - inversion Hd; subst. cbn. repeat split. constructor.
    - cbv zeta in Hd.
      destruct (descriptors comp o r (off + lenN (stored comp o d))) as [ds' bytes'] eqn:ER.
      inversion Hd; subst ds bytes. clear Hd.
      inversion Hh as [|p r' Hp Hr]; subst. cbn [fst snd] in Hp. subst h.
      destruct (IH _ _ _ Hr ER) as (L & F & C & B).
      cbn [map snd length concat contiguous d_archive_offset]. split; [now rewrite L|].
      split; [|split; [split; [reflexivity|exact C]|now rewrite B]].
      constructor; [|exact F]. cbn [d_checksum d_source_size d_archive_size]. repeat split.
  Qed.

  (* ---------- the main theorem ---------- *)
  Theorem compress_conforming : forall src o d data,
    valid_config (o_cfg o) = true ->
    compress_dict H comp src o = Ok (d, data) ->
    exists uniq : list (list N),
         (* one descriptor per distinct chunk, distinct by full hash *)
         length uniq = length (dict_descs d) /\ NoDup (map H uniq) /\ Forall (fun x => 0 < lenN x) uniq
      /\ Forall2 (fun x dsc => d_checksum dsc = takeN (o_hashlen o) (H x)
                               /\ d_source_size dsc = w32 (lenN x)
                               /\ d_archive_size dsc = w32 (lenN (stored comp o x))) uniq (dict_descs d)
         (* stored back to back from offset 0, and the data section is exactly the stored bytes *)
      /\ contiguous 0 (map (fun x => lenN (stored comp o x)) uniq) (dict_descs d)
      /\ data = concat (map (stored comp o) uniq)
         (* stored size never exceeds source size; raw iff not strictly smaller *)
      /\ Forall (fun x => lenN (stored comp o x) <= lenN x
                          /\ (stored comp o x = x \/ (stored comp o x = comp x /\ lenN (comp x) < lenN x))) uniq
         (* rebuild order: valid indexes, in order of first occurrence, and it rebuilds the source
            (the last: when the hash does not collide on the chunks of this source) *)
      /\ Forall (fun i => i < lenN uniq) (dict_order d)
      /\ first_occ_ordered 0 (dict_order d)
      /\ (lenN uniq < 4294967296 ->
          (forall chunks, chunk_oneshot (o_cfg o) src = Ok chunks -> collision_free (chunk_datas src chunks)) ->
          concat (map (fun i => match nthN i uniq with Some x => x | None => [] end) (dict_order d)) = src)
         (* recorded settings *)
      /\ dict_total d = lenN src /\ dict_checksum d = H src
      /\ dict_params d = Some (params_of (o_cfg o) (o_hashlen o))
      /\ dict_comp d = Some (comp_record (o_comp o))
      /\ dict_meta d = o_meta o /\ dict_version d = o_version o.
  Proof.
    intros src o d data Hv Hc. unfold compress_dict in Hc.
    destruct (chunk_oneshot (o_cfg o) src) as [chunks| | |] eqn:EC; cbn [bind] in Hc; try discriminate.
    cbv zeta in Hc. fold (chunk_datas src chunks) in Hc.
    destruct (dedup H (chunk_datas src chunks) [] []) as [up order] eqn:ED.
    destruct (descriptors comp o up 0) as [descs bytes] eqn:EDS.
    inversion Hc; subst d data. clear Hc.
    cbn [dict_descs dict_order dict_total dict_checksum dict_params dict_comp dict_meta dict_version].
    destruct (chunk_oneshot_concat _ _ _ Hv EC) as [Hcat Hne].
    pose proof (dedup_inv _ _ _ _ _ _ dd_inv_init ED) as Inv. cbn [app] in Inv.
    destruct Inv as [I1 I2 I3 I4 I5 I6].
    destruct (descriptors_spec _ _ _ _ _ I1 EDS) as (L & F & C & B).
    assert (Hidx : Forall (fun i => i < lenN (map snd up)) order).
    { clear - I4. induction I4 as [|i dd order done (x & Hx & _) HF IH]; constructor; [|exact IH].
      eapply cc_nthN_lt; exact Hx. }
    exists (map snd up).
    split; [exact L|]. split.
    { replace (map H (map snd up)) with (map fst up); [exact I2|].
      rewrite map_map. apply map_ext_in. intros p Hp. rewrite Forall_forall in I1. now apply I1. }
    split.
    { rewrite Forall_forall in *. intros x Hx. apply in_map_iff in Hx. destruct Hx as (p & E & Hp). subst x.
      apply Hne. now apply I3. }
    split; [exact F|]. split; [exact C|]. split; [exact B|]. split.
    { rewrite Forall_forall. intros x _. apply stored_spec. }
    split.
    { rewrite Forall_forall in *. intros j Hj. apply in_map_iff in Hj. destruct Hj as (i & E & Hi). subst j.
      pose proof (cc_w32_le i). specialize (Hidx i Hi). lia. }
    split.
    { change 0 with (N.min 0 M32). apply first_occ_w32. exact I5. }
    split.
    { intros Hlen CF. specialize (CF chunks eq_refl).
      assert (E : map w32 order = order).
      { rewrite <- (map_id order) at 2. apply map_ext_in. intros i Hi. rewrite Forall_forall in Hidx.
        specialize (Hidx i Hi). apply cc_w32_small. unfold M32. lia. }
      rewrite E. fold (lookup (map snd up)).
      rewrite (lookup_exact (map snd up) (chunk_datas src chunks) order (chunk_datas src chunks) I4);
        [exact Hcat| |tauto|exact CF].
      intros x Hx. apply in_map_iff in Hx. destruct Hx as (p & Ex & Hp). subst x.
      rewrite Forall_forall in I3. now apply I3. }
    repeat split.
  Qed.

  (* the hash-level statement that needs no collision freedom: position by position, the chunk the rebuild
     order points to has the same full hash as the source chunk *)
  Theorem compress_rebuild_hashes : forall src o d data chunks,
    compress_dict H comp src o = Ok (d, data) -> chunk_oneshot (o_cfg o) src = Ok chunks ->
    exists (uniq : list (list N)) (order : list N),
      dict_order d = map w32 order /\ length uniq = length (dict_descs d) /\
      map H (map (lookup uniq) order) = map H (chunk_datas src chunks).
  Proof.
    intros src o d data chunks Hc EC. unfold compress_dict in Hc. rewrite EC in Hc. cbn [bind] in Hc.
    cbv zeta in Hc. fold (chunk_datas src chunks) in Hc.
    destruct (dedup H (chunk_datas src chunks) [] []) as [up order] eqn:ED.
    destruct (descriptors comp o up 0) as [descs bytes] eqn:EDS.
    inversion Hc; subst d data. clear Hc. cbn [dict_descs dict_order].
    pose proof (dedup_inv _ _ _ _ _ _ dd_inv_init ED) as Inv. cbn [app] in Inv.
    destruct Inv as [I1 I2 I3 I4 I5 I6].
    destruct (descriptors_spec _ _ _ _ _ I1 EDS) as (L & _).
    exists (map snd up), order. split; [reflexivity|]. split; [exact L|].
    clear - I4. induction I4 as [|i dd order done (x & Hx & Hh) HF IH]; cbn [map]; [reflexivity|].
    f_equal; [|exact IH]. unfold lookup. rewrite Hx. exact Hh.
  Qed.

  (* ================================================================== *)
  (* 3. header layout                                                    *)
  (* ================================================================== *)
  Lemma lenN_le_bytes8 : forall x, lenN (le_bytes 8 x) = 8.
  Proof. intros x. reflexivity. Qed.

  Theorem build_header_layout : forall dictb off,
    lenN dictb < 18446744073709551616 ->
    let h := build_header H dictb off in
    let n := lenN dictb in
       takeN 6 h = ARCHIVE_MAGIC
    /\ slice h 6 14 = le_bytes 8 n
    /\ slice h 14 (14 + n) = dictb
    /\ slice h (14 + n) (14 + n + 8) = le_bytes 8 (match off with Some o => o | None => 14 + n + 8 + 64 end)
    /\ dropN (14 + n + 8) h = H (takeN (14 + n + 8) h)
    /\ (lenN (H (takeN (14 + n + 8) h)) = 64 -> lenN h = 14 + n + 8 + 64).
  Proof.
    intros dictb off _ h n.
    set (offv := match off with Some o => o | None => 14 + n + 8 + 64 end).
    set (P := (ARCHIVE_MAGIC ++ le_bytes 8 n ++ dictb) ++ le_bytes 8 offv).
    assert (Eh : h = P ++ H P).
    { unfold h, build_header, P, offv. cbv zeta. fold n.
      assert (E0 : lenN (ARCHIVE_MAGIC ++ le_bytes 8 n ++ dictb) = 14 + n).
      { rewrite !lenN_app, lenN_le_bytes8. fold n. change (lenN ARCHIVE_MAGIC) with 6. lia. }
      rewrite E0. change TRAILER_OFFSET_SIZE with 8. change TRAILER_HASH_SIZE with 64.
      destruct off; reflexivity. }
    assert (LP : lenN P = 14 + n + 8).
    { unfold P. rewrite !lenN_app, !lenN_le_bytes8. fold n. change (lenN ARCHIVE_MAGIC) with 6. lia. }
    assert (TP : takeN (14 + n + 8) h = P).
    { rewrite Eh. apply takeN_app_exact. exact LP. }
    split.
    { rewrite Eh. unfold P. rewrite <- !app_assoc. apply takeN_app_exact. reflexivity. }
    split.
    { rewrite Eh. unfold P. rewrite <- !app_assoc. apply cc_slice_app; [reflexivity|].
      rewrite lenN_le_bytes8. reflexivity. }
    split.
    { rewrite Eh. unfold P. rewrite <- !app_assoc.
      rewrite (app_assoc ARCHIVE_MAGIC). apply cc_slice_app.
      - rewrite lenN_app, lenN_le_bytes8. reflexivity.
      - reflexivity. }
    split.
    { rewrite Eh. unfold P. rewrite <- (app_nil_r (H _)). rewrite <- !app_assoc.
      rewrite (app_assoc (le_bytes 8 n)). rewrite (app_assoc ARCHIVE_MAGIC). apply cc_slice_app.
      - rewrite !lenN_app, lenN_le_bytes8. fold n. change (lenN ARCHIVE_MAGIC) with 6. lia.
      - rewrite lenN_le_bytes8. reflexivity. }
    split.
    { rewrite TP. rewrite Eh. rewrite <- LP. replace (lenN P) with (lenN P + 0) by lia.
      rewrite dropN_app_plus. apply dropN_0. }
    intros H64. rewrite TP in H64. rewrite Eh, lenN_app, LP, H64. reflexivity.
  Qed.

  Corollary compress_model_layout : forall src o bytes d data,
    compress_dict H comp src o = Ok (d, data) -> compress_model H comp src o = Ok bytes ->
    bytes = build_header H (encode_dict d) None ++ data.
  Proof.
    intros src o bytes d data Hd Hm. unfold compress_model in Hm. rewrite Hd in Hm. cbn [bind] in Hm.
    cbv beta iota in Hm.
    set (hb := build_header H (encode_dict d) None) in *. clearbody hb.
    assert (E : forall (a b : list N), Ok a = Ok b -> a = b) by (intros a b Hab; congruence).
    symmetry. apply E. exact Hm.
  Qed.
End Conform.

(* Why the rebuild clause needs collision freedom: with a constant "hash" every chunk is deduplicated
   onto the first one and the rebuild order reproduces a different source. *)
Example rebuild_needs_collision_freedom :
  let o := {| o_cfg := {| c_algo := AFixed; c_bits := 0; c_min := 0; c_max := 2; c_win := 0 |};
              o_hashlen := 3; o_comp := None; o_meta := []; o_version := [] |} in
  match compress_dict (fun _ => []) (fun x => x) [1; 2; 3; 4] o with
  | Ok (d, data) => dict_order d = [0; 0] /\ data = [1; 2]
  | _ => False
  end.
Proof. vm_compute. split; reflexivity. Qed.

Print Assumptions chunk_oneshot_tiles.
Print Assumptions chunk_oneshot_sizes.
Print Assumptions compress_conforming.
Print Assumptions compress_rebuild_hashes.
Print Assumptions build_header_layout.
Print Assumptions compress_model_layout.
