(* Composition for C09/C10: automaton = stateless specification (with the hash purity lemmas discharged),
   tiling and sizes of the model's chunk lists, resynchronisation on the model, and the relation between
   the literal reading of C09 and the implemented rule (known finding F6). *)
From Bita Require Import Model.Base Model.RollSum Model.BuzHash Model.Chunker Model.ChunkSpec.
From Bita Require Import Proofs.ChunkerRefine Proofs.HashPure Proofs.BoundaryRule Proofs.Resync.

Definition bytes_ok (l : list N) : Prop := Forall (fun b => b < 256) l.

Theorem oneshot_is_spec_final : forall cfg data,
  valid_config cfg = true -> c_win cfg < 4294967296 -> bytes_ok data ->
  chunk_oneshot cfg data = Ok (spec_chunks cfg false data).
Proof. exact (oneshot_is_spec rs_pure_correct bh_pure_correct). Qed.

Theorem stream_is_spec_final : forall cfg data evs,
  valid_config cfg = true -> c_win cfg < 4294967296 -> bytes_ok data ->
  Forall (fun e => e <> EvRead 0) evs ->
  chunk_stream cfg data evs = Ok (spec_chunks cfg false data).
Proof.
  intros cfg data evs Hv Hw Hb He.
  rewrite (chunk_stream_schedule_independent cfg data evs Hv He).
  apply oneshot_is_spec_final; assumption.
Qed.

Theorem oneshot_tiles_final : forall cfg data l,
  valid_config cfg = true -> c_win cfg < 4294967296 -> bytes_ok data ->
  chunk_oneshot cfg data = Ok l -> tiles 0 l (lenN data).
Proof.
  intros cfg data l Hv Hw Hb E. rewrite (oneshot_is_spec_final cfg data Hv Hw Hb) in E.
  injection E as <-. apply spec_chunks_tile. exact Hv.
Qed.

Theorem oneshot_sizes_final : forall cfg data l o n,
  valid_config cfg = true -> c_win cfg < 4294967296 -> bytes_ok data ->
  chunk_oneshot cfg data = Ok l -> In (o, n) l ->
  n <= c_max cfg /\ (o + n < lenN data ->
     match c_algo cfg with AFixed => n = c_max cfg | _ => c_min cfg <= n end).
Proof.
  intros cfg data l o n Hv Hw Hb E Hin. rewrite (oneshot_is_spec_final cfg data Hv Hw Hb) in E.
  injection E as <-. eapply spec_chunks_sizes; eauto.
Qed.

Theorem oneshot_resync_final : forall cfg P1 P2 S k l1 l2,
  valid_config cfg = true -> c_win cfg < 4294967296 -> bytes_ok (P1 ++ S) -> bytes_ok (P2 ++ S) ->
  c_win cfg <= k -> 0 < k ->
  (c_algo cfg = AFixed -> (lenN P1) mod (c_max cfg) = 0 /\ (lenN P2) mod (c_max cfg) = 0) ->
  chunk_oneshot cfg (P1 ++ S) = Ok l1 -> chunk_oneshot cfg (P2 ++ S) = Ok l2 ->
  ends_at l1 (lenN P1 + k) -> ends_at l2 (lenN P2 + k) ->
  shift (lenN P1) (after (lenN P1 + k) l1) = shift (lenN P2) (after (lenN P2 + k) l2).
Proof.
  intros cfg P1 P2 S k l1 l2 Hv Hw Hb1 Hb2 Hk Hk0 Hf E1 E2 H1 H2.
  rewrite (oneshot_is_spec_final cfg _ Hv Hw Hb1) in E1. injection E1 as <-.
  rewrite (oneshot_is_spec_final cfg _ Hv Hw Hb2) in E2. injection E2 as <-.
  apply spec_resync; assumption.
Qed.

(* ---- literal reading of the rule (position W of the stream tested by BuzHash) vs the implemented rule ---- *)
Lemma tested_lit_eq cfg s p :
  (c_algo cfg <> ABuzHash \/ c_win cfg < c_min cfg) ->
  tested cfg true s p = tested cfg false s p.
Proof.
  intros Hc. unfold tested. destruct (c_algo cfg) eqn:Ea; try reflexivity.
  destruct Hc as [Hc|Hc]; [congruence|].
  destruct (N.leb_spec (N.max (c_min cfg) 1) p) as [Hp|Hp]; cbn [andb]; [|reflexivity].
  destruct (N.leb_spec (c_win cfg) (s + p)); destruct (N.leb_spec (c_win cfg + 1) (s + p)); try reflexivity; lia.
Qed.

Lemma spec_scan_lit_eq cfg : (c_algo cfg <> ABuzHash \/ c_win cfg < c_min cfg) ->
  forall f data total s p, spec_scan cfg true f data total s p = spec_scan cfg false f data total s p.
Proof.
  intros Hc f. induction f as [|f IH]; intros data total s p; cbn [spec_scan]; [reflexivity|].
  rewrite (tested_lit_eq cfg s p Hc). rewrite IH. reflexivity.
Qed.

Lemma spec_chunks_from_lit_eq cfg : (c_algo cfg <> ABuzHash \/ c_win cfg < c_min cfg) ->
  forall f data total s, spec_chunks_from cfg true f data total s = spec_chunks_from cfg false f data total s.
Proof.
  intros Hc f. induction f as [|f IH]; intros data total s; cbn [spec_chunks_from]; [reflexivity|].
  rewrite (spec_scan_lit_eq cfg Hc). rewrite IH. reflexivity.
Qed.

(* outside the known class {BuzHash, min <= W} the literal rule and the implemented rule coincide *)
Theorem literal_rule_outside_known_class : forall cfg data,
  (c_algo cfg <> ABuzHash \/ c_win cfg < c_min cfg) ->
  spec_chunks cfg true data = spec_chunks cfg false data.
Proof.
  intros cfg data Hc. unfold spec_chunks.
  rewrite (spec_chunks_from_lit_eq cfg Hc). reflexivity.
Qed.

(* inside it they differ: witness (finding F6) *)
Theorem literal_rule_refuted : exists cfg data,
  valid_config cfg = true /\ bytes_ok data /\ c_algo cfg = ABuzHash /\ c_min cfg <= c_win cfg /\
  chunk_oneshot cfg data <> Ok (spec_chunks cfg true data).
Proof.
  exists {| c_algo := ABuzHash; c_bits := 1; c_min := 0; c_max := 8; c_win := 2 |}, [0;4;5;6;7;8;9;16].
  split; [reflexivity|]. split; [repeat constructor|]. split; [reflexivity|]. split; [cbn; lia|].
  vm_compute. discriminate.
Qed.
