(* Correctness of the in-place reorder planner (reorder_ops) together with its executor (exec_ops). *)
From Bita Require Import Model.Base Model.ChunkIndex Model.CloneOutput Model.CloneSpec.
From Coq Require Import PeanoNat.

(* ------------------------------------------------------------------ *)
(* generic helpers *)

Lemma memk_In x l : memk x l = true <-> In x l.
Proof.
  induction l as [|y r IH]; cbn [memk In]; [split; [discriminate|tauto]|].
  destruct (N.eqb_spec x y) as [->|Hn]; [tauto|]. rewrite IH. split; [tauto|]. intros [E|H]; [congruence|exact H].
Qed.

Lemma memk_nIn x l : memk x l = false <-> ~ In x l.
Proof. rewrite <- memk_In. destruct (memk x l); split; congruence. Qed.

Lemma takeN_firstn {A} : forall (l : list A) n, takeN n l = firstn (N.to_nat n) l.
Proof.
  induction l as [|x r IH]; intros n; cbn [takeN].
  - destruct (N.to_nat n); reflexivity.
  - destruct (N.eqb_spec n 0) as [->|Hn]; [reflexivity|].
    replace (N.to_nat n) with (S (N.to_nat (N.pred n))) by lia. cbn [firstn]. rewrite IH. reflexivity.
Qed.

Lemma dropN_skipn {A} : forall (l : list A) n, dropN n l = skipn (N.to_nat n) l.
Proof.
  induction l as [|x r IH]; intros n; cbn [dropN].
  - destruct (N.to_nat n); reflexivity.
  - destruct (N.eqb_spec n 0) as [->|Hn]; [reflexivity|].
    replace (N.to_nat n) with (S (N.to_nat (N.pred n))) by lia. cbn [skipn]. rewrite IH. reflexivity.
Qed.

Lemma lenN_length {A} : forall (l : list A), lenN l = N.of_nat (length l).
Proof. induction l as [|x r IH]; cbn [lenN length]; [reflexivity|]. rewrite IH. lia. Qed.

Lemma lenN_app {A} (a b : list A) : lenN (a ++ b) = lenN a + lenN b.
Proof. rewrite !lenN_length, app_length. lia. Qed.

Section Bytes.
  Variable D : N -> list N.

  Lemma holds_decomp f o k :
    holds D f o k <-> exists a b, f = a ++ D k ++ b /\ lenN a = o.
  Proof.
    unfold holds. rewrite takeN_firstn, dropN_skipn, !lenN_length. split.
    - intros (Hle & Heq).
      exists (firstn (N.to_nat o) f), (skipn (length (D k)) (skipn (N.to_nat o) f)). split.
      + rewrite <- Heq at 1. rewrite Nat2N.id, firstn_skipn, firstn_skipn. reflexivity.
      + rewrite lenN_length, firstn_length. lia.
    - intros (a & b & -> & Ha). rewrite lenN_length in Ha. rewrite !app_length. split; [lia|].
      rewrite Nat2N.id. rewrite skipn_app.
      replace (N.to_nat o) with (length a) by lia.
      rewrite skipn_all, Nat.sub_diag. cbn [skipn app].
      rewrite firstn_app, firstn_all, Nat.sub_diag. cbn [firstn]. apply app_nil_r.
  Qed.

  Lemma file_write_shape f o d :
    exists pre post, file_write f o d = pre ++ d ++ post /\ lenN pre = o /\
      lenN f <= lenN (file_write f o d).
  Proof.
    unfold file_write. rewrite takeN_firstn, dropN_skipn.
    exists (firstn (N.to_nat o) f ++ repeat 0 (N.to_nat (o - lenN (firstn (N.to_nat o) f)))),
           (skipn (N.to_nat (o + lenN d)) f).
    split; [rewrite <- app_assoc; reflexivity|].
    repeat first [rewrite lenN_length | rewrite app_length | rewrite repeat_length | rewrite firstn_length
                 | rewrite skipn_length].
    lia.
  Qed.

  Lemma len_file_write f o d : lenN f <= lenN (file_write f o d).
  Proof. destruct (file_write_shape f o d) as (? & ? & _ & _ & H). exact H. Qed.

  Lemma holds_write_same f o k : holds D (file_write f o (D k)) o k.
  Proof.
    destruct (file_write_shape f o (D k)) as (pre & post & E & Hl & _).
    apply holds_decomp. exists pre, post. auto.
  Qed.

  Lemma holds_write_other f o d o' k :
    holds D f o' k -> o' + lenN (D k) <= o \/ o + lenN d <= o' ->
    holds D (file_write f o d) o' k.
  Proof.
    intros H Hd. apply holds_decomp in H. destruct H as (a & b & -> & Ha).
    apply holds_decomp. unfold file_write. rewrite takeN_firstn, dropN_skipn.
    rewrite !lenN_length in *.
    destruct Hd as [Hd|Hd].
    - (* region lies before the write *)
      exists a. rewrite !firstn_app.
      replace (firstn (N.to_nat o) a) with a by (symmetry; apply firstn_all2; lia).
      replace (firstn (N.to_nat o - length a) (D k)) with (D k) by (symmetry; apply firstn_all2; lia).
      rewrite <- !app_assoc. eexists. split; [reflexivity|]. rewrite lenN_length. exact Ha.
    - (* region lies after the write *)
      rewrite !firstn_app, !skipn_app.
      replace (N.to_nat o - length a)%nat with 0%nat by lia.
      replace (N.to_nat (o + N.of_nat (length d)) - length a)%nat with 0%nat by lia.
      cbn [firstn skipn Nat.sub app]. rewrite !app_nil_r.
      replace (N.to_nat (o - N.of_nat (length (firstn (N.to_nat o) a)))) with 0%nat
        by (rewrite firstn_length; lia).
      cbn [repeat app].
      exists (firstn (N.to_nat o) a ++ d ++ skipn (N.to_nat (o + N.of_nat (length d))) a), b.
      split; [rewrite <- !app_assoc; reflexivity|].
      rewrite lenN_length, !app_length, firstn_length, skipn_length. lia.
  Qed.
End Bytes.

(* ------------------------------------------------------------------ *)
(* layouts: sorted, pairwise non-overlapping entries *)

Definition lend (e : lentry) : N := le_off e + le_size e.

Fixpoint lay_sorted (l : layout) : Prop :=
  match l with
  | [] => True
  | x :: r => 0 < le_size x /\ (forall y, In y r -> lend x <= le_off y) /\ lay_sorted r
  end.

Fixpoint lay_desc (l : layout) : Prop :=
  match l with
  | [] => True
  | x :: r => (forall y, In y r -> lend y <= le_off x) /\ lay_desc r
  end.

Lemma lay_desc_app a b :
  lay_desc a -> lay_desc b -> (forall x y, In x a -> In y b -> lend y <= le_off x) -> lay_desc (a ++ b).
Proof.
  induction a as [|x r IH]; intros Ha Hb Hab; cbn [app]; [exact Hb|].
  cbn [lay_desc] in *. destruct Ha as (Hx & Hr). split.
  - intros y Hy. apply in_app_or in Hy. destruct Hy as [Hy|Hy]; [apply Hx; exact Hy|].
    apply Hab; [left; reflexivity|exact Hy].
  - apply IH; auto. intros x' y Hx' Hy. apply Hab; [right; exact Hx'|exact Hy].
Qed.

Lemma lay_sorted_rev l : lay_sorted l -> lay_desc (rev l).
Proof.
  induction l as [|x r IH]; intros Hs; cbn [rev]; [exact I|].
  cbn [lay_sorted] in Hs. destruct Hs as (_ & Hx & Hr).
  apply lay_desc_app; [apply IH; exact Hr|cbn; tauto|].
  intros a y Ha [<-|[]]. apply in_rev in Ha. apply Hx in Ha. unfold lend in *. lia.
Qed.

Lemma lay_sorted_filter p l : lay_sorted l -> lay_sorted (filter p l).
Proof.
  induction l as [|x r IH]; intros Hs; cbn [filter]; [exact I|].
  cbn [lay_sorted] in Hs. destruct Hs as (H0 & Hx & Hr).
  destruct (p x); [|apply IH; exact Hr].
  cbn [lay_sorted]. split; [exact H0|split; [|apply IH; exact Hr]].
  intros y Hy. apply filter_In in Hy. apply Hx. tauto.
Qed.

Lemma take_while_desc off : forall l, lay_desc l ->
  forall e, In e (take_while (fun e => off <? le_off e + le_size e) l) <-> In e l /\ off < lend e.
Proof.
  induction l as [|x r IH]; intros Hd e; cbn [take_while In]; [tauto|].
  cbn [lay_desc] in Hd. destruct Hd as (Hx & Hr).
  destruct (N.ltb_spec off (le_off x + le_size x)) as [Hlt|Hge].
  - cbn [In]. rewrite (IH Hr e). split.
    + intros [<-|(H1 & H2)]; [split; [left; reflexivity|exact Hlt]|tauto].
    + intros ([<-|H1] & H2); [left; reflexivity|right; tauto].
  - cbn [In]. split; [tauto|]. intros ([<-|H1] & H2); unfold lend in *; [lia|].
    apply Hx in H1. unfold lend in H1. lia.
Qed.

Lemma co_lt_0 o s x : co_lt o s x 0 = (o <? x).
Proof.
  unfold co_lt. destruct (N.ltb_spec o x); cbn [orb]; [reflexivity|].
  destruct (N.ltb_spec s 0); [lia|]. apply andb_false_r.
Qed.

Lemma iter_overlapping_spec lay off size e :
  lay_sorted lay ->
  (In e (iter_overlapping lay off size) <-> In e lay /\ le_off e < off + size /\ off < lend e).
Proof.
  intros Hs. unfold iter_overlapping.
  rewrite take_while_desc by (apply lay_sorted_rev, lay_sorted_filter; exact Hs).
  rewrite <- in_rev, filter_In, co_lt_0.
  destruct (N.ltb_spec (le_off e) (off + size)) as [Hlt|Hge]; split.
  - intros ((H1 & _) & H2). auto.
  - intros (H1 & _ & H2). auto.
  - intros ((_ & H1) & _). discriminate.
  - intros (_ & H1 & _). lia.
Qed.

Lemma layout_insert_spec e : forall l,
  lay_sorted l -> 0 < le_size e ->
  (forall x, In x l -> lend e <= le_off x \/ lend x <= le_off e) ->
  lay_sorted (layout_insert e l) /\ (forall y, In y (layout_insert e l) <-> y = e \/ In y l).
Proof.
  induction l as [|x r IH]; intros Hs He Hno; cbn [layout_insert].
  - cbn [lay_sorted In]. split; [tauto|]. intros y; split; intros [H|H]; auto.
  - cbn [lay_sorted] in Hs. destruct Hs as (Hx0 & Hx & Hr).
    pose proof (Hno x (or_introl eq_refl)) as Hex. unfold lend in Hex.
    unfold co_lt.
    destruct (N.ltb_spec (le_off e) (le_off x)) as [H1|H1]; cbn [orb].
    { split.
      - cbn [lay_sorted]. split; [exact He|split; [|tauto]].
        intros y [<-|Hy]; unfold lend in *; [lia|]. apply Hx in Hy. lia.
      - intros y. cbn [In]. split; intros [H|H]; auto. }
    destruct (N.eqb_spec (le_off e) (le_off x)) as [H2|H2]; cbn [andb].
    { exfalso. lia. }
    destruct (IH Hr He (fun y Hy => Hno y (or_intror Hy))) as (IH1 & IH2).
    split.
    + cbn [lay_sorted]. split; [exact Hx0|split; [|exact IH1]].
      intros y Hy. apply IH2 in Hy. destruct Hy as [->|Hy]; [unfold lend in *; lia|apply Hx; exact Hy].
    + intros y. cbn [In]. rewrite IH2. tauto.
Qed.

Lemma layout_insert_length e : forall l, (length (layout_insert e l) <= S (length l))%nat.
Proof.
  induction l as [|x r IH]; cbn [layout_insert length]; [lia|].
  destruct (co_lt _ _ _ _); cbn [length]; [lia|].
  destruct (_ && _); cbn [length]; lia.
Qed.

Lemma layout_remove_spec o s : forall l, lay_sorted l ->
  lay_sorted (layout_remove o s l) /\
  (forall y, In y (layout_remove o s l) <-> In y l /\ ~ (le_off y = o /\ le_size y = s)).
Proof.
  induction l as [|x r IH]; intros Hs; cbn [layout_remove].
  - cbn [lay_sorted In]. split; [exact I|tauto].
  - cbn [lay_sorted] in Hs. destruct Hs as (Hx0 & Hx & Hr).
    destruct (IH Hr) as (IH1 & IH2).
    destruct (N.eqb_spec (le_off x) o) as [E1|E1]; cbn [andb];
      [destruct (N.eqb_spec (le_size x) s) as [E2|E2]|].
    + split; [exact Hr|]. intros y. cbn [In]. split.
      * intros Hy. split; [right; exact Hy|]. intros (F1 & _). apply Hx in Hy. unfold lend in Hy. lia.
      * intros ([<-|Hy] & Hn); [exfalso; apply Hn; auto|exact Hy].
    + split.
      * cbn [lay_sorted]. split; [exact Hx0|split; [|exact IH1]]. intros y Hy. apply IH2 in Hy. apply Hx; tauto.
      * intros y. cbn [In]. rewrite IH2. split; [intros [<-|H]; [split; [auto|tauto]|tauto]|tauto].
    + split.
      * cbn [lay_sorted]. split; [exact Hx0|split; [|exact IH1]]. intros y Hy. apply IH2 in Hy. apply Hx; tauto.
      * intros y. cbn [In]. rewrite IH2. split; [intros [<-|H]; [split; [auto|tauto]|tauto]|tauto].
Qed.

Lemma layout_remove_length o s : forall l, (length (layout_remove o s l) <= length l)%nat.
Proof.
  induction l as [|x r IH]; cbn [layout_remove length]; [lia|].
  destruct (_ && _); cbn [length]; lia.
Qed.

(* ------------------------------------------------------------------ *)
(* index helpers *)

Lemma ci_get_In : forall idx k l, ci_get idx k = Some l -> In (k, l) idx.
Proof.
  induction idx as [|[k' l'] r IH]; intros k l; cbn [ci_get]; [discriminate|].
  destruct (N.eqb_spec k k') as [->|Hn]; [intros [= ->]; left; reflexivity|intros H; right; apply IH; exact H].
Qed.

Lemma In_keys : forall idx k l, In (k, l) idx -> In k (keys idx).
Proof.
  induction idx as [|[k' l'] r IH]; intros k l; cbn [In keys]; [tauto|].
  intros [[= -> ->]|H]; [left; reflexivity|right; eapply IH; exact H].
Qed.

Lemma In_ci_get : forall idx k l, NoDup (keys idx) -> In (k, l) idx -> ci_get idx k = Some l.
Proof.
  induction idx as [|[k' l'] r IH]; intros k l Hnd; cbn [In ci_get keys] in *; [tauto|].
  inversion Hnd as [|? ? Hni Hnd']; subst.
  intros [[= -> ->]|H]; [rewrite N.eqb_refl; reflexivity|].
  destruct (N.eqb_spec k k') as [->|Hn]; [exfalso; apply Hni; eapply In_keys; exact H|apply IH; assumption].
Qed.

Lemma ci_contains_get idx k : ci_contains idx k = true <-> exists l, ci_get idx k = Some l.
Proof.
  unfold ci_contains. destruct (ci_get idx k) as [l|]; split; [eauto|reflexivity|discriminate|].
  intros (l & H); discriminate.
Qed.

Lemma ci_remove_filter c bl : forall t, NoDup (keys t) ->
  ci_remove (filter (fun e => negb (memk (fst e) bl)) t) c = filter (fun e => negb (memk (fst e) (c :: bl))) t.
Proof.
  induction t as [|[k l] r IH]; intros Hnd; cbn [filter ci_remove]; [reflexivity|].
  cbn [keys] in Hnd. inversion Hnd as [|? ? Hni Hnd']; subst.
  cbn [fst memk].
  destruct (memk k bl) eqn:Em; cbn [negb].
  - destruct (k =? c); cbn [negb]; apply IH; exact Hnd'.
  - cbn [ci_remove]. rewrite (N.eqb_sym c k).
    destruct (N.eqb_spec k c) as [->|Hn]; cbn [negb].
    + apply filter_ext_in. intros [k' l'] Hin. cbn [fst memk].
      destruct (N.eqb_spec k' c) as [->|Hn]; [exfalso; apply Hni; eapply In_keys; exact Hin|reflexivity].
    + f_equal. apply IH; exact Hnd'.
Qed.

Lemma strictly_sorted_lt : forall l x, strictly_sorted (x :: l) -> forall y, In y l -> x < y.
Proof.
  induction l as [|z r IH]; intros x Hs y Hy; [destruct Hy|].
  cbn [strictly_sorted] in Hs. destruct Hs as (Hxz & Hr).
  destruct Hy as [<-|Hy]; [exact Hxz|].
  assert (z < y) by (apply IH; [exact Hr|exact Hy]). lia.
Qed.

Lemma strictly_sorted_NoDup : forall l, strictly_sorted l -> NoDup l.
Proof.
  induction l as [|x r IH]; intros Hs; [constructor|].
  constructor.
  - intros Hx. pose proof (strictly_sorted_lt r x Hs x Hx). lia.
  - apply IH. destruct Hs as (_ & Hs). exact Hs.
Qed.

Lemma NoDup_app_intro {A} (a b : list A) :
  NoDup a -> NoDup b -> (forall x, In x a -> ~ In x b) -> NoDup (a ++ b).
Proof.
  induction a as [|x r IH]; intros Ha Hb Hab; cbn [app]; [exact Hb|].
  inversion Ha as [|? ? Hni Hr]; subst. constructor.
  - intros Hin. apply in_app_or in Hin. destruct Hin as [Hin|Hin]; [auto|]. apply (Hab x); [left; reflexivity|exact Hin].
  - apply IH; auto. intros y Hy. apply Hab. right; exact Hy.
Qed.

(* ------------------------------------------------------------------ *)
(* traces *)

Lemma writes_of_app_write : forall t c o d,
  writes_of c (t ++ [TSeek o; TWrite d]) = writes_of c t ++ [(o, d)].
Proof.
  induction t as [|ev r IH]; intros c o d; [reflexivity|].
  destruct ev; cbn [app writes_of]; rewrite IH; reflexivity.
Qed.

Lemma writes_of_app_read : forall t c o n,
  writes_of c (t ++ [TSeek o; TRead n]) = writes_of c t.
Proof.
  induction t as [|ev r IH]; intros c o n; [reflexivity|].
  destruct ev; cbn [app writes_of]; rewrite IH; reflexivity.
Qed.

(* ------------------------------------------------------------------ *)
(* the executor as a fold *)

Definition estate := (ostate * index * store * N)%type.

Definition estep (s : estate) (op : rop) : estate :=
  let '(st, idx, mem, mv) := s in
  match o_err st with
  | Some _ => s
  | None =>
    match op with
    | RCopy k size src dests =>
        match store_get mem k with
        | Some d => (write_offsets st dests d, ci_remove idx k, store_remove mem k, mv + size)
        | None => let '(st1, d) := o_seek_read st src size in
                  (write_offsets st1 dests d, ci_remove idx k, mem, mv + size)
        end
    | RStore k size src =>
        match store_get mem k with
        | Some _ => s
        | None => let '(st1, d) := o_seek_read st src size in (st1, idx, (k, d) :: mem, mv)
        end
    end
  end.

Definition erun (ops : list rop) (s : estate) : estate := fold_left estep ops s.

Lemma erun_app a b s : erun (a ++ b) s = erun b (erun a s).
Proof. unfold erun. apply fold_left_app. Qed.

Lemma erun_err : forall ops st idx mem mv e, o_err st = Some e -> erun ops (st, idx, mem, mv) = (st, idx, mem, mv).
Proof.
  induction ops as [|op r IH]; intros st idx mem mv e He; [reflexivity|].
  unfold erun. cbn [fold_left estep]. rewrite He. apply (IH st idx mem mv e He).
Qed.

Lemma write_offsets_err : forall ds st d e, o_err st = Some e -> write_offsets st ds d = st.
Proof.
  induction ds as [|o r IH]; intros st d e He; [reflexivity|].
  unfold write_offsets. cbn [fold_left]. unfold o_seek_write at 2. rewrite He. apply (IH st d e He).
Qed.

Lemma exec_ops_erun : forall ops st idx mem mv,
  exec_ops ops st idx mem mv = let '(st', idx', _, mv') := erun ops (st, idx, mem, mv) in (st', idx', mv').
Proof.
  induction ops as [|op r IH]; intros st idx mem mv.
  - cbn. destruct (o_err st); reflexivity.
  - destruct (o_err st) as [e|] eqn:He.
    + rewrite (erun_err _ _ _ _ _ e He). destruct op; cbn [exec_ops]; rewrite He; reflexivity.
    + unfold erun. cbn [fold_left estep]. rewrite He. fold (erun r).
      destruct op as [k size src dests|k size src]; cbn [exec_ops]; rewrite He.
      * destruct (store_get mem k) as [d|]; [apply IH|].
        destruct (o_seek_read st src size) as [st1 d]. apply IH.
      * destruct (store_get mem k) as [d|]; [apply IH|].
        destruct (o_seek_read st src size) as [st1 d]. apply IH.
Qed.

Definition wo (f : list N) (ds : list N) (d : list N) : list N :=
  fold_left (fun f o => file_write f o d) ds f.

Lemma write_offsets_ok : forall ds st d,
  o_err st = None -> o_fault st = None ->
  o_err (write_offsets st ds d) = None /\ o_fault (write_offsets st ds d) = None /\
  o_file (write_offsets st ds d) = wo (o_file st) ds d /\
  writes_of 0 (o_trace (write_offsets st ds d)) = writes_of 0 (o_trace st) ++ map (fun o => (o, d)) ds.
Proof.
  induction ds as [|o r IH]; intros st d He Hf.
  - cbn. rewrite app_nil_r. auto.
  - unfold write_offsets, wo. cbn [fold_left map].
    fold (write_offsets (o_seek_write st o d) r d). fold (wo (file_write (o_file st) o d) r d).
    assert (E : o_seek_write st o d =
      {| o_file := file_write (o_file st) o d; o_trace := o_trace st ++ [TSeek o; TWrite d];
         o_nwrites := o_nwrites st + 1; o_fault := o_fault st; o_err := None |}).
    { unfold o_seek_write, faulty. rewrite He, Hf. reflexivity. }
    rewrite E.
    match goal with |- context [write_offsets ?s r d] => destruct (IH s d eq_refl Hf) as (I1 & I2 & I3 & I4) end.
    rewrite I1, I2, I3, I4. cbn [o_file o_trace]. rewrite writes_of_app_write, <- app_assoc. auto.
Qed.

Lemma seek_read_ok st off n :
  o_err st = None -> off + n <= lenN (o_file st) ->
  exists st1, o_seek_read st off n = (st1, takeN n (dropN off (o_file st))) /\
    o_file st1 = o_file st /\ o_err st1 = None /\ o_fault st1 = o_fault st /\
    writes_of 0 (o_trace st1) = writes_of 0 (o_trace st).
Proof.
  intros He Hle. unfold o_seek_read. rewrite He.
  destruct (N.leb_spec (off + n) (lenN (o_file st))); [|lia].
  eexists. split; [reflexivity|]. cbn [o_file o_err o_fault o_trace]. rewrite writes_of_app_read. auto.
Qed.

Section WO.
  Variable D : N -> list N.

  Lemma wo_len d : forall ds f, lenN f <= lenN (wo f ds d).
  Proof.
    induction ds as [|o r IH]; intros f; [cbn; lia|].
    unfold wo. cbn [fold_left]. fold (wo (file_write f o d) r d).
    pose proof (IH (file_write f o d)). pose proof (len_file_write f o d). lia.
  Qed.

  Lemma wo_other d o' k : forall ds f,
    holds D f o' k -> (forall o, In o ds -> o' + lenN (D k) <= o \/ o + lenN d <= o') ->
    holds D (wo f ds d) o' k.
  Proof.
    induction ds as [|o r IH]; intros f Hh Hd; [exact Hh|].
    unfold wo. cbn [fold_left]. fold (wo (file_write f o d) r d).
    apply IH; [|intros x Hx; apply Hd; right; exact Hx].
    apply holds_write_other; [exact Hh|apply Hd; left; reflexivity].
  Qed.

  Lemma wo_same k o : forall ds f,
    In o ds ->
    (forall o1 o2, In o1 ds -> In o2 ds -> o1 <> o2 -> o1 + lenN (D k) <= o2 \/ o2 + lenN (D k) <= o1) ->
    holds D (wo f ds (D k)) o k.
  Proof.
    induction ds as [|a r IH]; intros f Hin Hd; [destruct Hin|].
    unfold wo. cbn [fold_left]. fold (wo (file_write f a (D k)) r (D k)).
    destruct (in_dec N.eq_dec o r) as [Hr|Hr].
    - apply IH; [exact Hr|]. intros o1 o2 H1 H2. apply Hd; right; assumption.
    - destruct Hin as [->|Hin]; [|contradiction].
      apply wo_other; [apply holds_write_same|].
      intros x Hx. apply Hd; [left; reflexivity|right; exact Hx|]. intros ->; contradiction.
  Qed.
End WO.

(* ------------------------------------------------------------------ *)
Section PlannerCorrect.
  Variable D : N -> list N.

  Definition moved_keys (cur tgt : index) (k : N) : Prop :=
    ci_contains cur k = true /\ ci_contains tgt k = true.

Section Fixed.
  Variables cur tgt : index.
  Variable f0 : list N.
  Hypothesis Hwc : idx_wf D cur.
  Hypothesis Hwt : idx_wf D tgt.
  Hypothesis Hin : idx_in_file D cur f0.
  Hypothesis Hdc : disjoint_occs D cur.
  Hypothesis Hdt : disjoint_occs D tgt.

  Definition sz (k : N) : N := lenN (D k).
  Definition src (k : N) : N := match ci_get cur k with Some l => first_off l | None => 0 end.
  Definition dests (k : N) : list N := match ci_get tgt k with Some l => l_offs l | None => [] end.
  Definition moved (k : N) : Prop := moved_keys cur tgt k.
  Definition cop (k : N) : rop := RCopy k (sz k) (src k) (dests k).
  Definition sop (k : N) : rop := RStore k (sz k) (src k).
  Definition intact (f : list N) (c : N) : Prop := holds D f (src c) c.
  Definition delivered (f : list N) (c : N) : Prop := forall d, In d (dests c) -> holds D f d c.
  Definition ovlp (c o : N) : Prop := exists d, In d (dests c) /\ d < src o + sz o /\ src o < d + sz c.
  Definition buffered (m : store) (k : N) : Prop := exists v, store_get m k = Some v.

  Lemma dests_occ c d : In d (dests c) <-> occ tgt c d.
  Proof.
    unfold dests, occ. destruct (ci_get tgt c) as [l|]; split.
    - intros H. exists l. auto.
    - intros (l' & [= <-] & H). exact H.
    - intros [].
    - intros (l' & E & _). discriminate.
  Qed.

  Lemma dst_disj c d c' d' : In d (dests c) -> In d' (dests c') -> (c, d) <> (c', d') ->
    d + sz c <= d' \/ d' + sz c' <= d.
  Proof. intros H1 H2 Hne. apply dests_occ in H1, H2. exact (Hdt c d c' d' H1 H2 Hne). Qed.

  Lemma dests_NoDup c : NoDup (dests c).
  Proof.
    unfold dests. destruct (ci_get tgt c) as [l|] eqn:E; [|constructor].
    apply ci_get_In in E. apply (proj2 Hwt) in E. apply strictly_sorted_NoDup. tauto.
  Qed.

  Lemma first_off_In l : l_offs l <> [] -> In (first_off l) (l_offs l).
  Proof. unfold first_off. destruct (l_offs l); [congruence|left; reflexivity]. Qed.

  Lemma cur_entry k l : ci_get cur k = Some l ->
    l_size l = sz k /\ 0 < sz k /\ occ cur k (first_off l) /\ holds D f0 (first_off l) k.
  Proof.
    intros E. pose proof (ci_get_In _ _ _ E) as Hi. apply (proj2 Hwc) in Hi.
    destruct Hi as (H1 & H2 & H3 & _). unfold sz. rewrite <- H1.
    assert (Ho : occ cur k (first_off l)) by (exists l; split; [exact E|apply first_off_In; exact H3]).
    split; [reflexivity|split; [exact H2|split; [exact Ho|apply Hin; exact Ho]]].
  Qed.

  Lemma moved_facts k : moved k -> 0 < sz k /\ holds D f0 (src k) k /\ occ cur k (src k).
  Proof.
    intros (Hc & _). apply ci_contains_get in Hc. destruct Hc as (l & E).
    destruct (cur_entry k l E) as (_ & H2 & H3 & H4). unfold src. rewrite E. auto.
  Qed.

  Lemma tgt_size k l : ci_get tgt k = Some l -> l_size l = sz k.
  Proof. intros E. apply ci_get_In in E. apply (proj2 Hwt) in E. unfold sz. tauto. Qed.

  Lemma ovlp_dec c o : ovlp c o \/ ~ ovlp c o.
  Proof.
    unfold ovlp. induction (dests c) as [|d r IH].
    - right. intros (d & [] & _).
    - destruct (N.ltb_spec d (src o + sz o)); destruct (N.ltb_spec (src o) (d + sz c));
        try (left; exists d; cbn; tauto);
        (destruct IH as [IH|IH]; [left; destruct IH as (d' & ? & ?); exists d'; cbn; tauto|
          right; intros (d' & [<-|Hd] & ? & ?); [lia|apply IH; exists d'; tauto]]).
  Qed.

  (* one-step behaviour of the executor on canonical ops *)
  Lemma estep_sop_buffered st idx mem mv k v :
    store_get mem k = Some v -> estep (st, idx, mem, mv) (sop k) = (st, idx, mem, mv).
  Proof. intros E. unfold sop. cbn [estep]. rewrite E. destruct (o_err st); reflexivity. Qed.

  Lemma estep_sop_read st idx mem mv k :
    o_err st = None -> store_get mem k = None -> src k + sz k <= lenN (o_file st) ->
    exists st1, estep (st, idx, mem, mv) (sop k)
                = (st1, idx, (k, takeN (sz k) (dropN (src k) (o_file st))) :: mem, mv) /\
      o_file st1 = o_file st /\ o_err st1 = None /\ o_fault st1 = o_fault st /\
      writes_of 0 (o_trace st1) = writes_of 0 (o_trace st).
  Proof.
    intros He Em Hle. destruct (seek_read_ok st (src k) (sz k) He Hle) as (st1 & E1 & R).
    exists st1. split; [|exact R]. unfold sop. cbn [estep]. rewrite He, Em, E1. reflexivity.
  Qed.

  Lemma store_get_remove_other g k : forall m, g <> k -> store_get (store_remove m k) g = store_get m g.
  Proof.
    induction m as [|[k' d] r IH]; intros Hne; cbn [store_remove store_get]; [reflexivity|].
    destruct (N.eqb_spec k k') as [->|Hn]; cbn [store_get].
    - destruct (N.eqb_spec g k'); [contradiction|reflexivity].
    - destruct (g =? k'); [reflexivity|apply IH; exact Hne].
  Qed.

  Lemma estep_cop st idx mem mv k :
    o_err st = None -> o_fault st = None -> src k + sz k <= lenN (o_file st) ->
    exists st1 mem1 mv1, estep (st, idx, mem, mv) (cop k) = (st1, ci_remove idx k, mem1, mv1) /\
      o_err st1 = None /\ o_fault st1 = None /\
      (let v := match store_get mem k with Some v => v | None => takeN (sz k) (dropN (src k) (o_file st)) end in
       o_file st1 = wo (o_file st) (dests k) v /\
       writes_of 0 (o_trace st1) = writes_of 0 (o_trace st) ++ map (fun o => (o, v)) (dests k)) /\
      (forall g, g <> k -> store_get mem1 g = store_get mem g).
  Proof.
    intros He Hf Hle. unfold cop. cbn [estep]. rewrite He.
    destruct (store_get mem k) as [v|] eqn:Em.
    - destruct (write_offsets_ok (dests k) st v He Hf) as (W1 & W2 & W3 & W4).
      do 3 eexists. split; [reflexivity|]. split; [exact W1|split; [exact W2|split; [split; assumption|]]].
      intros g Hg. apply store_get_remove_other; exact Hg.
    - destruct (seek_read_ok st (src k) (sz k) He Hle) as (st1 & E1 & R1 & R2 & R3 & R4).
      rewrite E1. rewrite Hf in R3.
      destruct (write_offsets_ok (dests k) st1 (takeN (sz k) (dropN (src k) (o_file st))) R2 R3)
        as (W1 & W2 & W3 & W4).
      do 3 eexists. split; [reflexivity|]. split; [exact W1|split; [exact W2|split; [|auto]]].
      cbv zeta. rewrite W3, W4, R1, R4. auto.
  Qed.

  (* ---------- invariant ---------- *)
  Record Inv (L : list N) (st : ostate) (idx : index) (m : store) (G B : N -> Prop) : Prop := {
    i_err : o_err st = None;
    i_fault : o_fault st = None;
    i_len : lenN f0 <= lenN (o_file st);
    i_white : forall c, In c L -> ~ G c -> ~ B c -> intact (o_file st) c;
    i_gray : forall c, G c -> intact (o_file st) c \/ store_get m c = Some (D c);
    i_mem : forall c v, ~ B c -> store_get m c = Some v -> v = D c;
    i_black : forall c, B c -> delivered (o_file st) c;
    i_grayL : forall c, G c -> In c L /\ ~ B c;
    i_Lmoved : forall c, In c L -> moved c;
    i_Bmoved : forall c, B c -> moved c;
    i_frame : forall k o, holds D f0 o k ->
                (forall k' d, B k' -> In d (dests k') -> d + sz k' <= o \/ o + sz k <= d) ->
                holds D (o_file st) o k;
    i_idx : exists bl, (forall x, In x bl <-> B x) /\
                       idx = filter (fun e => negb (memk (fst e) bl)) tgt;
    i_tr1 : forall o d, In (o, d) (writes_of 0 (o_trace st)) -> exists k, B k /\ In o (dests k) /\ d = D k;
    i_tr2 : NoDup (map fst (writes_of 0 (o_trace st)))
  }.

  Lemma Inv_ext L st idx m (G G' B B' : N -> Prop) :
    (forall x, G x <-> G' x) -> (forall x, B x <-> B' x) -> Inv L st idx m G B -> Inv L st idx m G' B'.
  Proof.
    intros HG HB HI. destruct HI.
    constructor; auto.
    - intros c Hc Hg Hb. apply i_white0; auto; rewrite ?HG, ?HB; auto.
    - intros c Hg. apply i_gray0. apply HG; auto.
    - intros c v Hb. apply i_mem0. rewrite HB; auto.
    - intros c Hb. apply i_black0. apply HB; auto.
    - intros c Hg. destruct (i_grayL0 c (proj2 (HG c) Hg)) as (Ha & Hb). split; auto. rewrite <- HB; auto.
    - intros c Hb. apply i_Bmoved0. apply HB; auto.
    - intros k o Hh Hd. apply i_frame0; auto. intros k' d Hb. apply Hd. apply HB; auto.
    - destruct i_idx0 as (bl & H1 & H2). exists bl. split; [|exact H2]. intros x. rewrite H1. apply HB.
    - intros o d Hi. destruct (i_tr3 o d Hi) as (k & Hb & R). exists k. split; [apply HB; exact Hb|exact R].
  Qed.

  Lemma Inv_weaken L L' st idx m (B : N -> Prop) :
    incl L' L -> Inv L st idx m (fun _ => False) B -> Inv L' st idx m (fun _ => False) B.
  Proof.
    intros Hi HI. destruct HI. constructor; auto.
    - intros c [].
  Qed.

  (* Stores of visited chunks preserve the invariant and buffer every one of them. *)
  Lemma exec_stores L (G B : N -> Prop) : forall os st idx m mv st' idx' m' mv',
    (forall o, In o os -> G o \/ B o) ->
    Inv L st idx m G B ->
    erun (map sop os) (st, idx, m, mv) = (st', idx', m', mv') ->
    Inv L st' idx' m' G B /\
    (forall g, buffered m g -> buffered m' g) /\
    (forall o, In o os -> buffered m' o).
  Proof.
    induction os as [|o r IH]; intros st idx m mv st' idx' m' mv' Hcl HI He.
    - cbn in He. injection He as <- <- <- <-. split; [exact HI|split; [auto|intros o []]].
    - cbn [map] in He. unfold erun in He. cbn [fold_left] in He. fold (erun (map sop r)) in He.
      destruct (store_get m o) as [v|] eqn:Em.
      + rewrite (estep_sop_buffered _ _ _ _ _ _ Em) in He.
        destruct (IH _ _ _ _ _ _ _ _ (fun x Hx => Hcl x (or_intror Hx)) HI He) as (HI' & Hpres & Hall).
        split; [exact HI'|split; [exact Hpres|]].
        intros x [<-|Hx]; [apply Hpres; exists v; exact Em|auto].
      + assert (Hmo : moved o).
        { destruct (Hcl o (or_introl eq_refl)) as [Hg|Hb];
            [apply (i_Lmoved _ _ _ _ _ _ HI), (i_grayL _ _ _ _ _ _ HI); exact Hg|apply (i_Bmoved _ _ _ _ _ _ HI); exact Hb]. }
        assert (Hle : src o + sz o <= lenN (o_file st)).
        { destruct (moved_facts o Hmo) as (_ & (Hl & _) & _). pose proof (i_len _ _ _ _ _ _ HI). unfold sz. lia. }
        destruct (estep_sop_read st idx m mv o (i_err _ _ _ _ _ _ HI) Em Hle) as (st1 & E1 & R1 & R2 & R3 & R4).
        rewrite E1 in He.
        set (m1 := (o, takeN (sz o) (dropN (src o) (o_file st))) :: m) in *.
        assert (Hg1 : forall c, c <> o -> store_get m1 c = store_get m c).
        { intros c Hc. unfold m1. cbn [store_get]. destruct (N.eqb_spec c o); [contradiction|reflexivity]. }
        assert (HI1 : Inv L st1 idx m1 G B).
        { destruct HI. constructor; rewrite ?R1, ?R4; auto; try congruence.
          - intros c Hc. destruct (i_gray0 c Hc) as [Hi|Hv]; [left; exact Hi|right].
            rewrite Hg1; [exact Hv|]. intros ->. congruence.
          - intros c v HnB. destruct (N.eq_dec c o) as [->|Hne]; [|rewrite Hg1 by exact Hne; apply i_mem0; exact HnB].
            unfold m1. cbn [store_get]. rewrite N.eqb_refl. intros [= <-].
            destruct (Hcl o (or_introl eq_refl)) as [Hg|Hb]; [|contradiction].
            destruct (i_gray0 o Hg) as [Hi|Hv]; [|congruence].
            destruct Hi as (_ & Hi). exact Hi. }
        destruct (IH _ _ _ _ _ _ _ _ (fun x Hx => Hcl x (or_intror Hx)) HI1 He) as (HI' & Hpres & Hall).
        split; [exact HI'|split].
        * intros g (v & Hv). apply Hpres. unfold m1, buffered. cbn [store_get]. destruct (g =? o); eauto.
        * intros x [<-|Hx]; [|auto]. apply Hpres. unfold m1, buffered. cbn [store_get]. rewrite N.eqb_refl. eauto.
  Qed.

  (* The Copy step. *)
  Lemma exec_copy L (G B : N -> Prop) c st idx m mv st' idx' m' mv' :
    In c L -> ~ G c -> ~ B c ->
    Inv L st idx m (fun x => x = c \/ G x) B ->
    (forall o, In o L -> o <> c -> ovlp c o -> B o \/ (G o /\ buffered m o)) ->
    estep (st, idx, m, mv) (cop c) = (st', idx', m', mv') ->
    Inv L st' idx' m' G (fun x => x = c \/ B x) /\
    (forall g, g <> c -> buffered m g -> buffered m' g).
  Proof.
    intros HcL HnG HnB HI Hcls He.
    assert (Hmc : moved c) by (apply (i_Lmoved _ _ _ _ _ _ HI); exact HcL).
    destruct (moved_facts c Hmc) as (Hszc & Hsrc0 & _).
    assert (Hle : src c + sz c <= lenN (o_file st)).
    { destruct Hsrc0 as (Hl & _). pose proof (i_len _ _ _ _ _ _ HI). unfold sz. lia. }
    destruct (estep_cop st idx m mv c (i_err _ _ _ _ _ _ HI) (i_fault _ _ _ _ _ _ HI) Hle)
      as (st1 & m1 & mv1 & E1 & R1 & R2 & R34 & R5).
    rewrite E1 in He. injection He as <- <- <- <-.
    set (v := match store_get m c with Some v => v | None => takeN (sz c) (dropN (src c) (o_file st)) end) in *.
    cbv zeta in R34. destruct R34 as (R3 & R4).
    assert (Hv : v = D c).
    { unfold v. destruct (store_get m c) as [v0|] eqn:Em; [eapply (i_mem _ _ _ _ _ _ HI); eauto|].
      destruct (i_gray _ _ _ _ _ _ HI c (or_introl eq_refl)) as [Hi|Hv1]; [|congruence].
      destruct Hi as (_ & Hi). exact Hi. }
    rewrite Hv in R3, R4. clearbody v. clear Hv v.
    (* geometric facts about the write *)
    assert (Wother : forall o' k, holds D (o_file st) o' k ->
              (forall d, In d (dests c) -> o' + sz k <= d \/ d + sz c <= o') ->
              holds D (o_file st1) o' k).
    { intros o' k Hh Hd. rewrite R3. apply wo_other; [exact Hh|exact Hd]. }
    assert (Wintact : forall o, ~ ovlp c o -> intact (o_file st) o -> intact (o_file st1) o).
    { intros o Hno Hi. apply Wother; [exact Hi|]. intros d Hd.
      destruct (N.le_gt_cases (src o + sz o) d) as [H1|H1]; [left; exact H1|].
      destruct (N.le_gt_cases (d + sz c) (src o)) as [H2|H2]; [right; exact H2|].
      exfalso. apply Hno. exists d. split; [exact Hd|]. lia. }
    destruct HI. split; [constructor|].
    - exact R1.
    - exact R2.
    - rewrite R3. pose proof (wo_len (D c) (dests c) (o_file st)). lia.
    - (* white *)
      intros o HoL HnGo HnBo.
      assert (Hoc : o <> c) by (intros ->; apply HnBo; auto).
      apply Wintact.
      + intros Hov. destruct (Hcls o HoL Hoc Hov) as [Hb|(Hg & _)]; [apply HnBo; auto|auto].
      + apply i_white0; auto. intros [->|Hg]; auto.
    - (* gray *)
      intros g Hg. assert (Hgc : g <> c) by (intros ->; auto).
      destruct (i_grayL0 g (or_intror Hg)) as (HgL & HgnB).
      destruct (i_gray0 g (or_intror Hg)) as [Hi|Hv1].
      + destruct (ovlp_dec c g) as [Hov|Hno].
        * right. destruct (Hcls g HgL Hgc Hov) as [Hb|(_ & v2 & Hv2)]; [tauto|].
          rewrite R5 by exact Hgc. rewrite Hv2. f_equal. eapply i_mem0; eauto.
        * left. apply Wintact; auto.
      + right. rewrite R5 by exact Hgc. exact Hv1.
    - (* mem *)
      intros x w HnBx. assert (Hxc : x <> c) by (intros ->; apply HnBx; auto).
      rewrite R5 by exact Hxc. apply i_mem0. intros Hb. apply HnBx. auto.
    - (* black *)
      intros x [->|Hb] d Hd.
      + rewrite R3. apply wo_same; [exact Hd|].
        intros o1 o2 H1 H2 Hne. apply (dst_disj c o1 c o2 H1 H2). congruence.
      + apply Wother; [apply i_black0; assumption|].
        intros d' Hd'. apply (dst_disj x d c d' Hd Hd'). intros [= -> _]. contradiction.
    - (* grayL *)
      intros x Hg. destruct (i_grayL0 x (or_intror Hg)) as (HxL & HxnB). split; [exact HxL|].
      intros [->|Hb]; auto.
    - exact i_Lmoved0.
    - intros x [->|Hb]; auto.
    - (* frame *)
      intros k o Hh Hd. apply Wother.
      + apply i_frame0; [exact Hh|]. intros k' d Hb. apply Hd. right; exact Hb.
      + intros d Hdc'. destruct (Hd c d (or_introl eq_refl) Hdc'); [right|left]; assumption.
    - (* idx *)
      destruct i_idx0 as (bl & H1 & ->). exists (c :: bl). split.
      + intros x. cbn [In]. rewrite H1. split; intros [E|E]; auto.
      + apply ci_remove_filter. apply (proj1 Hwt).
    - (* trace 1 *)
      intros o d Hi. rewrite R4 in Hi. apply in_app_or in Hi. destruct Hi as [Hi|Hi].
      + destruct (i_tr3 o d Hi) as (k & Hb & R). exists k. split; [right; exact Hb|exact R].
      + apply in_map_iff in Hi. destruct Hi as (o' & [= <- <-] & Ho'). exists c. auto.
    - (* trace 2 *)
      rewrite R4, map_app, map_map. cbn [fst]. rewrite map_id.
      apply NoDup_app_intro; [exact i_tr4|apply dests_NoDup|].
      intros o Ho Hoc. apply in_map_iff in Ho. destruct Ho as ([o' d] & E & Ho). cbn [fst] in E. subst o'.
      destruct (i_tr3 o d Ho) as (k & Hb & Hok & _).
      assert (Hne : (k, o) <> (c, o)) by (intros [= ->]; contradiction).
      destruct (moved_facts k (i_Bmoved0 k Hb)) as (Hszk & _).
      destruct (dst_disj k o c o Hok Hoc Hne); lia.
    - intros g Hgc (w & Hw). exists w. rewrite R5 by exact Hgc. exact Hw.
  Qed.

  (* ---------- layouts of first source offsets ---------- *)
  Definition LK (lay : layout) : list N := map le_key lay.
  Definition mc (e : lentry) : mchunk := {| m_key := le_key e; m_size := le_size e; m_src := le_off e |}.
  Definition entry_ok (e : lentry) : Prop :=
    le_off e = src (le_key e) /\ le_size e = sz (le_key e) /\ moved (le_key e).
  Definition lay_good (lay : layout) : Prop := lay_sorted lay /\ forall e, In e lay -> entry_ok e.

  Lemma ov_spec lay k tl : lay_good lay -> ci_get tgt k = Some tl ->
    forall e,
      In e (flat_map (fun d => filter (fun e => negb (le_key e =? k)) (iter_overlapping lay d (l_size tl)))
                     (l_offs tl))
      <-> In e lay /\ le_key e <> k /\ ovlp k (le_key e).
  Proof.
    intros (Hs & Hok) E e. rewrite in_flat_map. unfold ovlp, dests. rewrite E. rewrite (tgt_size k tl E).
    split.
    - intros (d & Hd & Hf). apply filter_In in Hf. destruct Hf as (Hio & Hne).
      apply (iter_overlapping_spec lay d (sz k) e Hs) in Hio. destruct Hio as (Hl & H1 & H2).
      destruct (Hok e Hl) as (O1 & O2 & _). unfold lend in H2. rewrite O1, O2 in *.
      split; [exact Hl|split].
      + intros Heq. rewrite Heq, N.eqb_refl in Hne. discriminate.
      + exists d. auto.
    - intros (Hl & Hne & d & Hd & H1 & H2). exists d. split; [exact Hd|]. apply filter_In. split.
      + apply (iter_overlapping_spec lay d (sz k) e Hs). destruct (Hok e Hl) as (O1 & O2 & _).
        unfold lend. rewrite O1, O2. auto.
      + destruct (N.eqb_spec (le_key e) k); [contradiction|reflexivity].
  Qed.

  Lemma stores_canon lay es : lay_good lay -> (forall e, In e es -> In e lay) ->
    map (fun e => RStore (le_key e) (le_size e) (le_off e)) es = map sop (map le_key es).
  Proof.
    intros (_ & Hok) Hes. rewrite map_map. apply map_ext_in. intros e He.
    destruct (Hok e (Hes e He)) as (O1 & O2 & _). unfold sop. rewrite O1, O2. reflexivity.
  Qed.

  Lemma visit_unfold fu lay e vis ops tl :
    ci_get tgt (le_key e) = Some tl -> memk (le_key e) vis = false ->
    visit (S fu) tgt lay (mc e) (vis, ops) =
      let vis1 := le_key e :: vis in
      let ov := flat_map (fun d => filter (fun e' => negb (le_key e' =? le_key e))
                                          (iter_overlapping lay d (l_size tl))) (l_offs tl) in
      let '(vis2, ops2) :=
        fold_left (fun st e' => visit fu tgt lay (mc e') st)
                  (rev (filter (fun e' => negb (memk (le_key e') vis1)) ov))
                  (vis1, ops ++ map (fun e' => RStore (le_key e') (le_size e') (le_off e'))
                                    (filter (fun e' => memk (le_key e') vis1) ov)) in
      (vis2, ops2 ++ [RCopy (le_key e) (le_size e) (le_off e) (l_offs tl)]).
  Proof. intros E M. cbn [visit mc m_key m_size m_src]. rewrite M, E. reflexivity. Qed.

  (* ---------- fuel measure ---------- *)
  Definition cnt (L vis : list N) : nat := length (filter (fun x => negb (memk x vis)) L).

  Lemma cnt_incl L vis vis' : incl vis vis' -> (cnt L vis' <= cnt L vis)%nat.
  Proof.
    intros Hi. unfold cnt. induction L as [|x r IH]; cbn [filter]; [auto|].
    destruct (memk x vis) eqn:E1; destruct (memk x vis') eqn:E2; cbn [negb length]; try lia.
    apply memk_In in E1. apply Hi in E1. apply memk_In in E1. congruence.
  Qed.

  Lemma cnt_cons L vis c : In c L -> ~ In c vis -> (cnt L (c :: vis) < cnt L vis)%nat.
  Proof.
    intros HcL Hnv. unfold cnt. induction L as [|x r IH]; [destruct HcL|].
    cbn [filter memk].
    destruct HcL as [->|HcL].
    - rewrite N.eqb_refl. apply memk_nIn in Hnv. rewrite Hnv. cbn [negb length].
      pose proof (cnt_incl r vis (c :: vis) (fun y Hy => or_intror Hy)) as Hle. unfold cnt in Hle.
      cbn [memk] in Hle. lia.
    - specialize (IH HcL). cbn [memk] in IH.
      destruct (N.eqb_spec x c) as [->|Hne].
      + apply memk_nIn in Hnv. rewrite Hnv. cbn [negb length]. lia.
      + destruct (memk x vis); cbn [negb length]; lia.
  Qed.

  Lemma cnt_le L vis : (cnt L vis <= length L)%nat.
  Proof. unfold cnt. induction L as [|x r IH]; cbn [filter length]; [lia|]. destruct (negb _); cbn [length]; lia. Qed.

  (* ---------- the DFS lemma ---------- *)
  Section DFS.
  Variable P0 : N -> Prop.   (* chunks of finished trees *)

  Definition Bk (vis G : list N) (x : N) : Prop := P0 x \/ (In x vis /\ ~ In x G).
  Definition Gp (G : list N) (x : N) : Prop := In x G.

  Definition spec (L : list N) (G vis vis' : list N) (ops ops' : list rop) : Prop :=
    exists Dl, ops' = ops ++ Dl /\ incl vis vis' /\ (forall x, In x vis' -> In x L) /\
      forall st idx m mv st' idx' m' mv',
        Inv L st idx m (Gp G) (Bk vis G) -> erun Dl (st, idx, m, mv) = (st', idx', m', mv') ->
        Inv L st' idx' m' (Gp G) (Bk vis' G) /\
        (forall g, In g G -> buffered m g -> buffered m' g).

  Lemma spec_refl L G vis ops : (forall x, In x vis -> In x L) -> spec L G vis vis ops ops.
  Proof.
    intros Hv. exists []. rewrite app_nil_r. split; [auto|split; [apply incl_refl|split; [auto|]]].
    intros st idx m mv st' idx' m' mv' HI He. cbn in He. injection He as <- <- <- <-. auto.
  Qed.

  Lemma spec_trans L G v1 v2 v3 o1 o2 o3 :
    spec L G v1 v2 o1 o2 -> spec L G v2 v3 o2 o3 -> spec L G v1 v3 o1 o3.
  Proof.
    intros (D1 & -> & Hi1 & Hl1 & H1) (D2 & -> & Hi2 & Hl2 & H2).
    exists (D1 ++ D2). rewrite app_assoc. split; [auto|split; [eapply incl_tran; eauto|split; [auto|]]].
    intros st idx m mv st' idx' m' mv' HI He. rewrite erun_app in He.
    destruct (erun D1 (st, idx, m, mv)) as [[[st1 idx1] m1] mv1] eqn:E1.
    destruct (H1 _ _ _ _ _ _ _ _ HI E1) as (HI1 & Hp1).
    destruct (H2 _ _ _ _ _ _ _ _ HI1 He) as (HI2 & Hp2). split; auto.
  Qed.

  Section Fold.
    Variables (lay : layout) (G : list N) (fu : nat).
    Hypothesis IHv : forall e vis ops vis' ops',
      In e lay -> (forall g, In g G -> In g vis) -> (forall x, In x vis -> In x (LK lay)) ->
      (cnt (LK lay) vis < fu)%nat ->
      visit fu tgt lay (mc e) (vis, ops) = (vis', ops') ->
      spec (LK lay) G vis vis' ops ops' /\ In (le_key e) vis'.

    Lemma fold_ok : forall chs vis ops vis' ops',
      (forall x, In x chs -> In x lay) -> (forall g, In g G -> In g vis) ->
      (forall x, In x vis -> In x (LK lay)) ->
      (cnt (LK lay) vis < fu)%nat ->
      fold_left (fun st e => visit fu tgt lay (mc e) st) chs (vis, ops) = (vis', ops') ->
      spec (LK lay) G vis vis' ops ops' /\ (forall x, In x chs -> In (le_key x) vis').
    Proof.
      induction chs as [|ch r IH]; intros vis ops vis' ops' HchL HG HvL Hc He.
      - cbn in He. injection He as <- <-. split; [apply spec_refl; auto|intros x []].
      - cbn [fold_left] in He.
        destruct (visit fu tgt lay (mc ch) (vis, ops)) as [v1 o1] eqn:E1.
        destruct (IHv ch vis ops v1 o1 (HchL ch (or_introl eq_refl)) HG HvL Hc E1) as (S1 & Hin1).
        pose proof S1 as (D1 & _ & Hi1 & Hl1 & _).
        assert (Hc1 : (cnt (LK lay) v1 < fu)%nat) by (pose proof (cnt_incl (LK lay) vis v1 Hi1); lia).
        destruct (IH v1 o1 vis' ops' (fun x Hx => HchL x (or_intror Hx)) (fun g Hg => Hi1 g (HG g Hg)) Hl1 Hc1 He)
          as (S2 & Hin2).
        split; [eapply spec_trans; eauto|].
        pose proof S2 as (D2 & _ & Hi2 & _).
        intros x [<-|Hx]; [apply Hi2; exact Hin1|apply Hin2; exact Hx].
    Qed.
  End Fold.

  Lemma visit_ok : forall fuel lay, lay_good lay -> (forall x, P0 x -> ~ In x (LK lay)) ->
    forall e G vis ops vis' ops',
    In e lay -> (forall g, In g G -> In g vis) -> (forall x, In x vis -> In x (LK lay)) ->
    (cnt (LK lay) vis < fuel)%nat ->
    visit fuel tgt lay (mc e) (vis, ops) = (vis', ops') ->
    spec (LK lay) G vis vis' ops ops' /\ In (le_key e) vis'.
  Proof.
    induction fuel as [|fu IHf]; intros lay Hlg P0L e G vis ops vis' ops' Hel HG HvL Hcnt He; [lia|].
    set (L := LK lay) in *. set (c := le_key e) in *.
    assert (HcL : In c L) by (unfold L, LK, c; apply in_map; exact Hel).
    destruct (memk c vis) eqn:Emem.
    { cbn [visit mc m_key] in He. fold c in He. rewrite Emem in He.
      injection He as <- <-. split; [apply spec_refl; auto|apply memk_In; auto]. }
    destruct (proj2 Hlg e Hel) as (Oe1 & Oe2 & Hmc). fold c in Oe1, Oe2, Hmc.
    destruct (proj1 (ci_contains_get tgt c) (proj2 Hmc)) as (tl & Etl).
    rewrite (visit_unfold fu lay e vis ops tl Etl Emem) in He. cbv zeta in He. fold c in He.
    apply memk_nIn in Emem.
    set (vis1 := c :: vis) in *.
    set (ov := flat_map (fun d => filter (fun e' => negb (le_key e' =? c)) (iter_overlapping lay d (l_size tl)))
                        (l_offs tl)) in *.
    pose proof (ov_spec lay c tl Hlg Etl) as Hov. fold ov in Hov.
    set (stse := filter (fun e' => memk (le_key e') vis1) ov) in *.
    set (chs := filter (fun e' => negb (memk (le_key e') vis1)) ov) in *.
    assert (Hstse : forall x, In x stse -> In x lay).
    { intros x Hx. apply filter_In in Hx. apply Hov. tauto. }
    rewrite (stores_canon lay stse Hlg Hstse) in He.
    set (sts := map le_key stse) in *.
    assert (Ecop : RCopy c (le_size e) (le_off e) (l_offs tl) = cop c).
    { unfold cop, dests. rewrite Etl, Oe1, Oe2. reflexivity. }
    rewrite Ecop in He.
    destruct (fold_left (fun st e' => visit fu tgt lay (mc e') st) (rev chs) (vis1, ops ++ map sop sts))
      as [vis2 ops2] eqn:Ef.
    injection He as <- <-.
    assert (HG1 : forall g, In g (c :: G) -> In g vis1).
    { intros g [<-|Hg]; [left; auto|right; auto]. }
    assert (Hv1L : forall x, In x vis1 -> In x L).
    { intros x [<-|Hx]; auto. }
    assert (Hc1 : (cnt L vis1 < fu)%nat).
    { pose proof (cnt_cons L vis c HcL Emem). unfold vis1. lia. }
    assert (HchsL : forall x, In x (rev chs) -> In x lay).
    { intros x Hx. apply in_rev in Hx. apply filter_In in Hx. apply Hov. tauto. }
    destruct (fold_ok lay (c :: G) fu (fun e0 v0 o0 v0' o0' => IHf lay Hlg P0L e0 (c :: G) v0 o0 v0' o0')
               (rev chs) vis1 (ops ++ map sop sts) vis2 ops2 HchsL HG1 Hv1L Hc1 Ef)
      as ((D2 & -> & Hi2 & Hl2 & H2) & Hin2).
    assert (Hcv2 : In c vis2) by (apply Hi2; left; auto).
    split; [|exact Hcv2].
    exists (map sop sts ++ D2 ++ [cop c]).
    split; [rewrite <- !app_assoc; reflexivity|].
    split; [intros x Hx; apply Hi2; right; exact Hx|].
    split; [exact Hl2|].
    intros st idx m mv st' idx' m' mv' HI He.
    rewrite erun_app in He.
    destruct (erun (map sop sts) (st, idx, m, mv)) as [[[st1 idx1] m1] mv1] eqn:E1.
    rewrite erun_app in He.
    destruct (erun D2 (st1, idx1, m1, mv1)) as [[[st2 idx2] m2] mv2] eqn:E2.
    unfold erun in He. cbn [fold_left] in He.
    assert (HcnG : ~ In c G) by (intros Hg; apply Emem; apply HG; auto).
    assert (HcnP : ~ P0 c) by (intros Hp; apply (P0L c Hp HcL)).
    (* 1. c becomes gray *)
    assert (HI0 : Inv L st idx m (Gp (c :: G)) (Bk vis1 (c :: G))).
    { assert (Hbk : forall x, Bk vis1 (c :: G) x <-> Bk vis G x).
      { intros x. unfold Bk, vis1. cbn [In]. split.
        - intros [Hp|([<-|Hv] & Hn)]; [left; auto| |right; split; auto]. exfalso; apply Hn; auto.
        - intros [Hp|(Hv & Hn)]; [left; auto|right; split; [auto|]].
          intros [<-|Hg]; auto. }
      apply (Inv_ext L st idx m (Gp (c :: G)) (Gp (c :: G)) (Bk vis G) (Bk vis1 (c :: G)));
        [intros; reflexivity|intros x; symmetry; apply Hbk|].
      destruct HI. constructor; auto.
      - intros x HxL Hng Hnb. apply i_white0; auto. intros Hg. apply Hng. right. exact Hg.
      - intros x [<-|Hg]; [|apply i_gray0; auto]. left. apply i_white0; auto.
        intros [Hp|(Hv & _)]; auto.
      - intros x [<-|Hg].
        + split; auto. intros [Hp|(Hv & _)]; auto.
        + apply i_grayL0; exact Hg. }
    (* 2. stores *)
    assert (Hsts : forall o, In o sts -> Gp (c :: G) o \/ Bk vis1 (c :: G) o).
    { intros o Ho. unfold sts in Ho. apply in_map_iff in Ho. destruct Ho as (eo & <- & Ho).
      apply filter_In in Ho. destruct Ho as (_ & Hm). apply memk_In in Hm.
      destruct (memk (le_key eo) (c :: G)) eqn:Eg.
      - left. apply memk_In in Eg. exact Eg.
      - right. right. split; auto. apply memk_nIn in Eg. exact Eg. }
    destruct (exec_stores L _ _ sts _ _ _ _ _ _ _ _ Hsts HI0 E1) as (HI1 & Hp1 & Hb1).
    (* 3. children *)
    destruct (H2 _ _ _ _ _ _ _ _ HI1 E2) as (HI2 & Hp2).
    (* 4. copy *)
    assert (HI2' : Inv L st2 idx2 m2 (fun x => x = c \/ Gp G x) (Bk vis2 (c :: G))).
    { eapply Inv_ext; [| |exact HI2]; [|intros; reflexivity].
      intros x. unfold Gp. cbn [In]. split; intros [H|H]; auto. }
    assert (HnB : ~ Bk vis2 (c :: G) c).
    { intros [Hp|(_ & Hn)]; auto. apply Hn; left; auto. }
    assert (Hcls : forall o, In o L -> o <> c -> ovlp c o ->
              Bk vis2 (c :: G) o \/ (Gp G o /\ buffered m2 o)).
    { intros o HoL Hoc Hovl.
      unfold L, LK in HoL. apply in_map_iff in HoL. destruct HoL as (eo & <- & Heo).
      assert (Ho : In eo ov) by (apply Hov; auto).
      destruct (memk (le_key eo) vis1) eqn:Ev.
      - assert (Hos : In (le_key eo) sts).
        { unfold sts. apply in_map. apply filter_In; auto. }
        destruct (memk (le_key eo) G) eqn:Eg.
        + right. apply memk_In in Eg. split; [exact Eg|].
          apply Hp2; [right; exact Eg|]. apply Hb1; exact Hos.
        + left. right. apply memk_In in Ev. apply memk_nIn in Eg. split; [apply Hi2; exact Ev|].
          intros [E|Hg]; auto.
      - left. right. split.
        + apply Hin2. apply -> in_rev. apply filter_In. rewrite Ev. auto.
        + apply memk_nIn in Ev. intros Hg. apply Ev. apply HG1. exact Hg. }
    destruct (exec_copy L (Gp G) (Bk vis2 (c :: G)) c _ _ _ _ _ _ _ _ HcL HcnG HnB HI2' Hcls He) as (HI3 & Hp3).
    split.
    - eapply Inv_ext; [| |exact HI3]; [intros; reflexivity|].
      intros x. unfold Bk. cbn [In]. split.
      + intros [->|[Hp|(Hv & Hn)]]; [right; auto|left; auto|right; split; auto].
      + intros [Hp|(Hv & Hn)]; [right; left; auto|].
        destruct (N.eq_dec x c) as [->|Hne]; [left; auto|].
        right. right. split; auto. intros [E|Hg]; auto.
    - intros g Hg Hb. apply Hp3; [intros ->; auto|].
      apply Hp2; [right; auto|]. apply Hp1. exact Hb.
  Qed.
  End DFS.

  (* ---------- structure of source_layout / chunks_to_move / remove_tree ---------- *)
  Definition ent (k : N) (l : loc) : lentry := {| le_off := first_off l; le_size := l_size l; le_key := k |}.

  Lemma ent_ok k l : ci_get cur k = Some l -> ci_contains tgt k = true -> entry_ok (ent k l).
  Proof.
    intros E Ht. destruct (cur_entry k l E) as (H1 & _). unfold entry_ok, ent. cbn [le_off le_size le_key].
    unfold src. rewrite E. split; [reflexivity|split; [exact H1|]].
    split; [apply ci_contains_get; eauto|exact Ht].
  Qed.

  Lemma entries_disjoint e1 e2 : entry_ok e1 -> entry_ok e2 -> le_key e1 <> le_key e2 ->
    lend e1 <= le_off e2 \/ lend e2 <= le_off e1.
  Proof.
    intros (A1 & A2 & A3) (B1 & B2 & B3) Hne. unfold lend. rewrite A1, A2, B1, B2.
    destruct (moved_facts _ A3) as (_ & _ & O1). destruct (moved_facts _ B3) as (_ & _ & O2).
    apply (Hdc _ _ _ _ O1 O2). intros [= E _]. contradiction.
  Qed.

  Definition sl_step (acc : layout) (e : N * loc) : layout :=
    let '(k, l) := e in
    if ci_contains tgt k then layout_insert {| le_off := first_off l; le_size := l_size l; le_key := k |} acc
    else acc.

  Lemma sl_fold : forall rest acc,
    NoDup (keys rest) -> (forall k l, In (k, l) rest -> In (k, l) cur) ->
    lay_good acc -> (forall e, In e acc -> ~ In (le_key e) (keys rest)) ->
    lay_good (fold_left sl_step rest acc) /\
    (forall e, In e (fold_left sl_step rest acc) <->
       In e acc \/ exists k l, In (k, l) rest /\ ci_contains tgt k = true /\ e = ent k l).
  Proof.
    induction rest as [|[k l] r IH]; intros acc Hnd Hsub Hg Hfresh.
    - cbn [fold_left]. split; [exact Hg|]. intros e. split; [auto|]. intros [H|(k & l & [] & _)]. exact H.
    - cbn [keys] in Hnd. inversion Hnd as [|? ? Hni Hnd']; subst.
      cbn [fold_left]. unfold sl_step at 2. unfold sl_step at 3.
      assert (Ecur : ci_get cur k = Some l).
      { apply In_ci_get; [apply (proj1 Hwc)|apply Hsub; left; reflexivity]. }
      destruct (ci_contains tgt k) eqn:Et.
      + fold (ent k l).
        pose proof (ent_ok k l Ecur Et) as Hek.
        destruct (cur_entry k l Ecur) as (Hs1 & Hs2 & _).
        destruct (layout_insert_spec (ent k l) acc (proj1 Hg)) as (I1 & I2).
        { cbn [ent le_size]. rewrite Hs1. exact Hs2. }
        { intros x Hx. apply entries_disjoint; [exact Hek|apply (proj2 Hg); exact Hx|].
          cbn [ent le_key]. intros Heq. apply (Hfresh x Hx). left. auto. }
        destruct (IH (layout_insert (ent k l) acc) Hnd' (fun k' l' H => Hsub k' l' (or_intror H))) as (J1 & J2).
        { split; [exact I1|]. intros e He. apply I2 in He. destruct He as [->|He]; [exact Hek|apply (proj2 Hg); exact He]. }
        { intros e He. apply I2 in He. destruct He as [->|He]; [exact Hni|].
          intros Hk. apply (Hfresh e He). right. exact Hk. }
        split; [exact J1|]. intros e. rewrite J2, I2. split.
        * intros [[->|H]|(k' & l' & H1 & H2)]; [right; exists k, l; cbn; auto|left; exact H|].
          right. exists k', l'. cbn [In]. tauto.
        * intros [H|(k' & l' & [[= <- <-]|H1] & H2 & ->)]; [left; right; exact H|left; left; reflexivity|].
          right. exists k', l'. auto.
      + destruct (IH acc Hnd' (fun k' l' H => Hsub k' l' (or_intror H)) Hg) as (J1 & J2).
        { intros e He Hk. apply (Hfresh e He). right. exact Hk. }
        split; [exact J1|]. intros e. rewrite J2. split.
        * intros [H|(k' & l' & H1 & H2)]; [left; exact H|right; exists k', l'; cbn [In]; tauto].
        * intros [H|(k' & l' & [[= <- <-]|H1] & H2 & ->)]; [left; exact H|congruence|].
          right. exists k', l'. auto.
  Qed.

  Lemma source_layout_spec :
    lay_good (source_layout cur tgt) /\
    (forall e, In e (source_layout cur tgt) <->
       exists k l, In (k, l) cur /\ ci_contains tgt k = true /\ e = ent k l).
  Proof.
    destruct (sl_fold cur [] (proj1 Hwc) (fun k l H => H)) as (H1 & H2).
    { split; [exact I|intros e []]. }
    { intros e []. }
    split; [exact H1|]. intros e. rewrite (H2 e). cbn [In]. tauto.
  Qed.

  Lemma insert_by_src_In c : forall l y, In y (insert_by_src c l) <-> y = c \/ In y l.
  Proof.
    induction l as [|x r IH]; intros y; cbn [insert_by_src In]; [split; intros [H|H]; auto|].
    destruct (m_src c <? m_src x); cbn [In]; [split; intros [H|H]; auto|].
    rewrite IH. tauto.
  Qed.

  Lemma insert_by_src_length c : forall l, length (insert_by_src c l) = S (length l).
  Proof.
    induction l as [|x r IH]; cbn [insert_by_src length]; [reflexivity|].
    destruct (m_src c <? m_src x); cbn [length]; [reflexivity|]. rewrite IH. reflexivity.
  Qed.

  Definition cm_step (acc : list mchunk) (e : N * loc) : list mchunk :=
    let '(k, l) := e in
    if ci_contains tgt k then insert_by_src {| m_key := k; m_size := l_size l; m_src := first_off l |} acc
    else acc.

  Lemma cm_fold : forall rest acc c,
    In c (fold_left cm_step rest acc) <->
      In c acc \/ exists k l, In (k, l) rest /\ ci_contains tgt k = true /\ c = mc (ent k l).
  Proof.
    induction rest as [|[k l] r IH]; intros acc c; cbn [fold_left].
    - split; [auto|]. intros [H|(k & l & [] & _)]. exact H.
    - rewrite IH. unfold cm_step. destruct (ci_contains tgt k) eqn:Et.
      + rewrite insert_by_src_In. split.
        * intros [[->|H]|(k' & l' & H1 & H2)]; [right; exists k, l; cbn; auto|left; exact H|].
          right. exists k', l'. cbn [In]. tauto.
        * intros [H|(k' & l' & [[= <- <-]|H1] & H2 & ->)]; [left; right; exact H|left; left; reflexivity|].
          right. exists k', l'. auto.
      + split.
        * intros [H|(k' & l' & H1 & H2)]; [left; exact H|right; exists k', l'; cbn [In]; tauto].
        * intros [H|(k' & l' & [[= <- <-]|H1] & H2 & ->)]; [left; exact H|congruence|].
          right. exists k', l'. auto.
  Qed.

  Lemma fold_lengths : forall rest a1 a2, (length a1 <= length a2)%nat ->
    (length (fold_left sl_step rest a1) <= length (fold_left cm_step rest a2))%nat.
  Proof.
    induction rest as [|[k l] r IH]; intros a1 a2 Hle; cbn [fold_left]; [exact Hle|].
    apply IH. unfold sl_step, cm_step. destruct (ci_contains tgt k); [|exact Hle].
    rewrite insert_by_src_length.
    match goal with |- (length (layout_insert ?e ?a) <= _)%nat => pose proof (layout_insert_length e a) end. lia.
  Qed.

  Lemma rk_fold s : forall offs lay, lay_sorted lay ->
    lay_sorted (fold_left (fun lay o => layout_remove o s lay) offs lay) /\
    (forall e, In e (fold_left (fun lay o => layout_remove o s lay) offs lay) <->
               In e lay /\ ~ (In (le_off e) offs /\ le_size e = s)) /\
    (length (fold_left (fun lay o => layout_remove o s lay) offs lay) <= length lay)%nat.
  Proof.
    induction offs as [|o r IH]; intros lay Hs; cbn [fold_left].
    - split; [exact Hs|split; [|lia]]. intros e. cbn [In]. tauto.
    - destruct (layout_remove_spec o s lay Hs) as (R1 & R2).
      destruct (IH (layout_remove o s lay) R1) as (J1 & J2 & J3).
      split; [exact J1|split].
      + intros e. rewrite J2, R2. cbn [In]. split.
        * intros ((H1 & H2) & H3). split; [exact H1|]. intros ([E|H4] & H5); [apply H2; auto|apply H3; auto].
        * intros (H1 & H2). split; [split; [exact H1|]|]; intros (H3 & H4); apply H2; auto.
      + pose proof (layout_remove_length o s lay). lia.
  Qed.

  Lemma remove_key_spec lay k l : lay_good lay -> ci_get cur k = Some l ->
    lay_good (fold_left (fun lay o => layout_remove o (l_size l) lay) (l_offs l) lay) /\
    (forall e, In e (fold_left (fun lay o => layout_remove o (l_size l) lay) (l_offs l) lay) <->
               In e lay /\ le_key e <> k) /\
    (length (fold_left (fun lay o => layout_remove o (l_size l) lay) (l_offs l) lay) <= length lay)%nat.
  Proof.
    intros (Hs & Hok) E. destruct (rk_fold (l_size l) (l_offs l) lay Hs) as (J1 & J2 & J3).
    destruct (cur_entry k l E) as (C1 & C2 & C3 & _).
    assert (Hiff : forall e, In e lay -> ((In (le_off e) (l_offs l) /\ le_size e = l_size l) <-> le_key e = k)).
    { intros e He. destruct (Hok e He) as (O1 & O2 & O3). split.
      - intros (Ho & _). destruct (N.eq_dec (le_key e) k) as [Heq|Hne]; [exact Heq|exfalso].
        destruct (moved_facts _ O3) as (Z1 & _ & Z2).
        assert (Ho2 : occ cur k (le_off e)) by (exists l; auto).
        rewrite O1 in Ho2.
        assert (Hp : (le_key e, src (le_key e)) <> (k, src (le_key e))) by (intros [= F]; contradiction).
        destruct (Hdc _ _ _ _ Z2 Ho2 Hp); unfold sz in *; lia.
      - intros Heq. rewrite O1, O2, Heq. unfold src. rewrite E. split; [|symmetry; exact C1].
        destruct C3 as (l' & E' & Hi). congruence. }
    split; [split; [exact J1|intros e He; apply J2 in He; apply Hok; tauto]|split; [|exact J3]].
    intros e. rewrite J2. split.
    - intros (H1 & H2). split; [exact H1|]. intros Heq. apply H2. apply Hiff; assumption.
    - intros (H1 & H2). split; [exact H1|]. intros H3. apply H2. apply Hiff; assumption.
  Qed.

  Lemma remove_tree_spec : forall tree lay, lay_good lay ->
    (forall k, In k tree -> ci_contains cur k = true) ->
    lay_good (remove_tree cur lay tree) /\
    (forall e, In e (remove_tree cur lay tree) <-> In e lay /\ ~ In (le_key e) tree) /\
    (length (remove_tree cur lay tree) <= length lay)%nat.
  Proof.
    unfold remove_tree.
    induction tree as [|k r IH]; intros lay Hg Hc; cbn [fold_left].
    - split; [exact Hg|split; [|lia]]. intros e. cbn [In]. tauto.
    - destruct (proj1 (ci_contains_get cur k) (Hc k (or_introl eq_refl))) as (l & E). rewrite E.
      destruct (remove_key_spec lay k l Hg E) as (R1 & R2 & R3).
      destruct (IH _ R1 (fun k' H => Hc k' (or_intror H))) as (J1 & J2 & J3).
      split; [exact J1|split; [|lia]].
      intros e. rewrite J2, R2. cbn [In]. split.
      + intros ((H1 & H2) & H3). split; [exact H1|]. intros [F|F]; [apply H2; auto|apply H3; exact F].
      + intros (H1 & H2). split; [split; [exact H1|]|]; intros F; apply H2; auto.
  Qed.

  (* ---------- the loop over DFS trees ---------- *)
  Lemma trees_ok fuel : forall todo lay processed ops,
    lay_good lay -> (length lay < fuel)%nat ->
    (forall e, In e lay -> ~ In (le_key e) processed) ->
    (forall c, In c todo -> exists e, c = mc e /\ (In (le_key e) processed \/ In e lay)) ->
    exists Dl P', trees fuel cur tgt lay todo processed ops = ops ++ Dl /\
      incl processed P' /\ (forall c, In c todo -> In (m_key c) P') /\
      forall st idx m mv st' idx' m' mv',
        Inv (LK lay) st idx m (fun _ => False) (fun x => In x processed) ->
        erun Dl (st, idx, m, mv) = (st', idx', m', mv') ->
        Inv [] st' idx' m' (fun _ => False) (fun x => In x P').
  Proof.
    induction todo as [|c r IH]; intros lay processed ops Hg Hfu Hdisj Htodo.
    - exists [], processed. cbn [trees]. rewrite app_nil_r.
      split; [reflexivity|split; [apply incl_refl|split; [intros c []|]]].
      intros st idx m mv st' idx' m' mv' HI He. cbn in He. injection He as <- <- <- <-.
      eapply Inv_weaken; [|exact HI]. intros x [].
    - destruct (Htodo c (or_introl eq_refl)) as (e & -> & He).
      cbn [trees mc m_key]. fold (mc e).
      destruct (memk (le_key e) processed) eqn:Em.
      + destruct (IH lay processed ops Hg Hfu Hdisj (fun c' H => Htodo c' (or_intror H)))
          as (Dl & P' & E & Hi & Hall & Hex).
        exists Dl, P'. split; [exact E|split; [exact Hi|split; [|exact Hex]]].
        intros c' [<-|Hc']; [|apply Hall; exact Hc']. cbn [mc m_key]. apply Hi. apply memk_In. exact Em.
      + apply memk_nIn in Em. destruct He as [He|He]; [contradiction|].
        destruct (visit fuel tgt lay (mc e) ([], ops)) as [tree ops'] eqn:Ev.
        assert (P0L : forall x, In x processed -> ~ In x (LK lay)).
        { intros x Hx Hl. unfold LK in Hl. apply in_map_iff in Hl. destruct Hl as (ex & <- & Hex).
          apply (Hdisj ex Hex Hx). }
        assert (Hcnt : (cnt (LK lay) [] < fuel)%nat).
        { pose proof (cnt_le (LK lay) []). unfold LK in *. rewrite map_length in *. lia. }
        destruct (visit_ok (fun x => In x processed) fuel lay Hg P0L e [] [] ops tree ops' He
                    (fun g H => H) (fun x (H : In x []) => match H with end) Hcnt Ev)
          as ((D1 & -> & _ & HtL & Hex1) & Hetree).
        assert (Htc : forall k, In k tree -> ci_contains cur k = true).
        { intros k Hk. apply HtL in Hk. unfold LK in Hk. apply in_map_iff in Hk.
          destruct Hk as (ek & <- & Hek). destruct (proj2 Hg ek Hek) as (_ & _ & (Hc & _)). exact Hc. }
        destruct (remove_tree_spec tree lay Hg Htc) as (R1 & R2 & R3).
        set (lay' := remove_tree cur lay tree) in *.
        destruct (IH lay' (tree ++ processed) (ops ++ D1) R1 ltac:(lia)) as (D2 & P' & E & Hi & Hall & Hex2).
        { intros x Hx Hxp. apply R2 in Hx. destruct Hx as (Hx1 & Hx2).
          apply in_app_or in Hxp. destruct Hxp as [Hxp|Hxp]; [contradiction|apply (Hdisj x Hx1 Hxp)]. }
        { intros c' Hc'. destruct (Htodo c' (or_intror Hc')) as (e' & -> & He').
          exists e'. split; [reflexivity|].
          destruct He' as [He'|He']; [left; apply in_or_app; right; exact He'|].
          destruct (in_dec N.eq_dec (le_key e') tree) as [Ht|Ht]; [left; apply in_or_app; left; exact Ht|].
          right. apply R2. auto. }
        exists (D1 ++ D2), P'. split; [rewrite E, app_assoc; reflexivity|].
        split; [intros x Hx; apply Hi; apply in_or_app; right; exact Hx|].
        split.
        { intros c' [<-|Hc']; [|apply Hall; exact Hc']. cbn [mc m_key]. apply Hi. apply in_or_app. left. exact Hetree. }
        intros st idx m mv st' idx' m' mv' HI Hrun. rewrite erun_app in Hrun.
        destruct (erun D1 (st, idx, m, mv)) as [[[st1 idx1] m1] mv1] eqn:E1.
        assert (HI0 : Inv (LK lay) st idx m (Gp []) (Bk (fun x => In x processed) [] [])).
        { eapply Inv_ext; [| |exact HI]; [intros x; unfold Gp; cbn [In]; tauto|].
          intros x. unfold Bk. cbn [In]. tauto. }
        destruct (Hex1 _ _ _ _ _ _ _ _ HI0 E1) as (HI1 & _).
        apply (Hex2 _ _ _ _ _ _ _ _) in Hrun; [exact Hrun|].
        apply (Inv_weaken (LK lay)).
        { intros x Hx. unfold LK in *. apply in_map_iff in Hx. destruct Hx as (ex & <- & Hex).
          apply in_map. apply R2 in Hex. tauto. }
        eapply Inv_ext; [| |exact HI1]; [intros x; unfold Gp; cbn [In]; tauto|].
        intros x. unfold Bk. cbn [In]. rewrite in_app_iff. tauto.
  Qed.

  Lemma filter_nil_memk (t : index) : filter (fun e => negb (memk (fst e) [])) t = t.
  Proof.
    assert (H : forall (p : N * loc -> bool), (forall x, p x = true) -> filter p t = t).
    { intros p Hp. induction t as [|x r IH]; cbn [filter]; [reflexivity|]. rewrite Hp, IH. reflexivity. }
    apply H. intros x. reflexivity.
  Qed.

  Lemma In_contains (idx : index) k l : In (k, l) idx -> ci_contains idx k = true.
  Proof.
    induction idx as [|[k' l'] r IH]; intros Hi; [destruct Hi|].
    unfold ci_contains. cbn [ci_get]. destruct (N.eqb_spec k k'); [reflexivity|].
    destruct Hi as [[= -> _]|Hi]; [contradiction|]. apply IH. exact Hi.
  Qed.

  Lemma reorder_exec_fixed : forall st' idx' mvd,
    exec_ops (reorder_ops cur tgt) (o_init f0 None) tgt [] 0 = (st', idx', mvd) ->
      o_err st' = None
      /\ (forall k o, occ tgt k o -> ci_contains cur k = true -> holds D (o_file st') o k)
      /\ (forall k o, holds D f0 o k ->
            (forall k' o', occ tgt k' o' -> ci_contains cur k' = true ->
                 o' + lenN (D k') <= o \/ o + lenN (D k) <= o') ->
            holds D (o_file st') o k)
      /\ idx' = filter (fun e => negb (ci_contains cur (fst e))) tgt
      /\ (forall o d, In (o, d) (writes_of 0 (o_trace st')) ->
            exists k, occ tgt k o /\ ci_contains cur k = true /\ d = D k)
      /\ NoDup (map fst (writes_of 0 (o_trace st')))
      /\ lenN f0 <= lenN (o_file st').
  Proof.
    intros st' idx' mvd Hexec.
    destruct source_layout_spec as (Hlg & Hlay).
    set (lay0 := source_layout cur tgt) in *.
    set (todo := chunks_to_move cur tgt) in *.
    assert (Htodo : forall c, In c todo <-> exists k l, In (k, l) cur /\ ci_contains tgt k = true /\ c = mc (ent k l)).
    { intros c. unfold todo, chunks_to_move. fold cm_step. rewrite cm_fold. cbn [In]. tauto. }
    assert (Hlen : (length lay0 <= length todo)%nat).
    { unfold lay0, todo, source_layout, chunks_to_move. fold sl_step. fold cm_step.
      apply fold_lengths. cbn. lia. }
    destruct (trees_ok (S (length todo)) todo lay0 [] [] Hlg ltac:(lia)) as (Dl & P' & E & _ & Hall & Hex).
    { intros e _ []. }
    { intros c Hc. apply Htodo in Hc. destruct Hc as (k & l & H1 & H2 & ->).
      exists (ent k l). split; [reflexivity|]. right. apply Hlay. exists k, l. auto. }
    unfold reorder_ops in Hexec. fold todo lay0 in Hexec. rewrite E in Hexec. cbn [app] in Hexec.
    rewrite exec_ops_erun in Hexec.
    match type of Hexec with context [erun Dl ?s] =>
      destruct (erun Dl s) as [[[st1 idx1] m1] mv1] eqn:Erun end.
    injection Hexec as <- <- <-.
    assert (HI0 : Inv (LK lay0) (o_init f0 None) tgt [] (fun _ => False) (fun x => In x [])).
    { constructor; cbn [o_init o_err o_fault o_file o_trace writes_of map In store_get]; auto; try tauto; try discriminate.
      - lia.
      - intros c Hc _ _. unfold LK in Hc. apply in_map_iff in Hc. destruct Hc as (e & <- & He).
        destruct (proj2 Hlg e He) as (_ & _ & Hm). apply moved_facts in Hm. unfold intact. tauto.
      - intros c Hc. unfold LK in Hc. apply in_map_iff in Hc. destruct Hc as (e & <- & He).
        apply (proj2 Hlg e He).
      - exists []. split; [tauto|]. symmetry. apply filter_nil_memk.
      - constructor. }
    pose proof (Hex _ _ _ _ _ _ _ _ HI0 Erun) as HI.
    assert (HP : forall k, In k P' <-> moved k).
    { intros k. split; [apply (i_Bmoved _ _ _ _ _ _ HI)|].
      intros (Hc & Ht). apply ci_contains_get in Hc. destruct Hc as (l & Ec).
      apply (Hall (mc (ent k l))). apply Htodo. exists k, l. split; [apply ci_get_In; exact Ec|auto]. }
    assert (Hocc : forall k o, occ tgt k o -> ci_contains tgt k = true).
    { intros k o (l & El & _). apply ci_contains_get. eauto. }
    split; [apply (i_err _ _ _ _ _ _ HI)|].
    split.
    { intros k o Ho Hc. apply (i_black _ _ _ _ _ _ HI k); [apply HP; split; [exact Hc|eapply Hocc; exact Ho]|].
      apply dests_occ. exact Ho. }
    split.
    { intros k o Hh Hd. apply (i_frame _ _ _ _ _ _ HI); [exact Hh|].
      intros k' d Hb Hd'. apply HP in Hb. apply dests_occ in Hd'. apply (Hd k' d Hd'). apply Hb. }
    split.
    { destruct (i_idx _ _ _ _ _ _ HI) as (bl & Hbl & ->).
      apply filter_ext_in. intros [k l] Hkl. cbn [fst]. f_equal.
      destruct (memk k bl) eqn:E1; destruct (ci_contains cur k) eqn:E2; try reflexivity; exfalso.
      - apply memk_In in E1. apply Hbl, HP in E1. destruct E1 as (E1 & _). congruence.
      - apply memk_nIn in E1. apply E1. apply Hbl, HP. split; [exact E2|]. eapply In_contains; exact Hkl. }
    split.
    { intros o d Hi. destruct (i_tr1 _ _ _ _ _ _ HI o d Hi) as (k & Hb & Hd & ->).
      exists k. apply HP in Hb. split; [apply dests_occ; exact Hd|split; [apply Hb|reflexivity]]. }
    split; [apply (i_tr2 _ _ _ _ _ _ HI)|apply (i_len _ _ _ _ _ _ HI)].
  Qed.
End Fixed.

  Lemma reorder_exec_correct : forall (cur tgt : index) (f : list N),
    idx_wf D cur -> idx_wf D tgt ->
    idx_in_file D cur f -> disjoint_occs D cur -> disjoint_occs D tgt ->
    forall st' idx' moved,
    exec_ops (reorder_ops cur tgt) (o_init f None) tgt [] 0 = (st', idx', moved) ->
      o_err st' = None
      /\ (forall k o, occ tgt k o -> ci_contains cur k = true -> holds D (o_file st') o k)
      /\ (forall k o, holds D f o k ->
            (forall k' o', occ tgt k' o' -> ci_contains cur k' = true ->
                 o' + lenN (D k') <= o \/ o + lenN (D k) <= o') ->
            holds D (o_file st') o k)
      /\ idx' = filter (fun e => negb (ci_contains cur (fst e))) tgt
      /\ (forall o d, In (o, d) (writes_of 0 (o_trace st')) ->
            exists k, occ tgt k o /\ ci_contains cur k = true /\ d = D k)
      /\ NoDup (map fst (writes_of 0 (o_trace st')))
      /\ lenN f <= lenN (o_file st').
  Proof.
    intros cur tgt f Hwc Hwt Hin Hdc Hdt st' idx' mvd He.
    exact (reorder_exec_fixed cur tgt f Hwc Hwt Hin Hdc Hdt st' idx' mvd He).
  Qed.
End PlannerCorrect.

Print Assumptions reorder_exec_correct.
