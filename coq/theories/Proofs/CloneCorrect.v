(* Correctness of the clone model (C02, C03, C05(ii), C06, C13) relative to the in-place planner lemma. *)
From Bita Require Import Model.Base Model.ChunkIndex Model.CloneOutput Model.CloneSpec.
From Coq Require Import Lia List.

(* ---------- 1. bridges between the N-indexed helpers and the nat-indexed standard library ---------- *)

Lemma takeN_firstn {A} : forall (l : list A) n, takeN n l = firstn (N.to_nat n) l.
Proof.
  induction l as [|x l IH]; intros n; cbn [takeN].
  - now rewrite firstn_nil.
  - destruct (N.eqb_spec n 0) as [->|Hn]; [reflexivity|].
    replace (N.to_nat n) with (S (N.to_nat (N.pred n))) by lia.
    cbn [firstn]. f_equal. apply IH.
Qed.

Lemma dropN_skipn {A} : forall (l : list A) n, dropN n l = skipn (N.to_nat n) l.
Proof.
  induction l as [|x l IH]; intros n; cbn [dropN].
  - now rewrite skipn_nil.
  - destruct (N.eqb_spec n 0) as [->|Hn]; [reflexivity|].
    replace (N.to_nat n) with (S (N.to_nat (N.pred n))) by lia.
    cbn [skipn]. apply IH.
Qed.

Lemma lenN_length {A} : forall (l : list A), lenN l = N.of_nat (length l).
Proof.
  induction l as [|x l IH]; cbn [lenN length]; [reflexivity|]. rewrite IH. lia.
Qed.

Lemma nth_error_firstn_lt {A} : forall n (l : list A) i, (i < n)%nat -> nth_error (firstn n l) i = nth_error l i.
Proof.
  induction n as [|n IH]; intros l i Hi; [lia|].
  destruct l as [|x l]; [reflexivity|].
  destruct i as [|i]; [reflexivity|]. cbn. apply IH. lia.
Qed.

Lemma nth_error_skipn_add {A} : forall n (l : list A) i, nth_error (skipn n l) i = nth_error l (n + i).
Proof.
  induction n as [|n IH]; intros l i; [reflexivity|].
  destruct l as [|x l]; [now destruct i|]. cbn. apply IH.
Qed.

Lemma nth_error_ext_len {A} : forall (l1 l2 : list A), length l1 = length l2 ->
  (forall i, (i < length l1)%nat -> nth_error l1 i = nth_error l2 i) -> l1 = l2.
Proof.
  induction l1 as [|x l1 IH]; intros [|y l2] Hlen Hnth; cbn in Hlen; try discriminate; [reflexivity|].
  f_equal.
  - specialize (Hnth O). cbn in Hnth. assert (Some x = Some y) as E by (apply Hnth; lia). now inversion E.
  - apply IH; [lia|]. intros i Hi. apply (Hnth (S i)). cbn. lia.
Qed.

(* pointwise description of file_write *)
Definition fw (f : list N) (o : nat) (d : list N) : list N :=
  firstn o f ++ repeat 0 (o - length (firstn o f)) ++ d ++ skipn (o + length d) f.

Lemma file_write_fw : forall f o d, file_write f o d = fw f (N.to_nat o) d.
Proof.
  intros f o d. unfold file_write, fw.
  rewrite takeN_firstn, dropN_skipn, !lenN_length.
  replace (N.to_nat (o - N.of_nat (length (firstn (N.to_nat o) f))))
    with (N.to_nat o - length (firstn (N.to_nat o) f))%nat by lia.
  replace (N.to_nat (o + N.of_nat (length d))) with (N.to_nat o + length d)%nat by lia.
  reflexivity.
Qed.

Lemma fw_pre_length : forall f o, length (firstn o f ++ repeat 0 (o - length (firstn o f))) = o.
Proof. intros f o. rewrite app_length, repeat_length, firstn_length. lia. Qed.

Lemma fw_length : forall f o d, length (fw f o d) = Nat.max (length f) (o + length d).
Proof.
  intros f o d. unfold fw. rewrite app_assoc, app_length, fw_pre_length, app_length, skipn_length. lia.
Qed.

Lemma fw_nth_before : forall f o d p, (p < o)%nat -> (p < length f)%nat -> nth_error (fw f o d) p = nth_error f p.
Proof.
  intros f o d p Hpo Hpf. unfold fw.
  rewrite nth_error_app1 by (rewrite firstn_length; lia).
  apply nth_error_firstn_lt; exact Hpo.
Qed.

Lemma fw_nth_in : forall f o d p, (o <= p)%nat -> (p < o + length d)%nat ->
  nth_error (fw f o d) p = nth_error d (p - o).
Proof.
  intros f o d p H1 H2. unfold fw. rewrite app_assoc.
  rewrite nth_error_app2 by (rewrite fw_pre_length; lia). rewrite fw_pre_length.
  apply nth_error_app1. lia.
Qed.

Lemma fw_nth_after : forall f o d p, (o + length d <= p)%nat -> nth_error (fw f o d) p = nth_error f p.
Proof.
  intros f o d p H. unfold fw. rewrite app_assoc.
  rewrite nth_error_app2 by (rewrite fw_pre_length; lia). rewrite fw_pre_length.
  rewrite nth_error_app2 by lia. rewrite nth_error_skipn_add. f_equal. lia.
Qed.

(* ---------- 2. generic list / index facts (independent of chunk contents) ---------- *)

Lemma NoDup_app_intro {A} : forall (l1 l2 : list A),
  NoDup l1 -> NoDup l2 -> (forall x, In x l1 -> In x l2 -> False) -> NoDup (l1 ++ l2).
Proof.
  induction l1 as [|a l1 IH]; intros l2 H1 H2 Hd; [exact H2|].
  inversion H1 as [|? ? Hna Hnd]; subst. cbn. constructor.
  - intros Hin. apply in_app_or in Hin. destruct Hin as [Hin|Hin]; [now apply Hna|].
    apply (Hd a); [now left|exact Hin].
  - apply IH; [exact Hnd|exact H2|]. intros x Hx1 Hx2. apply (Hd x); [now right|exact Hx2].
Qed.

Lemma memk_In : forall x l, memk x l = true <-> In x l.
Proof.
  intros x l. induction l as [|y l IH]; cbn [memk In].
  - split; [discriminate|tauto].
  - destruct (N.eqb_spec x y) as [->|Hne].
    + split; [now left|reflexivity].
    + rewrite IH. split; [now right|]. intros [E|H]; [congruence|exact H].
Qed.

Lemma memk_false : forall x l, memk x l = false <-> ~ In x l.
Proof.
  intros x l. rewrite <- memk_In. destruct (memk x l); split; congruence.
Qed.

Lemma ci_get_In : forall idx k l, ci_get idx k = Some l -> In (k, l) idx.
Proof.
  induction idx as [|[k' l'] r IH]; intros k l H; cbn [ci_get] in H; [discriminate|].
  destruct (N.eqb_spec k k') as [->|Hne].
  - inversion H; subst. now left.
  - right. now apply IH.
Qed.

Lemma In_keys : forall idx k l, In (k, l) idx -> In k (keys idx).
Proof.
  induction idx as [|[k' l'] r IH]; intros k l H; cbn [keys]; [destruct H|].
  destruct H as [E|H]; [inversion E; now left|right; eapply IH; exact H].
Qed.

Lemma ci_get_None : forall idx k, ci_get idx k = None <-> ~ In k (keys idx).
Proof.
  induction idx as [|[k' l'] r IH]; intros k; cbn [ci_get keys In]; [tauto|].
  destruct (N.eqb_spec k k') as [->|Hne].
  - split; [discriminate|]. intros H. exfalso. apply H. now left.
  - rewrite IH. split; [intros H [E|H']; [congruence|tauto]|tauto].
Qed.

Lemma ci_get_Some_keys : forall idx k l, ci_get idx k = Some l -> In k (keys idx).
Proof. intros idx k l H. eapply In_keys. apply ci_get_In. exact H. Qed.

Lemma keys_ci_get : forall idx k, In k (keys idx) -> exists l, ci_get idx k = Some l.
Proof.
  intros idx k H. destruct (ci_get idx k) as [l|] eqn:E; [now exists l|].
  apply ci_get_None in E. tauto.
Qed.

Lemma ci_contains_keys : forall idx k, ci_contains idx k = true <-> In k (keys idx).
Proof.
  intros idx k. unfold ci_contains. split.
  - destruct (ci_get idx k) eqn:E; [intros _; eapply ci_get_Some_keys; exact E|discriminate].
  - intros H. apply keys_ci_get in H. destruct H as [l ->]. reflexivity.
Qed.

Lemma In_ci_get : forall idx k l, NoDup (keys idx) -> In (k, l) idx -> ci_get idx k = Some l.
Proof.
  induction idx as [|[k' l'] r IH]; intros k l Hnd H; [destruct H|].
  cbn [keys] in Hnd. inversion Hnd as [|? ? Hni Hnd']; subst. cbn [ci_get].
  destruct H as [E|H].
  - inversion E; subst. now rewrite N.eqb_refl.
  - destruct (N.eqb_spec k k') as [->|Hne].
    + exfalso. apply Hni. eapply In_keys. exact H.
    + now apply IH.
Qed.

Lemma ci_get_remove_other : forall idx k k', k <> k' -> ci_get (ci_remove idx k') k = ci_get idx k.
Proof.
  induction idx as [|[k0 l0] r IH]; intros k k' Hne; cbn [ci_remove ci_get]; [reflexivity|].
  destruct (N.eqb_spec k' k0) as [->|Hne'].
  - destruct (N.eqb_spec k k0); [congruence|reflexivity].
  - cbn [ci_get]. destruct (N.eqb_spec k k0); [reflexivity|]. now apply IH.
Qed.

Lemma ci_get_remove_same : forall idx k, NoDup (keys idx) -> ci_get (ci_remove idx k) k = None.
Proof.
  induction idx as [|[k0 l0] r IH]; intros k Hnd; cbn [ci_remove]; [reflexivity|].
  cbn [keys] in Hnd. inversion Hnd as [|? ? Hni Hnd']; subst.
  destruct (N.eqb_spec k k0) as [->|Hne].
  - now apply ci_get_None.
  - cbn [ci_get]. destruct (N.eqb_spec k k0); [congruence|]. now apply IH.
Qed.

Lemma keys_remove_incl : forall idx k x, In x (keys (ci_remove idx k)) -> In x (keys idx).
Proof.
  induction idx as [|[k0 l0] r IH]; intros k x H; cbn [ci_remove] in H; [exact H|].
  cbn [keys]. destruct (N.eqb_spec k k0) as [->|Hne].
  - now right.
  - cbn [keys] in H. destruct H as [E|H]; [now left|right; eapply IH; exact H].
Qed.

Lemma keys_remove_NoDup : forall idx k, NoDup (keys idx) -> NoDup (keys (ci_remove idx k)).
Proof.
  induction idx as [|[k0 l0] r IH]; intros k Hnd; cbn [ci_remove]; [exact Hnd|].
  cbn [keys] in Hnd. inversion Hnd as [|? ? Hni Hnd']; subst.
  destruct (N.eqb_spec k k0) as [->|Hne]; [exact Hnd'|].
  cbn [keys]. constructor; [|now apply IH].
  intros H. apply Hni. eapply keys_remove_incl. exact H.
Qed.

Lemma ci_remove_absent : forall idx k, ci_get idx k = None -> ci_remove idx k = idx.
Proof.
  induction idx as [|[k0 l0] r IH]; intros k H; cbn [ci_remove]; [reflexivity|].
  cbn [ci_get] in H. destruct (N.eqb_spec k k0); [discriminate|]. f_equal. now apply IH.
Qed.

Lemma removes_NoDup : forall ks idx, NoDup (keys idx) -> NoDup (keys (fold_left ci_remove ks idx)).
Proof.
  induction ks as [|k ks IH]; intros idx H; cbn [fold_left]; [exact H|].
  apply IH. now apply keys_remove_NoDup.
Qed.

Lemma ci_get_removes : forall ks idx k, NoDup (keys idx) ->
  ci_get (fold_left ci_remove ks idx) k = if memk k ks then None else ci_get idx k.
Proof.
  induction ks as [|k0 ks IH]; intros idx k Hnd; cbn [fold_left memk]; [reflexivity|].
  rewrite IH by now apply keys_remove_NoDup.
  destruct (N.eqb_spec k k0) as [->|Hne].
  - rewrite ci_get_remove_same by exact Hnd. now destruct (memk k0 ks).
  - rewrite ci_get_remove_other by exact Hne. reflexivity.
Qed.

Lemma ci_get_all_None : forall idx, (forall k, ci_get idx k = None) -> idx = [].
Proof.
  intros [|[k l] r] H; [reflexivity|]. specialize (H k). cbn [ci_get] in H.
  rewrite N.eqb_refl in H. discriminate.
Qed.

Lemma ci_get_filter : forall (p : N -> bool) idx k,
  ci_get (filter (fun e => p (fst e)) idx) k = if p k then ci_get idx k else None.
Proof.
  intros p. induction idx as [|[k0 l0] r IH]; intros k; cbn [filter ci_get fst].
  - now destruct (p k).
  - destruct (p k0) eqn:Ep; cbn [ci_get]; destruct (N.eqb_spec k k0) as [->|Hne].
    + now rewrite Ep.
    + apply IH.
    + rewrite IH, Ep. reflexivity.
    + apply IH.
Qed.

Lemma keys_filter_incl : forall (q : N * loc -> bool) idx x, In x (keys (filter q idx)) -> In x (keys idx).
Proof.
  intros q. induction idx as [|[k0 l0] r IH]; intros x H; cbn [filter] in H; [exact H|].
  cbn [keys]. destruct (q (k0, l0)); [cbn [keys] in H; destruct H as [E|H]; [now left|right; now apply IH]|].
  right. now apply IH.
Qed.

Lemma keys_filter_NoDup : forall (q : N * loc -> bool) idx, NoDup (keys idx) -> NoDup (keys (filter q idx)).
Proof.
  intros q. induction idx as [|[k0 l0] r IH]; intros Hnd; cbn [filter]; [exact Hnd|].
  cbn [keys] in Hnd. inversion Hnd as [|? ? Hni Hnd']; subst.
  destruct (q (k0, l0)); [|now apply IH].
  cbn [keys]. constructor; [|now apply IH]. intros H. apply Hni. eapply keys_filter_incl. exact H.
Qed.

Lemma filter_all_true {A} : forall (l : list A), filter (fun _ => true) l = l.
Proof. induction l as [|x l IH]; cbn; [reflexivity|now rewrite IH]. Qed.

Lemma map_filter_fst {A B} : forall (p : A -> bool) (l : list (A * B)),
  map fst (filter (fun e => p (fst e)) l) = filter p (map fst l).
Proof.
  intros p. induction l as [|[a b] l IH]; cbn [filter map fst]; [reflexivity|].
  destruct (p a); cbn [map fst]; now rewrite IH.
Qed.

(* remove_first / strictly_sorted *)
Lemma ss_cons : forall x r, strictly_sorted (x :: r) <-> (forall y, In y r -> x < y) /\ strictly_sorted r.
Proof.
  intros x r. revert x. induction r as [|z r IH]; intros x.
  - cbn. split; [intros _; split; [intros y []|exact I]|tauto].
  - change (strictly_sorted (x :: z :: r)) with (x < z /\ strictly_sorted (z :: r)).
    split.
    + intros [Hxz Hs]. split; [|exact Hs]. intros y [->|Hy]; [exact Hxz|].
      apply IH in Hs. destruct Hs as [Hz _]. specialize (Hz y Hy). lia.
    + intros [Hall Hs]. split; [apply Hall; now left|exact Hs].
Qed.

Lemma ss_NoDup : forall l, strictly_sorted l -> NoDup l.
Proof.
  induction l as [|x r IH]; intros H; [constructor|].
  apply ss_cons in H. destruct H as [Hall Hs]. constructor; [|now apply IH].
  intros Hin. specialize (Hall x Hin). lia.
Qed.

Lemma remove_first_incl : forall o l x, In x (remove_first o l) -> In x l.
Proof.
  intros o. induction l as [|y l IH]; intros x H; cbn [remove_first] in H; [exact H|].
  destruct (N.eqb_spec y o); [now right|]. destruct H as [E|H]; [now left|right; now apply IH].
Qed.

Lemma remove_first_In : forall o l x, NoDup l -> (In x (remove_first o l) <-> In x l /\ x <> o).
Proof.
  intros o. induction l as [|y l IH]; intros x Hnd; cbn [remove_first]; [cbn; tauto|].
  inversion Hnd as [|? ? Hni Hnd']; subst.
  destruct (N.eqb_spec y o) as [->|Hne].
  - cbn [In]. split.
    + intros H. split; [now right|]. intros ->. tauto.
    + intros [[E|H] Hx]; [congruence|exact H].
  - cbn [In]. rewrite IH by exact Hnd'. split.
    + intros [E|[H Hx]]; [subst; split; [now left|exact Hne]|split; [now right|exact Hx]].
    + intros [[E|H] Hx]; [now left|right; tauto].
Qed.

Lemma remove_first_NoDup : forall o l, NoDup l -> NoDup (remove_first o l).
Proof.
  intros o. induction l as [|y l IH]; intros Hnd; cbn [remove_first]; [exact Hnd|].
  inversion Hnd as [|? ? Hni Hnd']; subst.
  destruct (N.eqb_spec y o); [exact Hnd'|]. constructor; [|now apply IH].
  intros H. apply Hni. eapply remove_first_incl. exact H.
Qed.

Lemma remove_first_ss : forall o l, strictly_sorted l -> strictly_sorted (remove_first o l).
Proof.
  intros o. induction l as [|y l IH]; intros H; cbn [remove_first]; [exact H|].
  apply ss_cons in H. destruct H as [Hall Hs].
  destruct (N.eqb_spec y o); [exact Hs|]. apply ss_cons. split; [|now apply IH].
  intros z Hz. apply Hall. eapply remove_first_incl. exact Hz.
Qed.

Definition rem_offs (xs ys : list N) : list N := fold_left (fun acc o => remove_first o acc) xs ys.

Lemma rem_offs_ss : forall xs ys, strictly_sorted ys -> strictly_sorted (rem_offs xs ys).
Proof.
  induction xs as [|x xs IH]; intros ys H; cbn [rem_offs fold_left]; [exact H|].
  apply IH. now apply remove_first_ss.
Qed.

Lemma rem_offs_In : forall xs ys o, NoDup ys -> (In o (rem_offs xs ys) <-> In o ys /\ ~ In o xs).
Proof.
  induction xs as [|x xs IH]; intros ys o H; cbn [rem_offs fold_left]; [cbn; tauto|].
  fold (rem_offs xs (remove_first x ys)). rewrite IH by now apply remove_first_NoDup.
  rewrite remove_first_In by exact H. cbn [In]. split.
  - intros [[H1 H2] H3]. split; [exact H1|]. intros [E|H4]; [congruence|tauto].
  - intros [H1 H2]. split; [split; [exact H1|]|]; intros H3; apply H2; [left; congruence|now right].
Qed.

(* ---------- 3. strip_in_place as a function on indexes ---------- *)

Fixpoint strip_idx (cur tgt : index) : index :=
  match tgt with
  | [] => []
  | (k, cd) :: r =>
      match ci_get cur k with
      | Some cl =>
          match rem_offs (l_offs cl) (l_offs cd) with
          | [] => strip_idx cur r
          | x :: xs => (k, {| l_size := l_size cd; l_offs := x :: xs |}) :: strip_idx cur r
          end
      | None => (k, cd) :: strip_idx cur r
      end
  end.

Lemma strip_fst : forall cur tgt, fst (fst (strip_in_place cur tgt)) = strip_idx cur tgt.
Proof.
  intros cur. induction tgt as [|[k cd] r IH]; cbn [strip_in_place strip_idx]; [reflexivity|].
  destruct (strip_in_place cur r) as [[r' n] tot]. cbn [fst] in IH. subst r'.
  destruct (ci_get cur k) as [cl|]; [|reflexivity].
  fold (rem_offs (l_offs cl) (l_offs cd)).
  destruct (rem_offs (l_offs cl) (l_offs cd)); reflexivity.
Qed.

Lemma strip_keys_incl : forall cur tgt x, In x (keys (strip_idx cur tgt)) -> In x (keys tgt).
Proof.
  intros cur. induction tgt as [|[k cd] r IH]; intros x H; cbn [strip_idx] in H; [exact H|].
  cbn [keys]. destruct (ci_get cur k) as [cl|].
  - destruct (rem_offs (l_offs cl) (l_offs cd)).
    + right. now apply IH.
    + cbn [keys] in H. destruct H as [E|H]; [now left|right; now apply IH].
  - cbn [keys] in H. destruct H as [E|H]; [now left|right; now apply IH].
Qed.

Lemma strip_keys_NoDup : forall cur tgt, NoDup (keys tgt) -> NoDup (keys (strip_idx cur tgt)).
Proof.
  intros cur. induction tgt as [|[k cd] r IH]; intros Hnd; cbn [strip_idx]; [exact Hnd|].
  cbn [keys] in Hnd. inversion Hnd as [|? ? Hni Hnd']; subst.
  assert (Hni' : ~ In k (keys (strip_idx cur r))) by (intros H; apply Hni; eapply strip_keys_incl; exact H).
  destruct (ci_get cur k) as [cl|].
  - destruct (rem_offs (l_offs cl) (l_offs cd)); [now apply IH|].
    cbn [keys]. constructor; [exact Hni'|now apply IH].
  - cbn [keys]. constructor; [exact Hni'|now apply IH].
Qed.

(* every entry of the stripped index comes from an entry of the target *)
Definition strip_rel (cur : index) (k : N) (l cd : loc) : Prop :=
  l_size l = l_size cd /\
  ((ci_get cur k = None /\ l = cd) \/
   exists cl, ci_get cur k = Some cl /\ l_offs l = rem_offs (l_offs cl) (l_offs cd) /\ l_offs l <> []).

Lemma strip_In : forall cur tgt k l, In (k, l) (strip_idx cur tgt) ->
  exists cd, In (k, cd) tgt /\ strip_rel cur k l cd.
Proof.
  intros cur. induction tgt as [|[k0 cd0] r IH]; intros k l H; cbn [strip_idx] in H; [destruct H|].
  assert (Hrec : In (k, l) (strip_idx cur r) -> exists cd, In (k, cd) ((k0, cd0) :: r) /\ strip_rel cur k l cd).
  { intros H'. destruct (IH k l H') as [cd [H1 H2]]. exists cd. split; [now right|exact H2]. }
  destruct (ci_get cur k0) as [cl|] eqn:Ecur.
  - destruct (rem_offs (l_offs cl) (l_offs cd0)) as [|x xs] eqn:Erem; [now apply Hrec|].
    destruct H as [E|H]; [|now apply Hrec].
    inversion E; subst. exists cd0. split; [now left|]. split; [reflexivity|].
    right. exists cl. cbn [l_offs]. split; [exact Ecur|]. split; [now rewrite Erem|discriminate].
  - destruct H as [E|H]; [|now apply Hrec].
    inversion E; subst. exists l. split; [now left|]. split; [reflexivity|].
    left. split; [exact Ecur|reflexivity].
Qed.

Lemma strip_get : forall cur tgt k, NoDup (keys tgt) ->
  ci_get (strip_idx cur tgt) k =
  match ci_get tgt k with
  | None => None
  | Some cd =>
      match ci_get cur k with
      | None => Some cd
      | Some cl => match rem_offs (l_offs cl) (l_offs cd) with
                   | [] => None
                   | x :: xs => Some {| l_size := l_size cd; l_offs := x :: xs |}
                   end
      end
  end.
Proof.
  intros cur. induction tgt as [|[k0 cd0] r IH]; intros k Hnd; cbn [strip_idx ci_get]; [reflexivity|].
  cbn [keys] in Hnd. inversion Hnd as [|? ? Hni Hnd']; subst.
  destruct (N.eqb_spec k k0) as [->|Hne].
  - destruct (ci_get cur k0) as [cl|].
    + destruct (rem_offs (l_offs cl) (l_offs cd0)).
      * apply ci_get_None. intros H. apply Hni. eapply strip_keys_incl. exact H.
      * cbn [ci_get]. now rewrite N.eqb_refl.
    + cbn [ci_get]. now rewrite N.eqb_refl.
  - destruct (ci_get cur k0) as [cl|].
    + destruct (rem_offs (l_offs cl) (l_offs cd0)); [now apply IH|].
      cbn [ci_get]. destruct (N.eqb_spec k k0); [congruence|now apply IH].
    + cbn [ci_get]. destruct (N.eqb_spec k k0); [congruence|now apply IH].
Qed.

Lemma strip_filter : forall cur tgt,
  filter (fun e => negb (ci_contains cur (fst e))) (strip_idx cur tgt)
  = filter (fun e => negb (ci_contains cur (fst e))) tgt.
Proof.
  intros cur. induction tgt as [|[k cd] r IH]; cbn [strip_idx filter fst]; [reflexivity|].
  unfold ci_contains at 2. destruct (ci_get cur k) as [cl|] eqn:Ecur; cbn [negb].
  - destruct (rem_offs (l_offs cl) (l_offs cd)); [exact IH|].
    cbn [filter fst]. unfold ci_contains at 1. rewrite Ecur. cbn [negb]. exact IH.
  - cbn [filter fst]. unfold ci_contains at 1. rewrite Ecur. cbn [negb]. now rewrite IH.
Qed.

(* ---------- 4. fault-free runs: the state is determined by the list of writes ---------- *)

Definition clean (st : ostate) : Prop := o_err st = None /\ o_fault st = None.

Definition apply_writes (f : list N) (ws : list (N * list N)) : list N :=
  fold_left (fun f od => file_write f (fst od) (snd od)) ws f.

Lemma apply_writes_app : forall ws1 ws2 f, apply_writes f (ws1 ++ ws2) = apply_writes (apply_writes f ws1) ws2.
Proof. intros. unfold apply_writes. apply fold_left_app. Qed.

Lemma writes_of_app_seek : forall t c o t2, writes_of c (t ++ TSeek o :: t2) = writes_of c t ++ writes_of o t2.
Proof.
  induction t as [|e t IH]; intros c o t2; [reflexivity|].
  destruct e; cbn [app writes_of]; rewrite ?IH; reflexivity.
Qed.

Lemma seek_write_clean : forall st o d, clean st ->
  let st' := o_seek_write st o d in
  clean st' /\ o_file st' = file_write (o_file st) o d /\
  forall c, writes_of c (o_trace st') = writes_of c (o_trace st) ++ [(o, d)].
Proof.
  intros st o d [He Hf]. unfold o_seek_write, faulty. rewrite He, Hf. cbn.
  split; [split; reflexivity|]. split; [reflexivity|].
  intros c. now rewrite writes_of_app_seek.
Qed.

Lemma write_offsets_clean : forall offs st d, clean st ->
  let st' := write_offsets st offs d in
  clean st' /\ o_file st' = apply_writes (o_file st) (map (fun o => (o, d)) offs) /\
  forall c, writes_of c (o_trace st') = writes_of c (o_trace st) ++ map (fun o => (o, d)) offs.
Proof.
  induction offs as [|o offs IH]; intros st d Hc; cbn [write_offsets fold_left map].
  - split; [exact Hc|]. split; [reflexivity|]. intros c. now rewrite app_nil_r.
  - destruct (seek_write_clean st o d Hc) as [Hc1 [Hf1 Ht1]].
    destruct (IH (o_seek_write st o d) d Hc1) as [Hc2 [Hf2 Ht2]].
    unfold write_offsets in Hc2, Hf2, Ht2.
    split; [exact Hc2|]. split.
    + rewrite Hf2, Hf1. reflexivity.
    + intros c. rewrite Ht2, Ht1, <- app_assoc. reflexivity.
Qed.

Fixpoint feed_writes (idx : index) (feeds : list (N * list N)) : list (N * list N) :=
  match feeds with
  | [] => []
  | kd :: r =>
      match ci_get idx (fst kd) with
      | Some l => map (fun o => (o, snd kd)) (l_offs l) ++ feed_writes (ci_remove idx (fst kd)) r
      | None => feed_writes idx r
      end
  end.

Definition feed_step (acc : ostate * index * list N) (kd : N * list N) : ostate * index * list N :=
  let '(st, idx, fed) := acc in
  match o_err st with
  | Some _ => acc
  | None => let '(st', idx', n) := feed st idx (fst kd) (snd kd) in
            (st', idx', match o_err st' with None => fed ++ [n] | Some _ => fed end)
  end.

Lemma feed_list_fold : forall st idx feeds, feed_list st idx feeds = fold_left feed_step feeds (st, idx, []).
Proof. reflexivity. Qed.

Lemma feed_fold_clean : forall feeds st idx fed0 st' idx' fed, clean st ->
  fold_left feed_step feeds (st, idx, fed0) = (st', idx', fed) ->
  clean st' /\ idx' = fold_left ci_remove (map fst feeds) idx /\
  o_file st' = apply_writes (o_file st) (feed_writes idx feeds) /\
  forall c, writes_of c (o_trace st') = writes_of c (o_trace st) ++ feed_writes idx feeds.
Proof.
  induction feeds as [|[k d] feeds IH]; intros st idx fed0 st' idx' fed Hc H; cbn [fold_left] in H.
  - inversion H; subst. split; [exact Hc|]. split; [reflexivity|]. split; [reflexivity|].
    intros c. cbn [feed_writes]. now rewrite app_nil_r.
  - cbn [map fst fold_left feed_writes snd].
    unfold feed_step at 2 in H. destruct Hc as [He Hf]. rewrite He in H. unfold feed in H. rewrite He in H.
    cbn [fst snd] in H.
    destruct (ci_get idx k) as [l|] eqn:Eg.
    + destruct (write_offsets_clean (l_offs l) st d (conj He Hf)) as [Hc1 [Hf1 Ht1]].
      destruct (IH _ _ _ _ _ _ Hc1 H) as [Hc2 [Hi2 [Hf2 Ht2]]].
      split; [exact Hc2|]. split; [exact Hi2|]. split.
      * rewrite Hf2, Hf1, apply_writes_app. reflexivity.
      * intros c. rewrite Ht2, Ht1, app_assoc. reflexivity.
    + destruct (IH _ _ _ _ _ _ (conj He Hf) H) as [Hc2 [Hi2 [Hf2 Ht2]]].
      rewrite (ci_remove_absent idx k Eg).
      split; [exact Hc2|]. split; [exact Hi2|]. split; [exact Hf2|exact Ht2].
Qed.

Lemma feed_list_clean : forall feeds st idx st' idx' fed, clean st ->
  feed_list st idx feeds = (st', idx', fed) ->
  clean st' /\ idx' = fold_left ci_remove (map fst feeds) idx /\
  o_file st' = apply_writes (o_file st) (feed_writes idx feeds) /\
  writes_of 0 (o_trace st') = writes_of 0 (o_trace st) ++ feed_writes idx feeds.
Proof.
  intros feeds st idx st' idx' fed Hc H. rewrite feed_list_fold in H.
  destruct (feed_fold_clean _ _ _ _ _ _ _ Hc H) as [H1 [H2 [H3 H4]]]. auto.
Qed.

Lemma feed_writes_app : forall a b idx,
  feed_writes idx (a ++ b) = feed_writes idx a ++ feed_writes (fold_left ci_remove (map fst a) idx) b.
Proof.
  induction a as [|[k d] a IH]; intros b idx; cbn [app feed_writes map fold_left fst snd]; [reflexivity|].
  destruct (ci_get idx k) as [l|] eqn:Eg.
  - rewrite IH, app_assoc. reflexivity.
  - rewrite (ci_remove_absent idx k Eg). apply IH.
Qed.

(* the fault field is never changed *)
Lemma seek_write_fault : forall st o d, o_fault (o_seek_write st o d) = o_fault st.
Proof.
  intros st o d. unfold o_seek_write. destruct (o_err st); [reflexivity|]. destruct (faulty st); reflexivity.
Qed.

Lemma write_offsets_fault : forall offs st d, o_fault (write_offsets st offs d) = o_fault st.
Proof.
  induction offs as [|o offs IH]; intros st d; cbn [write_offsets fold_left]; [reflexivity|].
  fold (write_offsets (o_seek_write st o d) offs d). rewrite IH. apply seek_write_fault.
Qed.

Lemma seek_read_fault : forall st o n, o_fault (fst (o_seek_read st o n)) = o_fault st.
Proof.
  intros st o n. unfold o_seek_read. destruct (o_err st); [reflexivity|].
  destruct (o + n <=? lenN (o_file st)); reflexivity.
Qed.

Lemma exec_ops_fault : forall ops st idx mem moved,
  o_fault (fst (fst (exec_ops ops st idx mem moved))) = o_fault st.
Proof.
  induction ops as [|op ops IH]; intros st idx mem moved; cbn [exec_ops].
  - destruct (o_err st); reflexivity.
  - destruct (o_err st); [reflexivity|].
    destruct op as [k size src dests|k size src].
    + destruct (store_get mem k).
      * rewrite IH. apply write_offsets_fault.
      * destruct (o_seek_read st src size) as [st1 d] eqn:Er.
        rewrite IH, write_offsets_fault. change st1 with (fst (st1, d)). rewrite <- Er. apply seek_read_fault.
    + destruct (store_get mem k); [apply IH|].
      destruct (o_seek_read st src size) as [st1 d] eqn:Er.
      rewrite IH. change st1 with (fst (st1, d)). rewrite <- Er. apply seek_read_fault.
Qed.

(* occurrences written by a sequence of feeds *)
Lemma occ_remove : forall idx k0 k o, NoDup (keys idx) -> occ (ci_remove idx k0) k o -> k <> k0 /\ occ idx k o.
Proof.
  intros idx k0 k o Hnd [l [Hg Ho]].
  destruct (N.eq_dec k k0) as [->|Hne].
  - rewrite ci_get_remove_same in Hg by exact Hnd. discriminate.
  - split; [exact Hne|]. exists l. rewrite ci_get_remove_other in Hg by exact Hne. auto.
Qed.

Lemma feed_writes_In : forall feeds idx o d, NoDup (keys idx) ->
  In (o, d) (feed_writes idx feeds) -> exists k, occ idx k o /\ In (k, d) feeds.
Proof.
  induction feeds as [|[k0 d0] feeds IH]; intros idx o d Hnd H; cbn [feed_writes fst snd] in H; [destruct H|].
  destruct (ci_get idx k0) as [l|] eqn:Eg.
  - apply in_app_or in H. destruct H as [H|H].
    + apply in_map_iff in H. destruct H as [o' [E Ho]]. inversion E; subst.
      exists k0. split; [exists l; auto|now left].
    + destruct (IH _ _ _ (keys_remove_NoDup idx k0 Hnd) H) as [k [Hocc Hin]].
      exists k. split; [|now right]. eapply occ_remove; eassumption.
  - destruct (IH _ _ _ Hnd H) as [k [Hocc Hin]]. exists k. split; [exact Hocc|now right].
Qed.

Lemma feed_writes_NoDup : forall feeds idx, NoDup (keys idx) ->
  (forall k l, ci_get idx k = Some l -> NoDup (l_offs l)) ->
  (forall k1 k2 o, occ idx k1 o -> occ idx k2 o -> k1 = k2) ->
  NoDup (map fst (feed_writes idx feeds)).
Proof.
  induction feeds as [|[k0 d0] feeds IH]; intros idx Hnd Hoffs Hinj; cbn [feed_writes fst snd map]; [constructor|].
  destruct (ci_get idx k0) as [l|] eqn:Eg; [|now apply IH].
  rewrite map_app, map_map. cbn [fst]. rewrite map_id.
  apply NoDup_app_intro.
  - eapply Hoffs. exact Eg.
  - apply IH.
    + now apply keys_remove_NoDup.
    + intros k l' Hg. destruct (N.eq_dec k k0) as [->|Hne].
      * rewrite ci_get_remove_same in Hg by exact Hnd. discriminate.
      * rewrite ci_get_remove_other in Hg by exact Hne. eapply Hoffs. exact Hg.
    + intros k1 k2 o H1 H2. apply occ_remove in H1; [|exact Hnd]. apply occ_remove in H2; [|exact Hnd].
      eapply Hinj; [apply H1|apply H2].
  - intros o Ho Hin. apply in_map_iff in Hin. destruct Hin as [[o' d] [E Hin]]. cbn [fst] in E. subst o'.
    apply feed_writes_In in Hin; [|now apply keys_remove_NoDup].
    destruct Hin as [k [Hocc _]]. apply occ_remove in Hocc; [|exact Hnd]. destruct Hocc as [Hne Hocc].
    apply Hne. eapply Hinj; [exact Hocc|]. exists l. auto.
Qed.

(* ---------- 5. the theorems ---------- *)

Section CloneTheorems.
  Variable D : N -> list N.
  Hypothesis reorder_exec_correct : forall (cur tgt : index) (f : list N),
    idx_wf D cur -> idx_wf D tgt ->
    idx_in_file D cur f -> disjoint_occs D cur -> disjoint_occs D tgt ->
    forall st' idx' moved,
    exec_ops (reorder_ops cur tgt) (o_init f None) tgt [] 0 = (st', idx', moved) ->
      o_err st' = None
      /\ (forall k o, occ tgt k o -> ci_contains cur k = true -> holds D (o_file st') o k)
      /\ (forall k o, holds D f o k ->
            (forall k' o', occ tgt k' o' -> ci_contains cur k' = true ->
                 o' + lenN (D k') <= o \/ o + lenN (D k) <= o') ->
            holds D (o_file st') o k)
      /\ idx' = filter (fun e => negb (ci_contains cur (fst e))) tgt
      /\ (forall o d, In (o, d) (writes_of 0 (o_trace st')) ->
            exists k, occ tgt k o /\ ci_contains cur k = true /\ d = D k)
      /\ NoDup (map fst (writes_of 0 (o_trace st')))
      /\ lenN f <= lenN (o_file st').

  Definition sound_feeds (fs : list (N * list N)) : Prop := Forall (fun kd => snd kd = D (fst kd)) fs.
  Definition arch_complete (cidx : index) (arch : list (N * list N)) : Prop :=
    NoDup (map fst arch) /\ forall k, In k (keys cidx) <-> In k (map fst arch).
  Definition out_ok (oidx : option index) (prior : list N) : Prop :=
    match oidx with Some oi => idx_wf D oi /\ idx_in_file D oi prior /\ disjoint_occs D oi | None => True end.

  (* --- bytes --- *)
  Lemma holds_nth : forall f o k, holds D f o k <->
    (N.to_nat o + length (D k) <= length f)%nat /\
    forall i, (i < length (D k))%nat -> nth_error f (N.to_nat o + i) = nth_error (D k) i.
  Proof.
    intros f o k. unfold holds. rewrite takeN_firstn, dropN_skipn, !lenN_length, Nat2N.id.
    split; intros [Hl He]; (split; [lia|]).
    - intros i Hi. rewrite <- He. rewrite nth_error_firstn_lt by lia. now rewrite nth_error_skipn_add.
    - apply nth_error_ext_len.
      + rewrite firstn_length, skipn_length. lia.
      + intros i Hi. rewrite firstn_length, skipn_length in Hi.
        rewrite nth_error_firstn_lt by lia. rewrite nth_error_skipn_add. apply He. lia.
  Qed.

  Lemma holds_write : forall f o k, holds D (file_write f o (D k)) o k.
  Proof.
    intros f o k. apply holds_nth. rewrite file_write_fw. split.
    - rewrite fw_length. lia.
    - intros i Hi. rewrite fw_nth_in by lia. f_equal. lia.
  Qed.

  Lemma holds_frame : forall f o d o' k', holds D f o' k' ->
    (o' + lenN (D k') <= o \/ o + lenN d <= o') -> holds D (file_write f o d) o' k'.
  Proof.
    intros f o d o' k' H Hdis. apply holds_nth in H. destruct H as [Hl Hn].
    apply holds_nth. rewrite file_write_fw. rewrite !lenN_length in Hdis. split.
    - rewrite fw_length. lia.
    - intros i Hi. destruct Hdis as [Hd|Hd].
      + rewrite fw_nth_before by lia. now apply Hn.
      + rewrite fw_nth_after by lia. now apply Hn.
  Qed.

  (* --- occurrences of a well-formed index --- *)
  Lemma occ_size_pos : forall idx k o, idx_wf D idx -> occ idx k o -> 0 < lenN (D k).
  Proof.
    intros idx k o [_ Hwf] [l [Hg _]]. apply ci_get_In in Hg. destruct (Hwf k l Hg) as [H1 [H2 _]]. lia.
  Qed.

  Lemma occ_inj : forall idx k1 k2 o, idx_wf D idx -> disjoint_occs D idx ->
    occ idx k1 o -> occ idx k2 o -> k1 = k2.
  Proof.
    intros idx k1 k2 o Hwf Hdis H1 H2. destruct (N.eq_dec k1 k2) as [E|Hne]; [exact E|exfalso].
    pose proof (occ_size_pos _ _ _ Hwf H1). pose proof (occ_size_pos _ _ _ Hwf H2).
    destruct (Hdis k1 o k2 o H1 H2); [congruence|lia|lia].
  Qed.

  Lemma wf_offs_NoDup : forall idx k l, idx_wf D idx -> ci_get idx k = Some l -> NoDup (l_offs l).
  Proof.
    intros idx k l [_ Hwf] Hg. apply ci_get_In in Hg. apply ss_NoDup. now apply (Hwf k l Hg).
  Qed.

  Definition idx_writes (idx : index) (W : list (N * list N)) : Prop :=
    forall o d, In (o, d) W -> exists k, occ idx k o /\ d = D k.

  Lemma apply_writes_holds : forall idx, idx_wf D idx -> disjoint_occs D idx ->
    forall W f, idx_writes idx W ->
    (forall k o, occ idx k o -> holds D f o k -> holds D (apply_writes f W) o k) /\
    (forall k o, occ idx k o -> In (o, D k) W -> holds D (apply_writes f W) o k).
  Proof.
    intros idx Hwf Hdis. induction W as [|[o0 d0] W IH]; intros f HW.
    - split; [auto|]. intros k o _ [].
    - destruct (HW o0 d0 (or_introl eq_refl)) as [k0 [Hocc0 ->]].
      assert (Hstep : forall k o, occ idx k o -> holds D f o k -> holds D (file_write f o0 (D k0)) o k).
      { intros k o Hocc Hh. destruct (N.eq_dec k k0) as [->|Hk].
        - destruct (N.eq_dec o o0) as [->|Ho]; [apply holds_write|].
          apply holds_frame; [exact Hh|]. apply (Hdis k0 o k0 o0 Hocc Hocc0). congruence.
        - apply holds_frame; [exact Hh|]. apply (Hdis k o k0 o0 Hocc Hocc0). congruence. }
      assert (HW' : idx_writes idx W) by (intros o d Hin; apply HW; now right).
      destruct (IH (file_write f o0 (D k0)) HW') as [IH1 IH2].
      change (apply_writes f ((o0, D k0) :: W)) with (apply_writes (file_write f o0 (D k0)) W).
      split.
      + intros k o Hocc Hh. apply IH1; [exact Hocc|]. now apply Hstep.
      + intros k o Hocc [E|Hin]; [|now apply IH2].
        inversion E as [[Eo Ed]]. subst o0. apply IH1; [exact Hocc|].
        rewrite Ed. apply holds_write.
  Qed.

  Lemma feed_writes_complete : forall feeds idx k o, sound_feeds feeds ->
    occ idx k o -> In k (map fst feeds) -> In (o, D k) (feed_writes idx feeds).
  Proof.
    induction feeds as [|[k0 d0] feeds IH]; intros idx k o Hs Hocc Hin; [destruct Hin|].
    inversion Hs as [|? ? Hd Hs']; subst. cbn [fst snd] in Hd. subst d0.
    cbn [feed_writes fst snd]. destruct (N.eq_dec k k0) as [->|Hne].
    - destruct Hocc as [l [Hg Ho]]. rewrite Hg. apply in_or_app. left.
      apply in_map_iff. exists o. auto.
    - destruct Hin as [E|Hin]; [cbn [fst] in E; congruence|].
      destruct (ci_get idx k0) as [l0|] eqn:Eg.
      + apply in_or_app. right. apply IH; [exact Hs'| |exact Hin].
        destruct Hocc as [l [Hg Ho]]. exists l. rewrite ci_get_remove_other by exact Hne. auto.
      + now apply IH.
  Qed.

  (* --- stripping the chunks already in place --- *)
  Lemma occ_dec : forall idx k o, occ idx k o \/ ~ occ idx k o.
  Proof.
    intros idx k o. unfold occ. destruct (ci_get idx k) as [l|] eqn:Eg.
    - destruct (in_dec N.eq_dec o (l_offs l)) as [Hin|Hni].
      + left. exists l. auto.
      + right. intros [l' [E Hin]]. inversion E; subst. tauto.
    - right. intros [l' [E _]]. discriminate.
  Qed.

  Lemma occ_contains : forall idx k o, occ idx k o -> ci_contains idx k = true.
  Proof. intros idx k o [l [Hg _]]. unfold ci_contains. now rewrite Hg. Qed.

  Lemma strip_occ : forall cur tgt k o, idx_wf D tgt ->
    (occ (strip_idx cur tgt) k o <-> occ tgt k o /\ ~ occ cur k o).
  Proof.
    intros cur tgt k o Hwf. unfold occ. rewrite strip_get by apply Hwf.
    destruct (ci_get tgt k) as [cd|] eqn:Et.
    - pose proof (wf_offs_NoDup _ _ _ Hwf Et) as Hnd.
      destruct (ci_get cur k) as [cl|] eqn:Ec.
      + pose proof (rem_offs_In (l_offs cl) (l_offs cd) o Hnd) as Hrem.
        destruct (rem_offs (l_offs cl) (l_offs cd)) as [|x xs] eqn:Er.
        * split; [intros [l [E _]]; discriminate|].
          intros [[l [El Ho]] Hn]. inversion El; subst l. exfalso.
          cbn [In] in Hrem. apply Hrem. split; [exact Ho|]. intros Hc. apply Hn. exists cl. auto.
        * split.
          -- intros [l [El Ho]]. inversion El; subst l. cbn [l_offs] in Ho. apply Hrem in Ho.
             split; [exists cd; tauto|]. intros [l' [El' Ho']]. inversion El'; subst l'. tauto.
          -- intros [[l [El Ho]] Hn]. inversion El; subst l.
             eexists. split; [reflexivity|]. cbn [l_offs]. apply Hrem. split; [exact Ho|].
             intros Hc. apply Hn. exists cl. auto.
      + split.
        * intros [l [El Ho]]. split; [exists l; auto|]. intros [l' [El' _]]. discriminate.
        * intros [H _]. exact H.
    - split; [intros [l [E _]]; discriminate|intros [[l [E _]] _]; discriminate].
  Qed.

  Lemma strip_wf : forall cur tgt, idx_wf D tgt -> idx_wf D (strip_idx cur tgt).
  Proof.
    intros cur tgt [Hnd Hwf]. split; [now apply strip_keys_NoDup|].
    intros k l Hin. apply strip_In in Hin. destruct Hin as [cd [Hin [Hsz Hrel]]].
    destruct (Hwf k cd Hin) as [H1 [H2 [H3 H4]]].
    destruct Hrel as [[_ ->]|[cl [_ [Ho Hne]]]]; [auto|].
    rewrite Hsz, Ho. repeat split; auto.
    - now rewrite <- Ho.
    - now apply rem_offs_ss.
  Qed.

  Lemma strip_disjoint : forall cur tgt, idx_wf D tgt -> disjoint_occs D tgt -> disjoint_occs D (strip_idx cur tgt).
  Proof.
    intros cur tgt Hwf Hdis k1 o1 k2 o2 H1 H2 Hne.
    apply strip_occ in H1; [|exact Hwf]. apply strip_occ in H2; [|exact Hwf].
    apply Hdis; tauto.
  Qed.

  (* --- phase 1: the optional in-place reorder --- *)
  Definition inoi (oidx : option index) (k : N) : bool :=
    match oidx with Some oi => ci_contains oi k | None => false end.
  Definition notinplace (oidx : option index) (k o : N) : Prop :=
    match oidx with Some oi => ~ occ oi k o | None => True end.

  Definition post1 (cidx : index) (oidx : option index) (st1 : ostate) (idx1 : index) : Prop :=
    clean st1 /\
    idx1 = filter (fun e => negb (inoi oidx (fst e))) cidx /\
    (forall k o, occ cidx k o -> inoi oidx k = true -> holds D (o_file st1) o k) /\
    (forall o d, In (o, d) (writes_of 0 (o_trace st1)) ->
       exists k, occ cidx k o /\ inoi oidx k = true /\ d = D k /\ notinplace oidx k o) /\
    NoDup (map fst (writes_of 0 (o_trace st1))).

  Lemma phase1 : forall src prior cidx oidx st1 idx1 moved,
    describes D cidx src -> out_ok oidx prior ->
    match oidx with
    | Some oi => reorder_in_place (o_init prior None) cidx oi
    | None => (o_init prior None, cidx, 0)
    end = (st1, idx1, moved) ->
    post1 cidx oidx st1 idx1.
  Proof.
    intros src prior cidx oidx st1 idx1 moved [Hwf [Hsrc [Hdis Hcov]]] Hout H.
    destruct oidx as [oi|].
    - destruct Hout as [Hwfo [Hino Hdiso]].
      unfold reorder_in_place in H. pose proof (strip_fst oi cidx) as Hs.
      destruct (strip_in_place oi cidx) as [[c' n] tot]. cbn [fst] in Hs. subst c'.
      destruct (exec_ops (reorder_ops oi (strip_idx oi cidx)) (o_init prior None) (strip_idx oi cidx) [] 0)
        as [[st' idx'] mv] eqn:Ex.
      inversion H; subst st1 idx1 moved. clear H.
      pose proof (exec_ops_fault (reorder_ops oi (strip_idx oi cidx)) (o_init prior None) (strip_idx oi cidx) [] 0) as Hfault.
      rewrite Ex in Hfault. cbn [fst o_init o_fault] in Hfault.
      apply reorder_exec_correct in Ex;
        [|exact Hwfo|now apply strip_wf|exact Hino|exact Hdiso|now apply strip_disjoint].
      destruct Ex as [Herr [Hmoved [Hframe [Hidx [Hwr [Hnd _]]]]]].
      unfold post1, inoi, notinplace. split; [split; assumption|].
      split; [rewrite Hidx; apply strip_filter|]. split; [|split; [|exact Hnd]].
      + intros k o Hocc Hin. destruct (occ_dec oi k o) as [Hoi|Hnoi].
        * apply Hframe; [now apply Hino|].
          intros k' o' Hocc' _. apply strip_occ in Hocc'; [|exact Hwf]. destruct Hocc' as [Hocc' Hn'].
          apply Hdis; [exact Hocc'|exact Hocc|]. intros E. inversion E; subst. tauto.
        * apply Hmoved; [|exact Hin]. apply strip_occ; [exact Hwf|]. tauto.
      + intros o d Hin. destruct (Hwr o d Hin) as [k [Hocc [Hc Hd]]].
        apply strip_occ in Hocc; [|exact Hwf]. exists k. tauto.
    - inversion H; subst. unfold post1, inoi, notinplace. cbn [negb o_init o_trace o_file writes_of map In].
      split; [split; reflexivity|]. split; [now rewrite filter_all_true|].
      split; [intros; discriminate|]. split; [intros o d []|constructor].
  Qed.

  (* --- the whole run as a list of writes --- *)
  Lemma clone_char : forall src prior cidx oidx seeds arch,
    describes D cidx src -> out_ok oidx prior ->
    let r := clone_model prior None cidx oidx seeds arch in
    let idx1 := filter (fun e => negb (inoi oidx (fst e))) cidx in
    let idx2 := fold_left ci_remove (map fst seeds) idx1 in
    let fetch := filter (fun kd => ci_contains idx2 (fst kd)) arch in
    exists st1,
      post1 cidx oidx st1 idx1 /\
      clean (cr_state r) /\
      cr_index r = fold_left ci_remove (map fst (seeds ++ fetch)) idx1 /\
      o_file (cr_state r) = apply_writes (o_file st1) (feed_writes idx1 (seeds ++ fetch)) /\
      writes_of 0 (o_trace (cr_state r)) = writes_of 0 (o_trace st1) ++ feed_writes idx1 (seeds ++ fetch) /\
      cr_fetch r = map fst fetch.
  Proof.
    intros src prior cidx oidx seeds arch Hdesc Hout r idx1 idx2 fetch.
    unfold r, clone_model. cbv zeta.
    destruct (match oidx with
              | Some oi => reorder_in_place (o_init prior None) cidx oi
              | None => (o_init prior None, cidx, 0)
              end) as [[st1 i1] moved] eqn:E1.
    pose proof (phase1 _ _ _ _ _ _ _ Hdesc Hout E1) as Hp1.
    assert (Ei1 : i1 = idx1) by apply Hp1. subst i1.
    exists st1. split; [exact Hp1|].
    destruct Hp1 as [Hc1 _].
    destruct (feed_list st1 idx1 seeds) as [[st2 i2] fed2] eqn:E2.
    destruct (feed_list_clean _ _ _ _ _ _ Hc1 E2) as [Hc2 [Hi2 [Hf2 Ht2]]].
    fold idx2 in Hi2. subst i2.
    destruct Hc2 as [He2 Hfa2]. rewrite He2. fold fetch.
    destruct (feed_list st2 idx2 fetch) as [[st3 i3] fed3] eqn:E3.
    destruct (feed_list_clean _ _ _ _ _ _ (conj He2 Hfa2) E3) as [Hc3 [Hi3 [Hf3 Ht3]]].
    cbn [cr_state cr_index cr_fetch].
    split; [exact Hc3|]. split; [|split; [|split; [|reflexivity]]].
    - rewrite Hi3, map_app, fold_left_app. reflexivity.
    - rewrite Hf3, Hf2, feed_writes_app, apply_writes_app. reflexivity.
    - rewrite Ht3, Ht2, feed_writes_app, app_assoc. reflexivity.
  Qed.

  (* --- facts about the index after phase 1 and the feeds of phases 2 and 3 --- *)
  Lemma ci_get_idx1 : forall oidx cidx k,
    ci_get (filter (fun e => negb (inoi oidx (fst e))) cidx) k = if inoi oidx k then None else ci_get cidx k.
  Proof.
    intros oidx cidx k. pose proof (ci_get_filter (fun x => negb (inoi oidx x)) cidx k) as H.
    cbn beta in H. rewrite H. now destruct (inoi oidx k).
  Qed.

  Lemma occ_idx1 : forall oidx cidx k o,
    occ (filter (fun e => negb (inoi oidx (fst e))) cidx) k o <-> occ cidx k o /\ inoi oidx k = false.
  Proof.
    intros oidx cidx k o. unfold occ. rewrite ci_get_idx1. destruct (inoi oidx k).
    - split; [intros [l [E _]]; discriminate|intros [_ E]; discriminate].
    - tauto.
  Qed.

  Lemma tail_facts : forall cidx oidx seeds arch,
    idx_wf D cidx -> sound_feeds seeds -> sound_feeds arch -> arch_complete cidx arch ->
    let idx1 := filter (fun e => negb (inoi oidx (fst e))) cidx in
    let idx2 := fold_left ci_remove (map fst seeds) idx1 in
    let fetch := filter (fun kd => ci_contains idx2 (fst kd)) arch in
    sound_feeds (seeds ++ fetch) /\ NoDup (keys idx1) /\
    (forall k, ci_contains idx1 k = true -> In k (map fst (seeds ++ fetch))).
  Proof.
    intros cidx oidx seeds arch Hwf Hss Hsa [Hand Hac] idx1 idx2 fetch.
    assert (Hnd1 : NoDup (keys idx1)) by (apply keys_filter_NoDup; apply Hwf).
    split; [|split; [exact Hnd1|]].
    - apply Forall_app. split; [exact Hss|]. apply Forall_forall. intros kd Hin.
      apply filter_In in Hin. destruct Hin as [Hin _]. revert kd Hin. now apply Forall_forall.
    - intros k Hc. rewrite map_app. apply in_or_app.
      destruct (memk k (map fst seeds)) eqn:Em; [left; now apply memk_In|right].
      assert (Hc2 : ci_contains idx2 k = true).
      { unfold ci_contains, idx2. rewrite ci_get_removes by exact Hnd1. rewrite Em. exact Hc. }
      assert (Hk : In k (map fst arch)).
      { apply Hac. apply ci_contains_keys in Hc. eapply keys_filter_incl. exact Hc. }
      apply in_map_iff in Hk. destruct Hk as [[k' d] [E Hin]]. cbn [fst] in E. subst k'.
      apply in_map_iff. exists (k, d). split; [reflexivity|]. apply filter_In. split; [exact Hin|exact Hc2].
  Qed.

  Lemma feed_writes_idx_writes : forall cidx oidx feeds,
    idx_wf D cidx -> sound_feeds feeds ->
    forall o d, In (o, d) (feed_writes (filter (fun e => negb (inoi oidx (fst e))) cidx) feeds) ->
    exists k, occ cidx k o /\ inoi oidx k = false /\ d = D k.
  Proof.
    intros cidx oidx feeds Hwf Hs o d Hin.
    apply feed_writes_In in Hin; [|apply keys_filter_NoDup; apply Hwf].
    destruct Hin as [k [Hocc Hf]]. apply occ_idx1 in Hocc. exists k.
    split; [tauto|]. split; [tauto|].
    unfold sound_feeds in Hs. rewrite Forall_forall in Hs. apply (Hs (k, d) Hf).
  Qed.

  (* --- reconstruction of the source from its occurrences --- *)
  Lemma firstn_ext_nth : forall (src f : list N),
    (forall i, (i < length src)%nat -> nth_error f i = nth_error src i) -> firstn (length src) f = src.
  Proof.
    induction src as [|x s IH]; intros f H; [reflexivity|].
    destruct f as [|y g].
    - specialize (H O). cbn in H. assert (None = Some x) by (apply H; lia). discriminate.
    - cbn [length firstn]. f_equal.
      + specialize (H O). cbn in H. assert (E : Some y = Some x) by (apply H; lia). now inversion E.
      + apply IH. intros i Hi. apply (H (S i)). cbn. lia.
  Qed.

  Lemma describes_takeN : forall cidx src f, describes D cidx src ->
    (forall k o, occ cidx k o -> holds D f o k) -> takeN (lenN src) f = src.
  Proof.
    intros cidx src f [Hwf [Hsrc [Hdis Hcov]]] Hf.
    rewrite takeN_firstn, lenN_length, Nat2N.id. apply firstn_ext_nth.
    intros i Hi. destruct (Hcov (N.of_nat i)) as [k [o [Hocc Hr]]]; [rewrite lenN_length; lia|].
    rewrite lenN_length in Hr.
    pose proof (Hsrc k o Hocc) as H1. pose proof (Hf k o Hocc) as H2.
    apply holds_nth in H1. apply holds_nth in H2. destruct H1 as [_ H1]. destruct H2 as [_ H2].
    replace i with (N.to_nat o + (i - N.to_nat o))%nat by lia.
    rewrite H1, H2 by lia. reflexivity.
  Qed.

  (* ---------- C02 / C03 ---------- *)
  Theorem clone_exact : forall src prior cidx oidx seeds arch,
    describes D cidx src -> out_ok oidx prior ->
    sound_feeds seeds -> sound_feeds arch -> arch_complete cidx arch ->
    let r := clone_model prior None cidx oidx seeds arch in
    o_err (cr_state r) = None /\ cr_index r = [] /\ takeN (lenN src) (o_file (cr_state r)) = src.
  Proof.
    intros src prior cidx oidx seeds arch Hdesc Hout Hss Hsa Harch r.
    pose proof (clone_char src prior cidx oidx seeds arch Hdesc Hout) as Hchar.
    assert (Hwf : idx_wf D cidx) by apply Hdesc.
    assert (Hdis : disjoint_occs D cidx) by apply Hdesc.
    pose proof (tail_facts cidx oidx seeds arch Hwf Hss Hsa Harch) as Htail.
    cbv zeta in Hchar, Htail. fold r in Hchar.
    set (idx1 := filter (fun e => negb (inoi oidx (fst e))) cidx) in *.
    set (idx2 := fold_left ci_remove (map fst seeds) idx1) in *.
    set (fetch := filter (fun kd => ci_contains idx2 (fst kd)) arch) in *.
    destruct Hchar as [st1 [Hp1 [Hc [Hidx [Hfile [Htr Hfetch]]]]]].
    destruct Htail as [Hsound [Hnd1 Hall]].
    destruct Hp1 as [_ [_ [Hheld1 _]]].
    split; [apply Hc|]. split.
    - rewrite Hidx. apply ci_get_all_None. intros k. rewrite ci_get_removes by exact Hnd1.
      destruct (memk k (map fst (seeds ++ fetch))) eqn:Em; [reflexivity|].
      destruct (ci_get idx1 k) as [l|] eqn:Eg; [|reflexivity]. exfalso.
      apply memk_false in Em. apply Em. apply Hall. unfold ci_contains. now rewrite Eg.
    - apply (describes_takeN cidx); [exact Hdesc|]. intros k o Hocc. rewrite Hfile.
      assert (HW : idx_writes cidx (feed_writes idx1 (seeds ++ fetch))).
      { intros o' d' Hin. destruct (feed_writes_idx_writes cidx oidx _ Hwf Hsound o' d' Hin) as [k' [H1 [_ H2]]].
        exists k'. auto. }
      destruct (apply_writes_holds cidx Hwf Hdis _ (o_file st1) HW) as [Hkeep Hnew].
      destruct (inoi oidx k) eqn:Ei.
      + apply Hkeep; [exact Hocc|]. now apply Hheld1.
      + apply Hnew; [exact Hocc|]. apply feed_writes_complete; [exact Hsound| |].
        * apply occ_idx1. auto.
        * apply Hall. eapply occ_contains. apply occ_idx1. split; [exact Hocc|exact Ei].
  Qed.

  (* ---------- C06 ---------- *)
  Definition found (oidx : option index) (seeds : list (N * list N)) (k : N) : bool :=
    (match oidx with Some oi => ci_contains oi k | None => false end) || memk k (map fst seeds).

  Theorem fetch_exact : forall src prior cidx oidx seeds arch,
    describes D cidx src -> out_ok oidx prior ->
    sound_feeds seeds -> sound_feeds arch -> arch_complete cidx arch ->
    cr_fetch (clone_model prior None cidx oidx seeds arch)
    = filter (fun k => negb (found oidx seeds k)) (map fst arch).
  Proof.
    intros src prior cidx oidx seeds arch Hdesc Hout Hss Hsa Harch.
    pose proof (clone_char src prior cidx oidx seeds arch Hdesc Hout) as Hchar.
    assert (Hwf : idx_wf D cidx) by apply Hdesc.
    cbv zeta in Hchar.
    set (idx1 := filter (fun e => negb (inoi oidx (fst e))) cidx) in *.
    set (idx2 := fold_left ci_remove (map fst seeds) idx1) in *.
    destruct Hchar as [st1 [_ [_ [_ [_ [_ Hfetch]]]]]].
    rewrite Hfetch. rewrite (map_filter_fst (ci_contains idx2)).
    apply filter_ext_in. intros k Hk.
    destruct Harch as [_ Hac]. apply Hac in Hk. apply keys_ci_get in Hk. destruct Hk as [l Hl].
    unfold ci_contains at 1. unfold idx2. rewrite ci_get_removes by (apply keys_filter_NoDup; apply Hwf).
    unfold idx1. rewrite ci_get_idx1, Hl. unfold found. fold (inoi oidx k).
    destruct (memk k (map fst seeds)); destruct (inoi oidx k); reflexivity.
  Qed.

  (* ---------- C13 ---------- *)
  Theorem write_trace_spec : forall src prior cidx oidx seeds arch,
    describes D cidx src -> out_ok oidx prior ->
    sound_feeds seeds -> sound_feeds arch -> arch_complete cidx arch ->
    let ws := writes_of 0 (o_trace (cr_state (clone_model prior None cidx oidx seeds arch))) in
    (forall o d, In (o, d) ws ->
        exists k, occ cidx k o /\ d = D k /\ o + lenN d <= lenN src
                  /\ match oidx with Some oi => ~ occ oi k o | None => True end)
    /\ NoDup (map fst ws).
  Proof.
    intros src prior cidx oidx seeds arch Hdesc Hout Hss Hsa Harch ws.
    pose proof (clone_char src prior cidx oidx seeds arch Hdesc Hout) as Hchar.
    assert (Hwf : idx_wf D cidx) by apply Hdesc.
    assert (Hdis : disjoint_occs D cidx) by apply Hdesc.
    assert (Hsrc : idx_in_file D cidx src) by apply Hdesc.
    pose proof (tail_facts cidx oidx seeds arch Hwf Hss Hsa Harch) as Htail.
    cbv zeta in Hchar, Htail.
    set (idx1 := filter (fun e => negb (inoi oidx (fst e))) cidx) in *.
    set (idx2 := fold_left ci_remove (map fst seeds) idx1) in *.
    set (fetch := filter (fun kd => ci_contains idx2 (fst kd)) arch) in *.
    destruct Hchar as [st1 [Hp1 [_ [_ [_ [Htr _]]]]]].
    destruct Htail as [Hsound [Hnd1 _]].
    destruct Hp1 as [_ [_ [_ [Hw1 Hnd]]]].
    unfold ws. rewrite Htr. clear ws Htr.
    assert (Hbound : forall k o, occ cidx k o -> o + lenN (D k) <= lenN src)
      by (intros k o Hocc; apply (Hsrc k o Hocc)).
    split.
    - intros o d Hin. apply in_app_or in Hin. destruct Hin as [Hin|Hin].
      + destruct (Hw1 o d Hin) as [k [Hocc [_ [Hd Hnp]]]]. exists k. subst d. auto.
      + destruct (feed_writes_idx_writes cidx oidx _ Hwf Hsound o d Hin) as [k [Hocc [Hi Hd]]].
        exists k. subst d. split; [exact Hocc|]. split; [reflexivity|]. split; [now apply Hbound|].
        destruct oidx as [oi|]; [|exact I]. intros Hoi. apply occ_contains in Hoi.
        cbn [inoi] in Hi. congruence.
    - rewrite map_app. apply NoDup_app_intro; [exact Hnd| |].
      + apply feed_writes_NoDup; [exact Hnd1| |].
        * intros k l Hg. unfold idx1 in Hg. rewrite ci_get_idx1 in Hg.
          destruct (inoi oidx k); [discriminate|]. eapply wf_offs_NoDup; eassumption.
        * intros k1 k2 o H1 H2. apply occ_idx1 in H1. apply occ_idx1 in H2.
          apply (occ_inj cidx k1 k2 o Hwf Hdis); tauto.
      + intros o H1 H2. apply in_map_iff in H1. destruct H1 as [[o1 d1] [E1 H1]].
        apply in_map_iff in H2. destruct H2 as [[o2 d2] [E2 H2]]. cbn [fst] in E1, E2. subst o1 o2.
        destruct (Hw1 o d1 H1) as [k1 [Hocc1 [Hi1 _]]].
        destruct (feed_writes_idx_writes cidx oidx _ Hwf Hsound o d2 H2) as [k2 [Hocc2 [Hi2 _]]].
        assert (k1 = k2) by (apply (occ_inj cidx k1 k2 o Hwf Hdis); assumption). subst k2. congruence.
  Qed.

  (* ---------- C05 (ii): simulation of the fault-free run by the faulty run up to the failing write ---------- *)
  Definition sim (k t : N) (s0 s : ostate) : Prop :=
    o_file s0 = o_file s /\ o_trace s0 = o_trace s /\ o_nwrites s0 = o_nwrites s /\ o_err s0 = o_err s /\
    o_fault s0 = None /\ o_fault s = Some (k, t) /\ o_nwrites s <= k.

  Definition failed (s : ostate) : Prop := o_err s <> None.

  Definition simT {B C : Type} (k t : N) (x0 x : ostate * B * C) : Prop :=
    (sim k t (fst (fst x0)) (fst (fst x)) /\ snd (fst x0) = snd (fst x) /\ snd x0 = snd x)
    \/ failed (fst (fst x)).

  Lemma seek_write_stuck : forall s o d, failed s -> o_seek_write s o d = s.
  Proof. intros s o d H. unfold o_seek_write. unfold failed in H. destruct (o_err s); [reflexivity|congruence]. Qed.

  Lemma write_offsets_stuck : forall offs s d, failed s -> write_offsets s offs d = s.
  Proof.
    induction offs as [|o offs IH]; intros s d H; cbn [write_offsets fold_left]; [reflexivity|].
    rewrite seek_write_stuck by exact H. now apply IH.
  Qed.

  Lemma seek_write_sim : forall k t s0 s o d, sim k t s0 s ->
    sim k t (o_seek_write s0 o d) (o_seek_write s o d) \/ failed (o_seek_write s o d).
  Proof.
    intros k t s0 s o d H. pose proof H as [Hf [Ht [Hn [He [Hf0 [Hf1 Hle]]]]]].
    unfold o_seek_write, faulty. rewrite Hf0, Hf1, He, Hn, Hf, Ht.
    destruct (o_err s) eqn:Ee.
    - left. exact H.
    - destruct (N.eqb_spec (o_nwrites s) k) as [E|Hne].
      + right. unfold failed. cbn. discriminate.
      + left. unfold sim. cbn. repeat split; try reflexivity; try assumption. lia.
  Qed.

  Lemma write_offsets_sim : forall k t offs s0 s d, sim k t s0 s ->
    sim k t (write_offsets s0 offs d) (write_offsets s offs d) \/ failed (write_offsets s offs d).
  Proof.
    intros k t. induction offs as [|o offs IH]; intros s0 s d H; cbn [write_offsets fold_left]; [now left|].
    destruct (seek_write_sim k t s0 s o d H) as [H1|H1].
    - apply IH. exact H1.
    - right. fold (write_offsets (o_seek_write s o d) offs d). now rewrite write_offsets_stuck.
  Qed.

  Lemma seek_read_sim : forall k t s0 s o n, sim k t s0 s ->
    sim k t (fst (o_seek_read s0 o n)) (fst (o_seek_read s o n))
    /\ snd (o_seek_read s0 o n) = snd (o_seek_read s o n).
  Proof.
    intros k t s0 s o n H. pose proof H as [Hf [Ht [Hn [He [Hf0 [Hf1 Hle]]]]]].
    unfold o_seek_read. rewrite He, Hf, Ht, Hn, Hf0, Hf1.
    destruct (o_err s) eqn:Ee; [split; [exact H|reflexivity]|].
    destruct (o + n <=? lenN (o_file s)); cbn [fst snd]; (split; [|reflexivity]);
      unfold sim; cbn; repeat split; assumption.
  Qed.

  Lemma feed_sim : forall k t s0 s idx key d, sim k t s0 s ->
    simT k t (feed s0 idx key d) (feed s idx key d).
  Proof.
    intros k t s0 s idx key d H. pose proof H as [_ [_ [_ [He _]]]].
    unfold feed. rewrite He. destruct (o_err s); [left; cbn; auto|].
    destruct (ci_get idx key) as [l|]; [|left; cbn; auto].
    destruct (write_offsets_sim k t (l_offs l) s0 s d H) as [H1|H1]; [left|right]; cbn; auto.
  Qed.

  Lemma feed_step_sim : forall k t acc0 acc kd, simT k t acc0 acc -> simT k t (feed_step acc0 kd) (feed_step acc kd).
  Proof.
    intros k t [[s0 i0] fed0] [[s i] fed] kd [[H [Ei Ef]]|H]; cbn [fst snd] in *.
    - subst i0 fed0. pose proof H as [_ [_ [_ [He _]]]].
      unfold feed_step. rewrite He. destruct (o_err s) eqn:Ee; [left; cbn; auto|].
      pose proof (feed_sim k t s0 s i (fst kd) (snd kd) H) as Hfeed.
      destruct (feed s0 i (fst kd) (snd kd)) as [[s0' i0'] n0].
      destruct (feed s i (fst kd) (snd kd)) as [[s' i'] n'].
      destruct Hfeed as [[H' [Ei' En]]|H']; cbn [fst snd] in *.
      + subst i0' n0. left. cbn [fst snd]. pose proof H' as [_ [_ [_ [He' _]]]]. rewrite He'. auto.
      + right. exact H'.
    - right. unfold feed_step. pose proof H as H'. unfold failed in H'.
      destruct (o_err s) eqn:Ee; [|congruence]. cbn [fst]. unfold failed. rewrite Ee. discriminate.
  Qed.

  Lemma feed_fold_sim : forall k t feeds acc0 acc, simT k t acc0 acc ->
    simT k t (fold_left feed_step feeds acc0) (fold_left feed_step feeds acc).
  Proof.
    intros k t. induction feeds as [|kd feeds IH]; intros acc0 acc H; cbn [fold_left]; [exact H|].
    apply IH. now apply feed_step_sim.
  Qed.

  Lemma feed_list_sim : forall k t feeds s0 s idx, sim k t s0 s ->
    simT k t (feed_list s0 idx feeds) (feed_list s idx feeds).
  Proof.
    intros k t feeds s0 s idx H. rewrite !feed_list_fold. apply feed_fold_sim. left. cbn. auto.
  Qed.

  Lemma feed_list_stuck : forall feeds s idx, failed s -> feed_list s idx feeds = (s, idx, []).
  Proof.
    intros feeds s idx H. rewrite feed_list_fold. generalize (@nil N) as fed.
    induction feeds as [|kd feeds IH]; intros fed; cbn [fold_left]; [reflexivity|].
    unfold feed_step at 2. unfold failed in H. destruct (o_err s) eqn:Ee; [apply IH|congruence].
  Qed.

  Lemma exec_ops_stuck : forall ops s idx mem moved, failed s -> exec_ops ops s idx mem moved = (s, idx, moved).
  Proof.
    intros ops s idx mem moved H. unfold failed in H.
    destruct ops; cbn [exec_ops]; destruct (o_err s); congruence.
  Qed.

  Lemma exec_ops_sim : forall k t ops s0 s idx mem moved, sim k t s0 s ->
    simT k t (exec_ops ops s0 idx mem moved) (exec_ops ops s idx mem moved).
  Proof.
    intros k t. induction ops as [|op ops IH]; intros s0 s idx mem moved H;
      pose proof H as [_ [_ [_ [He _]]]]; cbn [exec_ops]; rewrite He.
    - destruct (o_err s); left; cbn; auto.
    - destruct (o_err s) eqn:Ee; [left; cbn; auto|].
      destruct op as [key size src dests|key size src].
      + destruct (store_get mem key) as [d|].
        * destruct (write_offsets_sim k t dests s0 s d H) as [H1|H1]; [now apply IH|].
          right. rewrite exec_ops_stuck by exact H1. exact H1.
        * pose proof (seek_read_sim k t s0 s src size H) as [Hr Hd].
          destruct (o_seek_read s0 src size) as [s1 d1]. destruct (o_seek_read s src size) as [s1' d1'].
          cbn [fst snd] in Hr, Hd. subst d1'.
          destruct (write_offsets_sim k t dests s1 s1' d1 Hr) as [H1|H1]; [now apply IH|].
          right. rewrite exec_ops_stuck by exact H1. exact H1.
      + destruct (store_get mem key) as [d|]; [now apply IH|].
        pose proof (seek_read_sim k t s0 s src size H) as [Hr Hd].
        destruct (o_seek_read s0 src size) as [s1 d1]. destruct (o_seek_read s src size) as [s1' d1'].
        cbn [fst snd] in Hr, Hd. subst d1'. now apply IH.
  Qed.

  Lemma reorder_in_place_sim : forall k t s0 s cidx oi, sim k t s0 s ->
    simT k t (reorder_in_place s0 cidx oi) (reorder_in_place s cidx oi).
  Proof.
    intros k t s0 s cidx oi H. unfold reorder_in_place.
    destruct (strip_in_place oi cidx) as [[c' n] tot].
    pose proof (exec_ops_sim k t (reorder_ops oi c') s0 s c' [] 0 H) as Hx.
    destruct (exec_ops (reorder_ops oi c') s0 c' [] 0) as [[s0' i0'] m0].
    destruct (exec_ops (reorder_ops oi c') s c' [] 0) as [[s' i'] m'].
    destruct Hx as [[H' [Ei Em]]|H']; cbn [fst snd] in *; [left|right]; cbn [fst snd]; auto.
    subst. auto.
  Qed.

  (* phases 2 and 3 as a function of the state and index after phase 1 *)
  Definition clone_tail (st1 : ostate) (idx1 : index) (seeds arch : list (N * list N)) : ostate :=
    let '(st2, idx2, fed2) := feed_list st1 idx1 seeds in
    let fetch := match o_err st2 with
                 | None => filter (fun kd => ci_contains idx2 (fst kd)) arch
                 | Some _ => [] end in
    let '(st3, idx3, fed3) := feed_list st2 idx2 fetch in st3.

  Lemma clone_state_tail : forall prior fault cidx oidx seeds arch,
    cr_state (clone_model prior fault cidx oidx seeds arch) =
    let '(st1, idx1, moved) :=
      match oidx with
      | Some oi => reorder_in_place (o_init prior fault) cidx oi
      | None => (o_init prior fault, cidx, 0)
      end in clone_tail st1 idx1 seeds arch.
  Proof.
    intros prior fault cidx oidx seeds arch. unfold clone_model, clone_tail. cbv zeta.
    destruct (match oidx with
              | Some oi => reorder_in_place (o_init prior fault) cidx oi
              | None => (o_init prior fault, cidx, 0)
              end) as [[st1 idx1] moved].
    destruct (feed_list st1 idx1 seeds) as [[st2 idx2] fed2].
    destruct (feed_list st2 idx2 _) as [[st3 idx3] fed3]. reflexivity.
  Qed.

  Lemma clone_tail_stuck : forall s idx seeds arch, failed s -> failed (clone_tail s idx seeds arch).
  Proof.
    intros s idx seeds arch H. unfold clone_tail. rewrite feed_list_stuck by exact H.
    pose proof H as H'. unfold failed in H'. destruct (o_err s) eqn:Ee; [|congruence].
    rewrite feed_list_stuck by exact H. exact H.
  Qed.

  Lemma clone_tail_sim : forall k t s0 s idx seeds arch, sim k t s0 s ->
    sim k t (clone_tail s0 idx seeds arch) (clone_tail s idx seeds arch) \/ failed (clone_tail s idx seeds arch).
  Proof.
    intros k t s0 s idx seeds arch H. unfold clone_tail.
    pose proof (feed_list_sim k t seeds s0 s idx H) as H2.
    destruct (feed_list s0 idx seeds) as [[s2 i2] f2]. destruct (feed_list s idx seeds) as [[s2' i2'] f2'].
    destruct H2 as [[H2 [Ei _]]|H2]; cbn [fst snd] in *.
    - subst i2'. pose proof H2 as [_ [_ [_ [He _]]]]. rewrite He.
      set (fetch := match o_err s2' with
                    | None => filter (fun kd => ci_contains i2 (fst kd)) arch
                    | Some _ => [] end).
      pose proof (feed_list_sim k t fetch s2 s2' i2 H2) as H3.
      destruct (feed_list s2 i2 fetch) as [[s3 i3] f3]. destruct (feed_list s2' i2 fetch) as [[s3' i3'] f3'].
      destruct H3 as [[H3 _]|H3]; cbn [fst snd] in *; [now left|now right].
    - right. rewrite feed_list_stuck by exact H2. exact H2.
  Qed.

  Theorem failed_write_not_ok : forall prior cidx oidx seeds arch k t,
    k < o_nwrites (cr_state (clone_model prior None cidx oidx seeds arch)) ->
    o_err (cr_state (clone_model prior None cidx oidx seeds arch)) = None ->
    o_err (cr_state (clone_model prior (Some (k, t)) cidx oidx seeds arch)) <> None.
  Proof.
    intros prior cidx oidx seeds arch k t Hk _.
    rewrite clone_state_tail in Hk. rewrite clone_state_tail.
    assert (H0 : sim k t (o_init prior None) (o_init prior (Some (k, t)))).
    { unfold sim, o_init. cbn. repeat split; try reflexivity. lia. }
    assert (Hfin : forall s0 s idx, sim k t s0 s -> k < o_nwrites (clone_tail s0 idx seeds arch) ->
                   failed (clone_tail s idx seeds arch)).
    { intros s0 s idx Hs Hlt. destruct (clone_tail_sim k t s0 s idx seeds arch Hs) as [H|H]; [|exact H].
      destruct H as [_ [_ [Hn [_ [_ [_ Hle]]]]]]. lia. }
    destruct oidx as [oi|].
    - pose proof (reorder_in_place_sim k t _ _ cidx oi H0) as H1.
      destruct (reorder_in_place (o_init prior None) cidx oi) as [[s1 i1] m1].
      destruct (reorder_in_place (o_init prior (Some (k, t))) cidx oi) as [[s1' i1'] m1'].
      destruct H1 as [[H1 [Ei _]]|H1]; cbn [fst snd] in *.
      + subst i1'. exact (Hfin s1 s1' i1 H1 Hk).
      + now apply clone_tail_stuck.
    - exact (Hfin _ _ cidx H0 Hk).
  Qed.
End CloneTheorems.

(* After the section is closed the first three theorems take D and the planner lemma
   [reorder_exec_correct] as explicit premises; [failed_write_not_ok] depends on neither. *)
Print Assumptions clone_exact.
Print Assumptions fetch_exact.
Print Assumptions write_trace_spec.
Print Assumptions failed_write_not_ok.
