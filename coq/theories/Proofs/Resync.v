(* Chunk boundaries of the stateless chunking specification resynchronise:
   two streams sharing a suffix and a chunk boundary inside it (at least one window in)
   have identical chunks from that boundary on. *)
From Bita Require Import Model.Base Gen.Generated Model.RollSum Model.BuzHash Model.Chunker Model.ChunkSpec.

Definition ends_at (l : list (N * N)) (e : N) : Prop := exists o n, In (o, n) l /\ o + n = e.
Definition after (e : N) (l : list (N * N)) : list (N * N) := filter (fun c => e <=? fst c) l.
Definition shift (d : N) (l : list (N * N)) : list (N * N) := map (fun c => (fst c - d, snd c)) l.

(* ---------- after / shift ---------- *)
Lemma after_cons : forall e c l,
  after e (c :: l) = if e <=? fst c then c :: after e l else after e l.
Proof. reflexivity. Qed.

Lemma after_cons_lt : forall e c l, fst c < e -> after e (c :: l) = after e l.
Proof.
  intros e c l H. rewrite after_cons. destruct (N.leb_spec e (fst c)) as [H1|H1]; [lia|reflexivity].
Qed.

Lemma after_all : forall e l, (forall c, In c l -> e <= fst c) -> after e l = l.
Proof.
  intros e l. induction l as [|c l IH]; intros H.
  - reflexivity.
  - rewrite after_cons. destruct (N.leb_spec e (fst c)) as [H1|H1].
    + f_equal. apply IH. intros c' Hc'. apply H. right. exact Hc'.
    + specialize (H c (or_introl eq_refl)). lia.
Qed.

Lemma shift_cons : forall d c l, shift d (c :: l) = (fst c - d, snd c) :: shift d l.
Proof. reflexivity. Qed.

(* ---------- list helpers ---------- *)
Lemma lenN_app : forall (A : Type) (a b : list A), lenN (a ++ b) = lenN a + lenN b.
Proof.
  intros A a b. induction a as [|x a IH]; cbn [lenN app].
  - rewrite N.add_0_l. reflexivity.
  - rewrite IH. lia.
Qed.

Lemma lenN_length : forall (A : Type) (l : list A), lenN l = N.of_nat (length l).
Proof.
  intros A l. induction l as [|x l IH]; cbn [lenN length].
  - reflexivity.
  - rewrite IH. lia.
Qed.

Lemma takeN_app_len : forall (A : Type) (P S : list A) j,
  takeN (lenN P + j) (P ++ S) = P ++ takeN j S.
Proof.
  intros A P S j. induction P as [|x P IH]; cbn [lenN app takeN].
  - rewrite N.add_0_l. reflexivity.
  - destruct (N.eqb_spec (N.succ (lenN P) + j) 0) as [H|H]; [lia|].
    f_equal. replace (N.pred (N.succ (lenN P) + j)) with (lenN P + j) by lia. exact IH.
Qed.

Lemma dropN_app_len : forall (A : Type) (X Y : list A) m,
  dropN (lenN X + m) (X ++ Y) = dropN m Y.
Proof.
  intros A X Y m. induction X as [|x X IH]; cbn [lenN app dropN].
  - rewrite N.add_0_l. reflexivity.
  - destruct (N.eqb_spec (N.succ (lenN X) + m) 0) as [H|H]; [lia|].
    replace (N.pred (N.succ (lenN X) + m)) with (lenN X + m) by lia. exact IH.
Qed.

Lemma lenN_takeN : forall (A : Type) (S : list A) j, j <= lenN S -> lenN (takeN j S) = j.
Proof.
  intros A S. induction S as [|x S IH]; intros j H; cbn [takeN lenN] in *.
  - lia.
  - destruct (N.eqb_spec j 0) as [H0|H0].
    + cbn [lenN]. lia.
    + cbn [lenN]. rewrite IH by lia. lia.
Qed.

Lemma lastN_app : forall (A : Type) (X Y : list A) W,
  W <= lenN Y -> lastN W (X ++ Y) = lastN W Y.
Proof.
  intros A X Y W H. unfold lastN. rewrite lenN_app.
  replace (lenN X + lenN Y - W) with (lenN X + (lenN Y - W)) by lia.
  apply dropN_app_len.
Qed.

(* ---------- rolling algorithms ---------- *)
Section Rolling.
  Variable cfg : config.
  Variable lit : bool.

  (* locality of the window *)
  Lemma win_at_local : forall P S j,
    c_win cfg <= j -> j <= lenN S ->
    win_at cfg (P ++ S) (lenN P + j) = lastN (c_win cfg) (takeN j S).
  Proof.
    intros P S j Hw Hj. unfold win_at. rewrite takeN_app_len, app_assoc.
    apply lastN_app. rewrite lenN_takeN; lia.
  Qed.

  Lemma pure_match_local : forall P1 P2 S j,
    c_win cfg <= j -> j <= lenN S ->
    pure_match cfg (P1 ++ S) (lenN P1 + j) = pure_match cfg (P2 ++ S) (lenN P2 + j).
  Proof.
    intros P1 P2 S j Hw Hj. unfold pure_match.
    rewrite (win_at_local P1 S j Hw Hj), (win_at_local P2 S j Hw Hj). reflexivity.
  Qed.

  Lemma tested_local : forall a b j p,
    c_win cfg <= j -> 1 <= p ->
    tested cfg lit (a + j) p = tested cfg lit (b + j) p.
  Proof.
    intros a b j p Hw Hp. unfold tested. f_equal.
    destruct (c_algo cfg); try reflexivity.
    destruct lit.
    - destruct (N.leb_spec (c_win cfg) (a + j + p)), (N.leb_spec (c_win cfg) (b + j + p)); try lia; reflexivity.
    - destruct (N.leb_spec (c_win cfg + 1) (a + j + p)), (N.leb_spec (c_win cfg + 1) (b + j + p)); try lia; reflexivity.
  Qed.

  (* generic facts about one stream *)
  Section One.
    Variable data : list N.
    Variable total : N.

    Lemma scan_bounds : forall f s p0,
      1 <= p0 -> s + p0 <= total ->
      p0 <= spec_scan cfg lit f data total s p0 /\ s + spec_scan cfg lit f data total s p0 <= total.
    Proof.
      induction f as [|f IH]; intros s p0 H1 H2; cbn [spec_scan].
      - lia.
      - destruct ((c_max cfg <=? p0) || (tested cfg lit s p0 && pure_match cfg data (s + p0))); [lia|].
        destruct (N.leb_spec total (s + p0)) as [H3|H3]; [lia|].
        specialize (IH s (p0 + 1)). lia.
    Qed.

    Lemma from_offsets : forall f s o n,
      In (o, n) (spec_chunks_from cfg lit f data total s) -> s <= o /\ 1 <= n /\ o + n <= total.
    Proof.
      induction f as [|f IH]; intros s o n H; cbn [spec_chunks_from] in H.
      - contradiction.
      - destruct (N.leb_spec total s) as [H1|H1]; [contradiction|].
        pose proof (scan_bounds (S (length data)) s 1) as Hb.
        remember (spec_scan cfg lit (S (length data)) data total s 1) as p eqn:Ep. clear Ep.
        destruct H as [H|H].
        + inversion H; subst. lia.
        + apply IH in H. lia.
    Qed.

    (* the chunk list is restartable at any of its boundaries *)
    Lemma after_from : forall f s e,
      (N.to_nat (total - s) < f)%nat ->
      e = s \/ ends_at (spec_chunks_from cfg lit f data total s) e ->
      exists f', (N.to_nat (total - e) < f')%nat /\
                 after e (spec_chunks_from cfg lit f data total s) = spec_chunks_from cfg lit f' data total e.
    Proof.
      induction f as [|f IH]; intros s e Hf H; [lia|].
      destruct H as [->|H].
      - exists (S f). split; [exact Hf|]. apply after_all. intros [o n] Hin.
        apply from_offsets in Hin. cbn [fst]. lia.
      - cbn [spec_chunks_from] in *.
        destruct (N.leb_spec total s) as [H1|H1].
        + destruct H as (o & n & [] & _).
        + pose proof (scan_bounds (S (length data)) s 1) as Hb.
          remember (spec_scan cfg lit (S (length data)) data total s 1) as p eqn:Ep. clear Ep.
          destruct H as (o & n & [Heq|Hin] & He).
          * inversion Heq; subst o n. rewrite after_cons_lt by (cbn [fst]; lia).
            apply IH; [lia|]. left. symmetry. exact He.
          * pose proof (from_offsets _ _ _ _ Hin) as Ho.
            rewrite after_cons_lt by (cbn [fst]; lia).
            apply IH; [lia|]. right. exists o, n. split; assumption.
    Qed.
  End One.

  Section Two.
    Variables P1 P2 S : list N.
    Let L := lenN S.

    Lemma scan_local : forall f1 f2 j p,
      (N.to_nat (L - (j + p)) < f1)%nat -> (N.to_nat (L - (j + p)) < f2)%nat ->
      c_win cfg <= j -> 1 <= p -> j + p <= L ->
      spec_scan cfg lit f1 (P1 ++ S) (lenN P1 + L) (lenN P1 + j) p
      = spec_scan cfg lit f2 (P2 ++ S) (lenN P2 + L) (lenN P2 + j) p.
    Proof.
      induction f1 as [|f1 IH]; intros f2 j p Hf1 Hf2 Hw Hp Hjp; [lia|].
      destruct f2 as [|f2]; [lia|].
      cbn [spec_scan].
      rewrite (tested_local (lenN P1) (lenN P2) j p Hw Hp).
      rewrite <- !N.add_assoc.
      rewrite (pure_match_local P1 P2 S (j + p)) by (unfold L in *; lia).
      destruct ((c_max cfg <=? p) || (tested cfg lit (lenN P2 + j) p && pure_match cfg (P2 ++ S) (lenN P2 + (j + p)))); [reflexivity|].
      destruct (N.leb_spec (lenN P1 + L) (lenN P1 + (j + p))) as [H1|H1],
               (N.leb_spec (lenN P2 + L) (lenN P2 + (j + p))) as [H2|H2]; try lia; try reflexivity.
      apply IH; lia.
    Qed.

    Lemma chunks_local : forall f1 f2 j,
      (N.to_nat (L - j) < f1)%nat -> (N.to_nat (L - j) < f2)%nat ->
      c_win cfg <= j -> j <= L ->
      shift (lenN P1) (spec_chunks_from cfg lit f1 (P1 ++ S) (lenN P1 + L) (lenN P1 + j))
      = shift (lenN P2) (spec_chunks_from cfg lit f2 (P2 ++ S) (lenN P2 + L) (lenN P2 + j)).
    Proof.
      induction f1 as [|f1 IH]; intros f2 j Hf1 Hf2 Hw Hj; [lia|].
      destruct f2 as [|f2]; [lia|].
      cbn [spec_chunks_from].
      destruct (N.leb_spec (lenN P1 + L) (lenN P1 + j)) as [H1|H1],
               (N.leb_spec (lenN P2 + L) (lenN P2 + j)) as [H2|H2]; try lia; try reflexivity.
      assert (Hlen1 : (N.to_nat L <= length (P1 ++ S))%nat).
      { unfold L. rewrite lenN_length, app_length. lia. }
      assert (Hlen2 : (N.to_nat L <= length (P2 ++ S))%nat).
      { unfold L. rewrite lenN_length, app_length. lia. }
      pose proof (scan_local (Datatypes.S (length (P1 ++ S))) (Datatypes.S (length (P2 ++ S))) j 1) as Heq.
      pose proof (scan_bounds (P1 ++ S) (lenN P1 + L) (Datatypes.S (length (P1 ++ S))) (lenN P1 + j) 1) as Hb.
      rewrite <- Heq by lia.
      remember (spec_scan cfg lit (Datatypes.S (length (P1 ++ S))) (P1 ++ S) (lenN P1 + L) (lenN P1 + j) 1) as p eqn:Ep.
      clear Ep Heq.
      rewrite !shift_cons. cbn [fst snd]. f_equal.
      - f_equal. lia.
      - rewrite <- !N.add_assoc. apply IH; lia.
    Qed.
  End Two.
End Rolling.

(* ---------- fixed size ---------- *)
Section Fixed.
  Variable size : N.
  Hypothesis Hsize : 1 <= size.

  Lemma fixed_fuel : forall f1 f2 start total,
    (N.to_nat total < f1)%nat -> (N.to_nat total < f2)%nat ->
    fixed_chunks size start total f1 = fixed_chunks size start total f2.
  Proof.
    induction f1 as [|f1 IH]; intros f2 start total H1 H2; [lia|].
    destruct f2 as [|f2]; [lia|].
    cbn [fixed_chunks].
    destruct (N.eqb_spec total 0) as [H0|H0]; [reflexivity|].
    destruct (N.leb_spec size total) as [H3|H3]; [|reflexivity].
    f_equal. apply IH; lia.
  Qed.

  Lemma fixed_skip : forall (q : nat) f start L e,
    (N.to_nat (N.of_nat q * size + L) < f)%nat ->
    start + N.of_nat q * size <= e ->
    exists f', (N.to_nat L < f')%nat /\
      after e (fixed_chunks size start (N.of_nat q * size + L) f)
      = after e (fixed_chunks size (start + N.of_nat q * size) L f').
  Proof.
    induction q as [|q IH]; intros f start L e Hf He.
    - exists f. cbn [N.of_nat] in *. rewrite N.mul_0_l, N.add_0_l, N.add_0_r in *.
      split; [exact Hf|reflexivity].
    - rewrite Nat2N.inj_succ, N.mul_succ_l in *.
      remember (N.of_nat q * size) as m eqn:Em.
      destruct f as [|f]; [lia|].
      cbn [fixed_chunks].
      destruct (N.eqb_spec (m + size + L) 0) as [H0|H0]; [lia|].
      destruct (N.leb_spec size (m + size + L)) as [H3|H3]; [|lia].
      rewrite after_cons_lt by (cbn [fst]; lia).
      replace (m + size + L - size) with (m + L) by lia.
      replace (start + (m + size)) with (start + size + m) by lia.
      subst m. apply IH; lia.
  Qed.

  Lemma fixed_shift_after : forall f d start total k,
    shift d (after (d + k) (fixed_chunks size (d + start) total f))
    = after k (fixed_chunks size start total f).
  Proof.
    induction f as [|f IH]; intros d start total k; cbn [fixed_chunks].
    - reflexivity.
    - destruct (total =? 0); [reflexivity|].
      destruct (size <=? total).
      + rewrite !after_cons. cbn [fst].
        destruct (N.leb_spec (d + k) (d + start)) as [H1|H1],
                 (N.leb_spec k start) as [H2|H2]; try lia.
        * rewrite shift_cons. cbn [fst snd]. f_equal.
          -- f_equal. lia.
          -- rewrite <- N.add_assoc. apply IH.
        * rewrite <- N.add_assoc. apply IH.
      + rewrite !after_cons. cbn [fst].
        destruct (N.leb_spec (d + k) (d + start)) as [H1|H1],
                 (N.leb_spec k start) as [H2|H2]; try lia.
        * rewrite shift_cons. cbn [fst snd]. f_equal. f_equal. lia.
        * reflexivity.
  Qed.

  (* chunks of an aligned-prefix stream from position lenP + k on, shifted back, depend only on L, k *)
  Lemma fixed_resync_one : forall lenP L k f,
    lenP mod size = 0 ->
    (N.to_nat (lenP + L) < f)%nat ->
    shift lenP (after (lenP + k) (fixed_chunks size 0 (lenP + L) f))
    = after k (fixed_chunks size 0 L (S (N.to_nat L))).
  Proof.
    intros lenP L k f Hmod Hf.
    apply N.mod_divides in Hmod; [|lia].
    destruct Hmod as [c Hc].
    assert (Hq : lenP = N.of_nat (N.to_nat c) * size) by (rewrite N2Nat.id; lia).
    remember (N.to_nat c) as q eqn:Eq. clear Eq Hc c.
    subst lenP.
    destruct (fixed_skip q f 0 L (N.of_nat q * size + k)) as (f' & Hf' & E); [exact Hf|lia|].
    rewrite E. rewrite N.add_0_l.
    rewrite (fixed_fuel f' (S (N.to_nat L)) (N.of_nat q * size) L) by lia.
    rewrite <- (N.add_0_r (N.of_nat q * size)) at 3.
    apply fixed_shift_after.
  Qed.
End Fixed.

(* ---------- main theorem ---------- *)
Theorem spec_resync : forall cfg lit P1 P2 S k,
  valid_config cfg = true ->
  c_win cfg <= k -> 0 < k ->
  (c_algo cfg = AFixed -> (lenN P1) mod (c_max cfg) = 0 /\ (lenN P2) mod (c_max cfg) = 0) ->
  ends_at (spec_chunks cfg lit (P1 ++ S)) (lenN P1 + k) ->
  ends_at (spec_chunks cfg lit (P2 ++ S)) (lenN P2 + k) ->
  shift (lenN P1) (after (lenN P1 + k) (spec_chunks cfg lit (P1 ++ S)))
  = shift (lenN P2) (after (lenN P2 + k) (spec_chunks cfg lit (P2 ++ S))).
Proof.
  intros cfg lit P1 P2 S k Hv Hw Hk Hfix He1 He2.
  assert (Rolling : c_algo cfg <> AFixed ->
    ends_at (spec_chunks_from cfg lit (Datatypes.S (length (P1 ++ S))) (P1 ++ S) (lenN (P1 ++ S)) 0) (lenN P1 + k) ->
    ends_at (spec_chunks_from cfg lit (Datatypes.S (length (P2 ++ S))) (P2 ++ S) (lenN (P2 ++ S)) 0) (lenN P2 + k) ->
    shift (lenN P1) (after (lenN P1 + k) (spec_chunks_from cfg lit (Datatypes.S (length (P1 ++ S))) (P1 ++ S) (lenN (P1 ++ S)) 0))
    = shift (lenN P2) (after (lenN P2 + k) (spec_chunks_from cfg lit (Datatypes.S (length (P2 ++ S))) (P2 ++ S) (lenN (P2 ++ S)) 0))).
  { intros _ E1 E2.
    assert (HkL : k <= lenN S).
    { destruct E1 as (o & n & Hin & Hon). apply from_offsets in Hin.
      rewrite lenN_app in Hin. lia. }
    destruct (after_from cfg lit (P1 ++ S) (lenN (P1 ++ S)) (Datatypes.S (length (P1 ++ S))) 0 (lenN P1 + k)) as (f1 & Hf1 & A1);
      [rewrite lenN_length; lia | right; exact E1 |].
    destruct (after_from cfg lit (P2 ++ S) (lenN (P2 ++ S)) (Datatypes.S (length (P2 ++ S))) 0 (lenN P2 + k)) as (f2 & Hf2 & A2);
      [rewrite lenN_length; lia | right; exact E2 |].
    rewrite A1, A2. rewrite ?lenN_app in *.
    apply chunks_local; lia. }
  unfold spec_chunks in *.
  destruct (c_algo cfg) eqn:Ea.
  - apply Rolling; [discriminate|assumption|assumption].
  - apply Rolling; [discriminate|assumption|assumption].
  - destruct (Hfix eq_refl) as [Hm1 Hm2].
    assert (Hsz : 1 <= c_max cfg).
    { unfold valid_config in Hv. rewrite Ea in Hv. apply N.leb_le. exact Hv. }
    rewrite !lenN_app.
    rewrite (fixed_resync_one (c_max cfg) Hsz (lenN P1) (lenN S) k) by
      (try assumption; rewrite (lenN_length _ P1), (lenN_length _ S), app_length; lia).
    rewrite (fixed_resync_one (c_max cfg) Hsz (lenN P2) (lenN S) k) by
      (try assumption; rewrite (lenN_length _ P2), (lenN_length _ S), app_length; lia).
    reflexivity.
Qed.

Print Assumptions spec_resync.
