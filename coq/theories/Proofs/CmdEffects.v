(* Theorems about the command orchestration model for C16 (kept apart from the C14 theorems so that a
   change breaking one of them is not reported against the other). *)
From Bita Require Import Model.Base Gen.Generated Model.Cmd.

(* C16, clone: the only path opened for writing / created is the output; nothing is unlinked; the output is
   never truncated at open *)
Theorem clone_effects : forall env,
  let r := clone_cmd_model env in
  Forall (fun e => match e with EOpenW t _ _ tr _ => t = 0 /\ tr = false | EUnlink _ => False | _ => True end) (s_eff r).
Proof.
  intros [[fc so vo] ar pn out src]. cbv zeta. unfold clone_cmd_model, run_clone, clone_step_order.
  destruct ar; destruct pn; destruct fc; destruct so; destruct vo; destruct out; cbn;
    repeat match goal with
           | |- context [if ?b then _ else _] => destruct b; cbn
           end; repeat constructor.
Qed.

(* C16, compress: a successful run creates the temp file and the archive, removes the temp file, and ends
   with the archive as a regular file *)
Theorem compress_effects : forall env,
  (forall c, z_out env <> Blk c) ->
  let r := compress_cmd_model env in
  s_failed r = false ->
  s_out r = Reg (z_archive env)
  /\ exists cr ex tr, s_eff r = [EOpenW 0 cr ex tr true; EOpenW 1 true false true true; EWrites; EUnlink 1].
Proof.
  intros [[f] out a]. cbn [z_out]. intros Hb0. cbv zeta. unfold compress_cmd_model, compress_step_order.
  assert (Hb : forall c, out <> Blk c) by exact Hb0. clear Hb0.
  assert (Hnil : forall l : list N, l ++ dropN (lenN l) [] = l).
  { intros l. destruct (lenN l); cbn; apply app_nil_r. }
  destruct f; destruct out; cbn; intros H; try discriminate; rewrite ?Hnil;
    try (exfalso; eapply Hb; reflexivity); split; try reflexivity; eauto.
Qed.

(* C16, clone: the whole effect trace. It is a prefix of  open(output, never truncating) ; chunk writes ; set_len(|source|):
   at most one open for writing, of the output; nothing is written before that open succeeded; the length is set only
   after the writes and only to the source length; nothing else happens. A command that succeeds ran the full
   sequence (without the set_len on a block device). *)
Theorem clone_trace_shape : forall env,
  let r := clone_cmd_model env in
  exists cr ex ok k,
    s_eff r = firstn k [EOpenW 0 cr ex false ok; EWrites; ESetLen (lenN (e_src env))]
    /\ (s_failed r = false -> ok = true /\ k = match e_out env with Blk _ => 2%nat | _ => 3%nat end).
Proof.
  intros [[fc so vo] ar pn out src]. cbv zeta. unfold clone_cmd_model, run_clone, clone_step_order.
  cbn [e_src e_out].
  destruct ar; destruct pn; destruct fc; destruct so; destruct vo; destruct out as [|c|c]; cbn;
    repeat match goal with
           | |- context [if ?b then _ else _] => destruct b; cbn
           end;
    first [ exists false, false, false, 0%nat; split; [reflexivity|intro H; discriminate H]
          | do 3 eexists; exists 1%nat; split; [reflexivity|intro H; discriminate H]
          | do 3 eexists; exists 2%nat; split; [reflexivity|intro H; first [discriminate H|split; reflexivity]]
          | do 3 eexists; exists 3%nat; split; [reflexivity|intro H; first [discriminate H|split; reflexivity]] ].
Qed.

(* C16, compress: a run that fails at the refusal leaves no temporary file behind and removes nothing *)
Theorem compress_failed_no_temp : forall env,
  let r := compress_cmd_model env in
  s_failed r = true ->
  exists cr ex tr, s_eff r = [EOpenW 0 cr ex tr false] /\ s_out r = z_out env.
Proof.
  intros [[f] out a]. cbv zeta. unfold compress_cmd_model, compress_step_order.
  destruct f; destruct out; cbn; intros H; try discriminate H; eauto.
Qed.
