(* FREE ENCODINGS.  Every protobuf encoding of a well-formed dictionary that a conforming writer may
   produce -- fields in any order, defaults written or omitted, repeated scalars packed / unpacked /
   mixed / split, unknown fields anywhere, singular fields repeated (last one wins), sub-messages
   split into several occurrences (merged), map entries in any order and repeated (last one wins) --
   is decoded by the model decoder to exactly that dictionary.

   The relations [free_desc], [free_params], [free_comp], [free_entry], [free_dict] are written from
   the encoders ([encode_key], [encode_varint], [enc_msg]) and list operations only: an encoding is the
   concatenation of the encodings of a list of FIELD OCCURRENCES (a protobuf syntax tree, type [occ]
   for the flat sub-messages and [docc] for the dictionary), every occurrence is allowed by the
   message's schema, and the value of each field of the decoded message is given by the projection of
   the occurrence list on that field. *)
From Bita Require Import Model.Base Gen.Generated Model.Proto Proofs.ProtoRoundTrip Proofs.ProtoUnknown.
From Coq Require Import Permutation.

Local Open Scope N_scope.

(* ---------- last element with a default ---------- *)
(* [lastd l d]: the last element of [l], or [d] when [l] is empty (protobuf: the last occurrence of a
   singular field wins, the default value when there is no occurrence) *)
Fixpoint lastd {A} (l : list A) (d : A) : A :=
  match l with [] => d | x :: r => lastd r x end.

Lemma lastd_app : forall A (l1 l2 : list A) d, lastd (l1 ++ l2) d = lastd l2 (lastd l1 d).
Proof. induction l1 as [| x l1 IH]; intros l2 d; cbn [app lastd]; [reflexivity | apply IH]. Qed.

Lemma last_cons_indep : forall A (l : list A) x d d', last (x :: l) d = last (x :: l) d'.
Proof.
  induction l as [| y l IH]; intros x d d'; [reflexivity |].
  change (last (x :: y :: l) d) with (last (y :: l) d).
  change (last (x :: y :: l) d') with (last (y :: l) d'). apply IH.
Qed.

(* it is the standard library's [last] *)
Lemma lastd_last : forall A (l : list A) d, lastd l d = last l d.
Proof.
  induction l as [| x l IH]; intro d; [reflexivity |].
  cbn [lastd]. rewrite IH. destruct l as [| y l]; [reflexivity |].
  change (last (x :: y :: l) d) with (last (y :: l) d). apply last_cons_indep.
Qed.

(* ---------- field occurrences of a flat message ---------- *)
Inductive occ : Type :=
| OVarint (t v : N)               (* key(t, varint) varint(v) *)
| OLen (t : N) (b : list N)       (* key(t, length-delimited) varint(|b|) b *)
| OUnk (t wt : N) (u : list N).   (* key(t, wt) u : a field that is not in the schema *)

Definition enc_occ (o : occ) : list N :=
  match o with
  | OVarint t v => encode_key t WT_VARINT ++ encode_varint v
  | OLen t b => enc_msg t b
  | OUnk t wt u => encode_key t wt ++ u
  end.

(* what a schema says of a field number *)
Inductive kind : Type :=
| KVarint (bound : N)   (* uint32 / uint64 / enum: a varint below [bound] *)
| KBytes                (* bytes *)
| KString.              (* string: valid UTF-8 *)
Definition schema : Type := N -> option kind.

(* the occurrence is allowed by the schema.  Unknown fields: any field number 1 .. 2^29-1 that the
   schema does not define, wire types varint / 64-bit / length-delimited / 32-bit with a complete
   payload ([payload_ok] of ProtoUnknown.v).  Groups (wire types 3/4) are not included. *)
Definition occ_ok (s : schema) (o : occ) : Prop :=
  match o with
  | OVarint t v => exists bd, s t = Some (KVarint bd) /\ v < bd
  | OLen t b => s t = Some KBytes \/ (s t = Some KString /\ utf8_valid b = true)
  | OUnk t wt u => 1 <= t /\ t < 536870912 /\ s t = None /\ payload_ok wt u
  end.

(* [bytes] is the concatenation of the encodings of the occurrences [occs], all allowed by [s] *)
Definition encodes (s : schema) (occs : list occ) (bytes : list N) : Prop :=
  bytes = flat_map enc_occ occs /\ Forall (occ_ok s) occs.

(* projections: the values written for field [t], in the order of the occurrences *)
Definition varints_of (t : N) (occs : list occ) : list N :=
  flat_map (fun o => match o with OVarint t' v => if t' =? t then [v] else [] | _ => [] end) occs.
Definition lens_of (t : N) (occs : list occ) : list (list N) :=
  flat_map (fun o => match o with OLen t' b => if t' =? t then [b] else [] | _ => [] end) occs.

Lemma varints_of_app : forall t a b, varints_of t (a ++ b) = varints_of t a ++ varints_of t b.
Proof. intros. unfold varints_of. apply flat_map_app. Qed.
Lemma lens_of_app : forall t a b, lens_of t (a ++ b) = lens_of t a ++ lens_of t b.
Proof. intros. unfold lens_of. apply flat_map_app. Qed.

(* ---------- the four flat messages ---------- *)
Definition U32 : N := 4294967296.

Definition desc_schema : schema := fun t =>
  if t =? F_ChunkDescriptor_checksum then Some KBytes
  else if t =? F_ChunkDescriptor_archive_size then Some (KVarint U32)
  else if t =? F_ChunkDescriptor_archive_offset then Some (KVarint B64)
  else if t =? F_ChunkDescriptor_source_size then Some (KVarint U32)
  else None.

Definition params_schema : schema := fun t =>
  if t =? F_ChunkerParameters_chunk_filter_bits then Some (KVarint U32)
  else if t =? F_ChunkerParameters_min_chunk_size then Some (KVarint U32)
  else if t =? F_ChunkerParameters_max_chunk_size then Some (KVarint U32)
  else if t =? F_ChunkerParameters_rolling_hash_window_size then Some (KVarint U32)
  else if t =? F_ChunkerParameters_chunk_hash_length then Some (KVarint U32)
  else if t =? F_ChunkerParameters_chunking_algorithm then Some (KVarint U32)
  else None.

Definition comp_schema : schema := fun t =>
  if t =? F_ChunkCompression_compression then Some (KVarint U32)
  else if t =? F_ChunkCompression_compression_level then Some (KVarint U32)
  else None.

(* map<string, bytes> entry: key = 1, value = 2 *)
Definition entry_schema : schema := fun t =>
  if t =? 1 then Some KString else if t =? 2 then Some KBytes else None.

(* the message denoted by a list of occurrences merged into [a]: every field is its last occurrence,
   or the field of [a] when it does not occur *)
Definition desc_from (a : descriptor) (occs : list occ) : descriptor :=
  {| d_checksum := lastd (lens_of F_ChunkDescriptor_checksum occs) (d_checksum a);
     d_archive_size := lastd (varints_of F_ChunkDescriptor_archive_size occs) (d_archive_size a);
     d_archive_offset := lastd (varints_of F_ChunkDescriptor_archive_offset occs) (d_archive_offset a);
     d_source_size := lastd (varints_of F_ChunkDescriptor_source_size occs) (d_source_size a) |}.

Definition params_from (a : chunker_params) (occs : list occ) : chunker_params :=
  {| p_bits := lastd (varints_of F_ChunkerParameters_chunk_filter_bits occs) (p_bits a);
     p_min := lastd (varints_of F_ChunkerParameters_min_chunk_size occs) (p_min a);
     p_max := lastd (varints_of F_ChunkerParameters_max_chunk_size occs) (p_max a);
     p_win := lastd (varints_of F_ChunkerParameters_rolling_hash_window_size occs) (p_win a);
     p_hashlen := lastd (varints_of F_ChunkerParameters_chunk_hash_length occs) (p_hashlen a);
     p_algo := lastd (varints_of F_ChunkerParameters_chunking_algorithm occs) (p_algo a) |}.

Definition comp_from (a : compression) (occs : list occ) : compression :=
  {| z_type := lastd (varints_of F_ChunkCompression_compression occs) (z_type a);
     z_level := lastd (varints_of F_ChunkCompression_compression_level occs) (z_level a) |}.

Definition entry_from (a : list N * list N) (occs : list occ) : list N * list N :=
  (lastd (lens_of 1 occs) (fst a), lastd (lens_of 2 occs) (snd a)).

(* from the proto3 defaults *)
Definition desc_val (occs : list occ) : descriptor := desc_from desc_default occs.
Definition params_val (occs : list occ) : chunker_params := params_from params_default occs.
Definition comp_val (occs : list occ) : compression := comp_from comp_default occs.
Definition entry_val (occs : list occ) : list N * list N := entry_from ([], []) occs.

(* THE RELATIONS for the sub-messages *)
Definition free_desc (d : descriptor) (bytes : list N) : Prop :=
  exists occs, encodes desc_schema occs bytes /\ desc_val occs = d.
Definition free_params (p : chunker_params) (bytes : list N) : Prop :=
  exists occs, encodes params_schema occs bytes /\ params_val occs = p.
Definition free_comp (c : compression) (bytes : list N) : Prop :=
  exists occs, encodes comp_schema occs bytes /\ comp_val occs = c.
Definition free_entry (kv : list N * list N) (bytes : list N) : Prop :=
  exists occs, encodes entry_schema occs bytes /\ entry_val occs = kv.

(* ---------- the merge loop over a list of occurrences ---------- *)
Section Blocks.
  Context {O A : Type} (step : stepfn A) (enc : O -> list N) (ok : O -> Prop) (upd : O -> A -> A).

  (* every allowed occurrence is one complete field for [step], whose effect on the loop state is [upd] *)
  Definition block_ok : Prop :=
    forall o, ok o -> lenN (enc o) < B64 ->
      exists tag wt body, enc o = encode_key tag wt ++ body /\ 1 <= tag /\ tag < 536870912 /\ wt < 6 /\
        forall acc rest, step acc tag wt (body ++ rest) = Some (upd o acc, rest).

  Hypothesis Hb : block_ok.

  Lemma merge_blocks : forall occs acc, Forall ok occs -> lenN (flat_map enc occs) < B64 ->
    merge_ok step acc (flat_map enc occs) (fold_left (fun a o => upd o a) occs acc).
  Proof.
    induction occs as [| o occs IH]; intros acc Hok Hsz.
    - cbn [flat_map fold_left]. apply merge_ok_nil.
    - inversion Hok as [| ? ? Ho Hoccs]; subst.
      cbn [flat_map fold_left] in *. rewrite lenN_app in Hsz.
      destruct (Hb o Ho) as (tag & wt & body & E & Ht1 & Ht2 & Hwt & Hstep); [lia |].
      rewrite E, <- app_assoc.
      apply (merge_ok_closed A step _) with (acc' := upd o acc); try assumption.
      + apply Hstep.
      + apply IH; [exact Hoccs | lia].
  Qed.
End Blocks.

Ltac untag :=
  cbv delta [F_ChunkDescriptor_checksum F_ChunkDescriptor_archive_size F_ChunkDescriptor_archive_offset
             F_ChunkDescriptor_source_size F_ChunkerParameters_chunk_filter_bits F_ChunkerParameters_min_chunk_size
             F_ChunkerParameters_max_chunk_size F_ChunkerParameters_rolling_hash_window_size
             F_ChunkerParameters_chunk_hash_length F_ChunkerParameters_chunking_algorithm
             F_ChunkCompression_compression F_ChunkCompression_compression_level
             F_ChunkDictionary_application_version F_ChunkDictionary_source_checksum
             F_ChunkDictionary_source_total_size F_ChunkDictionary_chunker_params
             F_ChunkDictionary_chunk_compression F_ChunkDictionary_rebuild_order
             F_ChunkDictionary_chunk_descriptors F_ChunkDictionary_metadata] in *.

(* case analysis on [t =? k] for every literal [k] the goal / hypothesis compares [t] with *)
Ltac split_tag t :=
  repeat match goal with
         | |- context [N.eqb t ?k] => destruct (N.eqb_spec t k) as [-> | ?]
         | H : context [N.eqb t ?k] |- _ => destruct (N.eqb_spec t k) as [-> | ?]
         end.

Lemma lenN_enc_occ_len : forall t b, lenN b <= lenN (enc_occ (OLen t b)).
Proof. intros. cbn [enc_occ]. apply lenN_enc_msg_ge. Qed.

Lemma enc_msg_split : forall t b, enc_msg t b = encode_key t WT_LEN ++ (encode_varint (lenN b) ++ b).
Proof. reflexivity. Qed.

(* ---------- ChunkDescriptor ---------- *)
Definition desc_upd (o : occ) (d : descriptor) : descriptor :=
  match o with
  | OVarint t v =>
      if t =? F_ChunkDescriptor_archive_size then
        {| d_checksum := d_checksum d; d_archive_size := v; d_archive_offset := d_archive_offset d; d_source_size := d_source_size d |}
      else if t =? F_ChunkDescriptor_archive_offset then
        {| d_checksum := d_checksum d; d_archive_size := d_archive_size d; d_archive_offset := v; d_source_size := d_source_size d |}
      else if t =? F_ChunkDescriptor_source_size then
        {| d_checksum := d_checksum d; d_archive_size := d_archive_size d; d_archive_offset := d_archive_offset d; d_source_size := v |}
      else d
  | OLen t b =>
      if t =? F_ChunkDescriptor_checksum then
        {| d_checksum := b; d_archive_size := d_archive_size d; d_archive_offset := d_archive_offset d; d_source_size := d_source_size d |}
      else d
  | OUnk _ _ _ => d
  end.

Lemma desc_block : forall dp, dp <> 0 -> block_ok (desc_step dp) enc_occ (occ_ok desc_schema) desc_upd.
Proof.
  intros dp Hdp o Hok Hsz. destruct o as [t v | t b | t wt u].
  - destruct Hok as (bd & Hs & Hv). exists t, WT_VARINT, (encode_varint v).
    unfold desc_schema in Hs. untag. unfold U32, B64 in *.
    split_tag t; try discriminate; injection Hs as <-;
      (split; [reflexivity | split; [lia | split; [lia | split; [reflexivity |]]]]);
      intros acc rest; unfold desc_step, desc_upd; untag; cbn [N.eqb Pos.eqb];
      rewrite read_varint_field_enc by (unfold B64; lia); rewrite ?w32_small by lia; reflexivity.
  - exists t, WT_LEN, (encode_varint (lenN b) ++ b).
    pose proof (lenN_enc_occ_len t b) as Hlb.
    cbn [occ_ok] in Hok. unfold desc_schema in Hok. untag.
    split_tag t; destruct Hok as [Hs | [Hs _]]; try discriminate.
    split; [reflexivity | split; [lia | split; [lia | split; [reflexivity |]]]].
    intros acc rest; unfold desc_step, desc_upd; untag; cbn [N.eqb Pos.eqb].
    rewrite <- app_assoc. rewrite read_len_field_enc by lia. reflexivity.
  - destruct Hok as (Ht1 & Ht2 & Hs & Hp). exists t, wt, u.
    split; [reflexivity | split; [lia | split; [lia | split; [eapply payload_ok_wt; exact Hp |]]]].
    intros acc rest. unfold desc_schema in Hs. unfold desc_step, desc_upd. untag.
    split_tag t; try discriminate.
    unfold skip_fuel. rewrite (skip_field_payload wt u Hp) by exact Hdp. reflexivity.
Qed.

Lemma desc_fold : forall occs acc, fold_left (fun a o => desc_upd o a) occs acc = desc_from acc occs.
Proof.
  induction occs as [| o occs IH]; intro acc.
  - destruct acc; reflexivity.
  - cbn [fold_left]. rewrite IH. unfold desc_from, lens_of, varints_of. cbn [flat_map].
    destruct o as [t v | t b | t wt u]; cbn [desc_upd app]; untag; split_tag t; reflexivity.
Qed.

Theorem desc_merge : forall dp occs acc, dp <> 0 ->
  Forall (occ_ok desc_schema) occs -> lenN (flat_map enc_occ occs) < B64 ->
  merge_ok (desc_step dp) acc (flat_map enc_occ occs) (desc_from acc occs).
Proof.
  intros dp occs acc Hdp Hok Hsz. rewrite <- desc_fold.
  apply (merge_blocks _ _ _ _ (desc_block dp Hdp)); assumption.
Qed.

(* ---------- ChunkerParameters ---------- *)
Definition params_upd (o : occ) (p : chunker_params) : chunker_params :=
  match o with
  | OVarint t v =>
      if t =? F_ChunkerParameters_chunk_filter_bits then
        {| p_bits := v; p_min := p_min p; p_max := p_max p; p_win := p_win p; p_hashlen := p_hashlen p; p_algo := p_algo p |}
      else if t =? F_ChunkerParameters_min_chunk_size then
        {| p_bits := p_bits p; p_min := v; p_max := p_max p; p_win := p_win p; p_hashlen := p_hashlen p; p_algo := p_algo p |}
      else if t =? F_ChunkerParameters_max_chunk_size then
        {| p_bits := p_bits p; p_min := p_min p; p_max := v; p_win := p_win p; p_hashlen := p_hashlen p; p_algo := p_algo p |}
      else if t =? F_ChunkerParameters_rolling_hash_window_size then
        {| p_bits := p_bits p; p_min := p_min p; p_max := p_max p; p_win := v; p_hashlen := p_hashlen p; p_algo := p_algo p |}
      else if t =? F_ChunkerParameters_chunk_hash_length then
        {| p_bits := p_bits p; p_min := p_min p; p_max := p_max p; p_win := p_win p; p_hashlen := v; p_algo := p_algo p |}
      else if t =? F_ChunkerParameters_chunking_algorithm then
        {| p_bits := p_bits p; p_min := p_min p; p_max := p_max p; p_win := p_win p; p_hashlen := p_hashlen p; p_algo := v |}
      else p
  | _ => p
  end.

Lemma params_block : forall dp, dp <> 0 -> block_ok (params_step dp) enc_occ (occ_ok params_schema) params_upd.
Proof.
  intros dp Hdp o Hok Hsz. destruct o as [t v | t b | t wt u].
  - destruct Hok as (bd & Hs & Hv). exists t, WT_VARINT, (encode_varint v).
    unfold params_schema in Hs. untag. unfold U32, B64 in *.
    split_tag t; try discriminate; injection Hs as <-;
      (split; [reflexivity | split; [lia | split; [lia | split; [reflexivity |]]]]);
      intros acc rest; unfold params_step, params_upd; untag; cbn [N.eqb Pos.eqb]; cbv beta zeta;
      rewrite read_varint_field_enc by (unfold B64; lia); rewrite w32_small by lia; reflexivity.
  - exfalso. cbn [occ_ok] in Hok. unfold params_schema in Hok. untag.
    split_tag t; destruct Hok as [Hs | [Hs _]]; discriminate.
  - destruct Hok as (Ht1 & Ht2 & Hs & Hp). exists t, wt, u.
    split; [reflexivity | split; [lia | split; [lia | split; [eapply payload_ok_wt; exact Hp |]]]].
    intros acc rest. unfold params_schema in Hs. unfold params_step, params_upd. untag.
    split_tag t; try discriminate.
    unfold skip_fuel. rewrite (skip_field_payload wt u Hp) by exact Hdp. reflexivity.
Qed.

Lemma params_fold : forall occs acc, fold_left (fun a o => params_upd o a) occs acc = params_from acc occs.
Proof.
  induction occs as [| o occs IH]; intro acc.
  - destruct acc; reflexivity.
  - cbn [fold_left]. rewrite IH. unfold params_from, lens_of, varints_of. cbn [flat_map].
    destruct o as [t v | t b | t wt u]; cbn [params_upd app]; untag; split_tag t; reflexivity.
Qed.

Theorem params_merge : forall dp occs acc, dp <> 0 ->
  Forall (occ_ok params_schema) occs -> lenN (flat_map enc_occ occs) < B64 ->
  merge_ok (params_step dp) acc (flat_map enc_occ occs) (params_from acc occs).
Proof.
  intros dp occs acc Hdp Hok Hsz. rewrite <- params_fold.
  apply (merge_blocks _ _ _ _ (params_block dp Hdp)); assumption.
Qed.

(* ---------- ChunkCompression ---------- *)
Definition comp_upd (o : occ) (c : compression) : compression :=
  match o with
  | OVarint t v =>
      if t =? F_ChunkCompression_compression then {| z_type := v; z_level := z_level c |}
      else if t =? F_ChunkCompression_compression_level then {| z_type := z_type c; z_level := v |}
      else c
  | _ => c
  end.

Lemma comp_block : forall dp, dp <> 0 -> block_ok (comp_step dp) enc_occ (occ_ok comp_schema) comp_upd.
Proof.
  intros dp Hdp o Hok Hsz. destruct o as [t v | t b | t wt u].
  - destruct Hok as (bd & Hs & Hv). exists t, WT_VARINT, (encode_varint v).
    unfold comp_schema in Hs. untag. unfold U32, B64 in *.
    split_tag t; try discriminate; injection Hs as <-;
      (split; [reflexivity | split; [lia | split; [lia | split; [reflexivity |]]]]);
      intros acc rest; unfold comp_step, comp_upd; untag; cbn [N.eqb Pos.eqb];
      rewrite read_varint_field_enc by (unfold B64; lia); rewrite w32_small by lia; reflexivity.
  - exfalso. cbn [occ_ok] in Hok. unfold comp_schema in Hok. untag.
    split_tag t; destruct Hok as [Hs | [Hs _]]; discriminate.
  - destruct Hok as (Ht1 & Ht2 & Hs & Hp). exists t, wt, u.
    split; [reflexivity | split; [lia | split; [lia | split; [eapply payload_ok_wt; exact Hp |]]]].
    intros acc rest. unfold comp_schema in Hs. unfold comp_step, comp_upd. untag.
    split_tag t; try discriminate.
    unfold skip_fuel. rewrite (skip_field_payload wt u Hp) by exact Hdp. reflexivity.
Qed.

Lemma comp_fold : forall occs acc, fold_left (fun a o => comp_upd o a) occs acc = comp_from acc occs.
Proof.
  induction occs as [| o occs IH]; intro acc.
  - destruct acc; reflexivity.
  - cbn [fold_left]. rewrite IH. unfold comp_from, lens_of, varints_of. cbn [flat_map].
    destruct o as [t v | t b | t wt u]; cbn [comp_upd app]; untag; split_tag t; reflexivity.
Qed.

Theorem comp_merge : forall dp occs acc, dp <> 0 ->
  Forall (occ_ok comp_schema) occs -> lenN (flat_map enc_occ occs) < B64 ->
  merge_ok (comp_step dp) acc (flat_map enc_occ occs) (comp_from acc occs).
Proof.
  intros dp occs acc Hdp Hok Hsz. rewrite <- comp_fold.
  apply (merge_blocks _ _ _ _ (comp_block dp Hdp)); assumption.
Qed.

(* ---------- map entry ---------- *)
Definition entry_upd (o : occ) (e : list N * list N) : list N * list N :=
  match o with
  | OLen t b => if t =? 1 then (b, snd e) else if t =? 2 then (fst e, b) else e
  | _ => e
  end.

Lemma entry_block : forall dp, dp <> 0 -> block_ok (entry_step dp) enc_occ (occ_ok entry_schema) entry_upd.
Proof.
  intros dp Hdp o Hok Hsz. destruct o as [t v | t b | t wt u].
  - exfalso. destruct Hok as (bd & Hs & Hv). unfold entry_schema in Hs.
    split_tag t; discriminate.
  - exists t, WT_LEN, (encode_varint (lenN b) ++ b).
    pose proof (lenN_enc_occ_len t b) as Hlb.
    cbn [occ_ok] in Hok. unfold entry_schema in Hok.
    split_tag t; destruct Hok as [Hs | [Hs Hu]]; try discriminate;
      (split; [reflexivity | split; [lia | split; [lia | split; [reflexivity |]]]]);
      intros acc rest; unfold entry_step, entry_upd; cbn [N.eqb Pos.eqb];
      rewrite <- app_assoc; rewrite read_len_field_enc by lia; rewrite ?Hu; reflexivity.
  - destruct Hok as (Ht1 & Ht2 & Hs & Hp). exists t, wt, u.
    split; [reflexivity | split; [lia | split; [lia | split; [eapply payload_ok_wt; exact Hp |]]]].
    intros acc rest. unfold entry_schema in Hs. unfold entry_step, entry_upd.
    split_tag t; try discriminate.
    unfold skip_fuel. rewrite (skip_field_payload wt u Hp) by exact Hdp. reflexivity.
Qed.

Lemma entry_fold : forall occs acc, fold_left (fun a o => entry_upd o a) occs acc = entry_from acc occs.
Proof.
  induction occs as [| o occs IH]; intro acc.
  - destruct acc; reflexivity.
  - cbn [fold_left]. rewrite IH. unfold entry_from, lens_of, varints_of. cbn [flat_map].
    destruct o as [t v | t b | t wt u]; cbn [entry_upd app]; split_tag t; reflexivity.
Qed.

Theorem entry_merge : forall dp occs acc, dp <> 0 ->
  Forall (occ_ok entry_schema) occs -> lenN (flat_map enc_occ occs) < B64 ->
  merge_ok (entry_step dp) acc (flat_map enc_occ occs) (entry_from acc occs).
Proof.
  intros dp occs acc Hdp Hok Hsz. rewrite <- entry_fold.
  apply (merge_blocks _ _ _ _ (entry_block dp Hdp)); assumption.
Qed.

(* ---------- the sub-message theorems ---------- *)
Theorem free_desc_decodes : forall dp d bytes, dp <> 0 -> lenN bytes < B64 -> free_desc d bytes ->
  merge_ok (desc_step dp) desc_default bytes d.
Proof.
  intros dp d bytes Hdp Hsz (occs & (E & Hok) & Hv). subst bytes d. apply desc_merge; assumption.
Qed.

Theorem free_params_decodes : forall dp p bytes, dp <> 0 -> lenN bytes < B64 -> free_params p bytes ->
  merge_ok (params_step dp) params_default bytes p.
Proof.
  intros dp p bytes Hdp Hsz (occs & (E & Hok) & Hv). subst bytes p. apply params_merge; assumption.
Qed.

Theorem free_comp_decodes : forall dp c bytes, dp <> 0 -> lenN bytes < B64 -> free_comp c bytes ->
  merge_ok (comp_step dp) comp_default bytes c.
Proof.
  intros dp c bytes Hdp Hsz (occs & (E & Hok) & Hv). subst bytes c. apply comp_merge; assumption.
Qed.

Theorem free_entry_decodes : forall dp kv bytes, dp <> 0 -> lenN bytes < B64 -> free_entry kv bytes ->
  merge_ok (entry_step dp) ([], []) bytes kv.
Proof.
  intros dp kv bytes Hdp Hsz (occs & (E & Hok) & Hv). subst bytes kv. apply entry_merge; assumption.
Qed.

(* ---------- finite maps: the BTreeMap built by successive insertions ---------- *)
(* [assoc_last k kvs]: the value of the LAST pair of [kvs] whose key is [k] *)
Fixpoint assoc_last (k : list N) (kvs : list (list N * list N)) : option (list N) :=
  match kvs with
  | [] => None
  | kv :: r =>
      match assoc_last k r with
      | Some v => Some v
      | None => if list_eqb k (fst kv) then Some (snd kv) else None
      end
  end.

Lemma list_eqb_refl : forall a, list_eqb a a = true.
Proof. induction a as [| x a IH]; [reflexivity |]. cbn [list_eqb]. rewrite N.eqb_refl, IH. reflexivity. Qed.

Lemma list_eqb_spec : forall a b, reflect (a = b) (list_eqb a b).
Proof.
  intros a b. destruct (list_eqb a b) eqn:E; constructor.
  - apply list_eqb_eq. exact E.
  - intros ->. rewrite list_eqb_refl in E. discriminate.
Qed.

Lemma bytes_lt_total : forall a b, bytes_lt a b = false -> bytes_lt b a = false -> a = b.
Proof.
  induction a as [| x a IH]; intros [| y b] H1 H2; cbn [bytes_lt] in *; try discriminate; [reflexivity |].
  destruct (N.ltb_spec x y) as [? | Hxy]; [discriminate |].
  destruct (N.ltb_spec y x) as [? | Hyx]; [discriminate |].
  assert (x = y) by lia. subst y. f_equal. apply IH; assumption.
Qed.

Lemma bytes_lt_asym : forall a b, bytes_lt a b = true -> bytes_lt b a = false.
Proof.
  intros a b H. destruct (bytes_lt b a) eqn:E; [| reflexivity].
  pose proof (bytes_lt_trans _ _ _ H E) as C. rewrite bytes_lt_irrefl in C. discriminate.
Qed.

(* strongly sorted: every key is below all the later keys *)
Fixpoint ssorted (m : list (list N * list N)) : Prop :=
  match m with
  | [] => True
  | kv :: r => Forall (fun q => bytes_lt (fst kv) (fst q) = true) r /\ ssorted r
  end.

Lemma meta_sorted_ssorted : forall m, meta_sorted m -> ssorted m.
Proof.
  induction m as [| kv m IH]; intro H; [exact I |].
  cbn [ssorted]. split; [apply meta_sorted_head; exact H | apply IH; eapply meta_sorted_tail; exact H].
Qed.

Lemma ssorted_meta_sorted : forall m, ssorted m -> meta_sorted m.
Proof.
  induction m as [| [k v] m IH]; intro H; [exact I |].
  cbn [ssorted fst] in H. destruct H as [Hall Hs]. cbn [meta_sorted]. split; [| apply IH; exact Hs].
  destruct m as [| [k' v'] m']; [exact I |]. inversion Hall as [| ? ? Hk ?]; subst. exact Hk.
Qed.

Lemma Forall_map_insert : forall (P : list N * list N -> Prop) k v m,
  P (k, v) -> Forall P m -> Forall P (map_insert k v m).
Proof.
  intros P k v m Hkv. induction m as [| [k' v'] m IH]; intro H; cbn [map_insert].
  - constructor; [exact Hkv | constructor].
  - inversion H as [| ? ? Hh Ht]; subst.
    destruct (bytes_lt k k'); [constructor; assumption |].
    destruct (list_eqb k k'); [constructor; assumption |].
    constructor; [exact Hh | apply IH; exact Ht].
Qed.

Lemma ssorted_insert : forall k v m, ssorted m -> ssorted (map_insert k v m).
Proof.
  intros k v m. induction m as [| [k' v'] m IH]; intro H; cbn [map_insert].
  - cbn [ssorted]. split; [constructor | exact I].
  - cbn [ssorted fst] in H. destruct H as [Hall Hs].
    destruct (bytes_lt k k') eqn:Elt.
    + cbn [ssorted fst]. split; [| split; assumption].
      constructor; [exact Elt |].
      eapply Forall_impl; [| exact Hall]. intros q Hq. cbn beta in Hq. eapply bytes_lt_trans; eassumption.
    + destruct (list_eqb_spec k k') as [-> | Hne].
      * cbn [ssorted fst]. split; assumption.
      * assert (Hgt : bytes_lt k' k = true).
        { destruct (bytes_lt k' k) eqn:E; [reflexivity |]. exfalso. apply Hne. apply bytes_lt_total; assumption. }
        cbn [ssorted fst]. split; [| apply IH; exact Hs].
        apply Forall_map_insert; [exact Hgt | exact Hall].
Qed.

Lemma assoc_last_above : forall k m, Forall (fun q => bytes_lt k (fst q) = true) m -> assoc_last k m = None.
Proof.
  intros k m. induction m as [| [k' v'] m IH]; intro H; [reflexivity |].
  inversion H as [| ? ? Hh Ht]; subst. cbn [assoc_last fst snd]. rewrite (IH Ht).
  destruct (list_eqb_spec k k') as [-> | _]; [| reflexivity].
  cbn [fst] in Hh. rewrite bytes_lt_irrefl in Hh. discriminate.
Qed.

Lemma assoc_last_insert : forall x k v m, ssorted m ->
  assoc_last x (map_insert k v m) = if list_eqb x k then Some v else assoc_last x m.
Proof.
  intros x k v m. induction m as [| [k' v'] m IH]; intro H; cbn [map_insert].
  - cbn [assoc_last fst snd]. reflexivity.
  - cbn [ssorted fst] in H. destruct H as [Hall Hs].
    destruct (bytes_lt k k') eqn:Elt.
    + change (assoc_last x ((k, v) :: (k', v') :: m))
        with (match assoc_last x ((k', v') :: m) with
              | Some w => Some w | None => if list_eqb x k then Some v else None end).
      destruct (list_eqb_spec x k) as [-> | _].
      * rewrite assoc_last_above; [reflexivity |].
        constructor; [exact Elt |].
        eapply Forall_impl; [| exact Hall]. intros q Hq. cbn beta in Hq. eapply bytes_lt_trans; eassumption.
      * destruct (assoc_last x ((k', v') :: m)); reflexivity.
    + destruct (list_eqb_spec k k') as [<- | Hne].
      * cbn [assoc_last fst snd].
        destruct (list_eqb_spec x k) as [-> | _].
        -- rewrite (assoc_last_above k m Hall). reflexivity.
        -- reflexivity.
      * cbn [assoc_last fst snd]. rewrite (IH Hs).
        destruct (list_eqb_spec x k) as [-> | _]; reflexivity.
Qed.

Definition ins (m : list (list N * list N)) (kv : list N * list N) : list (list N * list N) :=
  map_insert (fst kv) (snd kv) m.

Lemma fold_ins_spec : forall kvs m, ssorted m ->
  ssorted (fold_left ins kvs m) /\
  forall x, assoc_last x (fold_left ins kvs m) =
            match assoc_last x kvs with Some v => Some v | None => assoc_last x m end.
Proof.
  induction kvs as [| kv kvs IH]; intros m Hs.
  - cbn [fold_left assoc_last]. split; [exact Hs | reflexivity].
  - cbn [fold_left]. destruct (IH (ins m kv)) as [Hs' Hl]; [apply ssorted_insert; exact Hs |].
    split; [exact Hs' |]. intro x. rewrite Hl. cbn [assoc_last].
    destruct (assoc_last x kvs) as [w |]; [reflexivity |].
    unfold ins. rewrite assoc_last_insert by exact Hs.
    destruct (list_eqb x (fst kv)); reflexivity.
Qed.

Lemma assoc_last_head : forall k v m, Forall (fun q => bytes_lt k (fst q) = true) m ->
  assoc_last k ((k, v) :: m) = Some v.
Proof.
  intros k v m H. cbn [assoc_last fst snd]. rewrite (assoc_last_above k m H), list_eqb_refl. reflexivity.
Qed.

Lemma assoc_last_tail_ne : forall x k v m, x <> k -> assoc_last x ((k, v) :: m) = assoc_last x m.
Proof.
  intros x k v m Hne. cbn [assoc_last fst snd].
  destruct (list_eqb_spec x k) as [-> | _]; [contradiction |]. destruct (assoc_last x m); reflexivity.
Qed.

(* two sorted maps with the same bindings are equal *)
Lemma ssorted_ext : forall m1 m2, ssorted m1 -> ssorted m2 ->
  (forall x, assoc_last x m1 = assoc_last x m2) -> m1 = m2.
Proof.
  induction m1 as [| [k1 v1] m1 IH]; intros [| [k2 v2] m2] H1 H2 Hext.
  - reflexivity.
  - exfalso. cbn [ssorted fst] in H2. destruct H2 as [Hall2 _].
    specialize (Hext k2). rewrite (assoc_last_head k2 v2 m2 Hall2) in Hext. discriminate.
  - exfalso. cbn [ssorted fst] in H1. destruct H1 as [Hall1 _].
    specialize (Hext k1). rewrite (assoc_last_head k1 v1 m1 Hall1) in Hext. discriminate.
  - cbn [ssorted fst] in H1, H2. destruct H1 as [Hall1 Hs1]. destruct H2 as [Hall2 Hs2].
    assert (Ek : k1 = k2).
    { apply bytes_lt_total.
      - destruct (bytes_lt k1 k2) eqn:E; [| reflexivity]. exfalso.
        specialize (Hext k1). rewrite (assoc_last_head k1 v1 m1 Hall1) in Hext.
        rewrite assoc_last_above in Hext; [discriminate |].
        constructor; [exact E |].
        eapply Forall_impl; [| exact Hall2]. intros q Hq. cbn beta in Hq. eapply bytes_lt_trans; eassumption.
      - destruct (bytes_lt k2 k1) eqn:E; [| reflexivity]. exfalso.
        specialize (Hext k2). rewrite (assoc_last_head k2 v2 m2 Hall2) in Hext.
        rewrite assoc_last_above in Hext; [discriminate |].
        constructor; [exact E |].
        eapply Forall_impl; [| exact Hall1]. intros q Hq. cbn beta in Hq. eapply bytes_lt_trans; eassumption. }
    subst k2.
    assert (Ev : v1 = v2).
    { specialize (Hext k1). rewrite (assoc_last_head k1 v1 m1 Hall1), (assoc_last_head k1 v2 m2 Hall2) in Hext.
      injection Hext as E. exact E. }
    subst v2. f_equal. apply IH; try assumption.
    intro x. destruct (list_eqb_spec x k1) as [-> | Hne].
    + rewrite (assoc_last_above k1 m1 Hall1), (assoc_last_above k1 m2 Hall2). reflexivity.
    + specialize (Hext x). rewrite !assoc_last_tail_ne in Hext by exact Hne. exact Hext.
Qed.

(* inserting the pairs [kvs] one by one into the empty map gives the sorted map [m] as soon as both
   have the same bindings (last pair wins) *)
Lemma fold_ins_sorted_eq : forall kvs m, meta_sorted m ->
  (forall k, assoc_last k m = assoc_last k kvs) -> fold_left ins kvs [] = m.
Proof.
  intros kvs m Hm Hext.
  destruct (fold_ins_spec kvs [] I) as [Hs Hl].
  apply ssorted_ext; [exact Hs | apply meta_sorted_ssorted; exact Hm |].
  intro x. rewrite Hl, Hext. cbn [assoc_last]. destruct (assoc_last x kvs); reflexivity.
Qed.

(* ---------- field occurrences of the dictionary ---------- *)
Inductive docc : Type :=
| DVersion (b : list N)          (* 1 application_version: string *)
| DChecksum (b : list N)         (* 2 source_checksum: bytes *)
| DTotal (v : N)                 (* 3 source_total_size: uint64 *)
| DParams (sub : list occ)       (* 4 chunker_params: message, given by its own field occurrences *)
| DComp (sub : list occ)         (* 5 chunk_compression: message *)
| DOrderPacked (vs : list N)     (* 6 rebuild_order: one packed run (possibly empty) *)
| DOrderOne (v : N)              (* 6 rebuild_order: one unpacked element *)
| DDesc (sub : list occ)         (* 7 chunk_descriptors: one element, a message *)
| DMeta (sub : list occ)         (* 8 metadata: one map entry, a message *)
| DUnk (t wt : N) (u : list N).  (* unknown field *)

Definition enc_docc (o : docc) : list N :=
  match o with
  | DVersion b => enc_msg F_ChunkDictionary_application_version b
  | DChecksum b => enc_msg F_ChunkDictionary_source_checksum b
  | DTotal v => encode_key F_ChunkDictionary_source_total_size WT_VARINT ++ encode_varint v
  | DParams sub => enc_msg F_ChunkDictionary_chunker_params (flat_map enc_occ sub)
  | DComp sub => enc_msg F_ChunkDictionary_chunk_compression (flat_map enc_occ sub)
  | DOrderPacked vs => enc_msg F_ChunkDictionary_rebuild_order (flat_map encode_varint vs)
  | DOrderOne v => encode_key F_ChunkDictionary_rebuild_order WT_VARINT ++ encode_varint v
  | DDesc sub => enc_msg F_ChunkDictionary_chunk_descriptors (flat_map enc_occ sub)
  | DMeta sub => enc_msg F_ChunkDictionary_metadata (flat_map enc_occ sub)
  | DUnk t wt u => encode_key t wt ++ u
  end.

Definition docc_ok (o : docc) : Prop :=
  match o with
  | DVersion b => utf8_valid b = true
  | DChecksum _ => True
  | DTotal v => v < B64
  | DParams sub => Forall (occ_ok params_schema) sub
  | DComp sub => Forall (occ_ok comp_schema) sub
  | DOrderPacked vs => Forall (fun v => v < U32) vs
  | DOrderOne v => v < U32
  | DDesc sub => Forall (occ_ok desc_schema) sub
  | DMeta sub => Forall (occ_ok entry_schema) sub
  | DUnk t wt u => 9 <= t /\ t < 536870912 /\ payload_ok wt u
  end.

(* projections of a list of top-level occurrences on each field, in the order of the occurrences *)
Definition versions_of (occs : list docc) : list (list N) :=
  flat_map (fun o => match o with DVersion b => [b] | _ => [] end) occs.
Definition checksums_of (occs : list docc) : list (list N) :=
  flat_map (fun o => match o with DChecksum b => [b] | _ => [] end) occs.
Definition totals_of (occs : list docc) : list N :=
  flat_map (fun o => match o with DTotal v => [v] | _ => [] end) occs.
Definition params_of (occs : list docc) : list (list occ) :=
  flat_map (fun o => match o with DParams sub => [sub] | _ => [] end) occs.
Definition comps_of (occs : list docc) : list (list occ) :=
  flat_map (fun o => match o with DComp sub => [sub] | _ => [] end) occs.
Definition order_of (occs : list docc) : list N :=
  flat_map (fun o => match o with DOrderPacked vs => vs | DOrderOne v => [v] | _ => [] end) occs.
Definition descs_of (occs : list docc) : list (list occ) :=
  flat_map (fun o => match o with DDesc sub => [sub] | _ => [] end) occs.
Definition metas_of (occs : list docc) : list (list occ) :=
  flat_map (fun o => match o with DMeta sub => [sub] | _ => [] end) occs.

(* the dictionary denoted by the occurrences:
   - singular scalars: last occurrence, default if none;
   - singular messages: absent if no occurrence, otherwise the occurrences are merged, which is the
     message denoted by the concatenation of their fields;
   - rebuild_order: the elements of all packed runs and unpacked occurrences, in order;
   - chunk_descriptors: one element per occurrence, in order;
   - metadata: the finite map in which each key is bound to the value of its last entry
     (in particular: entries with distinct keys in any order, see [meta_perm_ok]). *)
Definition dict_value (occs : list docc) (d : dictionary) : Prop :=
  dict_version d = lastd (versions_of occs) []
  /\ dict_checksum d = lastd (checksums_of occs) []
  /\ dict_total d = lastd (totals_of occs) 0
  /\ dict_params d = (match params_of occs with [] => None | _ :: _ => Some (params_val (concat (params_of occs))) end)
  /\ dict_comp d = (match comps_of occs with [] => None | _ :: _ => Some (comp_val (concat (comps_of occs))) end)
  /\ dict_order d = order_of occs
  /\ dict_descs d = map desc_val (descs_of occs)
  /\ (forall k, assoc_last k (dict_meta d) = assoc_last k (map entry_val (metas_of occs))).

(* THE RELATION for the dictionary *)
Definition free_dict (d : dictionary) (bytes : list N) : Prop :=
  exists occs, bytes = flat_map enc_docc occs /\ Forall docc_ok occs /\ dict_value occs d.

(* ---------- the top-level merge loop ---------- *)
Definition cur_params (o : option chunker_params) : chunker_params := match o with Some p => p | None => params_default end.
Definition cur_comp (o : option compression) : compression := match o with Some c => c | None => comp_default end.

Definition docc_upd (o : docc) (d : dictionary) : dictionary :=
  match o with
  | DVersion b =>
      {| dict_version := b; dict_checksum := dict_checksum d; dict_total := dict_total d; dict_params := dict_params d;
         dict_comp := dict_comp d; dict_order := dict_order d; dict_descs := dict_descs d; dict_meta := dict_meta d |}
  | DChecksum b =>
      {| dict_version := dict_version d; dict_checksum := b; dict_total := dict_total d; dict_params := dict_params d;
         dict_comp := dict_comp d; dict_order := dict_order d; dict_descs := dict_descs d; dict_meta := dict_meta d |}
  | DTotal v =>
      {| dict_version := dict_version d; dict_checksum := dict_checksum d; dict_total := v; dict_params := dict_params d;
         dict_comp := dict_comp d; dict_order := dict_order d; dict_descs := dict_descs d; dict_meta := dict_meta d |}
  | DParams sub =>
      {| dict_version := dict_version d; dict_checksum := dict_checksum d; dict_total := dict_total d;
         dict_params := Some (params_from (cur_params (dict_params d)) sub);
         dict_comp := dict_comp d; dict_order := dict_order d; dict_descs := dict_descs d; dict_meta := dict_meta d |}
  | DComp sub =>
      {| dict_version := dict_version d; dict_checksum := dict_checksum d; dict_total := dict_total d; dict_params := dict_params d;
         dict_comp := Some (comp_from (cur_comp (dict_comp d)) sub);
         dict_order := dict_order d; dict_descs := dict_descs d; dict_meta := dict_meta d |}
  | DOrderPacked vs =>
      {| dict_version := dict_version d; dict_checksum := dict_checksum d; dict_total := dict_total d; dict_params := dict_params d;
         dict_comp := dict_comp d; dict_order := dict_order d ++ vs; dict_descs := dict_descs d; dict_meta := dict_meta d |}
  | DOrderOne v =>
      {| dict_version := dict_version d; dict_checksum := dict_checksum d; dict_total := dict_total d; dict_params := dict_params d;
         dict_comp := dict_comp d; dict_order := dict_order d ++ [v]; dict_descs := dict_descs d; dict_meta := dict_meta d |}
  | DDesc sub =>
      {| dict_version := dict_version d; dict_checksum := dict_checksum d; dict_total := dict_total d; dict_params := dict_params d;
         dict_comp := dict_comp d; dict_order := dict_order d; dict_descs := dict_descs d ++ [desc_val sub]; dict_meta := dict_meta d |}
  | DMeta sub =>
      {| dict_version := dict_version d; dict_checksum := dict_checksum d; dict_total := dict_total d; dict_params := dict_params d;
         dict_comp := dict_comp d; dict_order := dict_order d; dict_descs := dict_descs d;
         dict_meta := ins (dict_meta d) (entry_val sub) |}
  | DUnk _ _ _ => d
  end.

Lemma lenN_enc_docc_sub : forall o,
  match o with
  | DVersion b | DChecksum b => lenN b <= lenN (enc_docc o)
  | DParams sub | DComp sub | DDesc sub | DMeta sub => lenN (flat_map enc_occ sub) <= lenN (enc_docc o)
  | DOrderPacked vs => lenN (flat_map encode_varint vs) <= lenN (enc_docc o)
  | _ => True
  end.
Proof. intros [b | b | v | sub | sub | vs | v | sub | sub | t wt u]; cbn [enc_docc]; try exact I; apply lenN_enc_msg_ge. Qed.

Lemma depth_ok : DEPTH0 - 1 <> 0.
Proof. unfold DEPTH0. discriminate. Qed.

Lemma dict_block : block_ok dict_step enc_docc docc_ok docc_upd.
Proof.
  intros o Hok Hsz. pose proof (lenN_enc_docc_sub o) as Hsub.
  destruct o as [b | b | v | sub | sub | vs | v | sub | sub | t wt u]; cbn [docc_ok] in Hok; cbn [enc_docc] in *.
  - exists F_ChunkDictionary_application_version, WT_LEN, (encode_varint (lenN b) ++ b).
    split; [reflexivity | split; [tagb | split; [tagb | split; [reflexivity |]]]].
    intros acc rest. unfold dict_step, docc_upd. tageq.
    rewrite <- app_assoc. rewrite read_len_field_enc by lia. rewrite Hok. reflexivity.
  - exists F_ChunkDictionary_source_checksum, WT_LEN, (encode_varint (lenN b) ++ b).
    split; [reflexivity | split; [tagb | split; [tagb | split; [reflexivity |]]]].
    intros acc rest. unfold dict_step, docc_upd. tageq.
    rewrite <- app_assoc. rewrite read_len_field_enc by lia. reflexivity.
  - exists F_ChunkDictionary_source_total_size, WT_VARINT, (encode_varint v).
    split; [reflexivity | split; [tagb | split; [tagb | split; [reflexivity |]]]].
    intros acc rest. unfold dict_step, docc_upd. tageq.
    rewrite read_varint_field_enc by exact Hok. reflexivity.
  - exists F_ChunkDictionary_chunker_params, WT_LEN, (encode_varint (lenN (flat_map enc_occ sub)) ++ flat_map enc_occ sub).
    split; [reflexivity | split; [tagb | split; [tagb | split; [reflexivity |]]]].
    intros acc rest. unfold dict_step, docc_upd. tageq.
    rewrite <- app_assoc. rewrite read_len_field_enc by lia.
    fold (cur_params (dict_params acc)).
    rewrite (params_merge (DEPTH0 - 1) sub _ depth_ok Hok ltac:(lia) _ (skip_fuel_ok _)). reflexivity.
  - exists F_ChunkDictionary_chunk_compression, WT_LEN, (encode_varint (lenN (flat_map enc_occ sub)) ++ flat_map enc_occ sub).
    split; [reflexivity | split; [tagb | split; [tagb | split; [reflexivity |]]]].
    intros acc rest. unfold dict_step, docc_upd. tageq.
    rewrite <- app_assoc. rewrite read_len_field_enc by lia.
    fold (cur_comp (dict_comp acc)).
    rewrite (comp_merge (DEPTH0 - 1) sub _ depth_ok Hok ltac:(lia) _ (skip_fuel_ok _)). reflexivity.
  - exists F_ChunkDictionary_rebuild_order, WT_LEN, (encode_varint (lenN (flat_map encode_varint vs)) ++ flat_map encode_varint vs).
    split; [reflexivity | split; [tagb | split; [tagb | split; [reflexivity |]]]].
    intros acc rest. unfold dict_step, docc_upd. tageq.
    change (WT_LEN =? WT_LEN) with true. cbv iota.
    rewrite <- app_assoc. rewrite read_len_field_enc by lia.
    rewrite (read_packed_enc vs [] _ Hok (skip_fuel_ok _)). reflexivity.
  - exists F_ChunkDictionary_rebuild_order, WT_VARINT, (encode_varint v).
    split; [reflexivity | split; [tagb | split; [tagb | split; [reflexivity |]]]].
    intros acc rest. unfold dict_step, docc_upd. tageq.
    change (WT_VARINT =? WT_LEN) with false. cbv iota. unfold U32 in Hok.
    rewrite read_varint_field_enc by (unfold B64; lia). rewrite w32_small by exact Hok. reflexivity.
  - exists F_ChunkDictionary_chunk_descriptors, WT_LEN, (encode_varint (lenN (flat_map enc_occ sub)) ++ flat_map enc_occ sub).
    split; [reflexivity | split; [tagb | split; [tagb | split; [reflexivity |]]]].
    intros acc rest. unfold dict_step, docc_upd. tageq.
    rewrite <- app_assoc. rewrite read_len_field_enc by lia.
    rewrite (desc_merge (DEPTH0 - 1) sub _ depth_ok Hok ltac:(lia) _ (skip_fuel_ok _)). reflexivity.
  - exists F_ChunkDictionary_metadata, WT_LEN, (encode_varint (lenN (flat_map enc_occ sub)) ++ flat_map enc_occ sub).
    split; [reflexivity | split; [tagb | split; [tagb | split; [reflexivity |]]]].
    intros acc rest. unfold dict_step, docc_upd. tageq.
    rewrite <- app_assoc. rewrite read_len_field_enc by lia.
    rewrite (entry_merge (DEPTH0 - 1) sub _ depth_ok Hok ltac:(lia) _ (skip_fuel_ok _)). reflexivity.
  - destruct Hok as (Ht1 & Ht2 & Hp). exists t, wt, u.
    split; [reflexivity | split; [lia | split; [lia | split; [eapply payload_ok_wt; exact Hp |]]]].
    intros acc rest. apply dict_step_unknown; assumption.
Qed.

Lemma desc_from_nil : forall a, desc_from a [] = a.
Proof. intros []. reflexivity. Qed.
Lemma params_from_nil : forall a, params_from a [] = a.
Proof. intros []. reflexivity. Qed.
Lemma comp_from_nil : forall a, comp_from a [] = a.
Proof. intros []. reflexivity. Qed.

(* merging two occurrences of a sub-message = the message denoted by the concatenation of their fields *)
Lemma params_from_app : forall a s1 s2, params_from (params_from a s1) s2 = params_from a (s1 ++ s2).
Proof.
  intros a s1 s2. unfold params_from. rewrite !varints_of_app, !lastd_app.
  cbn [p_bits p_min p_max p_win p_hashlen p_algo]. reflexivity.
Qed.
Lemma comp_from_app : forall a s1 s2, comp_from (comp_from a s1) s2 = comp_from a (s1 ++ s2).
Proof.
  intros a s1 s2. unfold comp_from. rewrite !varints_of_app, !lastd_app.
  cbn [z_type z_level]. reflexivity.
Qed.

Definition merge_params (cur : option chunker_params) (subs : list (list occ)) : option chunker_params :=
  fold_left (fun c sub => Some (params_from (cur_params c) sub)) subs cur.
Definition merge_comp (cur : option compression) (subs : list (list occ)) : option compression :=
  fold_left (fun c sub => Some (comp_from (cur_comp c) sub)) subs cur.

Lemma merge_params_some : forall subs p, merge_params (Some p) subs = Some (params_from p (concat subs)).
Proof.
  induction subs as [| s subs IH]; intro p.
  - cbn [merge_params fold_left concat]. rewrite params_from_nil. reflexivity.
  - unfold merge_params. cbn [fold_left cur_params concat]. fold (merge_params (Some (params_from p s)) subs).
    rewrite IH, params_from_app. reflexivity.
Qed.
Lemma merge_params_none : forall subs,
  merge_params None subs = match subs with [] => None | _ => Some (params_val (concat subs)) end.
Proof.
  intros [| s subs]; [reflexivity |].
  unfold merge_params. cbn [fold_left cur_params concat]. fold (merge_params (Some (params_from params_default s)) subs).
  rewrite merge_params_some, params_from_app. reflexivity.
Qed.
Lemma merge_comp_some : forall subs c, merge_comp (Some c) subs = Some (comp_from c (concat subs)).
Proof.
  induction subs as [| s subs IH]; intro c.
  - cbn [merge_comp fold_left concat]. rewrite comp_from_nil. reflexivity.
  - unfold merge_comp. cbn [fold_left cur_comp concat]. fold (merge_comp (Some (comp_from c s)) subs).
    rewrite IH, comp_from_app. reflexivity.
Qed.
Lemma merge_comp_none : forall subs,
  merge_comp None subs = match subs with [] => None | _ => Some (comp_val (concat subs)) end.
Proof.
  intros [| s subs]; [reflexivity |].
  unfold merge_comp. cbn [fold_left cur_comp concat]. fold (merge_comp (Some (comp_from comp_default s)) subs).
  rewrite merge_comp_some, comp_from_app. reflexivity.
Qed.

Definition dict_from (a : dictionary) (occs : list docc) : dictionary :=
  {| dict_version := lastd (versions_of occs) (dict_version a);
     dict_checksum := lastd (checksums_of occs) (dict_checksum a);
     dict_total := lastd (totals_of occs) (dict_total a);
     dict_params := merge_params (dict_params a) (params_of occs);
     dict_comp := merge_comp (dict_comp a) (comps_of occs);
     dict_order := dict_order a ++ order_of occs;
     dict_descs := dict_descs a ++ map desc_val (descs_of occs);
     dict_meta := fold_left ins (map entry_val (metas_of occs)) (dict_meta a) |}.

Lemma dict_fold : forall occs acc, fold_left (fun a o => docc_upd o a) occs acc = dict_from acc occs.
Proof.
  induction occs as [| o occs IH]; intro acc.
  - destruct acc. unfold dict_from. cbn. rewrite !app_nil_r. reflexivity.
  - cbn [fold_left]. rewrite IH.
    unfold dict_from, versions_of, checksums_of, totals_of, params_of, comps_of, order_of, descs_of, metas_of,
      merge_params, merge_comp.
    cbn [flat_map].
    destruct o as [b | b | v | sub | sub | vs | v | sub | sub | t wt u];
      cbn [docc_upd app map fold_left lastd dict_version dict_checksum dict_total dict_params dict_comp dict_order dict_descs dict_meta];
      rewrite <- ?app_assoc; reflexivity.
Qed.

(* ---------- MAIN THEOREM ---------- *)
(* the value of the occurrence list determines the final state of the merge loop *)
Lemma dict_value_from : forall occs d, meta_sorted (dict_meta d) -> dict_value occs d ->
  dict_from dict_default occs = d.
Proof.
  intros occs d Hm Hv.
  destruct Hv as (H1 & H2 & H3 & H4 & H5 & H6 & H7 & H8).
  destruct d as [ver ck tot pa co ord ds me].
  cbn [dict_version dict_checksum dict_total dict_params dict_comp dict_order dict_descs dict_meta] in *.
  unfold dict_from, dict_default.
  cbn [dict_version dict_checksum dict_total dict_params dict_comp dict_order dict_descs dict_meta app].
  rewrite merge_params_none, merge_comp_none.
  rewrite (fold_ins_sorted_eq _ me Hm H8).
  subst. reflexivity.
Qed.

Theorem free_dict_merge : forall d bytes,
  meta_sorted (dict_meta d) -> lenN bytes < B64 -> free_dict d bytes ->
  merge_ok dict_step dict_default bytes d.
Proof.
  intros d bytes Hm Hsz (occs & E & Hok & Hv). subst bytes.
  rewrite <- (dict_value_from occs d Hm Hv), <- dict_fold.
  apply (merge_blocks _ _ _ _ dict_block); assumption.
Qed.

Theorem free_encoding_decodes : forall d bytes,
  dict_wf d -> lenN bytes < 18446744073709551616 -> free_dict d bytes -> decode_dict bytes = Some d.
Proof.
  intros d bytes Hwf Hsz Hfree. unfold decode_dict.
  apply (free_dict_merge d bytes); [apply Hwf | exact Hsz | exact Hfree | apply skip_fuel_ok].
Qed.

(* ---------- the writer's own layout is a free encoding ---------- *)
Definition c_uint (t v : N) : list occ := if v =? 0 then [] else [OVarint t v].
Definition c_bytes (t : N) (b : list N) : list occ := match b with [] => [] | _ :: _ => [OLen t b] end.

Lemma enc_c_uint : forall t v, flat_map enc_occ (c_uint t v) = enc_uint t v.
Proof. intros t v. unfold c_uint, enc_uint. destruct (v =? 0); cbn [flat_map enc_occ]; [reflexivity | apply app_nil_r]. Qed.
Lemma enc_c_bytes : forall t b, flat_map enc_occ (c_bytes t b) = enc_bytes t b.
Proof. intros t [| x b]; cbn [c_bytes flat_map enc_occ enc_bytes]; [reflexivity | apply app_nil_r]. Qed.

Lemma varints_c_uint : forall t t' v, varints_of t (c_uint t' v) = if t' =? t then (if v =? 0 then [] else [v]) else [].
Proof.
  intros t t' v. unfold c_uint, varints_of. destruct (v =? 0); cbn [flat_map]; [destruct (t' =? t); reflexivity |].
  destruct (t' =? t); reflexivity.
Qed.
Lemma varints_c_bytes : forall t t' b, varints_of t (c_bytes t' b) = [].
Proof. intros t t' [| x b]; reflexivity. Qed.
Lemma lens_c_uint : forall t t' v, lens_of t (c_uint t' v) = [].
Proof. intros t t' v. unfold c_uint. destruct (v =? 0); reflexivity. Qed.
Lemma lens_c_bytes : forall t t' b, lens_of t (c_bytes t' b) = if t' =? t then (match b with [] => [] | _ :: _ => [b] end) else [].
Proof.
  intros t t' [| x b]; unfold lens_of; cbn [c_bytes flat_map]; destruct (t' =? t); reflexivity.
Qed.
Lemma lastd_c_uint : forall v, lastd (if v =? 0 then [] else [v]) 0 = v.
Proof. intro v. destruct (N.eqb_spec v 0) as [-> | _]; reflexivity. Qed.
Lemma lastd_c_bytes : forall b : list N, lastd (match b with [] => [] | _ :: _ => [b] end) [] = b.
Proof. intros [| x b]; reflexivity. Qed.

Lemma ok_c_uint : forall s t v bd, s t = Some (KVarint bd) -> v < bd -> Forall (occ_ok s) (c_uint t v).
Proof.
  intros s t v bd Hs Hv. unfold c_uint. destruct (v =? 0); constructor; [| constructor].
  cbn [occ_ok]. exists bd. split; assumption.
Qed.
Lemma ok_c_bytes : forall s t b, s t = Some KBytes -> Forall (occ_ok s) (c_bytes t b).
Proof. intros s t [| x b] Hs; constructor; [| constructor]. cbn [occ_ok]. left. exact Hs. Qed.
Lemma ok_c_string : forall s t b, s t = Some KString -> utf8_valid b = true -> Forall (occ_ok s) (c_bytes t b).
Proof. intros s t [| x b] Hs Hu; constructor; [| constructor]. cbn [occ_ok]. right. split; assumption. Qed.

Definition canon_desc (x : descriptor) : list occ :=
  c_bytes F_ChunkDescriptor_checksum (d_checksum x) ++ c_uint F_ChunkDescriptor_archive_size (d_archive_size x)
  ++ c_uint F_ChunkDescriptor_archive_offset (d_archive_offset x) ++ c_uint F_ChunkDescriptor_source_size (d_source_size x).
Definition canon_params (p : chunker_params) : list occ :=
  c_uint F_ChunkerParameters_chunk_filter_bits (p_bits p) ++ c_uint F_ChunkerParameters_min_chunk_size (p_min p)
  ++ c_uint F_ChunkerParameters_max_chunk_size (p_max p) ++ c_uint F_ChunkerParameters_rolling_hash_window_size (p_win p)
  ++ c_uint F_ChunkerParameters_chunk_hash_length (p_hashlen p) ++ c_uint F_ChunkerParameters_chunking_algorithm (p_algo p).
Definition canon_comp (c : compression) : list occ :=
  c_uint F_ChunkCompression_compression (z_type c) ++ c_uint F_ChunkCompression_compression_level (z_level c).
Definition canon_entry (kv : list N * list N) : list occ := c_bytes 1 (fst kv) ++ c_bytes 2 (snd kv).

Ltac canon_val :=
  rewrite ?varints_of_app, ?lens_of_app, ?varints_c_uint, ?varints_c_bytes, ?lens_c_uint, ?lens_c_bytes;
  untag; cbn [N.eqb Pos.eqb app]; rewrite ?app_nil_r, ?lastd_c_uint, ?lastd_c_bytes.

Lemma canon_desc_enc : forall x, flat_map enc_occ (canon_desc x) = encode_desc x.
Proof. intro x. unfold canon_desc, encode_desc. rewrite !flat_map_app, enc_c_bytes, !enc_c_uint. reflexivity. Qed.
Lemma canon_desc_ok : forall x, desc_wf x -> Forall (occ_ok desc_schema) (canon_desc x).
Proof.
  intros x (_ & H1 & H2 & H3). unfold canon_desc. repeat (apply Forall_app; split).
  - apply ok_c_bytes. reflexivity.
  - eapply ok_c_uint; [reflexivity | exact H1].
  - eapply ok_c_uint; [reflexivity | exact H2].
  - eapply ok_c_uint; [reflexivity | exact H3].
Qed.
Lemma canon_desc_val : forall x, desc_val (canon_desc x) = x.
Proof. intros [f1 f2 f3 f4]. unfold desc_val, desc_from, canon_desc, desc_default. cbn [d_checksum d_archive_size d_archive_offset d_source_size]. canon_val. reflexivity. Qed.

Lemma canon_params_enc : forall p, flat_map enc_occ (canon_params p) = encode_params p.
Proof. intro p. unfold canon_params, encode_params. rewrite !flat_map_app, !enc_c_uint. reflexivity. Qed.
Lemma canon_params_ok : forall p, params_wf p -> Forall (occ_ok params_schema) (canon_params p).
Proof.
  intros p (H1 & H2 & H3 & H4 & H5 & H6). unfold canon_params. repeat (apply Forall_app; split);
    (eapply ok_c_uint; [reflexivity | assumption]).
Qed.
Lemma canon_params_val : forall p, params_val (canon_params p) = p.
Proof. intros [f1 f2 f3 f4 f5 f6]. unfold params_val, params_from, canon_params, params_default. cbn [p_bits p_min p_max p_win p_hashlen p_algo]. canon_val. reflexivity. Qed.

Lemma canon_comp_enc : forall c, flat_map enc_occ (canon_comp c) = encode_comp c.
Proof. intro c. unfold canon_comp, encode_comp. rewrite !flat_map_app, !enc_c_uint. reflexivity. Qed.
Lemma canon_comp_ok : forall c, comp_wf c -> Forall (occ_ok comp_schema) (canon_comp c).
Proof.
  intros c (H1 & H2). unfold canon_comp. repeat (apply Forall_app; split);
    (eapply ok_c_uint; [reflexivity | assumption]).
Qed.
Lemma canon_comp_val : forall c, comp_val (canon_comp c) = c.
Proof. intros [f1 f2]. unfold comp_val, comp_from, canon_comp, comp_default. cbn [z_type z_level]. canon_val. reflexivity. Qed.

Lemma canon_entry_enc : forall kv, flat_map enc_occ (canon_entry kv) = encode_entry kv.
Proof. intro kv. unfold canon_entry, encode_entry. rewrite !flat_map_app, !enc_c_bytes. reflexivity. Qed.
Lemma canon_entry_ok : forall kv, utf8_valid (fst kv) = true -> Forall (occ_ok entry_schema) (canon_entry kv).
Proof.
  intros kv Hu. unfold canon_entry. apply Forall_app; split.
  - apply ok_c_string; [reflexivity | exact Hu].
  - apply ok_c_bytes. reflexivity.
Qed.
Lemma canon_entry_val : forall kv, entry_val (canon_entry kv) = kv.
Proof. intros [k v]. unfold entry_val, entry_from, canon_entry. cbn [fst snd]. canon_val. reflexivity. Qed.

(* the writer's layouts of the sub-messages are free encodings *)
Lemma canonical_desc_is_free : forall x, desc_wf x -> free_desc x (encode_desc x).
Proof.
  intros x Hwf. exists (canon_desc x). split; [split |].
  - symmetry. apply canon_desc_enc.
  - apply canon_desc_ok. exact Hwf.
  - apply canon_desc_val.
Qed.
Lemma canonical_params_is_free : forall p, params_wf p -> free_params p (encode_params p).
Proof.
  intros p Hwf. exists (canon_params p). split; [split |].
  - symmetry. apply canon_params_enc.
  - apply canon_params_ok. exact Hwf.
  - apply canon_params_val.
Qed.
Lemma canonical_comp_is_free : forall c, comp_wf c -> free_comp c (encode_comp c).
Proof.
  intros c Hwf. exists (canon_comp c). split; [split |].
  - symmetry. apply canon_comp_enc.
  - apply canon_comp_ok. exact Hwf.
  - apply canon_comp_val.
Qed.
Lemma canonical_entry_is_free : forall kv, utf8_valid (fst kv) = true -> free_entry kv (encode_entry kv).
Proof.
  intros kv Hu. exists (canon_entry kv). split; [split |].
  - symmetry. apply canon_entry_enc.
  - apply canon_entry_ok. exact Hu.
  - apply canon_entry_val.
Qed.

Definition canon_dict (d : dictionary) : list docc :=
  (match dict_version d with [] => [] | _ :: _ => [DVersion (dict_version d)] end)
  ++ (match dict_checksum d with [] => [] | _ :: _ => [DChecksum (dict_checksum d)] end)
  ++ (if dict_total d =? 0 then [] else [DTotal (dict_total d)])
  ++ (match dict_params d with Some p => [DParams (canon_params p)] | None => [] end)
  ++ (match dict_comp d with Some c => [DComp (canon_comp c)] | None => [] end)
  ++ (match dict_order d with [] => [] | _ :: _ => [DOrderPacked (dict_order d)] end)
  ++ map (fun x => DDesc (canon_desc x)) (dict_descs d)
  ++ map (fun kv => DMeta (canon_entry kv)) (dict_meta d).

Lemma flat_map_map_nil : forall (X Y Z : Type) (f : Y -> list Z) (g : X -> Y) l,
  (forall x, f (g x) = []) -> flat_map f (map g l) = [].
Proof. intros X Y Z f g l H. induction l as [| x l IH]; cbn [map flat_map]; [reflexivity | rewrite H, IH; reflexivity]. Qed.
Lemma flat_map_map_one : forall (X Y Z : Type) (f : Y -> list Z) (g : X -> Y) (h : X -> Z) l,
  (forall x, f (g x) = [h x]) -> flat_map f (map g l) = map h l.
Proof. intros X Y Z f g h l H. induction l as [| x l IH]; cbn [map flat_map]; [reflexivity | rewrite H, IH; reflexivity]. Qed.
Lemma flat_map_map : forall (X Y Z : Type) (f : Y -> list Z) (g : X -> Y) l,
  flat_map f (map g l) = flat_map (fun x => f (g x)) l.
Proof. intros X Y Z f g l. induction l as [| x l IH]; cbn [map flat_map]; [reflexivity | rewrite IH; reflexivity]. Qed.

Lemma canonical_is_free : forall d, dict_wf d -> free_dict d (encode_dict d).
Proof.
  intros [ver ck tot pa co ord ds me] Hwf.
  destruct Hwf as (_ & Huver & _ & Htot & Hpa & Hco & Hord & Hds & Hme & Hsorted).
  cbn [dict_version dict_checksum dict_total dict_params dict_comp dict_order dict_descs dict_meta] in *.
  exists (canon_dict (Build_dictionary ver ck tot pa co ord ds me)).
  unfold canon_dict. cbn [dict_version dict_checksum dict_total dict_params dict_comp dict_order dict_descs dict_meta].
  split; [| split].
  - (* bytes *)
    unfold encode_dict. cbn [dict_version dict_checksum dict_total dict_params dict_comp dict_order dict_descs dict_meta].
    rewrite !flat_map_app, !flat_map_map. cbn [enc_docc].
    f_equal; [destruct ver; cbn [flat_map enc_docc enc_bytes]; rewrite ?app_nil_r; reflexivity |].
    f_equal; [destruct ck; cbn [flat_map enc_docc enc_bytes]; rewrite ?app_nil_r; reflexivity |].
    f_equal; [unfold enc_uint; destruct (tot =? 0); cbn [flat_map enc_docc]; rewrite ?app_nil_r; reflexivity |].
    f_equal; [destruct pa; cbn [flat_map enc_docc]; rewrite ?app_nil_r, ?canon_params_enc; reflexivity |].
    f_equal; [destruct co; cbn [flat_map enc_docc]; rewrite ?app_nil_r, ?canon_comp_enc; reflexivity |].
    f_equal; [destruct ord; cbn [flat_map enc_docc]; rewrite ?app_nil_r; reflexivity |].
    f_equal.
    + apply flat_map_ext. intro x. rewrite canon_desc_enc. reflexivity.
    + apply flat_map_ext. intro kv. rewrite canon_entry_enc. reflexivity.
  - (* every occurrence is allowed *)
    repeat (apply Forall_app; split).
    + destruct ver; constructor; [exact Huver | constructor].
    + destruct ck; constructor; [exact I | constructor].
    + destruct (tot =? 0); constructor; [exact Htot | constructor].
    + destruct pa; constructor; [apply canon_params_ok; exact Hpa | constructor].
    + destruct co; constructor; [apply canon_comp_ok; exact Hco | constructor].
    + destruct ord; constructor; [exact Hord | constructor].
    + apply Forall_map. eapply Forall_impl; [| exact Hds]. intros x Hx. apply canon_desc_ok. exact Hx.
    + apply Forall_map. eapply Forall_impl; [| exact Hme]. intros kv Hkv. apply canon_entry_ok. apply Hkv.
  - (* the value *)
    unfold dict_value, versions_of, checksums_of, totals_of, params_of, comps_of, order_of, descs_of, metas_of.
    cbn [dict_version dict_checksum dict_total dict_params dict_comp dict_order dict_descs dict_meta].
    rewrite !flat_map_app.
    rewrite !(flat_map_map_nil _ _ _ _ (fun x => DDesc (canon_desc x))) by reflexivity.
    rewrite !(flat_map_map_nil _ _ _ _ (fun kv => DMeta (canon_entry kv))) by reflexivity.
    rewrite (flat_map_map_one _ _ _ _ (fun x => DDesc (canon_desc x)) canon_desc) by reflexivity.
    rewrite (flat_map_map_one _ _ _ _ (fun kv => DMeta (canon_entry kv)) canon_entry) by reflexivity.
    assert (Eds : map desc_val (map canon_desc ds) = ds).
    { rewrite map_map. rewrite (map_ext _ (fun x => x) canon_desc_val). apply map_id. }
    assert (Eme : map entry_val (map canon_entry me) = me).
    { rewrite map_map. rewrite (map_ext _ (fun x => x) canon_entry_val). apply map_id. }
    destruct (N.eqb_spec tot 0) as [-> | _];
      destruct ver, ck, pa, co, ord; cbn [flat_map app lastd concat];
      rewrite ?app_nil_r, ?canon_params_val, ?canon_comp_val, ?Eds, ?Eme;
      repeat split; try reflexivity;
      intro k; rewrite !(flat_map_map_nil _ _ _ _ (fun x => DDesc (canon_desc x))) by reflexivity;
      cbn [app]; rewrite ?app_nil_r, ?Eme; reflexivity.
Qed.

(* ---------- metadata: the usual reading (distinct keys, any order) ---------- *)
Lemma assoc_last_some_in : forall k v l, assoc_last k l = Some v -> In (k, v) l.
Proof.
  intros k v l. induction l as [| [k' v'] l IH]; intro H; [discriminate |].
  cbn [assoc_last fst snd] in H. destruct (assoc_last k l) as [w |].
  - injection H as ->. right. apply IH. reflexivity.
  - destruct (list_eqb_spec k k') as [-> | _]; [| discriminate]. injection H as ->. left. reflexivity.
Qed.

Lemma assoc_last_in : forall k v l, NoDup (map fst l) -> In (k, v) l -> assoc_last k l = Some v.
Proof.
  intros k v l. induction l as [| [k' v'] l IH]; intros Hnd Hin; [contradiction |].
  cbn [map fst] in Hnd. inversion Hnd as [| ? ? Hnotin Hnd']; subst.
  cbn [assoc_last fst snd]. destruct Hin as [E | Hin].
  - injection E as -> ->. destruct (assoc_last k l) as [w |] eqn:Ew.
    + exfalso. apply Hnotin. apply assoc_last_some_in in Ew.
      change k with (fst (k, w)). apply in_map. exact Ew.
    + rewrite list_eqb_refl. reflexivity.
  - rewrite (IH Hnd' Hin). reflexivity.
Qed.

(* entries with pairwise distinct keys, written in any order, denote the map [m] *)
Lemma meta_perm_ok : forall kvs m, NoDup (map fst kvs) -> Permutation kvs m ->
  forall k, assoc_last k m = assoc_last k kvs.
Proof.
  intros kvs m Hnd Hperm k.
  assert (Hndm : NoDup (map fst m)).
  { eapply Permutation_NoDup; [apply Permutation_map; exact Hperm | exact Hnd]. }
  destruct (assoc_last k kvs) as [v |] eqn:E.
  - apply assoc_last_in; [exact Hndm |]. eapply Permutation_in; [exact Hperm |]. apply assoc_last_some_in. exact E.
  - destruct (assoc_last k m) as [w |] eqn:E2; [| reflexivity].
    apply assoc_last_some_in in E2. apply (Permutation_in _ (Permutation_sym Hperm)) in E2.
    rewrite (assoc_last_in k w kvs Hnd E2) in E. discriminate.
Qed.

(* the payloads of the sub-message occurrences of a free dictionary encoding are free encodings of
   the sub-messages (link between [free_dict] and [free_desc] / [free_entry] / ...) *)
Lemma free_desc_sub : forall sub, Forall (occ_ok desc_schema) sub -> free_desc (desc_val sub) (flat_map enc_occ sub).
Proof. intros sub H. exists sub. repeat split. exact H. Qed.
Lemma free_params_sub : forall sub, Forall (occ_ok params_schema) sub -> free_params (params_val sub) (flat_map enc_occ sub).
Proof. intros sub H. exists sub. repeat split. exact H. Qed.
Lemma free_comp_sub : forall sub, Forall (occ_ok comp_schema) sub -> free_comp (comp_val sub) (flat_map enc_occ sub).
Proof. intros sub H. exists sub. repeat split. exact H. Qed.
Lemma free_entry_sub : forall sub, Forall (occ_ok entry_schema) sub -> free_entry (entry_val sub) (flat_map enc_occ sub).
Proof. intros sub H. exists sub. repeat split. exact H. Qed.

(* ---------- EXAMPLE: a non-canonical encoding ---------- *)
Definition ex_d : dictionary :=
  {| dict_version := [49; 46; 48];
     dict_checksum := [222; 173];
     dict_total := 300;
     dict_params := Some {| p_bits := 15; p_min := 16; p_max := 4096; p_win := 64; p_hashlen := 64; p_algo := 1 |};
     dict_comp := Some {| z_type := 2; z_level := 6 |};
     dict_order := [0; 1; 0];
     dict_descs := [ {| d_checksum := [1; 2]; d_archive_size := 100; d_archive_offset := 0; d_source_size := 200 |};
                     {| d_checksum := [3; 4]; d_archive_size := 50; d_archive_offset := 100; d_source_size := 100 |} ];
     dict_meta := [([107], [118])] |}.

Definition ex_occs : list docc :=
  [ DMeta [OUnk 3 WT_VARINT [9]; OLen 2 [118]; OLen 1 [107]];
    DDesc [OVarint 5 200; OVarint 4 0; OVarint 3 100; OLen 1 [1; 2]];
    DUnk 15 WT_LEN [2; 7; 7];
    DOrderOne 0;
    DDesc [OLen 1 [3; 4]; OUnk 2 WT_32 [0; 0; 0; 0]; OVarint 3 50; OVarint 4 100; OVarint 5 100];
    DOrderPacked [1];
    DComp [OVarint 3 6; OVarint 2 2];
    DOrderOne 0;
    DParams [OVarint 6 1; OVarint 5 64; OVarint 4 64];
    DTotal 7;
    DParams [OVarint 3 4096; OVarint 2 16; OVarint 1 99; OVarint 1 15];
    DOrderPacked [];
    DTotal 300;
    DChecksum [222; 173];
    DVersion [49; 46; 48] ].

(* The byte string.  In the order of the bytes: the metadata entry (an unknown varint field 3, the
   value BEFORE the key); descriptor 0 with its fields in reverse order and archive_offset = 0 written
   explicitly; an unknown length-delimited top-level field 15; rebuild_order element 0 unpacked;
   descriptor 1 with an unknown 32-bit field 2 inside; a packed rebuild_order run [1]; chunk_compression
   (level before type); rebuild_order element 0 unpacked; a first chunker_params occurrence (fields 6, 5,
   4); source_total_size = 7 (overridden later); a second chunker_params occurrence (fields 3, 2, 1 = 99,
   1 = 15: merged with the first one, last value of field 1 wins); an empty packed rebuild_order run;
   source_total_size = 300; source_checksum; application_version. *)
Definition ex_bytes : list N :=
  [66; 8; 24; 9; 18; 1; 118; 10; 1; 107;
   58; 11; 40; 200; 1; 32; 0; 24; 100; 10; 2; 1; 2;
   122; 2; 7; 7;
   48; 0;
   58; 15; 10; 2; 3; 4; 21; 0; 0; 0; 0; 24; 50; 32; 100; 40; 100;
   50; 1; 1;
   42; 4; 24; 6; 16; 2;
   48; 0;
   34; 6; 48; 1; 40; 64; 32; 64;
   24; 7;
   34; 9; 24; 128; 32; 16; 16; 8; 99; 8; 15;
   50; 0;
   24; 172; 2;
   18; 2; 222; 173;
   10; 3; 49; 46; 48].

Example ex_wf : dict_wf ex_d.
Proof.
  unfold dict_wf, ex_d, bytes_ok, u64, u32, params_wf, comp_wf, desc_wf, bytes_ok, u32, u64.
  cbn [dict_version dict_checksum dict_total dict_params dict_comp dict_order dict_descs dict_meta
       p_bits p_min p_max p_win p_hashlen p_algo z_type z_level d_checksum d_archive_size d_archive_offset d_source_size
       fst snd meta_sorted].
  repeat (cbv beta; cbn [fst snd bytes_ok d_checksum d_archive_size d_archive_offset d_source_size];
          match goal with
          | |- _ /\ _ => split
          | |- Forall _ _ => constructor
          | |- True => exact I
          | |- _ < _ => lia
          | |- _ = true => reflexivity
          end).
Qed.

Example ex_not_canonical : ex_bytes <> encode_dict ex_d.
Proof. vm_compute. discriminate. Qed.

Example ex_free : free_dict ex_d ex_bytes.
Proof.
  exists ex_occs. split; [vm_compute; reflexivity | split].
  - unfold ex_occs.
    repeat match goal with
           | |- Forall _ _ => constructor
           | |- docc_ok _ => cbn [docc_ok]
           | |- occ_ok _ (OVarint _ _) => cbn [occ_ok]; eexists; split; [reflexivity | unfold U32, B64; lia]
           | |- occ_ok _ (OLen _ _) => cbn [occ_ok]; first [left; reflexivity | right; split; reflexivity]
           | |- occ_ok _ (OUnk _ _ _) => cbn [occ_ok]; split; [lia | split; [lia | split; [reflexivity |]]]
           | |- True => exact I
           | |- _ < _ => unfold U32, B64; lia
           | |- _ <= _ => lia
           | |- _ = true => reflexivity
           | |- _ /\ _ => split
           end.
    + (* unknown field 3 (varint 9) in the map entry *)
      left. split; [reflexivity |]. exists 9. split; [lia | vm_compute; reflexivity].
    + (* unknown top-level field 15, length-delimited, payload [7; 7] *)
      right. right. left. split; [reflexivity |]. exists [7; 7]. split; vm_compute; reflexivity.
    + (* unknown 32-bit field 2 in the descriptor *)
      right. right. right. split; reflexivity.
  - unfold dict_value. repeat split; try (vm_compute; reflexivity).
Qed.

Example ex_decodes : decode_dict ex_bytes = Some ex_d.
Proof. vm_compute. reflexivity. Qed.

(* the same fact obtained from the theorem *)
Example ex_decodes_thm : decode_dict ex_bytes = Some ex_d.
Proof. apply free_encoding_decodes; [exact ex_wf | vm_compute; reflexivity | exact ex_free]. Qed.

(* ---------- the decoder on inputs that are OUTSIDE the relation (checked by computation) ---------- *)
(* accepted although not in [free_dict]: an unknown field with the (deprecated) group wire types 3/4 *)
Example outside_group_skipped :
  decode_dict [123; 8; 7; 19; 20; 124; 24; 5] =
  Some {| dict_version := []; dict_checksum := []; dict_total := 5; dict_params := None; dict_comp := None;
          dict_order := []; dict_descs := []; dict_meta := [] |}.
Proof. vm_compute. reflexivity. Qed.
(* accepted although not in [free_dict]: varints that are not minimal (300 written on 3 bytes); these are
   covered by Proofs/ProtoFreeWire.v *)
Example outside_padded_varint :
  decode_dict [24; 172; 130; 0] =
  Some {| dict_version := []; dict_checksum := []; dict_total := 300; dict_params := None; dict_comp := None;
          dict_order := []; dict_descs := []; dict_meta := [] |}.
Proof. vm_compute. reflexivity. Qed.
(* rejected, and not conforming: rebuild_order element with the 32-bit wire type; a string field that is
   not UTF-8; source_total_size with the length-delimited wire type *)
Example outside_order_fixed32 : decode_dict [53; 1; 0; 0; 0] = None.
Proof. vm_compute. reflexivity. Qed.
Example outside_bad_utf8 : decode_dict [10; 1; 255] = None.
Proof. vm_compute. reflexivity. Qed.
Example outside_total_len : decode_dict [26; 1; 0] = None.
Proof. vm_compute. reflexivity. Qed.
(* accepted although NOT conforming (leniency of the decoder, harmless for this property): a metadata
   field with the varint wire type is read as length-delimited; a uint32 field above 2^32 is truncated *)
Example outside_meta_varint_wt :
  decode_dict [64; 0] =
  Some {| dict_version := []; dict_checksum := []; dict_total := 0; dict_params := None; dict_comp := None;
          dict_order := []; dict_descs := []; dict_meta := [([], [])] |}.
Proof. vm_compute. reflexivity. Qed.
Example outside_u32_truncated :
  decode_dict [58; 6; 24; 133; 128; 128; 128; 16] =
  Some {| dict_version := []; dict_checksum := []; dict_total := 0; dict_params := None; dict_comp := None;
          dict_order := [];
          dict_descs := [ {| d_checksum := []; d_archive_size := 5; d_archive_offset := 0; d_source_size := 0 |} ];
          dict_meta := [] |}.
Proof. vm_compute. reflexivity. Qed.

Print Assumptions free_encoding_decodes.
Print Assumptions canonical_is_free.
Print Assumptions ex_free.
Print Assumptions meta_perm_ok.
