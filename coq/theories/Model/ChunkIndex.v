(* Model of bitar/src/{chunk_index,chunk_location_map,chunk_offset}.rs. No proofs here.
   Keys are [N]: a key stands for a truncated hash sum (Model/HashSum.v relates byte-string hashes
   to keys under the injectivity hypothesis). A map is an association list with unique keys. *)
From Bita Require Import Model.Base.

Record loc := { l_size : N; l_offs : list N }.      (* offsets ascending, no duplicates *)
Definition index := list (N * loc).

Fixpoint memk (x : N) (l : list N) : bool :=
  match l with [] => false | y :: r => if x =? y then true else memk x r end.

Fixpoint ci_get (idx : index) (k : N) : option loc :=
  match idx with
  | [] => None
  | (k', l) :: r => if k =? k' then Some l else ci_get r k
  end.

Definition ci_contains (idx : index) (k : N) : bool :=
  match ci_get idx k with Some _ => true | None => false end.

Fixpoint ci_remove (idx : index) (k : N) : index :=
  match idx with
  | [] => []
  | (k', l) :: r => if k =? k' then r else (k', l) :: ci_remove r k
  end.

(* ChunkLocation::add_offset_sorted (binary_search + insert) *)
Fixpoint insert_sorted (o : N) (l : list N) : list N :=
  match l with
  | [] => [o]
  | x :: r => if o <? x then o :: l else if o =? x then l else x :: insert_sorted o r
  end.

(* ChunkIndex::add_chunk: an existing entry keeps its size *)
Fixpoint ci_add (idx : index) (k size : N) (offs : list N) : index :=
  match idx with
  | [] => [(k, {| l_size := size; l_offs := fold_left (fun acc o => insert_sorted o acc) offs [] |})]
  | (k', l) :: r =>
      if k =? k'
      then (k', {| l_size := l_size l; l_offs := fold_left (fun acc o => insert_sorted o acc) offs (l_offs l) |}) :: r
      else (k', l) :: ci_add r k size offs
  end.

(* remove the first occurrence of o *)
Fixpoint remove_first (o : N) (l : list N) : list N :=
  match l with
  | [] => []
  | x :: r => if x =? o then r else x :: remove_first o r
  end.

(* ChunkIndex::strip_chunks_already_in_place: self = current file, argument = target.
   Returns the stripped target, the number of offsets in place and their total size. *)
Fixpoint strip_in_place (cur : index) (tgt : index) : index * N * N :=
  match tgt with
  | [] => ([], 0, 0)
  | (k, cd) :: r =>
      let '(r', n, tot) := strip_in_place cur r in
      match ci_get cur k with
      | Some cl =>
          let offs := fold_left (fun acc o => remove_first o acc) (l_offs cl) (l_offs cd) in
          let inplace := lenN (l_offs cd) - lenN offs in
          let n' := n + inplace in
          let tot' := tot + l_size cl * inplace in
          match offs with
          | [] => (r', n', tot')
          | _ => ((k, {| l_size := l_size cd; l_offs := offs |}) :: r', n', tot')
          end
      | None => ((k, cd) :: r', n, tot)
      end
  end.

(* ---------- ChunkLocationMap: BTreeMap<ChunkOffset, key>, sorted by (offset, size) ---------- *)
Record lentry := { le_off : N; le_size : N; le_key : N }.
Definition layout := list lentry.

Definition co_lt (o1 s1 o2 s2 : N) : bool := (o1 <? o2) || ((o1 =? o2) && (s1 <? s2)).

Fixpoint layout_insert (e : lentry) (l : layout) : layout :=
  match l with
  | [] => [e]
  | x :: r =>
      if co_lt (le_off e) (le_size e) (le_off x) (le_size x) then e :: l
      else if (le_off e =? le_off x) && (le_size e =? le_size x) then e :: r   (* same key: value replaced *)
      else x :: layout_insert e r
  end.

Fixpoint layout_remove (o s : N) (l : layout) : layout :=
  match l with
  | [] => []
  | x :: r => if (le_off x =? o) && (le_size x =? s) then r else x :: layout_remove o s r
  end.

Fixpoint take_while {A} (f : A -> bool) (l : list A) : list A :=
  match l with [] => [] | x :: r => if f x then x :: take_while f r else [] end.

(* iter_overlapping: range (.., Excluded (end, 0)) reversed, take_while (offset < entry.end) *)
Definition iter_overlapping (l : layout) (off size : N) : list lentry :=
  let below := filter (fun e => co_lt (le_off e) (le_size e) (off + size) 0) l in
  take_while (fun e => off <? le_off e + le_size e) (rev below).

(* ---------- reorder_ops ---------- *)
Inductive rop :=
| RCopy (k size src : N) (dests : list N)
| RStore (k size src : N).

Record mchunk := { m_key : N; m_size : N; m_src : N }.

(* recursive formulation of build_reorder_ops (explicit stack in the code; same op sequence) *)
Fixpoint visit (fuel : nat) (tgt : index) (lay : layout) (c : mchunk) (st : list N * list rop)
  : list N * list rop :=
  match fuel with
  | O => st
  | S f =>
      let '(vis, ops) := st in
      if memk (m_key c) vis then st else
      let vis1 := m_key c :: vis in
      let '(ov, dests) :=
        match ci_get tgt (m_key c) with
        | Some tl =>
            (flat_map (fun d => filter (fun e => negb (le_key e =? m_key c)) (iter_overlapping lay d (l_size tl)))
                      (l_offs tl), l_offs tl)
        | None => ([], [])
        end in
      let stores := map (fun e => RStore (le_key e) (le_size e) (le_off e))
                        (filter (fun e => memk (le_key e) vis1) ov) in
      let children := filter (fun e => negb (memk (le_key e) vis1)) ov in
      let '(vis2, ops2) :=
        fold_left (fun st e => visit f tgt lay {| m_key := le_key e; m_size := le_size e; m_src := le_off e |} st)
                  (rev children) (vis1, ops ++ stores) in
      (vis2, ops2 ++ [RCopy (m_key c) (m_size c) (m_src c) dests])
  end.

Fixpoint insert_by_src (c : mchunk) (l : list mchunk) : list mchunk :=
  match l with
  | [] => [c]
  | x :: r => if m_src c <? m_src x then c :: l else x :: insert_by_src c r
  end.

Definition first_off (l : loc) : N := hd 0 (l_offs l).

(* chunks present in both indexes, sorted on first source offset; and the layout of their first offsets *)
Definition chunks_to_move (cur tgt : index) : list mchunk :=
  fold_left (fun acc e =>
               let '(k, l) := e in
               if ci_contains tgt k then insert_by_src {| m_key := k; m_size := l_size l; m_src := first_off l |} acc
               else acc) cur [].

Definition source_layout (cur tgt : index) : layout :=
  fold_left (fun acc e =>
               let '(k, l) := e in
               if ci_contains tgt k then layout_insert {| le_off := first_off l; le_size := l_size l; le_key := k |} acc
               else acc) cur [].

Definition remove_tree (cur : index) (lay : layout) (tree : list N) : layout :=
  fold_left (fun lay k =>
               match ci_get cur k with
               | Some l => fold_left (fun lay o => layout_remove o (l_size l) lay) (l_offs l) lay
               | None => lay
               end) tree lay.

Fixpoint trees (fuel : nat) (cur tgt : index) (lay : layout) (todo : list mchunk) (processed : list N)
  (ops : list rop) : list rop :=
  match todo with
  | [] => ops
  | c :: r =>
      if memk (m_key c) processed then trees fuel cur tgt lay r processed ops
      else
        let '(tree, ops') := visit fuel tgt lay c ([], ops) in
        trees fuel cur tgt (remove_tree cur lay tree) r (tree ++ processed) ops'
  end.

Definition reorder_ops (cur tgt : index) : list rop :=
  let todo := chunks_to_move cur tgt in
  trees (S (length todo)) cur tgt (source_layout cur tgt) todo [] [].
