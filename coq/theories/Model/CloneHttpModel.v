(* A whole clone over HTTP against a server that follows a script (Model/HttpReader.v: complete answers, refused
   connections, cut or short bodies, extra bytes, wrong bytes): Archive::try_init through HttpReader::read_at
   (two reads), then Archive::chunk_stream through HttpReader::read_chunks for the descriptors still missing,
   decompress + verify + feed for every delivered item, resize. Every request consumes one item of the script.
   As in src/clone_cmd.rs nothing checks that every chunk arrived: a stream that ended early WITHOUT an error item
   would give a "successful" clone with holes -- Proofs show the reader model never does that. *)
From Bita Require Import Model.Base Gen.Generated Model.ChunkIndex Model.CloneOutput Model.Proto Model.Archive
                         Model.CloneArchive Model.HttpReader.

Section CloneHttpModel.
  Variable H : list N -> list N.
  Variable decomp : N -> list N -> option (list N).

  Definition item_outcome (it : item) : outcome (list N) :=
    match it with IOk d => Ok d | IErr e => Err e end.

  (* try_init over http: the pre-header read, then (when the magic and the size field allow it) the rest of the
     header; returns the outcome, the script left and the requests made so far *)
  Definition http_open (f : list N) (retries : N) (script : list sitem)
    : outcome archive * list sitem * list (N * N) :=
    let fuel := S (S (N.to_nat retries)) in
    let '(i1, log1) := http_read_at fuel f 0 PRE_HEADER_SIZE retries script [] in
    let script1 := skipn (length log1) script in
    match i1 with
    | IErr e => (Err e, script1, log1)
    | IOk pre =>
        let magic := takeN 6 pre in
        let trailer := le_value (slice pre 6 PRE_HEADER_SIZE) + TRAILER_OFFSET_SIZE + TRAILER_HASH_SIZE in
        if (list_eqb magic ARCHIVE_MAGIC || list_eqb magic LEGACY_MAGIC) && (trailer + PRE_HEADER_SIZE <? M64) then
          let '(i2, log2) := http_read_at fuel f PRE_HEADER_SIZE trailer retries script1 log1 in
          let script2 := skipn (length log2 - length log1) script1 in
          (try_init H (fun off _ => if off =? 0 then Ok pre else item_outcome i2), script2, log2)
        else
          (try_init H (fun off _ => if off =? 0 then Ok pre else Err E_READER), script1, log1)
    end.

  Definition desc_req (d : adesc) : range := {| r_off := ad_offset d; r_size := ad_size d |}.

  (* the delivered items, paired with the descriptors they were requested for *)
  Fixpoint unpack_items (a : archive) (descs : list adesc) (items : list item) : outcome (list (N * list N)) :=
    match descs, items with
    | [], _ => Ok []
    | _ :: _, [] => Ok []                 (* stream over: clone_cmd does not count the chunks *)
    | _ :: _, IErr e :: _ => Err e
    | d :: r, IOk x :: ri =>
        do y <- unpack H decomp a d x;
        do rest <- unpack_items a r ri;
        Ok ((key_of a (ad_checksum d), y) :: rest)
    end.

  (* bita clone <url> <new file>: result (output bytes or error) and every Range request sent *)
  Definition http_clone (f : list N) (retries : N) (script : list sitem) : outcome (list N) * list (N * N) :=
    let '(oa, script1, log1) := http_open f retries script in
    match oa with
    | Ok a =>
        let cidx := build_source_index a in
        let r0 := clone_model [] None cidx None [] [] in
        let descs := fetch_descs a (cr_index r0) in
        let '(items, log2) := chunk_reader (S (length descs)) f retries script1 (map desc_req descs) [] log1 in
        match unpack_items a descs items with
        | Ok arch =>
            let r := clone_model [] None cidx None [] arch in
            match o_err (cr_state r) with
            | Some e => (Err e, log2)
            | None => (Ok (set_len (a_total a) (o_file (cr_state r))), log2)
            end
        | Err e => (Err e, log2)
        | Panic p => (Panic p, log2)
        | OutOfFuel => (OutOfFuel, log2)
        end
    | Err e => (Err e, log1)
    | Panic p => (Panic p, log1)
    | OutOfFuel => (OutOfFuel, log1)
    end.
End CloneHttpModel.
