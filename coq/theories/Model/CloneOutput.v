(* Model of bitar/src/clone_output.rs on an in-memory output with a recorded I/O trace and an optional
   injected write fault. No proofs here.
   Errors are sticky in the state ([o_err]): the code returns at the first failing await (`?`), so after
   an error no further operation has an effect; the state at that point is what a later run finds. *)
From Bita Require Import Model.Base Model.ChunkIndex.

Inductive tev :=
| TSeek (off : N)
| TWrite (data : list N)       (* bytes that reached the file *)
| TRead (n : N).

(* fault: the k-th write_all (0-based) stores only the first t bytes and fails *)
Record ostate := { o_file : list N; o_trace : list tev; o_nwrites : N; o_fault : option (N * N);
                   o_err : option N }.

Definition E_IO : N := 1.          (* an I/O error returned to the caller *)
Definition E_EOF : N := 2.         (* read_exact hit the end of the file *)

Definition o_init (f : list N) (fault : option (N * N)) : ostate :=
  {| o_file := f; o_trace := []; o_nwrites := 0; o_fault := fault; o_err := None |}.

(* POSIX write at offset: a gap beyond the end is zero filled *)
Definition file_write (f : list N) (off : N) (d : list N) : list N :=
  let pre := takeN off f in
  let pad := repeat 0 (N.to_nat (off - lenN pre)) in
  pre ++ pad ++ d ++ dropN (off + lenN d) f.

Definition faulty (st : ostate) : option N :=
  match o_fault st with
  | Some (k, t) => if o_nwrites st =? k then Some t else None
  | None => None
  end.

(* seek(Start(off)) then write_all(d) *)
Definition o_seek_write (st : ostate) (off : N) (d : list N) : ostate :=
  match o_err st with
  | Some _ => st
  | None =>
    match faulty st with
    | Some t =>
        let d' := takeN t d in
        {| o_file := (match d' with [] => o_file st | _ => file_write (o_file st) off d' end);
           o_trace := o_trace st ++ TSeek off :: (match d' with [] => [] | _ => [TWrite d'] end);
           o_nwrites := o_nwrites st + 1; o_fault := o_fault st; o_err := Some E_IO |}
    | None =>
        {| o_file := file_write (o_file st) off d; o_trace := o_trace st ++ [TSeek off; TWrite d];
           o_nwrites := o_nwrites st + 1; o_fault := o_fault st; o_err := None |}
    end
  end.

(* write_offset: seek + write_all per offset *)
Definition write_offsets (st : ostate) (offs : list N) (d : list N) : ostate :=
  fold_left (fun st o => o_seek_write st o d) offs st.

(* CloneOutput::feed: new state, new index, bytes written (meaningful when no error) *)
Definition feed (st : ostate) (idx : index) (k : N) (d : list N) : ostate * index * N :=
  match o_err st with
  | Some _ => (st, idx, 0)
  | None =>
    match ci_get idx k with
    | Some l => (write_offsets st (l_offs l) d, ci_remove idx k, lenN (l_offs l) * lenN d)
    | None => (st, idx, 0)
    end
  end.

(* seek(Start(off)) then read_exact(n bytes) *)
Definition o_seek_read (st : ostate) (off n : N) : ostate * list N :=
  match o_err st with
  | Some _ => (st, [])
  | None =>
    if off + n <=? lenN (o_file st)
    then ({| o_file := o_file st; o_trace := o_trace st ++ [TSeek off; TRead n];
             o_nwrites := o_nwrites st; o_fault := o_fault st; o_err := None |},
          takeN n (dropN off (o_file st)))
    else ({| o_file := o_file st; o_trace := o_trace st ++ [TSeek off];
             o_nwrites := o_nwrites st; o_fault := o_fault st; o_err := Some E_EOF |}, [])
  end.

Definition store := list (N * list N).
Fixpoint store_get (s : store) (k : N) : option (list N) :=
  match s with [] => None | (k', d) :: r => if k =? k' then Some d else store_get r k end.
Fixpoint store_remove (s : store) (k : N) : store :=
  match s with [] => [] | (k', d) :: r => if k =? k' then r else (k', d) :: store_remove r k end.

(* the executor loop of reorder_in_place *)
Fixpoint exec_ops (ops : list rop) (st : ostate) (idx : index) (mem : store) (moved : N)
  : ostate * index * N :=
  match o_err st with
  | Some _ => (st, idx, moved)
  | None =>
    match ops with
    | [] => (st, idx, moved)
    | RCopy k size src dests :: r =>
        match store_get mem k with
        | Some d =>
            let st1 := write_offsets st dests d in
            exec_ops r st1 (ci_remove idx k) (store_remove mem k) (moved + size)
        | None =>
            let '(st1, d) := o_seek_read st src size in
            let st2 := write_offsets st1 dests d in
            exec_ops r st2 (ci_remove idx k) mem (moved + size)
        end
    | RStore k size src :: r =>
        match store_get mem k with
        | Some _ => exec_ops r st idx mem moved
        | None =>
            let '(st1, d) := o_seek_read st src size in
            exec_ops r st1 idx ((k, d) :: mem) moved
        end
    end
  end.

(* CloneOutput::reorder_in_place (output_index = index of the current file content) *)
Definition reorder_in_place (st : ostate) (clone_idx : index) (output_idx : index)
  : ostate * index * N :=
  let '(clone', _n, total) := strip_in_place output_idx clone_idx in
  let ops := reorder_ops output_idx clone' in
  let '(st', idx', moved) := exec_ops ops st clone' [] 0 in
  (st', idx', moved + total).

(* ---------- a whole clone at the library level (what src/clone_cmd.rs::clone_archive does with the
   pieces above): optional in-place reorder, seeds, then the archive's chunks still in the index ---------- *)
Definition feed_list (st : ostate) (idx : index) (feeds : list (N * list N)) : ostate * index * list N :=
  fold_left (fun acc kd =>
               let '(st, idx, fed) := acc in
               match o_err st with
               | Some _ => acc
               | None => let '(st', idx', n) := feed st idx (fst kd) (snd kd) in
                         (st', idx', match o_err st' with None => fed ++ [n] | Some _ => fed end)
               end) feeds (st, idx, []).

Record clone_result := { cr_state : ostate; cr_index : index; cr_moved : N; cr_fed : list N; cr_fetch : list N }.

(* [arch]: the archive's chunk descriptors in archive order as (key, data delivered for it) *)
Definition clone_model (prior : list N) (fault : option (N * N)) (clone_idx : index) (out_idx : option index)
  (seeds : list (N * list N)) (arch : list (N * list N)) : clone_result :=
  let st0 := o_init prior fault in
  let '(st1, idx1, moved) :=
    match out_idx with
    | Some oi => reorder_in_place st0 clone_idx oi
    | None => (st0, clone_idx, 0)
    end in
  let '(st2, idx2, fed2) := feed_list st1 idx1 seeds in
  (* Archive::chunk_stream: descriptors filtered by the index, in archive order *)
  let fetch := match o_err st2 with
               | None => filter (fun kd => ci_contains idx2 (fst kd)) arch
               | Some _ => [] end in
  let '(st3, idx3, fed3) := feed_list st2 idx2 fetch in
  {| cr_state := st3; cr_index := idx3; cr_moved := moved; cr_fed := fed2 ++ fed3; cr_fetch := map fst fetch |}.
