(* Explicit-stack model of ChunkIndex::build_reorder_ops (bitar/src/chunk_index.rs): the `while let Some(..) =
   stack.last_mut()` loop, one [iter_loop] step per loop iteration. Executable, no proofs here.
   Proofs/PlannerIterEq.v proves it equal to the recursive formulation [visit]/[reorder_ops] of Model/ChunkIndex.v. *)
From Bita Require Import Model.Base Model.ChunkIndex.

(* stack entries: the chunk and its pending Copy op (None until the entry has been expanded);
   head of the list = top of the stack (= last element of the Rust Vec) *)
Definition sentry := (mchunk * option rop)%type.

Definition mchunk_of (e : lentry) : mchunk := {| m_key := le_key e; m_size := le_size e; m_src := le_off e |}.

(* overlapped entries (of other chunks) and destinations of a chunk, exactly as in [visit] *)
Definition expand (tgt : index) (lay : layout) (c : mchunk) : list lentry * list N :=
  match ci_get tgt (m_key c) with
  | Some tl =>
      (flat_map (fun d => filter (fun e => negb (le_key e =? m_key c)) (iter_overlapping lay d (l_size tl)))
                (l_offs tl), l_offs tl)
  | None => ([], [])
  end.

Fixpoint iter_loop (fuel : nat) (tgt : index) (lay : layout) (stack : list sentry) (vis : list N) (ops : list rop)
  : list N * list rop :=
  match fuel with
  | O => (vis, ops)
  | S f =>
      match stack with
      | [] => (vis, ops)
      | (c, op) :: rest =>
          if memk (m_key c) vis then
            (* already visited: the entry is popped; its op is emitted if it has one *)
            iter_loop f tgt lay rest vis (match op with Some o => ops ++ [o] | None => ops end)
          else
            let vis1 := m_key c :: vis in
            let '(ov, dests) := expand tgt lay c in
            let stores := map (fun e => RStore (le_key e) (le_size e) (le_off e))
                              (filter (fun e => memk (le_key e) vis1) ov) in
            let children := filter (fun e => negb (memk (le_key e) vis1)) ov in
            let child_entries := map (fun e => (mchunk_of e, @None rop)) children in
            (* stack.append(child_stack): the last pushed child becomes the top *)
            iter_loop f tgt lay
                      (rev child_entries ++ (c, Some (RCopy (m_key c) (m_size c) (m_src c) dests)) :: rest)
                      vis1 (ops ++ stores)
      end
  end.

Definition visit_iter (fuel : nat) (tgt : index) (lay : layout) (c : mchunk) (st : list N * list rop)
  : list N * list rop :=
  iter_loop fuel tgt lay [(c, None)] (fst st) (snd st).

(* largest number of destination offsets of one target chunk *)
Definition max_dests (tgt : index) : nat :=
  fold_right (fun e m => Nat.max (length (l_offs (snd e))) m) O tgt.

(* like [trees] of Model/ChunkIndex.v, with the explicit-stack loop for every DFS tree *)
Fixpoint trees_iter (fuel : nat) (cur tgt : index) (lay : layout) (todo : list mchunk) (processed : list N)
  (ops : list rop) : list rop :=
  match todo with
  | [] => ops
  | c :: r =>
      if memk (m_key c) processed then trees_iter fuel cur tgt lay r processed ops
      else
        let '(tree, ops') := visit_iter fuel tgt lay c ([], ops) in
        trees_iter fuel cur tgt (remove_tree cur lay tree) r (tree ++ processed) ops'
  end.

(* Loop fuel. One tree visits at most [length todo] chunks; every expansion pushes at most
   [max_dests tgt * length layout] children; every entry costs one iteration to pop, every expansion one more. *)
Definition iter_fuel (tgt : index) (lay : layout) (todo : list mchunk) : nat :=
  S ((max_dests tgt * length lay + 2) * length todo)%nat.

Definition reorder_ops_iter (cur tgt : index) : list rop :=
  let todo := chunks_to_move cur tgt in
  let lay := source_layout cur tgt in
  trees_iter (iter_fuel tgt lay todo) cur tgt lay todo [] [].
