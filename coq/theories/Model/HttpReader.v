(* Model of bitar/src/archive_reader/{http_reader,http_range_request}.rs driven by a server script,
   and of io_reader.rs (IoChunkReader) driven by a read schedule. No proofs here.
   The transport (reqwest/hyper/TCP) is not modelled: a request is answered by the next script item. *)
From Bita Require Import Model.Base.

Record range := { r_off : N; r_size : N }.
Definition r_end (r : range) : N := r_off r + r_size r.

(* ChunkReader::adjacent_reads: 1 + number of leading adjacent pairs *)
Fixpoint adjacent_reads (chunks : list range) : N :=
  match chunks with
  | [] => 1
  | a :: r => match r with
              | [] => 1
              | b :: _ => if r_end a =? r_off b then 1 + adjacent_reads r else 1
              end
  end.

(* what the server does with one request *)
Inductive sitem :=
| SOk                 (* the requested bytes, complete *)
| SRefuse             (* no response: the request fails *)
| SCut (k : N)        (* first k bytes of the requested range, then the transfer fails *)
| SShort (k : N)      (* first k bytes of the requested range, then the body ends cleanly *)
| SExtra (k : N)      (* the requested bytes followed by k more bytes of the file *)
| SWrong.             (* a body of the requested length with other bytes (e.g. an error page) *)

Inductive fin := FinEnd | FinErr.

(* bytes sent and how the body ends; [f] is the archive *)
Definition serve (f : list N) (off size : N) (it : sitem) : option (list N * fin) :=
  let want := takeN size (dropN off f) in
  match it with
  | SOk => Some (want, FinEnd)
  | SRefuse => None
  | SCut k => Some (takeN k want, FinErr)
  | SShort k => Some (takeN k want, FinEnd)
  | SExtra k => Some (takeN (size + k) (dropN off f), FinEnd)
  | SWrong => Some (map (fun b => N.lxor b 255) want, FinEnd)
  end.

Definition E_HTTP : N := 20.        (* HttpReaderError::Http *)
Definition E_END : N := 21.         (* HttpReaderError::UnexpectedEnd *)

Inductive item := IOk (d : list N) | IErr (e : N).

(* One HttpRangeRequest run to completion for the consumer that wants [need] more bytes in total:
   returns the bytes delivered (concatenated), the requests sent (offset, size), the remaining script and
   whether it ended with an error. The body of a response is consumed only as far as needed. *)
Fixpoint range_request (fuel : nat) (f : list N) (off size : N) (retries : N) (script : list sitem)
  (need : N) (got : list N) (log : list (N * N)) : list N * list (N * N) * list sitem * option N :=
  match fuel with
  | O => (got, log, script, Some E_HTTP)
  | S fu =>
      let it := match script with [] => SOk | x :: _ => x end in
      let script' := tl script in
      let log' := log ++ [(off, size)] in
      match serve f off size it with
      | None =>
          if retries =? 0 then (got, log', script', Some E_HTTP)
          else range_request fu f off size (retries - 1) script' need got log'
      | Some (body, fn) =>
          let got' := got ++ body in
          if need <=? lenN got' then (got', log', script', None)
          else
            match fn with
            | FinEnd => (got', log', script', Some E_END)
            | FinErr =>
                if retries =? 0 then (got', log', script', Some E_HTTP)
                else range_request fu f (off + lenN body) (size - lenN body) (retries - 1) script' need got' log'
            end
      end
  end.

(* ChunkReader: the stream of chunk items (ends after the first error) and the request log *)
Fixpoint split_chunks (buf : list N) (chunks : list range) : list item :=
  match chunks with
  | [] => []
  | c :: r => IOk (takeN (r_size c) buf) :: split_chunks (dropN (r_size c) buf) r
  end.

(* [buf] is chunk_buf: bytes received and not yet handed out (left-overs of an over-long response stay in
   it until the next request clears it) *)
Fixpoint chunk_reader (fuel : nat) (f : list N) (retries : N) (script : list sitem) (chunks : list range)
  (buf : list N) (log : list (N * N)) : list item * list (N * N) :=
  match fuel with
  | O => ([], log)
  | S fu =>
      match chunks with
      | [] => ([], log)
      | c :: rest =>
          if r_size c <=? lenN buf then
            (* complete without a request (zero sized chunk, or left-over bytes) *)
            let '(items, log') := chunk_reader fu f retries script rest (dropN (r_size c) buf) log in
            (IOk (takeN (r_size c) buf) :: items, log')
          else
            let n := adjacent_reads chunks in
            let run := firstn (N.to_nat n) chunks in
            let total := r_end (last run c) - r_off c in
            let '(got, log', script', err) :=
              range_request (S (N.to_nat retries) + 1) f (r_off c) total retries script total [] log in
            match err with
            | None =>
                let '(items, log'') := chunk_reader fu f retries script' (skipn (N.to_nat n) chunks) (dropN total got) log' in
                (split_chunks got run ++ items, log'')
            | Some e =>
                (* chunks completely received are delivered, then the error ends the stream *)
                let done := (fix pre (buf : list N) (cs : list range) : list item :=
                               match cs with
                               | [] => []
                               | x :: r => if r_size x <=? lenN buf
                                           then IOk (takeN (r_size x) buf) :: pre (dropN (r_size x) buf) r
                                           else []
                               end) got run in
                (done ++ [IErr e], log')
            end
      end
  end.

Definition read_chunks_http (f : list N) (retries : N) (script : list sitem) (chunks : list range)
  : list item * list (N * N) :=
  chunk_reader (S (length chunks)) f retries script chunks [] [].

(* HttpReader::read_at -> HttpRangeRequest::single: the whole body or a retry from the start *)
Fixpoint http_read_at (fuel : nat) (f : list N) (off size retries : N) (script : list sitem) (log : list (N * N))
  : item * list (N * N) :=
  match fuel with
  | O => (IErr E_HTTP, log)
  | S fu =>
      let it := match script with [] => SOk | x :: _ => x end in
      let log' := log ++ [(off, size)] in
      match serve f off size it with
      | Some (body, FinEnd) =>
          if size <=? lenN body then (IOk (takeN size body), log') else (IErr E_END, log')
      | _ =>
          if retries =? 0 then (IErr E_HTTP, log')
          else http_read_at fu f off size (retries - 1) (tl script) log'
      end
  end.

(* ---------- IoChunkReader (local files): short reads and Pending do not matter ---------- *)
Inductive rev := RPending | RRead (n : N).     (* the reader returns at most n bytes (n >= 1) *)

Definition E_EOF_IO : N := 22.

(* read one chunk at [off] of [size] bytes from file [f] under a read schedule; returns item and the
   remaining schedule *)
Fixpoint io_read_chunk (fuel : nat) (f : list N) (pos have size : N) (acc : list N) (sched : list rev)
  : item * list rev :=
  match fuel with
  | O => (IErr E_EOF_IO, sched)
  | S fu =>
      if size <=? have then (IOk acc, sched)
      else
        match sched with
        | RPending :: r => io_read_chunk fu f pos have size acc r
        | _ =>
            let n := match sched with RRead n :: _ => n | _ => size - have end in
            let avail := takeN (N.min n (size - have)) (dropN pos f) in
            match avail with
            | [] => (IErr E_EOF_IO, tl sched)
            | _ => io_read_chunk fu f (pos + lenN avail) (have + lenN avail) size (acc ++ avail) (tl sched)
            end
        end
  end.

Fixpoint io_read_chunks (f : list N) (chunks : list range) (sched : list rev) : list item :=
  match chunks with
  | [] => []
  | c :: r =>
      let '(it, sched') := io_read_chunk (S (N.to_nat (r_size c)) + length sched) f (r_off c) 0 (r_size c) [] sched in
      match it with
      | IOk _ => it :: io_read_chunks f r sched'
      | IErr _ => [it]
      end
  end.
