(* Model of bitar/src/header.rs, bitar/src/archive.rs (try_init, accessors, iter_source_chunks,
   build_source_index, chunk_stream filter) and bitar/src/chunk.rs (decompress/verify rule).
   The strong hash (Blake2b-512) and the codecs are parameters: [H] and [decomp]. No proofs here. *)
From Bita Require Import Model.Base Gen.Generated Model.Chunker Model.ChunkIndex Model.Proto.

Definition E_INVALID : N := 10.      (* ArchiveError::InvalidArchive *)
Definition E_READER : N := 11.       (* ArchiveError::ReaderError *)
Definition E_DECOMPRESS : N := 12.
Definition E_HASH : N := 13.         (* HashSumMismatchError *)

Section Archive.
  Variable H : list N -> list N.

  (* header::build *)
  Definition build_header (dict_bytes : list N) (offset : option N) : list N :=
    let h := ARCHIVE_MAGIC ++ le_bytes 8 (lenN dict_bytes) ++ dict_bytes in
    let off := match offset with Some o => o | None => lenN h + TRAILER_OFFSET_SIZE + TRAILER_HASH_SIZE end in
    let h := h ++ le_bytes 8 off in
    h ++ H h.

  Record adesc := { ad_checksum : list N; ad_size : N; ad_offset : N (* absolute *); ad_source_size : N }.

  Record archive := {
    a_descs : list adesc;
    a_order : list N;
    a_header_size : N;
    a_header_checksum : list N;
    a_comp : option (N * N);       (* (CompressionType value, level) *)
    a_version : list N;
    a_data_offset : N;
    a_total : N;
    a_source_checksum : list N;
    a_cfg : config;
    a_hashlen : N;
    a_meta : list (list N * list N) }.

  Definition slice (l : list N) (a b : N) : list N := takeN (b - a) (dropN a l).

  (* compression_from_dictionary. The verification builds enable every codec feature (lzma-compression,
     zstd-compression); the default build of bitar answers InvalidArchive for LZMA and ZSTD instead. *)
  Definition supported_compression (t : N) : bool :=
    (t =? E_CompressionType_BROTLI) || (t =? E_CompressionType_ZSTD) || (t =? E_CompressionType_LZMA).
  Definition comp_of (c : compression) : outcome (option (N * N)) :=
    if z_type c =? E_CompressionType_NONE then Ok None
    else if supported_compression (z_type c) then Ok (Some (z_type c, z_level c))
    else Err E_INVALID.

  (* chunker_config_from_params, with the validation of untrusted values *)
  Definition config_of (p : chunker_params) : outcome config :=
    let a := p_algo p in
    if a =? E_ChunkingAlgorithm_FIXED_SIZE then
      if 1 <=? p_max p then Ok {| c_algo := AFixed; c_bits := 0; c_min := 0; c_max := p_max p; c_win := 0 |}
      else Err E_INVALID
    else if (a =? E_ChunkingAlgorithm_BUZHASH) || (a =? E_ChunkingAlgorithm_ROLLSUM) then
      if (1 <=? p_win p) && (1 <=? p_max p) && (p_min p <=? p_max p) && (p_win p <=? p_max p)
         && (1 <=? p_bits p) && (p_bits p <=? 30)
      then Ok {| c_algo := (if a =? E_ChunkingAlgorithm_BUZHASH then ABuzHash else ARollSum);
                 c_bits := p_bits p; c_min := p_min p; c_max := p_max p; c_win := p_win p |}
      else Err E_INVALID
    else Err E_INVALID.

  Fixpoint abs_descs (data_offset : N) (ds : list descriptor) : outcome (list adesc) :=
    match ds with
    | [] => Ok []
    | d :: r =>
        let o := data_offset + d_archive_offset d in
        if (o <? M64) && (o + d_archive_size d <? M64) then
          do r' <- abs_descs data_offset r;
          Ok ({| ad_checksum := takeN HASH_MAX_LEN (d_checksum d); ad_size := d_archive_size d; ad_offset := o;
                 ad_source_size := d_source_size d |} :: r')
        else Err E_INVALID
    end.

  (* Archive::try_init over a reader; [read_at off size] returns exactly [size] bytes or an error *)
  Definition try_init (read_at : N -> N -> outcome (list N)) : outcome archive :=
    do pre <- read_at 0 PRE_HEADER_SIZE;
    let magic := takeN 6 pre in
    if negb (list_eqb magic ARCHIVE_MAGIC || list_eqb magic LEGACY_MAGIC) then Err E_INVALID else
    let dsize := le_value (slice pre 6 PRE_HEADER_SIZE) in
    let trailer := dsize + TRAILER_OFFSET_SIZE + TRAILER_HASH_SIZE in
    if negb (trailer + PRE_HEADER_SIZE <? M64) then Err E_INVALID else
    do rest <- read_at PRE_HEADER_SIZE trailer;
    let header := pre ++ rest in
    if negb (lenN header =? PRE_HEADER_SIZE + trailer) then Err E_INVALID else
    let offs := PRE_HEADER_SIZE + dsize + TRAILER_OFFSET_SIZE in
    let sum := slice header offs (offs + TRAILER_HASH_SIZE) in
    if negb (list_eqb sum (H (takeN offs header))) then Err E_INVALID else
    match decode_dict (slice header PRE_HEADER_SIZE (PRE_HEADER_SIZE + dsize)) with
    | None => Err E_INVALID
    | Some d =>
        let data_offset := le_value (slice header (PRE_HEADER_SIZE + dsize) offs) in
        do descs <- abs_descs data_offset (dict_descs d);
        match dict_params d with
        | None => Err E_INVALID
        | Some p =>
            if existsb (fun i => lenN descs <=? i) (dict_order d) then Err E_INVALID else
            match dict_comp d with
            | None => Err E_INVALID
            | Some c =>
                do comp <- comp_of c;
                do cfg <- config_of p;
                Ok {| a_descs := descs; a_order := dict_order d; a_header_size := lenN header; a_header_checksum := sum;
                      a_comp := comp; a_version := dict_version d; a_data_offset := data_offset; a_total := dict_total d;
                      a_source_checksum := takeN HASH_MAX_LEN (dict_checksum d); a_cfg := cfg; a_hashlen := p_hashlen p;
                      a_meta := dict_meta d |}
            end
        end
    end.

  (* a local file as a reader: IoReader::read_at *)
  Definition file_read_at (f : list N) (off size : N) : outcome (list N) :=
    if off + size <=? lenN f then Ok (slice f off (off + size)) else Err E_READER.

  (* iter_source_chunks: (source offset, descriptor index) in source order *)
  Fixpoint source_chunks (a : archive) (order : list N) (off : N) : list (N * N) :=
    match order with
    | [] => []
    | i :: r =>
        let sz := match nthN i (a_descs a) with Some d => ad_source_size d | None => 0 end in
        (off, i) :: source_chunks a r (off + sz)
    end.

  (* keys: a descriptor's key is the index of the first descriptor with the same truncated checksum *)
  Definition trunc (a : archive) (h : list N) : list N := takeN (a_hashlen a) h.

  Fixpoint first_with (a : archive) (h : list N) (ds : list adesc) (i : N) : N :=
    match ds with
    | [] => i
    | d :: r => if list_eqb (trunc a (ad_checksum d)) h then i else first_with a h r (i + 1)
    end.
  Definition key_of (a : archive) (h : list N) : N := first_with a (trunc a h) (a_descs a) 0.

  (* Archive::build_source_index *)
  Definition build_source_index (a : archive) : index :=
    fold_left (fun idx oc =>
                 let '(off, i) := oc in
                 match nthN i (a_descs a) with
                 | Some d => ci_add idx (key_of a (ad_checksum d)) (ad_source_size d) [off]
                 | None => idx
                 end) (source_chunks a (a_order a) 0) [].

  (* Archive::chunk_stream: the descriptors whose (truncated) checksum is still in the index, archive order *)
  Definition fetch_descs (a : archive) (idx : index) : list adesc :=
    filter (fun d => ci_contains idx (key_of a (ad_checksum d))) (a_descs a).

  (* CompressedArchiveChunk -> decompress -> verify *)
  Variable decomp : N -> list N -> option (list N).
  Definition unpack (a : archive) (d : adesc) (payload : list N) : outcome (list N) :=
    do data <- (if ad_source_size d =? lenN payload then Ok payload
                else match a_comp a with
                     | None => Ok payload
                     | Some (alg, _) => match decomp alg payload with Some x => Ok x | None => Err E_DECOMPRESS end
                     end);
    let got := takeN (lenN (ad_checksum d)) (H data) in
    if list_eqb got (ad_checksum d) then Ok data else Err E_HASH.

  (* info_cmd::print_archive: the arithmetic that can fail *)
  Definition print_archive (a : archive) : outcome N :=
    let total := fold_left (fun s d => s + ad_source_size d) (a_descs a) 0 in
    let n := N.max (lenN (a_descs a)) 1 in
    do mask <- (match c_algo (a_cfg a) with AFixed => Ok 0 | _ => filter_mask (c_bits (a_cfg a)) end);
    Ok (total / n).
End Archive.
