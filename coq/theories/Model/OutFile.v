(* Executable model of the error propagation of tokio::fs::File (tokio 1.42,
   src/fs/file.rs) as used by bita's clone output, and of the clone's use of
   that file.  Writes are handed to a background task: the outcome of a write
   is only observed by a LATER call on the same file. *)
From Coq Require Import List Bool.
Import ListNotations.

Record tfile := { tf_inflight : option bool;   (* a write in flight and whether it will succeed *)
                  tf_lasterr : bool }.         (* [last_write_err] is set *)

Definition tf_new : tfile := {| tf_inflight := None; tf_lasterr := false |}.

(* Each operation returns the new state and whether the call returned Ok. *)

(* poll_write: take [last_write_err] if set and return it.  Otherwise wait for
   the in-flight operation; if it was a failed write, return its error now (the
   new data is not submitted).  Otherwise submit the new data (now in flight,
   with fate [ok]) and return Ok immediately. *)
Definition tf_write (ok : bool) (s : tfile) : tfile * bool :=
  if tf_lasterr s then
    ({| tf_inflight := tf_inflight s; tf_lasterr := false |}, false)
  else
    match tf_inflight s with
    | Some false => ({| tf_inflight := None; tf_lasterr := false |}, false)
    | _ => ({| tf_inflight := Some ok; tf_lasterr := false |}, true)
    end.

(* start_seek/poll_complete: wait for the in-flight operation; a failed write is
   remembered in [last_write_err]; the seek itself returns Ok. *)
Definition tf_seek (s : tfile) : tfile * bool :=
  match tf_inflight s with
  | Some false => ({| tf_inflight := None; tf_lasterr := true |}, true)
  | _ => ({| tf_inflight := None; tf_lasterr := tf_lasterr s |}, true)
  end.

(* set_len: same waiting/remembering behaviour as seek; returns Ok. *)
Definition tf_set_len (s : tfile) : tfile * bool :=
  match tf_inflight s with
  | Some false => ({| tf_inflight := None; tf_lasterr := true |}, true)
  | _ => ({| tf_inflight := None; tf_lasterr := tf_lasterr s |}, true)
  end.

(* poll_flush: take [last_write_err] if set and return it; otherwise wait for
   the in-flight operation and return its error if it was a failed write. *)
Definition tf_flush (s : tfile) : tfile * bool :=
  if tf_lasterr s then
    ({| tf_inflight := tf_inflight s; tf_lasterr := false |}, false)
  else
    match tf_inflight s with
    | Some false => ({| tf_inflight := None; tf_lasterr := false |}, false)
    | _ => ({| tf_inflight := None; tf_lasterr := false |}, true)
    end.

(* The clone's use of the file.  [fates] are the fates of the successive chunk
   writes.  Per chunk: seek; write; stop at the first call returning an error. *)
Fixpoint clone_writes (fates : list bool) (s : tfile) : tfile * bool :=
  match fates with
  | [] => (s, true)
  | f :: rest =>
      let '(s1, ok1) := tf_seek s in
      if ok1 then
        let '(s2, ok2) := tf_write f s1 in
        if ok2 then clone_writes rest s2 else (s2, false)
      else (s1, false)
  end.

(* Whole run: returns true iff success is reported.  Dropping the file at the
   end reports nothing, so it does not appear. *)
Definition clone_run (flush_before_finish : bool) (regular : bool) (fates : list bool) : bool :=
  let '(s, ok) := clone_writes fates tf_new in
  if ok then
    let '(s1, ok1) := if flush_before_finish then tf_flush s else (s, true) in
    if ok1 then (if regular then snd (tf_set_len s1) else true) else false
  else false.
