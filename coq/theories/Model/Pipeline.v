(* Executable model of bita's concurrent compression pipeline (property C12).

   - An ordered concurrent stage = stream.map(spawn_blocking f).buffered(n)
     (FuturesOrdered with at most n futures in flight; results are yielded in
     SUBMISSION order whatever the completion order), driven by an arbitrary
     list of scheduler events.
   - The writer pipeline = hash stage ; sequential dedup ; compress stage.
   - A tokio-style file with one write in flight (write_all returns once the
     data is handed to a background task) and a second handle reading the path.

   No proofs here; see Proofs/PipelineOrder.v. *)
From Coq Require Import List NArith Bool.
Import ListNotations.

Set Implicit Arguments.

(* ------------------------------------------------------------------ *)
(* (a) Ordered concurrent stage with window n                          *)
(* ------------------------------------------------------------------ *)

Inductive sev := Start | Complete (i : nat) | Emit.

(* state: inputs not yet started, in-flight slots in submission order
   (each: input and whether completed), outputs so far *)
Record stage (A B : Type) := {
  st_todo   : list A;
  st_flight : list (A * bool);
  st_out    : list B
}.

(* mark the i-th in-flight slot completed (no-op if out of range) *)
Fixpoint mark_done {A : Type} (i : nat) (l : list (A * bool)) {struct l}
  : list (A * bool) :=
  match l with
  | [] => []
  | (x, c) :: r =>
      match i with
      | O => (x, true) :: r
      | S j => (x, c) :: mark_done j r
      end
  end.

Definition stage_step {A B : Type} (n : nat) (f : A -> B)
  (s : stage A B) (e : sev) : stage A B :=
  match e with
  | Start =>
      if Nat.ltb (length (st_flight s)) n then
        match st_todo s with
        | x :: r =>
            {| st_todo := r;
               st_flight := st_flight s ++ [(x, false)];
               st_out := st_out s |}
        | [] => s
        end
      else s
  | Complete i =>
      {| st_todo := st_todo s;
         st_flight := mark_done i (st_flight s);
         st_out := st_out s |}
  | Emit =>
      match st_flight s with
      | (x, true) :: r =>
          {| st_todo := st_todo s;
             st_flight := r;
             st_out := st_out s ++ [f x] |}
      | _ => s
      end
  end.

Definition stage_run {A B : Type} (n : nat) (f : A -> B) (xs : list A)
  (evs : list sev) : stage A B :=
  fold_left (stage_step n f) evs
            {| st_todo := xs; st_flight := []; st_out := [] |}.

Definition stage_done {A B : Type} (s : stage A B) : bool :=
  match st_todo s with [] => true | _ :: _ => false end
  && match st_flight s with [] => true | _ :: _ => false end.

(* ------------------------------------------------------------------ *)
(* (b) The writer pipeline                                             *)
(* ------------------------------------------------------------------ *)

Definition pipeline {A B C : Type} (n : nat) (hash : A -> B)
  (dedup : list B -> list B) (compress : B -> C)
  (xs : list A) (evs1 evs2 : list sev) : option (list C) :=
  let s1 := stage_run n hash xs evs1 in
  if stage_done s1 then
    let s2 := stage_run n compress (dedup (st_out s1)) evs2 in
    if stage_done s2 then Some (st_out s2) else None
  else None.

(* ------------------------------------------------------------------ *)
(* (c) tokio-style file, one write in flight, second handle reads path *)
(* ------------------------------------------------------------------ *)

(* FBackground: the in-flight write lands *)
Inductive fev := FWrite (d : list N) | FFlush | FBackground.

Record afile := { af_disk : list N; af_inflight : option (list N) }.

(* land the in-flight write, if any *)
Definition afile_land (s : afile) : afile :=
  match af_inflight s with
  | Some d => {| af_disk := af_disk s ++ d; af_inflight := None |}
  | None => s
  end.

Definition afile_step (s : afile) (e : fev) : afile :=
  match e with
  | FWrite d =>
      {| af_disk := af_disk (afile_land s); af_inflight := Some d |}
  | FFlush => afile_land s
  | FBackground => afile_land s
  end.

Definition afile_run (evs : list fev) : afile :=
  fold_left afile_step evs {| af_disk := []; af_inflight := None |}.

(* what another handle sees *)
Definition reopen_read (s : afile) : list N := af_disk s.

Definition writes_of (evs : list fev) : list N :=
  concat (map (fun e => match e with FWrite d => d | _ => [] end) evs).

(* ------------------------------------------------------------------ *)
(* Smoke tests                                                         *)
(* ------------------------------------------------------------------ *)

(* window 2, inputs [1;2;3], completion order reversed *)
Example stage_ex1 :
  stage_run 2 (fun x => x * 10) [1;2;3]
    [Start; Start; Start (* window full: no-op *);
     Complete 1; Emit (* head not complete: no-op *);
     Complete 0; Emit; Start; Complete 1; Emit; Complete 0; Emit]
  = {| st_todo := []; st_flight := []; st_out := [10;20;30] |}.
Proof. vm_compute. reflexivity. Qed.

(* an undrained stage holds a strict prefix *)
Example stage_ex2 :
  stage_run 2 (fun x => x * 10) [1;2;3]
    [Start; Start; Complete 1; Emit; Complete 0; Emit]
  = {| st_todo := [3]; st_flight := [(2, true)]; st_out := [10] |}.
Proof. vm_compute. reflexivity. Qed.

Example pipeline_ex :
  pipeline 2 (fun x => x + 1) (fun l => rev l) (fun x => x * 2) [1;2;3]
    [Start; Start; Complete 1; Complete 0; Emit; Emit; Start; Complete 0; Emit]
    [Start; Complete 0; Emit; Start; Start; Complete 1; Complete 0; Emit; Emit]
  = Some [8;6;4].
Proof. vm_compute. reflexivity. Qed.

Example pipeline_ex_undrained :
  pipeline 2 (fun x => x + 1) (fun l => l) (fun x => x * 2) [1;2;3]
    [Start; Start; Complete 1; Complete 0; Emit; Emit] [] = None.
Proof. vm_compute. reflexivity. Qed.

Example afile_ex_unflushed :
  reopen_read (afile_run [FWrite [1;2]%N; FWrite [3]%N]) = [1;2]%N.
Proof. vm_compute. reflexivity. Qed.

Example afile_ex_flushed :
  reopen_read (afile_run [FWrite [1;2]%N; FBackground; FWrite [3]%N; FFlush])
  = [1;2;3]%N.
Proof. vm_compute. reflexivity. Qed.
