(* Model of bitar/src/rolling_hash/buzhash.rs (after the F5 repair: `init` leaves the repeat
   counter describing the last byte of the window).  The ring buffer `buf[index]` is a queue (oldest
   first). `bh_index` counts init calls (it is only used until the window is full). *)
From Bita Require Import Model.Base Gen.Generated.

Definition rotl32 (x n : N) : N :=
  let k := n mod 32 in
  w32 (N.lor (N.shiftl x k) (N.shiftr x (32 - k))).

Definition bh_table (b : N) : N := N.lxor (nth (N.to_nat b) BUZHASH_TABLE 0) BUZHASH_SEED.

Record buzhash := {
  bh_buf : list N;      (* table values in the window, oldest first *)
  bh_index : N;
  bh_w : N;
  bh_sum : N;
  bh_full : bool;
  bh_last : N;
  bh_rep : N }.

Definition bh_new (W : N) : buzhash :=
  {| bh_buf := repeat 0 (N.to_nat W); bh_index := 0; bh_w := W; bh_sum := 0; bh_full := false;
     bh_last := 0; bh_rep := 0 |}.

Definition bh_init (h : buzhash) (b : N) : buzhash :=
  if bh_full h then h else
  let v := bh_table b in
  let shift := bh_w h - (bh_index h + 1) in
  let full := bh_w h - 1 <=? bh_index h in
  {| bh_buf := tl (bh_buf h) ++ [v];
     bh_index := (if bh_w h <=? bh_index h + 1 then 0 else bh_index h + 1);
     bh_w := bh_w h;
     bh_sum := N.lxor (bh_sum h) (rotl32 v shift);
     bh_full := full;
     bh_last := b;
     bh_rep := 0 |}.

Definition bh_input (h : buzhash) (b : N) : buzhash :=
  let rep := if b =? bh_last h then bh_rep h + 1 else 0 in
  if rep <? bh_w h then
    let v := bh_table b in
    let out := hd 0 (bh_buf h) in
    {| bh_buf := tl (bh_buf h) ++ [v];
       bh_index := bh_index h;
       bh_w := bh_w h;
       bh_sum := N.lxor (N.lxor (rotl32 (bh_sum h) 1) (rotl32 out (bh_w h))) v;
       bh_full := bh_full h;
       bh_last := b;
       bh_rep := rep |}
  else
    {| bh_buf := bh_buf h; bh_index := bh_index h; bh_w := bh_w h; bh_sum := bh_sum h;
       bh_full := bh_full h; bh_last := b; bh_rep := rep |}.

Definition bh_sum_of (h : buzhash) : N := bh_sum h.
