(* The whole clone at the level of bytes: the prior output and the seeds are byte strings that are scanned
   with the archive's own chunker configuration and hashed, exactly as src/clone_cmd.rs does
   (chunk_index_from_readable, clone_from_readable), before the archive phase of Model/CloneArchive.v.
   Keys: a chunk whose truncated hash equals the truncated checksum of a descriptor gets that descriptor's key
   (Archive.key_of); any other chunk gets a key beyond the descriptor table that is an injective code of its
   truncated hash, so that different unknown chunks never share a key (the HashMap keeps them apart). *)
From Bita Require Import Model.Base Model.Chunker Model.ChunkIndex Model.CloneOutput Model.CloneSpec Model.Proto Model.Archive
                         Model.CloneArchive.

(* injective code of a byte string *)
Fixpoint code_of_bytes (l : list N) : N :=
  match l with [] => 0 | b :: r => (b + 1) + 257 * code_of_bytes r end.

Section CloneBytes.
  Variable H : list N -> list N.
  Variable decomp : N -> list N -> option (list N).

  (* key of an arbitrary chunk hash for archive [a] *)
  Definition hkey (a : archive) (h : list N) : N :=
    let k := key_of a h in
    if k <? lenN (a_descs a) then k else lenN (a_descs a) + 1 + code_of_bytes (trunc a h).

  (* the chunks the archive's chunker finds in a byte string: (offset, bytes) *)
  Definition scan_chunks (a : archive) (data : list N) : list (N * list N) :=
    match chunk_oneshot (a_cfg a) data with
    | Ok l => map (fun c => (fst c, slice data (fst c) (fst c + snd c))) l
    | _ => []
    end.

  (* chunk_index_from_readable: index of a byte string *)
  Definition scan_index (a : archive) (data : list N) : index :=
    fold_left (fun idx oc => ci_add idx (hkey a (H (snd oc))) (lenN (snd oc)) [fst oc]) (scan_chunks a data) [].

  (* clone_from_readable: the verified chunks of a seed, in stream order *)
  Definition seed_feeds (a : archive) (data : list N) : list (N * list N) :=
    map (fun oc => (hkey a (H (snd oc)), snd oc)) (scan_chunks a data).

  (* clone_archive: optional in-place phase over the scanned prior output, seeds in order, then the archive *)
  Definition clone_bytes (a : archive) (payload_of : adesc -> list N) (prior : list N) (inplace : bool)
    (seeds : list (list N)) : outcome clone_result :=
    archive_clone H decomp a payload_of prior
                  (if inplace then Some (scan_index a prior) else None)
                  (flat_map (seed_feeds a) seeds).

  (* open + clone + resize of a regular file *)
  Definition open_and_clone_bytes (f prior : list N) (inplace : bool) (seeds : list (list N)) : outcome (list N) :=
    do a <- try_init H (file_read_at f);
    do r <- clone_bytes a (file_payload f) prior inplace seeds;
    match o_err (cr_state r) with
    | Some e => Err e
    | None => Ok (set_len (a_total a) (o_file (cr_state r)))
    end.
  (* the same, also reporting the writes made to the output file as (offset, length), in order *)
  Definition open_and_clone_bytes_w (f prior : list N) (inplace : bool) (seeds : list (list N))
    : outcome (list (N * N) * list N) :=
    do a <- try_init H (file_read_at f);
    do r <- clone_bytes a (file_payload f) prior inplace seeds;
    match o_err (cr_state r) with
    | Some e => Err e
    | None => Ok (map (fun w => (fst w, lenN (snd w))) (writes_of 0 (o_trace (cr_state r))),
                  set_len (a_total a) (o_file (cr_state r)))
    end.
End CloneBytes.
