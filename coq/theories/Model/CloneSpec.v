(* Specification vocabulary for the clone properties (C02, C03, C05, C06, C13): what it means for an index
   to describe a file, for a file to hold a chunk, and the decidable predicate on write traces. *)
From Bita Require Import Model.Base Model.ChunkIndex Model.CloneOutput.

Section CloneSpec.
  Variable D : N -> list N.        (* the bytes of the chunk with key k *)

  (* file f holds chunk k at offset o *)
  Definition holds (f : list N) (o k : N) : Prop :=
    o + lenN (D k) <= lenN f /\ takeN (lenN (D k)) (dropN o f) = D k.

  (* (k, o) is an occurrence recorded in the index *)
  Definition occ (idx : index) (k o : N) : Prop :=
    exists l, ci_get idx k = Some l /\ In o (l_offs l).

  Fixpoint keys (idx : index) : list N := match idx with [] => [] | (k, _) :: r => k :: keys r end.

  Fixpoint strictly_sorted (l : list N) : Prop :=
    match l with [] => True | x :: r => (match r with [] => True | y :: _ => x < y end) /\ strictly_sorted r end.

  (* well-formed index: unique keys, sizes are those of the chunk data, non-empty, offsets ascending *)
  Definition idx_wf (idx : index) : Prop :=
    NoDup (keys idx) /\
    forall k l, In (k, l) idx ->
      l_size l = lenN (D k) /\ 0 < l_size l /\ l_offs l <> [] /\ strictly_sorted (l_offs l).

  (* every recorded occurrence is really in the file *)
  Definition idx_in_file (idx : index) (f : list N) : Prop :=
    forall k o, occ idx k o -> holds f o k.

  (* recorded occurrences do not overlap each other *)
  Definition disjoint_occs (idx : index) : Prop :=
    forall k1 o1 k2 o2, occ idx k1 o1 -> occ idx k2 o2 -> (k1, o1) <> (k2, o2) ->
      o1 + lenN (D k1) <= o2 \/ o2 + lenN (D k2) <= o1.

  (* the index describes the whole byte string src: its occurrences tile src *)
  Definition describes (idx : index) (src : list N) : Prop :=
    idx_wf idx /\ idx_in_file idx src /\ disjoint_occs idx /\
    forall p, p < lenN src -> exists k o, occ idx k o /\ o <= p < o + lenN (D k).

  (* the writes of a trace as (offset, bytes): a TWrite belongs to the TSeek before it *)
  Fixpoint writes_of (cur : N) (t : list tev) : list (N * list N) :=
    match t with
    | [] => []
    | TSeek o :: r => writes_of o r
    | TWrite d :: r => (cur, d) :: writes_of (cur + lenN d) r
    | TRead n :: r => writes_of (cur + n) r
    end.
End CloneSpec.
