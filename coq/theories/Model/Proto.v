(* Model of the protobuf dictionary codec: prost 0.13 code generated from chunk_dictionary.proto
   (bitar/src/chunk_dictionary.rs). Field numbers and enum values come from Gen/Generated.v.
   Encoder: fields in tag order, proto3 default omission (also inside map entries), packed rebuild_order,
   map entries in key order. Decoder: prost's merge loops (keys > u32 and wire types 6/7 rejected, tag 0
   rejected, varints of up to 10 bytes with the overflow check, uint32/enum truncated from the 64-bit
   varint, strings checked for UTF-8, unknown fields skipped incl. groups with the recursion limit,
   packed and unpacked repeated scalars, scalar last-wins, sub-messages merged, map fields read as
   length-delimited whatever the wire type). No proofs here. *)
From Bita Require Import Model.Base Gen.Generated.

Record descriptor := { d_checksum : list N; d_archive_size : N; d_archive_offset : N; d_source_size : N }.
Record chunker_params := { p_bits : N; p_min : N; p_max : N; p_win : N; p_hashlen : N; p_algo : N }.
Record compression := { z_type : N; z_level : N }.
Record dictionary := {
  dict_version : list N;                 (* bytes of the UTF-8 string *)
  dict_checksum : list N;
  dict_total : N;
  dict_params : option chunker_params;
  dict_comp : option compression;
  dict_order : list N;
  dict_descs : list descriptor;
  dict_meta : list (list N * list N) }.  (* BTreeMap<String, Vec<u8>>: sorted by key, unique keys *)

(* ---------- varint ---------- *)
Fixpoint enc_varint (fuel : nat) (n : N) : list N :=
  match fuel with
  | O => []
  | S f => if n <? 128 then [n] else N.lor (N.land n 127) 128 :: enc_varint f (N.shiftr n 7)
  end.
Definition encode_varint (n : N) : list N := enc_varint 10 n.

(* decode_varint: at most 10 bytes; the 10th byte must be 0 or 1; value wraps to 64 bits *)
Fixpoint dec_varint (fuel : nat) (count : N) (acc : N) (l : list N) : option (N * list N) :=
  match fuel with
  | O => None
  | S f =>
      match l with
      | [] => None
      | b :: r =>
          let acc' := N.lor acc (N.land (N.shiftl (N.land b 127) (count * 7)) (M64 - 1)) in
          if b <? 128 then
            if (count =? 9) && (2 <=? b) then None else Some (acc', r)
          else dec_varint f (count + 1) acc' r
      end
  end.
Definition decode_varint (l : list N) : option (N * list N) := dec_varint 10 0 0 l.

(* ---------- keys ---------- *)
Definition WT_VARINT : N := 0.
Definition WT_64 : N := 1.
Definition WT_LEN : N := 2.
Definition WT_SGROUP : N := 3.
Definition WT_EGROUP : N := 4.
Definition WT_32 : N := 5.

Definition encode_key (tag wt : N) : list N := encode_varint (N.lor (N.shiftl tag 3) wt).

Definition decode_key (l : list N) : option (N * N * list N) :=
  match decode_varint l with
  | None => None
  | Some (key, r) =>
      if M32 <=? key then None else
      let wt := N.land key 7 in
      if 6 <=? wt then None else
      let tag := N.shiftr key 3 in
      if tag =? 0 then None else Some (tag, wt, r)
  end.

(* take n bytes *)
Definition take_bytes (n : N) (l : list N) : option (list N * list N) :=
  if n <=? lenN l then Some (takeN n l, dropN n l) else None.

(* skip_field: [fuel] bounds the number of keys read (each takes >= 1 byte), [depth] is prost's
   recursion budget (DecodeContext, 100 at the top level) *)
Fixpoint skip_field (fuel : nat) (depth : N) (wt tag : N) (l : list N) {struct fuel} : option (list N) :=
  match fuel with
  | O => None
  | S f =>
    if depth =? 0 then None else
    if wt =? WT_VARINT then match decode_varint l with Some (_, r) => Some r | None => None end
    else if wt =? WT_32 then match take_bytes 4 l with Some (_, r) => Some r | None => None end
    else if wt =? WT_64 then match take_bytes 8 l with Some (_, r) => Some r | None => None end
    else if wt =? WT_LEN then
      match decode_varint l with
      | Some (n, r) => match take_bytes n r with Some (_, r') => Some r' | None => None end
      | None => None
      end
    else if wt =? WT_SGROUP then
      (fix group (g : nat) (l : list N) {struct g} : option (list N) :=
         match g with
         | O => None
         | S g' =>
           match decode_key l with
           | None => None
           | Some (itag, iwt, r) =>
               if iwt =? WT_EGROUP then (if itag =? tag then Some r else None)
               else match skip_field f (depth - 1) iwt itag r with
                    | Some r' => group g' r'
                    | None => None
                    end
           end
         end) f l
    else None     (* EndGroup *)
  end.

Definition skip_fuel (l : list N) : nat := S (length l).

(* ---------- typed field readers (wire type checked first, like prost's check_wire_type) ---------- *)
Definition read_varint_field (wt : N) (l : list N) : option (N * list N) :=
  if wt =? WT_VARINT then decode_varint l else None.

Definition read_len_field (wt : N) (l : list N) : option (list N * list N) :=
  if wt =? WT_LEN then
    match decode_varint l with
    | Some (n, r) => take_bytes n r
    | None => None
    end
  else None.

(* Rust str::from_utf8 *)
Fixpoint utf8_valid_fuel (fuel : nat) (l : list N) : bool :=
  match fuel with
  | O => true
  | S f =>
    match l with
    | [] => true
    | b0 :: r =>
      let cont b := (128 <=? b) && (b <=? 191) in
      if b0 <? 128 then utf8_valid_fuel f r
      else if (194 <=? b0) && (b0 <=? 223) then
        match r with b1 :: r1 => cont b1 && utf8_valid_fuel f r1 | _ => false end
      else if (224 <=? b0) && (b0 <=? 239) then
        match r with
        | b1 :: b2 :: r2 =>
            (if b0 =? 224 then (160 <=? b1) && (b1 <=? 191)
             else if b0 =? 237 then (128 <=? b1) && (b1 <=? 159)
             else cont b1) && cont b2 && utf8_valid_fuel f r2
        | _ => false
        end
      else if (240 <=? b0) && (b0 <=? 244) then
        match r with
        | b1 :: b2 :: b3 :: r3 =>
            (if b0 =? 240 then (144 <=? b1) && (b1 <=? 191)
             else if b0 =? 244 then (128 <=? b1) && (b1 <=? 143)
             else cont b1) && cont b2 && cont b3 && utf8_valid_fuel f r3
        | _ => false
        end
      else false
    end
  end.
Definition utf8_valid (l : list N) : bool := utf8_valid_fuel (S (length l)) l.

(* generic merge loop over the fields of a (sub-)message held in [l]; [step] merges one field *)
Fixpoint merge_fields {A} (fuel : nat) (step : A -> N -> N -> list N -> option (A * list N)) (acc : A) (l : list N)
  : option A :=
  match l with
  | [] => Some acc
  | _ =>
    match fuel with
    | O => None
    | S f =>
      match decode_key l with
      | None => None
      | Some (tag, wt, r) =>
          match step acc tag wt r with
          | Some (acc', r') => merge_fields f step acc' r'
          | None => None
          end
      end
    end
  end.

(* ---------- ChunkDescriptor ---------- *)
Definition desc_default : descriptor := {| d_checksum := []; d_archive_size := 0; d_archive_offset := 0; d_source_size := 0 |}.

Definition desc_step (depth : N) (d : descriptor) (tag wt : N) (l : list N) : option (descriptor * list N) :=
  if tag =? F_ChunkDescriptor_checksum then
    match read_len_field wt l with
    | Some (b, r) => Some ({| d_checksum := b; d_archive_size := d_archive_size d; d_archive_offset := d_archive_offset d; d_source_size := d_source_size d |}, r)
    | None => None end
  else if tag =? F_ChunkDescriptor_archive_size then
    match read_varint_field wt l with
    | Some (v, r) => Some ({| d_checksum := d_checksum d; d_archive_size := w32 v; d_archive_offset := d_archive_offset d; d_source_size := d_source_size d |}, r)
    | None => None end
  else if tag =? F_ChunkDescriptor_archive_offset then
    match read_varint_field wt l with
    | Some (v, r) => Some ({| d_checksum := d_checksum d; d_archive_size := d_archive_size d; d_archive_offset := v; d_source_size := d_source_size d |}, r)
    | None => None end
  else if tag =? F_ChunkDescriptor_source_size then
    match read_varint_field wt l with
    | Some (v, r) => Some ({| d_checksum := d_checksum d; d_archive_size := d_archive_size d; d_archive_offset := d_archive_offset d; d_source_size := w32 v |}, r)
    | None => None end
  else match skip_field (skip_fuel l) depth wt tag l with Some r => Some (d, r) | None => None end.

(* ---------- ChunkerParameters ---------- *)
Definition params_default : chunker_params := {| p_bits := 0; p_min := 0; p_max := 0; p_win := 0; p_hashlen := 0; p_algo := 0 |}.

Definition params_step (depth : N) (p : chunker_params) (tag wt : N) (l : list N) : option (chunker_params * list N) :=
  let set f := match read_varint_field wt l with Some (v, r) => Some (f (w32 v), r) | None => None end in
  if tag =? F_ChunkerParameters_chunk_filter_bits then
    set (fun v => {| p_bits := v; p_min := p_min p; p_max := p_max p; p_win := p_win p; p_hashlen := p_hashlen p; p_algo := p_algo p |})
  else if tag =? F_ChunkerParameters_min_chunk_size then
    set (fun v => {| p_bits := p_bits p; p_min := v; p_max := p_max p; p_win := p_win p; p_hashlen := p_hashlen p; p_algo := p_algo p |})
  else if tag =? F_ChunkerParameters_max_chunk_size then
    set (fun v => {| p_bits := p_bits p; p_min := p_min p; p_max := v; p_win := p_win p; p_hashlen := p_hashlen p; p_algo := p_algo p |})
  else if tag =? F_ChunkerParameters_rolling_hash_window_size then
    set (fun v => {| p_bits := p_bits p; p_min := p_min p; p_max := p_max p; p_win := v; p_hashlen := p_hashlen p; p_algo := p_algo p |})
  else if tag =? F_ChunkerParameters_chunk_hash_length then
    set (fun v => {| p_bits := p_bits p; p_min := p_min p; p_max := p_max p; p_win := p_win p; p_hashlen := v; p_algo := p_algo p |})
  else if tag =? F_ChunkerParameters_chunking_algorithm then
    set (fun v => {| p_bits := p_bits p; p_min := p_min p; p_max := p_max p; p_win := p_win p; p_hashlen := p_hashlen p; p_algo := v |})
  else match skip_field (skip_fuel l) depth wt tag l with Some r => Some (p, r) | None => None end.

(* ---------- ChunkCompression ---------- *)
Definition comp_default : compression := {| z_type := 0; z_level := 0 |}.

Definition comp_step (depth : N) (c : compression) (tag wt : N) (l : list N) : option (compression * list N) :=
  if tag =? F_ChunkCompression_compression then
    match read_varint_field wt l with Some (v, r) => Some ({| z_type := w32 v; z_level := z_level c |}, r) | None => None end
  else if tag =? F_ChunkCompression_compression_level then
    match read_varint_field wt l with Some (v, r) => Some ({| z_type := z_type c; z_level := w32 v |}, r) | None => None end
  else match skip_field (skip_fuel l) depth wt tag l with Some r => Some (c, r) | None => None end.

(* ---------- map<string, bytes> entry ---------- *)
Definition entry_step (depth : N) (e : list N * list N) (tag wt : N) (l : list N) : option ((list N * list N) * list N) :=
  if tag =? 1 then
    match read_len_field wt l with
    | Some (b, r) => if utf8_valid b then Some ((b, snd e), r) else None
    | None => None end
  else if tag =? 2 then
    match read_len_field wt l with Some (b, r) => Some ((fst e, b), r) | None => None end
  else match skip_field (skip_fuel l) depth wt tag l with Some r => Some (e, r) | None => None end.

(* byte-wise lexicographic order (String's Ord) *)
Fixpoint bytes_lt (a b : list N) : bool :=
  match a, b with
  | [], [] => false
  | [], _ :: _ => true
  | _ :: _, [] => false
  | x :: a', y :: b' => if x <? y then true else if y <? x then false else bytes_lt a' b'
  end.

Fixpoint map_insert (k v : list N) (m : list (list N * list N)) : list (list N * list N) :=
  match m with
  | [] => [(k, v)]
  | (k', v') :: r =>
      if bytes_lt k k' then (k, v) :: m
      else if list_eqb k k' then (k, v) :: r
      else (k', v') :: map_insert k v r
  end.

(* repeated uint32, packed *)
Fixpoint read_packed (fuel : nat) (l : list N) (acc : list N) : option (list N) :=
  match l with
  | [] => Some acc
  | _ =>
    match fuel with
    | O => None
    | S f => match decode_varint l with
             | Some (v, r) => read_packed f r (acc ++ [w32 v])
             | None => None
             end
    end
  end.

(* ---------- ChunkDictionary ---------- *)
Definition dict_default : dictionary :=
  {| dict_version := []; dict_checksum := []; dict_total := 0; dict_params := None; dict_comp := None;
     dict_order := []; dict_descs := []; dict_meta := [] |}.

Definition DEPTH0 : N := 100.

Definition dict_step (d : dictionary) (tag wt : N) (l : list N) : option (dictionary * list N) :=
  let depth := DEPTH0 in
  if tag =? F_ChunkDictionary_application_version then
    match read_len_field wt l with
    | Some (b, r) =>
        if utf8_valid b then
          Some ({| dict_version := b; dict_checksum := dict_checksum d; dict_total := dict_total d; dict_params := dict_params d;
                   dict_comp := dict_comp d; dict_order := dict_order d; dict_descs := dict_descs d; dict_meta := dict_meta d |}, r)
        else None
    | None => None end
  else if tag =? F_ChunkDictionary_source_checksum then
    match read_len_field wt l with
    | Some (b, r) =>
        Some ({| dict_version := dict_version d; dict_checksum := b; dict_total := dict_total d; dict_params := dict_params d;
                 dict_comp := dict_comp d; dict_order := dict_order d; dict_descs := dict_descs d; dict_meta := dict_meta d |}, r)
    | None => None end
  else if tag =? F_ChunkDictionary_source_total_size then
    match read_varint_field wt l with
    | Some (v, r) =>
        Some ({| dict_version := dict_version d; dict_checksum := dict_checksum d; dict_total := v; dict_params := dict_params d;
                 dict_comp := dict_comp d; dict_order := dict_order d; dict_descs := dict_descs d; dict_meta := dict_meta d |}, r)
    | None => None end
  else if tag =? F_ChunkDictionary_chunker_params then
    match read_len_field wt l with
    | Some (b, r) =>
        let cur := match dict_params d with Some p => p | None => params_default end in
        match merge_fields (skip_fuel b) (params_step (depth - 1)) cur b with
        | Some p =>
            Some ({| dict_version := dict_version d; dict_checksum := dict_checksum d; dict_total := dict_total d; dict_params := Some p;
                     dict_comp := dict_comp d; dict_order := dict_order d; dict_descs := dict_descs d; dict_meta := dict_meta d |}, r)
        | None => None end
    | None => None end
  else if tag =? F_ChunkDictionary_chunk_compression then
    match read_len_field wt l with
    | Some (b, r) =>
        let cur := match dict_comp d with Some c => c | None => comp_default end in
        match merge_fields (skip_fuel b) (comp_step (depth - 1)) cur b with
        | Some c =>
            Some ({| dict_version := dict_version d; dict_checksum := dict_checksum d; dict_total := dict_total d; dict_params := dict_params d;
                     dict_comp := Some c; dict_order := dict_order d; dict_descs := dict_descs d; dict_meta := dict_meta d |}, r)
        | None => None end
    | None => None end
  else if tag =? F_ChunkDictionary_rebuild_order then
    if wt =? WT_LEN then
      match read_len_field wt l with
      | Some (b, r) =>
          match read_packed (skip_fuel b) b [] with
          | Some vs =>
              Some ({| dict_version := dict_version d; dict_checksum := dict_checksum d; dict_total := dict_total d; dict_params := dict_params d;
                       dict_comp := dict_comp d; dict_order := dict_order d ++ vs; dict_descs := dict_descs d; dict_meta := dict_meta d |}, r)
          | None => None end
      | None => None end
    else
      match read_varint_field wt l with
      | Some (v, r) =>
          Some ({| dict_version := dict_version d; dict_checksum := dict_checksum d; dict_total := dict_total d; dict_params := dict_params d;
                   dict_comp := dict_comp d; dict_order := dict_order d ++ [w32 v]; dict_descs := dict_descs d; dict_meta := dict_meta d |}, r)
      | None => None end
  else if tag =? F_ChunkDictionary_chunk_descriptors then
    match read_len_field wt l with
    | Some (b, r) =>
        match merge_fields (skip_fuel b) (desc_step (depth - 1)) desc_default b with
        | Some x =>
            Some ({| dict_version := dict_version d; dict_checksum := dict_checksum d; dict_total := dict_total d; dict_params := dict_params d;
                     dict_comp := dict_comp d; dict_order := dict_order d; dict_descs := dict_descs d ++ [x]; dict_meta := dict_meta d |}, r)
        | None => None end
    | None => None end
  else if tag =? F_ChunkDictionary_metadata then
    (* map fields do not check the wire type: the payload is read as length-delimited *)
    match read_len_field WT_LEN l with
    | Some (b, r) =>
        match merge_fields (skip_fuel b) (entry_step (depth - 1)) ([], []) b with
        | Some (k, v) =>
            Some ({| dict_version := dict_version d; dict_checksum := dict_checksum d; dict_total := dict_total d; dict_params := dict_params d;
                     dict_comp := dict_comp d; dict_order := dict_order d; dict_descs := dict_descs d; dict_meta := map_insert k v (dict_meta d) |}, r)
        | None => None end
    | None => None end
  else match skip_field (skip_fuel l) depth wt tag l with Some r => Some (d, r) | None => None end.

Definition decode_dict (l : list N) : option dictionary := merge_fields (skip_fuel l) dict_step dict_default l.

(* ---------- encoder (prost encode_raw: tag order, defaults omitted) ---------- *)
Definition enc_uint (tag v : N) : list N := if v =? 0 then [] else encode_key tag WT_VARINT ++ encode_varint v.
Definition enc_bytes (tag : N) (b : list N) : list N :=
  match b with [] => [] | _ => encode_key tag WT_LEN ++ encode_varint (lenN b) ++ b end.
Definition enc_msg (tag : N) (b : list N) : list N := encode_key tag WT_LEN ++ encode_varint (lenN b) ++ b.

Definition encode_desc (d : descriptor) : list N :=
  enc_bytes F_ChunkDescriptor_checksum (d_checksum d) ++ enc_uint F_ChunkDescriptor_archive_size (d_archive_size d)
  ++ enc_uint F_ChunkDescriptor_archive_offset (d_archive_offset d) ++ enc_uint F_ChunkDescriptor_source_size (d_source_size d).

Definition encode_params (p : chunker_params) : list N :=
  enc_uint F_ChunkerParameters_chunk_filter_bits (p_bits p) ++ enc_uint F_ChunkerParameters_min_chunk_size (p_min p)
  ++ enc_uint F_ChunkerParameters_max_chunk_size (p_max p) ++ enc_uint F_ChunkerParameters_rolling_hash_window_size (p_win p)
  ++ enc_uint F_ChunkerParameters_chunk_hash_length (p_hashlen p) ++ enc_uint F_ChunkerParameters_chunking_algorithm (p_algo p).

Definition encode_comp (c : compression) : list N :=
  enc_uint F_ChunkCompression_compression (z_type c) ++ enc_uint F_ChunkCompression_compression_level (z_level c).

Definition encode_entry (kv : list N * list N) : list N := enc_bytes 1 (fst kv) ++ enc_bytes 2 (snd kv).

Definition encode_dict (d : dictionary) : list N :=
  enc_bytes F_ChunkDictionary_application_version (dict_version d)
  ++ enc_bytes F_ChunkDictionary_source_checksum (dict_checksum d)
  ++ enc_uint F_ChunkDictionary_source_total_size (dict_total d)
  ++ (match dict_params d with Some p => enc_msg F_ChunkDictionary_chunker_params (encode_params p) | None => [] end)
  ++ (match dict_comp d with Some c => enc_msg F_ChunkDictionary_chunk_compression (encode_comp c) | None => [] end)
  ++ (match dict_order d with
      | [] => []
      | _ => enc_msg F_ChunkDictionary_rebuild_order (flat_map encode_varint (dict_order d)) end)
  ++ flat_map (fun x => enc_msg F_ChunkDictionary_chunk_descriptors (encode_desc x)) (dict_descs d)
  ++ flat_map (fun kv => enc_msg F_ChunkDictionary_metadata (encode_entry kv)) (dict_meta d).
