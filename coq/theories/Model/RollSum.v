(* Model of bitar/src/rolling_hash/rollsum.rs.
   u32 arithmetic is wrapping (release semantics; `wrapping_add/sub` in the source). The ring buffer
   `window[offset]` is modelled as a queue (oldest byte first); the per-byte sums are compared with the
   implementation by the correspondence suite `hash`. *)
From Bita Require Import Model.Base Gen.Generated.

Record rollsum := { rs_s1 : N; rs_s2 : N; rs_win : list N; rs_w : N }.

Definition rs_new (W : N) : rollsum :=
  {| rs_s1 := w32 (w32 W * CHAR_OFFSET);
     rs_s2 := w32 (w32 (w32 W * w32 (W - 1)) * CHAR_OFFSET);
     rs_win := repeat 0 (N.to_nat W);
     rs_w := W |}.

Definition rs_input (h : rollsum) (b : N) : rollsum :=
  let drop := hd 0 (rs_win h) in
  let s1 := sub32 (w32 (rs_s1 h + b)) drop in
  let s2 := w32 (rs_s2 h + s1) in
  let s2 := sub32 s2 (w32 (w32 (rs_w h) * (drop + CHAR_OFFSET))) in
  {| rs_s1 := s1; rs_s2 := s2; rs_win := tl (rs_win h) ++ [b]; rs_w := rs_w h |}.

Definition rs_sum (h : rollsum) : N :=
  N.lor (w32 (N.shiftl (rs_s1 h) 16)) (N.land (rs_s2 h) 65535).
