(* Model of the archive writers: bitar/src/api/compress.rs::create_archive and
   src/compress_cmd.rs::{chunk_input, compress_cmd} (same pipeline: chunk -> hash -> dedup by full hash ->
   compress -> stored bytes + descriptor table -> header). The strong hash and the compressor are
   parameters. The ordered (`buffered`) stages make the result independent of completion order: the model
   is the sequential function; Generated.v records that every concurrent stage is `buffered`. *)
From Bita Require Import Model.Base Gen.Generated Model.Chunker Model.Proto Model.Archive.

Section Compress.
  Variable H : list N -> list N.
  Variable comp : list N -> list N.        (* Compression::compress with the configured algorithm/level *)

  Record copts := {
    o_cfg : config;
    o_hashlen : N;
    o_comp : option (N * N);               (* (CompressionType value, level) *)
    o_meta : list (list N * list N);       (* BTreeMap: sorted by key *)
    o_version : list N }.

  Definition params_of (cfg : config) (hashlen : N) : chunker_params :=
    match c_algo cfg with
    | AFixed => {| p_bits := 0; p_min := 0; p_max := w32 (c_max cfg); p_win := 0; p_hashlen := w32 hashlen;
                   p_algo := E_ChunkingAlgorithm_FIXED_SIZE |}
    | a => {| p_bits := c_bits cfg; p_min := w32 (c_min cfg); p_max := w32 (c_max cfg); p_win := w32 (c_win cfg);
              p_hashlen := w32 hashlen;
              p_algo := (match a with ABuzHash => E_ChunkingAlgorithm_BUZHASH | _ => E_ChunkingAlgorithm_ROLLSUM end) |}
    end.

  Definition comp_record (c : option (N * N)) : compression :=
    match c with Some (t, l) => {| z_type := t; z_level := l |} | None => {| z_type := E_CompressionType_NONE; z_level := 0 |} end.

  (* position of a full hash in the list of unique hashes *)
  Fixpoint find_hash (h : list N) (l : list (list N)) (i : N) : option N :=
    match l with
    | [] => None
    | x :: r => if list_eqb x h then Some i else find_hash h r (i + 1)
    end.

  (* dedup: unique chunk datas with their hashes in order of first occurrence, and the rebuild order *)
  Fixpoint dedup (datas : list (list N)) (uniq : list (list N * list N)) (order : list N)
    : list (list N * list N) * list N :=
    match datas with
    | [] => (uniq, order)
    | d :: r =>
        let h := H d in
        match find_hash h (map fst uniq) 0 with
        | Some i => dedup r uniq (order ++ [i])
        | None => dedup r (uniq ++ [(h, d)]) (order ++ [lenN uniq])
        end
    end.

  (* what is stored for a chunk: the compressed bytes only when strictly smaller *)
  Definition stored (o : copts) (d : list N) : list N :=
    match o_comp o with
    | None => d
    | Some _ => let c := comp d in if lenN c <? lenN d then c else d
    end.

  Fixpoint descriptors (o : copts) (uniq : list (list N * list N)) (off : N) : list descriptor * list N :=
    match uniq with
    | [] => ([], [])
    | (h, d) :: r =>
        let s := stored o d in
        let '(ds, bytes) := descriptors o r (off + lenN s) in
        ({| d_checksum := takeN (o_hashlen o) h; d_archive_size := w32 (lenN s); d_archive_offset := off;
            d_source_size := w32 (lenN d) |} :: ds, s ++ bytes)
    end.

  Definition compress_dict (src : list N) (o : copts) : outcome (dictionary * list N) :=
    do chunks <- chunk_oneshot (o_cfg o) src;
    let datas := map (fun c => slice src (fst c) (fst c + snd c)) chunks in
    let '(uniq, order) := dedup datas [] [] in
    let '(descs, data) := descriptors o uniq 0 in
    Ok ({| dict_version := o_version o; dict_checksum := H src; dict_total := lenN src;
           dict_params := Some (params_of (o_cfg o) (o_hashlen o)); dict_comp := Some (comp_record (o_comp o));
           dict_order := map w32 order; dict_descs := descs; dict_meta := o_meta o |}, data).

  (* the archive bytes *)
  Definition compress_model (src : list N) (o : copts) : outcome (list N) :=
    do r <- compress_dict src o;
    let '(d, data) := r in
    Ok (build_header H (encode_dict d) None ++ data).
End Compress.
