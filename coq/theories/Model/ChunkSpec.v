(* The specification of content-defined chunking (property C09), written without any hasher state:
   a boundary is placed at the first tested position whose trailing-window hash has all filter bits set,
   else at the maximum size.  Executable (used as a second model in the correspondence suites). *)
From Bita Require Import Model.Base Gen.Generated Model.RollSum Model.BuzHash Model.Chunker.

(* pure window hashes: functions of the window content (oldest byte first) *)
Fixpoint bh_pure (win : list N) : N :=
  match win with
  | [] => 0
  | a :: r => N.lxor (rotl32 (bh_table a) (lenN r)) (bh_pure r)
  end.

Fixpoint rs_pure12 (win : list N) : N * N :=
  match win with
  | [] => (0, 0)
  | a :: r => let '(s1, s2) := rs_pure12 r in (s1 + (a + CHAR_OFFSET), s2 + (lenN r + 1) * (a + CHAR_OFFSET))
  end.

(* the implementation's start value of s2 differs from the window polynomial by a constant *)
Definition rs_const (W : N) : N :=
  sub32 (w32 (w32 (w32 W * w32 (W - 1)) * CHAR_OFFSET)) (w32 (CHAR_OFFSET * (W * (W + 1) / 2))).

Definition rs_pure (W : N) (win : list N) : N :=
  let '(s1, s2) := rs_pure12 win in
  N.lor (w32 (N.shiftl (w32 s1) 16)) (N.land (w32 (s2 + rs_const W)) 65535).

Definition lastN {A} (n : N) (l : list A) : list A := dropN (lenN l - n) l.

Section Spec.
  Variable cfg : config.
  Let W := c_win cfg.

  (* the W bytes ending at stream position e, zero padded before the start of the stream *)
  Definition win_at (data : list N) (e : N) : list N :=
    lastN W (repeat 0 (N.to_nat W) ++ takeN e data).

  Definition pure_sum (win : list N) : N :=
    match c_algo cfg with ABuzHash => bh_pure win | _ => rs_pure W win end.

  Definition pure_match (data : list N) (e : N) : bool :=
    let s := pure_sum (win_at data e) in N.lor s (N.ones (c_bits cfg)) =? s.

  (* positions (chunk start s, length p) at which the hash is tested.
     BuzHash feeds the first W bytes of the stream through init: stream positions <= W are not tested;
     [literal = true] is the reading of C09 under which position W is tested too (known finding F6). *)
  Definition tested (literal : bool) (s p : N) : bool :=
    (N.max (c_min cfg) 1 <=? p) &&
    match c_algo cfg with
    | ABuzHash => if literal then W <=? s + p else W + 1 <=? s + p
    | _ => true
    end.

  Fixpoint spec_scan (literal : bool) (fuel : nat) (data : list N) (total s p : N) : N :=
    match fuel with
    | O => p
    | S f =>
        if (c_max cfg <=? p) || (tested literal s p && pure_match data (s + p)) then p
        else if total <=? s + p then p
        else spec_scan literal f data total s (p + 1)
    end.

  Fixpoint spec_chunks_from (literal : bool) (fuel : nat) (data : list N) (total s : N) : list (N * N) :=
    match fuel with
    | O => []
    | S f =>
        if total <=? s then []
        else let p := spec_scan literal (S (length data)) data total s 1 in
             (s, p) :: spec_chunks_from literal f data total (s + p)
    end.

  Definition spec_chunks (literal : bool) (data : list N) : list (N * N) :=
    match c_algo cfg with
    | AFixed => fixed_chunks (c_max cfg) 0 (lenN data) (S (length data))
    | _ => spec_chunks_from literal (S (length data)) data (lenN data) 0
    end.
End Spec.
