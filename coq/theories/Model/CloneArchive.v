(* The archive phase of a clone at the level of archive bytes: which descriptors are fetched, how each
   payload is decompressed and verified, and what is fed to the output (src/clone_cmd.rs::clone_from_archive
   + Archive::chunk_stream + chunk.rs). The payload source is a parameter so that tampered data and
   misbehaving servers are covered: [payload_of d] is whatever the reader returned for descriptor d. *)
From Bita Require Import Model.Base Model.ChunkIndex Model.CloneOutput Model.Proto Model.Archive.

Section CloneArchive.
  Variable H : list N -> list N.
  Variable decomp : N -> list N -> option (list N).

  Fixpoint unpack_all (a : archive) (payload_of : adesc -> list N) (descs : list adesc)
    : outcome (list (N * list N)) :=
    match descs with
    | [] => Ok []
    | d :: r =>
        do x <- unpack H decomp a d (payload_of d);
        do rest <- unpack_all a payload_of r;
        Ok ((key_of a (ad_checksum d), x) :: rest)
    end.

  (* phases: in-place reorder (optional), seeds, then the chunks still missing from the archive.
     A failing payload (decompression error, hash mismatch) fails the clone. *)
  Definition archive_clone (a : archive) (payload_of : adesc -> list N) (prior : list N)
    (oidx : option index) (seeds : list (N * list N)) : outcome clone_result :=
    let cidx := build_source_index a in
    let r0 := clone_model prior None cidx oidx seeds [] in
    do arch <- unpack_all a payload_of (fetch_descs a (cr_index r0));
    Ok (clone_model prior None cidx oidx seeds arch).

  (* the honest reader: payloads are the stored byte ranges of the archive file *)
  Definition file_payload (f : list N) (d : adesc) : list N := slice f (ad_offset d) (ad_offset d + ad_size d).
  (* File::set_len: truncate or extend with zeros (regular files, after the clone) *)
  Definition set_len (n : N) (f : list N) : list N := takeN n f ++ repeat 0 (N.to_nat (n - lenN f)).

  (* open + clone + resize, as the command does for a regular file without seeds: the whole reader side *)
  Definition open_and_clone (f : list N) : outcome (list N) :=
    do a <- try_init H (file_read_at f);
    do r <- archive_clone a (file_payload f) [] None [];
    match o_err (cr_state r) with
    | Some e => Err e
    | None => Ok (set_len (a_total a) (o_file (cr_state r)))
    end.
End CloneArchive.
