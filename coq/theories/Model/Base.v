(* Base definitions shared by all models: bytes, 32/64-bit words, outcomes. No proofs here. *)
From Coq Require Export NArith List Bool Lia.
Export ListNotations.
Open Scope N_scope.

Definition byte := N.

Definition M32 : N := 4294967296.
Definition M64 : N := 18446744073709551616.
Definition MASK32 : N := 4294967295.

(* wrap to u32 *)
Definition w32 (x : N) : N := N.land x MASK32.

(* u32 subtraction with wrap: a, b < 2^32 *)
Definition sub32 (a b : N) : N := w32 (a + M32 - b).

(* Outcomes of modelled operations: success, reported error, panic (debug build), out of fuel. *)
Inductive outcome (A : Type) :=
| Ok (a : A)
| Err (e : N)          (* error class, see Model/Errors *)
| Panic (p : N)
| OutOfFuel.
Arguments Ok {A} a.
Arguments Err {A} e.
Arguments Panic {A} p.
Arguments OutOfFuel {A}.

Definition bind {A B} (x : outcome A) (f : A -> outcome B) : outcome B :=
  match x with Ok a => f a | Err e => Err e | Panic p => Panic p | OutOfFuel => OutOfFuel end.
Notation "'do' x <- e ; k" := (bind e (fun x => k)) (at level 200, x pattern, e at level 100, k at level 200).

(* checked u64/usize arithmetic: Panic exactly where a debug build panics *)
Definition P_OVERFLOW : N := 1.
Definition P_INDEX : N := 2.
Definition P_DIVZERO : N := 3.
Definition P_UNWRAP : N := 4.
Definition P_SLICE : N := 5.
Definition P_SHIFT : N := 6.
Definition P_ALLOC : N := 7.   (* allocation failure / capacity overflow: abort *)

Definition add64 (a b : N) : outcome N := if a + b <? M64 then Ok (a + b) else Panic P_OVERFLOW.
Definition sub64 (a b : N) : outcome N := if b <=? a then Ok (a - b) else Panic P_OVERFLOW.
Definition mul64 (a b : N) : outcome N := if a * b <? M64 then Ok (a * b) else Panic P_OVERFLOW.
Definition add32c (a b : N) : outcome N := if a + b <? M32 then Ok (a + b) else Panic P_OVERFLOW.
Definition sub32c (a b : N) : outcome N := if b <=? a then Ok (a - b) else Panic P_OVERFLOW.
Definition mul32c (a b : N) : outcome N := if a * b <? M32 then Ok (a * b) else Panic P_OVERFLOW.

(* list helpers with N indices, structural on the list *)
Fixpoint takeN {A} (n : N) (l : list A) : list A :=
  match l with
  | [] => []
  | x :: r => if n =? 0 then [] else x :: takeN (N.pred n) r
  end.
Fixpoint dropN {A} (n : N) (l : list A) : list A :=
  match l with
  | [] => []
  | x :: r => if n =? 0 then l else dropN (N.pred n) r
  end.
Fixpoint lenN {A} (l : list A) : N :=
  match l with [] => 0 | _ :: r => N.succ (lenN r) end.
Fixpoint nthN {A} (n : N) (l : list A) : option A :=
  match l with
  | [] => None
  | x :: r => if n =? 0 then Some x else nthN (N.pred n) r
  end.

(* little-endian encoding of a u64 into 8 bytes, and decoding of a byte list *)
Fixpoint le_bytes (k : nat) (x : N) : list N :=
  match k with O => [] | S k' => N.land x 255 :: le_bytes k' (N.shiftr x 8) end.
Fixpoint le_value (l : list N) : N :=
  match l with [] => 0 | b :: r => b + 256 * le_value r end.

Fixpoint list_eqb (a b : list N) : bool :=
  match a, b with
  | [], [] => true
  | x :: a', y :: b' => (x =? y) && list_eqb a' b'
  | _, _ => false
  end.
