(* Byte-keyed model of bitar/src/hashsum.rs and of the key handling of bitar/src/chunk_index.rs.
   No proofs here. Proofs/HashKeyRefine.v shows that this model is Model/ChunkIndex.v (keys are
   numbers) up to an injective renaming of keys. *)
From Bita Require Import Model.Base Model.ChunkIndex.

Definition hsum := list N.                                   (* the bytes of a HashSum *)
Definition hs_from (v : list N) : hsum := takeN 64 v.         (* HashSum::from: at most 64 bytes *)
Definition hs_truncate (L : N) (h : hsum) : hsum := takeN L h. (* truncate(L) / TruncatedHashSum::sum *)

Definition hindex := list (hsum * loc).                       (* HashMap<HashSum, ChunkLocation>: unique keys *)

(* HashMap::get with the key as it is; key equality is byte-for-byte equality *)
Fixpoint hci_get (idx : hindex) (k : hsum) : option loc :=
  match idx with
  | [] => None
  | (k', l) :: r => if list_eqb k k' then Some l else hci_get r k
  end.

(* ChunkIndex::contains: lookup with TruncatedHashSum { hash, truncate_len: hash_length } *)
Definition hci_contains (L : N) (idx : hindex) (h : hsum) : bool :=
  match hci_get idx (hs_truncate L h) with Some _ => true | None => false end.

Fixpoint hci_remove_key (idx : hindex) (k : hsum) : hindex :=
  match idx with
  | [] => []
  | (k', l) :: r => if list_eqb k k' then r else (k', l) :: hci_remove_key r k
  end.

(* ChunkIndex::remove *)
Definition hci_remove (L : N) (idx : hindex) (h : hsum) : hindex := hci_remove_key idx (hs_truncate L h).

Fixpoint hci_add_key (idx : hindex) (k : hsum) (size : N) (offs : list N) : hindex :=
  match idx with
  | [] => [(k, {| l_size := size; l_offs := fold_left (fun acc o => insert_sorted o acc) offs [] |})]
  | (k', l) :: r =>
      if list_eqb k k'
      then (k', {| l_size := l_size l; l_offs := fold_left (fun acc o => insert_sorted o acc) offs (l_offs l) |}) :: r
      else (k', l) :: hci_add_key r k size offs
  end.

(* ChunkIndex::add_chunk: hash.truncate(hash_length), then entry(hash).or_insert(..) and add offsets *)
Definition hci_add (L : N) (idx : hindex) (h : hsum) (size : N) (offs : list N) : hindex :=
  hci_add_key idx (hs_truncate L h) size offs.
