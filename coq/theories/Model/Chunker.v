(* Model of bitar/src/chunker/{config,rolling_hash,fixed_size,streaming_chunker}.rs. No proofs here.

   Three layers, all executable:
   - [rh_next]   : RollingHashChunker::next on a buffer (init loop, skip_min_chunk, scan_for_boundary,
                   offset carried across calls), offsets are [nat] (buffer positions);
   - [stream_run]: StreamingChunker::poll_next driven by a read schedule (Pending / Read n);
   - [auto_*]    : the byte-at-a-time automaton that Proofs/ChunkerRefine.v shows equal to [rh_next];
                   offsets are [N] so that multi-MiB streams can be run after extraction. *)
From Bita Require Import Model.Base Gen.Generated Model.RollSum Model.BuzHash.

(* ---------- configuration (config.rs) ---------- *)
Inductive algo := ABuzHash | ARollSum | AFixed.
Record config := { c_algo : algo; c_bits : N; c_min : N; c_max : N; c_win : N }.

(* FilterBits::mask: `!0 >> (32 - bits)`; debug builds panic for bits = 0 (shift by 32) and bits > 32 *)
Definition filter_mask (bits : N) : outcome N :=
  if 32 <? bits then Panic P_OVERFLOW
  else if bits =? 0 then Panic P_SHIFT
  else Ok (N.ones bits).

(* ---------- hashers behind the RollingHash trait ---------- *)
Inductive hasher := HRoll (h : rollsum) | HBuz (h : buzhash).
Definition h_init_done (h : hasher) : bool := match h with HRoll _ => true | HBuz b => bh_full b end.
Definition h_init (h : hasher) (x : N) : hasher :=
  match h with HRoll r => HRoll r (* unimplemented!: never called, init_done is true *) | HBuz b => HBuz (bh_init b x) end.
Definition h_input (h : hasher) (x : N) : hasher :=
  match h with HRoll r => HRoll (rs_input r x) | HBuz b => HBuz (bh_input b x) end.
Definition h_sum (h : hasher) : N := match h with HRoll r => rs_sum r | HBuz b => bh_sum b end.
Definition h_matches (mask : N) (h : hasher) : bool := N.lor (h_sum h) mask =? h_sum h.
(* init calls still needed before init_done *)
Definition h_pending (h : hasher) : nat :=
  match h with HRoll _ => O | HBuz b => if bh_full b then O else N.to_nat (bh_w b - bh_index b) end.

(* ---------- RollingHashChunker::next, generic in the hasher ---------- *)
Section Next.
  Variable H : Type.
  Variable init_done : H -> bool.
  Variable init input : H -> N -> H.
  Variable matches : H -> bool.
  Variables limit minsz maxsz : nat.     (* hash_input_limit, min_chunk_size, max_chunk_size *)

  Fixpoint init_loop (h : H) (off : nat) (rest : list N) : H * nat :=
    match rest with
    | [] => (h, off)
    | b :: r => if init_done h then (h, off) else init_loop (init h b) (S off) r
    end.

  Fixpoint scan_loop (h : H) (off : nat) (l : list N) : H * nat * bool :=
    match l with
    | [] => (h, off, false)
    | b :: r => let h' := input h b in
                if matches h' then (h', S off, true) else scan_loop h' (S off) r
    end.

  (* returns (hasher, offset, found_boundary); the caller splits the buffer at offset when found.
     Slices `buf[a..b]` with a > b panic in Rust: [rh_next_panics] below characterises that case. *)
  Definition rh_next (h : H) (off : nat) (buf : list N) : H * nat * bool :=
    let len := length buf in
    let '(h1, off1) := init_loop h off (skipn off buf) in
    let off2 := if (Nat.ltb (0) (limit)) && (Nat.ltb (off1) (limit)) then Nat.min (limit - 1) len else off1 in
    let '(h3, off3) :=
      if (Nat.ltb (0) (minsz)) && (Nat.ltb (off2) (minsz))
      then let e := Nat.min (minsz - 1) len in
           (fold_left input (firstn (e - off2) (skipn off2 buf)) h1, e)
      else (h1, off2) in
    let mb := Nat.min maxsz len in
    let '(h4, off4, found) := scan_loop h3 off3 (firstn (mb - off3) (skipn off3 buf)) in
    (h4, off4, found || (Nat.leb (maxsz) (off4))).

  (* slice-order panics of the two range expressions (buf[off2..e] and buf[off3..mb]) *)
  Definition rh_next_panics (h : H) (off : nat) (buf : list N) : bool :=
    let len := length buf in
    let '(h1, off1) := init_loop h off (skipn off buf) in
    let off2 := if (Nat.ltb (0) (limit)) && (Nat.ltb (off1) (limit)) then Nat.min (limit - 1) len else off1 in
    let p1 := (Nat.ltb (0) (minsz)) && (Nat.ltb (off2) (minsz)) && (Nat.ltb (Nat.min (minsz - 1) len) off2) in
    let off3 := if (Nat.ltb (0) (minsz)) && (Nat.ltb (off2) (minsz)) then Nat.min (minsz - 1) len else off2 in
    p1 || (Nat.ltb (Nat.min maxsz len) (off3)).
End Next.

(* ---------- the Chunker trait: rolling and fixed ---------- *)
Inductive chunker :=
| CkRolling (h : hasher) (mask : N) (limit minsz maxsz : nat) (off : nat)
| CkFixed (size : nat).

(* RollingHashChunker::new + hasher constructors; Panic where a debug build panics *)
Definition new_chunker (c : config) : outcome chunker :=
  match c_algo c with
  | AFixed => Ok (CkFixed (N.to_nat (c_max c)))
  | a =>
      if c_win c =? 0 then Panic P_OVERFLOW      (* `window_size - 1` / `window - (index + 1)` *)
      else
      do mask <- filter_mask (c_bits c);
      let limit := if c_win c <=? c_min c then c_min c - c_win c else 0 in
      let h := match a with ABuzHash => HBuz (bh_new (c_win c)) | _ => HRoll (rs_new (c_win c)) end in
      Ok (CkRolling h mask (N.to_nat limit) (N.to_nat (c_min c)) (N.to_nat (c_max c)) O)
  end.

(* one call of Chunker::next: new chunker state, and Some n when a chunk of n bytes is split off *)
Definition ck_next (c : chunker) (buf : list N) : outcome (chunker * option nat) :=
  match c with
  | CkFixed size =>
      if (Nat.leb (size) (length buf)) then Ok (c, Some size) else Ok (c, None)
  | CkRolling h mask limit minsz maxsz off =>
      if rh_next_panics hasher h_init_done h_init limit minsz maxsz h off buf then Panic P_SLICE else
      let '(h', off', found) := rh_next hasher h_init_done h_init h_input (h_matches mask) limit minsz maxsz h off buf in
      if found then Ok (CkRolling h' mask limit minsz maxsz O, Some off')
      else Ok (CkRolling h' mask limit minsz maxsz off', None)
  end.

(* ---------- StreamingChunker::poll_next over a read schedule ---------- *)
Inductive ev := EvPending | EvRead (n : nat).

(* the loop of poll_next, run until the stream ends; returns the (offset, length) of every item.
   Schedule exhausted = the reader hands over everything that is left. *)
Fixpoint stream_run (fuel : nat) (c : chunker) (start : N) (buf rest : list N) (evs : list ev)
  : outcome (list (N * N)) :=
  match fuel with
  | O => OutOfFuel
  | S f =>
    do r <- (match buf with [] => Ok (c, None) | _ => ck_next c buf end);
    let '(c1, cut) := r in
    match cut with
    | Some n =>
        do more <- stream_run f c1 (start + N.of_nat n) (skipn n buf) rest evs;
        Ok ((start, N.of_nat n) :: more)
    | None =>
        match evs with
        | EvPending :: evs' => stream_run f c1 start buf rest evs'
        | _ =>
          let n := match evs with EvRead n :: _ => n | _ => length rest end in
          let got := firstn n rest in
          match got with
          | [] => (* read returned 0: end of stream *)
              match buf with [] => Ok [] | _ => Ok [(start, N.of_nat (length buf))] end
          | _ => stream_run f c1 start (buf ++ got) (skipn n rest) (tl evs)
          end
        end
    end
  end.

Definition stream_fuel (data : list N) (evs : list ev) : nat := 3 * length data + length evs + 4.

Definition chunk_stream (cfg : config) (data : list N) (evs : list ev) : outcome (list (N * N)) :=
  do c <- new_chunker cfg;
  stream_run (stream_fuel data evs) c 0 [] data evs.

(* ---------- the byte-at-a-time automaton ([N] offsets, runs on large streams) ---------- *)
Section Auto.
  Variable H : Type.
  Variable init_done : H -> bool.
  Variable init input : H -> N -> H.
  Variable matches : H -> bool.
  Variables limit minsz maxsz : N.

  Definition astep (h : H) (off : N) (b : N) : H * bool :=
    if negb (init_done h) then (init h b, false)
    else if (0 <? limit) && (off <? limit - 1) then (h, false)
    else if off <? minsz - 1 then (input h b, false)
    else let h' := input h b in (h', matches h').

  (* chunk the whole stream: (offset, len) list; [off] = bytes of the current chunk seen so far *)
  Fixpoint auto_chunks (h : H) (start off : N) (data : list N) : list (N * N) :=
    match data with
    | [] => if off =? 0 then [] else [(start, off)]
    | b :: r =>
        let '(h', bd) := astep h off b in
        let off' := off + 1 in
        if bd || (maxsz <=? off') then (start, off') :: auto_chunks h' (start + off') 0 r
        else auto_chunks h' start off' r
    end.
End Auto.

Fixpoint fixed_chunks (size : N) (start total : N) (fuel : nat) : list (N * N) :=
  match fuel with
  | O => []
  | S f => if total =? 0 then [] else
           if size <=? total then (start, size) :: fixed_chunks size (start + size) (total - size) f
           else [(start, total)]
  end.

(* reference one-shot chunking by the automaton (valid configurations only) *)
Definition chunk_oneshot (cfg : config) (data : list N) : outcome (list (N * N)) :=
  match c_algo cfg with
  | AFixed => if c_max cfg =? 0 then OutOfFuel
              else Ok (fixed_chunks (c_max cfg) 0 (lenN data) (S (length data)))
  | a =>
      if c_win cfg =? 0 then Panic P_OVERFLOW else
      do mask <- filter_mask (c_bits cfg);
      let limit := if c_win cfg <=? c_min cfg then c_min cfg - c_win cfg else 0 in
      let h := match a with ABuzHash => HBuz (bh_new (c_win cfg)) | _ => HRoll (rs_new (c_win cfg)) end in
      Ok (auto_chunks hasher h_init_done h_init h_input (h_matches mask) limit (c_min cfg) (c_max cfg) h 0 0 data)
  end.

(* valid configurations in the sense of properties C01/C09 *)
Definition valid_config (c : config) : bool :=
  match c_algo c with
  | AFixed => 1 <=? c_max c
  | _ => (1 <=? c_win c) && (c_min c <=? c_max c) && (c_win c <=? c_max c) && (1 <=? c_max c)
         && (1 <=? c_bits c) && (c_bits c <=? 32)
  end.
