(* Model of the command orchestration: src/clone_cmd.rs::clone_archive and src/compress_cmd.rs::compress_cmd
   as sequences of steps over an abstract file-system entry for the output path. The ORDER of the steps and
   the OpenOptions flag expressions come from Gen/Generated.v (re-extracted from the source on every run);
   this file gives each step its meaning. POSIX open semantics are assumed. No proofs here. *)
From Bita Require Import Model.Base Gen.Generated.

Inductive fsent := Absent | Reg (c : list N) | Blk (c : list N).

Inductive akind := AValid | AInvalid.             (* outcome class of Archive::try_init *)
Inductive pin := NoPin | PinMatch | PinMismatch.   (* --verify-header: absent / equal / anything else *)

Inductive eff :=
| EOpenW (target : N) (creat excl trunc : bool) (ok : bool)   (* target 0 = output, 1 = temp file *)
| EUnlink (target : N)
| EWrites                                                      (* chunk data written to the output *)
| ESetLen (n : N).

Record cenv := { e_flags : clone_flags; e_archive : akind; e_pin : pin; e_out : fsent; e_src : list N }.
Record cstate := { s_failed : bool; s_out : fsent; s_eff : list eff }.

(* open(2) with O_CREAT / O_EXCL / O_TRUNC on the output path; Rust: create_new overrides create/truncate *)
Definition open_output (create create_new truncate : bool) (st : cstate) : cstate :=
  if create_new then
    match s_out st with
    | Absent => {| s_failed := false; s_out := Reg []; s_eff := s_eff st ++ [EOpenW 0 true true false true] |}
    | _ => {| s_failed := true; s_out := s_out st; s_eff := s_eff st ++ [EOpenW 0 true true false false] |}
    end
  else
    match s_out st with
    | Absent =>
        if create then {| s_failed := false; s_out := Reg []; s_eff := s_eff st ++ [EOpenW 0 true false truncate true] |}
        else {| s_failed := true; s_out := Absent; s_eff := s_eff st ++ [EOpenW 0 false false truncate false] |}
    | Reg c => {| s_failed := false; s_out := (if truncate then Reg [] else Reg c);
                  s_eff := s_eff st ++ [EOpenW 0 create false truncate true] |}
    | Blk c => {| s_failed := false; s_out := Blk c; s_eff := s_eff st ++ [EOpenW 0 create false truncate true] |}
    end.

Definition content (e : fsent) : list N := match e with Absent => [] | Reg c => c | Blk c => c end.

Definition clone_step_sem (env : cenv) (s : clone_step) (st : cstate) : cstate :=
  if s_failed st then st else
  match s with
  | TryInit => match e_archive env with AValid => st | AInvalid => {| s_failed := true; s_out := s_out st; s_eff := s_eff st |} end
  | PrintArchive => st
  | HeaderCheck => match e_pin env with PinMismatch => {| s_failed := true; s_out := s_out st; s_eff := s_eff st |} | _ => st end
  | OpenOutput => open_output (clone_open_create (e_flags env)) (clone_open_create_new (e_flags env))
                              (clone_open_truncate (e_flags env)) st
  | BlockDevCheck =>
      match s_out st with
      | Blk c => if lenN c <? lenN (e_src env) then {| s_failed := true; s_out := s_out st; s_eff := s_eff st |} else st
      | _ => st
      end
  | ScanOutput | Reorder | SeedStdin | SeedFiles => st
  | FetchArchive =>
      (* after all sources of chunks have been used the first |src| bytes are the source (C02/C03) *)
      let src := e_src env in
      match s_out st with
      | Reg c => {| s_failed := false; s_out := Reg (src ++ dropN (lenN src) c); s_eff := s_eff st ++ [EWrites] |}
      | Blk c => {| s_failed := false; s_out := Blk (src ++ dropN (lenN src) c); s_eff := s_eff st ++ [EWrites] |}
      | Absent => st
      end
  | SetLen =>
      match s_out st with
      | Reg c => {| s_failed := false; s_out := Reg (takeN (lenN (e_src env)) c); s_eff := s_eff st ++ [ESetLen (lenN (e_src env))] |}
      | _ => st
      end
  | VerifyOutput =>
      if c_verify_output (e_flags env) then
        if list_eqb (content (s_out st)) (e_src env) then st
        else {| s_failed := true; s_out := s_out st; s_eff := s_eff st |}
      else st
  end.

Definition run_clone (order : list clone_step) (env : cenv) : cstate :=
  fold_left (fun st s => clone_step_sem env s st) order {| s_failed := false; s_out := e_out env; s_eff := [] |}.

Definition clone_cmd_model (env : cenv) : cstate := run_clone clone_step_order env.

(* ---------- compress ---------- *)
Record zenv := { z_flags : compress_flags; z_out : fsent; z_archive : list N }.

Definition compress_step_sem (env : zenv) (s : compress_step) (st : cstate) : cstate :=
  if s_failed st then st else
  match s with
  | ZOpenOutput => open_output (compress_open_create (z_flags env)) (compress_open_create_new (z_flags env))
                               (compress_open_truncate (z_flags env)) st
  | ZChunkInput => {| s_failed := false; s_out := s_out st;
                      s_eff := s_eff st ++ [EOpenW 1 temp_open_create temp_open_create_new temp_open_truncate true] |}
  | ZBuildHeader => st
  | ZWriteHeader => st
  | ZCopyTemp =>
      (* header and chunk data are written from offset 0 over whatever the opened file holds *)
      {| s_failed := false; s_out := Reg (z_archive env ++ dropN (lenN (z_archive env)) (content (s_out st)));
         s_eff := s_eff st ++ [EWrites] |}
  | ZRemoveTemp => {| s_failed := false; s_out := s_out st; s_eff := s_eff st ++ [EUnlink 1] |}
  | ZPrintInfo => st
  end.

Definition compress_cmd_model (env : zenv) : cstate :=
  fold_left (fun st s => compress_step_sem env s st) compress_step_order
            {| s_failed := false; s_out := z_out env; s_eff := [] |}.
