(* Extraction of the executable models to OCaml for the correspondence runner.
   Only the directives shipped in ExtrOcamlBasic are used: N/positive/nat/Z stay inductive datatypes. *)
Require Extraction.
Require Import ExtrOcamlBasic.
From Bita Require Import Gen.Generated.
From Bita Require Import Model.Base Model.RollSum Model.BuzHash Model.Chunker Model.ChunkSpec Model.ChunkIndex Model.PlannerIter Model.HashSum Model.CloneOutput Model.Proto Model.Archive Model.Compress Model.CloneArchive Model.CloneBytes Model.HttpReader Model.CloneHttpModel Model.Cmd.
Extraction Language OCaml.
Set Extraction KeepSingleton.
Extraction "model.ml"
  rs_new rs_input rs_sum bh_new bh_init bh_input bh_sum bh_full
  chunk_stream chunk_oneshot valid_config filter_mask spec_chunks
  strip_in_place reorder_ops reorder_in_place feed o_init ci_add clone_model
  encode_dict decode_dict try_init file_read_at build_source_index print_archive compress_model unpack fetch_descs PKG_VERSION_LIB PKG_VERSION_CLI source_chunks
  read_chunks_http http_read_at io_read_chunks
  clone_cmd_model compress_cmd_model open_output open_and_clone open_and_clone_bytes open_and_clone_bytes_w http_clone
  reorder_ops_iter hci_add hci_contains hci_remove hci_get hs_from
  N.of_nat N.to_nat.
