(* Property C15 -- untrusted archives/servers yield errors, never panics, aborts or unbounded work.
   In the models every place where the Rust code can panic (overflow, index, slice order, division, shift,
   unwrap) is an explicit [Panic] outcome and every loop has fuel ([OutOfFuel] = unbounded work); the
   theorems say these outcomes are unreachable. *)
From Bita Require Import Model.Base Model.Chunker Model.Proto Model.Archive Model.HttpReader.
From Bita Require Import Proofs.ChunkerRefine Proofs.ArchiveSafe.
From Bita Require Import Model.CloneHttpModel Proofs.CloneHttpSafe.

(* opening ANY byte string as an archive ends in Ok or a reported error *)
Theorem C15_open_total : forall (H : list N -> list N) (f : list N),
  match try_init H (file_read_at f) with Ok _ | Err _ => True | Panic _ | OutOfFuel => False end.
Proof. exact try_init_file_total. Qed.

Theorem C15_open_total_any_reader : forall (H : list N -> list N) read_at, reader_total read_at ->
  match try_init H read_at with Ok _ | Err _ => True | Panic _ | OutOfFuel => False end.
Proof. exact try_init_total. Qed.

(* everything that is done with an accepted archive before chunk data is read is safe: the chunker
   configuration is valid (so scanning seeds / the output never panics and always terminates), every rebuild
   index is in range, every chunk range is addressable, printing the archive does not divide by zero *)
Theorem C15_accepted_archive_safe : forall (H : list N -> list N) read_at a, try_init H read_at = Ok a ->
     valid_config (a_cfg a) = true
  /\ Forall (fun i => i < lenN (a_descs a)) (a_order a)
  /\ Forall (fun d => ad_offset d + ad_size d < 18446744073709551616) (a_descs a)
  /\ (exists avg, print_archive a = Ok avg)
  /\ (exists c, new_chunker (a_cfg a) = Ok c)
  /\ (forall i, In i (a_order a) -> exists d, nthN i (a_descs a) = Some d).
Proof. exact accepted_archive_safe. Qed.

Theorem C15_scan_total : forall (H : list N -> list N) read_at a data evs, try_init H read_at = Ok a ->
  Forall (fun e => e <> EvRead 0) evs -> exists l, chunk_stream (a_cfg a) data evs = Ok l.
Proof. exact accepted_archive_scan_total. Qed.

(* processing ANY responses of a remote server: the whole clone over http against any server script, any archive
   bytes behind it, any hash and codec, ends in Ok or Err -- never a panic outcome, never out of fuel *)
Theorem C15_http_clone_total :
  forall (H : list N -> list N) (decomp : N -> list N -> option (list N)) f retries script,
    match fst (http_clone H decomp f retries script) with Ok _ | Err _ => True | Panic _ | OutOfFuel => False end.
Proof. exact http_clone_total. Qed.

Print Assumptions C15_open_total.
Print Assumptions C15_open_total_any_reader.
Print Assumptions C15_accepted_archive_safe.
Print Assumptions C15_scan_total.
Print Assumptions C15_http_clone_total.
