(* Property C13 -- clone writes only source chunks at their offsets, once, skipping in-place ones. *)
From Bita Require Import Model.Base Model.ChunkIndex Model.CloneOutput Model.CloneSpec.
From Bita Require Import Proofs.Planner Proofs.CloneCorrect Proofs.CloneFinal.

Theorem C13_write_trace_spec :
  forall (D : N -> list N) (src prior : list N) (cidx : index) (oidx : option index)
         (seeds arch : list (N * list N)),
    describes D cidx src -> out_ok D oidx prior ->
    sound_feeds D seeds -> sound_feeds D arch -> arch_complete cidx arch ->
    let ws := writes_of 0 (o_trace (cr_state (clone_model prior None cidx oidx seeds arch))) in
    (forall o d, In (o, d) ws ->
        exists k, occ cidx k o /\ d = D k /\ o + lenN d <= lenN src
                  /\ match oidx with Some oi => ~ occ oi k o | None => True end)
    /\ NoDup (map fst ws).
Proof. exact write_trace_spec_final. Qed.

Example C13_example :
  let cidx := [(1, {| l_size := 3; l_offs := [0] |}); (0, {| l_size := 2; l_offs := [3;5] |})] in
  let oidx := [(0, {| l_size := 2; l_offs := [0] |}); (1, {| l_size := 3; l_offs := [2] |})] in
  writes_of 0 (o_trace (cr_state (clone_model [1;2;3;4;5] None cidx (Some oidx) [] [(1, [3;4;5]); (0, [1;2])])))
  = [(0, [3;4;5]); (3, [1;2]); (5, [1;2])].
Proof. vm_compute. reflexivity. Qed.

Print Assumptions C13_write_trace_spec.
