(* Property C13 -- clone writes only source chunks at their offsets, once, skipping in-place ones. *)
From Bita Require Import Model.Base Model.ChunkIndex Model.CloneOutput Model.CloneSpec.
From Bita Require Import Proofs.Planner Proofs.CloneCorrect Proofs.CloneFinal.
From Bita Require Import Model.Chunker Model.Proto Model.Archive Model.Compress Model.CloneArchive Model.CloneBytes.
From Bita Require Import Proofs.ProtoRoundTrip Proofs.TamperSafe Proofs.RoundTrip Proofs.CloneBytesCorrect Proofs.CloneBytesMore.

Theorem C13_write_trace_spec :
  forall (D : N -> list N) (src prior : list N) (cidx : index) (oidx : option index)
         (seeds arch : list (N * list N)),
    describes D cidx src -> out_ok D oidx prior ->
    sound_feeds D seeds -> sound_feeds D arch -> arch_complete cidx arch ->
    let ws := writes_of 0 (o_trace (cr_state (clone_model prior None cidx oidx seeds arch))) in
    (forall o d, In (o, d) ws ->
        exists k, occ cidx k o /\ d = D k /\ o + lenN d <= lenN src
                  /\ match oidx with Some oi => ~ occ oi k o | None => True end)
    /\ NoDup (map fst ws).
Proof. exact write_trace_spec_final. Qed.

(* The same over raw BYTES (Model/CloneBytes.v): the old output and the seeds are arbitrary byte strings scanned with
   the archive's chunker. For every archive of the model writer, every write of the clone is the bytes of the
   source at that offset, within the source length, at an offset the source index lists for a chunk of that size;
   no offset is written twice; and (in place) an offset where the scan found the source's own chunk already in
   place is never written. *)
Theorem C13_write_economy_bytes :
  forall (H comp : list N -> list N) (decomp : N -> list N -> option (list N)),
    (forall x, lenN (H x) = 64) -> (forall x, Forall (fun b => b < 256) (H x)) ->
    forall src o bytes prior inplace seeds,
      opts_ok o -> bytes_ok src -> lenN src < 18446744073709551616 -> lenN bytes < 18446744073709551616 ->
      codec_ok comp decomp o -> few_chunks o src -> no_collision H o src prior inplace seeds ->
      compress_model H comp src o = Ok bytes ->
      exists a r, try_init H (file_read_at bytes) = Ok a
        /\ clone_bytes H decomp a (file_payload bytes) prior inplace seeds = Ok r
        /\ let ws := writes_of 0 (o_trace (cr_state r)) in
           (forall o' d, In (o', d) ws ->
               slice src o' (o' + lenN d) = d /\ o' + lenN d <= lenN src
               /\ exists k l, ci_get (build_source_index a) k = Some l /\ In o' (l_offs l) /\ l_size l = lenN d)
           /\ NoDup (map fst ws)
           /\ (inplace = true -> forall o' c k l, In (o', c) (scan_chunks a prior) ->
                 ci_get (build_source_index a) k = Some l -> In o' (l_offs l) -> l_size l = lenN c ->
                 slice src o' (o' + lenN c) = c -> ~ In o' (map fst ws)).
Proof. exact compress_clone_bytes_writes. Qed.

Example C13_example :
  let cidx := [(1, {| l_size := 3; l_offs := [0] |}); (0, {| l_size := 2; l_offs := [3;5] |})] in
  let oidx := [(0, {| l_size := 2; l_offs := [0] |}); (1, {| l_size := 3; l_offs := [2] |})] in
  writes_of 0 (o_trace (cr_state (clone_model [1;2;3;4;5] None cidx (Some oidx) [] [(1, [3;4;5]); (0, [1;2])])))
  = [(0, [3;4;5]); (3, [1;2]); (5, [1;2])].
Proof. vm_compute. reflexivity. Qed.

Print Assumptions C13_write_trace_spec.
Print Assumptions C13_write_economy_bytes.
