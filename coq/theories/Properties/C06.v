(* Property C06 -- only chunks missing from seeds and prior output are fetched, each once. *)
From Bita Require Import Model.Base Model.ChunkIndex Model.CloneOutput Model.CloneSpec.
From Bita Require Import Model.Archive Model.CloneArchive.
From Bita Require Import Proofs.Planner Proofs.CloneCorrect Proofs.CloneFinal Proofs.TamperSafe.

(* the chunks requested from the archive are exactly the descriptors, in archive order, whose key was
   found neither by the scan of the prior output (when it is used as seed) nor in any seed; with
   arch_complete (descriptors unique by key) each is requested once *)
Theorem C06_fetch_exact :
  forall (D : N -> list N) (src prior : list N) (cidx : index) (oidx : option index)
         (seeds arch : list (N * list N)),
    describes D cidx src -> out_ok D oidx prior ->
    sound_feeds D seeds -> sound_feeds D arch -> arch_complete cidx arch ->
    cr_fetch (clone_model prior None cidx oidx seeds arch)
    = filter (fun k => negb (found oidx seeds k)) (map fst arch).
Proof. exact fetch_exact_final. Qed.

(* at the level of archive descriptors: the byte ranges read from the archive are those of the descriptors,
   in archive order, whose chunk was found neither in the prior output nor in a seed *)
Theorem C06_archive_fetch_exact :
  forall (H : list N -> list N) (decomp : N -> list N -> option (list N)) (D : N -> list N)
         a src payload_of prior oidx seeds r,
    describes D (build_source_index a) src -> out_ok D oidx prior -> sound_feeds D seeds ->
    desc_keys_ok a -> verified_ok H decomp D a payload_of ->
    archive_clone H decomp a payload_of prior oidx seeds = Ok r ->
    cr_fetch r = map (dkey a) (filter (fun d => negb (found oidx seeds (dkey a d))) (a_descs a)).
Proof. exact archive_fetch_exact. Qed.

Print Assumptions C06_archive_fetch_exact.
Print Assumptions C06_fetch_exact.
