(* Property C06 -- only chunks missing from seeds and prior output are fetched, each once. *)
From Bita Require Import Model.Base Model.ChunkIndex Model.CloneOutput Model.CloneSpec.
From Bita Require Import Model.Archive Model.CloneArchive.
From Bita Require Import Proofs.Planner Proofs.CloneCorrect Proofs.CloneFinal Proofs.TamperSafe.
From Bita Require Import Model.Chunker Model.Proto Model.Compress Model.CloneBytes.
From Bita Require Import Proofs.ProtoRoundTrip Proofs.RoundTrip Proofs.CloneBytesCorrect Proofs.CloneBytesMore.

(* the chunks requested from the archive are exactly the descriptors, in archive order, whose key was
   found neither by the scan of the prior output (when it is used as seed) nor in any seed; with
   arch_complete (descriptors unique by key) each is requested once *)
Theorem C06_fetch_exact :
  forall (D : N -> list N) (src prior : list N) (cidx : index) (oidx : option index)
         (seeds arch : list (N * list N)),
    describes D cidx src -> out_ok D oidx prior ->
    sound_feeds D seeds -> sound_feeds D arch -> arch_complete cidx arch ->
    cr_fetch (clone_model prior None cidx oidx seeds arch)
    = filter (fun k => negb (found oidx seeds k)) (map fst arch).
Proof. exact fetch_exact_final. Qed.

(* at the level of archive descriptors: the byte ranges read from the archive are those of the descriptors,
   in archive order, whose chunk was found neither in the prior output nor in a seed *)
Theorem C06_archive_fetch_exact :
  forall (H : list N -> list N) (decomp : N -> list N -> option (list N)) (D : N -> list N)
         a src payload_of prior oidx seeds r,
    describes D (build_source_index a) src -> out_ok D oidx prior -> sound_feeds D seeds ->
    desc_keys_ok a -> verified_ok H decomp D a payload_of ->
    archive_clone H decomp a payload_of prior oidx seeds = Ok r ->
    cr_fetch r = map (dkey a) (filter (fun d => negb (found oidx seeds (dkey a d))) (a_descs a)).
Proof. exact archive_fetch_exact. Qed.

(* Over raw BYTES (Model/CloneBytes.v): for every archive of the model writer, every old output (scanned when used
   in place) and all seeds, the descriptors fetched from the archive are exactly those, in archive order and each
   once, whose checksum is not the truncated hash of any chunk the chunker finds in the scanned files. *)
Theorem C06_fetch_exact_bytes :
  forall (H comp : list N -> list N) (decomp : N -> list N -> option (list N)),
    (forall x, lenN (H x) = 64) -> (forall x, Forall (fun b => b < 256) (H x)) ->
    forall src o bytes prior inplace seeds,
      opts_ok o -> bytes_ok src -> lenN src < 18446744073709551616 -> lenN bytes < 18446744073709551616 ->
      codec_ok comp decomp o -> few_chunks o src -> no_collision H o src prior inplace seeds ->
      compress_model H comp src o = Ok bytes ->
      exists a r, try_init H (file_read_at bytes) = Ok a
        /\ clone_bytes H decomp a (file_payload bytes) prior inplace seeds = Ok r
        /\ cr_fetch r = map (dkey a)
             (filter (fun d => negb (existsb (fun c => list_eqb (takeN (o_hashlen o) (H c)) (ad_checksum d))
                                             (scanned_cfg (cfg_read (o_cfg o)) prior inplace seeds)))
                     (a_descs a))
        /\ NoDup (cr_fetch r).
Proof. exact compress_clone_bytes_fetch. Qed.

Print Assumptions C06_archive_fetch_exact.
Print Assumptions C06_fetch_exact.
Print Assumptions C06_fetch_exact_bytes.
