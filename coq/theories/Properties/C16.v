(* Property C16 -- clone writes no file but the output; compress leaves only the archive. *)
From Bita Require Import Model.Base Gen.Generated Model.Cmd Proofs.CmdEffects.

Theorem C16_clone_effects : forall env,
  let r := clone_cmd_model env in
  Forall (fun e => match e with EOpenW t _ _ tr _ => t = 0 /\ tr = false | EUnlink _ => False | _ => True end) (s_eff r).
Proof. exact clone_effects. Qed.

Theorem C16_compress_effects : forall env,
  (forall c, z_out env <> Blk c) ->
  let r := compress_cmd_model env in
  s_failed r = false ->
  s_out r = Reg (z_archive env)
  /\ exists cr ex tr, s_eff r = [EOpenW 0 cr ex tr true; EOpenW 1 true false true true; EWrites; EUnlink 1].
Proof. exact compress_effects. Qed.

(* the source of the clone command (regenerated): it contains no call that removes, renames, links, copies or creates
   another file, and exactly one OpenOptions (the output's, whose flags are the ones above) *)
Theorem C16_clone_source_touches_no_other_file :
  clone_source_touches_no_other_file = true /\ clone_open_options_count = 1.
Proof. split; reflexivity. Qed.

(* the whole effect trace of the clone command: a prefix of  open(output, never truncating) ; chunk writes ;
   set_len(|source|) -- at most one open for writing, nothing written before it, the length set only after the writes
   and only to the source length, nothing else; a command that succeeds ran the full sequence (no set_len on a device) *)
Theorem C16_clone_trace_shape : forall env,
  let r := clone_cmd_model env in
  exists cr ex ok k,
    s_eff r = firstn k [EOpenW 0 cr ex false ok; EWrites; ESetLen (lenN (e_src env))]
    /\ (s_failed r = false -> ok = true /\ k = match e_out env with Blk _ => 2%nat | _ => 3%nat end).
Proof. exact clone_trace_shape. Qed.

(* a compress that fails in the model did so at the refused open of the output: no temporary file was created,
   nothing was removed, the output entry is what it was *)
Theorem C16_compress_failed_no_temp : forall env,
  let r := compress_cmd_model env in
  s_failed r = true ->
  exists cr ex tr, s_eff r = [EOpenW 0 cr ex tr false] /\ s_out r = z_out env.
Proof. exact compress_failed_no_temp. Qed.

Print Assumptions C16_clone_effects.
Print Assumptions C16_compress_effects.
Print Assumptions C16_clone_source_touches_no_other_file.
Print Assumptions C16_clone_trace_shape.
Print Assumptions C16_compress_failed_no_temp.
