(* Property C02 -- seeds never change what a clone produces. *)
From Bita Require Import Model.Base Model.ChunkIndex Model.CloneOutput Model.CloneSpec.
From Bita Require Import Model.HashSum.
From Bita Require Import Proofs.Planner Proofs.CloneCorrect Proofs.CloneFinal Proofs.HashKeyRefine.

(* For every source, every prior output (used as seed or not), EVERY list of seed chunks that are what
   their hash says they are (any number, any order, related to the source or not; keys that are not in
   the index are ignored), a clone ends without error with output = source. *)
Theorem C02_clone_with_seeds :
  forall (D : N -> list N) (src prior : list N) (cidx : index) (oidx : option index)
         (seeds arch : list (N * list N)),
    describes D cidx src -> out_ok D oidx prior ->
    sound_feeds D seeds -> sound_feeds D arch -> arch_complete cidx arch ->
    let r := clone_model prior None cidx oidx seeds arch in
    o_err (cr_state r) = None /\ cr_index r = [] /\ takeN (lenN src) (o_file (cr_state r)) = src.
Proof. exact clone_exact_final. Qed.

(* hence the output does not depend on the seeds at all *)
Corollary C02_seeds_irrelevant :
  forall D src prior cidx oidx seeds1 seeds2 arch,
    describes D cidx src -> out_ok D oidx prior ->
    sound_feeds D seeds1 -> sound_feeds D seeds2 -> sound_feeds D arch -> arch_complete cidx arch ->
    takeN (lenN src) (o_file (cr_state (clone_model prior None cidx oidx seeds1 arch)))
    = takeN (lenN src) (o_file (cr_state (clone_model prior None cidx oidx seeds2 arch))).
Proof.
  intros D src prior cidx oidx s1 s2 arch Hd Ho H1 H2 Ha Hc.
  destruct (clone_exact_final D src prior cidx oidx s1 arch Hd Ho H1 Ha Hc) as (_ & _ & E1).
  destruct (clone_exact_final D src prior cidx oidx s2 arch Hd Ho H2 Ha Hc) as (_ & _ & E2).
  cbv zeta in E1, E2. rewrite E1, E2. reflexivity.
Qed.

(* "keys stand for truncated hashes": the index keyed by HashSum bytes with its hash_length (add_chunk
   truncates the key, contains/remove truncate the query) IS the id-keyed index of the theorems above, up to
   any key assignment that is injective on the (truncated) hashes involved; and lookups truncate
   consistently whatever the length of the hash offered. *)
Theorem C02_hash_keyed_index_refines_add : forall (kid : hsum -> N) L idx h size offs,
  inj_on kid (hs_truncate L h :: map fst idx) ->
  abs kid (hci_add L idx h size offs) = ci_add (abs kid idx) (kid (hs_truncate L h)) size offs.
Proof. exact hci_add_refines. Qed.
Theorem C02_hash_keyed_index_refines_remove : forall (kid : hsum -> N) L idx h,
  inj_on kid (hs_truncate L h :: map fst idx) ->
  abs kid (hci_remove L idx h) = ci_remove (abs kid idx) (kid (hs_truncate L h)).
Proof. exact hci_remove_refines. Qed.
Theorem C02_hash_keyed_index_refines_contains : forall (kid : hsum -> N) L idx h,
  inj_on kid (hs_truncate L h :: map fst idx) ->
  hci_contains L idx h = ci_contains (abs kid idx) (kid (hs_truncate L h)).
Proof. exact hci_contains_refines. Qed.
Theorem C02_lookup_truncates_consistently : forall L idx h1 h2, takeN L h1 = takeN L h2 ->
  hci_contains L idx h1 = hci_contains L idx h2 /\ hci_remove L idx h1 = hci_remove L idx h2.
Proof. exact lookup_same_prefix. Qed.

Example C02_example :
  let cidx := [(1, {| l_size := 3; l_offs := [0] |}); (0, {| l_size := 2; l_offs := [3;5] |})] in
  let r := clone_model [] None cidx None [(7, [9;9]); (0, [1;2])] [(1, [3;4;5]); (0, [1;2])] in
  o_err (cr_state r) = None /\ o_file (cr_state r) = [3;4;5;1;2;1;2] /\ cr_fetch r = [1].
Proof. vm_compute. repeat split; reflexivity. Qed.

Print Assumptions C02_clone_with_seeds.
Print Assumptions C02_seeds_irrelevant.
Print Assumptions C02_hash_keyed_index_refines_add.
Print Assumptions C02_hash_keyed_index_refines_remove.
Print Assumptions C02_hash_keyed_index_refines_contains.
Print Assumptions C02_lookup_truncates_consistently.
