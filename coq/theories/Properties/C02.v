(* Property C02 -- seeds never change what a clone produces. *)
From Bita Require Import Gen.Generated.
From Bita Require Import Model.Base Model.ChunkIndex Model.CloneOutput Model.CloneSpec.
From Bita Require Import Model.HashSum.
From Bita Require Import Proofs.Planner Proofs.CloneCorrect Proofs.CloneFinal Proofs.HashKeyRefine.
From Bita Require Import Model.Chunker Model.Proto Model.Archive Model.Compress Model.CloneArchive Model.CloneBytes.
From Bita Require Import Proofs.ProtoRoundTrip Proofs.TamperSafe Proofs.RoundTrip Proofs.CloneBytesCorrect.

(* For every source, every prior output (used as seed or not), EVERY list of seed chunks that are what
   their hash says they are (any number, any order, related to the source or not; keys that are not in
   the index are ignored), a clone ends without error with output = source. *)
Theorem C02_clone_with_seeds :
  forall (D : N -> list N) (src prior : list N) (cidx : index) (oidx : option index)
         (seeds arch : list (N * list N)),
    describes D cidx src -> out_ok D oidx prior ->
    sound_feeds D seeds -> sound_feeds D arch -> arch_complete cidx arch ->
    let r := clone_model prior None cidx oidx seeds arch in
    o_err (cr_state r) = None /\ cr_index r = [] /\ takeN (lenN src) (o_file (cr_state r)) = src.
Proof. exact clone_exact_final. Qed.

(* hence the output does not depend on the seeds at all *)
Corollary C02_seeds_irrelevant :
  forall D src prior cidx oidx seeds1 seeds2 arch,
    describes D cidx src -> out_ok D oidx prior ->
    sound_feeds D seeds1 -> sound_feeds D seeds2 -> sound_feeds D arch -> arch_complete cidx arch ->
    takeN (lenN src) (o_file (cr_state (clone_model prior None cidx oidx seeds1 arch)))
    = takeN (lenN src) (o_file (cr_state (clone_model prior None cidx oidx seeds2 arch))).
Proof.
  intros D src prior cidx oidx s1 s2 arch Hd Ho H1 H2 Ha Hc.
  destruct (clone_exact_final D src prior cidx oidx s1 arch Hd Ho H1 Ha Hc) as (_ & _ & E1).
  destruct (clone_exact_final D src prior cidx oidx s2 arch Hd Ho H2 Ha Hc) as (_ & _ & E2).
  cbv zeta in E1, E2. rewrite E1, E2. reflexivity.
Qed.

(* "keys stand for truncated hashes": the index keyed by HashSum bytes with its hash_length (add_chunk
   truncates the key, contains/remove truncate the query) IS the id-keyed index of the theorems above, up to
   any key assignment that is injective on the (truncated) hashes involved; and lookups truncate
   consistently whatever the length of the hash offered. *)
Theorem C02_hash_keyed_index_refines_add : forall (kid : hsum -> N) L idx h size offs,
  inj_on kid (hs_truncate L h :: map fst idx) ->
  abs kid (hci_add L idx h size offs) = ci_add (abs kid idx) (kid (hs_truncate L h)) size offs.
Proof. exact hci_add_refines. Qed.
Theorem C02_hash_keyed_index_refines_remove : forall (kid : hsum -> N) L idx h,
  inj_on kid (hs_truncate L h :: map fst idx) ->
  abs kid (hci_remove L idx h) = ci_remove (abs kid idx) (kid (hs_truncate L h)).
Proof. exact hci_remove_refines. Qed.
Theorem C02_hash_keyed_index_refines_contains : forall (kid : hsum -> N) L idx h,
  inj_on kid (hs_truncate L h :: map fst idx) ->
  hci_contains L idx h = ci_contains (abs kid idx) (kid (hs_truncate L h)).
Proof. exact hci_contains_refines. Qed.
Theorem C02_lookup_truncates_consistently : forall L idx h1 h2, takeN L h1 = takeN L h2 ->
  hci_contains L idx h1 = hci_contains L idx h2 /\ hci_remove L idx h1 = hci_remove L idx h2.
Proof. exact lookup_same_prefix. Qed.

(* The same at the level of BYTES (Model/CloneBytes.v): the seeds (and the old output, when it is used in place)
   are arbitrary byte strings, scanned with the archive's chunker and hashed with [H] as clone_cmd.rs does. For
   every archive the model writer produces, whatever the seeds and the old output contain, the command yields
   exactly the source -- the only assumption being that the truncated strong hash does not collide on the
   chunks this run looks at (those of the source and those found in the scanned files). *)
Theorem C02_clone_bytes_any_seeds :
  forall (H comp : list N -> list N) (decomp : N -> list N -> option (list N)),
    (forall x, lenN (H x) = 64) -> (forall x, Forall (fun b => b < 256) (H x)) ->
    forall src o bytes prior inplace seeds,
      opts_ok o -> bytes_ok src -> lenN src < 18446744073709551616 -> lenN bytes < 18446744073709551616 ->
      codec_ok comp decomp o -> few_chunks o src -> no_collision H o src prior inplace seeds ->
      compress_model H comp src o = Ok bytes ->
      open_and_clone_bytes H decomp bytes prior inplace seeds = Ok src.
Proof. exact open_and_clone_bytes_correct. Qed.

(* and for ANY opened archive whose index describes a source (C17's freedom), with the scan of seeds and old output *)
Theorem C02_clone_bytes_any_archive :
  forall (H : list N -> list N) (decomp : N -> list N -> option (list N)),
    (forall x, Forall (fun b => b < 256) (H x)) ->
    forall (D : N -> list N) a src payload_of prior inplace seeds,
      describes D (build_source_index a) src -> desc_keys_ok a ->
      (forall d, In d (a_descs a) -> unpack H decomp a d (payload_of d) = Ok (D (dkey a d))) ->
      valid_config (a_cfg a) = true ->
      (forall d, In d (a_descs a) -> trunc a (ad_checksum d) = trunc a (H (D (dkey a d)))) ->
      (forall x y, In x (map (fun d => D (dkey a d)) (a_descs a) ++ scanned a prior inplace seeds) ->
                   In y (map (fun d => D (dkey a d)) (a_descs a) ++ scanned a prior inplace seeds) ->
                   trunc a (H x) = trunc a (H y) -> x = y) ->
      exists r, clone_bytes H decomp a payload_of prior inplace seeds = Ok r
        /\ o_err (cr_state r) = None /\ cr_index r = [] /\ takeN (lenN src) (o_file (cr_state r)) = src.
Proof. exact clone_bytes_general. Qed.

(* non-vacuity: computed instances (RollSum / fixed size, an old output re-ordered in place, one seed, the rest
   fetched) are cb_fixed_inplace_seed, cb_rolling_inplace_seed, cb_instance in Proofs/CloneBytesCorrect.v *)

(* the phases of clone_archive in src/clone_cmd.rs (regenerated from the source on every run) come in the order the
   byte-level model composes them: scan of the old output, re-ordering in place, seeds, archive, resize *)
Definition C02_is_phase (s : clone_step) : bool :=
  match s with ScanOutput | Reorder | SeedStdin | SeedFiles | FetchArchive | SetLen => true | _ => false end.
Theorem C02_clone_phases_in_model_order :
  filter C02_is_phase clone_step_order = [ScanOutput; Reorder; SeedStdin; SeedFiles; FetchArchive; SetLen].
Proof. reflexivity. Qed.

Example C02_example :
  let cidx := [(1, {| l_size := 3; l_offs := [0] |}); (0, {| l_size := 2; l_offs := [3;5] |})] in
  let r := clone_model [] None cidx None [(7, [9;9]); (0, [1;2])] [(1, [3;4;5]); (0, [1;2])] in
  o_err (cr_state r) = None /\ o_file (cr_state r) = [3;4;5;1;2;1;2] /\ cr_fetch r = [1].
Proof. vm_compute. repeat split; reflexivity. Qed.

Print Assumptions C02_clone_with_seeds.
Print Assumptions C02_seeds_irrelevant.
Print Assumptions C02_hash_keyed_index_refines_add.
Print Assumptions C02_hash_keyed_index_refines_remove.
Print Assumptions C02_hash_keyed_index_refines_contains.
Print Assumptions C02_lookup_truncates_consistently.
Print Assumptions C02_clone_bytes_any_seeds.
Print Assumptions C02_clone_bytes_any_archive.
Print Assumptions C02_clone_phases_in_model_order.
