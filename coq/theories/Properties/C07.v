(* Property C07 -- adjacent missing chunks are fetched with a single range request.
   Model: Model/HttpReader.v (ChunkReader + HttpRangeRequest driven by a server script). *)
From Bita Require Import Model.Base Model.HttpReader Proofs.Readers.
From Bita Require Import Model.Chunker Model.Proto Model.Archive Model.Compress Model.CloneArchive Model.CloneBytes.
From Bita Require Import Proofs.ProtoRoundTrip Proofs.RoundTrip Proofs.CloneBytesCorrect Proofs.CloneBytesMore Proofs.CloneHttp.

(* [runs] is a partition of the chunk list into maximal runs of adjacent chunks, in list order *)
Theorem C07_runs_spec : forall chunks,
     concat (runs chunks) = chunks
  /\ Forall (fun run => run <> [] /\ forall a b pre post, run = pre ++ a :: b :: post -> r_end a = r_off b) (runs chunks)
  /\ (forall pre r1 r2 post, runs chunks = pre ++ r1 :: r2 :: post ->
        forall p a b q, r1 = p ++ [a] -> r2 = b :: q -> r_end a <> r_off b).
Proof. exact runs_spec. Qed.

(* in the absence of transfer failures (empty script = every request answered) the request sequence is
   exactly one request per maximal run, from the first byte of its first chunk to the last byte of its
   last chunk, and every chunk is delivered with its bytes -- for every archive, chunk list, retry budget *)
Theorem C07_requests_are_maximal_runs : forall f retries chunks,
  Forall (in_file f) chunks ->
  read_chunks_http f retries [] chunks
  = (map (fun c => IOk (chunk_bytes f c)) chunks, map run_request (runs chunks)).
Proof. exact requests_are_maximal_runs. Qed.

(* End to end (Proofs/CloneHttp.v): WHICH chunks a clone asks the HTTP reader for, composed with HOW the reader
   groups them. For every archive of the model writer, every old output (scanned when used in place) and all
   seeds, the Range requests of the archive phase are exactly one per maximal run of adjacent stored ranges of
   the descriptors whose checksum is the truncated hash of no chunk found in the scanned files, in archive order;
   their number is the number of maximal blocks of consecutive missing descriptors in the table; and the items
   delivered are those descriptors' stored bytes in order. [stored_nonempty]: no chunk is stored as zero bytes
   (a zero-sized range is completed by the reader without any request: zero_size_counterexample). *)
Theorem C07_clone_requests_end_to_end :
  forall (H comp : list N -> list N) (decomp : N -> list N -> option (list N)),
    (forall x, lenN (H x) = 64) -> (forall x, Forall (fun b => b < 256) (H x)) ->
    forall src o bytes prior inplace seeds retries,
      opts_ok o -> bytes_ok src -> lenN src < 18446744073709551616 -> lenN bytes < 18446744073709551616 ->
      codec_ok comp decomp o -> few_chunks o src ->
      no_collision H o src prior inplace seeds -> stored_nonempty comp o src ->
      compress_model H comp src o = Ok bytes ->
      exists a, try_init H (file_read_at bytes) = Ok a
        /\ let missing := filter (missing_by_checksum H o a prior inplace seeds) (a_descs a) in
           clone_http_requests H a bytes retries prior inplace seeds = map run_request (runs (map (desc_range a) missing))
           /\ lenN (clone_http_requests H a bytes retries prior inplace seeds)
              = blocks false (map (missing_by_checksum H o a prior inplace seeds) (a_descs a))
           /\ clone_http_items H a bytes retries prior inplace seeds = map (fun d => IOk (file_payload bytes d)) missing.
Proof. exact compress_clone_http. Qed.

(* a clone that finds nothing to reuse fetches all chunk data of a non-empty source with exactly ONE request, from
   the chunk data offset to the end of the archive *)
Theorem C07_nothing_found_one_request :
  forall (H comp : list N -> list N) (decomp : N -> list N -> option (list N)),
    (forall x, lenN (H x) = 64) -> (forall x, Forall (fun b => b < 256) (H x)) ->
    forall src o bytes prior retries,
      opts_ok o -> bytes_ok src -> lenN src < 18446744073709551616 -> lenN bytes < 18446744073709551616 ->
      codec_ok comp decomp o -> few_chunks o src ->
      no_collision H o src prior false [] -> stored_nonempty comp o src ->
      compress_model H comp src o = Ok bytes -> src <> [] ->
      exists a, try_init H (file_read_at bytes) = Ok a
        /\ clone_http_requests H a bytes retries prior false [] = [(a_data_offset a, lenN bytes - a_data_offset a)]
        /\ clone_http_items H a bytes retries prior false [] = map (fun d => IOk (file_payload bytes d)) (a_descs a).
Proof. exact compress_clone_http_nothing_found. Qed.

Example C07_example :
  let f := map N.of_nat (seq 0 60) in
  let chunks := [ {| r_off := 10; r_size := 7 |}; {| r_off := 17; r_size := 5 |}; {| r_off := 40; r_size := 3 |};
                  {| r_off := 43; r_size := 8 |}; {| r_off := 52; r_size := 4 |} ] in
  snd (read_chunks_http f 0 [] chunks) = [(10, 12); (40, 11); (52, 4)].
Proof. vm_compute. reflexivity. Qed.

Print Assumptions C07_runs_spec.
Print Assumptions C07_requests_are_maximal_runs.
Print Assumptions C07_clone_requests_end_to_end.
Print Assumptions C07_nothing_found_one_request.
