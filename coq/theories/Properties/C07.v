(* Property C07 -- adjacent missing chunks are fetched with a single range request.
   Model: Model/HttpReader.v (ChunkReader + HttpRangeRequest driven by a server script). *)
From Bita Require Import Model.Base Model.HttpReader Proofs.Readers.

(* [runs] is a partition of the chunk list into maximal runs of adjacent chunks, in list order *)
Theorem C07_runs_spec : forall chunks,
     concat (runs chunks) = chunks
  /\ Forall (fun run => run <> [] /\ forall a b pre post, run = pre ++ a :: b :: post -> r_end a = r_off b) (runs chunks)
  /\ (forall pre r1 r2 post, runs chunks = pre ++ r1 :: r2 :: post ->
        forall p a b q, r1 = p ++ [a] -> r2 = b :: q -> r_end a <> r_off b).
Proof. exact runs_spec. Qed.

(* in the absence of transfer failures (empty script = every request answered) the request sequence is
   exactly one request per maximal run, from the first byte of its first chunk to the last byte of its
   last chunk, and every chunk is delivered with its bytes -- for every archive, chunk list, retry budget *)
Theorem C07_requests_are_maximal_runs : forall f retries chunks,
  Forall (in_file f) chunks ->
  read_chunks_http f retries [] chunks
  = (map (fun c => IOk (chunk_bytes f c)) chunks, map run_request (runs chunks)).
Proof. exact requests_are_maximal_runs. Qed.

Example C07_example :
  let f := map N.of_nat (seq 0 60) in
  let chunks := [ {| r_off := 10; r_size := 7 |}; {| r_off := 17; r_size := 5 |}; {| r_off := 40; r_size := 3 |};
                  {| r_off := 43; r_size := 8 |}; {| r_off := 52; r_size := 4 |} ] in
  snd (read_chunks_http f 0 [] chunks) = [(10, 12); (40, 11); (52, 4)].
Proof. vm_compute. reflexivity. Qed.

Print Assumptions C07_runs_spec.
Print Assumptions C07_requests_are_maximal_runs.
