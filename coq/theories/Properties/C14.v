(* Property C14 -- a refused operation leaves the output untouched.
   Model: Model/Cmd.v interpreting the step order and OpenOptions flag expressions that tools/translate.py
   re-extracts from src/clone_cmd.rs and src/compress_cmd.rs into Gen/Generated.v on every run. *)
From Bita Require Import Model.Base Gen.Generated Model.Cmd Proofs.CmdProofs.

Theorem C14_refusal_leaves_output_clone : forall env,
  let r := clone_cmd_model env in
     ((e_archive env = AInvalid \/ e_pin env = PinMismatch) ->
        s_failed r = true /\ s_out r = e_out env /\ s_eff r = [])
  /\ (e_out env <> Absent -> c_force_create (e_flags env) = false -> c_seed_output (e_flags env) = false ->
        s_failed r = true /\ s_out r = e_out env /\ no_write_effect (s_eff r))
  /\ (forall c, e_out env = Blk c -> lenN c < lenN (e_src env) ->
        s_failed r = true /\ s_out r = e_out env /\ ~ In EWrites (s_eff r) /\ (forall n, ~ In (ESetLen n) (s_eff r))).
Proof. exact refusal_leaves_output_clone. Qed.

Theorem C14_refusal_leaves_output_compress : forall env,
  z_out env <> Absent -> z_force_create (z_flags env) = false ->
  let r := compress_cmd_model env in
  s_failed r = true /\ s_out r = z_out env /\ no_write_effect (s_eff r).
Proof. exact refusal_leaves_output_compress. Qed.

(* non-vacuity: an existing regular file, no flags, valid archive: refused, content kept *)
Example C14_example :
  let env := {| e_flags := {| c_force_create := false; c_seed_output := false; c_verify_output := false |};
                e_archive := AValid; e_pin := NoPin; e_out := Reg [1;2;3]; e_src := [9;9] |} in
  s_failed (clone_cmd_model env) = true /\ s_out (clone_cmd_model env) = Reg [1;2;3].
Proof. vm_compute. split; reflexivity. Qed.

(* the --verify-header refusal of the command (regenerated condition): any supplied value that is shorter, longer or
   different from the archive's header checksum is refused, and the refusal precedes every file operation *)
Theorem C14_pin_mismatch_refused : forall o,
  (pin_len_differs o = true \/ pin_prefix_differs o = true) -> pin_refuses o = true.
Proof. intros [[|] [|]]; cbn; intros [Hd|Hd]; try discriminate Hd; reflexivity. Qed.
Theorem C14_pin_checked_before_output : pin_checked_before_output = true.
Proof. reflexivity. Qed.

Print Assumptions C14_refusal_leaves_output_clone.
Print Assumptions C14_refusal_leaves_output_compress.
Print Assumptions C14_pin_mismatch_refused.
Print Assumptions C14_pin_checked_before_output.
