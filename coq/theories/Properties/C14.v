(* Property C14 -- a refused operation leaves the output untouched.
   Model: Model/Cmd.v interpreting the step order and OpenOptions flag expressions that tools/translate.py
   re-extracts from src/clone_cmd.rs and src/compress_cmd.rs into Gen/Generated.v on every run. *)
From Bita Require Import Model.Base Gen.Generated Model.Cmd Proofs.CmdProofs Proofs.CmdExact.

Theorem C14_refusal_leaves_output_clone : forall env,
  let r := clone_cmd_model env in
     ((e_archive env = AInvalid \/ e_pin env = PinMismatch) ->
        s_failed r = true /\ s_out r = e_out env /\ s_eff r = [])
  /\ (e_out env <> Absent -> c_force_create (e_flags env) = false -> c_seed_output (e_flags env) = false ->
        s_failed r = true /\ s_out r = e_out env /\ no_write_effect (s_eff r))
  /\ (forall c, e_out env = Blk c -> lenN c < lenN (e_src env) ->
        s_failed r = true /\ s_out r = e_out env /\ ~ In EWrites (s_eff r) /\ (forall n, ~ In (ESetLen n) (s_eff r))).
Proof. exact refusal_leaves_output_clone. Qed.

Theorem C14_refusal_leaves_output_compress : forall env,
  z_out env <> Absent -> z_force_create (z_flags env) = false ->
  let r := compress_cmd_model env in
  s_failed r = true /\ s_out r = z_out env /\ no_write_effect (s_eff r).
Proof. exact refusal_leaves_output_compress. Qed.

(* non-vacuity: an existing regular file, no flags, valid archive: refused, content kept *)
Example C14_example :
  let env := {| e_flags := {| c_force_create := false; c_seed_output := false; c_verify_output := false |};
                e_archive := AValid; e_pin := NoPin; e_out := Reg [1;2;3]; e_src := [9;9] |} in
  s_failed (clone_cmd_model env) = true /\ s_out (clone_cmd_model env) = Reg [1;2;3].
Proof. vm_compute. split; reflexivity. Qed.

(* the --verify-header refusal of the command (regenerated condition): any supplied value that is shorter, longer or
   different from the archive's header checksum is refused, and the refusal precedes every file operation *)
Theorem C14_pin_mismatch_refused : forall o,
  (pin_len_differs o = true \/ pin_prefix_differs o = true) -> pin_refuses o = true.
Proof. intros [[|] [|]]; cbn; intros [Hd|Hd]; try discriminate Hd; reflexivity. Qed.
Theorem C14_pin_checked_before_output : pin_checked_before_output = true.
Proof. reflexivity. Qed.

(* exactness: the command ends without having written chunk data exactly when one of the four named refusals
   applies (no further, unnamed refusal exists, and a command that is not refused reaches the write stage); whenever it
   ends that way it failed, the output entry is what it was and its length was never set.
   clone_refused env := archive invalid \/ pin mismatch \/ (output present /\ neither --force-create nor --seed-output)
                        \/ (output is a block device shorter than the source) *)
Theorem C14_clone_refusal_exact : forall env,
  let r := clone_cmd_model env in
     (clone_refused env <-> ~ In EWrites (s_eff r))
  /\ (~ In EWrites (s_eff r) ->
        s_failed r = true /\ s_out r = e_out env /\ (forall n, ~ In (ESetLen n) (s_eff r))).
Proof. exact clone_refusal_exact. Qed.

(* compress: refused exactly when the output exists and --force-create is absent; then nothing was written, the
   output entry is what it was, and the temporary file was neither created nor removed *)
Theorem C14_compress_refusal_exact : forall env,
  let r := compress_cmd_model env in
     (compress_refused env <-> ~ In EWrites (s_eff r))
  /\ (~ In EWrites (s_eff r) -> s_failed r = true /\ s_out r = z_out env /\ ~ In (EUnlink 1) (s_eff r)
        /\ (forall a b c d, ~ In (EOpenW 1 a b c d) (s_eff r))).
Proof. exact compress_refusal_exact. Qed.

(* non-vacuity of the other direction: --force-create over an existing longer regular file is NOT refused and ends
   holding exactly the source *)
Example C14_not_refused_example :
  let env := {| e_flags := {| c_force_create := true; c_seed_output := false; c_verify_output := true |};
                e_archive := AValid; e_pin := PinMatch; e_out := Reg [1;2;3]; e_src := [9;9] |} in
  s_failed (clone_cmd_model env) = false /\ s_out (clone_cmd_model env) = Reg [9;9].
Proof. vm_compute. split; reflexivity. Qed.


Print Assumptions C14_refusal_leaves_output_clone.
Print Assumptions C14_refusal_leaves_output_compress.
Print Assumptions C14_pin_mismatch_refused.
Print Assumptions C14_pin_checked_before_output.
Print Assumptions C14_clone_refusal_exact.
Print Assumptions C14_compress_refusal_exact.
