(* Property C09 -- chunking is a pure, read-independent function following the rolling-hash rule.
   This file contains only the property theorems (closed by [exact]), non-vacuity examples and
   Print Assumptions.  Models: Model/Chunker.v, Model/ChunkSpec.v. *)
From Bita Require Import Model.Base Model.RollSum Model.BuzHash Model.Chunker Model.ChunkSpec.
From Bita Require Import Proofs.ChunkerRefine.

(* (1) The chunk list does not depend on read sizes, Pending results or buffer refills: for every valid
   configuration, every data and every read schedule the streaming chunker (buffer-level model of
   RollingHashChunker::next / FixedSizeChunker::next driven by StreamingChunker::poll_next) produces the
   chunks of the byte-at-a-time automaton, and never panics or runs out of fuel. *)
Theorem C09_schedule_independent :
  forall cfg data evs,
    valid_config cfg = true ->
    Forall (fun e => e <> EvRead 0) evs ->
    chunk_stream cfg data evs = chunk_oneshot cfg data.
Proof. exact chunk_stream_schedule_independent. Qed.

Theorem C09_stream_total :
  forall cfg data evs,
    valid_config cfg = true -> Forall (fun e => e <> EvRead 0) evs ->
    exists l, chunk_stream cfg data evs = Ok l.
Proof. exact chunk_stream_ok. Qed.

(* non-vacuity: a concrete valid configuration, stream and schedule *)
Example C09_example :
  let cfg := {| c_algo := ABuzHash; c_bits := 2; c_min := 4; c_max := 16; c_win := 4 |} in
  let data := [0;1;2;3;4;5;6;7;8;9;10;11;12;13;14;15;16;17;18;19;20;21;22;23;24] in
  valid_config cfg = true /\
  chunk_stream cfg data [EvRead 1; EvPending; EvRead 3; EvRead 100] = Ok [(0,13); (13,9); (22,3)].
Proof. vm_compute. split; reflexivity. Qed.

Print Assumptions C09_schedule_independent.
Print Assumptions C09_stream_total.
