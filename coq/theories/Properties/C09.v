(* Property C09 -- chunking is a pure, read-independent function following the rolling-hash rule.
   This file contains only the property theorems (closed by [exact]), non-vacuity examples and
   Print Assumptions.  Models: Model/Chunker.v (code), Model/ChunkSpec.v (stateless specification). *)
From Bita Require Import Model.Base Model.RollSum Model.BuzHash Model.Chunker Model.ChunkSpec.
From Bita Require Import Proofs.ChunkerRefine Proofs.BoundaryRule Proofs.ChunkFinal.

(* (1) The chunk list does not depend on read sizes, Pending results or buffer refills: for every valid
   configuration, every data and every read schedule the streaming chunker (buffer-level model of
   RollingHashChunker::next / FixedSizeChunker::next driven by StreamingChunker::poll_next) produces the
   chunks of the byte-at-a-time automaton, and never panics or runs out of fuel. *)
Theorem C09_schedule_independent :
  forall cfg data evs,
    valid_config cfg = true ->
    Forall (fun e => e <> EvRead 0) evs ->
    chunk_stream cfg data evs = chunk_oneshot cfg data.
Proof. exact chunk_stream_schedule_independent. Qed.

Theorem C09_stream_total :
  forall cfg data evs,
    valid_config cfg = true -> Forall (fun e => e <> EvRead 0) evs ->
    exists l, chunk_stream cfg data evs = Ok l.
Proof. exact chunk_stream_ok. Qed.

(* (2) The boundary rule: the chunks are those of the stateless specification -- a chunk starting at stream
   offset s ends at the first length p >= max(min,1) at which the PURE hash of the W bytes ending at s+p
   (zero padded before the stream start for RollSum) has all filter bits set, else at max, else at the end
   of the data.  Tested positions: every p >= max(min,1); BuzHash additionally never tests stream
   positions <= W (the first W bytes go through init) -- see C09_literal_rule_* below. *)
Theorem C09_boundary_rule :
  forall cfg data evs,
    valid_config cfg = true -> c_win cfg < 4294967296 -> bytes_ok data ->
    Forall (fun e => e <> EvRead 0) evs ->
    chunk_stream cfg data evs = Ok (spec_chunks cfg false data).
Proof. exact stream_is_spec_final. Qed.

(* (3) The chunks tile the stream: offsets contiguous from 0, every chunk non-empty, lengths sum to the
   input length; sizes: every chunk <= max, every chunk but the last >= min (= size for FixedSize). *)
Theorem C09_tiling :
  forall cfg data l,
    valid_config cfg = true -> c_win cfg < 4294967296 -> bytes_ok data ->
    chunk_oneshot cfg data = Ok l -> tiles 0 l (lenN data).
Proof. exact oneshot_tiles_final. Qed.

Theorem C09_sizes :
  forall cfg data l o n,
    valid_config cfg = true -> c_win cfg < 4294967296 -> bytes_ok data ->
    chunk_oneshot cfg data = Ok l -> In (o, n) l ->
    n <= c_max cfg /\ (o + n < lenN data ->
       match c_algo cfg with AFixed => n = c_max cfg | _ => c_min cfg <= n end).
Proof. exact oneshot_sizes_final. Qed.

(* (4) The literal reading of C09 ("first position at or beyond the minimum where the hash of the trailing
   window matches") would also test stream position W for BuzHash. Outside the class {BuzHash, min <= W}
   the two rules coincide; inside it they differ: known finding F6, with a witness. *)
Theorem C09_literal_rule_outside_known_class :
  forall cfg data,
    (c_algo cfg <> ABuzHash \/ c_win cfg < c_min cfg) ->
    spec_chunks cfg true data = spec_chunks cfg false data.
Proof. exact literal_rule_outside_known_class. Qed.

Theorem C09_literal_rule_refuted :
  exists cfg data,
    valid_config cfg = true /\ bytes_ok data /\ c_algo cfg = ABuzHash /\ c_min cfg <= c_win cfg /\
    chunk_oneshot cfg data <> Ok (spec_chunks cfg true data).
Proof. exact literal_rule_refuted. Qed.

(* non-vacuity: a concrete valid configuration, stream and schedule *)
Example C09_example :
  let cfg := {| c_algo := ABuzHash; c_bits := 2; c_min := 4; c_max := 16; c_win := 4 |} in
  let data := [0;1;2;3;4;5;6;7;8;9;10;11;12;13;14;15;16;17;18;19;20;21;22;23;24] in
  valid_config cfg = true /\
  chunk_stream cfg data [EvRead 1; EvPending; EvRead 3; EvRead 100] = Ok [(0,13); (13,9); (22,3)] /\
  spec_chunks cfg false data = [(0,13); (13,9); (22,3)].
Proof. vm_compute. repeat split; reflexivity. Qed.

Print Assumptions C09_schedule_independent.
Print Assumptions C09_stream_total.
Print Assumptions C09_boundary_rule.
Print Assumptions C09_tiling.
Print Assumptions C09_sizes.
Print Assumptions C09_literal_rule_outside_known_class.
Print Assumptions C09_literal_rule_refuted.
