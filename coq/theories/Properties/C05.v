(* Property C05 -- an interrupted clone can always be completed by re-running in place. *)
From Bita Require Import Model.Base Model.ChunkIndex Model.CloneOutput Model.CloneSpec.
From Bita Require Import Gen.Generated Model.OutFile.
From Bita Require Import Proofs.Planner Proofs.CloneCorrect Proofs.CloneFinal Proofs.OutFileProofs.
From Bita Require Import Model.Chunker Model.Proto Model.Archive Model.Compress Model.CloneArchive Model.CloneBytes.
From Bita Require Import Proofs.ProtoRoundTrip Proofs.RoundTrip Proofs.CloneBytesCorrect.

(* (ii) a run in which write number k failed or was cut short (any k below the number of writes of the
   uninterrupted run, any tear length t) never reports success *)
Theorem C05_failed_write_not_ok :
  forall (prior : list N) (cidx : index) (oidx : option index) (seeds arch : list (N * list N)) (k t : N),
    k < o_nwrites (cr_state (clone_model prior None cidx oidx seeds arch)) ->
    o_err (cr_state (clone_model prior None cidx oidx seeds arch)) = None ->
    o_err (cr_state (clone_model prior (Some (k, t)) cidx oidx seeds arch)) <> None.
Proof. exact failed_write_not_ok. Qed.

(* (i) whatever an interrupted run (any fault, in place or not) left in the output, a re-run that uses the
   output as seed -- with whatever the scan [oidx'] finds in it -- reproduces the source. Repeated crashes:
   the statement holds for the output of ANY earlier run, so also for the output of an interrupted re-run. *)
Theorem C05_rerun_completes :
  forall (D : N -> list N) (src prior : list N) (cidx : index) (oidx : option index)
         (seeds arch : list (N * list N)) (fault : option (N * N)),
    let left := o_file (cr_state (clone_model prior fault cidx oidx seeds arch)) in
    forall (oidx' : index) (seeds' : list (N * list N)),
    describes D cidx src -> out_ok D (Some oidx') left ->
    sound_feeds D seeds' -> sound_feeds D arch -> arch_complete cidx arch ->
    let r := clone_model left None cidx (Some oidx') seeds' arch in
    o_err (cr_state r) = None /\ cr_index r = [] /\ takeN (lenN src) (o_file (cr_state r)) = src.
Proof. exact rerun_completes_final. Qed.

(* (ii) at the level of the real output file: tokio's fs::File reports a failed write only at the NEXT write or
   flush. With the flush before the output is finished (a fact re-extracted from src/clone_cmd.rs on every
   run), ANY failed write makes the run fail, on regular files and block devices; without it the failure
   of the last write would be lost (witness). *)
Theorem C05_output_file_reports_failed_write : forall regular fates,
  In false fates -> clone_run clone_flushes_output regular fates = false.
Proof. exact flushed_clone_reports_failed_write. Qed.

Theorem C05_unflushed_would_lose_last_error :
  exists fates, In false fates /\ clone_run false true fates = true.
Proof. exact unflushed_clone_loses_last_error. Qed.

Example C05_example :
  let cidx := [(1, {| l_size := 3; l_offs := [0] |}); (0, {| l_size := 2; l_offs := [3;5] |})] in
  let arch := [(1, [3;4;5]); (0, [1;2])] in
  let r := clone_model [] (Some (1, 1)) cidx None [] arch in
  o_err (cr_state r) <> None /\ o_file (cr_state r) = [3;4;5;1].
Proof. vm_compute. split; [discriminate|reflexivity]. Qed.

(* (i) over raw bytes: WHATEVER bytes [left] an interrupted, failed or killed run (or a chain of such runs) left in
   the output file -- no hypothesis on them at all besides the absence of a hash collision among the chunks the
   re-run looks at --, re-running the clone in place on them (with or without seeds) yields exactly the source.
   The scan of [left], the in-place re-ordering, the seeds, the archive phase and the resize are all in the model. *)
Theorem C05_rerun_on_any_leftover_bytes :
  forall (H comp : list N -> list N) (decomp : N -> list N -> option (list N)),
    (forall x, lenN (H x) = 64) -> (forall x, Forall (fun b => b < 256) (H x)) ->
    forall src o bytes left seeds,
      opts_ok o -> bytes_ok src -> lenN src < 18446744073709551616 -> lenN bytes < 18446744073709551616 ->
      codec_ok comp decomp o -> few_chunks o src -> no_collision H o src left true seeds ->
      compress_model H comp src o = Ok bytes ->
      open_and_clone_bytes H decomp bytes left true seeds = Ok src.
Proof. intros H comp decomp HL HB src o bytes left seeds. exact (open_and_clone_bytes_correct H comp decomp HL HB src o bytes left true seeds). Qed.

Print Assumptions C05_output_file_reports_failed_write.
Print Assumptions C05_unflushed_would_lose_last_error.
Print Assumptions C05_failed_write_not_ok.
Print Assumptions C05_rerun_completes.
Print Assumptions C05_rerun_on_any_leftover_bytes.
