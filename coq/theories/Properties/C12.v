(* Property C12 -- compress is deterministic: same input and options, same archive bytes.
   The writers are: chunker stream -> ordered hashing stage -> sequential dedup -> ordered compression stage ->
   sequential write to a temp file -> header + copy. The theorems: (1) the chunk list does not depend on how
   the input is delivered (C09); (2) an ordered (`buffered`) stage yields the sequential result under every
   completion schedule and window, so the two-stage pipeline computes a fixed function of the chunk list;
   (3) a tokio-style file that is flushed before it is re-opened shows everything written. That every
   concurrent stage of both writers is `buffered` and that the CLI writer flushes its temp file are facts
   re-extracted from the source into Gen/Generated.v and required below to be true. *)
From Bita Require Import Model.Base Gen.Generated Model.Chunker Model.Pipeline Model.Compress.
From Bita Require Import Proofs.ChunkerRefine Proofs.PipelineOrder.

Theorem C12_input_delivery_irrelevant : forall cfg data evs1 evs2,
  valid_config cfg = true ->
  Forall (fun e => e <> EvRead 0) evs1 -> Forall (fun e => e <> EvRead 0) evs2 ->
  chunk_stream cfg data evs1 = chunk_stream cfg data evs2.
Proof.
  intros cfg data e1 e2 Hv H1 H2.
  rewrite (chunk_stream_schedule_independent cfg data e1 Hv H1).
  rewrite (chunk_stream_schedule_independent cfg data e2 Hv H2). reflexivity.
Qed.

Theorem C12_ordered_stage : forall A B n (f : A -> B) xs evs,
  stage_done (stage_run n f xs evs) = true -> st_out (stage_run n f xs evs) = map f xs.
Proof. exact ordered_stage_preserves_order. Qed.

Theorem C12_pipeline_deterministic :
  forall A B C n (hash : A -> B) dedup (compress : B -> C) xs evs1 evs2 out,
  pipeline n hash dedup compress xs evs1 evs2 = Some out -> out = map compress (dedup (map hash xs)).
Proof. exact pipeline_deterministic. Qed.

Theorem C12_flushed_temp_file_complete : forall evs,
  reopen_read (afile_run (evs ++ [FFlush])) = writes_of evs.
Proof. exact flushed_file_complete. Qed.

(* the facts about the current source tree these theorems rely on (Generated.v, regenerated every run) *)
Theorem C12_source_facts :
  lib_writer_stages_ordered = true /\ cli_writer_stages_ordered = true /\
  cli_writer_flushes_temp = true /\ lib_writer_flushes_temp = true /\
  (* the temp file starts empty whatever an earlier run left there: its content is what THIS run wrote *)
  temp_open_truncate = true /\ temp_open_append = false /\ temp_open_create_new = false /\
  (* spawn_blocking inside the ordered stages is the only concurrency in the writers and the clone command *)
  only_ordered_stage_concurrency = true /\
  (* the archive file starts empty too, whatever its path held: new when it may not exist, truncated when it may *)
  (forall o, compress_open_truncate o = z_force_create o) /\
  (forall o, compress_open_create_new o = negb (z_force_create o)) /\
  (forall o, compress_open_append o = false).
Proof. repeat split; reflexivity. Qed.

Print Assumptions C12_input_delivery_irrelevant.
Print Assumptions C12_ordered_stage.
Print Assumptions C12_pipeline_deterministic.
Print Assumptions C12_flushed_temp_file_complete.
Print Assumptions C12_source_facts.
