(* Property C03 -- in-place update is exact for every prior content of the output.
   Only property theorems, non-vacuity examples, Print Assumptions.
   Models: Model/ChunkIndex.v (strip, reorder planner), Model/CloneOutput.v (executor, clone_model),
   vocabulary: Model/CloneSpec.v. [D k] is the content of the chunk with key k: keys stand for truncated
   hashes, i.e. the theorems assume hash injectivity on the chunks involved. *)
From Bita Require Import Gen.Generated.
From Bita Require Import Model.Base Model.ChunkIndex Model.CloneOutput Model.CloneSpec.
From Bita Require Import Model.PlannerIter.
From Bita Require Import Proofs.Planner Proofs.PlannerIterEq Proofs.CloneCorrect Proofs.CloneFinal.
From Bita Require Import Model.Chunker Model.Proto Model.Archive Model.Compress Model.CloneArchive Model.CloneBytes.
From Bita Require Import Proofs.ProtoRoundTrip Proofs.RoundTrip Proofs.CloneBytesCorrect.

(* Planner + executor: for EVERY current layout [cur] of the file (any prior content: the index only has
   to describe chunks that really are in the file, without overlaps) and every target with disjoint
   destinations, executing the planned ops never fails, delivers every reusable chunk to all its target
   offsets, leaves every location not overwritten by a delivery intact (no reusable chunk is destroyed
   before it was copied or buffered), writes only moved chunks at their target offsets, each once. *)
Theorem C03_planner_executor_correct :
  forall (D : N -> list N) (cur tgt : index) (f : list N),
    idx_wf D cur -> idx_wf D tgt ->
    idx_in_file D cur f -> disjoint_occs D cur -> disjoint_occs D tgt ->
    forall st' idx' moved,
    exec_ops (reorder_ops cur tgt) (o_init f None) tgt [] 0 = (st', idx', moved) ->
      o_err st' = None
      /\ (forall k o, occ tgt k o -> ci_contains cur k = true -> holds D (o_file st') o k)
      /\ (forall k o, holds D f o k ->
            (forall k' o', occ tgt k' o' -> ci_contains cur k' = true ->
                 o' + lenN (D k') <= o \/ o + lenN (D k) <= o') ->
            holds D (o_file st') o k)
      /\ idx' = filter (fun e => negb (ci_contains cur (fst e))) tgt
      /\ (forall o d, In (o, d) (writes_of 0 (o_trace st')) ->
            exists k, occ tgt k o /\ ci_contains cur k = true /\ d = D k)
      /\ NoDup (map fst (writes_of 0 (o_trace st')))
      /\ lenN f <= lenN (o_file st').
Proof. exact reorder_exec_correct. Qed.

(* The whole in-place clone: for every source, every prior output content with any scan result [oidx] that
   describes it, any sound seeds, the clone ends without error, nothing is left to fetch and the first
   |src| bytes of the output are the source (the command then truncates a regular file to |src|). *)
Theorem C03_inplace_exact :
  forall (D : N -> list N) (src prior : list N) (cidx oidx : index) (seeds arch : list (N * list N)),
    describes D cidx src ->
    idx_wf D oidx /\ idx_in_file D oidx prior /\ disjoint_occs D oidx ->
    sound_feeds D seeds -> sound_feeds D arch -> arch_complete cidx arch ->
    let r := clone_model prior None cidx (Some oidx) seeds arch in
    o_err (cr_state r) = None /\ cr_index r = [] /\ takeN (lenN src) (o_file (cr_state r)) = src.
Proof. intros D src prior cidx oidx. exact (clone_exact_final D src prior cidx (Some oidx)). Qed.

(* The implementation runs the DFS with an explicit stack (build_reorder_ops); Model/PlannerIter.v models
   that loop statement by statement, and it produces exactly the op list of the recursive formulation the
   theorems above are about -- for all indexes, no side conditions. *)
Theorem C03_explicit_stack_planner_is_recursive_planner :
  forall cur tgt, reorder_ops_iter cur tgt = reorder_ops cur tgt.
Proof. exact reorder_ops_iter_eq. Qed.

(* The in-place update at the level of BYTES (Model/CloneBytes.v): EVERY prior content [prior] of the output file,
   scanned with the archive's chunker and hashed as `bita clone --seed-output` does (the index the scan builds
   is no longer a hypothesis), then re-ordered in place, completed from the seeds and the archive and resized:
   the result is exactly the source. Assumption: no collision of the truncated hash on the chunks of the
   source and the chunks found in the scanned files. *)
Theorem C03_inplace_bytes_exact :
  forall (H comp : list N -> list N) (decomp : N -> list N -> option (list N)),
    (forall x, lenN (H x) = 64) -> (forall x, Forall (fun b => b < 256) (H x)) ->
    forall src o bytes prior seeds,
      opts_ok o -> bytes_ok src -> lenN src < 18446744073709551616 -> lenN bytes < 18446744073709551616 ->
      codec_ok comp decomp o -> few_chunks o src -> no_collision H o src prior true seeds ->
      compress_model H comp src o = Ok bytes ->
      open_and_clone_bytes H decomp bytes prior true seeds = Ok src.
Proof. intros H comp decomp HL HB src o bytes prior seeds. exact (open_and_clone_bytes_correct H comp decomp HL HB src o bytes prior true seeds). Qed.

(* the old output and the seeds do not influence the result *)
Theorem C03_old_output_irrelevant_bytes :
  forall (H comp : list N -> list N) (decomp : N -> list N -> option (list N)),
    (forall x, lenN (H x) = 64) -> (forall x, Forall (fun b => b < 256) (H x)) ->
    forall src o bytes prior1 inplace1 seeds1 prior2 inplace2 seeds2,
      opts_ok o -> bytes_ok src -> lenN src < 18446744073709551616 -> lenN bytes < 18446744073709551616 ->
      codec_ok comp decomp o -> few_chunks o src ->
      no_collision H o src prior1 inplace1 seeds1 -> no_collision H o src prior2 inplace2 seeds2 ->
      compress_model H comp src o = Ok bytes ->
      exists a r1 r2, try_init H (file_read_at bytes) = Ok a
        /\ clone_bytes H decomp a (file_payload bytes) prior1 inplace1 seeds1 = Ok r1
        /\ clone_bytes H decomp a (file_payload bytes) prior2 inplace2 seeds2 = Ok r2
        /\ o_err (cr_state r1) = None /\ o_err (cr_state r2) = None
        /\ takeN (lenN src) (o_file (cr_state r1)) = src
        /\ takeN (lenN src) (o_file (cr_state r2)) = takeN (lenN src) (o_file (cr_state r1)).
Proof. exact seeds_and_old_output_irrelevant_bytes. Qed.

(* the phases of clone_archive in src/clone_cmd.rs (regenerated from the source on every run) come in the order the
   byte-level model composes them: scan of the old output, re-ordering in place, seeds, archive, resize *)
Definition C03_is_phase (s : clone_step) : bool :=
  match s with ScanOutput | Reorder | SeedStdin | SeedFiles | FetchArchive | SetLen => true | _ => false end.
Theorem C03_clone_phases_in_model_order :
  filter C03_is_phase clone_step_order = [ScanOutput; Reorder; SeedStdin; SeedFiles; FetchArchive; SetLen].
Proof. reflexivity. Qed.

(* non-vacuity: a swap with overlap -- source = B A A (chunks A = [1;2], B = [3;4;5]), prior = A B *)
Example C03_example :
  let D := fun k => if k =? 0 then [1;2] else [3;4;5] in
  let cidx := [(1, {| l_size := 3; l_offs := [0] |}); (0, {| l_size := 2; l_offs := [3;5] |})] in
  let oidx := [(0, {| l_size := 2; l_offs := [0] |}); (1, {| l_size := 3; l_offs := [2] |})] in
  let r := clone_model [1;2;3;4;5] None cidx (Some oidx) [] [(1, [3;4;5]); (0, [1;2])] in
  o_err (cr_state r) = None /\ o_file (cr_state r) = [3;4;5;1;2;1;2] /\ cr_fetch r = [].
Proof. vm_compute. repeat split; reflexivity. Qed.

Print Assumptions C03_planner_executor_correct.
Print Assumptions C03_inplace_exact.
Print Assumptions C03_explicit_stack_planner_is_recursive_planner.
Print Assumptions C03_inplace_bytes_exact.
Print Assumptions C03_old_output_irrelevant_bytes.
Print Assumptions C03_clone_phases_in_model_order.
