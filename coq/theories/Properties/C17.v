(* Property C17 -- any archive conforming to the documented format is cloned correctly. *)
From Bita Require Import Model.Base Gen.Generated Model.Proto Model.Archive.
From Bita Require Import Model.ChunkIndex Model.CloneOutput Model.CloneSpec Model.CloneArchive.
From Bita Require Import Proofs.ProtoRoundTrip Proofs.ProtoUnknown Proofs.CloneCorrect Proofs.TamperSafe.

(* unknown dictionary fields (any tag outside the schema; varint, 64-bit, length-delimited or 32-bit wire
   types) anywhere between complete top-level fields do not change what is decoded *)
Theorem C17_unknown_field_skipped : forall a acc' t wt u b,
  reaches a dict_default acc' -> 9 <= t -> t < 536870912 -> payload_ok wt u ->
  decode_dict (a ++ encode_key t wt ++ u ++ b) = decode_dict (a ++ b).
Proof. exact unknown_field_skipped. Qed.

Theorem C17_decode_with_leading_unknown : forall d t wt u,
  dict_wf d -> lenN (encode_dict d) < 18446744073709551616 ->
  9 <= t -> t < 536870912 -> payload_ok wt u ->
  decode_dict (encode_key t wt ++ u ++ encode_dict d) = Some d.
Proof. exact decode_encode_dict_leading_unknown. Qed.

Theorem C17_decode_with_trailing_unknown : forall d t wt u,
  dict_wf d -> lenN (encode_dict d) < 18446744073709551616 ->
  9 <= t -> t < 536870912 -> payload_ok wt u ->
  decode_dict (encode_dict d ++ encode_key t wt ++ u) = Some d.
Proof. exact decode_encode_dict_trailing_unknown. Qed.

(* clone part: ANY accepted archive whose index describes a source (stored chunks anywhere, in any order,
   with gaps, raw or compressed per chunk: only [unpack] of the stored range has to give the chunk) is cloned
   to exactly that source, with or without seeds / in place *)
Theorem C17_conforming_archive_cloned :
  forall (H : list N -> list N) (decomp : N -> list N -> option (list N)) (D : N -> list N)
         a src payload_of prior oidx seeds,
    describes D (build_source_index a) src -> out_ok D oidx prior -> sound_feeds D seeds ->
    desc_keys_ok a ->
    (forall d, In d (a_descs a) -> unpack H decomp a d (payload_of d) = Ok (D (dkey a d))) ->
    exists r, archive_clone H decomp a payload_of prior oidx seeds = Ok r
              /\ o_err (cr_state r) = None /\ cr_index r = [] /\ takeN (lenN src) (o_file (cr_state r)) = src.
Proof. exact genuine_payloads_clone. Qed.

Print Assumptions C17_conforming_archive_cloned.
Print Assumptions C17_unknown_field_skipped.
Print Assumptions C17_decode_with_leading_unknown.
Print Assumptions C17_decode_with_trailing_unknown.
