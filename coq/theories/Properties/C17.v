(* Property C17 -- any archive conforming to the documented format is cloned correctly. *)
From Bita Require Import Model.Base Gen.Generated Model.Proto Model.Archive.
From Bita Require Import Model.ChunkIndex Model.CloneOutput Model.CloneSpec Model.CloneArchive.
From Bita Require Import Proofs.ProtoRoundTrip Proofs.ProtoUnknown Proofs.CloneCorrect Proofs.TamperSafe.
From Bita Require Import Proofs.ProtoFree Proofs.ProtoFreeWire.

(* unknown dictionary fields (any tag outside the schema; varint, 64-bit, length-delimited or 32-bit wire
   types) anywhere between complete top-level fields do not change what is decoded *)
Theorem C17_unknown_field_skipped : forall a acc' t wt u b,
  reaches a dict_default acc' -> 9 <= t -> t < 536870912 -> payload_ok wt u ->
  decode_dict (a ++ encode_key t wt ++ u ++ b) = decode_dict (a ++ b).
Proof. exact unknown_field_skipped. Qed.

Theorem C17_decode_with_leading_unknown : forall d t wt u,
  dict_wf d -> lenN (encode_dict d) < 18446744073709551616 ->
  9 <= t -> t < 536870912 -> payload_ok wt u ->
  decode_dict (encode_key t wt ++ u ++ encode_dict d) = Some d.
Proof. exact decode_encode_dict_leading_unknown. Qed.

Theorem C17_decode_with_trailing_unknown : forall d t wt u,
  dict_wf d -> lenN (encode_dict d) < 18446744073709551616 ->
  9 <= t -> t < 536870912 -> payload_ok wt u ->
  decode_dict (encode_dict d ++ encode_key t wt ++ u) = Some d.
Proof. exact decode_encode_dict_trailing_unknown. Qed.

(* EVERY conforming encoding of a dictionary decodes to it. [free_dict d bytes] (Proofs/ProtoFree.v) is the protobuf
   grammar written from the encoders alone: a sequence of field occurrences in ANY order and interleaving at both
   levels (dictionary and sub-messages); defaults omitted or written explicitly; singular scalars repeated (last
   wins); chunker_params / chunk_compression split into several occurrences (merged); rebuild_order as any mix of
   packed runs and unpacked elements; descriptors in order, each freely encoded; metadata entries in any order;
   unknown fields of wire types 0/1/2/5 anywhere. The writer's own layout is one instance. *)
Theorem C17_free_encoding_decodes : forall d bytes,
  dict_wf d -> lenN bytes < 18446744073709551616 -> free_dict d bytes -> decode_dict bytes = Some d.
Proof. exact free_encoding_decodes. Qed.

Theorem C17_writer_layout_is_one_of_them : forall d, dict_wf d -> free_dict d (encode_dict d).
Proof. exact canonical_is_free. Qed.

(* the same when, in addition, every key, length prefix, scalar and packed element is ANY valid base-128 encoding
   of its value (padded, non-minimal varints of up to 10 bytes): Proofs/ProtoFreeWire.v *)
Theorem C17_wire_encoding_decodes : forall d bytes,
  dict_wf d -> wire_dict d bytes -> decode_dict bytes = Some d.
Proof. exact wire_encoding_decodes. Qed.

Theorem C17_free_is_wire : forall d bytes, lenN bytes < 18446744073709551616 -> free_dict d bytes -> wire_dict d bytes.
Proof. exact free_is_wire. Qed.

(* non-vacuity: ex_bytes (Proofs/ProtoFree.v) is a 94-byte non-canonical encoding -- metadata first with value
   before key, descriptors in reverse field order, unknown fields inside and between, order as unpacked/packed/
   empty runs, params split in two, total overridden -- with free_dict ex_d ex_bytes and ex_bytes <> encode_dict ex_d *)
Example C17_free_example : free_dict ex_d ex_bytes /\ ex_bytes <> encode_dict ex_d /\ decode_dict ex_bytes = Some ex_d.
Proof. split; [exact ex_free|]. split; [exact ex_not_canonical|exact ex_decodes]. Qed.

(* clone part: ANY accepted archive whose index describes a source (stored chunks anywhere, in any order,
   with gaps, raw or compressed per chunk: only [unpack] of the stored range has to give the chunk) is cloned
   to exactly that source, with or without seeds / in place *)
Theorem C17_conforming_archive_cloned :
  forall (H : list N -> list N) (decomp : N -> list N -> option (list N)) (D : N -> list N)
         a src payload_of prior oidx seeds,
    describes D (build_source_index a) src -> out_ok D oidx prior -> sound_feeds D seeds ->
    desc_keys_ok a ->
    (forall d, In d (a_descs a) -> unpack H decomp a d (payload_of d) = Ok (D (dkey a d))) ->
    exists r, archive_clone H decomp a payload_of prior oidx seeds = Ok r
              /\ o_err (cr_state r) = None /\ cr_index r = [] /\ takeN (lenN src) (o_file (cr_state r)) = src.
Proof. exact genuine_payloads_clone. Qed.

Print Assumptions C17_conforming_archive_cloned.
Print Assumptions C17_unknown_field_skipped.
Print Assumptions C17_decode_with_leading_unknown.
Print Assumptions C17_decode_with_trailing_unknown.
Print Assumptions C17_free_encoding_decodes.
Print Assumptions C17_writer_layout_is_one_of_them.
Print Assumptions C17_wire_encoding_decodes.
Print Assumptions C17_free_is_wire.
