(* Property C08 -- archive readers deliver exactly the requested bytes despite fragmentation/faults.
   Model: Model/HttpReader.v. "honest" server: when it answers it sends bytes of the requested range
   (complete, cut by a transfer failure after any prefix, or ending early), or refuses the connection. *)
From Bita Require Import Model.Base Model.HttpReader Proofs.Readers.
From Bita Require Import Model.Chunker Model.Proto Model.Archive Model.Compress Model.CloneArchive Model.CloneBytes Model.CloneHttpModel.
From Bita Require Import Proofs.ProtoRoundTrip Proofs.RoundTrip Proofs.CloneBytesCorrect Proofs.CloneHttp Proofs.CloneHttpSafe.

(* never a short, shifted or duplicated chunk: the items are exactly the first j chunks' bytes, in order,
   followed by at most one error (which ends the stream) *)
Theorem C08_http_items_exact : forall f retries script chunks items log,
  Forall honest script -> Forall (in_file f) chunks ->
  read_chunks_http f retries script chunks = (items, log) ->
  exists j e, (j <= length chunks)%nat /\
    (items = map (fun c => IOk (chunk_bytes f c)) (firstn j chunks)
     \/ items = map (fun c => IOk (chunk_bytes f c)) (firstn j chunks) ++ [IErr e] /\ (j < length chunks)%nat).
Proof. exact http_items_exact. Qed.

(* resumption: every request of one range transfer ends at the same byte; the request sent after the
   requests in [pre] starts exactly at the first byte not yet received (nothing re-requested, nothing lost) *)
Theorem C08_retry_resumes_at_first_missing_byte :
  forall fuel f off size retries script need got0 log0 got script' err pre o s post,
  Forall honest script ->
  range_request fuel f off size retries script need got0 log0 = (got, log0 ++ pre ++ (o, s) :: post, script', err) ->
  exists got_pre script_pre received,
    range_request (length pre) f off size retries script need got0 log0
      = (got_pre, log0 ++ pre, script_pre, Some E_HTTP)
    /\ got_pre = got0 ++ bytes f off received /\ lenN (bytes f off received) = received
    /\ received <= size
    /\ o = off + received /\ s = size - received.
Proof. exact range_request_resume_point. Qed.

(* with no more failing transfers than the retry budget everything is delivered *)
Theorem C08_retries_suffice : forall f retries script chunks,
  Forall (fun it => match it with SOk | SRefuse | SCut _ => True | _ => False end) script ->
  N.of_nat (length (filter failing script)) <= retries ->
  Forall (in_file f) chunks ->
  fst (read_chunks_http f retries script chunks) = map (fun c => IOk (chunk_bytes f c)) chunks.
Proof. exact http_retries_suffice. Qed.

(* the local reader: short reads of any positive size and Pending at any poll do not matter *)
Theorem C08_io_reader_exact : forall f chunks sched,
  Forall (fun e => e <> RRead 0) sched ->
  Forall (fun c => 0 < r_size c \/ r_end c <= lenN f) chunks ->
  io_read_chunks f chunks sched = io_expected f chunks.
Proof. exact io_reader_exact. Qed.

Example C08_example :
  let f := map N.of_nat (seq 0 40) in
  read_chunks_http f 2 [SCut 3; SRefuse; SOk] [ {| r_off := 5; r_size := 4 |}; {| r_off := 9; r_size := 6 |} ]
  = ([IOk [5;6;7;8]; IOk [9;10;11;12;13;14]], [(5, 10); (8, 7); (8, 7)]).
Proof. vm_compute. reflexivity. Qed.

(* a chunk stream never ends early without an error item, whatever the server does (dishonest servers included):
   all chunks with the requested sizes, or a strict prefix followed by exactly one error *)
Theorem C08_stream_complete_or_error : forall f retries script chunks items log,
  read_chunks_http f retries script chunks = (items, log) ->
  (exists ds, items = map IOk ds /\ length ds = length chunks /\ Forall2 (fun d c => lenN d = r_size c) ds chunks)
  \/ (exists ds e, items = map IOk ds ++ [IErr e] /\ (length ds < length chunks)%nat).
Proof. exact read_chunks_http_never_short. Qed.

(* an honest but unreliable server: for every archive of the model writer, every script of answers, refused
   connections and bodies cut anywhere (header requests included) with no more failing transfers than the retry
   budget, the whole clone over http yields exactly the source *)
Theorem C08_clone_over_unreliable_server :
  forall (H comp : list N -> list N) (decomp : N -> list N -> option (list N)),
    (forall x, lenN (H x) = 64) -> (forall x, Forall (fun b => b < 256) (H x)) ->
    forall src o bytes retries script,
      opts_ok o -> bytes_ok src -> lenN src < 18446744073709551616 -> lenN bytes < 18446744073709551616 ->
      codec_ok comp decomp o -> few_chunks o src ->
      no_collision H o src [] false [] -> stored_nonempty comp o src -> compress_model H comp src o = Ok bytes ->
      Forall (fun it => match it with SOk | SRefuse | SCut _ => True | _ => False end) script ->
      N.of_nat (length (filter failing script)) <= retries ->
      exists log, http_clone H decomp bytes retries script = (Ok src, log).
Proof. exact http_clone_unreliable_server. Qed.

Print Assumptions C08_http_items_exact.
Print Assumptions C08_retry_resumes_at_first_missing_byte.
Print Assumptions C08_retries_suffice.
Print Assumptions C08_io_reader_exact.
Print Assumptions C08_stream_complete_or_error.
Print Assumptions C08_clone_over_unreliable_server.
