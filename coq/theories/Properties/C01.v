(* Property C01 -- compress then clone reproduces the source byte-for-byte.
   Model level: the composition of the writer model (Model/Compress.v), the dictionary codec
   (Model/Proto.v), the reader (Model/Archive.v::try_init) and the clone (Model/CloneArchive.v). *)
From Bita Require Import Model.Base Gen.Generated Model.Chunker Model.Proto Model.Archive Model.Compress.
From Bita Require Import Model.CloneOutput Model.CloneArchive.
From Bita Require Import Proofs.ChunkerRefine Proofs.ProtoRoundTrip Proofs.CompressConform Proofs.RoundTrip.
From Bita Require Import Model.HttpReader Model.CloneBytes Model.CloneHttpModel.
From Bita Require Import Proofs.CloneBytesCorrect Proofs.CloneHttp Proofs.CloneHttpSafe.

(* For every source, every valid configuration / hash length 1..64 / none or brotli compression / metadata,
   with [H] any 64-byte hash that does not collide (after truncation) on the chunks of this source and a
   codec that round-trips: the archive the writer produces is accepted by the reader and cloning it yields
   exactly the source. [few_chunks]: fewer than 2^32 chunks (the rebuild order stores u32 indexes). *)
Theorem C01_roundtrip :
  forall (H comp : list N -> list N) (decomp : N -> list N -> option (list N)),
    (forall x, lenN (H x) = 64) -> (forall x, Forall (fun b => b < 256) (H x)) ->
    forall src o bytes,
      opts_ok o -> bytes_ok src -> lenN src < 18446744073709551616 -> lenN bytes < 18446744073709551616 ->
      codec_ok comp decomp o -> trunc_inj H o src -> few_chunks o src ->
      compress_model H comp src o = Ok bytes ->
      exists a r, try_init H (file_read_at bytes) = Ok a
        /\ archive_clone H decomp a (file_payload bytes) [] None [] = Ok r
        /\ o_err (cr_state r) = None /\ cr_index r = []
        /\ takeN (lenN src) (o_file (cr_state r)) = src.
Proof. exact roundtrip. Qed.

(* the archive records the source's true size and checksum, and the settings that were requested *)
Theorem C01_archive_records_source :
  forall (H comp : list N -> list N),
    (forall x, lenN (H x) = 64) -> (forall x, Forall (fun b => b < 256) (H x)) ->
    forall src o bytes,
      opts_ok o -> bytes_ok src -> lenN src < 18446744073709551616 -> lenN bytes < 18446744073709551616 ->
      compress_model H comp src o = Ok bytes ->
      exists a, try_init H (file_read_at bytes) = Ok a
        /\ a_total a = lenN src /\ a_source_checksum a = H src
        /\ a_cfg a = cfg_read (o_cfg o)
        /\ a_hashlen a = o_hashlen o /\ a_comp a = o_comp o
        /\ a_meta a = o_meta o /\ a_version a = o_version o
        /\ a_data_offset a = a_header_size a.
Proof. exact reader_reports_writer. Qed.

(* read fragmentation and Pending do not matter for what is chunked (C09) *)
Theorem C01_input_delivery_irrelevant : forall cfg data evs,
  valid_config cfg = true -> Forall (fun e => e <> EvRead 0) evs ->
  chunk_stream cfg data evs = chunk_oneshot cfg data.
Proof. exact chunk_stream_schedule_independent. Qed.

(* ... and over HTTP: the same archive cloned through the HTTP reader model from a server that answers every request
   yields the source with exactly three requests: the pre-header, the rest of the header, all chunk data *)
Theorem C01_roundtrip_over_http :
  forall (H comp : list N -> list N) (decomp : N -> list N -> option (list N)),
    (forall x, lenN (H x) = 64) -> (forall x, Forall (fun b => b < 256) (H x)) ->
    forall src o bytes retries,
      opts_ok o -> bytes_ok src -> lenN src < 18446744073709551616 -> lenN bytes < 18446744073709551616 ->
      codec_ok comp decomp o -> few_chunks o src ->
      no_collision H o src [] false [] -> stored_nonempty comp o src -> compress_model H comp src o = Ok bytes ->
      exists a, try_init H (file_read_at bytes) = Ok a
        /\ http_clone H decomp bytes retries []
           = (Ok src, [(0, 14); (14, a_header_size a - 14)]
                      ++ match src with [] => [] | _ :: _ => [(a_data_offset a, lenN bytes - a_data_offset a)] end).
Proof. exact http_clone_reliable_server. Qed.

(* the command resizes every regular output file to the source length (regenerated fact: the set_len call is guarded by
   "not a block device" and by nothing else), whatever was in the file before and however it was opened *)
Theorem C01_regular_output_always_resized : set_len_only_regular = true.
Proof. reflexivity. Qed.

Print Assumptions C01_roundtrip.
Print Assumptions C01_archive_records_source.
Print Assumptions C01_input_delivery_irrelevant.
Print Assumptions C01_roundtrip_over_http.
Print Assumptions C01_regular_output_always_resized.
