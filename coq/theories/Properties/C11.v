(* Property C11 -- written archives conform to the documented format and report settings verbatim.
   Models: Model/Compress.v (writers), Model/Proto.v (prost codec), Model/Archive.v (header). *)
From Bita Require Import Model.Base Gen.Generated Model.Proto Model.Archive Model.Compress.
From Bita Require Import Proofs.ProtoRoundTrip.

(* the dictionary codec: what the writer encodes is what a reader following the schema decodes *)
Theorem C11_decode_encode_dict : forall d, dict_wf d ->
  lenN (encode_dict d) < 18446744073709551616 ->
  decode_dict (encode_dict d) = Some d.
Proof. exact decode_encode_dict. Qed.

Print Assumptions C11_decode_encode_dict.
