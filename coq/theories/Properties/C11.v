(* Property C11 -- written archives conform to the documented format and report settings verbatim.
   Models: Model/Compress.v (writers), Model/Proto.v (prost codec), Model/Archive.v (header). *)
From Bita Require Import Model.Base Gen.Generated Model.Proto Model.Archive Model.Compress.
From Bita Require Import Model.Chunker Proofs.BoundaryRule Proofs.ProtoRoundTrip Proofs.CompressConform Proofs.RoundTrip.

(* the dictionary codec: what the writer encodes is what a reader following the schema decodes *)
Theorem C11_decode_encode_dict : forall d, dict_wf d ->
  lenN (encode_dict d) < 18446744073709551616 ->
  decode_dict (encode_dict d) = Some d.
Proof. exact decode_encode_dict. Qed.

(* conformance of what the writers produce (model level): one descriptor per distinct chunk (distinct by
   full hash), checksum = truncated hash, stored back to back from offset 0 with the data section exactly the
   stored bytes, stored size <= source size (raw unless strictly smaller), rebuild indexes valid, in order
   of first occurrence, and -- absent a hash collision among the chunks of this source -- rebuilding the
   source; size, checksum, chunker parameters, compression, metadata and version recorded verbatim *)
Theorem C11_compress_conforming :
  forall (H comp : list N -> list N) (src : list N) (o : copts) (d : dictionary) (data : list N),
    valid_config (o_cfg o) = true ->
    compress_dict H comp src o = Ok (d, data) ->
    exists uniq : list (list N),
         length uniq = length (dict_descs d) /\ NoDup (map H uniq) /\ Forall (fun x => 0 < lenN x) uniq
      /\ Forall2 (fun x dsc => d_checksum dsc = takeN (o_hashlen o) (H x)
                               /\ d_source_size dsc = w32 (lenN x)
                               /\ d_archive_size dsc = w32 (lenN (stored comp o x))) uniq (dict_descs d)
      /\ contiguous 0 (map (fun x => lenN (stored comp o x)) uniq) (dict_descs d)
      /\ data = concat (map (stored comp o) uniq)
      /\ Forall (fun x => lenN (stored comp o x) <= lenN x
                          /\ (stored comp o x = x \/ (stored comp o x = comp x /\ lenN (comp x) < lenN x))) uniq
      /\ Forall (fun i => i < lenN uniq) (dict_order d)
      /\ first_occ_ordered 0 (dict_order d)
      /\ (lenN uniq < 4294967296 ->
          (forall chunks, chunk_oneshot (o_cfg o) src = Ok chunks -> collision_free H (chunk_datas src chunks)) ->
          concat (map (fun i => match nthN i uniq with Some x => x | None => [] end) (dict_order d)) = src)
      /\ dict_total d = lenN src /\ dict_checksum d = H src
      /\ dict_params d = Some (params_of (o_cfg o) (o_hashlen o))
      /\ dict_comp d = Some (comp_record (o_comp o))
      /\ dict_meta d = o_meta o /\ dict_version d = o_version o.
Proof. exact compress_conforming. Qed.

(* documented header layout: magic, little-endian dictionary size, dictionary, chunk data offset (= header
   length when the writer computes it), hash of everything before it *)
Theorem C11_header_layout : forall (H : list N -> list N) dictb off,
  lenN dictb < 18446744073709551616 ->
  let h := build_header H dictb off in
  let n := lenN dictb in
     takeN 6 h = ARCHIVE_MAGIC
  /\ slice h 6 14 = le_bytes 8 n
  /\ slice h 14 (14 + n) = dictb
  /\ slice h (14 + n) (14 + n + 8) = le_bytes 8 (match off with Some o => o | None => 14 + n + 8 + 64 end)
  /\ dropN (14 + n + 8) h = H (takeN (14 + n + 8) h)
  /\ (lenN (H (takeN (14 + n + 8) h)) = 64 -> lenN h = 14 + n + 8 + 64).
Proof. exact build_header_layout. Qed.

Theorem C11_archive_is_header_then_chunks : forall (H comp : list N -> list N) src o bytes d data,
  compress_dict H comp src o = Ok (d, data) -> compress_model H comp src o = Ok bytes ->
  bytes = build_header H (encode_dict d) None ++ data.
Proof. exact compress_model_layout. Qed.

(* the reader reports back what the writer was asked to record *)
Theorem C11_reader_reports_writer :
  forall (H comp : list N -> list N),
    (forall x, lenN (H x) = 64) -> (forall x, Forall (fun b => b < 256) (H x)) ->
    forall src o bytes,
      opts_ok o -> bytes_ok src -> lenN src < 18446744073709551616 -> lenN bytes < 18446744073709551616 ->
      compress_model H comp src o = Ok bytes ->
      exists a, try_init H (file_read_at bytes) = Ok a
        /\ a_total a = lenN src /\ a_source_checksum a = H src
        /\ a_cfg a = cfg_read (o_cfg o)
        /\ a_hashlen a = o_hashlen o /\ a_comp a = o_comp o
        /\ a_meta a = o_meta o /\ a_version a = o_version o
        /\ a_data_offset a = a_header_size a.
Proof. exact reader_reports_writer. Qed.

(* the CLI writer's archive file holds nothing but what this run writes (so that it ends with the last chunk): the
   path is new, or -- with --force-create -- truncated when opened; never appended to (Generated.v, regenerated) *)
Theorem C11_archive_file_starts_empty :
  (forall o, compress_open_write o = true) /\
  (forall o, compress_open_truncate o = z_force_create o) /\
  (forall o, compress_open_create_new o = negb (z_force_create o)) /\
  (forall o, compress_open_append o = false).
Proof. repeat split; reflexivity. Qed.

Print Assumptions C11_reader_reports_writer.
Print Assumptions C11_compress_conforming.
Print Assumptions C11_header_layout.
Print Assumptions C11_archive_is_header_then_chunks.
Print Assumptions C11_decode_encode_dict.
Print Assumptions C11_archive_file_starts_empty.
