(* Property C10 -- chunk boundaries resynchronise after differing prefixes. *)
From Bita Require Import Model.Base Model.Chunker Model.ChunkSpec.
From Bita Require Import Proofs.ChunkerRefine Proofs.BoundaryRule Proofs.Resync Proofs.ChunkFinal.

(* If P1 ++ S and P2 ++ S both have a chunk boundary at position k of S, at least one window past the start
   of S, all later chunks are identical up to the offset shift -- for the model of the chunker itself (the
   automaton with carried hasher state), all three algorithms (FixedSize: aligned prefixes). *)
Theorem C10_resync :
  forall cfg P1 P2 S k l1 l2,
    valid_config cfg = true -> c_win cfg < 4294967296 -> bytes_ok (P1 ++ S) -> bytes_ok (P2 ++ S) ->
    c_win cfg <= k -> 0 < k ->
    (c_algo cfg = AFixed -> (lenN P1) mod (c_max cfg) = 0 /\ (lenN P2) mod (c_max cfg) = 0) ->
    chunk_oneshot cfg (P1 ++ S) = Ok l1 -> chunk_oneshot cfg (P2 ++ S) = Ok l2 ->
    ends_at l1 (lenN P1 + k) -> ends_at l2 (lenN P2 + k) ->
    shift (lenN P1) (after (lenN P1 + k) l1) = shift (lenN P2) (after (lenN P2 + k) l2).
Proof. exact oneshot_resync_final. Qed.

(* the same under any read schedules of the two streams *)
Corollary C10_resync_streams :
  forall cfg P1 P2 S k l1 l2 evs1 evs2,
    valid_config cfg = true -> c_win cfg < 4294967296 -> bytes_ok (P1 ++ S) -> bytes_ok (P2 ++ S) ->
    Forall (fun e => e <> EvRead 0) evs1 -> Forall (fun e => e <> EvRead 0) evs2 ->
    c_win cfg <= k -> 0 < k ->
    (c_algo cfg = AFixed -> (lenN P1) mod (c_max cfg) = 0 /\ (lenN P2) mod (c_max cfg) = 0) ->
    chunk_stream cfg (P1 ++ S) evs1 = Ok l1 -> chunk_stream cfg (P2 ++ S) evs2 = Ok l2 ->
    ends_at l1 (lenN P1 + k) -> ends_at l2 (lenN P2 + k) ->
    shift (lenN P1) (after (lenN P1 + k) l1) = shift (lenN P2) (after (lenN P2 + k) l2).
Proof.
  intros cfg P1 P2 S k l1 l2 evs1 evs2 Hv Hw Hb1 Hb2 He1 He2 Hk Hk0 Hf E1 E2.
  rewrite (chunk_stream_schedule_independent cfg _ evs1 Hv He1) in E1.
  rewrite (chunk_stream_schedule_independent cfg _ evs2 Hv He2) in E2.
  eapply oneshot_resync_final; eassumption.
Qed.

(* non-vacuity: two prefixes, common boundary at S+9, identical chunks afterwards *)
Example C10_example :
  let cfg := {| c_algo := ARollSum; c_bits := 1; c_min := 2; c_max := 6; c_win := 2 |} in
  let S := [7;1;9;3;3;8;2;6;5;5;1;4;9;9;2;4;4;1;0;7] in
  let l1 := [(0, 3); (3, 2); (5, 2); (7, 5); (12, 2); (14, 2); (16, 5); (21, 2)] in
  let l2 := [(0, 2); (2, 2); (4, 2); (6, 4); (10, 2); (12, 2); (14, 5); (19, 2)] in
  chunk_oneshot cfg ([1;2;3] ++ S) = Ok l1 /\ chunk_oneshot cfg ([9] ++ S) = Ok l2 /\
  ends_at l1 (3 + 9) /\ ends_at l2 (1 + 9) /\
  shift 3 (after (3 + 9) l1) = [(9, 2); (11, 2); (13, 5); (18, 2)] /\
  shift 1 (after (1 + 9) l2) = [(9, 2); (11, 2); (13, 5); (18, 2)].
Proof.
  cbv zeta. split; [vm_compute; reflexivity|]. split; [vm_compute; reflexivity|].
  split; [exists 7, 5; split; [cbn; tauto|reflexivity]|].
  split; [exists 6, 4; split; [cbn; tauto|reflexivity]|].
  split; vm_compute; reflexivity.
Qed.

Print Assumptions C10_resync.
Print Assumptions C10_resync_streams.
